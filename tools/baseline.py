#!/usr/bin/env python3
"""Runs the pinned suite with the verif guard OFF and compares with /root/.vp/BASELINE.json stable_pass."""
import json, subprocess, os, sys
env = dict(os.environ, GOFLAGS="-mod=mod", GOPROXY="off", GOSUMDB="off", GOTOOLCHAIN="local")
p = subprocess.run(["go", "test", "-json", "-vet=off", "-count=1", "-timeout", "25m", "./..."], cwd="/repo/teamserver", env=env, stdout=subprocess.PIPE, stderr=subprocess.DEVNULL, text=True)
res = {}
for line in p.stdout.splitlines():
    try:
        e = json.loads(line)
    except ValueError:
        continue
    if e.get("Test") and e.get("Action") in ("pass", "fail", "skip"):
        res[e["Package"] + "::" + e["Test"]] = e["Action"]
base = json.load(open("/root/.vp/BASELINE.json"))["stable_pass"]
bad = [t for t in base if res.get(t) != "pass"]
print("stable_pass tests: %d, passing now: %d" % (len(base), len(base) - len(bad)))
for t in bad[:20]:
    print("  NOT PASSING:", t, res.get(t))
sys.exit(1 if bad else 0)
