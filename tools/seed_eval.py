#!/usr/bin/env python3
"""seed_eval.py <pid lower, e.g. c05> [N ...]: verifies seeded changes delivered by an independent
sub-agent in /tmp/seed-<pid>/SEED/<N>/ and runs our check(s) against them.

For each N: apply patch in the seed worktree -> build -> demo must FAIL -> pinned suite must be unchanged
-> run ./check <PID> (and extra checks given with --also) with VERIF_TS_DIR=<worktree>/teamserver
-> revert -> demo must PASS. Results are copied to /verif/seeded/<PID>-<N>/ (patch.diff, demo/, meta.json)."""
import json, os, shutil, subprocess, sys, argparse

ap = argparse.ArgumentParser()
ap.add_argument("pid")
ap.add_argument("ns", nargs="*")
ap.add_argument("--also", default="")
ap.add_argument("--shards", default="8")
ap.add_argument("--skip-suite", action="store_true")
ap.add_argument("--wt", default="", help="worktree (default /tmp/seed-<pid>)")
ap.add_argument("--offset", type=int, default=0, help="added to N for the id under /verif/seeded (second round)")
a = ap.parse_args()
pid = a.pid.lower()
PID = pid.upper()
wt = a.wt or "/tmp/seed-" + pid
env = dict(os.environ, GOFLAGS="-mod=mod", GOPROXY="off", GOSUMDB="off", GOTOOLCHAIN="local")
base = json.load(open("/root/.vp/BASELINE.json"))["stable_pass"]

def sh(cmd, cwd=None, e=None, timeout=3600):
    return subprocess.run(cmd, shell=True, cwd=cwd, env=e or env, capture_output=True, text=True, timeout=timeout)

def suite_ok():
    p = sh("go test -json -vet=off -count=1 -timeout 25m ./...", cwd=wt + "/teamserver")
    res = {}
    for line in p.stdout.splitlines():
        try:
            ev = json.loads(line)
        except ValueError:
            continue
        if ev.get("Test") and ev.get("Action") in ("pass", "fail", "skip"):
            res[ev["Package"] + "::" + ev["Test"]] = ev["Action"]
    bad = [t for t in base if res.get(t) != "pass"]
    return bad

ns = a.ns or sorted(d for d in os.listdir(wt + "/SEED") if d.isdigit())
for n in ns:
    sd = "%s/SEED/%s" % (wt, n)
    out = {"id": "%s-%s" % (PID, int(n) + a.offset), "property": PID}
    try:
        meta = json.load(open(sd + "/meta.json"))
    except Exception as ex:
        meta = {"error": str(ex)}
    out["seed_meta"] = meta
    sh("git checkout -- . && git clean -fdq -e SEED", cwd=wt)
    r = sh("git apply %s/patch.diff" % sd, cwd=wt)
    if r.returncode != 0:
        print(out["id"], "PATCH DOES NOT APPLY", r.stderr[:200]); continue
    b = sh("go build ./...", cwd=wt + "/teamserver")
    out["builds"] = b.returncode == 0
    runsh = sd + "/demo/run.sh" if os.path.exists(sd + "/demo/run.sh") else sd + "/run.sh"
    d1 = sh("sh %s" % runsh, cwd=wt, timeout=1800)
    out["demo_with_change_rc"] = d1.returncode
    out["demo_with_change_tail"] = (d1.stdout + d1.stderr)[-600:]
    if not a.skip_suite:
        bad = suite_ok()
        out["suite_unchanged"] = not bad
        out["suite_newly_failing"] = bad[:5]
    checks = {}
    e2 = dict(env, VERIF_TS_DIR=wt + "/teamserver")
    for c in [PID] + [x for x in a.also.split(",") if x]:
        r = sh("./check %s --shards %s" % (c, a.shards), cwd="/verif", e=e2, timeout=7200)
        sigs = [l.strip()[len("signature: "):] for l in r.stdout.splitlines() if l.strip().startswith("signature:")]
        checks[c] = {"rc": r.returncode, "signatures": sigs[:8], "last": r.stdout.strip().splitlines()[-1][:200] if r.stdout.strip() else r.stderr[-200:]}
    out["checks"] = checks
    sh("git apply -R %s/patch.diff" % sd, cwd=wt)
    sh("git checkout -- . && git clean -fdq -e SEED", cwd=wt)
    d0 = sh("sh %s" % runsh, cwd=wt, timeout=1800)
    out["demo_without_change_rc"] = d0.returncode
    out["confirmed"] = bool(out["builds"] and d1.returncode != 0 and d0.returncode == 0 and out.get("suite_unchanged", True))
    out["caught_by"] = [c for c, v in checks.items() if v["rc"] == 1]
    dst = "/verif/seeded/" + out["id"]
    shutil.rmtree(dst, ignore_errors=True)
    os.makedirs(dst)
    shutil.copy(sd + "/patch.diff", dst + "/patch.diff")
    if os.path.isdir(sd + "/demo"):
        shutil.copytree(sd + "/demo", dst + "/demo")
    if os.path.exists(sd + "/run.sh"):
        shutil.copy(sd + "/run.sh", dst + "/run.sh")
    json.dump({"property": PID, "breaks": meta.get("summary"), "needs_to_manifest": meta.get("needs_to_manifest"),
               "files_touched": meta.get("files_touched"), "how_to_run_demo": meta.get("how_to_run_demo"),
               "what_we_ran": "tools/seed_eval.py: git apply in a scratch worktree, go build, demo with the change (rc=%s) and without (rc=%s), pinned suite compared with BASELINE stable_pass, ./check with VERIF_TS_DIR pointing at the changed tree" % (d1.returncode, d0.returncode),
               "confirmed": out["confirmed"], "builds": out["builds"], "suite_unchanged": out.get("suite_unchanged"),
               "checks": checks, "caught_by": out["caught_by"]}, open(dst + "/meta.json", "w"), indent=1)
    print("%s confirmed=%s caught_by=%s %s" % (out["id"], out["confirmed"], out["caught_by"],
          {c: v["signatures"][:2] or v["last"][:100] for c, v in checks.items()}))
for f in os.listdir("/verif/bin"):
    if "-alt-" in f:
        try:
            os.remove(os.path.join("/verif/bin", f))
        except OSError:
            pass
