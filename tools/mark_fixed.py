#!/usr/bin/env python3
"""mark_fixed.py <PID> <signature> <commit>: moves a known entry from known_findings.d/<PID>.json to a
'fixed' entry in known_findings.json (a fixed entry suppresses nothing)."""
import json, os, sys
root = os.path.dirname(os.path.dirname(os.path.abspath(__file__)))
pid, sig, commit = sys.argv[1:4]
dp = os.path.join(root, "known_findings.d", pid + ".json")
d = json.load(open(dp))
hit = [e for e in d if e["signature"] == sig]
assert hit, "no such known entry"
rest = [e for e in d if e["signature"] != sig]
k = json.load(open(os.path.join(root, "known_findings.json")))
for e in hit:
    k.append({"property": pid, "status": "fixed", "commit": commit, "signature_class": sig,
              "line": "fixed: property=%s %s %s" % (pid, commit, e.get("what", sig)), "witness": e.get("witness")})
json.dump(k, open(os.path.join(root, "known_findings.json"), "w"), indent=1)
if rest:
    json.dump(rest, open(dp, "w"), indent=1)
else:
    os.remove(dp)
print("moved", sig)
