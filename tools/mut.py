#!/usr/bin/env python3
"""mut.py NAME FILE OLD NEW CHECK[,CHECK...]: scratch copy of /repo/teamserver with one textual
replacement, build, run the given checks against it (VERIF_TS_DIR), print the verdicts, remove the copy."""
import os, shutil, subprocess, sys
name, rel, old, new, checks = sys.argv[1:6]
d = "/tmp/mut-" + name
shutil.rmtree(d, ignore_errors=True)
os.makedirs(d)
subprocess.check_call(["rsync", "-a", "--exclude", ".git", "/repo/teamserver/", d + "/teamserver/"])
p = os.path.join(d, "teamserver", rel)
s = open(p).read()
n = s.count(old)
if n != 1:
    print("MUT", name, "pattern count", n); shutil.rmtree(d); sys.exit(2)
open(p, "w").write(s.replace(old, new))
env = dict(os.environ, GOFLAGS="-mod=mod", GOPROXY="off", GOSUMDB="off", GOTOOLCHAIN="local")
b = subprocess.run(["go", "build", "./..."], cwd=d + "/teamserver", env=env, capture_output=True, text=True)
if b.returncode != 0:
    print("MUT", name, "does not build:", b.stderr[-300:]); shutil.rmtree(d); sys.exit(2)
env["VERIF_TS_DIR"] = d + "/teamserver"
for c in checks.split(","):
    r = subprocess.run(["./check", c, "--shards", "6"], cwd="/verif", env=env, capture_output=True, text=True)
    sigs = [l.strip() for l in r.stdout.splitlines() if l.strip().startswith("signature:")]
    print("MUT %-28s %s rc=%d %s" % (name, c, r.returncode, "; ".join(sigs[:3]) or r.stdout.strip().splitlines()[-1][:150]))
shutil.rmtree(d, ignore_errors=True)
for f in os.listdir("/verif/bin"):
    if "-alt-" in f:
        os.remove(os.path.join("/verif/bin", f))
