#!/bin/sh
# runs every check of the given tier once (sequentially) and prints the summary lines
tier=${1:-quick}
cd /verif
for i in 01 02 03 04 05 06 07 08 09 10 11 12 13 14 15 16 17 18 19 20; do
  out=$(./check C$i --tier $tier 2>&1); rc=$?
  echo "rc=$rc $(echo "$out" | tail -1 | cut -c1-170)"
  echo "$out" | grep -E "^(VIOLATION|BROKEN|INCONCLUSIVE)" | cut -c1-200 | head -5
done
