#!/usr/bin/env python3
"""Regenerates /verif/MANIFEST.json from the table below. A property whose check.d/<ID>.json
and evidence/<ID>.json exist and whose entry has ready=True is claimed; every other property is
listed under not_applicable with the reason given."""
import json, os, subprocess

ROOT = os.path.dirname(os.path.dirname(os.path.abspath(__file__)))

HOOK_COMMITS = ["8ee60bb", "f435b2c"]

P = {
 "C01": dict(ready=True, technique="runtime monitoring: hostile-traffic workload through the real listener engine with panic/fatal-error, watchdog, lock-probe and state-snapshot monitors",
   text="Held on the requests generated (random bytes, valid headers with random tails, every reference-encoded callback layout with field-level corruption, pivot nesting) over the state shapes built by valid traffic; each request is checked for panic, termination, held mutexes and - when answered with the decoy - an unchanged canonical state snapshot. Exploration level: no claim beyond the executions observed.",
   note="Trusts the in-process rig (real gin engine and handlers, no TLS in quick tier) and the reference Demon encoder; hangs shorter than the watchdog and inputs not generated are out of reach."),
 "C02": dict(ready=False, technique="runtime monitoring: differential check of the real task encoder against an independent reference Demon decoder over generated operator packages",
   text="Held on the operator packages generated for every command/sub-command row: the check-in response was decoded by the reference Demon reader (written from Command.c/Parser.c) and compared field by field with the operator's parameters; per-task AES-CTR restart and absence of clear-text canaries were checked.",
   note="The real C decoder is not executed (no Windows runtime); the reference is an independent reading of Command.c."),
 "C03": dict(ready=True, technique="runtime monitoring: reference-encoded buffers and marker-carrying callbacks through the real parser/listener, with value, console and session-table oracles",
   text="Held on the executions observed: (A) bounded-exhaustive type sequences (length <= 3, every trailing count 0..16, every truncation) plus random field sequences encoded by an independent Demon encoder and read back by the real parser, with CanIRead required true exactly on complete prefixes; (B) one callback per layout carrying unique marker values sent through a real listener, markers looked up in the console output at the teamserver interface; (C) registration / re-registration / check-in histories over boundary agent ids with session-table invariants after every step.",
   note="Trusts the reference encoder (written from Package.c) and the layout table (written from Command.c and checked against the handlers); C strings are compared modulo terminators; console markers are observed at the agent.TeamServer interface, the broadcast path belongs to C11."),
 "C04": dict(ready=False, technique="runtime monitoring: FIFO/exactly-once checker over recorded enqueue/check-in histories, porcupine linearizability check of concurrent histories, Go race detector",
   text="", note=""),
 "C05": dict(ready=False, technique="runtime monitoring: effect recorder at the teamserver interface, differential against a bare check-in, outstanding-set reference model",
   text="", note=""),
 "C06": dict(ready=False, technique="runtime monitoring: real websocket clients (silent / rejected / hostile first messages) observed for frames, state snapshots and process liveness; race detector",
   text="", note=""),
 "C07": dict(ready=False, technique="runtime monitoring: file-tree snapshots of the whole temp root around every loot operation, open-transfer reference model",
   text="", note=""),
 "C08": dict(ready=False, technique="runtime monitoring: pivot chains built through the protocol, responses unwrapped hop by hop by the reference Demon",
   text="", note=""),
 "C09": dict(ready=True, technique="runtime monitoring: forest invariants evaluated on live objects and the database after every event of enumerated histories",
   text="Held on the histories executed: bounded-exhaustive suffixes (length <= 2 quick, <= 3 thorough) over {register, connect incl. self/ancestor/existing, disconnect ok/fail incl. non-children, exit, kill date, operator mark dead/alive} on three agents after three prefixes (single root, star, chain), plus random histories on four agents incl. ids >= 2^31. Every event is a real callback relayed through the recorded parent chain or a real operator package; after every executed event the at-most-one-parent, links<=>parent, acyclicity and TS_Links-mirror invariants are evaluated, and removal of an agent must leave it with no links.",
   note="Single goroutine: the property quantifies over histories, not schedules. TS_Links is read through a separate read-only connection. Sequences longer than the bounds and universes larger than four agents are out of reach."),
 "C10": dict(ready=False, technique="runtime monitoring with fault injection: SIGKILL at enumerated hook points, real restart on the same data, recovered state compared with a model of acknowledged operations",
   text="", note=""),
 "C11": dict(ready=False, technique="runtime monitoring: real operator clients through a fault-injecting TCP proxy; replay/fan-out order and exactly-once checkers, lock probes, race detector",
   text="", note=""),
 "C12": dict(ready=False, technique="runtime monitoring: exhaustive configuration x request product through the real listener engine against a reference admission predicate",
   text="", note=""),
 "C13": dict(ready=False, technique="runtime monitoring: config bytes read back by a reference DemonConfig reader; stub compiler argv and exec observation",
   text="", note=""),
 "C14": dict(ready=False, technique="runtime monitoring: generated configurations written by an independent printer and loaded by the real profile loader; single-fault mutants",
   text="", note=""),
 "C15": dict(ready=False, technique="runtime monitoring: real TCP SOCKS clients against an RFC 1928 reference model, counter payloads, table invariants, race detector",
   text="", note=""),
 "C16": dict(ready=False, technique="runtime monitoring: three-view registry comparison after every operation of enumerated listener/service histories",
   text="", note=""),
 "C17": dict(ready=False, technique="runtime monitoring: fuzzing of the public parse/lex entry points with panic, token-coverage and range-containment monitors",
   text="", note=""),
 "C18": dict(ready=False, technique="runtime monitoring: differential evaluation against an independent exact-arithmetic reference evaluator over generated expression/template trees",
   text="", note=""),
 "C19": dict(ready=False, technique="runtime monitoring: metamorphic check of equivalent source forms through both decoders against the generated value",
   text="", note=""),
 "C20": dict(ready=False, technique="runtime monitoring: token round-trip, formatter and edit-sequence oracles over generated source files against an ordered-structure model",
   text="", note=""),
}

def main():
    overrides = {}
    op = os.path.join(ROOT, "tools", "manifest_overrides.json")
    if os.path.exists(op):
        overrides = json.load(open(op))
    ids = [json.loads(l)["id"] for l in open(os.path.join(ROOT, "properties.jsonl"))]
    checks, na = [], []
    for pid in ids:
        e = dict(P[pid])
        e.update(overrides.get(pid, {}))
        cfgp = os.path.join(ROOT, "check.d", pid + ".json")
        evp = os.path.join(ROOT, "evidence", pid + ".json")
        if e.get("ready") and os.path.exists(cfgp) and os.path.exists(evp):
            cfg = json.load(open(cfgp))
            checks.append({
                "property_id": pid,
                "quick_cmd": "./check %s --tier quick" % pid,
                "thorough_cmd": "./check %s --tier thorough" % pid,
                "evidence_file": "evidence/%s.json" % pid,
                "replay_cmd_template": "./check %s --replay {path}" % pid,
                "engine": "verifh",
                "level_claimed": {"category": cfg.get("level", "exploration"), "text": e["text"], "design_ref": "DESIGN.md §3 " + pid},
                "level_note": e["note"],
                "technique": e["technique"],
            })
        else:
            na.append({"property_id": pid, "reason": e.get("reason", "check not registered yet (machinery under construction; planned monitor: %s)" % e["technique"])})
    m = {
        "version": 1,
        "setup_cmd": "./check --setup",
        "hooks": {
            "guard": "verif (Go build tag)",
            "enable": "go build -tags verif; the worker module /verif/harness replaces Havoc => /repo/teamserver and is rebuilt from /repo's working tree by every check",
            "baseline_off_cmd": "cd /repo/teamserver && GOFLAGS=-mod=mod GOPROXY=off GOSUMDB=off go test -json -vet=off -count=1 -timeout 25m ./...",
            "source_commits": HOOK_COMMITS,
            "add_only": True,
        },
        "engines": [{"name": "verifh", "path": "harness/cmd/verifh",
                     "kind_free_text": "Go worker binary (plain and -race builds, both -tags verif): runs the real teamserver / yaotl code in-process under generated, hostile and stress workloads with online monitors; driven by the python driver ./check which shards, watches, classifies race reports and writes evidence",
                     "serves_properties": [c["property_id"] for c in checks]}],
        "checks": checks,
        "not_applicable": na,
        "notes": "Runtime-monitoring family only. Every verdict is 'held on the executions observed', 'violated (witness attached)' or 'inconclusive'. Known findings of the unchanged tree: known_findings.json.",
    }
    with open(os.path.join(ROOT, "MANIFEST.json"), "w") as f:
        json.dump(m, f, indent=1)
        f.write("\n")
    print("claimed:", [c["property_id"] for c in checks])

if __name__ == "__main__":
    main()
