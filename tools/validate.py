#!/usr/bin/env python3-vt
"""Validate MANIFEST.json and every evidence file against the schemas in /root/.vp."""
import json, sys, glob, os
import jsonschema
root = os.path.dirname(os.path.dirname(os.path.abspath(__file__)))
ok = True
m = json.load(open(os.path.join(root, "MANIFEST.json")))
try:
    jsonschema.validate(m, json.load(open("/root/.vp/MANIFEST.schema.json")))
    print("MANIFEST.json valid;", len(m["checks"]), "checks,", len(m.get("not_applicable", [])), "not applicable")
except jsonschema.ValidationError as e:
    ok = False
    print("MANIFEST invalid:", e.message)
ids = [json.loads(l)["id"] for l in open(os.path.join(root, "properties.jsonl"))]
claimed = [c["property_id"] for c in m["checks"]]
na = [c["property_id"] for c in m.get("not_applicable", [])]
for i in ids:
    if (i in claimed) == (i in na):
        ok = False
        print("property", i, "must be exactly one of claimed / not_applicable")
es = json.load(open("/root/.vp/EVIDENCE.schema.json"))
for c in m["checks"]:
    p = os.path.join(root, c["evidence_file"]) if not c["evidence_file"].startswith("/") else c["evidence_file"]
    try:
        jsonschema.validate(json.load(open(p)), es)
        print(c["property_id"], "evidence valid")
    except Exception as e:
        ok = False
        print(c["property_id"], "evidence INVALID:", str(e)[:300])
sys.exit(0 if ok else 1)
