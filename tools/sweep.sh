#!/bin/sh
# sweep.sh SEED...: every quick check once per seed (sequentially); prints one line per run and
# the head of anything that is not silent. Evidence files are rewritten with the last seed used:
# run tools/runall.sh afterwards to restore the seed-1 evidence.
cd /verif
for s in "$@"; do
  for i in 01 02 03 04 05 06 07 08 09 10 11 12 13 14 15 16 17 18 19 20; do
    out=$(VERIF_SEED=$s ./check C$i --tier quick 2>&1); rc=$?
    echo "seed=$s rc=$rc $(echo "$out" | tail -1 | cut -c1-150)"
    echo "$out" | grep -E "^(VIOLATION|BROKEN|INCONCLUSIVE)" -A2 | cut -c1-300 | head -9
  done
done
