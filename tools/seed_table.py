#!/usr/bin/env python3
"""seed_table.py [MIN_N]: markdown rows (change | needs | caught by) for the seeded changes under
/verif/seeded whose number is >= MIN_N (default 3 = second round), from their meta.json."""
import json, glob, os, re, sys
mn = int(sys.argv[1]) if len(sys.argv) > 1 else 3
def clip(s, n):
    s = re.sub(r"\s+", " ", (s or "").strip()).replace("|", "/")
    return s if len(s) <= n else s[: n - 1].rsplit(" ", 1)[0] + "…"
rows = []
for m in sorted(glob.glob("/verif/seeded/C*-*/meta.json"), key=lambda p: (p.split("/")[-2].split("-")[0], int(p.split("/")[-2].split("-")[1]))):
    sid = m.split("/")[-2]
    if int(sid.split("-")[1]) < mn:
        continue
    d = json.load(open(m))
    caught = []
    for c in d.get("caught_by", []):
        sigs = d["checks"][c]["signatures"][:2]
        caught.append(c + " " + ", ".join("`%s`" % clip(s, 70) for s in sigs))
    rows.append("| %s %s | %s | %s |" % (sid, clip(d.get("breaks"), 170), clip(d.get("needs_to_manifest"), 150), "; ".join(caught) or "**not caught**"))
print("\n".join(rows))
