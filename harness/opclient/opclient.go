// Package opclient is a real websocket operator client for the /havoc/ endpoint of a full
// rig: login with the SHA3-256 hex digest, frame reader goroutine, typed helpers for the
// packages an operator sends.
package opclient

import (
	"crypto/tls"
	"encoding/hex"
	"encoding/json"
	"fmt"
	"net"
	"sync"
	"time"

	"github.com/gorilla/websocket"
	"golang.org/x/crypto/sha3"
)

// Event codes (packager/types.go).
const (
	EvInit     = 1
	EvListener = 2
	EvChat     = 4
	EvGate     = 5
	EvSession  = 7
	EvService  = 9
	EvTS       = 0x10

	InitSuccess = 1
	InitError   = 2
	InitOAuth   = 3
	InitProfile = 5

	ListenerAdd    = 1
	ListenerEdit   = 2
	ListenerRemove = 3
	ListenerMark   = 4
	ListenerError  = 5

	ChatNewMessage = 1
	ChatNewUser    = 4
	ChatUserDisc   = 5

	SessNew    = 1
	SessRemove = 2
	SessInput  = 3
	SessOutput = 4
	SessMark   = 5
)

type Frame struct {
	Head struct {
		Event   int    `json:"Event"`
		User    string `json:"User"`
		Time    string `json:"Time"`
		OneTime string `json:"OneTime"`
	}
	Body struct {
		SubEvent int            `json:"SubEvent"`
		Info     map[string]any `json:"Info"`
	}
	Raw    []byte `json:"-"`
	BadErr string `json:"-"` // non-empty: the websocket message was not one whole JSON package
	Type   int    `json:"-"` // websocket message type
	Seq    int    `json:"-"`
}

type Client struct {
	Conn   *websocket.Conn
	User   string
	mu     sync.Mutex
	frames []Frame
	cond   *sync.Cond
	closed bool
	err    error
	wmu    sync.Mutex
}

func Digest(password string) string {
	h := sha3.New256()
	h.Write([]byte(password))
	return hex.EncodeToString(h.Sum(nil))
}

// Dial opens the websocket (through an optional custom dialer, e.g. a fault proxy) and
// starts the reader. It does not authenticate.
func Dial(addr string, netDial func(network, addr string) (net.Conn, error)) (*Client, error) {
	d := websocket.Dialer{TLSClientConfig: &tls.Config{InsecureSkipVerify: true}, HandshakeTimeout: 20 * time.Second,
		ReadBufferSize: 1 << 16, WriteBufferSize: 1 << 16}
	if netDial != nil {
		d.NetDial = netDial
	}
	c, _, err := d.Dial("wss://"+addr+"/havoc/", nil)
	if err != nil {
		return nil, err
	}
	cl := &Client{Conn: c}
	cl.cond = sync.NewCond(&cl.mu)
	go cl.reader()
	return cl, nil
}

func (c *Client) reader() {
	seq := 0
	for {
		t, b, err := c.Conn.ReadMessage()
		c.mu.Lock()
		if err != nil {
			c.closed = true
			c.err = err
			c.cond.Broadcast()
			c.mu.Unlock()
			return
		}
		var f Frame
		if e := json.Unmarshal(b, &f); e != nil {
			f.BadErr = e.Error()
		}
		f.Raw = b
		f.Type = t
		f.Seq = seq
		seq++
		c.frames = append(c.frames, f)
		c.cond.Broadcast()
		c.mu.Unlock()
	}
}

// SendRaw writes one text message.
func (c *Client) SendRaw(b []byte) error {
	c.wmu.Lock()
	defer c.wmu.Unlock()
	return c.Conn.WriteMessage(websocket.TextMessage, b)
}

func (c *Client) SendBinary(b []byte) error {
	c.wmu.Lock()
	defer c.wmu.Unlock()
	return c.Conn.WriteMessage(websocket.BinaryMessage, b)
}

func Package(event int, user string, sub int, info map[string]any) []byte {
	b, _ := json.Marshal(map[string]any{
		"Head": map[string]any{"Event": event, "User": user, "Time": "", "OneTime": ""},
		"Body": map[string]any{"SubEvent": sub, "Info": info},
	})
	return b
}

func (c *Client) Send(event, sub int, info map[string]any) error {
	return c.SendRaw(Package(event, c.User, sub, info))
}

// LoginMsg is the valid first message.
func LoginMsg(user, password string) []byte {
	return Package(EvInit, user, InitOAuth, map[string]any{"User": user, "Password": Digest(password)})
}

// Login authenticates and waits for the verdict frame; ok reports InitConnection/Success.
func (c *Client) Login(user, password string, wait time.Duration) (ok bool, err error) {
	c.User = user
	if err := c.SendRaw(LoginMsg(user, password)); err != nil {
		return false, err
	}
	f, got := c.WaitFor(func(f Frame) bool { return f.Head.Event == EvInit && (f.Body.SubEvent == InitSuccess || f.Body.SubEvent == InitError) }, wait)
	if !got {
		return false, fmt.Errorf("no login verdict within %v (closed=%v err=%v)", wait, c.Closed(), c.Err())
	}
	return f.Body.SubEvent == InitSuccess, nil
}

// Connect = Dial + Login.
func Connect(addr, user, password string) (*Client, error) {
	c, err := Dial(addr, nil)
	if err != nil {
		return nil, err
	}
	ok, err := c.Login(user, password, 20*time.Second)
	if err != nil {
		c.Close()
		return nil, err
	}
	if !ok {
		c.Close()
		return nil, fmt.Errorf("login rejected")
	}
	return c, nil
}

// Frames returns a copy of everything received so far.
func (c *Client) Frames() []Frame {
	c.mu.Lock()
	defer c.mu.Unlock()
	return append([]Frame(nil), c.frames...)
}

func (c *Client) Count() int {
	c.mu.Lock()
	defer c.mu.Unlock()
	return len(c.frames)
}

func (c *Client) Closed() bool {
	c.mu.Lock()
	defer c.mu.Unlock()
	return c.closed
}

func (c *Client) Err() error {
	c.mu.Lock()
	defer c.mu.Unlock()
	return c.err
}

// WaitFor blocks until a received frame (any position) satisfies pred, the connection
// closes, or the wall-clock bound expires (a bound expiry is never a verdict by itself).
func (c *Client) WaitFor(pred func(Frame) bool, wait time.Duration) (Frame, bool) {
	deadline := time.Now().Add(wait)
	timer := time.AfterFunc(wait, func() { c.mu.Lock(); c.cond.Broadcast(); c.mu.Unlock() })
	defer timer.Stop()
	c.mu.Lock()
	defer c.mu.Unlock()
	scanned := 0
	for {
		for ; scanned < len(c.frames); scanned++ {
			if pred(c.frames[scanned]) {
				return c.frames[scanned], true
			}
		}
		if c.closed || time.Now().After(deadline) {
			return Frame{}, false
		}
		c.cond.Wait()
	}
}

// WaitCount blocks until at least n frames have arrived.
func (c *Client) WaitCount(n int, wait time.Duration) bool {
	deadline := time.Now().Add(wait)
	timer := time.AfterFunc(wait, func() { c.mu.Lock(); c.cond.Broadcast(); c.mu.Unlock() })
	defer timer.Stop()
	c.mu.Lock()
	defer c.mu.Unlock()
	for len(c.frames) < n {
		if c.closed || time.Now().After(deadline) {
			return false
		}
		c.cond.Wait()
	}
	return true
}

// Quiesce waits until no new frame has arrived for the given idle period (bounded by max).
func (c *Client) Quiesce(idle, max time.Duration) {
	end := time.Now().Add(max)
	last := c.Count()
	lastChange := time.Now()
	for time.Now().Before(end) {
		time.Sleep(idle / 4)
		n := c.Count()
		if n != last {
			last = n
			lastChange = time.Now()
		} else if time.Since(lastChange) >= idle {
			return
		}
	}
}

func (c *Client) Close() { c.Conn.Close() }

// Chat sends a chat message carrying a unique token.
func (c *Client) Chat(token string) error {
	return c.Send(EvChat, ChatNewMessage, map[string]any{"User": c.User, "Message": token})
}

// Task sends a Session/Input package.
func (c *Client) Task(demonID, commandID, taskID, cmdline string, extra map[string]any) error {
	info := map[string]any{"DemonID": demonID, "CommandID": commandID, "TaskID": taskID, "CommandLine": cmdline}
	for k, v := range extra {
		info[k] = v
	}
	return c.Send(EvSession, SessInput, info)
}

func (c *Client) Mark(agentID, marked string) error {
	return c.Send(EvSession, SessMark, map[string]any{"AgentID": agentID, "Marked": marked})
}

func (c *Client) ListenerRemove(name string) error {
	return c.Send(EvListener, ListenerRemove, map[string]any{"Name": name})
}

// InfoStr returns Body.Info[key] as a string ("" when absent or not a string).
func (f Frame) InfoStr(key string) string {
	if f.Body.Info == nil {
		return ""
	}
	s, _ := f.Body.Info[key].(string)
	return s
}
