// Package demon is an independent reference implementation of the Demon agent's wire
// formats, written from payloads/Demon/src/{Demon.c,core/Package.c,core/Parser.c,
// core/Command.c,core/TransportSmb.c} and never from the Go encoder/decoder it checks.
package demon

import (
	"crypto/aes"
	"crypto/cipher"
	"encoding/binary"
	"unicode/utf16"
)

const (
	Magic = 0xDEADBEEF

	CmdGetJob   = 1
	CmdNoJob    = 10
	CmdInit     = 99
	CmdCheckin  = 100
	CmdPivot    = 2520
	CmdSocket   = 2540
	CmdMemFile  = 2560
	PivotSmbCmd = 12
)

// ---------- agent -> server: big-endian package builder (Package.c) ----------

type Pkg struct{ B []byte }

func (p *Pkg) I32(v uint32) *Pkg {
	p.B = binary.BigEndian.AppendUint32(p.B, v)
	return p
}
func (p *Pkg) I64(v uint64) *Pkg {
	p.B = binary.BigEndian.AppendUint64(p.B, v)
	return p
}
func (p *Pkg) Bool(v bool) *Pkg {
	if v {
		return p.I32(1)
	}
	return p.I32(0)
}
func (p *Pkg) Pad(b []byte) *Pkg {
	p.B = append(p.B, b...)
	return p
}
func (p *Pkg) Bytes(b []byte) *Pkg {
	p.I32(uint32(len(b)))
	p.B = append(p.B, b...)
	return p
}

// Str is PackageAddString: the C string without its terminator.
func (p *Pkg) Str(s string) *Pkg { return p.Bytes([]byte(s)) }

// WStr is PackageAddWString: UTF-16LE code units without terminator.
func (p *Pkg) WStr(s string) *Pkg { return p.Bytes(UTF16LE(s)) }

// UTF16LE encodes s as UTF-16 little endian (surrogate pairs for astral code points), no
// terminator. Invalid UTF-8 in s is encoded as U+FFFD like utf16.Encode does.
func UTF16LE(s string) []byte {
	u := utf16.Encode([]rune(s))
	out := make([]byte, 2*len(u))
	for i, c := range u {
		binary.LittleEndian.PutUint16(out[2*i:], c)
	}
	return out
}

// CTR is AES-256-CTR as tiny-AES does it in the Demon (128-bit big-endian counter = the
// IV, incremented per block), independent of Havoc's crypt package.
func CTR(key, iv, data []byte) []byte {
	out := make([]byte, len(data))
	blk, err := aes.NewCipher(key)
	if err != nil {
		panic(err)
	}
	cipher.NewCTR(blk, iv).XORKeyStream(out, data)
	return out
}

func zeroKey(k []byte) bool {
	for _, b := range k {
		if b != 0 {
			return false
		}
	}
	return true
}

// Meta is the metadata a Demon sends at registration (DemonMetaData in Demon.c).
type Meta struct {
	AgentID      uint32
	Hostname     string
	Username     string
	Domain       string
	InternalIP   string
	ProcessPath  string // UTF-16 on the wire
	PID, TID     uint32
	PPID         uint32
	Arch         uint32
	Elevated     uint32
	BaseAddr     uint64
	OS           [5]uint32 // major, minor, product type, service pack, build
	OSArch       uint32
	Sleep        uint32
	Jitter       uint32
	KillDate     uint64
	WorkingHours uint32
}

// MetaBody is the part of the registration that is encrypted: agent id .. working hours.
func (m *Meta) MetaBody() []byte {
	var p Pkg
	p.I32(m.AgentID)
	p.Str(m.Hostname).Str(m.Username).Str(m.Domain).Str(m.InternalIP)
	p.WStr(m.ProcessPath)
	p.I32(m.PID).I32(m.TID).I32(m.PPID).I32(m.Arch).I32(m.Elevated).I64(m.BaseAddr)
	for _, v := range m.OS {
		p.I32(v)
	}
	p.I32(m.OSArch).I32(m.Sleep).I32(m.Jitter).I64(m.KillDate).I32(m.WorkingHours)
	return p.B
}

// Header builds [size][magic][agent id][cmd][request id] + rest, with size = total - 4.
func Header(magic, agentID, cmd, reqID uint32, rest []byte) []byte {
	var p Pkg
	p.I32(0).I32(magic).I32(agentID).I32(cmd).I32(reqID)
	p.B = append(p.B, rest...)
	binary.BigEndian.PutUint32(p.B, uint32(len(p.B)-4))
	return p.B
}

// Register builds the DEMON_INIT package: header, key, iv in clear, then the metadata
// encrypted under key/iv (PackageTransmitNow: padding = 20 + 48).
func Register(headerID uint32, key, iv []byte, m *Meta) []byte {
	body := m.MetaBody()
	if !zeroKey(key) {
		body = CTR(key, iv, body)
	}
	rest := append(append(append([]byte{}, key...), iv...), body...)
	return Header(Magic, headerID, CmdInit, 0, rest)
}

// Callback is one package queued with PackageTransmit.
type Callback struct {
	Cmd   uint32
	ReqID uint32
	Body  []byte
}

// Checkin builds what PackageTransmitAll sends: a COMMAND_GET_JOB header followed by the
// encrypted concatenation [cmd][req id][len][body]*.
func Checkin(agentID uint32, key, iv []byte, cbs ...Callback) []byte {
	var p Pkg
	for _, c := range cbs {
		p.I32(c.Cmd).I32(c.ReqID).Bytes(c.Body)
	}
	enc := p.B
	if len(enc) > 0 {
		enc = CTR(key, iv, enc)
	}
	return Header(Magic, agentID, CmdGetJob, 0, enc)
}

// CheckinAt is Checkin with COMMAND_GET_JOB at position pos among the packages of the request
// (0 = first, as Checkin builds it; len(cbs) = last): PackageTransmitAll sends whatever is
// queued, in queue order, and the first package's command and request id form the header.
func CheckinAt(agentID uint32, key, iv []byte, pos int, cbs ...Callback) []byte {
	if pos <= 0 || len(cbs) == 0 {
		return Checkin(agentID, key, iv, cbs...)
	}
	if pos > len(cbs) {
		pos = len(cbs)
	}
	var p Pkg
	p.Bytes(cbs[0].Body)
	for i, c := range cbs[1:] {
		if i+1 == pos {
			p.I32(CmdGetJob).I32(0)
		}
		p.I32(c.Cmd).I32(c.ReqID).Bytes(c.Body)
	}
	if pos == len(cbs) {
		p.I32(CmdGetJob).I32(0)
	}
	return Header(Magic, agentID, cbs[0].Cmd, cbs[0].ReqID, CTR(key, iv, p.B))
}

// CheckinRaw is Checkin with an arbitrary (possibly malformed) plaintext tail.
func CheckinRaw(agentID uint32, key, iv []byte, plainTail []byte) []byte {
	enc := plainTail
	if len(enc) > 0 {
		enc = CTR(key, iv, enc)
	}
	return Header(Magic, agentID, CmdGetJob, 0, enc)
}

// PivotWrap is PivotPush in Pivot.c as seen by the server: the parent reports the child's
// whole package inside COMMAND_PIVOT / DEMON_PIVOT_SMB_COMMAND.
func PivotWrap(childPackage []byte) Callback {
	var p Pkg
	p.I32(PivotSmbCmd).Bytes(childPackage)
	return Callback{Cmd: CmdPivot, ReqID: 0, Body: p.B}
}

// SmbConnect is the parent's answer to `pivot connect`: success flag + the child's
// registration package.
func SmbConnect(reqID uint32, childRegistration []byte) Callback {
	var p Pkg
	p.I32(10).I32(1).Bytes(childRegistration)
	return Callback{Cmd: CmdPivot, ReqID: reqID, Body: p.B}
}

// ---------- server -> agent: little-endian task stream (CommandDispatcher) ----------

type Task struct {
	Cmd   uint32
	ReqID uint32
	Enc   []byte // body as received (encrypted)
	Body  []byte // body decrypted with the session key, CTR restarted at the IV per task
}

// ParseTasks mirrors CommandDispatcher: [cmd][request id][size][body]*, little endian;
// each body is decrypted on its own starting at the session IV (ParserDecrypt). ok is false
// if the stream is not an exact sequence of such frames.
func ParseTasks(resp, key, iv []byte) (tasks []Task, ok bool) {
	for len(resp) > 0 {
		if len(resp) < 12 {
			return tasks, false
		}
		cmd := binary.LittleEndian.Uint32(resp)
		req := binary.LittleEndian.Uint32(resp[4:])
		n := binary.LittleEndian.Uint32(resp[8:])
		resp = resp[12:]
		if uint64(n) > uint64(len(resp)) {
			return tasks, false
		}
		enc := resp[:n]
		resp = resp[n:]
		body := enc
		if len(enc) > 0 {
			body = CTR(key, iv, enc)
		}
		tasks = append(tasks, Task{Cmd: cmd, ReqID: req, Enc: append([]byte{}, enc...), Body: body})
	}
	return tasks, true
}

// Rd is the Demon's little-endian argument reader (Parser.c with Endian = FALSE).
type Rd struct {
	B   []byte
	Err bool
}

func (r *Rd) I32() uint32 {
	if len(r.B) < 4 {
		r.Err = true
		r.B = nil
		return 0
	}
	v := binary.LittleEndian.Uint32(r.B)
	r.B = r.B[4:]
	return v
}
func (r *Rd) I16() uint16 {
	if len(r.B) < 2 {
		r.Err = true
		r.B = nil
		return 0
	}
	v := binary.LittleEndian.Uint16(r.B)
	r.B = r.B[2:]
	return v
}
func (r *Rd) U8() byte {
	if len(r.B) < 1 {
		r.Err = true
		return 0
	}
	v := r.B[0]
	r.B = r.B[1:]
	return v
}
func (r *Rd) I64() uint64 {
	if len(r.B) < 8 {
		r.Err = true
		r.B = nil
		return 0
	}
	v := binary.LittleEndian.Uint64(r.B)
	r.B = r.B[8:]
	return v
}
func (r *Rd) Bytes() []byte {
	n := r.I32()
	if r.Err || uint64(n) > uint64(len(r.B)) {
		r.Err = true
		r.B = nil
		return nil
	}
	v := r.B[:n]
	r.B = r.B[n:]
	return v
}

// CStr reads a length-prefixed C string the way the Demon uses it: the bytes up to the
// first NUL (the buffer must contain one).
func (r *Rd) CStr() (string, bool) {
	b := r.Bytes()
	for i, c := range b {
		if c == 0 {
			return string(b[:i]), true
		}
	}
	return string(b), false
}

// WStr reads a length-prefixed UTF-16LE string up to its first NUL code unit.
func (r *Rd) WStr() (string, bool) {
	b := r.Bytes()
	if len(b)%2 != 0 {
		return "", false
	}
	u := make([]uint16, 0, len(b)/2)
	term := false
	for i := 0; i+1 < len(b); i += 2 {
		c := binary.LittleEndian.Uint16(b[i:])
		if c == 0 {
			term = true
			break
		}
		u = append(u, c)
	}
	return string(utf16.Decode(u)), term
}

// SmbFrame unwraps what a hop writes into the pipe of its child (PivotAddJob's inner
// package as SmbRecv in TransportSmb.c reads it): [demon id LE][size LE][package].
func SmbFrame(b []byte) (id uint32, pkg []byte, ok bool) {
	if len(b) < 8 {
		return 0, nil, false
	}
	id = binary.LittleEndian.Uint32(b)
	n := binary.LittleEndian.Uint32(b[4:])
	if uint64(n) != uint64(len(b)-8) {
		return id, nil, false
	}
	return id, b[8:], true
}
