// Package rig runs the real teamserver inside a worker process (DESIGN.md §2.2).
package rig

import (
	"bytes"
	"database/sql"
	"fmt"
	"io"
	"net"
	"net/http"
	"net/http/httptest"
	"os"
	"path/filepath"
	"reflect"
	"runtime/debug"
	"strconv"
	"strings"
	"sync"
	"time"
	"unsafe"

	"Havoc/cmd/server"
	"Havoc/pkg/handlers"
	"Havoc/pkg/logger"
	"Havoc/pkg/logr"
	"Havoc/pkg/verifhook"

	"github.com/gin-gonic/gin"
)

type Operator struct{ Name, Password string }

type Options struct {
	Full         bool // run the real (*Teamserver).Start()
	Service      bool // profile contains a Service block
	ServicePass  string
	SendLogs     bool
	TrustXFF     bool
	Operators    []Operator
	Dir          string // reuse this directory (restart on the same data); "" = fresh temp dir
	ExtraProfile string // extra top-level profile text (e.g. Listeners block)
}

type Rig struct {
	Dir   string
	TS    *server.Teamserver
	Host  string
	Port  int
	Opts  Options
	fresh bool

	httpMu sync.Mutex
	https  []*handlers.HTTP // listeners started through StartHTTP
	ports  []int            // ports claimed for them
}

var (
	readyOnce sync.Once
	readyCh   = make(chan struct{}, 16)
)

// FreePort returns a loopback TCP port claimed exclusively for this process: ports are
// drawn below the kernel's ephemeral range and claimed through an O_EXCL file under
// /dev/shm/verifports, so that the many worker processes running in parallel (each of which
// closes the probe socket before the teamserver binds the port) can never hand the same
// port to two teamservers. Claims older than 20 minutes are recycled.
func FreePort() int {
	dir := "/dev/shm/verifports"
	if err := os.MkdirAll(dir, 0o777); err != nil {
		dir = filepath.Join(os.TempDir(), "verifports")
		os.MkdirAll(dir, 0o777)
	}
	seed := time.Now().UnixNano() ^ int64(os.Getpid())<<20
	for try := 0; try < 2000; try++ {
		seed = seed*6364136223846793005 + 1442695040888963407
		port := 10000 + int(uint64(seed)>>33)%22000
		claim := filepath.Join(dir, strconv.Itoa(port))
		f, err := os.OpenFile(claim, os.O_CREATE|os.O_EXCL|os.O_WRONLY, 0o666)
		if err != nil {
			// recycle the claim of a process that no longer exists (or a very old one)
			if b, e2 := os.ReadFile(claim); e2 == nil {
				pid, _ := strconv.Atoi(strings.TrimSpace(string(b)))
				_, e3 := os.Stat(fmt.Sprintf("/proc/%d", pid))
				st, e4 := os.Stat(claim)
				if (pid > 0 && e3 != nil) || (e4 == nil && time.Since(st.ModTime()) > 20*time.Minute) {
					os.Remove(claim)
				}
			}
			continue
		}
		fmt.Fprintf(f, "%d\n", os.Getpid())
		f.Close()
		l4, err := net.Listen("tcp", fmt.Sprintf("127.0.0.1:%d", port))
		if err != nil {
			// somebody outside the pool listens there; keep the claim so that nobody
			// probes it again for a while (stale claims are recycled above)
			continue
		}
		l4.Close()
		if l6, err := net.Listen("tcp", fmt.Sprintf("[::1]:%d", port)); err == nil {
			l6.Close()
		}
		return port
	}
	return 0
}

// ReleasePort gives a claimed port back (only for ports nothing listens on any more).
func ReleasePort(port int) {
	if port > 0 {
		os.Remove(filepath.Join("/dev/shm/verifports", strconv.Itoa(port)))
	}
}

func repoRoot() string {
	if r := os.Getenv("VERIF_REPO"); r != "" {
		return r
	}
	return "/repo"
}

func copyFile(src, dst string) error {
	b, err := os.ReadFile(src)
	if err != nil {
		return err
	}
	os.MkdirAll(filepath.Dir(dst), 0o755)
	return os.WriteFile(dst, b, 0o644)
}

func (o *Options) profileText(port int) string {
	var sb strings.Builder
	fmt.Fprintf(&sb, "Teamserver {\n  Host = \"127.0.0.1\"\n  Port = %d\n}\n", port)
	sb.WriteString("Operators {\n")
	ops := o.Operators
	if len(ops) == 0 {
		ops = []Operator{{"alice", "pw-alice"}, {"bob", "pw-bob"}, {"carol", "pw-carol"}, {"dave", "pw-dave"}}
	}
	for _, u := range ops {
		fmt.Fprintf(&sb, "  user %q {\n    Password = %q\n  }\n", u.Name, u.Password)
	}
	sb.WriteString("}\n")
	fmt.Fprintf(&sb, "Demon {\n  Sleep = 2\n  TrustXForwardedFor = %v\n  Injection {\n    Spawn64 = \"C:\\\\Windows\\\\System32\\\\notepad.exe\"\n    Spawn32 = \"C:\\\\Windows\\\\SysWOW64\\\\notepad.exe\"\n  }\n}\n", o.TrustXFF)
	if o.Service {
		pw := o.ServicePass
		if pw == "" {
			pw = "service-pw"
		}
		fmt.Fprintf(&sb, "Service {\n  Endpoint = \"service-endpoint\"\n  Password = %q\n}\n", pw)
	}
	sb.WriteString(o.ExtraProfile)
	return sb.String()
}

// New builds a rig in a fresh temp directory (or o.Dir), chdirs into it and wires the
// teamserver the way `havoc server` does, minus cobra and the compiler lookup.
func New(o Options) (*Rig, error) {
	r := &Rig{Opts: o, Host: "127.0.0.1"}
	if o.Dir == "" {
		// the driver points VERIF_RIG_BASE at a per-run directory on tmpfs (sqlite fsyncs
		// dominate otherwise) and removes it afterwards
		base := os.Getenv("VERIF_RIG_BASE")
		if base != "" {
			os.MkdirAll(base, 0o755)
		}
		d, err := os.MkdirTemp(base, "verifrig-")
		if err != nil {
			return nil, err
		}
		r.Dir = d
		r.fresh = true
	} else {
		r.Dir = o.Dir
		os.MkdirAll(r.Dir, 0o755)
	}
	if err := os.Chdir(r.Dir); err != nil {
		return nil, err
	}
	os.MkdirAll("data", 0o755)
	// files production code looks up relative to the working directory
	copyFile(filepath.Join(repoRoot(), "teamserver/pkg/handlers/404.html"), "teamserver/pkg/handlers/404.html")
	if copyFile(filepath.Join(repoRoot(), "payloads/DllLdr.x64.bin"), "payloads/DllLdr.x64.bin") != nil {
		copyFile("/repo/payloads/DllLdr.x64.bin", "payloads/DllLdr.x64.bin") // scratch copies carry only teamserver/
	}
	logger.SetStdOut(io.Discard)
	gin.SetMode(gin.ReleaseMode)

	r.Port = FreePort()
	if r.Port == 0 {
		return nil, fmt.Errorf("no free port could be claimed")
	}
	prof := filepath.Join(r.Dir, "data", "profile.yaotl")
	if err := os.WriteFile(prof, []byte(o.profileText(r.Port)), 0o644); err != nil {
		return nil, err
	}
	ts := server.NewTeamserver("data/teamserver.db")
	if ts == nil {
		return nil, fmt.Errorf("NewTeamserver failed")
	}
	var flags server.TeamserverFlags
	flags.Server.SendLogs = o.SendLogs
	flags.Server.Host = "127.0.0.1"
	flags.Server.Port = strconv.Itoa(r.Port)
	ts.SetServerFlags(flags)
	logr.LogrInstance = logr.NewLogr(r.Dir, "data/loot/run")
	if logr.LogrInstance == nil {
		return nil, fmt.Errorf("NewLogr failed")
	}
	ts.SetProfile(prof)
	logger.SetStdOut(io.Discard)
	r.TS = ts
	if !o.Full {
		ts.Server.Engine = gin.New()
		ts.Listeners = nil
		return r, nil
	}
	readyOnce.Do(func() {
		verifhook.Set("server.ready", func() {
			select {
			case readyCh <- struct{}{}:
			default:
			}
		})
	})
	for len(readyCh) > 0 {
		<-readyCh
	}
	go ts.Start()
	select {
	case <-readyCh:
	case <-time.After(60 * time.Second):
		return nil, fmt.Errorf("teamserver Start() did not reach server.ready within 60s")
	}
	// wait for the TLS listener (started in its own goroutine by Start)
	deadline := time.Now().Add(30 * time.Second)
	for {
		c, err := net.DialTimeout("tcp", fmt.Sprintf("127.0.0.1:%d", r.Port), time.Second)
		if err == nil {
			c.Close()
			break
		}
		if time.Now().After(deadline) {
			return nil, fmt.Errorf("teamserver port %d never accepted: %v", r.Port, err)
		}
		time.Sleep(20 * time.Millisecond)
	}
	return r, nil
}

// Close stops the HTTP listeners the rig started through StartHTTP (closing the socket at
// once instead of Stop's five second grace period), gives their port claims back and
// removes the temp directory of a fresh rig. The teamserver port of a Full rig stays
// bound until the process exits.
func (r *Rig) Close() {
	os.Chdir("/")
	r.httpMu.Lock()
	hs, ports := r.https, r.ports
	r.https, r.ports = nil, nil
	r.httpMu.Unlock()
	for i, h := range hs {
		// the server object is created by the listener goroutine; give it a moment
		var srv *http.Server
		for w := 0; w < 400; w++ {
			if srv = h.Server; srv != nil {
				break
			}
			time.Sleep(500 * time.Microsecond)
		}
		if srv == nil {
			continue // never came up: keep the claim, the goroutine may still bind it
		}
		srv.Close()
		// the claim is given back once the port can be bound again
		for w := 0; w < 400; w++ {
			l, err := net.Listen("tcp", fmt.Sprintf("127.0.0.1:%d", ports[i]))
			if err == nil {
				l.Close()
				ReleasePort(ports[i])
				break
			}
			time.Sleep(500 * time.Microsecond)
		}
	}
	if !r.Opts.Full {
		// an assembled rig never bound its teamserver port
		ReleasePort(r.Port)
	}
	closeDB(r.TS)
	if r.fresh {
		os.RemoveAll(r.Dir)
	}
}

// closeDB closes the SQLite handle of a teamserver that is being discarded. The db package
// has no Close, and a worker that builds thousands of teamservers runs out of file
// descriptors otherwise; the handle is reached through its unexported field.
func closeDB(ts *server.Teamserver) {
	if ts == nil || ts.DB == nil {
		return
	}
	f := reflect.ValueOf(ts.DB).Elem().FieldByName("db")
	if !f.IsValid() || f.IsNil() {
		return
	}
	if h, ok := reflect.NewAt(f.Type(), unsafe.Pointer(f.UnsafeAddr())).Elem().Interface().(*sql.DB); ok && h != nil {
		h.Close()
	}
}

// StartHTTP starts a real HTTP listener through ListenerStart and returns its handler
// object (whose Teamserver field and GinEngine are exported).
func (r *Rig) StartHTTP(cfg handlers.HTTPConfig) (*handlers.HTTP, error) {
	claimed := 0
	if cfg.PortBind == "" {
		claimed = FreePort()
		cfg.PortBind = strconv.Itoa(claimed)
	}
	if cfg.HostBind == "" {
		cfg.HostBind = "127.0.0.1"
	}
	if len(cfg.Hosts) == 0 {
		cfg.Hosts = []string{"127.0.0.1"}
	}
	if cfg.HostRotation == "" {
		cfg.HostRotation = "round-robin"
	}
	if err := r.TS.ListenerStart(handlers.LISTENER_HTTP, cfg); err != nil {
		return nil, err
	}
	for _, l := range r.TS.Listeners {
		if l.Name == cfg.Name {
			if h, ok := l.Config.(*handlers.HTTP); ok {
				if claimed > 0 {
					r.httpMu.Lock()
					r.https = append(r.https, h)
					r.ports = append(r.ports, claimed)
					r.httpMu.Unlock()
				}
				return h, nil
			}
		}
	}
	return nil, fmt.Errorf("listener %q not in registry after ListenerStart", cfg.Name)
}

// WaitTCP waits until the listener's port accepts connections.
func WaitTCP(addr string, d time.Duration) bool {
	deadline := time.Now().Add(d)
	for time.Now().Before(deadline) {
		c, err := net.DialTimeout("tcp", addr, 500*time.Millisecond)
		if err == nil {
			c.Close()
			return true
		}
		time.Sleep(10 * time.Millisecond)
	}
	return false
}

type Resp struct {
	Status int
	Body   []byte
	Header http.Header
	Panic  any
	Stack  string
}

// Is404 reports whether the answer is the decoy page (status 404).
func (r Resp) Is404() bool { return r.Status == http.StatusNotFound }

// Serve sends one request through an engine in-process; a panic in the handler is caught
// and returned with its stack.
func Serve(e http.Handler, req *http.Request) (resp Resp) {
	w := httptest.NewRecorder()
	func() {
		defer func() {
			if p := recover(); p != nil {
				resp.Panic = p
				resp.Stack = string(debug.Stack())
			}
		}()
		e.ServeHTTP(w, req)
	}()
	resp.Status = w.Code
	resp.Body = w.Body.Bytes()
	resp.Header = w.Header()
	return
}

// Post builds a POST as a Demon would send it to the listener engine.
func Post(e http.Handler, path string, body []byte, hdr map[string]string) Resp {
	if path == "" {
		path = "/"
	}
	req := httptest.NewRequest(http.MethodPost, path, bytes.NewReader(body))
	req.RequestURI = path
	req.RemoteAddr = "127.0.0.1:40000"
	for k, v := range hdr {
		if strings.EqualFold(k, "User-Agent") {
			req.Header.Set("User-Agent", v)
		} else {
			req.Header.Set(k, v)
		}
	}
	return Serve(e, req)
}
