package rig

import (
	"fmt"
	"math/rand"
	"net/http"

	"Havoc/cmd/server"
	"Havoc/pkg/packager"

	"verifh/demon"
)

// Sim is a simulated Demon: identity + session keys + the reference codec.
type Sim struct {
	ID   uint32
	Key  []byte
	IV   []byte
	Meta demon.Meta
}

func NewSim(r *rand.Rand, id uint32) *Sim {
	s := &Sim{ID: id, Key: make([]byte, 32), IV: make([]byte, 16)}
	r.Read(s.Key)
	r.Read(s.IV)
	s.Meta = demon.Meta{AgentID: id, Hostname: fmt.Sprintf("HOST-%04x", r.Intn(0xffff)), Username: fmt.Sprintf("user%d", r.Intn(999)),
		Domain: "CORP", InternalIP: fmt.Sprintf("10.%d.%d.%d", r.Intn(255), r.Intn(255), 1+r.Intn(250)),
		ProcessPath: "C:\\Windows\\System32\\proc.exe", PID: uint32(1000 + r.Intn(60000)), TID: uint32(1000 + r.Intn(60000)), PPID: uint32(500 + r.Intn(500)),
		Arch: 2, Elevated: uint32(r.Intn(2)), BaseAddr: 0x7ff600000000 + uint64(r.Intn(0xffff))<<16, OS: [5]uint32{10, 0, 1, 0, 19045}, OSArch: 9,
		Sleep: uint32(2 + r.Intn(30)), Jitter: uint32(r.Intn(50))}
	return s
}

func (s *Sim) Hex() string { return fmt.Sprintf("%08x", s.ID) }

func (s *Sim) RegisterBytes() []byte { return demon.Register(s.ID, s.Key, s.IV, &s.Meta) }

func (s *Sim) Register(e http.Handler) Resp { return Post(e, "/", s.RegisterBytes(), nil) }

// Checkin sends the callbacks and decodes the task stream of the reply.
func (s *Sim) Checkin(e http.Handler, cbs ...demon.Callback) (Resp, []demon.Task, bool) {
	resp := Post(e, "/", demon.Checkin(s.ID, s.Key, s.IV, cbs...), nil)
	if resp.Panic != nil || resp.Status != 200 {
		return resp, nil, false
	}
	t, ok := demon.ParseTasks(resp.Body, s.Key, s.IV)
	return resp, t, ok
}

// Task issues an operator command in-process (Session/Input package through the real
// DispatchEvent) and returns the request id the operator was told.
func Task(ts *server.Teamserver, demonID string, commandID uint32, taskID uint32, extra map[string]any) {
	info := map[string]any{"DemonID": demonID, "CommandID": fmt.Sprint(commandID), "TaskID": fmt.Sprintf("%08X", taskID), "CommandLine": "cmd"}
	for k, v := range extra {
		info[k] = v
	}
	ts.DispatchEvent(packager.Package{
		Head: packager.Head{Event: packager.Type.Session.Type, User: "alice", OneTime: "true"},
		Body: packager.Body{SubEvent: packager.Type.Session.Input, Info: info}})
}

// TaskSimple queues a task with no arguments problems: COMMAND_CHECKIN (100) takes none.
func TaskSimple(ts *server.Teamserver, demonID string, taskID uint32) {
	Task(ts, demonID, 100, taskID, nil)
}

// TaskRaw sends a Session/Input package with exactly this Info map through DispatchEvent.
func TaskRaw(ts *server.Teamserver, info map[string]any) {
	cp := map[string]any{}
	for k, v := range info {
		cp[k] = v
	}
	ts.DispatchEvent(packager.Package{
		Head: packager.Head{Event: packager.Type.Session.Type, User: "alice", OneTime: "true"},
		Body: packager.Body{SubEvent: packager.Type.Session.Input, Info: cp}})
}
