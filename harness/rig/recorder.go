package rig

import (
	"fmt"
	"sync"

	"Havoc/cmd/server"
	"Havoc/pkg/agent"
	"Havoc/pkg/packager"
)

// Effect is one call observed at the agent.TeamServer interface.
type Effect struct {
	Call   string            `json:"call"`
	Agent  string            `json:"agent,omitempty"`
	Cmd    int               `json:"cmd,omitempty"`
	Output map[string]string `json:"output,omitempty"`
	Arg    string            `json:"arg,omitempty"`
}

// Recorder wraps the real teamserver and logs the calls that have effects an operator or
// the session table can see. It is installed in a listener's exported Teamserver field
// (an agent.TeamServer interface) after ListenerStart.
type Recorder struct {
	*server.Teamserver
	mu  sync.Mutex
	log []Effect
	// Quiet suppresses bookkeeping calls (AgentLastTimeCalled, AgentUpdate) in the log.
	Bookkeeping bool
	// OnAgentAdd, if set, runs right after the real AgentAdd has returned: the first moment
	// at which an operator can see (and task) the new session.
	OnAgentAdd func(a *agent.Agent)
}

var _ agent.TeamServer = (*Recorder)(nil)

func NewRecorder(ts *server.Teamserver) *Recorder { return &Recorder{Teamserver: ts} }

func (r *Recorder) add(e Effect) {
	r.mu.Lock()
	r.log = append(r.log, e)
	r.mu.Unlock()
}

// Take returns and clears the log.
func (r *Recorder) Take() []Effect {
	r.mu.Lock()
	defer r.mu.Unlock()
	l := r.log
	r.log = nil
	return l
}

func (r *Recorder) AgentConsole(id string, cmd int, out map[string]string) {
	cp := map[string]string{}
	for k, v := range out {
		cp[k] = v
	}
	r.add(Effect{Call: "AgentConsole", Agent: id, Cmd: cmd, Output: cp})
	r.Teamserver.AgentConsole(id, cmd, out)
}

func (r *Recorder) Died(a *agent.Agent) {
	r.add(Effect{Call: "Died", Agent: a.NameID})
	r.Teamserver.Died(a)
}

func (r *Recorder) AgentUpdate(a *agent.Agent) {
	if r.Bookkeeping {
		r.add(Effect{Call: "AgentUpdate", Agent: a.NameID})
	}
	r.Teamserver.AgentUpdate(a)
}

func (r *Recorder) LinkAdd(p, l *agent.Agent) error {
	r.add(Effect{Call: "LinkAdd", Agent: p.NameID, Arg: l.NameID})
	return r.Teamserver.LinkAdd(p, l)
}

func (r *Recorder) LinkRemove(p, l *agent.Agent, upd bool) {
	r.add(Effect{Call: "LinkRemove", Agent: p.NameID, Arg: l.NameID})
	r.Teamserver.LinkRemove(p, l, upd)
}

func (r *Recorder) AgentAdd(a *agent.Agent) []*agent.Agent {
	id := "<nil>"
	if a != nil {
		id = a.NameID
	}
	r.add(Effect{Call: "AgentAdd", Agent: id})
	out := r.Teamserver.AgentAdd(a)
	if r.OnAgentAdd != nil && a != nil {
		r.OnAgentAdd(a)
	}
	return out
}

func (r *Recorder) AgentSendNotify(a *agent.Agent) {
	r.add(Effect{Call: "AgentSendNotify", Agent: a.NameID})
	r.Teamserver.AgentSendNotify(a)
}

func (r *Recorder) PythonModuleCallback(client, id string, cmd int, out map[string]string) {
	r.add(Effect{Call: "PythonModuleCallback", Agent: id, Cmd: cmd, Arg: client})
	r.Teamserver.PythonModuleCallback(client, id, cmd, out)
}

func (r *Recorder) AgentCallbackSize(a *agent.Agent, n int) {
	if r.Bookkeeping {
		r.add(Effect{Call: "AgentCallbackSize", Agent: a.NameID, Arg: fmt.Sprint(n)})
	}
	r.Teamserver.AgentCallbackSize(a, n)
}

func (r *Recorder) AgentLastTimeCalled(id, last string, sleep, jitter int, kd int64, wh int32) {
	if r.Bookkeeping {
		r.add(Effect{Call: "AgentLastTimeCalled", Agent: id})
	}
	r.Teamserver.AgentLastTimeCalled(id, last, sleep, jitter, kd, wh)
}

func (r *Recorder) EventAgentMark(id, mark string) {
	r.add(Effect{Call: "EventAgentMark", Agent: id, Arg: mark})
	r.Teamserver.EventAgentMark(id, mark)
}

func (r *Recorder) AgentExist(id int) bool {
	if r.Bookkeeping {
		r.add(Effect{Call: "AgentExist", Arg: fmt.Sprintf("%08x", uint32(id))})
	}
	return r.Teamserver.AgentExist(id)
}

func (r *Recorder) ServiceAgentExist(magic int) bool {
	if r.Bookkeeping {
		r.add(Effect{Call: "ServiceAgentExist", Arg: fmt.Sprintf("%x", magic)})
	}
	return r.Teamserver.ServiceAgentExist(magic)
}

func (r *Recorder) EventAppend(pk packager.Package) []packager.Package {
	return r.Teamserver.EventAppend(pk)
}
