// Package observe holds the observers shared by the monitors: file-tree snapshots,
// independent database reads, canonical teamserver state snapshots and lock probes.
package observe

import (
	"crypto/sha256"
	"database/sql"
	"encoding/hex"
	"encoding/json"
	"fmt"
	"os"
	"path/filepath"
	"sort"
	"strings"
	"sync"
	"time"

	"Havoc/cmd/server"
	"Havoc/pkg/agent"

	_ "github.com/mattn/go-sqlite3"
)

// FSSnap maps every path below root (relative, slash separated) to "dir" or the SHA-256
// of the file content (symlinks: "link:<target>").
func FSSnap(root string) map[string]string {
	out := map[string]string{}
	filepath.Walk(root, func(p string, fi os.FileInfo, err error) error {
		if err != nil {
			return nil
		}
		rel, _ := filepath.Rel(root, p)
		if rel == "." {
			return nil
		}
		switch {
		case fi.Mode()&os.ModeSymlink != 0:
			t, _ := os.Readlink(p)
			out[rel] = "link:" + t
		case fi.IsDir():
			out[rel] = "dir"
		default:
			b, err := os.ReadFile(p)
			if err != nil {
				out[rel] = "unreadable"
			} else {
				h := sha256.Sum256(b)
				out[rel] = fmt.Sprintf("%d:%s", len(b), hex.EncodeToString(h[:8]))
			}
		}
		return nil
	})
	return out
}

// FSDiff lists the paths that were added, removed or changed between two snapshots.
func FSDiff(a, b map[string]string) []string {
	var d []string
	for k, v := range b {
		if av, ok := a[k]; !ok {
			d = append(d, "+"+k)
		} else if av != v {
			d = append(d, "~"+k)
		}
	}
	for k := range a {
		if _, ok := b[k]; !ok {
			d = append(d, "-"+k)
		}
	}
	sort.Strings(d)
	return d
}

// DBRows reads a whole table through a separate read-only connection; every value is
// rendered with its SQLite storage class so that "7" and 7 differ.
func DBRows(path, table string, skipCols ...string) ([]string, error) {
	db, err := sql.Open("sqlite3", "file:"+path+"?mode=ro&_busy_timeout=5000")
	if err != nil {
		return nil, err
	}
	defer db.Close()
	rows, err := db.Query("SELECT * FROM " + table)
	if err != nil {
		return nil, err
	}
	defer rows.Close()
	cols, _ := rows.Columns()
	skip := map[string]bool{}
	for _, s := range skipCols {
		skip[s] = true
	}
	var out []string
	for rows.Next() {
		vals := make([]any, len(cols))
		ptrs := make([]any, len(cols))
		for i := range vals {
			ptrs[i] = &vals[i]
		}
		if err := rows.Scan(ptrs...); err != nil {
			return out, err
		}
		var sb strings.Builder
		for i, c := range cols {
			if skip[c] {
				continue
			}
			switch v := vals[i].(type) {
			case []byte:
				fmt.Fprintf(&sb, "%s=b%q|", c, string(v))
			case string:
				fmt.Fprintf(&sb, "%s=s%q|", c, v)
			case nil:
				fmt.Fprintf(&sb, "%s=null|", c)
			default:
				fmt.Fprintf(&sb, "%s=%T:%v|", c, v, v)
			}
		}
		out = append(out, sb.String())
	}
	sort.Strings(out)
	return out, nil
}

type AgentSnap struct {
	ID        string
	Active    bool
	Reason    string
	Key, IV   string
	Info      map[string]any
	Queue     []uint32
	QueueCmds []uint32
	Tasks     []uint32
	Downloads []int
	Parent    string
	Links     []string
	PortFwds  int
	SocksCli  int
	SocksSvr  int
}

// Agents snapshots the session table (timestamps masked). Only call at quiescent points.
func Agents(ts *server.Teamserver) []AgentSnap {
	var out []AgentSnap
	for _, a := range ts.Agents.Agents {
		out = append(out, AgentOf(a))
	}
	return out
}

func AgentOf(a *agent.Agent) AgentSnap {
	s := AgentSnap{ID: a.NameID, Active: a.Active, Reason: a.Reason,
		Key: hex.EncodeToString(a.Encryption.AESKey), IV: hex.EncodeToString(a.Encryption.AESIv)}
	if a.Info != nil {
		b, _ := json.Marshal(a.Info)
		json.Unmarshal(b, &s.Info)
		delete(s.Info, "LastCallIn")
		delete(s.Info, "FirstCallIn")
		delete(s.Info, "Listener")
	}
	for _, j := range a.JobQueue {
		s.Queue = append(s.Queue, j.RequestID)
		s.QueueCmds = append(s.QueueCmds, j.Command)
	}
	for _, j := range a.Tasks {
		s.Tasks = append(s.Tasks, j.RequestID)
	}
	for _, d := range a.Downloads {
		s.Downloads = append(s.Downloads, d.FileID)
	}
	if a.Pivots.Parent != nil {
		s.Parent = a.Pivots.Parent.NameID
	}
	for _, l := range a.Pivots.Links {
		if l == nil {
			s.Links = append(s.Links, "<nil>")
		} else {
			s.Links = append(s.Links, l.NameID)
		}
	}
	a.PortFwdsMtx.Lock()
	s.PortFwds = len(a.PortFwds)
	a.PortFwdsMtx.Unlock()
	a.SocksCliMtx.Lock()
	s.SocksCli = len(a.SocksCli)
	a.SocksCliMtx.Unlock()
	a.SocksSvrMtx.Lock()
	s.SocksSvr = len(a.SocksSvr)
	a.SocksSvrMtx.Unlock()
	return s
}

// State is the canonical snapshot used for "leaves everything untouched" comparisons.
type State struct {
	Agents    []AgentSnap
	Listeners []string
	Endpoints []string
	DBAgents  []string
	DBLinks   []string
	DBListen  []string
	Loot      map[string]string
}

func Snapshot(ts *server.Teamserver, dbPath, lootRoot string) State {
	var s State
	s.Agents = Agents(ts)
	for _, l := range ts.Listeners {
		s.Listeners = append(s.Listeners, fmt.Sprintf("%s/%d", l.Name, l.Type))
	}
	for _, e := range ts.Endpoints {
		s.Endpoints = append(s.Endpoints, e.Endpoint)
	}
	if dbPath != "" {
		s.DBAgents, _ = DBRows(dbPath, "TS_Agents", "LastCallIn", "FirstCallIn")
		s.DBLinks, _ = DBRows(dbPath, "TS_Links")
		s.DBListen, _ = DBRows(dbPath, "TS_Listeners")
	}
	if lootRoot != "" {
		s.Loot = FSSnap(lootRoot)
	}
	return s
}

func (s State) JSON() string {
	b, _ := json.Marshal(s)
	return string(b)
}

// Diff returns a short human readable description of the first differences.
func Diff(a, b State) []string {
	var d []string
	ja, jb := map[string]any{}, map[string]any{}
	ba, _ := json.Marshal(a)
	bb, _ := json.Marshal(b)
	json.Unmarshal(ba, &ja)
	json.Unmarshal(bb, &jb)
	for k := range ja {
		x, _ := json.Marshal(ja[k])
		y, _ := json.Marshal(jb[k])
		if string(x) != string(y) {
			xs, ys := string(x), string(y)
			if len(xs) > 600 {
				xs = xs[:600] + "…"
			}
			if len(ys) > 600 {
				ys = ys[:600] + "…"
			}
			d = append(d, fmt.Sprintf("%s: before=%s after=%s", k, xs, ys))
		}
	}
	sort.Strings(d)
	return d
}

// TryLocked probes a mutex: it reports true if the mutex stays locked for the whole
// back-off period (relay goroutines may hold it briefly, so a single failed TryLock is
// not a verdict).
func TryLocked(m *sync.Mutex, wait time.Duration) bool {
	deadline := time.Now().Add(wait)
	for {
		if m.TryLock() {
			m.Unlock()
			return false
		}
		if time.Now().After(deadline) {
			return true
		}
		time.Sleep(2 * time.Millisecond)
	}
}

// HeldAgentLocks returns the names of agent mutexes that are persistently locked.
func HeldAgentLocks(ts *server.Teamserver, wait time.Duration) []string {
	var held []string
	for _, a := range ts.Agents.Agents {
		if TryLocked(&a.JobMtx, wait) {
			held = append(held, a.NameID+".JobMtx")
		}
		if TryLocked(&a.PortFwdsMtx, wait) {
			held = append(held, a.NameID+".PortFwdsMtx")
		}
		if TryLocked(&a.SocksCliMtx, wait) {
			held = append(held, a.NameID+".SocksCliMtx")
		}
		if TryLocked(&a.SocksSvrMtx, wait) {
			held = append(held, a.NameID+".SocksSvrMtx")
		}
	}
	return held
}

// HeldClientLocks returns the ids of operator connections whose write mutex is
// persistently locked.
func HeldClientLocks(ts *server.Teamserver, wait time.Duration) []string {
	var held []string
	ts.Clients.Range(func(k, v any) bool {
		c := v.(*server.Client)
		if TryLocked(&c.Mutex, wait) {
			held = append(held, k.(string))
		}
		return true
	})
	return held
}
