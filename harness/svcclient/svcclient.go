// Package svcclient is a real websocket client of the teamserver's third-party service
// endpoint (pkg/service): Register handshake, agent/listener registration and an
// automatic answer to every AgentResponse request so that relayed third-party agent
// traffic can never block on an unanswered channel by the harness's own doing.
package svcclient

import (
	"crypto/tls"
	"encoding/base64"
	"encoding/json"
	"fmt"
	"net"
	"sync"
	"time"

	"github.com/gorilla/websocket"
)

type Msg struct {
	Head map[string]any `json:"Head"`
	Body map[string]any `json:"Body"`
	Raw  []byte         `json:"-"`
}

type Client struct {
	Conn *websocket.Conn
	Name string

	mu     sync.Mutex
	cond   *sync.Cond
	msgs   []Msg
	closed bool
	wmu    sync.Mutex

	// AutoReply, when non-nil, produces the answer bytes for an AgentResponse request
	// (default: echo "svc:<Name>:" + request bytes).
	AutoReply func(req Msg, payload []byte) []byte
	// Answered counts the AgentResponse requests answered.
	Answered int
}

func Dial(addr, endpoint string) (*Client, error) {
	d := websocket.Dialer{TLSClientConfig: &tls.Config{InsecureSkipVerify: true}, HandshakeTimeout: 20 * time.Second}
	c, _, err := d.Dial("wss://"+addr+"/"+endpoint, nil)
	if err != nil {
		return nil, err
	}
	cl := &Client{Conn: c}
	cl.cond = sync.NewCond(&cl.mu)
	go cl.reader()
	return cl, nil
}

func (c *Client) reader() {
	for {
		_, b, err := c.Conn.ReadMessage()
		if err != nil {
			c.mu.Lock()
			c.closed = true
			c.cond.Broadcast()
			c.mu.Unlock()
			return
		}
		var m Msg
		json.Unmarshal(b, &m)
		m.Raw = b
		c.mu.Lock()
		c.msgs = append(c.msgs, m)
		c.cond.Broadcast()
		c.mu.Unlock()
		if m.Head["Type"] == "Agent" && m.Body["Type"] == "AgentResponse" {
			rid, _ := m.Body["RandID"].(string)
			req, _ := m.Body["Response"].(string)
			payload, _ := base64.StdEncoding.DecodeString(req)
			var ans []byte
			if c.AutoReply != nil {
				ans = c.AutoReply(m, payload)
			} else {
				ans = append([]byte("svc:"+c.Name+":"), payload...)
			}
			c.SendJSON(map[string]any{
				"Head": map[string]any{"Type": "Agent"},
				"Body": map[string]any{"Type": "AgentResponse", "RandID": rid, "Response": base64.StdEncoding.EncodeToString(ans)},
			})
			c.mu.Lock()
			c.Answered++
			c.mu.Unlock()
		}
	}
}

func (c *Client) SendRaw(b []byte) error {
	c.wmu.Lock()
	defer c.wmu.Unlock()
	return c.Conn.WriteMessage(websocket.TextMessage, b)
}

func (c *Client) SendJSON(v any) error {
	b, err := json.Marshal(v)
	if err != nil {
		return err
	}
	return c.SendRaw(b)
}

// Register performs the password handshake; ok is Body.Success of the reply.
func (c *Client) Register(password string, wait time.Duration) (bool, error) {
	if err := c.SendJSON(map[string]any{"Head": map[string]any{"Type": "Register"}, "Body": map[string]any{"Password": password}}); err != nil {
		return false, err
	}
	m, ok := c.WaitFor(func(m Msg) bool { return m.Head["Type"] == "Register" }, wait)
	if !ok {
		return false, fmt.Errorf("no Register reply (closed=%v)", c.Closed())
	}
	s, _ := m.Body["Success"].(bool)
	return s, nil
}

// Connect = Dial + Register.
func Connect(addr, endpoint, password, name string) (*Client, error) {
	c, err := Dial(addr, endpoint)
	if err != nil {
		return nil, err
	}
	c.Name = name
	ok, err := c.Register(password, 20*time.Second)
	if err != nil || !ok {
		c.Close()
		return nil, fmt.Errorf("service register failed: ok=%v err=%v", ok, err)
	}
	return c, nil
}

// RegisterAgent registers a third-party agent type (magic like "0x41414141").
func (c *Client) RegisterAgent(name, magic string) error {
	return c.SendJSON(map[string]any{
		"Head": map[string]any{"Type": "RegisterAgent"},
		"Body": map[string]any{"Agent": map[string]any{
			"Name": name, "MagicValue": magic, "Author": "verif", "Description": "d",
			"Formats": []any{}, "SupportedOS": []string{"linux"}, "Commands": []any{}, "BuildingConfig": map[string]any{},
		}},
	})
}

// AddListener registers a service-defined listener kind.
func (c *Client) AddListener(name, agent string) error {
	return c.SendJSON(map[string]any{
		"Head": map[string]any{"Type": "Listener"},
		"Body": map[string]any{"Type": "ListenerAdd", "Listener": map[string]any{"Name": name, "Agent": agent, "Items": []any{}}},
	})
}

// AddExC2 registers an External-C2 endpoint owned by this connection and waits for the reply.
func (c *Client) AddExC2(name, endpoint, reqID string, wait time.Duration) (success bool, errText string, got bool) {
	c.SendJSON(map[string]any{
		"Head": map[string]any{"Type": "Listener", "RequestID": reqID},
		"Body": map[string]any{"Type": "ListenerAddExC2", "Name": name, "Endpoint": endpoint},
	})
	m, ok := c.WaitFor(func(m Msg) bool {
		return m.Head["Type"] == "Listener" && m.Head["RequestID"] == reqID && m.Body["Type"] == "ListenerAddExC2"
	}, wait)
	if !ok {
		return false, "", false
	}
	ex, _ := m.Body["ExC2"].(map[string]any)
	s, _ := ex["Success"].(bool)
	e, _ := ex["Error"].(string)
	return s, e, true
}

func (c *Client) Msgs() []Msg {
	c.mu.Lock()
	defer c.mu.Unlock()
	return append([]Msg(nil), c.msgs...)
}

func (c *Client) Closed() bool {
	c.mu.Lock()
	defer c.mu.Unlock()
	return c.closed
}

func (c *Client) WaitFor(pred func(Msg) bool, wait time.Duration) (Msg, bool) {
	deadline := time.Now().Add(wait)
	timer := time.AfterFunc(wait, func() { c.mu.Lock(); c.cond.Broadcast(); c.mu.Unlock() })
	defer timer.Stop()
	c.mu.Lock()
	defer c.mu.Unlock()
	scanned := 0
	for {
		for ; scanned < len(c.msgs); scanned++ {
			if pred(c.msgs[scanned]) {
				return c.msgs[scanned], true
			}
		}
		if c.closed || time.Now().After(deadline) {
			return Msg{}, false
		}
		c.cond.Wait()
	}
}

func (c *Client) Close() { c.Conn.Close() }

// Reset drops the connection the way a vanished host does: the TCP connection is reset
// (SO_LINGER 0), no TLS close_notify and no websocket close frame are sent.
func (c *Client) Reset() bool {
	tc, ok := c.Conn.UnderlyingConn().(*tls.Conn)
	if !ok {
		return false
	}
	raw, ok := tc.NetConn().(*net.TCPConn)
	if !ok {
		return false
	}
	raw.SetLinger(0)
	raw.Close()
	return true
}
