// Package faultproxy is a TCP forwarder between an operator client and the teamserver
// that can cut the server->client byte stream after exactly N bytes or stop reading from
// the server (stall), so that transport failures are placed at chosen points (C11).
package faultproxy

import (
	"net"
	"sync"
	"sync/atomic"
)

type Proxy struct {
	ln     net.Listener
	target string

	// CutAfter >= 0: close both sides once that many server->client bytes were forwarded.
	CutAfter atomic.Int64
	// Stall: stop reading from the server (the server's writes eventually block).
	Stall atomic.Bool

	Down atomic.Int64 // server->client bytes forwarded
	Up   atomic.Int64

	mu    sync.Mutex
	conns []net.Conn
	cut   atomic.Bool
}

func New(target string) (*Proxy, error) {
	ln, err := net.Listen("tcp", "127.0.0.1:0")
	if err != nil {
		return nil, err
	}
	p := &Proxy{ln: ln, target: target}
	p.CutAfter.Store(-1)
	go p.accept()
	return p, nil
}

func (p *Proxy) Addr() string { return p.ln.Addr().String() }

func (p *Proxy) accept() {
	for {
		c, err := p.ln.Accept()
		if err != nil {
			return
		}
		s, err := net.Dial("tcp", p.target)
		if err != nil {
			c.Close()
			continue
		}
		p.mu.Lock()
		p.conns = append(p.conns, c, s)
		p.mu.Unlock()
		go p.up(c, s)
		go p.down(s, c)
	}
}

func (p *Proxy) up(c, s net.Conn) {
	buf := make([]byte, 32<<10)
	for {
		n, err := c.Read(buf)
		if n > 0 {
			if _, werr := s.Write(buf[:n]); werr != nil {
				break
			}
			p.Up.Add(int64(n))
		}
		if err != nil {
			break
		}
	}
	// half-close towards the server like a dying client would (RST/FIN)
	s.Close()
	c.Close()
}

func (p *Proxy) down(s, c net.Conn) {
	buf := make([]byte, 4<<10)
	for {
		if p.Stall.Load() {
			// do not read from the server any more; keep the sockets open
			select {}
		}
		n, err := s.Read(buf)
		if n > 0 {
			b := buf[:n]
			if lim := p.CutAfter.Load(); lim >= 0 {
				rest := lim - p.Down.Load()
				if rest <= 0 {
					p.cutNow(s, c)
					return
				}
				if int64(len(b)) > rest {
					b = b[:rest]
				}
			}
			if _, werr := c.Write(b); werr != nil {
				break
			}
			p.Down.Add(int64(len(b)))
			if lim := p.CutAfter.Load(); lim >= 0 && p.Down.Load() >= lim {
				p.cutNow(s, c)
				return
			}
		}
		if err != nil {
			break
		}
	}
	s.Close()
	c.Close()
}

func (p *Proxy) cutNow(s, c net.Conn) {
	p.cut.Store(true)
	if tc, ok := s.(*net.TCPConn); ok {
		tc.SetLinger(0) // RST towards the server: a vanished client
	}
	s.Close()
	c.Close()
}

// WasCut reports whether the configured cut point was reached.
func (p *Proxy) WasCut() bool { return p.cut.Load() }

// CutNow closes every connection immediately.
func (p *Proxy) CutNow() {
	p.mu.Lock()
	defer p.mu.Unlock()
	for _, c := range p.conns {
		if tc, ok := c.(*net.TCPConn); ok {
			tc.SetLinger(0)
		}
		c.Close()
	}
	p.cut.Store(true)
}

func (p *Proxy) Close() {
	p.ln.Close()
	p.CutNow()
}
