// Package lib is the worker-side contract between a property workload/monitor and the
// /verif/check driver: counters, distinct-case hashes, samples, violation candidates and
// the "current input" file that survives a process-fatal error.
package lib

import (
	"encoding/binary"
	"encoding/json"
	"fmt"
	"hash/fnv"
	"math/rand"
	"os"
	"path/filepath"
	"runtime/debug"
	"sort"
	"sync"
	"time"
)

// Violation is a candidate violation reported by a monitor. Signature is the stable,
// minimised class of the failing input/history (used to match known findings); Witness
// must contain everything needed to replay the single case.
type Violation struct {
	Signature string `json:"signature"`
	What      string `json:"what"`
	Witness   any    `json:"witness"`
}

type Result struct {
	Property     string           `json:"property"`
	Tier         string           `json:"tier"`
	Seed         int64            `json:"seed"`
	Shard        int              `json:"shard"`
	Shards       int              `json:"shards"`
	Evaluations  int64            `json:"evaluations"`
	Distinct     int              `json:"distinct"`
	Rule         string           `json:"rule"`
	Samples      []any            `json:"samples"`
	Violations   []Violation      `json:"violations"`
	Inconclusive []string         `json:"inconclusive"`
	Observed     map[string]int64 `json:"observed"`
	Notes        map[string]any   `json:"notes"`
	Assumptions  []string         `json:"assumptions"`
	Exhaustive   bool             `json:"exhaustive"`
	WallS        float64          `json:"wall_s"`
	Done         bool             `json:"done"`
}

type Ctx struct {
	Prop   string
	Tier   string // quick | thorough
	Seed   int64
	Shard  int
	Shards int
	Out    string
	Rng    *rand.Rand
	Replay json.RawMessage // non-nil: re-run exactly this witness

	mu       sync.Mutex
	res      Result
	hashes   map[uint64]struct{}
	cur      *os.File
	start    time.Time
	maxSamp  int
	maxViol  int
	violSigs map[string]int
}

func NewCtx(prop, tier string, seed int64, shard, shards int, out string) *Ctx {
	c := &Ctx{Prop: prop, Tier: tier, Seed: seed, Shard: shard, Shards: shards, Out: out}
	// every shard gets its own stream, determined by (seed, shard, property)
	h := fnv.New64a()
	fmt.Fprintf(h, "%s/%d/%d", prop, seed, shard)
	c.Rng = rand.New(rand.NewSource(int64(h.Sum64())))
	c.hashes = map[uint64]struct{}{}
	c.violSigs = map[string]int{}
	c.res = Result{Property: prop, Tier: tier, Seed: seed, Shard: shard, Shards: shards,
		Observed: map[string]int64{}, Notes: map[string]any{}}
	c.start = time.Now()
	c.maxSamp = 6
	c.maxViol = 200
	os.MkdirAll(out, 0o755)
	f, err := os.OpenFile(filepath.Join(out, fmt.Sprintf("cur-%d", shard)), os.O_CREATE|os.O_RDWR|os.O_TRUNC, 0o644)
	if err == nil {
		c.cur = f
	}
	return c
}

func (c *Ctx) Thorough() bool { return c.Tier == "thorough" }

// N picks the tier-dependent case count and divides it over the shards.
func (c *Ctx) N(quick, thorough int) int {
	n := quick
	if c.Thorough() {
		n = thorough
	}
	per := n / c.Shards
	if c.Shard < n%c.Shards {
		per++
	}
	return per
}

// Mine reports whether item i of an enumerated space belongs to this shard.
func (c *Ctx) Mine(i int) bool { return i%c.Shards == c.Shard }

// Cur records the input about to be processed so that a process-fatal error (stack
// exhaustion, checkptr, concurrent map write) leaves a witness behind.
func (c *Ctx) Cur(kind string, data []byte) {
	if c.cur == nil {
		return
	}
	var hdr [8]byte
	binary.LittleEndian.PutUint32(hdr[:4], uint32(len(kind)))
	binary.LittleEndian.PutUint32(hdr[4:], uint32(len(data)))
	c.cur.WriteAt(hdr[:], 0)
	c.cur.WriteAt([]byte(kind), 8)
	c.cur.WriteAt(data, int64(8+len(kind)))
	c.cur.Truncate(int64(8 + len(kind) + len(data)))
}

func (c *Ctx) Eval() {
	c.mu.Lock()
	c.res.Evaluations++
	c.mu.Unlock()
}

func (c *Ctx) EvalN(n int) {
	c.mu.Lock()
	c.res.Evaluations += int64(n)
	c.mu.Unlock()
}

// Distinct registers one distinct non-trivial case (by the property's own rule); the key
// should canonically identify the case.
func (c *Ctx) Distinct(key string) {
	h := fnv.New64a()
	h.Write([]byte(key))
	c.DistinctHash(h.Sum64())
}

func (c *Ctx) DistinctBytes(key []byte) {
	h := fnv.New64a()
	h.Write(key)
	c.DistinctHash(h.Sum64())
}

func (c *Ctx) DistinctHash(h uint64) {
	c.mu.Lock()
	c.hashes[h] = struct{}{}
	c.mu.Unlock()
}

func (c *Ctx) Sample(v any) {
	c.mu.Lock()
	if len(c.res.Samples) < c.maxSamp {
		c.res.Samples = append(c.res.Samples, v)
	}
	c.mu.Unlock()
}

// SampleSome keeps the sample with probability 1/every once the first two are taken, so
// that samples are spread over the run.
func (c *Ctx) SampleSome(every int, v func() any) {
	c.mu.Lock()
	n := len(c.res.Samples)
	ev := c.res.Evaluations
	c.mu.Unlock()
	if n >= c.maxSamp {
		return
	}
	if n < 2 || (every > 0 && ev%int64(every) == 0) {
		c.Sample(v())
	}
}

func (c *Ctx) Observe(key string, n int64) {
	c.mu.Lock()
	c.res.Observed[key] += n
	c.mu.Unlock()
}

func (c *Ctx) ObserveMax(key string, n int64) {
	c.mu.Lock()
	if c.res.Observed[key] < n {
		c.res.Observed[key] = n
	}
	c.mu.Unlock()
}

func (c *Ctx) Note(key string, v any) {
	c.mu.Lock()
	c.res.Notes[key] = v
	c.mu.Unlock()
}

func (c *Ctx) Rule(s string) { c.res.Rule = s }

func (c *Ctx) Assume(s ...string) { c.res.Assumptions = append(c.res.Assumptions, s...) }

func (c *Ctx) Exhaustive(b bool) { c.res.Exhaustive = b }

// Violation records a candidate. At most 3 witnesses are kept per signature (the count is
// kept in Observed), so that a systematic defect does not flood the result.
func (c *Ctx) Violation(sig, what string, witness any) {
	c.mu.Lock()
	defer c.mu.Unlock()
	c.violSigs[sig]++
	c.res.Observed["viol:"+sig]++
	if c.violSigs[sig] > 3 || len(c.res.Violations) >= c.maxViol {
		return
	}
	c.res.Violations = append(c.res.Violations, Violation{Signature: sig, What: what, Witness: witness})
	c.flushLocked(false)
}

func (c *Ctx) Inconclusive(what string) {
	c.mu.Lock()
	if len(c.res.Inconclusive) < 100 {
		c.res.Inconclusive = append(c.res.Inconclusive, what)
	}
	c.res.Observed["inconclusive"]++
	c.mu.Unlock()
}

func (c *Ctx) ViolationCount() int {
	c.mu.Lock()
	defer c.mu.Unlock()
	n := 0
	for _, v := range c.violSigs {
		n += v
	}
	return n
}

func (c *Ctx) flushLocked(done bool) {
	c.res.Distinct = len(c.hashes)
	c.res.WallS = time.Since(c.start).Seconds()
	c.res.Done = done
	b, err := json.Marshal(&c.res)
	if err != nil {
		// a witness that cannot be marshalled must not lose the verdict
		c.res.Samples = nil
		for i := range c.res.Violations {
			c.res.Violations[i].Witness = fmt.Sprintf("%v", c.res.Violations[i].Witness)
		}
		b, _ = json.Marshal(&c.res)
	}
	tmp := filepath.Join(c.Out, fmt.Sprintf("result-%d.json.tmp", c.Shard))
	os.WriteFile(tmp, b, 0o644)
	os.Rename(tmp, filepath.Join(c.Out, fmt.Sprintf("result-%d.json", c.Shard)))
}

// Checkpoint writes the partial result (Done=false) so that a later fatal crash still
// leaves counters behind.
func (c *Ctx) Checkpoint() {
	c.mu.Lock()
	c.flushLocked(false)
	c.mu.Unlock()
}

func (c *Ctx) Finish() {
	c.mu.Lock()
	defer c.mu.Unlock()
	c.flushLocked(true)
	hs := make([]uint64, 0, len(c.hashes))
	for h := range c.hashes {
		hs = append(hs, h)
	}
	sort.Slice(hs, func(i, j int) bool { return hs[i] < hs[j] })
	buf := make([]byte, 8*len(hs))
	for i, h := range hs {
		binary.LittleEndian.PutUint64(buf[8*i:], h)
	}
	os.WriteFile(filepath.Join(c.Out, fmt.Sprintf("hashes-%d.bin", c.Shard)), buf, 0o644)
}

// Guard runs f and converts a recoverable panic into (value, stack).
func Guard(f func()) (pv any, stack string) {
	defer func() {
		if r := recover(); r != nil {
			pv = r
			stack = string(debug.Stack())
		}
	}()
	f()
	return nil, ""
}

// ---- registry ----

type PropFunc func(c *Ctx)

var registry = map[string]PropFunc{}

func Register(id string, f PropFunc) { registry[id] = f }

func Lookup(id string) PropFunc { return registry[id] }

func Registered() []string {
	var ids []string
	for k := range registry {
		ids = append(ids, k)
	}
	sort.Strings(ids)
	return ids
}

// PanicSig reduces a panic stack to a stable signature: the panic value class plus the
// first frames inside Havoc/ (function names only, no line numbers).
func PanicSig(pv any, stack string) string {
	return fmt.Sprintf("panic:%s@%s", classify(fmt.Sprint(pv)), TopHavocFrames(stack, 2))
}
