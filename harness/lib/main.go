// verifh is the worker binary: one invocation = one shard of one property's workload.
package lib

import (
	"encoding/json"
	"flag"
	"fmt"
	"os"
)

func Main() {
	var (
		tier   = flag.String("tier", "quick", "quick|thorough")
		seed   = flag.Int64("seed", 1, "VERIF_SEED")
		shard  = flag.Int("shard", 0, "shard index")
		shards = flag.Int("shards", 1, "number of shards")
		out    = flag.String("out", "", "output directory")
		replay = flag.String("replay", "", "witness file (json) to re-run alone")
		list   = flag.Bool("list", false, "list registered properties")
	)
	flag.Parse()
	if *list {
		for _, id := range Registered() {
			fmt.Println(id)
		}
		return
	}
	if flag.NArg() != 1 || *out == "" {
		fmt.Fprintln(os.Stderr, "usage: verifh [flags] --out DIR <PROPERTY>")
		os.Exit(2)
	}
	id := flag.Arg(0)
	f := Lookup(id)
	if f == nil {
		fmt.Fprintf(os.Stderr, "unknown property %s\n", id)
		os.Exit(2)
	}
	c := NewCtx(id, *tier, *seed, *shard, *shards, *out)
	if *replay != "" {
		b, err := os.ReadFile(*replay)
		if err != nil {
			fmt.Fprintln(os.Stderr, err)
			os.Exit(2)
		}
		// accept either a bare witness or a replay file {"witness": ...}
		var wrap struct {
			Witness json.RawMessage `json:"witness"`
		}
		if json.Unmarshal(b, &wrap) == nil && len(wrap.Witness) > 0 {
			c.Replay = wrap.Witness
		} else {
			c.Replay = b
		}
	}
	f(c)
	c.Finish()
}
