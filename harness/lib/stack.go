package lib

import (
	"regexp"
	"strings"
)

var (
	reNum  = regexp.MustCompile(`[0-9]+`)
	reHex  = regexp.MustCompile(`0x[0-9a-fA-F]+`)
	reFunc = regexp.MustCompile(`^(Havoc/[^\s(]+|Havoc/.*?\)\.[A-Za-z0-9_]+)\(`)
)

// classify strips the variable parts (numbers, addresses) from a panic message.
func classify(msg string) string {
	msg = reHex.ReplaceAllString(msg, "X")
	msg = reNum.ReplaceAllString(msg, "N")
	if len(msg) > 120 {
		msg = msg[:120]
	}
	return msg
}

func Classify(msg string) string { return classify(msg) }

// TopHavocFrames returns the first n function names of the stack that belong to the
// code under test (module Havoc), without line numbers.
func TopHavocFrames(stack string, n int) string {
	var out []string
	for _, line := range strings.Split(stack, "\n") {
		line = strings.TrimSpace(line)
		if !strings.HasPrefix(line, "Havoc/") {
			continue
		}
		// function line looks like: Havoc/pkg/agent.(*Agent).TaskDispatch(0x..., ...)
		if i := strings.LastIndex(line, "("); i > 0 {
			line = line[:i]
		}
		out = append(out, line)
		if len(out) >= n {
			break
		}
	}
	return strings.Join(out, "<")
}
