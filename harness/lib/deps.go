package lib

// keep the two module requirements alive for `go mod tidy`
import (
	_ "Havoc/pkg/common/parser"
	_ "github.com/anishathalye/porcupine"
)
