// Package model holds the reference models shared by several monitors. callbacks.go is
// the table of agent->server callback layouts (the PackageAdd* sequences of the Demon's
// command handlers in payloads/Demon/src/core/Command.c and friends), used to generate
// grammar-valid callbacks carrying marker values (C03), to corrupt them (C01) and to
// forge them (C05).
package model

import (
	"fmt"
	"math/rand"

	"verifh/demon"
)

// F is one field of a callback body.
type F struct {
	K    string // i32 i64 ptr bool w s bytes
	C    uint64 // constant value (sub-command ids, flags) when !M
	M    bool   // marker: the generator picks a distinctive value
	Show bool   // the operator is shown this value (console message)
	T    string // constant text for w/s when !M
}

type Layout struct {
	Name   string
	Cmd    uint32
	Fields []F
	// Final: the Demon sends exactly one such package per task and the request is complete
	// afterwards (DESIGN.md Appendix B). Never true for kinds with possible later output.
	Final bool
	// NoTask: accepted without an outstanding task (relay kinds).
	NoTask bool
	// Effect names what an accepted callback visibly does besides console output.
	Effect string
}

func c(v uint64) F            { return F{K: "i32", C: v} }
func m32() F                  { return F{K: "i32", M: true, Show: true} }
func m32h() F                 { return F{K: "i32", M: true} } // marker not necessarily shown
func m64() F                  { return F{K: "i64", M: true, Show: true} }
func mptr() F                 { return F{K: "ptr", M: true, Show: true} }
func mw() F                   { return F{K: "w", M: true, Show: true} }
func ms() F                   { return F{K: "s", M: true, Show: true} }
func b(v uint64) F            { return F{K: "bool", C: v} }
func k64(v uint64) F          { return F{K: "i64", C: v} }
func L(name string, cmd uint32, final bool, fs ...F) Layout {
	return Layout{Name: name, Cmd: cmd, Fields: fs, Final: final}
}

// Layouts lists callbacks whose success form is unambiguous in the Demon source.
var Layouts = []Layout{
	L("sleep", 11, true, m32(), m32()),
	L("info.mem_alloc", 89, true, c(10), mptr(), m32(), c(0x40)),
	L("info.mem_exec", 89, true, c(11), mptr(), m32()),
	L("info.mem_protect", 89, true, c(12), mptr(), m32(), c(0x04), c(0x20)),
	L("job.list", 21, true, c(1), m32(), c(1), c(1)),
	L("job.suspend", 21, true, c(2), m32(), c(1)),
	L("job.resume", 21, true, c(3), m32(), c(1)),
	L("job.kill", 21, true, c(4), m32(), c(1)),
	L("fs.dir", 15, true, c(1), b(0), b(0), F{K: "w", T: "C:\\start\\*"}, b(1), mw(), c(1), c(0), k64(1234), mw(), b(0), k64(77), c(1), c(2), c(2024), c(30), c(12)),
	// dir /s: one block per directory ([path][files][dirs][size] + its entries), here three
	// directories with 1, 2 and 1 entries
	L("fs.dir.recursive", 15, true, c(1), b(0), b(0), F{K: "w", T: "C:\\start\\*"}, b(1),
		mw(), c(1), c(0), k64(1234), mw(), b(0), k64(77), c(1), c(2), c(2024), c(30), c(12),
		mw(), c(1), c(1), k64(99), mw(), b(1), k64(0), c(3), c(4), c(2023), c(5), c(6), mw(), b(0), k64(4242), c(7), c(8), c(2022), c(9), c(10),
		mw(), c(1), c(0), k64(5), mw(), b(0), k64(5), c(11), c(12), c(2021), c(13), c(14)),
	L("fs.upload", 15, true, c(3), m32(), mw()),
	L("fs.cd", 15, true, c(4), mw()),
	L("fs.remove", 15, true, c(5), c(0), mw()),
	L("fs.mkdir", 15, true, c(6), mw()),
	L("fs.copy", 15, true, c(7), c(1), mw(), mw()),
	L("fs.move", 15, true, c(8), c(1), mw(), mw()),
	L("fs.pwd", 15, true, c(9), mw()),
	L("fs.cat", 15, true, c(10), mw(), c(1), ms()),
	L("proc_list", 12, true, c(0), mw(), m32(), c(0), m32(), c(1), c(4), mw()),
	L("output", 90, false, ms()),
	L("beacon.output", 94, false, c(0), ms()),
	L("beacon.output_oem", 94, false, c(0x1e), mw()),
	L("beacon.error", 94, false, c(0x0d), ms()),
	L("inject_shellcode", 24, true, c(0)),
	L("proc.modules", 0x1010, true, c(2), m32(), ms(), mptr()),
	L("proc.grep", 0x1010, true, c(3), mw(), m32(), m32(), mw(), c(64)),
	L("proc.create", 0x1010, true, c(4), mw(), m32(), c(1), c(0), c(1)),
	L("proc.memory", 0x1010, true, c(6), c(0), c(0), mptr(), c(4096), c(0x04), c(0x1000), c(0x20000)),
	L("proc.kill", 0x1010, true, c(7), c(1), m32()),
	L("inline.output", 20, false, c(0), ms()),
	L("inline.exception", 20, true, c(1), c(0xC0000005), F{K: "i64", M: true, Show: true}),
	L("inline.symbol", 20, true, c(2), ms()),
	L("inline.ran_ok", 20, true, c(3)),
	L("error.win32", 91, false, c(1), m32()),
	L("assembly.version", 0x2001, false, c(2), mw()),
	L("assembly.entry", 0x2001, false, c(3), m32()),
	L("assembly.finished", 0x2001, true, c(4)),
	L("assembly.versions", 0x2003, true, mw(), mw()),
	L("ppidspoof", 27, true, m32()),
	L("token.steal", 40, true, c(2), mw(), m32(), m32()),
	L("token.list", 40, true, c(3), c(0), m32h(), mw(), m32(), c(1), c(0)),
	L("token.make", 40, true, c(5), mw()),
	L("token.getuid", 40, true, c(6), c(0), mw()),
	L("token.remove", 40, true, c(8), c(1), m32()),
	L("config.alloc", 2500, true, c(101), m32()),
	L("config.spawn64", 2500, true, c(152), mw()),
	L("config.sleep_technique", 2500, true, c(5), m32()),
	L("net.domain", 2100, true, c(1), ms()),
	L("net.logons", 2100, true, c(2), mw(), mw(), mw()),
	L("net.sessions", 2100, true, c(3), mw(), mw(), mw(), m32(), m32()),
	L("net.share", 2100, true, c(6), mw(), mw(), mw(), mw(), c(0)),
	L("pivot.list", 2520, true, c(1), F{K: "i32", M: true, Show: true}, mw()),
	L("transfer.list", 2530, true, c(0)),
	{Name: "socket.rportfwd_add", Cmd: 2540, NoTask: true, Fields: []F{c(0), c(1), m32h(), c(0x0100007f), m32(), c(0x0100007f), m32()}},
}

// Special layouts with side effects, used by C05/C01 (not marker based).
var (
	Exit      = Layout{Name: "exit", Cmd: 92, Final: true, Fields: []F{c(1)}, Effect: "died"}
	KillDate  = Layout{Name: "kill_date", Cmd: 93, Final: true, Effect: "died"}
	ConfigKD  = Layout{Name: "config.killdate", Cmd: 2500, Final: true, Fields: []F{c(154), k64(0x01d9000000000000)}, Effect: "session-update"}
	SleepFix  = Layout{Name: "sleep.fixed", Cmd: 11, Final: true, Fields: []F{c(4242), c(17)}, Effect: "session-update"}
)

// Value is a generated field value.
type Value struct {
	U uint64 `json:"u,omitempty"`
	S string `json:"s,omitempty"`
}

// Instance is a layout with concrete marker values.
type Instance struct {
	Layout string  `json:"layout"`
	Vals   []Value `json:"vals"`
}

func LayoutByName(n string) *Layout {
	for i := range Layouts {
		if Layouts[i].Name == n {
			return &Layouts[i]
		}
	}
	for _, l := range []*Layout{&Exit, &KillDate, &ConfigKD, &SleepFix} {
		if l.Name == n {
			return l
		}
	}
	return nil
}

// TextClass selects the repertoire of marker strings.
type TextClass int

const (
	ASCII TextClass = iota
	BMP
	Astral
)

func markerText(r *rand.Rand, cls TextClass, n int) string {
	tok := fmt.Sprintf("MK%08x", r.Uint32())
	switch cls {
	case BMP:
		tok += "é日ж"
	case Astral:
		tok += "😀𝔘"
	}
	// length residues matter for the parser (trailing bytes after a field)
	pad := "abcdefghijk"
	return tok + pad[:n%4]
}

// Instantiate picks marker values for a layout.
func Instantiate(l *Layout, r *rand.Rand, cls TextClass) Instance {
	in := Instance{Layout: l.Name}
	for _, f := range l.Fields {
		var v Value
		if f.M {
			switch f.K {
			case "i32", "bool":
				// distinctive, below 2^31 (no sign ambiguity in what the console prints)
				v.U = uint64(100000 + r.Intn(0x7ff00000))
			case "i64", "ptr":
				v.U = uint64(0x100000000) + uint64(r.Int63n(0x7fff00000000))
			default:
				v.S = markerText(r, cls, r.Intn(4))
			}
		} else {
			v.U = f.C
			v.S = f.T
		}
		in.Vals = append(in.Vals, v)
	}
	return in
}

// Body encodes the instance the way the Demon's PackageAdd* calls would.
func (in Instance) Body() []byte {
	l := LayoutByName(in.Layout)
	var p demon.Pkg
	for i, f := range l.Fields {
		v := in.Vals[i]
		switch f.K {
		case "i32":
			p.I32(uint32(v.U))
		case "bool":
			p.Bool(v.U != 0)
		case "i64", "ptr":
			p.I64(v.U)
		case "w":
			p.WStr(v.S)
		case "s":
			p.Str(v.S)
		case "bytes":
			p.Bytes([]byte(v.S))
		}
	}
	return p.B
}

// Spans returns the byte offsets [start,end) of every field in Body(), with the position
// of length prefixes, for field-level corruption (C01).
func (in Instance) Spans() (spans [][2]int, prefixes []int) {
	l := LayoutByName(in.Layout)
	off := 0
	for i, f := range l.Fields {
		v := in.Vals[i]
		n := 0
		switch f.K {
		case "i32", "bool":
			n = 4
		case "i64", "ptr":
			n = 8
		case "w":
			prefixes = append(prefixes, off)
			n = 4 + len(demon.UTF16LE(v.S))
		case "s", "bytes":
			prefixes = append(prefixes, off)
			n = 4 + len(v.S)
		}
		spans = append(spans, [2]int{off, off + n})
		off += n
	}
	return
}
