package c20

import (
	"fmt"
	"math/rand"
	"sort"
	"strings"

	hcl "Havoc/pkg/profile/yaotl"
	"Havoc/pkg/profile/yaotl/hclsyntax"
	"Havoc/pkg/profile/yaotl/hclwrite"
	"github.com/zclconf/go-cty/cty"

	"verifh/lib"
)

type travStep struct {
	Name string `json:"name,omitempty"` // root / attribute step
	Key  *jval  `json:"key,omitempty"`  // index step
}

type editOp struct {
	Op     string     `json:"op"`   // set_value set_raw set_trav remove_attr append_block remove_block set_labels
	Path   []int      `json:"path"` // block indices leading from the root body to the target body
	Name   string     `json:"name,omitempty"`
	Value  *jval      `json:"value,omitempty"`
	Raw    string     `json:"raw,omitempty"`
	Trav   []travStep `json:"trav,omitempty"`
	Type   string     `json:"type,omitempty"`
	Labels []string   `json:"labels,omitempty"`
	Index  int        `json:"index,omitempty"`
}

// ---- applying to the model ----

func resolveModel(root *mBody, path []int) (*mBody, *mItem) {
	b := root
	var owner *mItem
	for _, i := range path {
		bl := b.blocks()
		if i < 0 || i >= len(bl) {
			return nil, nil
		}
		owner = bl[i]
		b = owner.body
	}
	return b, owner
}

func travText(steps []travStep) string {
	var sb strings.Builder
	for i, s := range steps {
		switch {
		case i == 0:
			sb.WriteString(s.Name)
		case s.Key != nil && s.Key.T == "num":
			sb.WriteString("[" + s.Key.S + "]")
		case s.Key != nil:
			sb.WriteString(`["` + s.Key.S + `"]`)
		default:
			sb.WriteString("." + s.Name)
		}
	}
	return sb.String()
}

// hasForFirstKey: an object/map in the value whose first key (they are written in sorted
// order) is the bare word "for" - the written text then starts like a for-expression.
func (v jval) hasForFirstKey() bool {
	if len(v.K) > 0 {
		first := v.K[0]
		for _, k := range v.K {
			if k < first {
				first = k
			}
		}
		if first == "for" {
			return true
		}
	}
	for _, e := range v.E {
		if e.hasForFirstKey() {
			return true
		}
	}
	return false
}

func (v jval) hasKey(name string) bool {
	for _, k := range v.K {
		if k == name {
			return true
		}
	}
	for _, e := range v.E {
		if e.hasKey(name) {
			return true
		}
	}
	return false
}

// appendCtx classifies where a new item lands (only used to name the class of a failure).
func appendCtx(root, b *mBody, owner *mItem) string {
	if owner != nil && owner.inline {
		return "@inline-block"
	}
	if owner == nil && root.lastUnterminated != nil && len(b.items) > 0 && b.items[len(b.items)-1] == root.lastUnterminated {
		return "@unterminated-file-end"
	}
	return ""
}

func removedComments(it *mItem) []*mItem {
	var out []*mItem
	for _, c := range allComments(it, nil) {
		out = append(out, &mItem{kind: mComment, text: c, optional: true})
	}
	return out
}

// applyModel performs op on the model. applied=false: the op does not refer to anything
// (stale path/index) and is skipped on both sides. tag names the operation class.
func applyModel(root *mBody, op editOp) (tag string, applied bool) {
	b, owner := resolveModel(root, op.Path)
	if b == nil {
		return "", false
	}
	setAttr := func(kind string, fill func(it *mItem)) string {
		_, it := b.attr(op.Name)
		if it != nil {
			it.exprToks, it.val, it.trav, it.rawVal = "", nil, "", ""
			fill(it)
			return kind + "-existing"
		}
		ctx := appendCtx(root, b, owner)
		it = &mItem{kind: mAttr, name: op.Name, isNew: true}
		fill(it)
		b.items = append(b.items, it)
		return kind + "-new" + ctx
	}
	switch op.Op {
	case "set_value":
		tag = setAttr("set-value", func(it *mItem) { v := *op.Value; it.val = &v })
		if op.Value.hasNonPrintable() {
			tag += "@string-nonprintable"
		}
		if op.Value.hasForFirstKey() {
			tag += "@object-first-key-for"
		}
	case "set_raw":
		toks, ok, _ := lexExpr(op.Raw)
		if !ok {
			return "", false
		}
		tag = setAttr("set-raw", func(it *mItem) { it.exprToks = canonToks(toks); it.rawVal = evalText(op.Raw) })
	case "set_trav":
		tag = setAttr("set-trav", func(it *mItem) { it.trav = travText(op.Trav) })
	case "remove_attr":
		i, it := b.attr(op.Name)
		if it == nil {
			return "remove-attr-absent", true
		}
		repl := removedComments(it)
		b.items = append(b.items[:i:i], append(repl, b.items[i+1:]...)...)
		tag = "remove-attr"
		if it.leadOnOpenLine {
			tag += "@lead-comment-on-open-brace-line"
		}
	case "append_block":
		ctx := appendCtx(root, b, owner)
		b.items = append(b.items, &mItem{kind: mBlock, typ: op.Type, labels: append([]string{}, op.Labels...), body: &mBody{}, isNew: true})
		tag = "append-block" + ctx
	case "remove_block":
		bl := b.blocks()
		if op.Index < 0 || op.Index >= len(bl) {
			return "", false
		}
		for i, it := range b.items {
			if it == bl[op.Index] {
				repl := removedComments(it)
				b.items = append(b.items[:i:i], append(repl, b.items[i+1:]...)...)
				break
			}
		}
		tag = "remove-block"
		if bl[op.Index].leadOnOpenLine {
			tag += "@lead-comment-on-open-brace-line"
		}
	case "set_labels":
		bl := b.blocks()
		if op.Index < 0 || op.Index >= len(bl) {
			return "", false
		}
		bl[op.Index].labels = append([]string{}, op.Labels...)
		bl[op.Index].header = ""
		tag = "set-labels"
	default:
		return "", false
	}
	return tag, true
}

func lexExpr(text string) ([]ltok, bool, string) {
	toks, ok, why := lexAll([]byte(text))
	if !ok {
		return nil, false, why
	}
	if n := len(toks); n > 0 && toks[n-1].typ == hclsyntax.TokenEOF {
		toks = toks[:n-1]
	}
	return toks, true, ""
}

func evalText(text string) string {
	e, diags := hclsyntax.ParseExpression([]byte(text), "raw", hcl.InitialPos)
	if diags.HasErrors() {
		return "unparseable"
	}
	return evalExpr(e)
}

func evalExpr(e hclsyntax.Expression) string {
	var v cty.Value
	var diags hcl.Diagnostics
	if pv, _ := guard(func() { v, diags = e.Value(evalCtx()) }); pv != nil {
		return fmt.Sprintf("panic %v", pv)
	}
	s := v.GoString()
	for _, d := range diags {
		s += " !" + d.Summary
	}
	return s
}

// ---- applying to the real file ----

func resolveReal(f *hclwrite.File, path []int) *hclwrite.Body {
	b := f.Body()
	for _, i := range path {
		bl := b.Blocks()
		if i < 0 || i >= len(bl) {
			return nil
		}
		b = bl[i].Body()
	}
	return b
}

// viewMismatch compares what the write API reports for a body with the model.
func viewMismatch(rb *hclwrite.Body, mb *mBody) string {
	var want, got []string
	for _, it := range mb.items {
		if it.kind == mAttr {
			want = append(want, it.name)
		}
	}
	for name := range rb.Attributes() {
		got = append(got, name)
	}
	sort.Strings(want)
	sort.Strings(got)
	if strings.Join(want, "\x00") != strings.Join(got, "\x00") {
		return fmt.Sprintf("Attributes() = %q, model has %q", got, want)
	}
	for _, n := range want {
		if rb.GetAttribute(n) == nil {
			return fmt.Sprintf("GetAttribute(%q) = nil for a present attribute", n)
		}
	}
	mbl := mb.blocks()
	rbl := rb.Blocks()
	if len(mbl) != len(rbl) {
		return fmt.Sprintf("Blocks() has %d entries, model %d", len(rbl), len(mbl))
	}
	for i := range mbl {
		if rbl[i].Type() != mbl[i].typ {
			return fmt.Sprintf("Blocks()[%d].Type() = %q, model %q", i, rbl[i].Type(), mbl[i].typ)
		}
		gl := rbl[i].Labels()
		ok := len(gl) == len(mbl[i].labels)
		for j := 0; ok && j < len(gl); j++ {
			ok = gl[j] == mbl[i].labels[j]
		}
		if !ok {
			return fmt.Sprintf("Blocks()[%d].Labels() = %q, model %q", i, gl, mbl[i].labels)
		}
	}
	return ""
}

func rawTokens(text string) hclwrite.Tokens {
	toks, _, _ := lexExpr(text)
	var out hclwrite.Tokens
	for _, t := range toks {
		out = append(out, &hclwrite.Token{Type: t.typ, Bytes: append([]byte{}, t.bytes...), SpacesBefore: len(t.gap)})
	}
	return out
}

func realTraversal(steps []travStep) hcl.Traversal {
	var tr hcl.Traversal
	for i, s := range steps {
		switch {
		case i == 0:
			tr = append(tr, hcl.TraverseRoot{Name: s.Name})
		case s.Key != nil:
			tr = append(tr, hcl.TraverseIndex{Key: s.Key.toCty()})
		default:
			tr = append(tr, hcl.TraverseAttr{Name: s.Name})
		}
	}
	return tr
}

func applyReal(f *hclwrite.File, op editOp) {
	b := resolveReal(f, op.Path)
	if b == nil {
		return
	}
	switch op.Op {
	case "set_value":
		b.SetAttributeValue(op.Name, op.Value.toCty())
	case "set_raw":
		b.SetAttributeRaw(op.Name, rawTokens(op.Raw))
	case "set_trav":
		b.SetAttributeTraversal(op.Name, realTraversal(op.Trav))
	case "remove_attr":
		b.RemoveAttribute(op.Name)
	case "append_block":
		b.AppendNewBlock(op.Type, op.Labels)
	case "remove_block":
		bl := b.Blocks()
		if op.Index >= 0 && op.Index < len(bl) {
			b.RemoveBlock(bl[op.Index])
		}
	case "set_labels":
		bl := b.Blocks()
		if op.Index >= 0 && op.Index < len(bl) {
			bl[op.Index].SetLabels(op.Labels)
		}
	}
}

// ---- one edit case ----

type editResult struct {
	invalid  bool // the source is not a valid file: not a case
	symptom  string
	detail   string
	tags     []string
	expected string
	out      []byte
}

// signature names the class of a failed edit case. Situations that are recognised as one
// defect of the tree get one fixed name each (so that one defect has one signature); a
// name is only used when the symptom is one that situation can explain. Everything else
// is named by the minimal operation list and the symptom.
func (r *editResult) signature() string {
	has := func(tag string) bool {
		for _, t := range r.tags {
			if strings.Contains(t, tag) {
				return true
			}
		}
		return false
	}
	unparse := strings.HasPrefix(r.symptom, "unparseable(")
	layout := unparse || r.symptom == "item-missing" || strings.HasPrefix(r.symptom, "comment-") || r.symptom == "line-comment-detached"
	switch {
	case r.symptom == "unparseable(Invalid escape sequence)" && has("@string-nonprintable"):
		return "edit:string-nonprintable-written-as-u-escape"
	case unparse && has("@object-first-key-for") && !has("@inline-block") && !has("@unterminated-file-end") && !has("@lead-comment-on-open-brace-line") && !has("@string-nonprintable"):
		return "edit:object-first-key-for"
	case r.symptom == "unparseable(Invalid 'for' expression)" && has("@object-first-key-for"):
		return "edit:object-first-key-for"
	case unparse && has("@inline-block"):
		return "edit:append-into-inline-block"
	case unparse && has("@lead-comment-on-open-brace-line"):
		return "edit:remove-first-item-with-comment-on-open-brace-line"
	case layout && has("@unterminated-file-end"):
		return "edit:append-after-unterminated-last-line"
	}
	var uniq []string
	seen := map[string]bool{}
	for _, t := range r.tags {
		if !seen[t] {
			seen[t] = true
			uniq = append(uniq, t)
		}
	}
	ops := strings.Join(uniq, "+")
	if ops == "" {
		ops = "none"
	}
	return "edit:" + ops + ":" + r.symptom
}

func runEditCase(src []byte, ops []editOp) *editResult {
	res := &editResult{}
	model, _, _, err := buildModel(src)
	if err != "" {
		res.invalid = true
		return res
	}
	var f *hclwrite.File
	var diags hcl.Diagnostics
	if pv, st := lib.Guard(func() { f, diags = hclwrite.ParseConfig(src, "c20", hcl.InitialPos) }); pv != nil {
		res.symptom = lib.PanicSig(pv, st)
		res.detail = "hclwrite.ParseConfig panicked"
		return res
	}
	if diags.HasErrors() || f == nil {
		res.symptom = "writer-rejects-valid-file"
		res.detail = diags.Error()
		return res
	}
	for i, op := range ops {
		// the API's own view of the target body must agree with the model before the op
		if mb, _ := resolveModel(model, op.Path); mb != nil {
			var mm string
			pv, st := lib.Guard(func() {
				if rb := resolveReal(f, op.Path); rb == nil {
					mm = "path to a nested body cannot be followed through Blocks()"
				} else {
					mm = viewMismatch(rb, mb)
				}
			})
			if pv != nil {
				res.symptom = lib.PanicSig(pv, st)
				res.detail = fmt.Sprintf("reading the API view before op %d panicked", i)
				return res
			}
			if mm != "" {
				res.symptom = "api-view"
				res.detail = fmt.Sprintf("before op %d: %s", i, mm)
				res.expected = model.String()
				return res
			}
		}
		tag, applied := applyModel(model, op)
		if !applied {
			continue
		}
		res.tags = append(res.tags, tag)
		if pv, st := lib.Guard(func() { applyReal(f, op) }); pv != nil {
			res.symptom = lib.PanicSig(pv, st)
			res.detail = fmt.Sprintf("op %d (%s) panicked: %v", i, op.Op, pv)
			return res
		}
	}
	res.expected = model.String()
	if pv, st := lib.Guard(func() { res.out = f.Bytes() }); pv != nil {
		res.symptom = lib.PanicSig(pv, st)
		res.detail = "File.Bytes() panicked after the edits"
		return res
	}
	om, nf, otoks, err := buildModel(res.out)
	if err != "" {
		res.symptom = err
		res.detail = "the output of the edits does not re-parse"
		return res
	}
	cmp := &comparer{nf: nf, toks: otoks}
	cmp.body(model, om, nf.Body.(*hclsyntax.Body), "")
	if cmp.symptom == "" {
		cmp.comments(model, om)
	}
	res.symptom, res.detail = cmp.symptom, cmp.detail
	return res
}

// ---- comparing expected model and re-parsed output ----

type comparer struct {
	nf      *hcl.File
	toks    []ltok
	symptom string
	detail  string
}

func (c *comparer) fail(sym, format string, a ...any) {
	if c.symptom == "" {
		c.symptom = sym
		c.detail = fmt.Sprintf(format, a...)
	}
}

func itemKey(it *mItem) string {
	if it.kind == mAttr {
		return "attr " + it.name
	}
	return "block " + it.typ
}

func realItems(b *mBody) []*mItem {
	var out []*mItem
	for _, it := range b.items {
		if it.kind != mComment {
			out = append(out, it)
		}
	}
	return out
}

func sameComments(exp, obs []string) bool {
	if len(exp) != len(obs) {
		return false
	}
	for i := range exp {
		if trimEOL(exp[i]) != trimEOL(obs[i]) {
			return false
		}
	}
	return true
}

func suffixComments(exp, obs []string) bool {
	if len(obs) < len(exp) {
		return false
	}
	return sameComments(exp, obs[len(obs)-len(exp):])
}

func (c *comparer) body(exp, obs *mBody, nb *hclsyntax.Body, where string) {
	ei, oi := realItems(exp), realItems(obs)
	var ek, ok []string
	for _, it := range ei {
		ek = append(ek, itemKey(it))
	}
	for _, it := range oi {
		ok = append(ok, itemKey(it))
	}
	if strings.Join(ek, "\x00") != strings.Join(ok, "\x00") {
		cnt := map[string]int{}
		for _, k := range ek {
			cnt[k]++
		}
		for _, k := range ok {
			cnt[k]--
		}
		sym := "item-order"
		for _, k := range ek {
			if cnt[k] > 0 {
				sym = "item-missing"
			}
		}
		if sym == "item-order" {
			for _, k := range ok {
				if cnt[k] < 0 {
					sym = "item-extra"
				}
			}
		}
		c.fail(sym, "body %q: expected items %q, re-parsed output has %q", where, ek, ok)
		return
	}
	nat := bodyItems(nb)
	if len(nat) != len(oi) {
		c.fail("model-mismatch", "internal: native items %d, model items %d", len(nat), len(oi))
		return
	}
	for i, e := range ei {
		o := oi[i]
		w := where + "/" + itemKey(e)
		if !e.isNew {
			if !suffixComments(e.lead, o.lead) {
				c.fail("lead-comment-detached", "%s: lead comments %q, output has %q", w, e.lead, o.lead)
			}
			if !sameComments(e.line, o.line) {
				c.fail("line-comment-detached", "%s: line comments %q, output has %q", w, e.line, o.line)
			}
		}
		switch e.kind {
		case mAttr:
			na := nat[i].(*hclsyntax.Attribute)
			switch {
			case e.val != nil:
				var v cty.Value
				var diags hcl.Diagnostics
				if pv, _ := guard(func() { v, diags = na.Expr.Value(evalCtx()) }); pv != nil {
					c.fail("attr-value", "%s: evaluating the written value panicked: %v", w, pv)
				} else if diags.HasErrors() {
					c.fail("attr-value", "%s: set to %s, the written expression does not evaluate: %s", w, e.val, diags.Error())
				} else if !sameValue(*e.val, v) {
					c.fail("attr-value", "%s: set to %s, output evaluates to %s", w, e.val, v.GoString())
				}
			case e.trav != "":
				got := c.exprPlain(na)
				if got != e.trav {
					c.fail("traversal-differs", "%s: set to traversal %s, output has %q", w, e.trav, got)
				}
			default:
				if o.exprToks != e.exprToks {
					sym := "untouched-expr-changed"
					if e.rawVal != "" {
						sym = "raw-tokens-differ"
					}
					c.fail(sym, "%s: expression tokens %q, output has %q", w, strings.ReplaceAll(e.exprToks, "\x00", " "), strings.ReplaceAll(o.exprToks, "\x00", " "))
				} else if e.rawVal != "" {
					if got := evalExpr(na.Expr); got != e.rawVal {
						c.fail("raw-value", "%s: raw expression evaluates to %s, output evaluates to %s", w, e.rawVal, got)
					}
				}
			}
		case mBlock:
			nbk := nat[i].(*hclsyntax.Block)
			if strings.Join(e.labels, "\x00") != strings.Join(o.labels, "\x00") || len(e.labels) != len(o.labels) {
				c.fail("block-labels", "%s: labels %q, output has %q", w, e.labels, o.labels)
			}
			if e.header != "" && e.header != o.header {
				c.fail("untouched-block-header-changed", "%s: header tokens %q, output has %q", w, strings.ReplaceAll(e.header, "\x00", " "), strings.ReplaceAll(o.header, "\x00", " "))
			}
			c.body(e.body, o.body, nbk.Body, w)
		}
		if c.symptom != "" {
			return
		}
	}
}

func (c *comparer) exprPlain(na *hclsyntax.Attribute) string {
	var sb strings.Builder
	r := na.Expr.Range()
	for _, t := range c.toks {
		if t.start >= r.Start.Byte && t.start < r.End.Byte {
			sb.Write(t.bytes)
		}
	}
	return sb.String()
}

func (c *comparer) comments(exp, obs *mBody) {
	fe, fo := flatten(exp, nil), flatten(obs, nil)
	if matchFlat(fe, fo) {
		return
	}
	all := map[string]int{}
	req := map[string]int{}
	for _, f := range fe {
		if !f.item {
			all[trimEOL(f.text)]++
			if !f.optional {
				req[trimEOL(f.text)]++
			}
		}
	}
	got := map[string]int{}
	for _, f := range fo {
		if !f.item {
			got[trimEOL(f.text)]++
		}
	}
	for k, n := range req {
		if got[k] < n {
			c.fail("comment-lost", "comment %q of the original (not attached to anything removed) is missing from the output", k)
			return
		}
	}
	for k, n := range got {
		if n > all[k] {
			c.fail("comment-extra", "comment %q appears %d time(s) in the output, %d in the original", k, n, all[k])
			return
		}
	}
	c.fail("comment-moved", "comments and items are not in the original relative order")
}

// ---- generating edit sequences ----

var newAttrNames = []string{"added", "zz", "new_attr", "n-1", "größe_neu", "port", "Sleep", "k"}
var newBlockTypes = []string{"nb", "extra", "Listener", "блок2", "x-new"}
var newLabels = []string{"l", "web", "my label", "q\"q", "ü", "a.b", "日本", "t\tt", "b\\s", "${x}", ""}

func genRawExpr(r *rand.Rand) string {
	for tries := 0; tries < 20; tries++ {
		g := &gen{r: r, eol: "\n", style: styleCanon, noNL: true}
		if r.Intn(3) == 0 {
			g.style = styleTight
		}
		g.expr(1+r.Intn(2), tAny)
		s := g.source()
		if strings.ContainsAny(s, "\n\r") {
			continue
		}
		if _, d := hclsyntax.ParseExpression([]byte(s), "raw", hcl.InitialPos); d.HasErrors() {
			continue
		}
		return s
	}
	return "1"
}

func genTrav(r *rand.Rand) []travStep {
	roots := []string{"var", "v", "m", "nums", "objs", "x", "größe"}
	steps := []travStep{{Name: roots[r.Intn(len(roots))]}}
	n := r.Intn(4)
	for i := 0; i < n; i++ {
		switch r.Intn(3) {
		case 0:
			steps = append(steps, travStep{Name: []string{"x", "k", "name", "id", "foo-bar", "ü"}[r.Intn(6)]})
		case 1:
			steps = append(steps, travStep{Key: &jval{T: "num", S: fmt.Sprint(r.Intn(3))}})
		case 2:
			steps = append(steps, travStep{Key: &jval{T: "str", S: []string{"k", "key one", "a.b", "ü"}[r.Intn(4)]}})
		}
	}
	return steps
}

// randomPath picks a body of the model: the root or a nested one.
func randomPath(r *rand.Rand, root *mBody, clean bool) []int {
	var path []int
	b := root
	for depth := 0; depth < 3; depth++ {
		bl := b.blocks()
		if len(bl) == 0 || r.Intn(5) < 2 {
			break
		}
		i := r.Intn(len(bl))
		path = append(path, i)
		b = bl[i].body
	}
	return path
}

func attrNames(b *mBody) []string {
	var out []string
	for _, it := range b.items {
		if it.kind == mAttr {
			out = append(out, it.name)
		}
	}
	return out
}

// genOps builds an edit sequence of at most n operations against (a scratch copy of) the
// model. clean=true avoids the situations that only the hostile sub-workload exercises:
// appending behind an unterminated last line or into a one-line/empty block, and strings
// that need \u escapes.
func genOps(r *rand.Rand, src []byte, n int, clean bool) []editOp {
	model, _, _, err := buildModel(src)
	if err != "" {
		return nil
	}
	var ops []editOp
	add := func(op editOp) {
		if op.Path == nil {
			op.Path = []int{}
		}
		ops = append(ops, op)
		applyModel(model, op)
	}
	freshName := func(b *mBody) string {
		for {
			nm := newAttrNames[r.Intn(len(newAttrNames))]
			if r.Intn(2) == 0 {
				nm = fmt.Sprintf("%s%d", nm, r.Intn(50))
			}
			if _, it := b.attr(nm); it == nil {
				return nm
			}
		}
	}
	for tries := 0; len(ops) < n && tries < 60; tries++ {
		path := randomPath(r, model, clean)
		b, owner := resolveModel(model, path)
		canAppend := true
		if clean && appendCtx(model, b, owner) != "" {
			canAppend = false
		}
		existing := attrNames(b)
		pickName := func() (string, bool) {
			if len(existing) > 0 && (r.Intn(2) == 0 || !canAppend) {
				return existing[r.Intn(len(existing))], true
			}
			if !canAppend {
				return "", false
			}
			return freshName(b), true
		}
		switch x := r.Intn(100); {
		case x < 35:
			if nm, ok := pickName(); ok {
				v := genValue(r, 2, !clean)
				if !clean && r.Intn(12) == 0 {
					// hostile: an object whose first key is the word "for"
					v = jval{T: "obj", K: []string{"for", "k"}, E: []jval{genScalar(r, false), genScalar(r, false)}}
				}
				add(editOp{Op: "set_value", Path: path, Name: nm, Value: &v})
			}
		case x < 43:
			if nm, ok := pickName(); ok {
				add(editOp{Op: "set_raw", Path: path, Name: nm, Raw: genRawExpr(r)})
			}
		case x < 51:
			if nm, ok := pickName(); ok {
				add(editOp{Op: "set_trav", Path: path, Name: nm, Trav: genTrav(r)})
			}
		case x < 68:
			if len(existing) > 0 && r.Intn(10) != 0 {
				nm := existing[r.Intn(len(existing))]
				if _, it := b.attr(nm); clean && it.leadOnOpenLine {
					continue
				}
				add(editOp{Op: "remove_attr", Path: path, Name: nm})
			} else {
				add(editOp{Op: "remove_attr", Path: path, Name: "no_such_attr"})
			}
		case x < 82:
			if !canAppend {
				continue
			}
			var labels []string
			for i := r.Intn(3); i > 0; i-- {
				labels = append(labels, newLabels[r.Intn(len(newLabels))])
			}
			if labels == nil {
				labels = []string{}
			}
			add(editOp{Op: "append_block", Path: path, Type: newBlockTypes[r.Intn(len(newBlockTypes))], Labels: labels})
			// usually put something into the new block
			np := append(append([]int{}, path...), len(b.blocks())-1)
			for k := r.Intn(3); k > 0 && len(ops) < n; k-- {
				nb, _ := resolveModel(model, np)
				if nb == nil {
					break
				}
				if r.Intn(4) == 0 {
					add(editOp{Op: "append_block", Path: np, Type: newBlockTypes[r.Intn(len(newBlockTypes))], Labels: []string{}})
				} else {
					v := genValue(r, 1, false)
					add(editOp{Op: "set_value", Path: np, Name: freshName(nb), Value: &v})
				}
			}
		case x < 93:
			if bl := b.blocks(); len(bl) > 0 {
				i := r.Intn(len(bl))
				if clean && bl[i].leadOnOpenLine {
					continue
				}
				add(editOp{Op: "remove_block", Path: path, Index: i})
			}
		default:
			if bl := b.blocks(); len(bl) > 0 {
				var labels []string
				for i := r.Intn(3); i > 0; i-- {
					labels = append(labels, newLabels[r.Intn(len(newLabels))])
				}
				if labels == nil {
					labels = []string{}
				}
				add(editOp{Op: "set_labels", Path: path, Index: r.Intn(len(bl)), Labels: labels})
			}
		}
		if len(ops) == 0 && r.Intn(50) == 0 {
			break
		}
	}
	return ops
}
