package c20

import (
	"bytes"
	"math/rand"
	"testing"
)

// The generator's own idea of which blanks stand between tokens has to agree with the
// native scanner's on every valid text it produces.
func TestGeneratorAgreesWithScanner(t *testing.T) {
	r := rand.New(rand.NewSource(7))
	nValid, bad := 0, 0
	for i := 0; i < 30000; i++ {
		g, src := genSource(r, i%4 == 0, i%8 == 0)
		if _, ok := valid(src); !ok {
			continue
		}
		nValid++
		toks, ok, why := lexAll(src)
		if !ok {
			t.Fatalf("scanner does not tile %q: %s", src, why)
		}
		lx, ok := expectedRoundTripLex(toks)
		exp := []byte(g.expectedTokenRoundTrip())
		if !ok || !bytes.Equal(lx, exp) {
			bad++
			if bad <= 5 {
				k := 0
				for k < len(lx) && k < len(exp) && lx[k] == exp[k] {
					k++
				}
				lo := k - 40
				if lo < 0 {
					lo = 0
				}
				t.Errorf("disagree at %d: ...%q", k, src[lo:min(len(src), k+20)])
			}
		}
	}
	t.Logf("valid %d of 30000, disagreements %d", nValid, bad)
}
