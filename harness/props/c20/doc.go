// Package c20 holds the workload and monitor for property C20 (see /verif/DESIGN.md §3).
package c20
