// Package c20 holds the workload and monitor for property C20 (see /verif/DESIGN.md §3).
//
// Files:
//
//	c20.go     worker entry, monitors 1 (token round trip) and 2 (Format / File.Bytes),
//	           minimisation, replay, seeds from the tree
//	gen.go     source generator (piece list: token text vs. blanks between tokens)
//	lexutil.go native-scanner helpers: tiling check, gap normalisation, token diffs
//	tree.go    structural dump of the native tree, evaluation scope, hcldec spec derived
//	           from the shape of the source
//	model.go   ordered-structure model (items, attached/standalone comments) built from the
//	           native parser, and the comment/order matcher
//	value.go   literal values handed to SetAttributeValue and their comparison
//	edits.go   edit operations: applied to the model and to hclwrite, comparison, signatures,
//	           edit-sequence generator
//
// Signatures:
//
//	tokens-roundtrip:lost|extra|bytes|changed:<Token>:<place>:after-<Token>   monitor 1
//	tokens-roundtrip:gap-before-<Token>[(tab)]                                 monitor 1
//	format-* / filebytes-*  (changes-token, not-idempotent, output-unparseable,
//	                         tree-differs, decode-differs, verbatim-lost, ...)  monitor 2
//	edit:<minimal op classes joined by +>:<symptom>                            monitor 3
//	edit:<fixed name>   for the recognised defects of the unchanged tree (edits.go,
//	                    (*editResult).signature), bom:treated-as-blanks
package c20
