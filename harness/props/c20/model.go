package c20

import (
	"fmt"
	"strings"

	hcl "Havoc/pkg/profile/yaotl"
	"Havoc/pkg/profile/yaotl/hclsyntax"
)

// The ordered-structure model of a configuration file. It is built from the native
// parser's tree and token stream only (never from hclwrite), both for the original source
// and for the text hclwrite produces after the edits.

const (
	mAttr = iota
	mBlock
	mComment
)

type mItem struct {
	kind int

	// comment items (standalone comments of a body)
	text     string
	optional bool // belonged to something that was removed/replaced: may be gone or stay

	// attributes
	name     string
	exprToks string // canonical non-blank token text of the expression (untouched / raw)
	val      *jval  // set through SetAttributeValue
	trav     string // canonical text set through SetAttributeTraversal
	rawVal   string // rendered value of the raw expression in evalCtx

	// blocks
	typ    string
	labels []string
	header string // canonical token text from the type name up to "{", "" once relabelled
	body   *mBody
	inline bool // "{" is not followed by a line end: one-line or empty {} block

	lead, line []string // attached comments
	isNew      bool
	// leadOnOpenLine: the first lead comment stands on the line of the enclosing block's
	// "{" (blk { # comment), i.e. it also carries that line's end
	leadOnOpenLine bool
}

type mBody struct {
	items []*mItem
	// lastUnterminated is the last element of the root body when the file does not end
	// with a line end (nil otherwise).
	lastUnterminated *mItem
}

func (b *mBody) attr(name string) (int, *mItem) {
	for i, it := range b.items {
		if it.kind == mAttr && it.name == name {
			return i, it
		}
	}
	return -1, nil
}

func (b *mBody) blocks() []*mItem {
	var out []*mItem
	for _, it := range b.items {
		if it.kind == mBlock {
			out = append(out, it)
		}
	}
	return out
}

func canonToks(toks []ltok) string {
	var sb strings.Builder
	for _, t := range toks {
		sb.WriteString(t.name())
		sb.WriteByte(':')
		sb.Write(t.bytes)
		sb.WriteByte(0)
	}
	return sb.String()
}

func plainToks(toks []ltok) string {
	var sb strings.Builder
	for _, t := range toks {
		sb.Write(t.bytes)
	}
	return sb.String()
}

type modelBuilder struct {
	toks []ltok
	src  []byte
	err  string
}

// idxAt returns the index of the first token starting at or after byte position pos.
func (mb *modelBuilder) idxAt(pos int, from int) int {
	for i := from; i < len(mb.toks); i++ {
		if mb.toks[i].start >= pos {
			return i
		}
	}
	return len(mb.toks)
}

// buildModel parses text with the native parser and returns its model; ok=false with the
// diagnostics text when it does not parse.
func buildModel(src []byte) (*mBody, *hcl.File, []ltok, string) {
	nf, diags := hclsyntax.ParseConfig(src, "c20", hcl.InitialPos)
	if diags.HasErrors() {
		sum := "?"
		for _, d := range diags {
			if d.Severity == hcl.DiagError {
				sum = d.Summary
				break
			}
		}
		return nil, nil, nil, "unparseable(" + sum + ")"
	}
	toks, ok, why := lexAll(src)
	if !ok {
		return nil, nil, nil, "unlexable(" + why + ")"
	}
	mb := &modelBuilder{toks: toks, src: src}
	hi := len(toks)
	if hi > 0 && toks[hi-1].typ == hclsyntax.TokenEOF {
		hi--
	}
	root := mb.body(nf.Body.(*hclsyntax.Body), 0, hi)
	if mb.err != "" {
		return nil, nil, nil, "model(" + mb.err + ")"
	}
	if hi > 0 && !endsLine(toks[hi-1]) && len(root.items) > 0 {
		root.lastUnterminated = root.items[len(root.items)-1]
	}
	return root, nf, toks, ""
}

func (mb *modelBuilder) standalone(b *mBody, lo, hi int) {
	for i := lo; i < hi; i++ {
		if mb.toks[i].typ == hclsyntax.TokenComment {
			b.items = append(b.items, &mItem{kind: mComment, text: string(mb.toks[i].bytes)})
		}
	}
}

// trailing collects the comments that follow an item on its line, starting at token i;
// it returns them and the index after the item's line end.
func (mb *modelBuilder) trailing(i, hi int) ([]string, int) {
	var out []string
	for i < hi {
		t := mb.toks[i]
		if t.typ == hclsyntax.TokenComment {
			out = append(out, string(t.bytes))
			i++
			if endsLine(t) {
				return out, i
			}
			continue
		}
		if t.typ == hclsyntax.TokenNewline {
			return out, i + 1
		}
		// anything else on the same line (only "}" of a one-line block is legal)
		if t.typ != hclsyntax.TokenCBrace {
			mb.err = "unexpected " + t.name() + " after an item"
		}
		return out, i
	}
	return out, i
}

func (mb *modelBuilder) body(nb *hclsyntax.Body, lo, hi int) *mBody {
	b := &mBody{}
	p := lo
	for _, n := range bodyItems(nb) {
		fi := mb.idxAt(n.Range().Start.Byte, p)
		if fi >= hi {
			mb.err = "item outside its body"
			return b
		}
		ls := fi
		for ls > p && mb.toks[ls-1].typ == hclsyntax.TokenComment {
			ls--
		}
		mb.standalone(b, p, ls)
		it := &mItem{}
		if ls < fi && ls == lo && lo > 0 && mb.toks[lo-1].typ == hclsyntax.TokenOBrace {
			it.leadOnOpenLine = true
		}
		for j := ls; j < fi; j++ {
			it.lead = append(it.lead, string(mb.toks[j].bytes))
		}
		switch x := n.(type) {
		case *hclsyntax.Attribute:
			it.kind = mAttr
			it.name = x.Name
			es := mb.idxAt(x.Expr.Range().Start.Byte, fi)
			ee := mb.idxAt(x.Expr.Range().End.Byte, es)
			if ee > hi {
				ee = hi
			}
			it.exprToks = canonToks(mb.toks[es:ee])
			it.line, p = mb.trailing(ee, hi)
		case *hclsyntax.Block:
			it.kind = mBlock
			it.typ = x.Type
			it.labels = append([]string{}, x.Labels...)
			ob := mb.idxAt(x.OpenBraceRange.Start.Byte, fi)
			cb := mb.idxAt(x.CloseBraceRange.Start.Byte, ob)
			if ob >= hi || cb >= hi || mb.toks[ob].typ != hclsyntax.TokenOBrace || mb.toks[cb].typ != hclsyntax.TokenCBrace {
				mb.err = "block braces not found"
				return b
			}
			it.header = canonToks(mb.toks[fi : ob+1])
			k := ob + 1
			for k < cb && mb.toks[k].typ == hclsyntax.TokenComment && !endsLine(mb.toks[k]) {
				k++
			}
			it.inline = !(k < cb && endsLine(mb.toks[k]))
			it.body = mb.body(x.Body, ob+1, cb)
			it.line, p = mb.trailing(cb+1, hi)
		}
		b.items = append(b.items, it)
		if mb.err != "" {
			return b
		}
	}
	mb.standalone(b, p, hi)
	return b
}

// ---- flattening for the comment/order comparison ----

type flat struct {
	item     bool
	text     string
	optional bool
}

func flatten(b *mBody, out []flat) []flat {
	for _, it := range b.items {
		switch it.kind {
		case mComment:
			out = append(out, flat{text: it.text, optional: it.optional})
		case mAttr:
			for _, c := range it.lead {
				out = append(out, flat{text: c})
			}
			out = append(out, flat{item: true, text: "attr " + it.name})
			for _, c := range it.line {
				out = append(out, flat{text: c})
			}
		case mBlock:
			for _, c := range it.lead {
				out = append(out, flat{text: c})
			}
			out = append(out, flat{item: true, text: "block " + it.typ + " {"})
			out = flatten(it.body, out)
			out = append(out, flat{item: true, text: "}"})
			for _, c := range it.line {
				out = append(out, flat{text: c})
			}
		}
	}
	return out
}

// allComments lists every attached and standalone comment below an item.
func allComments(it *mItem, out []string) []string {
	out = append(out, it.lead...)
	if it.kind == mComment {
		out = append(out, it.text)
	}
	if it.body != nil {
		for _, c := range it.body.items {
			out = allComments(c, out)
		}
	}
	out = append(out, it.line...)
	return out
}

func trimEOL(s string) string { return strings.TrimRight(s, "\r\n") }

// matchFlat decides whether the observed sequence equals the expected one with some of
// the optional entries left out. Comments are compared without their line end (a comment
// that ended the file without a line end may legitimately gain one).
func matchFlat(exp, obs []flat) bool {
	n, m := len(exp), len(obs)
	// dp[j] for prefix i of exp: obs[:j] can be matched
	prev := make([]bool, m+1)
	prev[0] = true
	for i := 1; i <= n; i++ {
		cur := make([]bool, m+1)
		e := exp[i-1]
		for j := 0; j <= m; j++ {
			if e.optional && prev[j] {
				cur[j] = true
				continue
			}
			if j > 0 && prev[j-1] {
				o := obs[j-1]
				if o.item == e.item && ((o.item && o.text == e.text) || (!o.item && trimEOL(o.text) == trimEOL(e.text))) {
					cur[j] = true
				}
			}
		}
		prev = cur
	}
	return prev[m]
}

// render gives a readable form of a model for witnesses.
func (b *mBody) render(sb *strings.Builder, depth int) {
	ind := strings.Repeat("  ", depth)
	for _, it := range b.items {
		switch it.kind {
		case mComment:
			opt := ""
			if it.optional {
				opt = " (may be gone)"
			}
			fmt.Fprintf(sb, "%scomment %q%s\n", ind, it.text, opt)
		case mAttr:
			fmt.Fprintf(sb, "%sattr %s", ind, it.name)
			switch {
			case it.val != nil:
				fmt.Fprintf(sb, " := value %s", it.val.String())
			case it.trav != "":
				fmt.Fprintf(sb, " := traversal %s", it.trav)
			default:
				fmt.Fprintf(sb, " = tokens %q", strings.ReplaceAll(it.exprToks, "\x00", " "))
			}
			if len(it.lead) > 0 {
				fmt.Fprintf(sb, " lead=%q", it.lead)
			}
			if len(it.line) > 0 {
				fmt.Fprintf(sb, " line=%q", it.line)
			}
			sb.WriteString("\n")
		case mBlock:
			fmt.Fprintf(sb, "%sblock %s %q", ind, it.typ, it.labels)
			if len(it.lead) > 0 {
				fmt.Fprintf(sb, " lead=%q", it.lead)
			}
			if len(it.line) > 0 {
				fmt.Fprintf(sb, " line=%q", it.line)
			}
			sb.WriteString(" {\n")
			it.body.render(sb, depth+1)
			fmt.Fprintf(sb, "%s}\n", ind)
		}
	}
}

func (b *mBody) String() string {
	var sb strings.Builder
	b.render(&sb, 0)
	return sb.String()
}
