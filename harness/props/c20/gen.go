package c20

import (
	"fmt"
	"math/rand"
	"strings"
)

// The source generator writes a configuration file as a list of pieces. A piece is either
// a token text (anything the language treats as content: identifiers, punctuation,
// newlines, whole comments, whole string/heredoc literal chunks) or a gap (blank space
// standing between two tokens: only ' ' and '\t'). Because the generator itself knows
// which blanks are gaps, the expected result of the token round trip (gap tabs -> spaces,
// everything else untouched) is computed without asking any lexer.

type piece struct {
	s   string
	gap bool
}

type typ int

const (
	tAny typ = iota
	tNum
	tStr
	tBool
	tList
	tObj
)

const (
	styleCanon = iota
	styleTight
	styleWild
)

type gen struct {
	r     *rand.Rand
	out   []piece
	style int
	eol   string
	mixed bool // mixed line endings
	nname int
	ncmt  int
	nverb int
	br    int // bracket depth: > 0 means newlines are not significant
	noNL  bool
	// verbatim: literal text that must survive formatting byte for byte
	verb []string
	// hostile switches
	allowInlineCmt bool
	// noHeaderTrivia: no comment between a block's type name and its labels
	noHeaderTrivia bool
}

func newGen(r *rand.Rand) *gen {
	g := &gen{r: r, eol: "\n"}
	switch x := r.Intn(10); {
	case x < 3:
		g.style = styleCanon
	case x < 5:
		g.style = styleTight
	default:
		g.style = styleWild
	}
	if r.Intn(7) == 0 {
		g.eol = "\r\n"
	}
	if r.Intn(40) == 0 {
		g.mixed = true
	}
	g.allowInlineCmt = r.Intn(3) == 0
	return g
}

func (g *gen) tok(s string) { g.out = append(g.out, piece{s: s}) }
func (g *gen) gap(s string) {
	if s != "" {
		g.out = append(g.out, piece{s: s, gap: true})
	}
}

func (g *gen) pick(ss ...string) string { return ss[g.r.Intn(len(ss))] }
func (g *gen) p(n int) bool             { return g.r.Intn(n) == 0 }

func (g *gen) newline() string {
	if g.mixed {
		return g.pick("\n", "\r\n")
	}
	return g.eol
}

var wildGaps = []string{"", " ", " ", "  ", "\t", "\t\t", " \t", "\t ", "    ", "          "}
var wildGaps1 = []string{" ", " ", "  ", "\t", "\t\t", " \t", "\t ", "    "}

// sp: optional blank between two tokens that do not need one.
func (g *gen) sp() {
	switch g.style {
	case styleCanon:
		g.gap(" ")
	case styleTight:
	default:
		if g.p(60) {
			// a blank run longer than the writer's 40-byte space buffer
			g.gap(strings.Repeat(" ", 41+g.r.Intn(50)))
		} else {
			g.gap(g.pick(wildGaps...))
		}
		g.maybeTrivia()
	}
}

// sp0: like sp but the canonical style has nothing here (after '(' , before ',' ...).
func (g *gen) sp0() {
	if g.style == styleWild {
		g.gap(g.pick(wildGaps...))
		g.maybeTrivia()
	}
}

// sp1: a blank that is required for the text to lex as intended.
func (g *gen) sp1() {
	switch g.style {
	case styleWild:
		g.gap(g.pick(wildGaps1...))
		g.maybeTrivia()
		// the trivia may have ended with a comment: still separated
	default:
		g.gap(" ")
	}
}

// maybeTrivia occasionally puts a comment (and, inside brackets, a line break) at a gap.
func (g *gen) maybeTrivia() {
	if !g.allowInlineCmt {
		return
	}
	if g.p(25) {
		g.inlineComment()
		g.gap(g.pick(wildGaps1...))
	}
	if g.br > 0 && !g.noNL && g.p(12) {
		switch g.r.Intn(3) {
		case 0:
			g.tok(g.newline())
		case 1:
			g.lineComment()
		case 2:
			g.tok(g.newline())
			g.gap(g.indentText())
			g.lineComment()
		}
		g.gap(g.indentText())
	}
}

func (g *gen) commentBody() string {
	g.ncmt++
	words := []string{"note", "TODO:", "x = 1", "\"quoted\"", "${not}", "tab\there", "two  spaces", "ünï", "日本", "#hash", "//slash", "{", "}", "<<EOT", "a\\b", "%{if}"}
	n := g.r.Intn(3)
	s := fmt.Sprintf("c%d", g.ncmt)
	for i := 0; i < n; i++ {
		s += " " + words[g.r.Intn(len(words))]
	}
	return s
}

// inlineComment emits /* ... */ without a line break inside.
func (g *gen) inlineComment() {
	c := "/*" + g.pick("", " ") + g.commentBody() + g.pick("", " ") + "*/"
	g.verb = append(g.verb, c)
	g.tok(c)
}

// blockComment may span lines.
func (g *gen) blockComment() {
	c := "/*" + g.pick("", " ", "*") + g.commentBody()
	if g.p(3) {
		c += g.newline() + g.pick("", " * ", "\t") + g.commentBody()
		if g.p(3) {
			c += g.newline()
		}
	}
	c += g.pick("", " ") + "*/"
	g.verb = append(g.verb, c)
	g.tok(c)
}

// lineComment emits # or // comment including its line ending (which is part of the token).
func (g *gen) lineComment() {
	c := g.pick("#", "//", "# ", "// ", "##", "#\t") + g.commentBody() + g.pick("", "", " ", "\t")
	g.verb = append(g.verb, c)
	g.tok(c + g.newline())
}

func (g *gen) indentText() string {
	switch g.style {
	case styleWild:
		return g.pick("", " ", "  ", "    ", "\t", "\t\t", "  \t", "   ")
	case styleTight:
		return ""
	}
	return "  "
}

var identPool = []string{"a", "b", "foo", "bar", "baz", "name", "foo_bar", "foo-bar", "_x", "a1", "port", "host", "größe", "имя", "名前", "café", "Sleep", "Jitter", "x-y-z", "in", "for", "if", "type", "null_", "true_"}

func (g *gen) freshName() string {
	g.nname++
	base := identPool[g.r.Intn(len(identPool))]
	if g.nname <= 2 && g.p(2) {
		return base
	}
	return fmt.Sprintf("%s%d", base, g.nname)
}

// ---- file level ----

type genOpts struct {
	bom        bool
	noFinalNL  bool
	maxDepth   int
	topItems   int
	cleanEdits bool // avoid situations only relevant to round trip
}

func (g *gen) file(o genOpts) {
	if o.bom {
		g.tok("\xef\xbb\xbf")
	}
	names := map[string]bool{}
	n := 1 + g.r.Intn(o.topItems)
	for i := 0; i < n; i++ {
		g.bodyItem(0, o.maxDepth, names)
	}
	if g.p(4) {
		// something after the last item
		switch g.r.Intn(4) {
		case 0:
			g.gap(g.indentText())
			g.lineComment()
		case 1:
			g.tok(g.newline())
			g.tok(g.newline())
		case 2:
			g.gap(g.indentText())
			g.blockComment()
			g.tok(g.newline())
		case 3:
			g.gap(g.pick(" ", "\t", "   "))
			g.tok(g.newline())
		}
	}
	if o.noFinalNL {
		g.stripFinalNewline()
		if n := len(g.out); g.p(3) && n > 0 && !strings.HasPrefix(g.out[n-1].s, "#") && !strings.HasPrefix(g.out[n-1].s, "//") {
			// (after an unterminated # or // comment a blank would belong to the comment)
			g.gap(g.pick(" ", "\t", "  "))
		}
	}
}

func (g *gen) stripFinalNewline() {
	for len(g.out) > 0 {
		last := &g.out[len(g.out)-1]
		if last.gap {
			g.out = g.out[:len(g.out)-1]
			continue
		}
		if last.s == "\n" || last.s == "\r\n" {
			g.out = g.out[:len(g.out)-1]
			return
		}
		if strings.HasSuffix(last.s, "\r\n") {
			last.s = last.s[:len(last.s)-2]
			return
		}
		if strings.HasSuffix(last.s, "\n") {
			last.s = last.s[:len(last.s)-1]
			return
		}
		return
	}
}

func (g *gen) lineStart(depth int) {
	switch g.style {
	case styleCanon:
		g.gap(strings.Repeat("  ", depth))
	case styleTight:
	default:
		g.gap(g.indentText())
	}
}

// eolTrail: optional blanks before the end of line.
func (g *gen) eolTrail() {
	if g.style == styleWild && g.p(5) {
		g.gap(g.pick(" ", "  ", "\t", " \t"))
	}
}

func (g *gen) bodyItem(depth, maxDepth int, names map[string]bool) {
	x := g.r.Intn(100)
	switch {
	case x < 52:
		g.attribute(depth, names)
	case x < 72:
		if depth < maxDepth {
			g.block(depth, maxDepth)
		} else {
			g.attribute(depth, names)
		}
	case x < 84:
		// blank line
		g.eolTrail()
		g.tok(g.newline())
	default:
		// standalone comment line(s)
		g.lineStart(depth)
		switch g.r.Intn(4) {
		case 0:
			g.blockComment()
			g.eolTrail()
			g.tok(g.newline())
		default:
			g.lineComment()
		}
		if g.p(3) {
			// separate from the next item so that it is not a lead comment
			g.tok(g.newline())
		}
	}
}

func (g *gen) leadComments(depth int) {
	if !g.p(4) {
		return
	}
	n := 1 + g.r.Intn(2)
	for i := 0; i < n; i++ {
		g.lineStart(depth)
		g.lineComment()
	}
}

func (g *gen) attribute(depth int, names map[string]bool) {
	name := g.freshName()
	for names[name] {
		name = g.freshName()
	}
	names[name] = true
	g.leadComments(depth)
	g.lineStart(depth)
	if g.p(20) {
		g.inlineComment()
		g.gap(" ")
	}
	g.tok(name)
	g.sp()
	g.tok("=")
	g.sp()
	hd := g.exprTop(2 + g.r.Intn(2))
	if hd {
		// a heredoc ended the expression: its closing marker must be followed by the
		// line end directly
		g.tok(g.newline())
		return
	}
	g.endOfItemLine()
}

// endOfItemLine: optional line comment, then the line end.
func (g *gen) endOfItemLine() {
	switch g.r.Intn(8) {
	case 0:
		g.gap(g.pick(" ", "  ", "\t", ""))
		g.lineComment()
		return
	case 1:
		g.gap(g.pick(" ", "  ", "\t"))
		g.inlineComment()
		if g.p(3) {
			g.gap(" ")
			g.inlineComment()
		}
	}
	g.eolTrail()
	g.tok(g.newline())
}

func (g *gen) label() {
	if g.p(3) {
		g.tok(g.pick("lbl", "web", "http-1", "x_y", "größe", "名"))
		return
	}
	g.tok(`"` + g.pick("a", "web", "my label", "http/1.1", "ü", "日本語", `q\"q`, `b\\s`, "", "a.b", "#x", "t\\tt") + `"`)
}

func (g *gen) block(depth, maxDepth int) {
	g.leadComments(depth)
	g.lineStart(depth)
	g.tok(g.pick("blk", "service", "Listener", "resource", "Demon", "http", "x-blk", "блок"))
	nl := g.r.Intn(3)
	for i := 0; i < nl; i++ {
		if g.noHeaderTrivia {
			if g.style == styleWild {
				g.gap(g.pick(wildGaps1...))
			} else {
				g.gap(" ")
			}
		} else {
			g.sp1()
		}
		g.label()
	}
	g.sp()
	g.tok("{")
	names := map[string]bool{}
	switch x := g.r.Intn(10); {
	case x < 2:
		// empty on one line
		if g.style == styleWild {
			g.gap(g.pick("", " ", "\t"))
		}
		g.tok("}")
	case x < 4:
		// one-line block with a single attribute
		g.sp()
		name := g.freshName()
		g.tok(name)
		g.sp()
		g.tok("=")
		g.sp()
		save := g.noNL
		g.noNL = true
		g.expr(1, tAny)
		g.noNL = save
		g.sp()
		g.tok("}")
	default:
		if g.p(8) {
			g.gap(g.pick(" ", "\t", ""))
			g.lineComment()
		} else {
			g.eolTrail()
			g.tok(g.newline())
		}
		n := g.r.Intn(5)
		for i := 0; i < n; i++ {
			g.bodyItem(depth+1, maxDepth, names)
		}
		g.lineStart(depth)
		g.tok("}")
	}
	g.endOfItemLine()
}

// ---- expressions ----

// exprTop generates an attribute value. It reports whether the expression ended with a
// heredoc (whose closing marker has to be followed directly by the line end).
func (g *gen) exprTop(d int) bool {
	if g.p(9) {
		g.heredoc()
		return true
	}
	g.expr(d, tAny)
	return false
}

func (g *gen) expr(d int, t typ) {
	if t == tAny {
		t = typ(1 + g.r.Intn(5))
		if g.p(15) {
			g.tok("null")
			return
		}
	}
	if d > 0 {
		switch g.r.Intn(9) {
		case 0:
			// conditional
			g.expr(d-1, tBool)
			g.sp()
			g.tok("?")
			g.sp()
			g.expr(d-1, t)
			g.sp()
			g.tok(":")
			g.sp()
			g.expr(d-1, t)
			return
		case 1:
			// parentheses
			g.tok("(")
			g.br++
			g.sp0()
			g.expr(d-1, t)
			g.sp0()
			g.br--
			g.tok(")")
			return
		}
	}
	switch t {
	case tNum:
		g.exprNum(d)
	case tStr:
		g.exprStr(d)
	case tBool:
		g.exprBool(d)
	case tList:
		g.exprList(d)
	case tObj:
		g.exprObj(d)
	}
}

var numLits = []string{"0", "1", "2", "7", "42", "100", "65535", "3.14", "0.5", "1e3", "1E+3", "2.5e-2", "10.25", "007", "1234567890123456789012", "0.000001"}

func (g *gen) exprNum(d int) {
	if d <= 0 {
		switch g.r.Intn(4) {
		case 0:
			g.traversal(tNum)
		default:
			g.tok(g.pick(numLits...))
		}
		return
	}
	switch g.r.Intn(8) {
	case 0, 1:
		g.tok(g.pick(numLits...))
	case 2:
		g.traversal(tNum)
	case 3, 4:
		g.exprNum(d - 1)
		g.sp1()
		g.tok(g.pick("+", "-", "*", "/", "%"))
		g.sp1()
		g.exprNum(d - 1)
	case 5:
		g.tok("-")
		g.sp0()
		g.exprNum(d - 1)
	case 6:
		g.call(g.pick("max", "min"), d, tNum, 1+g.r.Intn(3))
	case 7:
		g.call("length", d, tList, 1)
	}
}

func (g *gen) exprBool(d int) {
	if d <= 0 {
		g.tok(g.pick("true", "false", "flag"))
		return
	}
	switch g.r.Intn(7) {
	case 0:
		g.tok(g.pick("true", "false"))
	case 1:
		g.traversal(tBool)
	case 2, 3:
		g.exprNum(d - 1)
		g.sp()
		g.tok(g.pick("==", "!=", "<", ">", "<=", ">="))
		g.sp()
		g.exprNum(d - 1)
	case 4:
		g.tok("!")
		g.sp0()
		g.exprBool(d - 1)
	case 5:
		g.exprBool(d - 1)
		g.sp()
		g.tok(g.pick("&&", "||"))
		g.sp()
		g.exprBool(d - 1)
	case 6:
		g.exprStr(0)
		g.sp()
		g.tok(g.pick("==", "!="))
		g.sp()
		g.exprStr(0)
	}
}

func (g *gen) traversal(t typ) {
	switch t {
	case tNum:
		switch g.r.Intn(7) {
		case 0:
			g.tok("x")
		case 1:
			g.tok("var")
			g.tok(".")
			g.tok("n")
		case 2:
			g.tok("nums")
			g.tok("[")
			g.sp0()
			g.tok(g.pick("0", "1", "2"))
			g.sp0()
			g.tok("]")
		case 3:
			g.tok("nums")
			g.tok(".")
			g.tok(g.pick("0", "1"))
		case 4:
			g.tok("objs")
			g.tok("[")
			g.tok("0")
			g.tok("]")
			g.tok(".")
			g.tok("id")
		case 5:
			g.tok("größe")
		case 6:
			g.tok("nums")
			g.tok("[")
			g.br++
			g.sp0()
			g.tok("x")
			g.sp1()
			g.tok("-")
			g.sp1()
			g.tok("4")
			g.sp0()
			g.br--
			g.tok("]")
		}
	case tStr:
		switch g.r.Intn(5) {
		case 0:
			g.tok("s")
		case 1:
			g.tok("var")
			g.sp0()
			g.tok(".")
			g.sp0()
			g.tok("name")
		case 2:
			g.tok("m")
			g.tok("[")
			g.sp0()
			g.tok(`"k"`)
			g.sp0()
			g.tok("]")
		case 3:
			g.tok("m")
			g.tok(".")
			g.tok("k2")
		case 4:
			g.tok("strs")
			g.tok("[")
			g.tok("1")
			g.tok("]")
		}
	case tBool:
		g.tok(g.pick("flag", "var.on"))
	case tList:
		switch g.r.Intn(5) {
		case 0:
			g.tok("nums")
		case 1:
			g.tok("strs")
		case 2:
			g.tok("objs")
			g.tok("[")
			g.tok("*")
			g.tok("]")
			g.tok(".")
			g.tok("id")
		case 3:
			g.tok("objs")
			g.tok(".")
			g.tok("*")
			g.tok(".")
			g.tok("name")
		case 4:
			g.tok("var")
			g.tok(".")
			g.tok("list")
		}
	case tObj:
		g.tok(g.pick("m", "var", "objs[0]"))
	}
}

func (g *gen) call(name string, d int, argT typ, n int) {
	g.tok(name)
	g.tok("(")
	g.br++
	for i := 0; i < n; i++ {
		if i > 0 {
			g.sp0()
			g.tok(",")
			g.sp()
		} else {
			g.sp0()
		}
		g.expr(d-1, argT)
	}
	if n > 0 && g.p(8) {
		g.sp0()
		g.tok(",")
	}
	g.sp0()
	g.br--
	g.tok(")")
}

func (g *gen) exprList(d int) {
	if d <= 0 {
		if g.p(2) {
			g.traversal(tList)
		} else {
			g.tok("[")
			g.sp0()
			g.tok("]")
		}
		return
	}
	switch g.r.Intn(8) {
	case 0:
		g.traversal(tList)
	case 1, 2, 3:
		g.tuple(d)
	case 4:
		// for expression
		g.tok("[")
		g.br++
		g.sp0()
		g.tok("for")
		g.sp1()
		v := g.pick("v", "item", "e")
		if g.p(3) {
			g.tok("i")
			g.sp0()
			g.tok(",")
			g.sp()
		}
		g.tok(v)
		g.sp1()
		g.tok("in")
		g.sp1()
		g.exprList(d - 1)
		g.sp()
		g.tok(":")
		g.sp()
		if g.p(2) {
			g.tok(v)
		} else {
			g.tok(v)
			g.sp1()
			g.tok(g.pick("+", "*"))
			g.sp1()
			g.exprNum(0)
		}
		if g.p(3) {
			g.sp1()
			g.tok("if")
			g.sp1()
			g.tok(v)
			g.sp()
			g.tok("!=")
			g.sp()
			g.tok("null")
		}
		g.sp0()
		g.br--
		g.tok("]")
	case 5:
		// call with expansion
		g.tok("concat")
		g.tok("(")
		g.br++
		g.sp0()
		g.exprList(d - 1)
		g.sp0()
		g.tok(",")
		g.sp()
		g.exprList(d - 1)
		g.sp0()
		g.br--
		g.tok(")")
	case 6:
		g.tok("concat")
		g.tok("(")
		g.br++
		g.sp0()
		g.tok("[")
		g.exprList(0)
		g.tok(",")
		g.sp()
		g.exprList(0)
		g.tok("]")
		g.sp0()
		g.tok("...")
		g.sp0()
		g.br--
		g.tok(")")
	case 7:
		g.tok("keys")
		g.tok("(")
		g.br++
		g.sp0()
		g.exprObj(d - 1)
		g.sp0()
		g.br--
		g.tok(")")
	}
}

// brBreak: inside a bracketed construct, a line break with indentation.
func (g *gen) brBreak() {
	g.eolTrail()
	if g.p(10) {
		g.gap(" ")
		g.lineComment()
	} else {
		g.tok(g.newline())
	}
	g.gap(g.indentText())
}

func (g *gen) tuple(d int) {
	multi := !g.noNL && g.p(3)
	g.tok("[")
	g.br++
	n := g.r.Intn(4)
	if multi {
		g.brBreak()
	} else {
		g.sp0()
	}
	for i := 0; i < n; i++ {
		if multi && g.p(6) {
			g.heredoc()
			g.tok(g.newline())
			g.gap(g.indentText())
			if i < n-1 || g.p(2) {
				g.tok(",")
				g.brBreak()
			}
			continue
		}
		g.expr(d-1, tAny)
		last := i == n-1
		if !last || g.p(4) {
			g.sp0()
			g.tok(",")
			if multi {
				g.brBreak()
			} else if !last {
				g.sp()
			}
		} else if multi {
			g.brBreak()
		}
	}
	if !multi {
		g.sp0()
	}
	g.br--
	g.tok("]")
}

func (g *gen) objKey() {
	switch g.r.Intn(6) {
	case 0:
		g.tok(`"` + g.pick("k", "key one", "ü", "a.b", "k-2") + `"`)
	case 1:
		g.tok("(")
		g.tok("s")
		g.tok(")")
	default:
		g.tok(g.pick("k", "k2", "name", "id", "größe", "foo-bar", "port"))
		g.nname++
		if g.p(2) {
			g.out[len(g.out)-1].s += fmt.Sprint(g.nname)
		}
	}
}

func (g *gen) exprObj(d int) {
	if d <= 0 {
		if g.p(2) {
			g.tok("m")
		} else {
			g.tok("{")
			g.sp0()
			g.tok("}")
		}
		return
	}
	switch g.r.Intn(6) {
	case 0:
		g.traversal(tObj)
	case 1:
		// for-object
		g.tok("{")
		g.br++
		g.sp()
		g.tok("for")
		g.sp1()
		g.tok("k")
		g.sp0()
		g.tok(",")
		g.sp()
		g.tok("v")
		g.sp1()
		g.tok("in")
		g.sp1()
		g.tok("m")
		g.sp()
		g.tok(":")
		g.sp()
		g.tok("k")
		g.sp()
		g.tok("=>")
		g.sp()
		g.tok("v")
		if g.p(3) {
			g.sp0()
			g.tok("...")
		}
		g.sp()
		g.br--
		g.tok("}")
	default:
		multi := !g.noNL && g.p(2)
		g.tok("{")
		g.br++
		n := g.r.Intn(4)
		if multi {
			g.brBreak()
		} else {
			g.sp()
		}
		for i := 0; i < n; i++ {
			g.objKey()
			g.sp()
			g.tok(g.pick("=", "=", ":"))
			g.sp()
			g.expr(d-1, tAny)
			last := i == n-1
			if multi {
				if g.p(3) {
					g.sp0()
					g.tok(",")
				}
				g.brBreak()
			} else if !last {
				g.sp0()
				g.tok(",")
				g.sp()
			} else {
				if g.p(5) {
					g.sp0()
					g.tok(",")
				}
				g.sp()
			}
		}
		g.br--
		g.tok("}")
	}
}

var strChunks = []string{"a", "abc", "hello world", "x y  z", "tab\there", "ü", "größe", "日本語", "é́", "😀", "# not a comment", "// nor this", "/* nor */", "it's", "{", "}", "[1, 2]", "a = b", "<<EOT", "$", "%", "$$", "%%", "$${x}", "%%{if}", "100%", "$5", " ", "  lead", "trail  "}
var strEscapes = []string{`\n`, `\t`, `\"`, `\\`, `\r`, `\x41`}

// quoted emits a "..." template as token pieces (gaps only inside ${ } / %{ }).
func (g *gen) quoted(d int) {
	g.tok(`"`)
	n := g.r.Intn(4)
	prevDollar := false
	for i := 0; i < n; i++ {
		switch x := g.r.Intn(10); {
		case x < 5:
			c := g.pick(strChunks...)
			if prevDollar && strings.HasPrefix(c, "{") {
				c = "_" + c
			}
			prevDollar = strings.HasSuffix(c, "$") || strings.HasSuffix(c, "%")
			if len(c) >= 4 && !prevDollar {
				// a serial number makes the text unique in the file, so that "appears
				// exactly once before and after formatting" speaks about this literal
				g.nverb++
				c += fmt.Sprintf("s%d", g.nverb)
				g.verb = append(g.verb, c)
			}
			g.tok(c)
		case x < 7:
			g.tok(g.pick(strEscapes...))
			prevDollar = false
		case x < 9:
			if prevDollar {
				g.tok("_") // "$${" / "%%{" would be an escape, not an interpolation
			}
			g.interp(d)
			prevDollar = false
		default:
			if prevDollar {
				g.tok("_")
			}
			g.control(d)
			prevDollar = false
		}
	}
	g.tok(`"`)
}

func (g *gen) interp(d int) {
	strip := g.p(8)
	if strip {
		g.tok("${~")
	} else {
		g.tok("${")
	}
	g.br++
	save := g.noNL
	g.noNL = true
	g.sp0()
	if d > 0 {
		g.expr(d-1, typ(1+g.r.Intn(3)))
	} else {
		g.tok(g.pick("x", "s", "var.name", "1"))
	}
	g.sp0()
	g.noNL = save
	g.br--
	if strip && g.p(2) {
		g.tok("~}")
	} else {
		g.tok("}")
	}
}

func (g *gen) control(d int) {
	save := g.noNL
	g.noNL = true
	defer func() { g.noNL = save }()
	if g.p(2) {
		g.tok("%{")
		g.sp0()
		g.tok("if")
		g.sp1()
		g.exprBool(0)
		g.sp0()
		g.tok("}")
		g.tok(g.pick("yes", "Y ", ""))
		if g.p(2) {
			g.tok("%{")
			g.sp0()
			g.tok("else")
			g.sp0()
			g.tok("}")
			g.tok(g.pick("no", " N"))
		}
		g.tok("%{")
		g.sp0()
		g.tok("endif")
		g.sp0()
		g.tok("}")
		return
	}
	g.tok("%{")
	g.sp0()
	g.tok("for")
	g.sp1()
	g.tok("v")
	g.sp1()
	g.tok("in")
	g.sp1()
	g.tok(g.pick("strs", "nums"))
	g.sp0()
	g.tok("}")
	g.tok(g.pick("-", "", "item "))
	g.tok("${")
	g.tok("v")
	g.tok("}")
	g.tok("%{")
	g.sp0()
	g.tok("endfor")
	g.sp0()
	g.tok(g.pick("}", "~}"))
}

func (g *gen) exprStr(d int) {
	if d <= 0 {
		if g.p(3) {
			g.traversal(tStr)
		} else {
			g.quoted(0)
		}
		return
	}
	switch g.r.Intn(7) {
	case 0:
		g.traversal(tStr)
	case 1:
		g.call(g.pick("upper", "lower"), d, tStr, 1)
	case 2:
		g.tok("join")
		g.tok("(")
		g.br++
		g.sp0()
		g.quoted(0)
		g.sp0()
		g.tok(",")
		g.sp()
		g.exprList(d - 1)
		g.sp0()
		g.br--
		g.tok(")")
	default:
		g.quoted(d)
	}
}

var hdLines = []string{"hello", "  indented", "\ttabbed", "x = 1", "# not a comment", "// nor this", "\"quotes\" and \\backslash", "trailing  ", "ünï 日本", "$${escaped} %%{escaped}", "{ } [ ]", "a\tb", "EOTX", "not EOT here", "   ", ""}

// heredoc emits <<MARK ... MARK (without the line end after the closing marker).
func (g *gen) heredoc() {
	marker := g.pick("EOT", "EOF", "END", "HERE_1", "ÉOT")
	flush := g.p(2)
	open := "<<"
	if flush {
		open = "<<-"
	}
	nl := g.newline()
	g.tok(open + marker + nl)
	n := g.r.Intn(5)
	for i := 0; i < n; i++ {
		if g.mixed {
			nl = g.newline()
		}
		if g.p(4) {
			// line with an interpolation
			pre := g.pick("", "  ", "\t", "v=")
			g.tok(pre)
			save := g.noNL
			g.noNL = true
			if g.p(3) {
				g.control(0)
			} else {
				g.interp(1)
			}
			g.noNL = save
			post := g.pick("", " end", "\t")
			g.tok(post + nl)
			continue
		}
		l := g.pick(hdLines...)
		if strings.TrimSpace(l) == marker {
			l += "_"
		}
		if len(l) >= 4 {
			g.nverb++
			id := fmt.Sprintf("h%d", g.nverb)
			switch {
			case !strings.HasSuffix(l, " ") && !strings.HasSuffix(l, "\t"):
				l += " " + id
				g.verb = append(g.verb, l+nl)
			case !strings.HasPrefix(l, " ") && !strings.HasPrefix(l, "\t"):
				l = id + " " + l
				g.verb = append(g.verb, l+nl)
			}
		}
		g.tok(l + nl)
	}
	ind := ""
	if g.p(2) {
		ind = g.pick("  ", "\t", "    ")
	}
	g.tok(ind + marker)
}

// ---- assembling ----

func (g *gen) source() string {
	var sb strings.Builder
	for _, p := range g.out {
		sb.WriteString(p.s)
	}
	return sb.String()
}

// expectedTokenRoundTrip: gaps with tabs mapped to spaces, everything else as written.
func (g *gen) expectedTokenRoundTrip() string {
	var sb strings.Builder
	for _, p := range g.out {
		if p.gap {
			sb.WriteString(strings.ReplaceAll(p.s, "\t", " "))
		} else {
			sb.WriteString(p.s)
		}
	}
	return sb.String()
}
