package c20

import (
	"encoding/json"
	"fmt"
	"math/rand"
	"reflect"
	"strings"

	hcl "Havoc/pkg/profile/yaotl"
	"Havoc/pkg/profile/yaotl/gohcl"
	"Havoc/pkg/profile/yaotl/hclsyntax"
	"Havoc/pkg/profile/yaotl/hclwrite"

	"verifh/lib"
)

// ---- blocks added from Go values (gohcl.EncodeIntoBody / EncodeAsBlock + AppendBlock) ----
//
// "Adding a block" has a second entry: a Go struct with hcl tags is encoded into a body or
// as a block and appended. Re-parsing and decoding the output into the same struct type
// shows exactly the values that went in. The struct types put label fields after, between
// and before attribute fields, have optional and repeated blocks, and present-but-empty ones.

type encLeaf struct {
	Weight int    `yaotl:"weight"`
	Name   string `yaotl:"name,label"`
	Note   string `yaotl:"note,optional"`
}

type encItem struct {
	Port    int       `yaotl:"port"`
	Name    string    `yaotl:"name,label"`
	Host    string    `yaotl:"host"`
	Kind    string    `yaotl:"kind,label"`
	Tags    []string  `yaotl:"tags,optional"`
	Enabled bool      `yaotl:"enabled,optional"`
	Leaves  []encLeaf `yaotl:"leaf,block"`
	Extra   *encLeaf  `yaotl:"extra,block"`
}

type encOpts struct {
	Level int    `yaotl:"level,optional"`
	Mode  string `yaotl:"mode,optional"`
}

type encRoot struct {
	Title string    `yaotl:"title"`
	Items []encItem `yaotl:"item,block"`
	Opts  *encOpts  `yaotl:"opts,block"`
	Count int       `yaotl:"count,optional"`
}

var encWords = []string{"", "a", "web-1", "0.0.0.0", "C:\\Windows\\System32", "say \"hi\"", "${not.a.ref}", "%{if x}", "$${lit}", "tab\there", "line\nbreak", "ünï", "日本", "😀",
	"a\x00b", "\x1bnext", "\u00a0nbsp", "e9 after \x01e9", "100%", "$", "trailing\\"}

func encStr(r *rand.Rand) string {
	if r.Intn(3) == 0 {
		return encWords[r.Intn(len(encWords))] + encWords[r.Intn(len(encWords))]
	}
	return encWords[r.Intn(len(encWords))]
}

func encLabel(r *rand.Rand) string {
	return []string{"a", "web-1", "0.0.0.0", "x y", "ünï", "日本", "q\"q", "b\\s", "${l}", "%{l", "", "😀"}[r.Intn(12)]
}

func genEncRoot(r *rand.Rand) encRoot {
	leaf := func() encLeaf { return encLeaf{Weight: r.Intn(2000) - 1000, Name: encLabel(r), Note: encStr(r)} }
	root := encRoot{Title: encStr(r), Count: r.Intn(5)}
	for i := r.Intn(4); i > 0; i-- {
		it := encItem{Port: r.Intn(70000), Name: encLabel(r), Host: encStr(r), Kind: encLabel(r), Enabled: r.Intn(2) == 0}
		for k := r.Intn(3); k > 0; k-- {
			it.Tags = append(it.Tags, encStr(r))
		}
		for k := r.Intn(3); k > 0; k-- {
			it.Leaves = append(it.Leaves, leaf())
		}
		switch r.Intn(3) {
		case 0:
			l := leaf()
			it.Extra = &l
		case 1:
			it.Extra = &encLeaf{} // present, all fields zero
		}
		root.Items = append(root.Items, it)
	}
	switch r.Intn(3) {
	case 0:
		root.Opts = &encOpts{Level: r.Intn(9), Mode: encStr(r)}
	case 1:
		root.Opts = &encOpts{} // present, empty
	}
	return root
}

// normalise: what decoding gives for "nothing there" (nil slices)
func normEnc(v *encRoot) {
	if len(v.Items) == 0 {
		v.Items = nil
	}
	for i := range v.Items {
		if len(v.Items[i].Tags) == 0 {
			v.Items[i].Tags = nil
		}
		if len(v.Items[i].Leaves) == 0 {
			v.Items[i].Leaves = nil
		}
	}
}

type encWitness struct {
	Kind   string  `json:"kind"` // "encode"
	Via    string  `json:"via"`  // into-body | as-block
	Value  encRoot `json:"value"`
	Output string  `json:"output,omitempty"`
}

func runEncode(c *lib.Ctx, in encRoot, via string) (sig, what, out string) {
	var text []byte
	pv, st := lib.Guard(func() {
		f := hclwrite.NewEmptyFile()
		if via == "as-block" {
			// the items go in one by one as blocks of their own, the rest as a body
			rest := in
			rest.Items = nil
			gohcl.EncodeIntoBody(&rest, f.Body())
			for i := range in.Items {
				f.Body().AppendBlock(gohcl.EncodeAsBlock(&in.Items[i], "item"))
			}
		} else {
			gohcl.EncodeIntoBody(&in, f.Body())
		}
		text = f.Bytes()
	})
	if pv != nil {
		return "encode:" + lib.PanicSig(pv, st), fmt.Sprintf("encoding a Go value panics: %v", pv), ""
	}
	file, diags := hclsyntax.ParseConfig(text, "enc.hcl", hcl.InitialPos)
	if diags.HasErrors() {
		return "encode:output-does-not-parse", "the encoder's output does not parse: " + diags.Error(), string(text)
	}
	var got encRoot
	if d := gohcl.DecodeBody(file.Body, nil, &got); d.HasErrors() {
		return "encode:output-does-not-decode", "the encoder's output does not decode into the type it was made from: " + d.Error(), string(text)
	}
	want := in
	normEnc(&want)
	normEnc(&got)
	if !reflect.DeepEqual(want, got) {
		// name the first difference
		wj, _ := json.Marshal(want)
		gj, _ := json.Marshal(got)
		field := "value"
		switch {
		case len(want.Items) != len(got.Items):
			field = "item-count"
		default:
			for i := range want.Items {
				a, b := want.Items[i], got.Items[i]
				switch {
				case a.Name != b.Name || a.Kind != b.Kind:
					field = "block-labels"
				case !reflect.DeepEqual(a.Extra, b.Extra):
					field = "single-block"
				case !reflect.DeepEqual(a.Leaves, b.Leaves):
					field = "nested-blocks"
				case !reflect.DeepEqual(a, b):
					field = "attributes"
				default:
					continue
				}
				break
			}
			if field == "value" && !reflect.DeepEqual(want.Opts, got.Opts) {
				field = "single-block"
			}
		}
		return "encode:decodes-differently:" + field, fmt.Sprintf("encoded %s, decoded %s", clipS(string(wj), 300), clipS(string(gj), 300)), string(text)
	}
	return "", "", string(text)
}

func clipS(s string, n int) string {
	if len(s) > n {
		return s[:n] + "…"
	}
	return s
}

func encodePart(c *lib.Ctx, n int) {
	for i := 0; i < n; i++ {
		in := genEncRoot(c.Rng)
		via := []string{"into-body", "as-block"}[i%2]
		w := encWitness{Kind: "encode", Via: via, Value: in}
		b, _ := json.Marshal(w)
		c.Cur("encode", b)
		c.Eval()
		c.Observe("encode-cases:"+via, 1)
		if len(in.Items) > 0 {
			c.DistinctBytes(b)
		}
		if sig, what, out := runEncode(c, in, via); sig != "" {
			w.Output = out
			c.Violation(sig, what, w)
		}
	}
}

func replayEncode(c *lib.Ctx, raw []byte) bool {
	var w encWitness
	if json.Unmarshal(raw, &w) != nil || w.Kind != "encode" || !strings.Contains("into-body as-block", w.Via) {
		return false
	}
	c.Eval()
	if sig, what, out := runEncode(c, w.Value, w.Via); sig != "" {
		w.Output = out
		c.Violation(sig, what, w)
	}
	return true
}
