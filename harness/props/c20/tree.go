package c20

import (
	"fmt"
	"sort"
	"strings"

	hcl "Havoc/pkg/profile/yaotl"
	"Havoc/pkg/profile/yaotl/hcldec"
	"Havoc/pkg/profile/yaotl/hclsyntax"
	"github.com/zclconf/go-cty/cty"
	"github.com/zclconf/go-cty/cty/function"
	"github.com/zclconf/go-cty/cty/function/stdlib"
)

// evalCtx is the variable/function scope the generated expressions refer to.
func evalCtx() *hcl.EvalContext {
	objs := cty.TupleVal([]cty.Value{
		cty.ObjectVal(map[string]cty.Value{"id": cty.NumberIntVal(1), "name": cty.StringVal("one")}),
		cty.ObjectVal(map[string]cty.Value{"id": cty.NumberIntVal(2), "name": cty.StringVal("two")}),
	})
	nums := cty.ListVal([]cty.Value{cty.NumberIntVal(10), cty.NumberIntVal(20), cty.NumberIntVal(30)})
	strs := cty.ListVal([]cty.Value{cty.StringVal("a"), cty.StringVal("b")})
	return &hcl.EvalContext{
		Variables: map[string]cty.Value{
			"x":     cty.NumberIntVal(5),
			"größe": cty.NumberIntVal(7),
			"s":     cty.StringVal("str"),
			"flag":  cty.True,
			"nums":  nums,
			"strs":  strs,
			"objs":  objs,
			"m":     cty.ObjectVal(map[string]cty.Value{"k": cty.StringVal("v"), "k2": cty.StringVal("v2")}),
			"var": cty.ObjectVal(map[string]cty.Value{
				"n": cty.NumberIntVal(3), "name": cty.StringVal("nm"), "on": cty.False, "list": strs,
				"a": cty.NumberIntVal(1),
			}),
			"v": cty.ObjectVal(map[string]cty.Value{
				"x": cty.ObjectVal(map[string]cty.Value{"k": cty.TupleVal([]cty.Value{cty.StringVal("deep")})}),
			}),
		},
		Functions: map[string]function.Function{
			"upper":  stdlib.UpperFunc,
			"lower":  stdlib.LowerFunc,
			"length": stdlib.LengthFunc,
			"max":    stdlib.MaxFunc,
			"min":    stdlib.MinFunc,
			"concat": stdlib.ConcatFunc,
			"join":   stdlib.JoinFunc,
			"keys":   stdlib.KeysFunc,
		},
	}
}

var opNames = map[*hclsyntax.Operation]string{
	hclsyntax.OpLogicalOr: "||", hclsyntax.OpLogicalAnd: "&&", hclsyntax.OpLogicalNot: "!",
	hclsyntax.OpEqual: "==", hclsyntax.OpNotEqual: "!=", hclsyntax.OpGreaterThan: ">",
	hclsyntax.OpGreaterThanOrEqual: ">=", hclsyntax.OpLessThan: "<", hclsyntax.OpLessThanOrEqual: "<=",
	hclsyntax.OpAdd: "+", hclsyntax.OpSubtract: "-", hclsyntax.OpMultiply: "*",
	hclsyntax.OpDivide: "/", hclsyntax.OpModulo: "%", hclsyntax.OpNegate: "neg",
}

func dumpTraversal(t hcl.Traversal) string {
	var sb strings.Builder
	for _, st := range t {
		switch s := st.(type) {
		case hcl.TraverseRoot:
			sb.WriteString(s.Name)
		case hcl.TraverseAttr:
			sb.WriteString("." + s.Name)
		case hcl.TraverseIndex:
			sb.WriteString("[" + s.Key.GoString() + "]")
		case hcl.TraverseSplat:
			sb.WriteString("[*]")
		default:
			fmt.Fprintf(&sb, "<%T>", st)
		}
	}
	return sb.String()
}

type dumper struct{ sb strings.Builder }

func (d *dumper) Enter(n hclsyntax.Node) hcl.Diagnostics {
	d.sb.WriteString("(")
	d.sb.WriteString(strings.TrimPrefix(fmt.Sprintf("%T", n), "*hclsyntax."))
	switch e := n.(type) {
	case *hclsyntax.LiteralValueExpr:
		d.sb.WriteString(" " + e.Val.GoString())
	case *hclsyntax.ScopeTraversalExpr:
		d.sb.WriteString(" " + dumpTraversal(e.Traversal))
	case *hclsyntax.RelativeTraversalExpr:
		d.sb.WriteString(" " + dumpTraversal(e.Traversal))
	case *hclsyntax.FunctionCallExpr:
		fmt.Fprintf(&d.sb, " %s expand=%v", e.Name, e.ExpandFinal)
	case *hclsyntax.BinaryOpExpr:
		d.sb.WriteString(" " + opNames[e.Op])
	case *hclsyntax.UnaryOpExpr:
		d.sb.WriteString(" " + opNames[e.Op])
	case *hclsyntax.ForExpr:
		fmt.Fprintf(&d.sb, " key=%q val=%q group=%v obj=%v cond=%v", e.KeyVar, e.ValVar, e.Group, e.KeyExpr != nil, e.CondExpr != nil)
	case *hclsyntax.TemplateExpr:
		fmt.Fprintf(&d.sb, " parts=%d", len(e.Parts))
	case *hclsyntax.ObjectConsExpr:
		fmt.Fprintf(&d.sb, " items=%d", len(e.Items))
	case *hclsyntax.TupleConsExpr:
		fmt.Fprintf(&d.sb, " n=%d", len(e.Exprs))
	case *hclsyntax.ObjectConsKeyExpr:
		fmt.Fprintf(&d.sb, " force=%v", e.ForceNonLiteral)
	}
	return nil
}

func (d *dumper) Exit(n hclsyntax.Node) hcl.Diagnostics {
	d.sb.WriteString(")")
	return nil
}

// bodyItems returns attributes and blocks of a native body in source order.
func bodyItems(b *hclsyntax.Body) []hclsyntax.Node {
	var items []hclsyntax.Node
	for _, a := range b.Attributes {
		items = append(items, a)
	}
	for _, bl := range b.Blocks {
		items = append(items, bl)
	}
	sort.SliceStable(items, func(i, j int) bool { return items[i].Range().Start.Byte < items[j].Range().Start.Byte })
	return items
}

// dumpBody is the structural dump used to compare trees: block types, labels, attribute
// names in source order, the shape of every expression and its value in evalCtx.
func dumpBody(b *hclsyntax.Body, ctx *hcl.EvalContext, sb *strings.Builder, depth int) {
	ind := strings.Repeat(" ", depth)
	for _, it := range bodyItems(b) {
		switch n := it.(type) {
		case *hclsyntax.Attribute:
			d := &dumper{}
			hclsyntax.Walk(n.Expr, d)
			fmt.Fprintf(sb, "%sattr %q %s", ind, n.Name, d.sb.String())
			if ctx != nil {
				var v cty.Value
				var diags hcl.Diagnostics
				pv, _ := guard(func() { v, diags = n.Expr.Value(ctx) })
				if pv != nil {
					fmt.Fprintf(sb, " => panic %v", pv)
				} else {
					fmt.Fprintf(sb, " => %s", v.GoString())
					for _, dg := range diags {
						fmt.Fprintf(sb, " !%s", dg.Summary)
					}
				}
			}
			sb.WriteString("\n")
		case *hclsyntax.Block:
			fmt.Fprintf(sb, "%sblock %q %q {\n", ind, n.Type, n.Labels)
			dumpBody(n.Body, ctx, sb, depth+1)
			fmt.Fprintf(sb, "%s}\n", ind)
		}
	}
}

func guard(f func()) (pv any, stack string) {
	defer func() {
		if r := recover(); r != nil {
			pv = r
		}
	}()
	f()
	return nil, ""
}

// ---- hcldec spec derived from the shape of the source tree ----

type shape struct {
	attrs  map[string]bool
	blocks map[string]*bshape
}

type bshape struct {
	labels int
	inner  *shape
}

func newShape() *shape { return &shape{attrs: map[string]bool{}, blocks: map[string]*bshape{}} }

func (s *shape) add(b *hclsyntax.Body) {
	for name := range b.Attributes {
		s.attrs[name] = true
	}
	for _, bl := range b.Blocks {
		bs := s.blocks[bl.Type]
		if bs == nil {
			bs = &bshape{labels: len(bl.Labels), inner: newShape()}
			s.blocks[bl.Type] = bs
		}
		bs.inner.add(bl.Body)
	}
}

func (s *shape) spec(labels int) hcldec.Spec {
	o := hcldec.ObjectSpec{}
	for i := 0; i < labels; i++ {
		o[fmt.Sprintf("label%d", i)] = &hcldec.BlockLabelSpec{Index: i, Name: fmt.Sprintf("label%d", i)}
	}
	for name := range s.attrs {
		o["attr:"+name] = &hcldec.AttrSpec{Name: name, Type: cty.DynamicPseudoType}
	}
	for t, bs := range s.blocks {
		o["block:"+t] = &hcldec.BlockTupleSpec{TypeName: t, Nested: bs.inner.spec(bs.labels)}
	}
	return o
}

func specFor(b *hclsyntax.Body) hcldec.Spec {
	s := newShape()
	s.add(b)
	return s.spec(0)
}

// decodeWith decodes body with spec and renders value and diagnostics without positions.
func decodeWith(b hcl.Body, spec hcldec.Spec, ctx *hcl.EvalContext) (string, any) {
	var v cty.Value
	var diags hcl.Diagnostics
	pv, _ := guard(func() { v, diags = hcldec.Decode(b, spec, ctx) })
	if pv != nil {
		return "", pv
	}
	var sb strings.Builder
	sb.WriteString(v.GoString())
	var ds []string
	for _, d := range diags {
		ds = append(ds, d.Summary)
	}
	sort.Strings(ds)
	for _, d := range ds {
		sb.WriteString("\n!" + d)
	}
	return sb.String(), nil
}
