package c20

import (
	"fmt"
	"math/rand"
	"sort"
	"strings"
	"unicode"

	"github.com/zclconf/go-cty/cty"
)

// jval is a JSON-able description of a literal cty value handed to SetAttributeValue.
type jval struct {
	T string   `json:"t"` // num str bool null list tuple set map obj
	S string   `json:"s,omitempty"`
	B bool     `json:"b,omitempty"`
	E []jval   `json:"e,omitempty"`
	K []string `json:"k,omitempty"`
}

func (v jval) String() string {
	switch v.T {
	case "num":
		return v.S
	case "str":
		return fmt.Sprintf("%q", v.S)
	case "bool":
		return fmt.Sprint(v.B)
	case "null":
		return "null"
	case "list", "tuple", "set":
		var ss []string
		for _, e := range v.E {
			ss = append(ss, e.String())
		}
		return v.T + "[" + strings.Join(ss, ", ") + "]"
	case "map", "obj":
		var ss []string
		for i, e := range v.E {
			ss = append(ss, fmt.Sprintf("%q=%s", v.K[i], e.String()))
		}
		return v.T + "{" + strings.Join(ss, ", ") + "}"
	}
	return "?"
}

func (v jval) toCty() cty.Value {
	switch v.T {
	case "num":
		return cty.MustParseNumberVal(v.S)
	case "str":
		return cty.StringVal(v.S)
	case "bool":
		return cty.BoolVal(v.B)
	case "null":
		return cty.NullVal(cty.String)
	case "list", "tuple", "set":
		var es []cty.Value
		for _, e := range v.E {
			es = append(es, e.toCty())
		}
		if len(es) == 0 {
			switch v.T {
			case "list":
				return cty.ListValEmpty(cty.String)
			case "set":
				return cty.SetValEmpty(cty.String)
			}
			return cty.EmptyTupleVal
		}
		switch v.T {
		case "list":
			return cty.ListVal(es)
		case "set":
			return cty.SetVal(es)
		}
		return cty.TupleVal(es)
	case "map", "obj":
		m := map[string]cty.Value{}
		for i, e := range v.E {
			m[v.K[i]] = e.toCty()
		}
		if v.T == "map" {
			if len(m) == 0 {
				return cty.MapValEmpty(cty.String)
			}
			return cty.MapVal(m)
		}
		return cty.ObjectVal(m)
	}
	panic("bad jval")
}

func normStr(s string) string { return cty.StringVal(s).AsString() }

// sameValue compares a value obtained by evaluating re-parsed source with the literal that
// was set. Collection kinds are not preserved by the syntax (lists and sets read back as
// tuples, maps as objects); a set reads back in any order.
func sameValue(exp jval, got cty.Value) bool {
	if !got.IsWhollyKnown() {
		return false
	}
	switch exp.T {
	case "null":
		return got.IsNull()
	}
	if got.IsNull() {
		return false
	}
	switch exp.T {
	case "num":
		return got.Type() == cty.Number && got.RawEquals(cty.MustParseNumberVal(exp.S))
	case "str":
		return got.Type() == cty.String && got.AsString() == normStr(exp.S)
	case "bool":
		return got.Type() == cty.Bool && got.True() == exp.B
	case "list", "tuple":
		if !(got.Type().IsTupleType() || got.Type().IsListType()) || got.LengthInt() != len(exp.E) {
			return false
		}
		i := 0
		for it := got.ElementIterator(); it.Next(); i++ {
			_, ev := it.Element()
			if !sameValue(exp.E[i], ev) {
				return false
			}
		}
		return true
	case "set":
		if !(got.Type().IsTupleType() || got.Type().IsListType()) {
			return false
		}
		// sets here hold only strings or only numbers, all distinct
		var a, b []string
		seen := map[string]bool{}
		for _, e := range exp.E {
			k := e.T + ":" + normStr(e.S)
			if e.T == "num" {
				k = "num:" + cty.MustParseNumberVal(e.S).AsBigFloat().Text('g', -1)
			}
			if !seen[k] {
				seen[k] = true
				a = append(a, k)
			}
		}
		for it := got.ElementIterator(); it.Next(); {
			_, ev := it.Element()
			if ev.IsNull() {
				return false
			}
			switch ev.Type() {
			case cty.String:
				b = append(b, "str:"+ev.AsString())
			case cty.Number:
				b = append(b, "num:"+ev.AsBigFloat().Text('g', -1))
			default:
				return false
			}
		}
		sort.Strings(a)
		sort.Strings(b)
		return strings.Join(a, "\x00") == strings.Join(b, "\x00")
	case "map", "obj":
		if !(got.Type().IsObjectType() || got.Type().IsMapType()) || got.LengthInt() != len(exp.E) {
			return false
		}
		gm := got.AsValueMap()
		for i, k := range exp.K {
			ev, ok := gm[normStr(k)]
			if !ok || !sameValue(exp.E[i], ev) {
				return false
			}
		}
		return true
	}
	return false
}

// hasNonPrintable: a string (or key) somewhere in the value contains a rune that the
// generator has to write as a \u escape.
func (v jval) hasNonPrintable() bool {
	np := func(s string) bool {
		for _, r := range s {
			switch r {
			case '\n', '\r', '\t':
				continue
			}
			if !unicode.IsPrint(r) {
				return true
			}
		}
		return false
	}
	if v.T == "str" && np(v.S) {
		return true
	}
	for _, k := range v.K {
		if np(k) {
			return true
		}
	}
	for _, e := range v.E {
		if e.hasNonPrintable() {
			return true
		}
	}
	return false
}

var valNums = []string{"0", "1", "-1", "42", "-5", "3.5", "0.1", "-0.25", "1e100", "1e-30", "65535", "123456789012345678901234567890", "2.5e3", "1000000"}
var valStrs = []string{"", "a", "hello world", "ünï", "日本語", "😀", "line1\nline2", "tab\tx", "q\"q", "back\\slash", "cr\r\n", "${x}", "%{if}", "$${x}", "%%{", "$", "%", "$$", "a$", "100%", "$%{", "%${", "$$${", "# no", "// no", "/* no */", "'", "{}", "  padded  ", "<<EOT"}
var valStrsHostile = []string{"\x00", "bell\x07", "esc\x1b[0m", "nbsp\u00a0x", "zw\u200bsp", "\u2028", "del\x7f", "\ufeffbom"}
var valKeys = []string{"k", "key", "a", "b", "name", "id", "foo-bar", "foo_bar", "with space", "a.b", "ü", "日本", "1x", "", "k\"q", "${k}", "if", "null"}

func genScalar(r *rand.Rand, hostile bool) jval {
	switch r.Intn(10) {
	case 0, 1, 2:
		return jval{T: "num", S: valNums[r.Intn(len(valNums))]}
	case 3:
		return jval{T: "bool", B: r.Intn(2) == 0}
	case 4:
		return jval{T: "null"}
	default:
		return genString(r, hostile)
	}
}

func genString(r *rand.Rand, hostile bool) jval {
	if hostile && r.Intn(3) == 0 {
		return jval{T: "str", S: valStrs[r.Intn(len(valStrs))] + valStrsHostile[r.Intn(len(valStrsHostile))]}
	}
	s := valStrs[r.Intn(len(valStrs))]
	if r.Intn(4) == 0 {
		s += valStrs[r.Intn(len(valStrs))]
	}
	return jval{T: "str", S: s}
}

func genValue(r *rand.Rand, depth int, hostile bool) jval {
	if depth <= 0 || r.Intn(3) != 0 {
		return genScalar(r, hostile)
	}
	n := r.Intn(4)
	switch r.Intn(5) {
	case 0: // homogeneous list
		v := jval{T: "list"}
		num := r.Intn(2) == 0
		for i := 0; i < n; i++ {
			if num {
				v.E = append(v.E, jval{T: "num", S: valNums[r.Intn(len(valNums))]})
			} else {
				v.E = append(v.E, genString(r, hostile))
			}
		}
		return v
	case 1:
		v := jval{T: "tuple"}
		for i := 0; i < n; i++ {
			v.E = append(v.E, genValue(r, depth-1, hostile))
		}
		return v
	case 2:
		v := jval{T: "set"}
		seen := map[string]bool{}
		for i := 0; i < n; i++ {
			s := valStrs[r.Intn(len(valStrs))]
			if !seen[normStr(s)] {
				seen[normStr(s)] = true
				v.E = append(v.E, jval{T: "str", S: s})
			}
		}
		return v
	case 3:
		v := jval{T: "map"}
		seen := map[string]bool{}
		for i := 0; i < n; i++ {
			k := valKeys[r.Intn(len(valKeys))]
			if seen[normStr(k)] {
				continue
			}
			seen[normStr(k)] = true
			v.K = append(v.K, k)
			v.E = append(v.E, genString(r, hostile))
		}
		return v
	default:
		v := jval{T: "obj"}
		seen := map[string]bool{}
		for i := 0; i < n; i++ {
			k := valKeys[r.Intn(len(valKeys))]
			if seen[normStr(k)] {
				continue
			}
			seen[normStr(k)] = true
			v.K = append(v.K, k)
			v.E = append(v.E, genValue(r, depth-1, hostile))
		}
		return v
	}
}
