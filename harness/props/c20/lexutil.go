package c20

import (
	"bytes"
	"fmt"
	"strings"

	hcl "Havoc/pkg/profile/yaotl"
	"Havoc/pkg/profile/yaotl/hclsyntax"
)

// ltok is one native token with the blank text that precedes it.
type ltok struct {
	typ   hclsyntax.TokenType
	bytes []byte
	gap   []byte // source text between the previous token and this one
	start int
	end   int
}

func (t ltok) name() string { return tokName(t.typ) }

func tokName(t hclsyntax.TokenType) string {
	return strings.TrimPrefix(t.String(), "Token")
}

var bom = []byte{0xef, 0xbb, 0xbf}

// lexAll runs the native scanner and checks, independently of it, that the tokens and the
// gaps between them tile the source exactly. ok=false means the scanner's positions cannot
// be used as a description of the text (C17's business, not ours).
func lexAll(src []byte) (toks []ltok, ok bool, why string) {
	nt, _ := hclsyntax.LexConfig(src, "c20", hcl.InitialPos)
	prev := 0
	for _, t := range nt {
		s, e := t.Range.Start.Byte, t.Range.End.Byte
		if s < prev || e < s || e > len(src) {
			return nil, false, fmt.Sprintf("token %s range %d-%d after %d", t.Type, s, e, prev)
		}
		if !bytes.Equal(src[s:e], t.Bytes) {
			return nil, false, fmt.Sprintf("token %s bytes differ from source at %d", t.Type, s)
		}
		toks = append(toks, ltok{typ: t.Type, bytes: t.Bytes, gap: src[prev:s], start: s, end: e})
		prev = e
	}
	if prev != len(src) {
		return nil, false, "tokens end before the source does"
	}
	return toks, true, ""
}

func blankOnly(b []byte) bool {
	for _, c := range b {
		if c != ' ' && c != '\t' {
			return false
		}
	}
	return true
}

// expectedRoundTripLex computes the expected unformatted serialisation from the native
// token boundaries: every gap keeps its length, tabs in it become spaces. A byte order
// mark before the first token is kept as it is (it is not a blank).
func expectedRoundTripLex(toks []ltok) (exp []byte, ok bool) {
	for i, t := range toks {
		g := t.gap
		if i == 0 && bytes.HasPrefix(g, bom) {
			exp = append(exp, bom...)
			g = g[len(bom):]
		}
		if !blankOnly(g) {
			return nil, false
		}
		for range g {
			exp = append(exp, ' ')
		}
		exp = append(exp, t.bytes...)
	}
	return exp, true
}

// stripBlanks removes every space and tab: the crudest lexer-free statement of "nothing
// but spaces and tabs changed".
func stripBlanks(b []byte) []byte {
	out := make([]byte, 0, len(b))
	for _, c := range b {
		if c != ' ' && c != '\t' {
			out = append(out, c)
		}
	}
	return out
}

// firstTokenDiff compares two token sequences by type and bytes; -1 means equal.
func firstTokenDiff(a, b []ltok) int {
	n := len(a)
	if len(b) < n {
		n = len(b)
	}
	for i := 0; i < n; i++ {
		if a[i].typ != b[i].typ || !bytes.Equal(a[i].bytes, b[i].bytes) {
			return i
		}
	}
	if len(a) != len(b) {
		return n
	}
	return -1
}

func tokAt(ts []ltok, i int) string {
	if i < 0 {
		return "start"
	}
	if i >= len(ts) {
		return "end"
	}
	return ts[i].name()
}

// describeTokenDiff gives a stable class for the first difference between the source
// tokens a and the produced tokens b.
func describeTokenDiff(a, b []ltok, i int) string {
	switch {
	case i >= len(a):
		return "extra:" + tokAt(b, i)
	case i >= len(b):
		return "lost:" + tokAt(a, i) + ":after-" + tokAt(a, i-1)
	}
	// a token of a missing in b?
	if i+1 < len(a) && a[i+1].typ == b[i].typ && bytes.Equal(a[i+1].bytes, b[i].bytes) {
		return "lost:" + tokAt(a, i) + ":after-" + tokAt(a, i-1)
	}
	if i+1 < len(b) && b[i+1].typ == a[i].typ && bytes.Equal(b[i+1].bytes, a[i].bytes) {
		return "extra:" + tokAt(b, i) + ":after-" + tokAt(a, i-1)
	}
	if a[i].typ == b[i].typ {
		return "bytes:" + tokAt(a, i)
	}
	return "changed:" + tokAt(a, i) + "-to-" + tokAt(b, i)
}

// firstGapDiff: for equal token sequences, the first token whose preceding gap differs.
func firstGapDiff(a, b []ltok) int {
	for i := range a {
		if i >= len(b) {
			return i
		}
		if !bytes.Equal(a[i].gap, b[i].gap) {
			return i
		}
	}
	return -1
}

func commentStyle(b []byte) string {
	switch {
	case bytes.HasPrefix(b, []byte("#")):
		return "#"
	case bytes.HasPrefix(b, []byte("//")):
		return "//"
	case bytes.HasPrefix(b, []byte("/*")):
		if bytes.ContainsAny(b, "\n") {
			return "/*multiline"
		}
		return "/*"
	}
	return "?"
}

func endsLine(t ltok) bool {
	if t.typ == hclsyntax.TokenNewline {
		return true
	}
	return t.typ == hclsyntax.TokenComment && len(t.bytes) > 0 && t.bytes[len(t.bytes)-1] == '\n'
}
