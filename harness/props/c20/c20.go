// Package c20 holds the workload and monitor for property C20 (see /verif/DESIGN.md §3):
// "Rewriting a configuration file never damages it".
//
// Three monitors run against the real hclwrite package:
//
//  1. token round trip: ParseConfig(src).BuildTokens(nil).Bytes() == src with the tabs that
//     stand between tokens mapped to spaces;
//  2. Format(src) (and File.Bytes() of an unedited file): same non-blank tokens, verbatim
//     string/heredoc/comment text, idempotent, parses, same tree, same decoded values;
//  3. edit sequences against an ordered-structure model built from the native parser only.

package c20

import (
	"bytes"
	"encoding/base64"
	"encoding/json"
	"fmt"
	"math/rand"
	"os"
	"path/filepath"
	"sort"
	"strings"

	hcl "Havoc/pkg/profile/yaotl"
	"Havoc/pkg/profile/yaotl/hclsyntax"
	"Havoc/pkg/profile/yaotl/hclwrite"

	"verifh/lib"
)

func init() { lib.Register("C20", run) }

const (
	quickFiles    = 40000
	quickEdits    = 5000
	thoroughFiles = quickFiles * 50
	thoroughEdits = quickEdits * 50
)

type finding struct {
	sig      string
	what     string
	expected string
	observed string
}

type witness struct {
	Kind     string   `json:"kind"` // source | edit
	Origin   string   `json:"origin,omitempty"`
	Src      string   `json:"src"` // readable form
	SrcB64   string   `json:"src_b64"`
	Ops      []editOp `json:"ops,omitempty"`
	Expected string   `json:"expected"`
	Observed string   `json:"observed"`
	Detail   string   `json:"detail,omitempty"`
}

func valid(src []byte) (*hcl.File, bool) {
	var nf *hcl.File
	var diags hcl.Diagnostics
	if pv, _ := guard(func() { nf, diags = hclsyntax.ParseConfig(src, "c20", hcl.InitialPos) }); pv != nil {
		return nil, false
	}
	if diags.HasErrors() || nf == nil {
		return nil, false
	}
	return nf, true
}

// locate names the syntactic place of byte offset pos in the parsed file.
func locate(nf *hcl.File, pos int) string {
	body, _ := nf.Body.(*hclsyntax.Body)
	if body == nil {
		return "?"
	}
	var in func(b *hclsyntax.Body) string
	in = func(b *hclsyntax.Body) string {
		for _, a := range b.Attributes {
			if r := a.Expr.Range(); pos >= r.Start.Byte && pos < r.End.Byte {
				return "in-expr"
			}
			if r := a.SrcRange; pos >= r.Start.Byte && pos < r.End.Byte {
				return "in-attr"
			}
		}
		for _, bl := range b.Blocks {
			if pos >= bl.TypeRange.End.Byte && pos < bl.OpenBraceRange.Start.Byte {
				if len(bl.LabelRanges) > 0 && pos < bl.LabelRanges[0].Start.Byte {
					return "in-block-header-before-first-label"
				}
				return "in-block-header"
			}
			if pos > bl.OpenBraceRange.Start.Byte && pos < bl.CloseBraceRange.Start.Byte {
				if s := in(bl.Body); s != "in-body" {
					return s
				}
				return "in-block-body"
			}
		}
		return "in-body"
	}
	s := in(body)
	if s == "in-body" {
		last := 0
		for _, it := range bodyItems(body) {
			if e := it.Range().End.Byte; e > last {
				last = e
			}
		}
		if pos >= last {
			return "after-last-item"
		}
	}
	return s
}

func describeDiffAt(nf *hcl.File, a, b []ltok, i int) string {
	d := describeTokenDiff(a, b, i)
	if i < len(a) && (strings.HasPrefix(d, "lost:") || strings.HasPrefix(d, "bytes:") || strings.HasPrefix(d, "changed:")) {
		parts := strings.SplitN(d, ":", 3)
		loc := locate(nf, a[i].start)
		if len(parts) == 3 {
			return parts[0] + ":" + parts[1] + ":" + loc + ":" + parts[2]
		}
		return d + ":" + loc
	}
	return d
}

// ---- monitor 1: token round trip ----

// checkTokens returns findings for the unformatted serialisation. expPieces is the
// generator's own expectation (nil for texts that were not generated piece by piece).
func checkTokens(src []byte, nf *hcl.File, toks []ltok, expPieces []byte) (fs []finding, f *hclwrite.File) {
	var diags hcl.Diagnostics
	var got []byte
	pv, st := lib.Guard(func() {
		f, diags = hclwrite.ParseConfig(src, "c20", hcl.InitialPos)
		if f != nil {
			got = f.BuildTokens(nil).Bytes()
		}
	})
	if pv != nil {
		return []finding{{sig: lib.PanicSig(pv, st), what: fmt.Sprintf("hclwrite.ParseConfig/BuildTokens panicked on a valid file: %v", pv)}}, nil
	}
	if diags.HasErrors() || f == nil {
		return []finding{{sig: "writer-rejects-valid-file", what: "hclwrite.ParseConfig reports errors for a file the native parser accepts: " + diags.Error()}}, nil
	}
	exp := expPieces
	if exp == nil {
		var ok bool
		exp, ok = expectedRoundTripLex(toks)
		if !ok {
			return nil, f
		}
	}
	if bytes.Equal(got, exp) {
		return nil, f
	}
	// classify
	sig := "tokens-roundtrip:"
	gt, ok, _ := lexAll(got)
	switch {
	case bytes.HasPrefix(src, bom) && !bytes.HasPrefix(got, bom) && bytes.Equal(got[min(3, len(got)):], exp[3:]):
		sig = "bom:treated-as-blanks"
	case !ok:
		sig += "unlexable"
	default:
		if i := firstTokenDiff(toks, gt); i >= 0 {
			sig += describeDiffAt(nf, toks, gt, i)
		} else {
			et, _, _ := lexAll(exp)
			j := firstGapDiff(et, gt)
			sig += "gap-before-" + tokAt(gt, j)
			if j >= 0 && j < len(et) && bytes.ContainsAny(toks[j].gap, "\t") {
				sig += "(tab)"
			}
		}
	}
	return []finding{{sig: sig, what: "unformatted tokens of the loaded file do not reproduce the input (tabs between tokens as spaces)",
		expected: string(exp), observed: string(got)}}, f
}

// ---- monitor 2: formatting ----

func checkFormatted(label string, src []byte, toks []ltok, nf *hcl.File, out []byte, verb []string, idem bool) []finding {
	mk := func(sig, what, exp, obs string) []finding {
		return []finding{{sig: sig, what: what, expected: exp, observed: obs}}
	}
	if bytes.HasPrefix(src, bom) && !bytes.HasPrefix(out, bom) {
		// reported once; the rest is compared without the mark
		rest := src[3:]
		nfr, ok := valid(rest)
		if !ok {
			nfr = nf
		}
		fs := checkFormatted(label, rest, retok(rest), nfr, out, verb, idem)
		return append(mk("bom:treated-as-blanks", "the byte order mark of the input is not in the output of "+label, "EF BB BF ...", string(out)), fs...)
	}
	ot, ok, why := lexAll(out)
	if !ok {
		return mk(label+"-output-unlexable", why, string(src), string(out))
	}
	if i := firstTokenDiff(toks, ot); i >= 0 {
		return mk(label+"-changes-token:"+describeDiffAt(nf, toks, ot, i), "the token sequence of the output differs from the input's", string(src), string(out))
	}
	if !bytes.Equal(stripBlanks(src), stripBlanks(out)) {
		// (lexer-free restatement; can only fire if the scanner hides a difference)
		return mk(label+"-nonblank-bytes-changed", "bytes other than space and tab differ between input and output", string(src), string(out))
	}
	for i, t := range ot {
		g := t.gap
		if i == 0 {
			g = bytes.TrimPrefix(g, bom)
		}
		if !blankOnly(g) {
			return mk(label+"-gap-not-blank", "something other than blanks between tokens", string(src), string(out))
		}
	}
	for _, v := range verb {
		// (only texts that occur exactly once in the input: then that occurrence is the
		// literal itself and not some other place that happens to spell the same)
		if bytes.Count(src, []byte(v)) == 1 && bytes.Count(out, []byte(v)) != 1 {
			kind := "string"
			switch {
			case strings.HasPrefix(v, "#") || strings.HasPrefix(v, "/"):
				kind = "comment"
			case strings.HasSuffix(v, "\n"):
				kind = "heredoc"
			}
			return mk(label+"-verbatim-lost:"+kind, fmt.Sprintf("literal text %q does not appear unchanged", v), string(src), string(out))
		}
	}
	if idem {
		var out2 []byte
		if pv, st := lib.Guard(func() { out2 = hclwrite.Format(out) }); pv != nil {
			return mk(lib.PanicSig(pv, st), "Format panicked on its own output", string(out), "")
		}
		if !bytes.Equal(out, out2) {
			sig := label + "-not-idempotent:"
			o2, ok2, _ := lexAll(out2)
			if !ok2 || firstTokenDiff(ot, o2) >= 0 {
				sig += "tokens"
			} else {
				j := firstGapDiff(ot, o2)
				sig += "gap-after-" + tokAt(ot, j-1) + "-before-" + tokAt(ot, j)
			}
			return mk(sig, "formatting the formatted text changes it again", string(out), string(out2))
		}
	}
	nf2, ok2 := valid(out)
	if !ok2 {
		return mk(label+"-output-unparseable", "the output does not parse", string(src), string(out))
	}
	ctx := evalCtx()
	var d1, d2 strings.Builder
	dumpBody(nf.Body.(*hclsyntax.Body), ctx, &d1, 0)
	dumpBody(nf2.Body.(*hclsyntax.Body), ctx, &d2, 0)
	if d1.String() != d2.String() {
		return mk(label+"-tree-differs", "the output parses to a different tree", d1.String(), d2.String())
	}
	spec := specFor(nf.Body.(*hclsyntax.Body))
	v1, p1 := decodeWith(nf.Body, spec, ctx)
	v2, p2 := decodeWith(nf2.Body, spec, ctx)
	if p1 == nil && p2 == nil && v1 != v2 {
		return mk(label+"-decode-differs", "hcldec decodes input and output to different values", v1, v2)
	}
	if (p1 == nil) != (p2 == nil) {
		return mk(label+"-decode-differs", "hcldec panics on one of input/output only", fmt.Sprint(p1), fmt.Sprint(p2))
	}
	return nil
}

func retok(src []byte) []ltok {
	t, _, _ := lexAll(src)
	return t
}

// checkSource runs monitors 1 and 2 on one valid source text.
func checkSource(src []byte, expPieces []byte, verb []string, obs func(string)) []finding {
	nf, ok := valid(src)
	if !ok {
		return nil
	}
	toks, ok, _ := lexAll(src)
	if !ok {
		return nil
	}
	fs, f := checkTokens(src, nf, toks, expPieces)
	var out []byte
	if pv, st := lib.Guard(func() { out = hclwrite.Format(src) }); pv != nil {
		return append(fs, finding{sig: lib.PanicSig(pv, st), what: fmt.Sprintf("Format panicked: %v", pv)})
	}
	fs = append(fs, checkFormatted("format", src, toks, nf, out, verb, true)...)
	if f != nil {
		var fb []byte
		if pv, st := lib.Guard(func() { fb = f.Bytes() }); pv != nil {
			return append(fs, finding{sig: lib.PanicSig(pv, st), what: fmt.Sprintf("File.Bytes panicked: %v", pv)})
		}
		if bytes.Equal(fb, out) {
			if obs != nil {
				obs("filebytes_eq_format")
			}
		} else {
			if obs != nil {
				obs("filebytes_ne_format")
			}
			for _, x := range checkFormatted("filebytes", src, toks, nf, fb, verb, true) {
				// a token the loaded tree has lost is already reported by monitor 1
				if rest, ok := strings.CutPrefix(x.sig, "filebytes-changes-token:"); ok && hasSig(fs, "tokens-roundtrip:"+rest) != nil {
					continue
				}
				fs = append(fs, x)
			}
		}
	}
	return fs
}

// ---- minimisation (deterministic delta debugging) ----

func ddmin[T any](items []T, test func([]T) bool, budget *int) []T {
	n := 2
	for len(items) >= 1 && *budget > 0 {
		chunk := (len(items) + n - 1) / n
		reduced := false
		for start := 0; start < len(items) && *budget > 0; start += chunk {
			end := start + chunk
			if end > len(items) {
				end = len(items)
			}
			cand := append(append([]T{}, items[:start]...), items[end:]...)
			*budget--
			if test(cand) {
				items = cand
				if n > 2 {
					n--
				}
				reduced = true
				break
			}
		}
		if !reduced {
			if chunk <= 1 {
				break
			}
			n *= 2
			if n > len(items) {
				n = len(items)
			}
		}
	}
	return items
}

func splitLines(src []byte) [][]byte {
	var out [][]byte
	for len(src) > 0 {
		i := bytes.IndexByte(src, '\n')
		if i < 0 {
			out = append(out, src)
			break
		}
		out = append(out, src[:i+1])
		src = src[i+1:]
	}
	return out
}

func splitToks(src []byte) [][]byte {
	toks, ok, _ := lexAll(src)
	if !ok {
		return nil
	}
	var out [][]byte
	for _, t := range toks {
		if len(t.gap) > 0 {
			out = append(out, t.gap)
		}
		if len(t.bytes) > 0 {
			out = append(out, t.bytes)
		}
	}
	return out
}

func minimiseSource(src []byte, keeps func([]byte) bool) []byte {
	budget := 1500
	join := func(p [][]byte) []byte { return bytes.Join(p, nil) }
	test := func(p [][]byte) bool { return keeps(join(p)) }
	cur := join(ddmin(splitLines(src), test, &budget))
	if p := splitToks(cur); p != nil {
		cur = join(ddmin(p, test, &budget))
	}
	if len(cur) <= 120 {
		var bs [][]byte
		for i := range cur {
			bs = append(bs, cur[i:i+1])
		}
		cur = join(ddmin(bs, test, &budget))
	}
	return cur
}

func hasSig(fs []finding, sig string) *finding {
	for i := range fs {
		if fs[i].sig == sig {
			return &fs[i]
		}
	}
	return nil
}

// ---- the worker ----

type runner struct {
	c      *lib.Ctx
	sigCnt map[string]int
}

func (r *runner) reportSource(origin string, src []byte, f finding) {
	r.sigCnt[f.sig]++
	if r.sigCnt[f.sig] <= 2 {
		min := minimiseSource(src, func(b []byte) bool {
			if _, ok := valid(b); !ok {
				return false
			}
			return hasSig(checkSource(b, nil, nil, nil), f.sig) != nil
		})
		if g := hasSig(checkSource(min, nil, nil, nil), f.sig); g != nil {
			src, f = min, *g
		}
	}
	r.c.Violation(f.sig, f.what, witness{Kind: "source", Origin: origin, Src: string(src), SrcB64: base64.StdEncoding.EncodeToString(src),
		Expected: f.expected, Observed: f.observed})
}

func (r *runner) observeSource(src []byte, nf *hcl.File, toks []ltok) (nontrivial bool) {
	c := r.c
	seen := map[string]bool{}
	for _, t := range toks {
		n := t.name()
		if !seen[n] {
			seen[n] = true
			c.Observe("files_with_tok:"+n, 1)
		}
		if t.typ == hclsyntax.TokenComment {
			c.Observe("comment:"+commentStyle(t.bytes), 1)
		}
		if bytes.ContainsAny(t.gap, "\t") {
			seen["tabgap"] = true
		}
		if t.typ == hclsyntax.TokenNewline && len(t.bytes) == 2 {
			seen["crlf"] = true
		}
		if t.typ == hclsyntax.TokenOHeredoc {
			if bytes.HasPrefix(t.bytes, []byte("<<-")) {
				c.Observe("heredoc:<<-", 1)
			} else {
				c.Observe("heredoc:<<", 1)
			}
		}
	}
	if seen["tabgap"] {
		c.Observe("files_with_tab_between_tokens", 1)
	}
	if seen["crlf"] {
		c.Observe("files_with_crlf", 1)
	}
	if n := len(toks); n >= 2 && !endsLine(toks[n-2]) {
		c.Observe("files_without_final_newline", 1)
	}
	if n := len(toks); n >= 2 && toks[n-2].typ == hclsyntax.TokenComment {
		c.Observe("files_ending_in_comment", 1)
	}
	body := nf.Body.(*hclsyntax.Body)
	hasAttr := len(body.Attributes) > 0
	hasBlock := len(body.Blocks) > 0
	for _, b := range body.Blocks {
		if len(b.Body.Attributes) > 0 {
			hasAttr = true
		}
		if len(b.Body.Blocks) > 0 {
			c.Observe("files_with_nested_block", 1)
		}
	}
	other := hasBlock || seen["Comment"] || seen["OHeredoc"] || seen["TemplateInterp"] || seen["TemplateControl"]
	return hasAttr && other
}

func (r *runner) sourceCase(origin string, src []byte, expPieces []byte, verb []string) {
	c := r.c
	c.Cur("source", src)
	nf, ok := valid(src)
	if !ok {
		c.Observe("invalid_filtered", 1)
		return
	}
	toks, ok, why := lexAll(src)
	if !ok {
		c.Inconclusive("native token positions do not tile the source: " + why)
		return
	}
	if expPieces != nil {
		if lx, ok := expectedRoundTripLex(toks); !ok || !bytes.Equal(lx, expPieces) {
			// the generator's idea of "between tokens" must agree with the scanner's,
			// otherwise the case does not say what we think it says
			c.Observe("generator_lexer_disagree", 1)
			c.Inconclusive(fmt.Sprintf("generator and scanner disagree about the gaps of %q", src))
			return
		}
	}
	c.Eval()
	c.Observe("valid_files", 1)
	if r.observeSource(src, nf, toks) {
		c.DistinctBytes(src)
	}
	c.SampleSome(4000, func() any { return map[string]string{"origin": origin, "src": string(src)} })
	fs := checkSource(src, expPieces, verb, func(k string) { c.Observe(k, 1) })
	for _, f := range fs {
		r.reportSource(origin, src, f)
	}
}

func (r *runner) editCase(origin string, src []byte, ops []editOp) {
	c := r.c
	w := witness{Kind: "edit", Origin: origin, Src: string(src), SrcB64: base64.StdEncoding.EncodeToString(src), Ops: ops}
	cur, _ := json.Marshal(w)
	c.Cur("edit", cur)
	res := runEditCase(src, ops)
	if res.invalid {
		c.Observe("invalid_filtered", 1)
		return
	}
	c.Eval()
	c.Observe("edit_sequences", 1)
	for _, t := range res.tags {
		c.Observe("edit:"+t, 1)
	}
	c.ObserveMax("max:edit_sequence_length", int64(len(ops)))
	if len(ops) > 0 {
		c.Distinct("edit\x00" + string(src) + "\x00" + string(mustJSON(ops)))
	}
	c.SampleSome(1500, func() any {
		return map[string]any{"origin": origin, "src": string(src), "ops": ops, "out": string(res.out)}
	})
	if res.symptom == "" {
		c.Observe("edit_outputs_matching_model", 1)
		// the output is a new valid source text: formatting it must be a no-op etc.
		if nf, ok := valid(res.out); ok {
			toks, ok, _ := lexAll(res.out)
			if ok {
				var out []byte
				if pv, st := lib.Guard(func() { out = hclwrite.Format(res.out) }); pv != nil {
					r.reportSource("edit-output", res.out, finding{sig: lib.PanicSig(pv, st), what: "Format panicked on the output of an edit"})
					return
				}
				c.Observe("edit_outputs_reformatted", 1)
				for _, f := range checkFormatted("format", res.out, toks, nf, out, nil, true) {
					r.reportSource("edit-output", res.out, f)
				}
			}
		}
		return
	}
	// minimise, keeping the symptom: always the operations (cheap), and for the first
	// cases of a class also the source text
	sym := res.symptom
	budget := 120
	ops = ddmin(ops, func(o []editOp) bool { x := runEditCase(src, o); return !x.invalid && x.symptom == sym }, &budget)
	res = runEditCase(src, ops)
	sig0 := res.signature()
	r.sigCnt[sig0]++
	if r.sigCnt[sig0] <= 2 {
		src = minimiseSource(src, func(b []byte) bool {
			if _, ok := valid(b); !ok {
				return false
			}
			x := runEditCase(b, ops)
			return !x.invalid && x.symptom == sym && x.signature() == sig0
		})
		res = runEditCase(src, ops)
	}
	if ops == nil {
		ops = []editOp{}
	}
	c.Violation(res.signature(), "after the edit sequence the re-parsed output is not what the model says: "+res.detail,
		witness{Kind: "edit", Origin: origin, Src: string(src), SrcB64: base64.StdEncoding.EncodeToString(src), Ops: ops,
			Expected: res.expected, Observed: string(res.out), Detail: res.detail})
}

func mustJSON(v any) []byte {
	b, _ := json.Marshal(v)
	return b
}

func (r *runner) replay(raw json.RawMessage) {
	c := r.c
	var w witness
	if err := json.Unmarshal(raw, &w); err != nil {
		c.Inconclusive("replay: witness does not parse: " + err.Error())
		return
	}
	src, err := base64.StdEncoding.DecodeString(w.SrcB64)
	if err != nil || (w.SrcB64 == "" && w.Src != "") {
		src = []byte(w.Src)
	}
	c.Eval()
	switch w.Kind {
	case "edit":
		res := runEditCase(src, w.Ops)
		if res.invalid {
			c.Inconclusive("replay: the source of the witness is not a valid file")
			return
		}
		if res.symptom != "" {
			c.Violation(res.signature(), "after the edit sequence the re-parsed output is not what the model says: "+res.detail,
				witness{Kind: "edit", Src: string(src), SrcB64: w.SrcB64, Ops: w.Ops, Expected: res.expected, Observed: string(res.out), Detail: res.detail})
		}
	default:
		if _, ok := valid(src); !ok {
			c.Inconclusive("replay: the source of the witness is not a valid file")
			return
		}
		for _, f := range checkSource(src, nil, nil, nil) {
			c.Violation(f.sig, f.what, witness{Kind: "source", Src: string(src), SrcB64: base64.StdEncoding.EncodeToString(src), Expected: f.expected, Observed: f.observed})
		}
	}
}

// ---- seeds from the tree ----

type seed struct {
	name string
	src  []byte
}

func loadSeeds() []seed {
	repo := os.Getenv("VERIF_REPO")
	if repo == "" {
		repo = "/repo"
	}
	base := filepath.Join(repo, "teamserver", "pkg", "profile", "yaotl")
	var paths []string
	for _, pat := range []string{
		filepath.Join(base, "hclwrite", "fuzz", "config", "corpus", "*"),
		filepath.Join(base, "hclsyntax", "fuzz", "config", "corpus", "*"),
		filepath.Join(repo, "profiles", "*.yaotl"),
	} {
		m, _ := filepath.Glob(pat)
		paths = append(paths, m...)
	}
	filepath.Walk(filepath.Join(base, "specsuite", "tests"), func(p string, info os.FileInfo, err error) error {
		if err == nil && !info.IsDir() && strings.HasSuffix(p, ".hcl") {
			paths = append(paths, p)
		}
		return nil
	})
	if root := os.Getenv("VERIF_ROOT"); root != "" {
		m, _ := filepath.Glob(filepath.Join(root, "corpus", "c20", "*"))
		paths = append(paths, m...)
	}
	sort.Strings(paths)
	var out []seed
	for _, p := range paths {
		b, err := os.ReadFile(p)
		if err != nil || len(b) > 1<<16 {
			continue
		}
		rel := strings.TrimPrefix(p, repo+"/")
		out = append(out, seed{name: rel, src: b})
	}
	return out
}

// variants of a seed text: the same tokens with other blanks / line ends.
func seedVariants(s seed) []seed {
	out := []seed{s}
	toks, ok, _ := lexAll(s.src)
	if !ok {
		return out
	}
	var tabs, tight []byte
	for _, t := range toks {
		if blankOnly(t.gap) {
			tabs = append(tabs, bytes.ReplaceAll(t.gap, []byte(" "), []byte("\t"))...)
			if len(t.gap) > 0 {
				tight = append(tight, ' ', ' ', ' ')
			}
		} else {
			tabs = append(tabs, t.gap...)
			tight = append(tight, t.gap...)
		}
		tabs = append(tabs, t.bytes...)
		tight = append(tight, t.bytes...)
	}
	out = append(out, seed{s.name + "#tabs", tabs}, seed{s.name + "#wide", tight})
	if !bytes.Contains(s.src, []byte("\r\n")) {
		out = append(out, seed{s.name + "#crlf", bytes.ReplaceAll(s.src, []byte("\n"), []byte("\r\n"))})
	}
	if bytes.HasSuffix(s.src, []byte("\n")) {
		out = append(out, seed{s.name + "#nofinalnl", bytes.TrimSuffix(bytes.TrimSuffix(s.src, []byte("\n")), []byte("\r"))})
	}
	return out
}

func genSource(r *rand.Rand, forEdits, clean bool) (*gen, []byte) {
	g := newGen(r)
	o := genOpts{maxDepth: 2, topItems: 7}
	if forEdits {
		g.noHeaderTrivia = true
		o.topItems = 6
		o.noFinalNL = !clean && r.Intn(3) == 0
	} else {
		o.bom = r.Intn(150) == 0
		o.noFinalNL = r.Intn(8) == 0
	}
	g.file(o)
	return g, []byte(g.source())
}

func run(c *lib.Ctx) {
	c.Rule("generated configuration texts (attributes with every expression kind, blocks with 0-2 labels, nested/one-line/empty blocks, #, // and /* */ comments in lead/line/standalone/EOF/in-expression positions, heredocs, templates, odd blanks, tabs, CRLF, missing final newline, UTF-8) plus the in-tree corpora and their blank/line-end variants; only texts the native parser accepts count. Edit cases: such a text plus a random sequence of <= 8 write-API operations. Distinct non-trivial = distinct texts with at least one attribute and one of {block, comment, heredoc, template}; for edit cases distinct (text, non-empty sequence) pairs")
	c.Assume(
		"the native scanner's token boundaries define what 'between tokens' means for seed texts (for generated texts the generator's own piece list is used and must agree with the scanner); its positions are checked to tile the source",
		"the native parser (hclsyntax) and evaluator are the reference for 'parses to' and 'evaluates to'; they are C14/C17/C18's subject, not this check's",
		"comments attached to a removed item (its lead and line comments, comments inside a removed block or replaced expression) may disappear or stay; every other comment must stay, in order, and attached comments of surviving items must stay attached",
		"File.Bytes() == Format(src) is counted, not demanded",
	)
	r := &runner{c: c, sigCnt: map[string]int{}}
	if c.Replay != nil {
		if !replayEncode(c, c.Replay) {
			r.replay(c.Replay)
		}
		return
	}
	encodePart(c, c.N(4000, 200000))

	// seeds: every variant once, spread over the shards; each also gets edit sequences
	seeds := loadSeeds()
	if c.Shard == 0 {
		c.Observe("seed_files_read", int64(len(seeds)))
	}
	k := 0
	for _, s := range seeds {
		for _, v := range seedVariants(s) {
			if c.Mine(k) {
				r.sourceCase("seed:"+v.name, v.src, nil, nil)
				if _, ok := valid(v.src); ok {
					c.Observe("seed_variants_valid", 1)
					for j := 0; j < 2; j++ {
						ops := genOps(c.Rng, v.src, 1+c.Rng.Intn(8), j == 0)
						r.editCase("seed:"+v.name, v.src, ops)
					}
				}
			}
			k++
		}
	}
	c.Checkpoint()

	nFiles := c.N(quickFiles, thoroughFiles)
	for i := 0; i < nFiles; i++ {
		g, src := genSource(c.Rng, false, false)
		r.sourceCase("gen", src, []byte(g.expectedTokenRoundTrip()), g.verb)
		if i%5000 == 4999 {
			c.Checkpoint()
		}
	}
	c.Checkpoint()

	nEdits := c.N(quickEdits, thoroughEdits)
	done := 0
	for tries := 0; done < nEdits && tries < nEdits*4; tries++ {
		clean := c.Rng.Intn(100) < 88
		_, src := genSource(c.Rng, true, clean)
		if _, ok := valid(src); !ok {
			c.Observe("invalid_filtered", 1)
			continue
		}
		n := c.Rng.Intn(9)
		ops := genOps(c.Rng, src, n, clean)
		if clean {
			c.Observe("edit_cases_clean", 1)
		} else {
			c.Observe("edit_cases_hostile", 1)
		}
		r.editCase("gen", src, ops)
		done++
		if done%1000 == 999 {
			c.Checkpoint()
		}
	}
}
