package c10

import (
	"encoding/json"
	"fmt"
	"sort"
	"strings"
	"time"
)

// ---------------------------------------------------------------------------------------
// The model: what the teamserver has recorded after a prefix of the history, written from
// the wire formats (Demon.c metadata layout, operator Listener/Add package, profile
// Listeners block) and the statement of C10 — not from pkg/db or the restore code.
//
// Views (B's dump, live snapshots of A) are brought to the same canonical form:
//   session  : id, active, reason, key, iv, fields (strings), parent, links
//   listener : name, protocol, flattened config (strings; lists as JSON arrays)
// ---------------------------------------------------------------------------------------

var sessFields = []string{"Hostname", "Username", "DomainName", "ExternalIP", "InternalIP", "ProcessName",
	"BaseAddress", "ProcessPID", "ProcessTID", "ProcessPPID", "ProcessArch", "Elevated", "OSVersion", "OSArch",
	"SleepDelay", "SleepJitter", "KillDate", "WorkingHours"}

type MAgent struct {
	ID     string
	Num    uint32
	Key    string
	IV     string
	Active bool
	Reason string
	F      map[string]string
}

type MListener struct {
	Name  string
	Proto string            // Http | Smb | External
	Cfg   map[string]string // flattened expected configuration
}

// Sem are the two facts about in-memory behaviour that the oracle does not want to assume;
// they are probed on the dry run of each history (live state of child A).
type Sem struct {
	CheckinAdoptsKey bool // COMMAND_CHECKIN replaces the session key/iv by the ones in its body
}

func defaultSem() Sem { return Sem{CheckinAdoptsKey: true} }

type State struct {
	h      *History
	sem    Sem
	Agents map[string]*MAgent
	Links  map[string]bool // "parent>child"
	Lst    map[string]*MListener
	ports  []int
}

func newState(h *History, sem Sem) *State {
	return &State{h: h, sem: sem, Agents: map[string]*MAgent{}, Links: map[string]bool{}, Lst: map[string]*MListener{}}
}

func (s *State) clone() *State {
	n := newState(s.h, s.sem)
	n.ports = s.ports
	for k, a := range s.Agents {
		c := *a
		c.F = map[string]string{}
		for f, v := range a.F {
			c.F[f] = v
		}
		n.Agents[k] = &c
	}
	for k := range s.Links {
		n.Links[k] = true
	}
	for k, l := range s.Lst {
		c := *l
		c.Cfg = map[string]string{}
		for f, v := range l.Cfg {
			c.Cfg[f] = v
		}
		n.Lst[k] = &c
	}
	return n
}

func (s *State) parentOf(child string) string {
	var ps []string
	for k := range s.Links {
		p, c, _ := strings.Cut(k, ">")
		if c == child {
			ps = append(ps, p)
		}
	}
	sort.Strings(ps)
	if len(ps) == 0 {
		return ""
	}
	return ps[0]
}

func (s *State) kidsOf(parent string) []string {
	var ks []string
	for k := range s.Links {
		p, c, _ := strings.Cut(k, ">")
		if p == parent {
			ks = append(ks, c)
		}
	}
	sort.Strings(ks)
	return ks
}

// ---- metadata as the teamserver records it (Demon.c DemonMetaData -> session table) ----

func archStr(a uint32) string {
	switch a {
	case 1:
		return "x86"
	case 2:
		return "x64"
	case 3:
		return "IA64"
	}
	return "Unknown"
}

func osArchStr(a uint32) string {
	switch a {
	case 0:
		return "x86"
	case 9:
		return "x64/AMD64"
	case 5:
		return "ARM"
	case 12:
		return "ARM64"
	case 6:
		return "Itanium-based"
	}
	return fmt.Sprintf("Unknown (%d)", a)
}

// osVersionStr covers exactly the tuples of osTuples (hist.go).
func osVersionStr(o [5]uint32) string {
	v := "Unknown"
	switch {
	case o[0] == 10 && o[2] != 1 && o[4] == 20348:
		v = "Windows 2022 Server 22H2"
	case o[0] == 10 && o[2] == 1 && o[4] >= 22000:
		v = "Windows 11"
	case o[0] == 10 && o[2] == 1:
		v = "Windows 10"
	case o[0] == 6 && o[1] == 3 && o[2] != 1:
		v = "Windows Server 2012 R2"
	case o[0] == 6 && o[1] == 1 && o[2] == 1:
		v = "Windows 7"
	}
	if o[3] != 0 {
		v += fmt.Sprintf(" Service Pack %d", o[3])
	}
	return v
}

func metaFields(m *MetaSpec, f map[string]string) {
	f["Hostname"] = m.Hostname
	f["Username"] = m.Username
	f["DomainName"] = m.Domain
	f["InternalIP"] = m.InternalIP
	p := strings.Split(m.ProcessPath, "\\")
	f["ProcessName"] = p[len(p)-1]
	f["BaseAddress"] = fmt.Sprint(m.BaseAddr)
	f["ProcessPID"] = fmt.Sprint(m.PID)
	f["ProcessTID"] = fmt.Sprint(m.TID)
	f["ProcessPPID"] = fmt.Sprint(m.PPID)
	f["ProcessArch"] = archStr(m.Arch)
	f["Elevated"] = "false"
	if m.Elevated == 1 {
		f["Elevated"] = "true"
	}
	f["OSVersion"] = osVersionStr(m.OS)
	f["OSArch"] = osArchStr(m.OSArch)
	f["SleepDelay"] = fmt.Sprint(m.Sleep)
	f["SleepJitter"] = fmt.Sprint(m.Jitter)
	f["KillDate"] = fmt.Sprint(int64(m.KillDate))
	f["WorkingHours"] = fmt.Sprint(int32(m.WorkingHours))
}

func (s *State) register(a *AgentSpec, externalIP string) {
	m := &MAgent{ID: a.Name(), Num: a.ID, Key: a.Key, IV: a.IV, Active: true, F: map[string]string{}}
	metaFields(&a.Meta, m.F)
	m.F["ExternalIP"] = externalIP
	s.Agents[m.ID] = m
}

// unlink is what the teamserver does to a link that goes away: the child is marked
// inactive with reason "Disconnected".
func (s *State) unlink(p, c string) {
	delete(s.Links, p+">"+c)
	if a := s.Agents[c]; a != nil {
		a.Active = false
		a.Reason = "Disconnected"
	}
}

func (s *State) died(id string) {
	a := s.Agents[id]
	if a == nil {
		return
	}
	a.Active = false
	for _, c := range s.kidsOf(id) {
		s.unlink(id, c)
	}
	for k := range s.Links {
		p, c, _ := strings.Cut(k, ">")
		if c == id {
			s.unlink(p, c)
		}
	}
}

// ---- listeners ----

func listJSON(l []string) string {
	if l == nil {
		l = []string{}
	}
	b, _ := json.Marshal(l)
	return string(b)
}

// splitWire is the operator wire format for list fields: ", "-joined, empty items dropped.
func splitWire(joined string) []string {
	var out []string
	for _, s := range strings.Split(joined, ", ") {
		if s != "" {
			out = append(out, s)
		}
	}
	return out
}

func httpDefaults(name string) map[string]string {
	return map[string]string{
		"Name": name, "KillDate": "0", "WorkingHours": "", "Hosts": "[]", "HostBind": "", "Methode": "", "HostRotation": "",
		"PortBind": "", "PortConn": "", "BehindRedir": "false", "UserAgent": "", "Headers": "[]", "Uris": "[]", "HostHeader": "",
		"Secure": "false", "Cert.Cert": "", "Cert.Key": "", "Proxy.Enabled": "false", "Proxy.Type": "", "Proxy.Host": "",
		"Proxy.Port": "", "Proxy.Username": "", "Proxy.Password": "", "Response.Headers": "[]",
	}
}

// fileTime: "2006-01-02 15:04:05" (UTC) as Windows FILETIME ticks, the unit the Demon uses.
func fileTime(s string) string {
	if s == "" {
		return "0"
	}
	t, err := time.Parse("2006-01-02 15:04:05", s)
	if err != nil {
		return "?"
	}
	return fmt.Sprint(t.Unix()*10000000 + 116444736000000000)
}

func (s *State) listenerCfg(l *LstSpec) *MListener {
	switch l.Kind {
	case "smb":
		c := map[string]string{"Name": l.Name, "PipeName": l.PipeName, "KillDate": "0", "WorkingHours": ""}
		if l.Profile {
			c["KillDate"] = fileTime(l.KillDate)
			c["WorkingHours"] = l.WorkingHours
		}
		return &MListener{Name: l.Name, Proto: "Smb", Cfg: c}
	case "ext":
		return &MListener{Name: l.Name, Proto: "External", Cfg: map[string]string{"Name": l.Name, "Endpoint": l.Endpoint}}
	}
	c := httpDefaults(l.Name)
	port := "?"
	if l.PortSlot < len(s.ports) {
		port = fmt.Sprint(s.ports[l.PortSlot])
	}
	c["HostBind"] = l.HostBind
	c["HostRotation"] = l.HostRotation
	c["PortBind"] = port
	c["UserAgent"] = l.UserAgent
	if l.Secure {
		c["Secure"] = "true"
	}
	if l.Profile {
		c["Hosts"] = listJSON(l.Hosts)
		c["Headers"] = listJSON(l.Headers)
		c["Uris"] = listJSON(l.Uris)
		c["KillDate"] = fileTime(l.KillDate)
		c["WorkingHours"] = l.WorkingHours
		c["Methode"] = l.Method
		c["PortConn"] = "0"
		if l.PortConn != "" {
			c["PortConn"] = l.PortConn
		}
		c["Response.Headers"] = listJSON(l.Response)
		return &MListener{Name: l.Name, Proto: "Http", Cfg: c}
	}
	// operator package: list fields travel ", "-joined
	c["Hosts"] = listJSON(splitWire(strings.Join(l.Hosts, ", ")))
	c["Headers"] = listJSON(splitWire(strings.Join(l.Headers, ", ")))
	c["Uris"] = listJSON(splitWire(strings.Join(l.Uris, ", ")))
	c["PortConn"] = l.PortConn
	c["HostHeader"] = l.HostHeader
	if l.Proxy.Enabled {
		c["Proxy.Enabled"] = "true"
		c["Proxy.Type"] = l.Proxy.Type
		c["Proxy.Host"] = l.Proxy.Host
		c["Proxy.Port"] = l.Proxy.Port
		c["Proxy.Username"] = l.Proxy.Username
		c["Proxy.Password"] = l.Proxy.Password
	}
	return &MListener{Name: l.Name, Proto: "Http", Cfg: c}
}

// boot: Start() brings up the profile listeners before any operation.
func (s *State) boot() {
	for i := range s.h.Lst {
		if s.h.Lst[i].Profile {
			l := s.listenerCfg(&s.h.Lst[i])
			s.Lst[l.Name] = l
		}
	}
}

// ---- transition function ----

func (s *State) apply(op Op) {
	h := s.h
	switch op.K {
	case "ladd":
		l := s.listenerCfg(&h.Lst[op.L])
		if s.Lst[l.Name] == nil {
			s.Lst[l.Name] = l
		}
	case "ldel":
		delete(s.Lst, h.Lst[op.L].Name)
	case "reg":
		a := &h.Agents[op.A]
		if s.Agents[a.Name()] == nil {
			s.register(a, "127.0.0.1")
		}
	case "sleep":
		if a := s.Agents[h.Agents[op.A].Name()]; a != nil {
			a.F["SleepDelay"] = fmt.Sprint(op.D)
			a.F["SleepJitter"] = fmt.Sprint(op.J)
		}
	case "cfgkd":
		if a := s.Agents[h.Agents[op.A].Name()]; a != nil {
			a.F["KillDate"] = fmt.Sprint(int64(op.KD))
		}
	case "cfgwh":
		if a := s.Agents[h.Agents[op.A].Name()]; a != nil {
			a.F["WorkingHours"] = fmt.Sprint(int32(op.WH))
		}
	case "checkin":
		if a := s.Agents[h.Agents[op.A].Name()]; a != nil {
			ext := a.F["ExternalIP"]
			metaFields(op.Meta, a.F)
			a.F["ExternalIP"] = ext
			a.Active = true
			if s.sem.CheckinAdoptsKey {
				a.Key, a.IV = op.Key, op.IV
			}
		}
	case "exit", "killdate", "markdead":
		s.died(h.Agents[op.A].Name())
	case "markalive":
		if a := s.Agents[h.Agents[op.A].Name()]; a != nil {
			a.Active = true
		}
	case "connect":
		p, c := h.Agents[op.A].Name(), &h.Agents[op.B]
		if s.Agents[p] == nil {
			return
		}
		if m := s.Agents[c.Name()]; m == nil {
			s.register(c, "")
		} else {
			// the child moves: whatever parent it had no longer lists it
			for k := range s.Links {
				_, kc, _ := strings.Cut(k, ">")
				if kc == c.Name() {
					delete(s.Links, k)
				}
			}
			m.Active = true
			m.Reason = ""
		}
		s.Links[p+">"+c.Name()] = true
	case "disconnect":
		p, c := h.Agents[op.A].Name(), h.Agents[op.B].Name()
		if s.Agents[c] != nil && s.Links[p+">"+c] {
			s.unlink(p, c)
		}
	}
}

// statesFor returns the model state after boot and after each operation: st[i] = state
// after i operations.
func statesFor(h *History, sem Sem, ports []int) []*State {
	s := newState(h, sem)
	s.ports = ports
	s.boot()
	out := []*State{s.clone()}
	for _, op := range h.Ops {
		s.apply(op)
		out = append(out, s.clone())
	}
	return out
}
