package c10

import (
	"bytes"
	"encoding/binary"
	"encoding/hex"
	"encoding/json"
	"fmt"
	"io"
	"net/http"
	"os"
	"strconv"
	"strings"
	"sync/atomic"
	"syscall"
	"time"

	"Havoc/cmd/server"
	"Havoc/pkg/handlers"
	"Havoc/pkg/verifhook"

	"verifh/demon"
	"verifh/opclient"
	"verifh/rig"
)

// RunCfg is what the parent hands to a child process (file named by VERIF_C10_RUN).
type RunCfg struct {
	Hist        *History
	Ports       []int
	Dir         string // teamserver working directory (fresh for A, reused by B)
	Out         string // A: ack/live log; B: dump file
	StopAfter   int    // A: SIGKILL self right after the ack of this op (-1: right after boot, -2: never)
	NOps        int    // A: execute only the first NOps operations
	KeepProfile bool   // B: restart with the Listeners block still in the profile
}

var dbPoints = []string{"db.AgentAdd.exec", "db.AgentUpdate.exec", "db.AgentHasDied.exec", "db.AgentRemove.exec",
	"db.LinkAdd.exec", "db.LinkRemove.exec", "db.ListenerAdd.exec", "db.ListenerRemove.exec"}

func loadRun() *RunCfg {
	b, err := os.ReadFile(os.Getenv("VERIF_C10_RUN"))
	if err != nil {
		fmt.Fprintln(os.Stderr, "c10 child: cannot read run config:", err)
		os.Exit(9)
	}
	var rc RunCfg
	if err := json.Unmarshal(b, &rc); err != nil {
		fmt.Fprintln(os.Stderr, "c10 child: bad run config:", err)
		os.Exit(9)
	}
	return &rc
}

type logFile struct{ f *os.File }

// line appends one record with a single write(2): it is in the page cache when the call
// returns, so it survives the SIGKILL of this process.
func (l *logFile) line(kind string, v any) {
	b, _ := json.Marshal(v)
	l.f.Write([]byte(kind + " " + string(b) + "\n"))
}

type actor struct {
	rc    *RunCfg
	h     *History
	r     *rig.Rig
	op    *opclient.Client
	hc    *http.Client
	nTok  int
	route map[int]int // child agent index -> parent agent index (harness routing only)
	keys  map[int][2]string
}

func childA() {
	rc := loadRun()
	out, err := os.OpenFile(rc.Out, os.O_CREATE|os.O_WRONLY|os.O_APPEND, 0o644)
	if err != nil {
		os.Exit(9)
	}
	lg := &logFile{out}
	var slow atomic.Bool
	if os.Getenv("VERIF_HOOKS") == "" {
		// "slow disk" for the operation that precedes a kill-after-ack: every DB statement of
		// that operation is delayed at its existing suspension point, so a reply that does not
		// wait for its statement is acknowledged before the statement ran.
		for _, p := range dbPoints {
			verifhook.Set(p, func() {
				if slow.Load() {
					time.Sleep(25 * time.Millisecond)
				}
			})
		}
	}
	r, err := rig.New(rig.Options{Full: true, Dir: rc.Dir, ExtraProfile: rc.Hist.profileText(rc.Ports)})
	if err != nil {
		lg.line("fail", map[string]any{"op": -1, "err": "rig: " + err.Error()})
		os.Exit(3)
	}
	a := &actor{rc: rc, h: rc.Hist, r: r, route: map[int]int{}, keys: map[int][2]string{}}
	a.hc = &http.Client{Timeout: 30 * time.Second}
	a.op, err = opclient.Connect(fmt.Sprintf("127.0.0.1:%d", r.Port), "alice", "pw-alice")
	if err != nil {
		lg.line("fail", map[string]any{"op": -1, "err": "infra: operator: " + err.Error()})
		os.Exit(3)
	}
	if err := a.barrier(); err != nil {
		lg.line("fail", map[string]any{"op": -1, "err": err.Error()})
		os.Exit(3)
	}
	if !ownOperator(r, a.op) {
		lg.line("fail", map[string]any{"op": -1, "err": "infra: the operator connection reached a foreign teamserver (port collision)"})
		os.Exit(3)
	}
	lg.line("boot", map[string]any{"hits": verifhook.AllHits(), "syscw": syscw()})
	lg.line("live", map[string]any{"i": -1, "s": liveView(r.TS)})
	if rc.StopAfter == -1 {
		syscall.Kill(os.Getpid(), syscall.SIGKILL)
		select {}
	}
	n := len(rc.Hist.Ops)
	if rc.NOps > 0 && rc.NOps < n {
		n = rc.NOps
	}
	for i := 0; i < n; i++ {
		if i == rc.StopAfter {
			slow.Store(true)
		}
		if err := a.exec(rc.Hist.Ops[i]); err != nil {
			lg.line("fail", map[string]any{"op": i, "err": err.Error()})
			os.Exit(4)
		}
		lg.line("ack", map[string]any{"i": i, "hits": verifhook.AllHits()})
		if i == rc.StopAfter {
			syscall.Kill(os.Getpid(), syscall.SIGKILL)
			select {}
		}
		lg.line("live", map[string]any{"i": i, "s": liveView(r.TS)})
	}
	lg.line("done", map[string]any{"hits": verifhook.AllHits(), "syscw": syscw()})
	os.Exit(0)
}

// ownOperator: the websocket really ends in this process' teamserver (FreePort of the rig
// is a check-then-bind; on a crowded machine another process can take the port).
func ownOperator(r *rig.Rig, op *opclient.Client) bool {
	local := op.Conn.LocalAddr().String()
	found := false
	r.TS.Clients.Range(func(k, v any) bool {
		if cl, ok := v.(*server.Client); ok && cl.GlobalIP == local {
			found = true
			return false
		}
		return true
	})
	return found
}

// syscw: number of write-family system calls of this process so far (/proc/self/io).
func syscw() int64 {
	b, err := os.ReadFile("/proc/self/io")
	if err != nil {
		return -1
	}
	for _, ln := range strings.Split(string(b), "\n") {
		if v, ok := strings.CutPrefix(ln, "syscw: "); ok {
			n, _ := strconv.ParseInt(strings.TrimSpace(v), 10, 64)
			return n
		}
	}
	return -1
}

// barrier: a chat message travels the same connection and is dispatched by the same
// goroutine, in order, as every operator package before it; its echo therefore means that
// those packages have been processed completely.
func (a *actor) barrier() error {
	a.nTok++
	tok := fmt.Sprintf("c10-barrier-%d-%d", os.Getpid(), a.nTok)
	if err := a.op.Chat(tok); err != nil {
		return fmt.Errorf("barrier send: %v", err)
	}
	_, ok := a.op.WaitFor(func(f opclient.Frame) bool {
		return f.Head.Event == opclient.EvChat && f.Body.SubEvent == opclient.ChatNewMessage && f.InfoStr("Message") == tok
	}, 60*time.Second)
	if !ok {
		return fmt.Errorf("barrier: no echo (closed=%v)", a.op.Closed())
	}
	return nil
}

func (a *actor) waitAfter(from int, pred func(opclient.Frame) bool, d time.Duration) bool {
	_, ok := a.op.WaitFor(func(f opclient.Frame) bool { return f.Seq >= from && pred(f) }, d)
	return ok
}

func (a *actor) baseURL() (string, http.Header) {
	b := &a.h.Lst[0]
	uri := "/"
	if len(b.Uris) > 0 {
		uri = b.Uris[0]
	}
	hd := http.Header{}
	for _, h := range b.Headers {
		nv := strings.SplitN(h, ": ", 2)
		if len(nv) == 2 {
			hd.Set(nv[0], nv[1])
		}
	}
	if b.UserAgent != "" {
		hd.Set("User-Agent", b.UserAgent)
	}
	return fmt.Sprintf("http://127.0.0.1:%d%s", a.rc.Ports[b.PortSlot], uri), hd
}

// post sends one Demon package to the base listener; the HTTP 200 answer is the
// acknowledgement.
func (a *actor) post(pkg []byte) ([]byte, error) {
	u, hd := a.baseURL()
	req, err := http.NewRequest(http.MethodPost, u, bytes.NewReader(pkg))
	if err != nil {
		return nil, err
	}
	for k, v := range hd {
		req.Header[k] = v
	}
	resp, err := a.hc.Do(req)
	if err != nil {
		return nil, err
	}
	defer resp.Body.Close()
	body, _ := io.ReadAll(resp.Body)
	if resp.StatusCode != 200 {
		return body, fmt.Errorf("listener answered %d", resp.StatusCode)
	}
	return body, nil
}

func (a *actor) curKey(i int) ([]byte, []byte) {
	if k, ok := a.keys[i]; ok {
		kb, _ := hex.DecodeString(k[0])
		ib, _ := hex.DecodeString(k[1])
		return kb, ib
	}
	return a.h.Agents[i].key(), a.h.Agents[i].iv()
}

// send delivers callbacks of agent i: directly, or wrapped by its SMB parent.
func (a *actor) send(i, via int, cbs ...demon.Callback) error {
	ag := &a.h.Agents[i]
	k, iv := a.curKey(i)
	pkg := demon.Checkin(ag.ID, k, iv, cbs...)
	if via >= 0 {
		p := &a.h.Agents[via]
		pk, piv := a.curKey(via)
		pkg = demon.Checkin(p.ID, pk, piv, demon.PivotWrap(pkg))
	}
	_, err := a.post(pkg)
	return err
}

// carrier issues the operator task whose request id makes the following callback an
// answer to an outstanding task.
func (a *actor) carrier(i int, req uint32) error {
	id := a.h.Agents[i].Name()
	if err := a.op.Task(id, "11", fmt.Sprintf("%08x", req), "sleep 1 1", map[string]any{"Arguments": "1;1"}); err != nil {
		return err
	}
	return a.barrier()
}

func (a *actor) lstInfo(l *LstSpec) map[string]any {
	switch l.Kind {
	case "smb":
		return map[string]any{"Protocol": "Smb", "Name": l.Name, "PipeName": l.PipeName}
	case "ext":
		return map[string]any{"Protocol": "External", "Name": l.Name, "Endpoint": l.Endpoint}
	}
	info := map[string]any{
		"Protocol": "Http", "Name": l.Name, "Hosts": strings.Join(l.Hosts, ", "), "Headers": strings.Join(l.Headers, ", "),
		"Uris": strings.Join(l.Uris, ", "), "HostBind": l.HostBind, "HostRotation": l.HostRotation,
		"PortBind": fmt.Sprint(a.rc.Ports[l.PortSlot]), "PortConn": l.PortConn, "HostHeader": l.HostHeader, "UserAgent": l.UserAgent,
		"Secure": "false", "Proxy Enabled": "false",
	}
	if l.Secure {
		info["Protocol"] = "Https"
		info["Secure"] = "true"
	}
	if l.Proxy.Enabled {
		info["Proxy Enabled"] = "true"
		info["Proxy Type"] = l.Proxy.Type
		info["Proxy Host"] = l.Proxy.Host
		info["Proxy Port"] = l.Proxy.Port
		info["Proxy Username"] = l.Proxy.Username
		info["Proxy Password"] = l.Proxy.Password
	}
	return info
}

func (a *actor) exec(op Op) error {
	h := a.h
	switch op.K {
	case "ladd":
		l := &h.Lst[op.L]
		from := a.op.Count()
		if err := a.op.Send(opclient.EvListener, opclient.ListenerAdd, a.lstInfo(l)); err != nil {
			return err
		}
		var bad string
		ok := a.waitAfter(from, func(f opclient.Frame) bool {
			if f.Head.Event != opclient.EvListener || f.InfoStr("Name") != l.Name {
				return false
			}
			if f.Body.SubEvent == opclient.ListenerError {
				bad = f.InfoStr("Error")
				return true
			}
			return f.Body.SubEvent == opclient.ListenerAdd
		}, 60*time.Second)
		if !ok || bad != "" {
			return fmt.Errorf("listener add %q: no echo / error %q", l.Name, bad)
		}
		if err := a.barrier(); err != nil {
			return err
		}
		if l.Kind == "http" {
			// HTTP.Start() hands the socket to a goroutine; an operator does not remove a
			// listener microseconds after adding it, so wait until it serves (C16 owns the
			// add/remove race on HTTP.Server)
			up := rig.WaitTCP(fmt.Sprintf("127.0.0.1:%d", a.rc.Ports[l.PortSlot]), 10*time.Second)
			if op.L == 0 {
				if !up {
					return fmt.Errorf("infra: base listener port %d not reachable", a.rc.Ports[l.PortSlot])
				}
				// the port must be served by this process' listener, not by somebody else's
				for _, tl := range a.r.TS.Listeners {
					if hl, ok := tl.Config.(*handlers.HTTP); ok && tl.Name == l.Name && !hl.Active {
						return fmt.Errorf("infra: base listener could not bind port %d", a.rc.Ports[l.PortSlot])
					}
				}
			}
		}
		return nil
	case "ldel":
		l := &h.Lst[op.L]
		from := a.op.Count()
		if err := a.op.ListenerRemove(l.Name); err != nil {
			return err
		}
		if !a.waitAfter(from, func(f opclient.Frame) bool {
			return f.Head.Event == opclient.EvListener && f.Body.SubEvent == opclient.ListenerRemove && f.InfoStr("Name") == l.Name
		}, 60*time.Second) {
			return fmt.Errorf("listener remove %q: no echo", l.Name)
		}
		return a.barrier()
	case "reg":
		ag := &h.Agents[op.A]
		m := toDemonMeta(ag.ID, &ag.Meta)
		body, err := a.post(demon.Register(ag.ID, ag.key(), ag.iv(), m))
		if err != nil {
			return err
		}
		var want [4]byte
		binary.LittleEndian.PutUint32(want[:], ag.ID)
		if !bytes.Equal(body, want[:]) && !bytes.Equal(demon.CTR(ag.key(), ag.iv(), body), want[:]) {
			return fmt.Errorf("registration reply %x is not the agent id", body)
		}
		if a.r.TS.AgentInstance(int(ag.ID)) == nil {
			return fmt.Errorf("infra: registration of %s was answered by a foreign listener", ag.Name())
		}
		return nil
	case "sleep":
		if err := a.carrier(op.A, op.Req); err != nil {
			return err
		}
		var p demon.Pkg
		p.I32(op.D).I32(op.J)
		return a.send(op.A, op.Via, demon.Callback{Cmd: 11, ReqID: op.Req, Body: p.B})
	case "cfgkd":
		if err := a.carrier(op.A, op.Req); err != nil {
			return err
		}
		var p demon.Pkg
		p.I32(154).I64(op.KD)
		return a.send(op.A, op.Via, demon.Callback{Cmd: 2500, ReqID: op.Req, Body: p.B})
	case "cfgwh":
		if err := a.carrier(op.A, op.Req); err != nil {
			return err
		}
		var p demon.Pkg
		p.I32(155).I32(op.WH)
		return a.send(op.A, op.Via, demon.Callback{Cmd: 2500, ReqID: op.Req, Body: p.B})
	case "checkin":
		if err := a.carrier(op.A, op.Req); err != nil {
			return err
		}
		ag := &h.Agents[op.A]
		k, _ := hex.DecodeString(op.Key)
		iv, _ := hex.DecodeString(op.IV)
		var p demon.Pkg
		p.Pad(k).Pad(iv).Pad(toDemonMeta(ag.ID, op.Meta).MetaBody())
		if err := a.send(op.A, op.Via, demon.Callback{Cmd: demon.CmdCheckin, ReqID: op.Req, Body: p.B}); err != nil {
			return err
		}
		// harness routing: later packages must be encrypted with whatever key the session holds now
		if la := a.r.TS.AgentInstance(int(ag.ID)); la != nil {
			a.keys[op.A] = [2]string{hex.EncodeToString(la.Encryption.AESKey), hex.EncodeToString(la.Encryption.AESIv)}
		}
		return nil
	case "exit":
		if err := a.carrier(op.A, op.Req); err != nil {
			return err
		}
		var p demon.Pkg
		p.I32(1)
		return a.send(op.A, op.Via, demon.Callback{Cmd: 92, ReqID: op.Req, Body: p.B})
	case "killdate":
		if err := a.carrier(op.A, op.Req); err != nil {
			return err
		}
		return a.send(op.A, op.Via, demon.Callback{Cmd: 93, ReqID: op.Req})
	case "markdead", "markalive":
		id := h.Agents[op.A].Name()
		from := a.op.Count()
		mark := "Dead"
		if op.K == "markalive" {
			mark = "Alive"
		}
		if err := a.op.Mark(id, mark); err != nil {
			return err
		}
		if mark == "Dead" && !a.waitAfter(from, func(f opclient.Frame) bool {
			return f.Head.Event == opclient.EvSession && f.Body.SubEvent == opclient.SessMark && f.InfoStr("AgentID") == id
		}, 60*time.Second) {
			return fmt.Errorf("mark dead %s: no echo", id)
		}
		return a.barrier()
	case "connect":
		c := &h.Agents[op.B]
		ck, civ := a.curKey(op.B)
		child := demon.Register(c.ID, ck, civ, toDemonMeta(c.ID, &c.Meta))
		return a.send(op.A, -1, demon.SmbConnect(0, child))
	case "disconnect":
		var p demon.Pkg
		p.I32(11).I32(1).I32(h.Agents[op.B].ID)
		return a.send(op.A, -1, demon.Callback{Cmd: demon.CmdPivot, ReqID: 0, Body: p.B})
	}
	return fmt.Errorf("unknown op %q", op.K)
}

func toDemonMeta(id uint32, m *MetaSpec) *demon.Meta {
	return &demon.Meta{AgentID: id, Hostname: m.Hostname, Username: m.Username, Domain: m.Domain, InternalIP: m.InternalIP,
		ProcessPath: m.ProcessPath, PID: m.PID, TID: m.TID, PPID: m.PPID, Arch: m.Arch, Elevated: m.Elevated, BaseAddr: m.BaseAddr,
		OS: m.OS, OSArch: m.OSArch, Sleep: m.Sleep, Jitter: m.Jitter, KillDate: m.KillDate, WorkingHours: m.WorkingHours}
}

// ---------------------------------------------------------------------------------------
// views of a running teamserver (used by A for the live cross-check and by B for the dump)
// ---------------------------------------------------------------------------------------

type SessView struct {
	ID     string
	Active bool
	Reason string
	Key    string
	IV     string
	F      map[string]string
	Parent string
	Links  []string
	First  string
}

type LstView struct {
	Name  string
	Proto string
	Cfg   map[string]string
}

type TSView struct {
	Sess []SessView
	Lst  []LstView
}

func liveView(ts *server.Teamserver) TSView {
	var v TSView
	for _, a := range ts.Agents.Agents {
		s := SessView{ID: a.NameID, Active: a.Active, Reason: a.Reason,
			Key: hex.EncodeToString(a.Encryption.AESKey), IV: hex.EncodeToString(a.Encryption.AESIv), F: map[string]string{}}
		if i := a.Info; i != nil {
			s.F["Hostname"] = i.Hostname
			s.F["Username"] = i.Username
			s.F["DomainName"] = i.DomainName
			s.F["ExternalIP"] = i.ExternalIP
			s.F["InternalIP"] = i.InternalIP
			s.F["ProcessName"] = i.ProcessName
			s.F["BaseAddress"] = fmt.Sprint(i.BaseAddress)
			s.F["ProcessPID"] = fmt.Sprint(i.ProcessPID)
			s.F["ProcessTID"] = fmt.Sprint(i.ProcessTID)
			s.F["ProcessPPID"] = fmt.Sprint(i.ProcessPPID)
			s.F["ProcessArch"] = i.ProcessArch
			s.F["Elevated"] = i.Elevated
			s.F["OSVersion"] = i.OSVersion
			s.F["OSArch"] = i.OSArch
			s.F["SleepDelay"] = fmt.Sprint(i.SleepDelay)
			s.F["SleepJitter"] = fmt.Sprint(i.SleepJitter)
			s.F["KillDate"] = fmt.Sprint(i.KillDate)
			s.F["WorkingHours"] = fmt.Sprint(i.WorkingHours)
			s.First = i.FirstCallIn
		}
		if a.Pivots.Parent != nil {
			s.Parent = a.Pivots.Parent.NameID
		}
		for _, l := range a.Pivots.Links {
			if l == nil {
				s.Links = append(s.Links, "<nil>")
			} else {
				s.Links = append(s.Links, l.NameID)
			}
		}
		v.Sess = append(v.Sess, s)
	}
	for _, l := range ts.Listeners {
		lv := LstView{Name: l.Name, Cfg: map[string]string{}}
		var cfg any
		switch c := l.Config.(type) {
		case *handlers.HTTP:
			lv.Proto, cfg = "Http", c.Config
		case *handlers.SMB:
			lv.Proto, cfg = "Smb", c.Config
		case *handlers.External:
			lv.Proto, cfg = "External", c.Config
		default:
			lv.Proto = fmt.Sprintf("%T", l.Config)
		}
		if cfg != nil {
			b, _ := json.Marshal(cfg)
			flatten("", decodeNum(b), lv.Cfg)
		}
		v.Lst = append(v.Lst, lv)
	}
	return v
}

func decodeNum(b []byte) any {
	d := json.NewDecoder(bytes.NewReader(b))
	d.UseNumber()
	var v any
	d.Decode(&v)
	return v
}

// flatten renders a decoded JSON object as dotted keys -> canonical strings; lists of
// strings stay JSON arrays (null list = []).
func flatten(prefix string, v any, out map[string]string) {
	switch t := v.(type) {
	case map[string]any:
		for k, x := range t {
			p := k
			if prefix != "" {
				p = prefix + "." + k
			}
			flatten(p, x, out)
		}
	case nil:
		out[prefix] = "[]"
	case []any:
		b, _ := json.Marshal(t)
		out[prefix] = string(b)
	case string:
		out[prefix] = t
	case json.Number:
		out[prefix] = t.String()
	case bool:
		out[prefix] = strconv.FormatBool(t)
	default:
		out[prefix] = fmt.Sprint(t)
	}
}
