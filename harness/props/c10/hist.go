package c10

import (
	"encoding/hex"
	"fmt"
	"math/rand"
	"strings"
)

// ---------------------------------------------------------------------------------------
// History: everything child A needs to drive the real teamserver, and everything the parent
// needs to compute the model state after each acknowledged operation.
// ---------------------------------------------------------------------------------------

type MetaSpec struct {
	Hostname     string
	Username     string
	Domain       string
	InternalIP   string
	ProcessPath  string
	PID, TID     uint32
	PPID         uint32
	Arch         uint32
	Elevated     uint32
	BaseAddr     uint64
	OS           [5]uint32
	OSArch       uint32
	Sleep        uint32
	Jitter       uint32
	KillDate     uint64
	WorkingHours uint32
}

type AgentSpec struct {
	ID   uint32
	Key  string // hex, 32 bytes
	IV   string // hex, 16 bytes
	Smb  bool   // registers through a parent's SMB pivot, never directly
	Meta MetaSpec
}

func (a *AgentSpec) Name() string { return fmt.Sprintf("%08x", a.ID) }
func (a *AgentSpec) key() []byte  { b, _ := hex.DecodeString(a.Key); return b }
func (a *AgentSpec) iv() []byte   { b, _ := hex.DecodeString(a.IV); return b }

type ProxySpec struct {
	Enabled  bool
	Type     string
	Host     string
	Port     string
	Username string
	Password string
}

// LstSpec describes one listener. Profile listeners are written into the Listeners block of
// the profile of child A (started by Start() itself); the others are added by the operator
// over the websocket.
type LstSpec struct {
	Kind    string // http | smb | ext
	Name    string
	Profile bool

	// http
	Hosts        []string
	HostBind     string
	HostRotation string
	PortSlot     int    // index into the run's port table (PortBind)
	PortConn     string // operator: any string; profile: decimal or ""
	Headers      []string
	Uris         []string
	HostHeader   string
	UserAgent    string
	Secure       bool
	Proxy        ProxySpec // operator only
	Response     []string  // profile only
	KillDate     string    // profile only, "2006-01-02 15:04:05" or ""
	WorkingHours string    // profile only
	Method       string    // profile only

	// smb
	PipeName string
	// external
	Endpoint string
}

type Op struct {
	K    string    // ladd ldel reg sleep checkin cfgkd cfgwh exit killdate markdead markalive connect disconnect
	A    int       // agent index (for connect/disconnect: the parent)
	B    int       // connect/disconnect: the child
	L    int       // listener index
	Via  int       // agent index of the SMB parent that carries A's traffic, -1 = direct
	D, J uint32    // sleep
	KD   uint64    // cfgkd
	WH   uint32    // cfgwh
	Meta *MetaSpec // checkin
	Key  string    // checkin: key/iv carried in the CHECKIN body (may differ from the session key)
	IV   string
	Req  uint32 // request id of the carrier task
}

type History struct {
	Idx         int
	Agents      []AgentSpec
	Lst         []LstSpec
	Ops         []Op
	DropProfile bool // restart with a profile that no longer has the Listeners block
	ParentDeath bool // ends with the death of a direct agent that has one linked child
	LateParent  bool // ends with a pivot child taken over by a direct agent that registered after it
}

// ---------------------------------------------------------------------------------------
// generator
// ---------------------------------------------------------------------------------------

var hostilePool = []string{
	"12345", "007", "1e5", "0x10", " 42 ", "-0", "NaN", "1.50", "",
	"Ünïcødé-ホスト名", "пользователь", "99999999999999999999", "+5", ".5", "5.", "1_000", "0e0", "١٢٣",
	"00", "1E+2", "-1.0", " 7", "3 ", "1e999", "0.0", "123abc", "Infinity",
}

var plainHosts = []string{"WORKSTATION-7", "DC01", "fileserver", "LAPTOP-Q2X"}
var plainUsers = []string{"john.doe", "Administrator", "svc_backup", "SYSTEM"}
var plainDomains = []string{"CORP", "corp.example.com", "WORKGROUP"}
var plainIPs = []string{"10.0.0.5", "192.168.56.101", "172.16.3.44", "fe80::1"}
var plainProcs = []string{"C:\\Windows\\System32\\notepad.exe", "C:\\Users\\j\\AppData\\Local\\Temp\\x.exe", "C:\\Program Files\\App\\svc host.exe"}

var osTuples = [][5]uint32{
	{10, 0, 1, 0, 19045}, {10, 0, 1, 0, 22000}, {6, 1, 1, 1, 7601}, {6, 3, 2, 0, 9600}, {5, 1, 1, 0, 2600}, {10, 0, 3, 0, 20348},
}

func kib() string {
	var sb strings.Builder
	for sb.Len() < 1024 {
		sb.WriteString("kib-")
	}
	return sb.String()[:1024]
}

func pickStr(r *rand.Rand, plain []string, hostile int) string {
	// hostile: percentage of draws taken from the hostile pool
	if r.Intn(100) < hostile {
		if r.Intn(12) == 0 {
			return kib()
		}
		return hostilePool[r.Intn(len(hostilePool))]
	}
	return plain[r.Intn(len(plain))]
}

func genMeta(r *rand.Rand, hostile int) MetaSpec {
	m := MetaSpec{
		Hostname:   pickStr(r, plainHosts, hostile),
		Username:   pickStr(r, plainUsers, hostile),
		Domain:     pickStr(r, plainDomains, hostile),
		InternalIP: pickStr(r, plainIPs, hostile),
		PID:        uint32(r.Intn(60000) + 4), TID: uint32(r.Intn(60000) + 4), PPID: uint32(r.Intn(60000) + 4),
		Arch: uint32(r.Intn(4)), Elevated: uint32(r.Intn(2)),
		BaseAddr: uint64(r.Int63n(1 << 47)),
		OS:       osTuples[r.Intn(len(osTuples))],
		OSArch:   []uint32{0, 9, 5, 12, 6, 7}[r.Intn(6)],
		Sleep:    uint32(r.Intn(120)), Jitter: uint32(r.Intn(100)),
	}
	if r.Intn(100) < hostile {
		m.ProcessPath = "C:\\Windows\\Temp\\" + pickStr(r, []string{"a.exe"}, 100)
	} else {
		m.ProcessPath = plainProcs[r.Intn(len(plainProcs))]
	}
	if r.Intn(3) == 0 {
		m.KillDate = uint64(r.Int63n(1<<62) + 1)
	}
	if r.Intn(3) == 0 {
		m.WorkingHours = uint32(r.Intn(1 << 30))
	}
	return m
}

func randHex(r *rand.Rand, n int) string {
	b := make([]byte, n)
	r.Read(b)
	return hex.EncodeToString(b)
}

var idPool = []uint32{1, 0x80000001, 0xffffffff, 0x7fffffff, 0x80000000, 0x0000beef, 0x12345678, 0xdeadbeef}

func genAgents(r *rand.Rand, nDirect, nSmb, hostile int) []AgentSpec {
	used := map[uint32]bool{0: true}
	var out []AgentSpec
	for i := 0; i < nDirect+nSmb; i++ {
		var id uint32
		for {
			switch r.Intn(4) {
			case 0, 1:
				id = idPool[r.Intn(len(idPool))]
			case 2:
				id = uint32(r.Int31())
			default:
				id = uint32(r.Int31()) | 0x80000000
			}
			if !used[id] {
				break
			}
		}
		used[id] = true
		a := AgentSpec{ID: id, Key: randHex(r, 32), IV: randHex(r, 16), Smb: i >= nDirect, Meta: genMeta(r, hostile)}
		if r.Intn(8) == 0 {
			a.Key = strings.Repeat("00", 32)
		}
		if r.Intn(8) == 0 {
			a.IV = strings.Repeat("00", 16)
		}
		out = append(out, a)
	}
	return out
}

var hdrPool = []string{
	"X-Req: a:b:c", "Accept: text/html,application/xml;q=0.9", "Cache-Control: no-cache", "X-Token:  padded ",
	"X-Id: 007", "Content-type: */*", "X-Empty:", "Cookie: a=1; b=2",
}
var hdrCommaPool = []string{ // only legal through the profile: the operator wire format is ", "-joined
	"Accept: text/html, application/xhtml+xml", "X-List: a, b, c", "Accept-Language: en-US, en;q=0.5",
}
var uriPool = []string{"/", "/index.php", "/api/v1/items?id=1&x=a:b", "/a,b", "/ space", "/ünï", "/js/jquery-3.3.1.min.js"}
var uaPool = []string{"", "Mozilla/5.0 (Windows NT 10.0; Win64; x64) AppleWebKit/537.36 (KHTML, like Gecko) Chrome/96.0 Safari/537.36", "curl/8.1", "007"}
var hostPool = []string{"127.0.0.1", "localhost", "cdn.example.com", "10.1.2.3"}

func pickSome(r *rand.Rand, pool []string, max int) []string {
	n := r.Intn(max + 1)
	var out []string
	seen := map[string]bool{}
	for i := 0; i < n; i++ {
		s := pool[r.Intn(len(pool))]
		if !seen[s] {
			seen[s] = true
			out = append(out, s)
		}
	}
	return out
}

func genHTTP(r *rand.Rand, name string, slot int, profile bool) LstSpec {
	l := LstSpec{Kind: "http", Name: name, Profile: profile, PortSlot: slot,
		HostBind: "127.0.0.1", HostRotation: []string{"round-robin", "random"}[r.Intn(2)]}
	l.Hosts = pickSome(r, hostPool, 3)
	if len(l.Hosts) == 0 {
		l.Hosts = []string{"127.0.0.1"}
	}
	l.Headers = pickSome(r, hdrPool, 3)
	l.Uris = pickSome(r, uriPool, 3)
	l.UserAgent = uaPool[r.Intn(len(uaPool))]
	if profile {
		if r.Intn(2) == 0 {
			l.Headers = append(l.Headers, hdrCommaPool[r.Intn(len(hdrCommaPool))])
		}
		if r.Intn(3) == 0 {
			l.Uris = append(l.Uris, "/search?q=a, b")
		}
		if r.Intn(2) == 0 {
			l.PortConn = fmt.Sprint(1024 + r.Intn(60000))
		}
		if r.Intn(2) == 0 {
			l.Response = pickSome(r, []string{"Server: nginx", "X-Powered-By: PHP/7.4", "Vary: Accept, Origin", "Content-Type: text/html"}, 3)
		}
		if r.Intn(2) == 0 {
			l.KillDate = fmt.Sprintf("20%02d-%02d-%02d %02d:%02d:%02d", 30+r.Intn(60), 1+r.Intn(12), 1+r.Intn(28), r.Intn(24), r.Intn(60), r.Intn(60))
		}
		if r.Intn(2) == 0 {
			l.WorkingHours = []string{"8:00-17:00", "0:00-23:59", "09:30-18:45"}[r.Intn(3)]
		}
		if r.Intn(2) == 0 {
			l.Method = []string{"POST", "GET"}[r.Intn(2)]
		}
		return l
	}
	if r.Intn(2) == 0 {
		l.PortConn = []string{"443", "8443", "80", "007", "65535"}[r.Intn(5)]
	}
	if r.Intn(2) == 0 {
		l.HostHeader = []string{"cdn.example.com", "front.azureedge.net:443", "007"}[r.Intn(3)]
	}
	if r.Intn(3) == 0 {
		l.Proxy = ProxySpec{Enabled: true, Type: []string{"http", "https"}[r.Intn(2)], Host: "proxy.corp.local", Port: "3128",
			Username: []string{"", "proxyuser"}[r.Intn(2)], Password: []string{"", "p@ss, word: 1"}[r.Intn(2)]}
	}
	return l
}

// simulator used by the generator (and by child A for routing): it is the same transition
// function the oracle uses, applied with default semantics.
func genHistory(seed int64, idx int, thorough bool) *History {
	r := rand.New(rand.NewSource(seed*1000003 + int64(idx)*7919 + 17))
	h := &History{Idx: idx}
	hostile := []int{0, 35, 70}[idx%3]
	nDirect := 2 + r.Intn(2)
	// every third history keeps one direct agent back: it registers at the very end and takes
	// over a pivot child that has been in the database for longer than itself
	lateParent := idx%3 == 2
	if lateParent {
		nDirect = 3
	}
	nSmb := 1 + r.Intn(3)
	h.Agents = genAgents(r, nDirect, nSmb, hostile)
	if idx%3 != 0 {
		// make sure the value classes named in the property are present, not left to chance
		must := []string{"007", "1e5", " 42 ", "1.50", "12345", "0x10", "-0", "NaN", "", "Ünïcødé-ホスト名", kib()}
		for i, s := range must {
			a := &h.Agents[(i+idx)%len(h.Agents)]
			switch (i + idx/3) % 5 {
			case 0:
				a.Meta.Hostname = s
			case 1:
				a.Meta.Username = s
			case 2:
				a.Meta.Domain = s
			case 3:
				a.Meta.InternalIP = s
			case 4:
				a.Meta.ProcessPath = "C:\\Windows\\Temp\\" + s
			}
		}
	}
	if idx%2 == 1 {
		// ids named in the property
		want := []uint32{0x80000001, 0xffffffff, 1}
		for i, id := range want {
			if i >= len(h.Agents) {
				break
			}
			dup := false
			for j := range h.Agents {
				if h.Agents[j].ID == id {
					dup = true
				}
			}
			if !dup {
				h.Agents[len(h.Agents)-1-i].ID = id
			}
		}
	}

	// listeners: 0 = base HTTP listener that carries all agent traffic (operator-added)
	base := genHTTP(r, "base", 0, false)
	base.Headers = pickSome(r, []string{"X-Req: a:b:c", "Content-type: */*"}, 2)
	base.Uris = pickSome(r, []string{"/index.php", "/api/v1/items?id=1&x=a:b", "/js/jquery-3.3.1.min.js"}, 2)
	base.Secure = false
	h.Lst = append(h.Lst, base)
	slot := 1
	// profile listeners (every second history)
	if idx%2 == 0 {
		np := 1 + r.Intn(2)
		for i := 0; i < np; i++ {
			switch r.Intn(4) {
			case 0, 1:
				l := genHTTP(r, fmt.Sprintf("prof-http-%d", i), slot, true)
				slot++
				h.Lst = append(h.Lst, l)
			case 2:
				l := LstSpec{Kind: "smb", Name: fmt.Sprintf("prof-smb-%d", i), Profile: true, PipeName: "pipe_" + randHex(r, 3)}
				if r.Intn(2) == 0 {
					l.KillDate = "2031-02-03 04:05:06"
				}
				if r.Intn(2) == 0 {
					l.WorkingHours = "8:00-17:00"
				}
				h.Lst = append(h.Lst, l)
			default:
				h.Lst = append(h.Lst, LstSpec{Kind: "ext", Name: fmt.Sprintf("prof-ext-%d", i), Profile: true, Endpoint: "ep" + randHex(r, 3)})
			}
		}
		h.DropProfile = (idx/2)%2 == 0
		if h.DropProfile {
			// the restart that has only the database to go by: every field a profile listener
			// can carry is present at least once, not left to chance
			l := genHTTP(r, "prof-http-full", slot, true)
			slot++
			l.Headers = append(l.Headers, "X-Full: 1")
			l.Uris = append(l.Uris, "/full")
			l.PortConn = "8443"
			l.Response = []string{"Server: nginx"}
			l.KillDate = "2033-04-05 06:07:08"
			l.WorkingHours = "09:30-18:45"
			l.Method = "POST"
			h.Lst = append(h.Lst, l)
			h.Lst = append(h.Lst, LstSpec{Kind: "smb", Name: "prof-smb-full", Profile: true, PipeName: "pipe_" + randHex(r, 3),
				KillDate: "2031-02-03 04:05:06", WorkingHours: "8:00-17:00"})
			h.Lst = append(h.Lst, LstSpec{Kind: "ext", Name: "prof-ext-full", Profile: true, Endpoint: "ep" + randHex(r, 3)})
		}
	}
	// operator-added listeners available to the ops
	nl := 2 + r.Intn(3)
	for i := 0; i < nl; i++ {
		switch r.Intn(4) {
		case 0, 1:
			l := genHTTP(r, fmt.Sprintf("op-http-%d", i), slot, false)
			slot++
			if r.Intn(6) == 0 {
				l.Secure = true
			}
			h.Lst = append(h.Lst, l)
		case 2:
			h.Lst = append(h.Lst, LstSpec{Kind: "smb", Name: fmt.Sprintf("op-smb-%d", i), PipeName: []string{"demon_pipe", "007", "pipe, with: chars", "mojo.5688.8052.183894939787088877"}[r.Intn(4)]})
		default:
			h.Lst = append(h.Lst, LstSpec{Kind: "ext", Name: fmt.Sprintf("op-ext-%d", i), Endpoint: "c2-" + randHex(r, 3)})
		}
	}

	// every third history has an HTTPS listener, added early (Secure is part of the config)
	forcedL := -1
	if idx%3 == 1 {
		l := genHTTP(r, "op-https", slot, false)
		slot++
		l.Secure = true
		h.Lst = append(h.Lst, l)
		forcedL = len(h.Lst) - 1
	}

	nOps := 11 + r.Intn(6)
	if thorough {
		nOps = 10 + r.Intn(21)
	}
	httpDel := idx%6 == 5 // the 5 s HTTP listener removal: rare, and at the end
	sim := newState(h, defaultSem())
	sim.boot()
	add := func(op Op) {
		h.Ops = append(h.Ops, op)
		sim.apply(op)
	}
	add(Op{K: "ladd", L: 0, Via: -1})
	req := uint32(0x1000)
	nextReq := func() uint32 { req++; return req }

	guard := 0
	for len(h.Ops) < nOps {
		// candidate sets
		var unregDirect, activeDirect, activeAny, inactive, unregSmb, linkedKids, looseKids []int
		for i := range h.Agents {
			a := &h.Agents[i]
			m := sim.Agents[a.Name()]
			switch {
			case m == nil && !a.Smb:
				unregDirect = append(unregDirect, i)
			case m == nil && a.Smb:
				unregSmb = append(unregSmb, i)
			case m.Active && !a.Smb:
				activeDirect = append(activeDirect, i)
				activeAny = append(activeAny, i)
			case m.Active && a.Smb:
				if sim.parentOf(a.Name()) != "" {
					linkedKids = append(linkedKids, i)
					activeAny = append(activeAny, i)
				} else {
					looseKids = append(looseKids, i)
				}
			default:
				inactive = append(inactive, i)
			}
		}
		if lateParent && len(unregDirect) > 0 {
			unregDirect = unregDirect[:len(unregDirect)-1] // the last direct agent is kept back
		}
		via := func(i int) int {
			p := sim.parentOf(h.Agents[i].Name())
			if p == "" {
				return -1
			}
			return h.index(p)
		}
		var lstFree, lstLive []int
		for i := 1; i < len(h.Lst); i++ {
			if h.Lst[i].Profile {
				continue
			}
			if sim.Lst[h.Lst[i].Name] == nil {
				lstFree = append(lstFree, i)
			} else if h.Lst[i].Kind != "http" {
				lstLive = append(lstLive, i)
			}
		}
		pick := func(s []int) int { return s[r.Intn(len(s))] }
		guard++
		if guard > 5000 {
			break
		}
		// the first operations bring up two direct agents, afterwards a weighted draw; an
		// infeasible draw is simply repeated
		if len(h.Ops) <= 2 && len(unregDirect) > 0 {
			add(Op{K: "reg", A: pick(unregDirect), Via: -1})
			continue
		}
		if len(h.Ops) == 3 && forcedL >= 0 && sim.Lst[h.Lst[forcedL].Name] == nil {
			add(Op{K: "ladd", L: forcedL, Via: -1})
			continue
		}
		w := r.Intn(100)
		switch {
		case w < 8:
			if len(unregDirect) > 0 {
				add(Op{K: "reg", A: pick(unregDirect), Via: -1})
			}
		case w < 20:
			if len(activeAny) > 0 {
				a := pick(activeAny)
				add(Op{K: "sleep", A: a, Via: via(a), D: uint32(r.Intn(3600)), J: uint32(r.Intn(100)), Req: nextReq()})
			}
		case w < 32:
			if len(activeAny) > 0 {
				a := pick(activeAny)
				m := genMeta(r, hostile)
				op := Op{K: "checkin", A: a, Via: via(a), Meta: &m, Key: sim.Agents[h.Agents[a].Name()].Key, IV: sim.Agents[h.Agents[a].Name()].IV, Req: nextReq()}
				if r.Intn(2) == 0 {
					// the CHECKIN body carries a different key/iv; whether the session adopts it is
					// probed on the running tree (Sem.CheckinAdoptsKey), not assumed
					op.Key, op.IV = randHex(r, 32), randHex(r, 16)
				}
				add(op)
			}
		case w < 37:
			if len(activeAny) > 0 {
				a := pick(activeAny)
				add(Op{K: "cfgkd", A: a, Via: via(a), KD: uint64(r.Int63n(1 << 62)), Req: nextReq()})
			}
		case w < 42:
			if len(activeAny) > 0 {
				a := pick(activeAny)
				add(Op{K: "cfgwh", A: a, Via: via(a), WH: uint32(r.Intn(1 << 30)), Req: nextReq()})
			}
		case w < 52:
			if len(activeAny) > 1 {
				a := pick(activeAny)
				if len(sim.kidsOf(h.Agents[a].Name())) > 1 {
					continue // C09's territory: UnlinkFromAll with two links
				}
				if !h.Agents[a].Smb && len(activeDirect) == 1 {
					continue // keep one direct agent for routing
				}
				k := []string{"exit", "killdate", "markdead"}[r.Intn(3)]
				op := Op{K: k, A: a, Via: via(a)}
				if k != "markdead" {
					op.Req = nextReq()
				}
				add(op)
			}
		case w < 56:
			if len(inactive) > 0 {
				add(Op{K: "markalive", A: pick(inactive), Via: -1})
			}
		case w < 72:
			// connect: a new SMB child, a loose (marked alive) one, or a disconnected one
			kids := append(append([]int{}, unregSmb...), looseKids...)
			for _, i := range inactive {
				if h.Agents[i].Smb {
					kids = append(kids, i)
				}
			}
			if len(activeDirect) > 0 && len(kids) > 0 {
				add(Op{K: "connect", A: pick(activeDirect), B: pick(kids), Via: -1})
			}
		case w < 80:
			if len(linkedKids) > 0 {
				c := pick(linkedKids)
				add(Op{K: "disconnect", A: via(c), B: c, Via: -1})
			}
		case w < 85:
			// re-parent: the child shows up behind another parent without a disconnect first
			if len(linkedKids) > 0 && len(activeDirect) > 1 {
				c := pick(linkedKids)
				var ps []int
				for _, p := range activeDirect {
					if p != via(c) {
						ps = append(ps, p)
					}
				}
				add(Op{K: "connect", A: pick(ps), B: c, Via: -1})
			}
		case w < 95:
			if len(lstFree) > 0 {
				add(Op{K: "ladd", L: pick(lstFree), Via: -1})
			}
		default:
			if len(lstLive) > 0 {
				add(Op{K: "ldel", L: pick(lstLive), Via: -1})
			}
		}
	}
	if lateParent {
		late, kid, parent := -1, -1, -1
		var freeKids []int
		for i := range h.Agents {
			a := &h.Agents[i]
			m := sim.Agents[a.Name()]
			switch {
			case m == nil && !a.Smb:
				late = i
			case m == nil && a.Smb:
				freeKids = append(freeKids, i)
			case m != nil && m.Active && a.Smb && sim.parentOf(a.Name()) != "":
				kid = i
			case m != nil && m.Active && !a.Smb && parent < 0:
				parent = i
			}
		}
		if late >= 0 && kid < 0 && parent >= 0 && len(freeKids) == 0 {
			// no unregistered child left: a loose or an inactive one is connected instead (the
			// same operation the weighted draw uses), so that the tail never depends on the seed
			for i := range h.Agents {
				a := &h.Agents[i]
				if m := sim.Agents[a.Name()]; m != nil && a.Smb && (!m.Active || sim.parentOf(a.Name()) == "") {
					freeKids = append(freeKids, i)
				}
			}
		}
		if late >= 0 && kid < 0 && parent >= 0 && len(freeKids) > 0 {
			kid = freeKids[0]
			add(Op{K: "connect", A: parent, B: kid, Via: -1})
		}
		if late >= 0 && kid >= 0 && sim.Agents[h.Agents[kid].Name()] != nil {
			add(Op{K: "reg", A: late, Via: -1})
			add(Op{K: "connect", A: late, B: kid, Via: -1})
			h.LateParent = true
		}
	}
	if idx%3 == 1 {
		// the last operations: a direct agent that has exactly one linked child dies (exit /
		// kill date / marked dead in turn); its child goes down with it, in memory and in
		// the database alike
		parent, kid := -1, -1
		var direct, freeKids []int
		for i := range h.Agents {
			a := &h.Agents[i]
			m := sim.Agents[a.Name()]
			switch {
			case m == nil && a.Smb:
				freeKids = append(freeKids, i)
			case m != nil && m.Active && !a.Smb:
				direct = append(direct, i)
				if len(sim.kidsOf(a.Name())) == 1 {
					parent = i
				}
			case m != nil && m.Active && a.Smb && sim.parentOf(a.Name()) == "":
				freeKids = append(freeKids, i)
			case m != nil && !m.Active && a.Smb:
				freeKids = append(freeKids, i)
			}
		}
		if parent < 0 && len(freeKids) > 0 {
			for _, d := range direct {
				if len(sim.kidsOf(h.Agents[d].Name())) == 0 {
					parent, kid = d, freeKids[0]
					break
				}
			}
			if parent >= 0 {
				add(Op{K: "connect", A: parent, B: kid, Via: -1})
			}
		}
		if parent < 0 && len(direct) > 0 {
			// still nobody with exactly one child: a childless direct agent takes over a child
			// of a sibling; if every direct agent has several, one of them loses all but one
			var linked []int
			for i := range h.Agents {
				a := &h.Agents[i]
				if m := sim.Agents[a.Name()]; m != nil && m.Active && a.Smb && sim.parentOf(a.Name()) != "" {
					linked = append(linked, i)
				}
			}
			for _, d := range direct {
				if len(sim.kidsOf(h.Agents[d].Name())) == 0 && len(linked) > 0 {
					parent = d
					add(Op{K: "connect", A: parent, B: linked[0], Via: -1})
					break
				}
			}
			if parent < 0 {
				for _, d := range direct {
					if len(sim.kidsOf(h.Agents[d].Name())) > 1 {
						parent = d
						for _, c := range linked {
							if len(sim.kidsOf(h.Agents[d].Name())) > 1 && sim.parentOf(h.Agents[c].Name()) == h.Agents[d].Name() {
								add(Op{K: "disconnect", A: d, B: c, Via: -1})
							}
						}
						break
					}
				}
			}
		}
		if parent >= 0 && len(sim.kidsOf(h.Agents[parent].Name())) == 1 {
			k := []string{"exit", "killdate", "markdead"}[(idx/3)%3]
			op := Op{K: k, A: parent, Via: -1}
			if k != "markdead" {
				op.Req = nextReq()
			}
			add(op)
			h.ParentDeath = true
		}
	}
	if httpDel {
		// add (if needed) and remove one operator HTTP listener as the last operations
		for i := 1; i < len(h.Lst); i++ {
			if h.Lst[i].Kind == "http" && !h.Lst[i].Profile && !h.Lst[i].Secure {
				if sim.Lst[h.Lst[i].Name] == nil {
					add(Op{K: "ladd", L: i, Via: -1})
				}
				add(Op{K: "ldel", L: i, Via: -1})
				break
			}
		}
	}
	return h
}

func (h *History) index(name string) int {
	for i := range h.Agents {
		if h.Agents[i].Name() == name {
			return i
		}
	}
	return -1
}

func (h *History) slots() int {
	n := 0
	for _, l := range h.Lst {
		if l.Kind == "http" && l.PortSlot+1 > n {
			n = l.PortSlot + 1
		}
	}
	return n
}

// profileText renders the Listeners block for the profile listeners.
func (h *History) profileText(ports []int) string {
	var sb strings.Builder
	any := false
	for _, l := range h.Lst {
		if !l.Profile {
			continue
		}
		if !any {
			sb.WriteString("Listeners {\n")
			any = true
		}
		switch l.Kind {
		case "http":
			fmt.Fprintf(&sb, "  Http {\n    Name = %s\n    Hosts = %s\n    HostBind = %s\n    HostRotation = %s\n    PortBind = %d\n",
				hclStr(l.Name), hclList(l.Hosts), hclStr(l.HostBind), hclStr(l.HostRotation), ports[l.PortSlot])
			if l.PortConn != "" {
				fmt.Fprintf(&sb, "    PortConn = %s\n", l.PortConn)
			}
			if l.KillDate != "" {
				fmt.Fprintf(&sb, "    KillDate = %s\n", hclStr(l.KillDate))
			}
			if l.WorkingHours != "" {
				fmt.Fprintf(&sb, "    WorkingHours = %s\n", hclStr(l.WorkingHours))
			}
			if l.Method != "" {
				fmt.Fprintf(&sb, "    Method = %s\n", hclStr(l.Method))
			}
			if l.UserAgent != "" {
				fmt.Fprintf(&sb, "    UserAgent = %s\n", hclStr(l.UserAgent))
			}
			if len(l.Headers) > 0 {
				fmt.Fprintf(&sb, "    Headers = %s\n", hclList(l.Headers))
			}
			if len(l.Uris) > 0 {
				fmt.Fprintf(&sb, "    Uris = %s\n", hclList(l.Uris))
			}
			if l.Secure {
				sb.WriteString("    Secure = true\n")
			}
			if len(l.Response) > 0 {
				fmt.Fprintf(&sb, "    Response {\n      Headers = %s\n    }\n", hclList(l.Response))
			}
			sb.WriteString("  }\n")
		case "smb":
			fmt.Fprintf(&sb, "  Smb {\n    Name = %s\n    PipeName = %s\n", hclStr(l.Name), hclStr(l.PipeName))
			if l.KillDate != "" {
				fmt.Fprintf(&sb, "    KillDate = %s\n", hclStr(l.KillDate))
			}
			if l.WorkingHours != "" {
				fmt.Fprintf(&sb, "    WorkingHours = %s\n", hclStr(l.WorkingHours))
			}
			sb.WriteString("  }\n")
		case "ext":
			fmt.Fprintf(&sb, "  External {\n    Name = %s\n    Endpoint = %s\n  }\n", hclStr(l.Name), hclStr(l.Endpoint))
		}
	}
	if any {
		sb.WriteString("}\n")
	}
	return sb.String()
}

// hclStr renders a quoted template literal; the generator's pools contain neither "${"
// nor "%{" nor control characters, so escaping quotes and backslashes is complete.
func hclStr(s string) string {
	s = strings.ReplaceAll(s, "\\", "\\\\")
	s = strings.ReplaceAll(s, "\"", "\\\"")
	return "\"" + s + "\""
}

func hclList(l []string) string {
	var p []string
	for _, s := range l {
		p = append(p, hclStr(s))
	}
	return "[" + strings.Join(p, ", ") + "]"
}
