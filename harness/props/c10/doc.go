// Package c10 holds the workload and monitor for property C10 (see /verif/DESIGN.md §3).
package c10
