package c10

import (
	"database/sql"
	"encoding/base64"
	"encoding/hex"
	"encoding/json"
	"fmt"
	"os"
	"path/filepath"
	"strings"
	"time"

	"verifh/observe"
	"verifh/opclient"
	"verifh/rig"

	_ "github.com/mattn/go-sqlite3"
)

// Dump is everything child B (the restarted teamserver) reports.
type Dump struct {
	Err       string
	TS        TSView      // the restored *Teamserver: sessions, links, running listener configs
	OpSess    []SessView  // Session/NewSession packages a fresh operator login receives
	OpLst     []LstView   // Listener/Add packages a fresh operator login receives
	DBAgents  [][2]int64  // (AgentID, Active) from a fresh read-only open of the database file
	DBLinks   [][2]int64  // (ParentAgentID, LinkAgentID)
	DBLst     [][3]string // (Name, Protocol, Config)
	DBRows    []string    // typed rendering of TS_Agents (witness only)
	StartupMs int64
}

func childB() {
	rc := loadRun()
	var d Dump
	write := func() {
		b, _ := json.Marshal(&d)
		tmp := rc.Out + ".tmp"
		os.WriteFile(tmp, b, 0o644)
		os.Rename(tmp, rc.Out)
	}
	extra := ""
	if rc.KeepProfile {
		extra = rc.Hist.profileText(rc.Ports)
	}
	t0 := time.Now()
	r, err := rig.New(rig.Options{Full: true, Dir: rc.Dir, ExtraProfile: extra})
	if err != nil {
		d.Err = "rig: " + err.Error()
		if strings.Contains(err.Error(), "never accepted") {
			d.Err = "infra: " + d.Err
		}
		write()
		os.Exit(3)
	}
	d.StartupMs = time.Since(t0).Milliseconds()
	d.TS = liveView(r.TS)

	op, err := opclient.Connect(fmt.Sprintf("127.0.0.1:%d", r.Port), "bob", "pw-bob")
	if err != nil {
		// the teamserver is up (server.ready was reached and its port accepts): a failing
		// login handshake means the port is served by somebody else
		d.Err = "infra: operator: " + err.Error()
		write()
		os.Exit(3)
	}
	// the replay is complete when a chat message sent after the login comes back: the
	// connection's goroutine sends the whole replay before it reads the first package
	tok := fmt.Sprintf("c10-replay-end-%d", os.Getpid())
	op.Chat(tok)
	if _, ok := op.WaitFor(func(f opclient.Frame) bool {
		return f.Head.Event == opclient.EvChat && f.Body.SubEvent == opclient.ChatNewMessage && f.InfoStr("Message") == tok
	}, 60*time.Second); !ok {
		d.Err = "operator: replay end marker not seen"
		write()
		os.Exit(3)
	}
	if !ownOperator(r, op) {
		d.Err = "infra: the operator connection reached a foreign teamserver (port collision)"
		write()
		os.Exit(3)
	}
	for _, f := range op.Frames() {
		info, _ := decodeNum(f.Raw).(map[string]any)
		body, _ := info["Body"].(map[string]any)
		inf, _ := body["Info"].(map[string]any)
		if inf == nil {
			continue
		}
		switch {
		case f.Head.Event == opclient.EvSession && f.Body.SubEvent == opclient.SessNew:
			d.OpSess = append(d.OpSess, sessFromFrame(inf))
		case f.Head.Event == opclient.EvListener && f.Body.SubEvent == opclient.ListenerAdd:
			lv := LstView{Cfg: map[string]string{}}
			flatten("", inf, lv.Cfg)
			lv.Name = lv.Cfg["Name"]
			lv.Proto = lv.Cfg["Protocol"]
			d.OpLst = append(d.OpLst, lv)
		}
	}

	dbp := filepath.Join(rc.Dir, "data", "teamserver.db")
	if db, err := sql.Open("sqlite3", "file:"+dbp+"?mode=ro&_busy_timeout=5000"); err == nil {
		if rows, err := db.Query("SELECT AgentID, Active FROM TS_Agents"); err == nil {
			for rows.Next() {
				var a, b int64
				if rows.Scan(&a, &b) == nil {
					d.DBAgents = append(d.DBAgents, [2]int64{a, b})
				}
			}
			rows.Close()
		}
		if rows, err := db.Query("SELECT ParentAgentID, LinkAgentID FROM TS_Links"); err == nil {
			for rows.Next() {
				var a, b int64
				if rows.Scan(&a, &b) == nil {
					d.DBLinks = append(d.DBLinks, [2]int64{a, b})
				}
			}
			rows.Close()
		}
		if rows, err := db.Query("SELECT Name, Protocol, Config FROM TS_Listeners"); err == nil {
			for rows.Next() {
				var a, b, c string
				if rows.Scan(&a, &b, &c) == nil {
					d.DBLst = append(d.DBLst, [3]string{a, b, c})
				}
			}
			rows.Close()
		}
		db.Close()
	}
	d.DBRows, _ = observe.DBRows(dbp, "TS_Agents", "LastCallIn")
	write()
	os.Exit(0)
}

func sessFromFrame(inf map[string]any) SessView {
	flat := map[string]string{}
	flatten("", inf, flat)
	s := SessView{ID: flat["NameID"], Active: flat["Active"] == "true", Reason: flat["Reason"], F: map[string]string{},
		Parent: flat["PivotParent"], First: flat["FirstCallIn"]}
	if b, err := base64.StdEncoding.DecodeString(flat["Encryption.AESKey"]); err == nil {
		s.Key = hex.EncodeToString(b)
	} else {
		s.Key = "!b64:" + flat["Encryption.AESKey"]
	}
	if b, err := base64.StdEncoding.DecodeString(flat["Encryption.AESIv"]); err == nil {
		s.IV = hex.EncodeToString(b)
	} else {
		s.IV = "!b64:" + flat["Encryption.AESIv"]
	}
	// the NewSession package has no thread id and no base address
	for _, f := range sessFields {
		if f == "ProcessTID" || f == "BaseAddress" {
			continue
		}
		s.F[f] = flat[f]
	}
	return s
}
