package c10

import (
	"encoding/json"
	"fmt"
	"sort"
	"strconv"
	"strings"
)

// Diff is one disagreement between the recovered state and a model state. Sig is the
// defect class (stable: no concrete values), Key identifies the object within the run.
type Diff struct {
	Sig  string
	Key  string
	What string
}

func short(s string) string {
	if len(s) > 80 {
		return fmt.Sprintf("%q…(%d bytes)", s[:60], len(s))
	}
	return fmt.Sprintf("%q", s)
}

// numericRewrite: v is what a NUMERIC-affinity column hands back for the text r.
func numericRewrite(r, v string) bool {
	t := strings.TrimSpace(r)
	if t == "" || r == v {
		return false
	}
	low := strings.ToLower(t)
	if strings.ContainsAny(low, "xnip_") { // hex, nan, inf, 1_000 are not SQL numeric literals
		return false
	}
	a, err1 := strconv.ParseFloat(t, 64)
	b, err2 := strconv.ParseFloat(strings.TrimSpace(v), 64)
	if err1 != nil && !strings.Contains(err1.Error(), "range") {
		return false
	}
	if err2 != nil && !strings.Contains(err2.Error(), "range") {
		return false
	}
	return a == b
}

func sessMap(v []SessView) map[string]*SessView {
	m := map[string]*SessView{}
	for i := range v {
		m[v[i].ID] = &v[i]
	}
	return m
}

func topbit(id string) bool {
	n, err := strconv.ParseUint(id, 16, 64)
	return err == nil && n >= 0x80000000
}

// cmpSessions compares a session view of the restarted teamserver with the model: exactly
// the model's active agents, each with the recorded key, iv, reason and metadata.
// live=true compares a view of the first process instead (all agents, active flag included).
func cmpSessions(view string, st *State, got []SessView, live bool, skipFields map[string]bool) (diffs []Diff, bad map[string]bool) {
	bad = map[string]bool{}
	gm := sessMap(got)
	if len(gm) != len(got) {
		diffs = append(diffs, Diff{"agent:duplicate-session", view, view + ": an agent id is listed twice"})
	}
	ids := make([]string, 0, len(st.Agents))
	for id := range st.Agents {
		ids = append(ids, id)
	}
	sort.Strings(ids)
	for _, id := range ids {
		m := st.Agents[id]
		g := gm[id]
		if !m.Active && !live {
			if g != nil {
				bad[id] = true
				diffs = append(diffs, Diff{"agent:dead-restored", "agent " + id, fmt.Sprintf("%s: agent %s is dead (reason %q) but was restored (active=%v)", view, id, m.Reason, g.Active)})
			}
			continue
		}
		if g == nil {
			bad[id] = true
			sig := "agent:lost"
			if topbit(id) {
				sig = "agent:lost:id>=0x80000000"
			}
			diffs = append(diffs, Diff{sig, "agent " + id, fmt.Sprintf("%s: agent %s (registration acknowledged, active) is missing", view, id)})
			continue
		}
		if g.Active != m.Active {
			diffs = append(diffs, Diff{"agent:active-flag-differs", "agent " + id, fmt.Sprintf("%s: agent %s active=%v, recorded %v", view, id, g.Active, m.Active)})
		}
		if g.Key != m.Key {
			diffs = append(diffs, Diff{"agent:key-differs", "agent " + id + " key", fmt.Sprintf("%s: agent %s AES key %s, recorded %s", view, id, g.Key, m.Key)})
		}
		if g.IV != m.IV {
			diffs = append(diffs, Diff{"agent:iv-differs", "agent " + id + " iv", fmt.Sprintf("%s: agent %s AES iv %s, recorded %s", view, id, g.IV, m.IV)})
		}
		if g.Reason != m.Reason {
			diffs = append(diffs, Diff{"agent:reason-differs", "agent " + id + " reason", fmt.Sprintf("%s: agent %s reason %q, recorded %q", view, id, g.Reason, m.Reason)})
		}
		for _, f := range sessFields {
			if skipFields[f] {
				continue
			}
			gv, ok := g.F[f]
			if !ok {
				continue
			}
			if gv != m.F[f] {
				sig := "meta:field-differs:" + f
				if numericRewrite(m.F[f], gv) {
					sig = "meta:numeric-looking-text-rewritten"
				}
				diffs = append(diffs, Diff{sig, "agent " + id + " " + f, fmt.Sprintf("%s: agent %s %s = %s, recorded %s", view, id, f, short(gv), short(m.F[f]))})
			}
		}
	}
	for _, g := range got {
		if st.Agents[g.ID] == nil {
			bad[g.ID] = true
			diffs = append(diffs, Diff{"agent:phantom", "agent " + g.ID, fmt.Sprintf("%s: agent %s was never registered", view, g.ID)})
		}
	}
	return
}

// cmpLinks: the parent/child pairs of a view against the model's pairs. Pairs that touch an
// agent already reported (lost / dead restored / phantom) are explained by that report.
func cmpLinks(view string, st *State, pairs map[string]bool, bad map[string]bool, stored map[string]bool) (diffs []Diff) {
	touches := func(k string) bool {
		p, c, _ := strings.Cut(k, ">")
		return bad[p] || bad[c]
	}
	var keys []string
	for k := range st.Links {
		keys = append(keys, k)
	}
	for k := range pairs {
		if !st.Links[k] {
			keys = append(keys, k)
		}
	}
	sort.Strings(keys)
	// a nil entry in a parent's link list stands for a child that could not be resolved;
	// if that parent has a recorded child which is already reported, the entry is explained
	explainedNil := map[string]bool{}
	for k := range st.Links {
		if p, c, _ := strings.Cut(k, ">"); bad[c] {
			explainedNil[p] = true
		}
	}
	for k := range stored { // TS_Links rows whose child is one of the reported agents
		if p, c, _ := strings.Cut(k, ">"); bad[c] {
			explainedNil[p] = true
		}
	}
	for _, k := range keys {
		if touches(k) {
			continue
		}
		if p, c, _ := strings.Cut(k, ">"); c == "<nil>" && explainedNil[p] {
			continue
		}
		switch {
		case st.Links[k] && !pairs[k]:
			diffs = append(diffs, Diff{"link:lost", "link " + k, fmt.Sprintf("%s: parent/child pair %s is missing", view, k)})
		case !st.Links[k] && pairs[k]:
			sig := "link:phantom"
			p, c, _ := strings.Cut(k, ">")
			if c == "<nil>" || p == "<nil>" {
				sig = "link:dangling" // a TS_Links row whose other end was not restored
			} else if st.Agents[p] != nil && st.Agents[c] != nil {
				sig = "link:stale-pair" // both are recorded agents, but not (any more) linked
			}
			diffs = append(diffs, Diff{sig, "link " + k, fmt.Sprintf("%s: parent/child pair %s is not a recorded link", view, k)})
		}
	}
	return
}

func lstMap(v []LstView) map[string]*LstView {
	m := map[string]*LstView{}
	for i := range v {
		m[v[i].Name] = &v[i]
	}
	return m
}

func isDefault(v string) bool { return v == "" || v == "0" || v == "false" || v == "[]" }

func fieldClass(f string) string {
	if strings.HasPrefix(f, "Proxy.") {
		return "Proxy"
	}
	return f
}

func classifyCfg(f, exp, got string) string {
	if strings.HasPrefix(exp, "[") {
		var el, gl []string
		json.Unmarshal([]byte(exp), &el)
		if json.Unmarshal([]byte(got), &gl) == nil {
			if len(el) == 0 && len(gl) == 1 && gl[0] == "" {
				return "listener:empty-list-becomes-one-empty-string"
			}
			if len(el) > 0 && len(gl) > len(el) && strings.Join(gl, ", ") == strings.Join(el, ", ") {
				return "listener:list-item-split-on-comma-space:" + f
			}
		}
	}
	if isDefault(got) {
		return "listener:field-lost:" + fieldClass(f)
	}
	return "listener:field-differs:" + fieldClass(f)
}

// cmpListeners: running listener configurations against the model.
func cmpListeners(view string, st *State, got []LstView) (diffs []Diff) {
	gm := lstMap(got)
	if len(gm) != len(got) {
		diffs = append(diffs, Diff{"listener:duplicate", view, view + ": a listener name is listed twice"})
	}
	var names []string
	for n := range st.Lst {
		names = append(names, n)
	}
	sort.Strings(names)
	for _, n := range names {
		m := st.Lst[n]
		g := gm[n]
		if g == nil {
			diffs = append(diffs, Diff{"listener:lost", "listener " + n, fmt.Sprintf("%s: listener %q (%s) is missing", view, n, m.Proto)})
			continue
		}
		if g.Proto != m.Proto {
			diffs = append(diffs, Diff{"listener:protocol-differs", "listener " + n, fmt.Sprintf("%s: listener %q is %s, recorded %s", view, n, g.Proto, m.Proto)})
			continue
		}
		var fs []string
		for f := range m.Cfg {
			fs = append(fs, f)
		}
		sort.Strings(fs)
		for _, f := range fs {
			gv, ok := g.Cfg[f]
			if !ok {
				diffs = append(diffs, Diff{"listener:field-absent:" + fieldClass(f), "listener " + n + " " + f, fmt.Sprintf("%s: listener %q has no field %s", view, n, f)})
				continue
			}
			if gv != m.Cfg[f] {
				diffs = append(diffs, Diff{classifyCfg(f, m.Cfg[f], gv), "listener " + n + " " + f,
					fmt.Sprintf("%s: listener %q %s = %s, recorded %s", view, n, f, short(gv), short(m.Cfg[f]))})
			}
		}
	}
	for _, g := range got {
		if st.Lst[g.Name] == nil {
			diffs = append(diffs, Diff{"listener:phantom", "listener " + g.Name, fmt.Sprintf("%s: listener %q is not a recorded listener", view, g.Name)})
		}
	}
	return
}

// opLstExpect converts a model listener into what the Listener/Add package shows: list
// fields ", "-joined, proxy fields under their package names, booleans as strings.
func opLstExpect(m *MListener) map[string]string {
	out := map[string]string{}
	for f, v := range m.Cfg {
		switch {
		case strings.HasPrefix(f, "Cert.") || f == "Response.Headers" || f == "BehindRedir":
			continue
		case strings.HasPrefix(f, "Proxy."):
			out["Proxy "+strings.TrimPrefix(f, "Proxy.")] = v
		case strings.HasPrefix(v, "["):
			var l []string
			json.Unmarshal([]byte(v), &l)
			out[f] = strings.Join(l, ", ")
		default:
			out[f] = v
		}
	}
	return out
}

func cmpOpListeners(view string, st *State, got []LstView) (diffs []Diff) {
	gm := lstMap(got)
	var names []string
	for n := range st.Lst {
		names = append(names, n)
	}
	sort.Strings(names)
	for _, n := range names {
		m := st.Lst[n]
		g := gm[n]
		if g == nil {
			diffs = append(diffs, Diff{"listener:lost", "listener " + n, fmt.Sprintf("%s: listener %q (%s) is not announced", view, n, m.Proto)})
			continue
		}
		if g.Proto != m.Proto {
			diffs = append(diffs, Diff{"listener:protocol-differs", "listener " + n, fmt.Sprintf("%s: listener %q announced as %s, recorded %s", view, n, g.Proto, m.Proto)})
			continue
		}
		exp := opLstExpect(m)
		var fs []string
		for f := range exp {
			fs = append(fs, f)
		}
		sort.Strings(fs)
		for _, f := range fs {
			gv, ok := g.Cfg[f]
			if !ok || gv == exp[f] {
				continue
			}
			cf := strings.Replace(f, "Proxy ", "Proxy.", 1)
			sig := "listener:field-differs:" + fieldClass(cf)
			if isDefault(gv) {
				sig = "listener:field-lost:" + fieldClass(cf)
			}
			diffs = append(diffs, Diff{sig, "listener " + n + " " + cf, fmt.Sprintf("%s: listener %q %s = %s, recorded %s", view, n, f, short(gv), short(exp[f]))})
		}
	}
	for _, g := range got {
		if st.Lst[g.Name] == nil {
			diffs = append(diffs, Diff{"listener:phantom", "listener " + g.Name, fmt.Sprintf("%s: listener %q is announced but not recorded", view, g.Name)})
		}
	}
	return
}

func pairsFromLinks(v []SessView) map[string]bool {
	out := map[string]bool{}
	for _, s := range v {
		for _, l := range s.Links {
			out[s.ID+">"+l] = true
		}
	}
	return out
}

func pairsFromParents(v []SessView) map[string]bool {
	out := map[string]bool{}
	for _, s := range v {
		if s.Parent != "" {
			out[s.Parent+">"+s.ID] = true
		}
	}
	return out
}

// cmpDump: every view of the restarted teamserver against one model state.
func cmpDump(st *State, d *Dump, first map[string]string) []Diff {
	var diffs []Diff
	dbPairs := map[string]bool{}
	for _, l := range d.DBLinks {
		dbPairs[fmt.Sprintf("%08x>%08x", uint32(l[0]), uint32(l[1]))] = true
	}
	// 1. the restored teamserver object
	ds, bad := cmpSessions("restored teamserver", st, d.TS.Sess, false, nil)
	diffs = append(diffs, ds...)
	for _, g := range d.TS.Sess {
		if f, ok := first[g.ID]; ok && st.Agents[g.ID] != nil && g.First != f {
			sig := "meta:field-differs:FirstCallIn"
			if numericRewrite(f, g.First) {
				sig = "meta:numeric-looking-text-rewritten"
			}
			diffs = append(diffs, Diff{sig, "agent " + g.ID + " FirstCallIn", fmt.Sprintf("restored teamserver: agent %s FirstCallIn = %q, recorded %q", g.ID, g.First, f)})
		}
	}
	diffs = append(diffs, cmpLinks("restored teamserver (link lists)", st, pairsFromLinks(d.TS.Sess), bad, dbPairs)...)
	diffs = append(diffs, cmpLinks("restored teamserver (parent pointers)", st, pairsFromParents(d.TS.Sess), bad, dbPairs)...)
	diffs = append(diffs, cmpListeners("restarted listeners", st, d.TS.Lst)...)
	// 2. what a fresh operator login is told
	ds, bad2 := cmpSessions("operator replay", st, d.OpSess, false, nil)
	diffs = append(diffs, ds...)
	diffs = append(diffs, cmpLinks("operator replay (PivotParent)", st, pairsFromParents(d.OpSess), bad2, dbPairs)...)
	diffs = append(diffs, cmpOpListeners("operator replay", st, d.OpLst)...)
	// 3. a fresh open of the database file
	rows := map[string]int64{}
	for _, r := range d.DBAgents {
		rows[fmt.Sprintf("%08x", uint32(r[0]))] = r[1]
		if r[0] < 0 || r[0] > 0xffffffff {
			diffs = append(diffs, Diff{"db:agent-id-out-of-range", fmt.Sprintf("dbagent %d", r[0]), fmt.Sprintf("database: TS_Agents holds AgentID %d", r[0])})
		}
	}
	var ids []string
	for id := range st.Agents {
		ids = append(ids, id)
	}
	sort.Strings(ids)
	dbBad := map[string]bool{}
	for _, id := range ids {
		m := st.Agents[id]
		act, ok := rows[id]
		switch {
		case !ok:
			dbBad[id] = true
			if m.Active {
				sig := "agent:lost"
				if topbit(id) {
					sig = "agent:lost:id>=0x80000000"
				}
				diffs = append(diffs, Diff{sig, "agent " + id, fmt.Sprintf("database: no TS_Agents row for agent %s", id)})
			} else if !topbit(id) {
				diffs = append(diffs, Diff{"db:agent-row-missing", "dbagent " + id, fmt.Sprintf("database: no TS_Agents row for (inactive) agent %s", id)})
			}
		case m.Active && act != 1:
			diffs = append(diffs, Diff{"db:active-agent-marked-inactive", "dbagent " + id, fmt.Sprintf("database: agent %s has Active=%d, recorded active", id, act)})
		case !m.Active && act != 0:
			diffs = append(diffs, Diff{"agent:dead-restored", "agent " + id, fmt.Sprintf("database: agent %s is dead but has Active=%d", id, act)})
		}
	}
	for id := range rows {
		if st.Agents[id] == nil {
			dbBad[id] = true
			diffs = append(diffs, Diff{"agent:phantom", "agent " + id, fmt.Sprintf("database: TS_Agents row for agent %s that was never registered", id)})
		}
	}
	diffs = append(diffs, cmpLinks("database (TS_Links)", st, dbPairs, dbBad, nil)...)
	dbl := map[string]string{}
	for _, l := range d.DBLst {
		dbl[l[0]] = l[1]
	}
	for n, m := range st.Lst {
		p, ok := dbl[n]
		if !ok {
			diffs = append(diffs, Diff{"listener:lost", "listener " + n, fmt.Sprintf("database: no TS_Listeners row for %q", n)})
		} else if p != m.Proto && !(m.Proto == "Http" && p == "Https") {
			diffs = append(diffs, Diff{"listener:protocol-differs", "listener " + n, fmt.Sprintf("database: listener %q stored as %s, recorded %s", n, p, m.Proto)})
		}
	}
	for n := range dbl {
		if st.Lst[n] == nil {
			diffs = append(diffs, Diff{"listener:phantom", "listener " + n, fmt.Sprintf("database: TS_Listeners row for %q which is not a recorded listener", n)})
		}
	}
	return dedup(diffs)
}

// dedup keeps the first report per (signature, object): the same defect seen through
// several views is one finding.
func dedup(d []Diff) []Diff {
	seen := map[string]bool{}
	var out []Diff
	for _, x := range d {
		k := x.Sig + "|" + x.Key
		if !seen[k] {
			seen[k] = true
			out = append(out, x)
		}
	}
	return out
}

// cmpLive: the first process' own state against the model (all agents, active flags,
// link lists, listener configs). Used only to validate the model, never for a verdict.
func cmpLive(st *State, v *TSView) []Diff {
	ds, bad := cmpSessions("live", st, v.Sess, true, nil)
	ds = append(ds, cmpLinks("live (link lists)", st, pairsFromLinks(v.Sess), bad, nil)...)
	ds = append(ds, cmpListeners("live listeners", st, v.Lst)...)
	return ds
}
