// Package c10 is the workload and monitor for property C10: sessions, links and listeners
// survive a restart or crash unchanged (DESIGN.md §3 C10). Three processes: this worker
// (client model + killer), child A (real teamserver doing the history until it is killed),
// child B (real teamserver restarted on the same directory, then interrogated).
package c10

import (
	"bufio"
	"encoding/json"
	"fmt"
	"math/rand"
	"net"
	"os"
	"os/exec"
	"path/filepath"
	"sort"
	"strings"
	"syscall"
	"time"

	"verifh/lib"
)

func init() { lib.Register("C10", run) }

type Kill struct {
	Type  string // ack | hook | strace | timer | none
	After int    `json:",omitempty"` // ack: SIGKILL right after the acknowledgement of this op
	Hook  string `json:",omitempty"` // hook: SIGKILL at the N-th hit of this point
	N     int64  `json:",omitempty"`
	When  int64  `json:",omitempty"` // strace: SIGKILL on entry of the When-th write/pwrite64
	Ms    int    `json:",omitempty"` // timer: SIGKILL from outside after Ms milliseconds
	// Restart (with Type none, Hook, N): the first process runs to its end; the first restart
	// is killed at the N-th hit of Hook (a restart has no business writing, and if it writes,
	// a kill between its statements must not lose anything); a second restart is judged
	Restart bool `json:",omitempty"`
}

func (k Kill) String() string {
	switch k.Type {
	case "ack":
		if k.After < 0 {
			return "after-boot"
		}
		return fmt.Sprintf("after-ack-%d", k.After)
	case "hook":
		return fmt.Sprintf("%s@%d", k.Hook, k.N)
	case "strace":
		return fmt.Sprintf("strace-write@%d", k.When)
	case "timer":
		return fmt.Sprintf("timer@%dms", k.Ms)
	}
	if k.Restart {
		return fmt.Sprintf("none (first restart killed at %s@%d)", k.Hook, k.N)
	}
	return "none"
}

type RunResult struct {
	Ports    []int
	Booted   bool
	Acks     int
	Done     bool
	Fail     string
	FailOp   int
	Lives    map[int]*TSView
	AckHits  []map[string]int64 // hook hit counters at each acknowledgement
	BootHits map[string]int64
	DoneHits map[string]int64
	BootW    int64
	DoneW    int64
	BootMs   int
	TotalMs  int
	AState   string // how A ended
	ALog     string
	Dump     *Dump
	BState   string
	BLog     string
}

// the cursor starts at a per-process offset so that two runs of the check on one machine do
// not walk the same sequence
var portCursor = (os.Getpid() * 7919) % 1300

// freePorts hands out listener ports from a range below the ephemeral ports, partitioned by
// shard: nothing else on the machine (other workers' rigs use listen(:0)) competes for them,
// and a port is only reused after 1300 allocations of this worker.
func freePorts(shard, n int) []int {
	var ps []int
	for tries := 0; len(ps) < n && tries < 4000; tries++ {
		p := 10000 + (shard%16)*1300 + portCursor%1300
		portCursor++
		l, err := net.Listen("tcp", fmt.Sprintf("127.0.0.1:%d", p))
		if err != nil {
			continue
		}
		l.Close()
		ps = append(ps, p)
	}
	return ps
}

func tailFile(p string, n int) string {
	b, err := os.ReadFile(p)
	if err != nil {
		return ""
	}
	if len(b) > n {
		b = b[len(b)-n:]
	}
	return string(b)
}

func childEnv(role, run, hooks string) []string {
	var env []string
	for _, e := range os.Environ() {
		if strings.HasPrefix(e, "VERIF_C10_") || strings.HasPrefix(e, "VERIF_HOOKS=") {
			continue
		}
		env = append(env, e)
	}
	env = append(env, "VERIF_C10_ROLE="+role, "VERIF_C10_RUN="+run)
	if hooks != "" {
		env = append(env, "VERIF_HOOKS="+hooks)
	}
	return env
}

// spawn runs one child to completion (or SIGKILLs it after killAfter / at the deadline).
func spawn(base, role, runFile, hooks string, wrap []string, killAfter time.Duration, deadline time.Duration) (state string) {
	// the worker's own image, by way of /proc: still executable when the file in bin/ has
	// been replaced or unlinked by a concurrent build
	self := fmt.Sprintf("/proc/%d/exe", os.Getpid())
	if _, err := os.Stat(self); err != nil {
		if self, err = os.Executable(); err != nil {
			self = os.Args[0]
		}
	}
	args := append(append([]string{}, wrap...), self, "--out", filepath.Join(base, "out-"+role), "C10")
	cmd := exec.Command(args[0], args[1:]...)
	cmd.Env = childEnv(role, runFile, hooks)
	cmd.Dir = base
	lf, _ := os.Create(filepath.Join(base, role+".log"))
	cmd.Stdout, cmd.Stderr = lf, lf
	cmd.SysProcAttr = &syscall.SysProcAttr{Setpgid: true}
	if err := cmd.Start(); err != nil {
		lf.Close()
		return "spawn-error: " + err.Error()
	}
	done := make(chan error, 1)
	go func() { done <- cmd.Wait() }()
	var killT <-chan time.Time
	if killAfter > 0 {
		killT = time.After(killAfter)
	}
	dl := time.After(deadline)
	timedOut := false
	for {
		select {
		case err := <-done:
			lf.Close()
			// no process of the group may survive (strace wrapper, listeners)
			syscall.Kill(-cmd.Process.Pid, syscall.SIGKILL)
			if timedOut {
				return "timeout"
			}
			if err == nil {
				return "exit 0"
			}
			if ee, ok := err.(*exec.ExitError); ok {
				if ws, ok := ee.Sys().(syscall.WaitStatus); ok && ws.Signaled() {
					return "signal " + ws.Signal().String()
				}
				return fmt.Sprintf("exit %d", ee.ExitCode())
			}
			return "error " + err.Error()
		case <-killT:
			syscall.Kill(-cmd.Process.Pid, syscall.SIGKILL)
			killT = nil
		case <-dl:
			timedOut = true
			syscall.Kill(-cmd.Process.Pid, syscall.SIGKILL)
			dl = nil
		}
	}
}

func parseALog(p string, rr *RunResult) {
	f, err := os.Open(p)
	if err != nil {
		return
	}
	defer f.Close()
	rr.Lives = map[int]*TSView{}
	sc := bufio.NewScanner(f)
	sc.Buffer(make([]byte, 1<<20), 64<<20)
	for sc.Scan() {
		kind, rest, ok := strings.Cut(sc.Text(), " ")
		if !ok {
			continue
		}
		switch kind {
		case "boot", "done":
			var v struct {
				Hits  map[string]int64 `json:"hits"`
				Syscw int64            `json:"syscw"`
			}
			if json.Unmarshal([]byte(rest), &v) != nil {
				continue // torn last line
			}
			if kind == "boot" {
				rr.Booted, rr.BootHits, rr.BootW = true, v.Hits, v.Syscw
			} else {
				rr.Done, rr.DoneHits, rr.DoneW = true, v.Hits, v.Syscw
			}
		case "ack":
			var v struct {
				I    int              `json:"i"`
				Hits map[string]int64 `json:"hits"`
			}
			if json.Unmarshal([]byte(rest), &v) == nil && v.I == rr.Acks {
				rr.Acks++
				rr.AckHits = append(rr.AckHits, v.Hits)
			}
		case "live":
			var v struct {
				I int     `json:"i"`
				S *TSView `json:"s"`
			}
			if json.Unmarshal([]byte(rest), &v) == nil && v.S != nil {
				rr.Lives[v.I] = v.S
			}
		case "fail":
			var v struct {
				Op  int    `json:"op"`
				Err string `json:"err"`
			}
			if json.Unmarshal([]byte(rest), &v) == nil {
				rr.Fail, rr.FailOp = v.Err, v.Op
			}
		}
	}
}

// runCase executes one (history, kill point) pair: child A until its death, then child B.
func runCase(c *lib.Ctx, h *History, k Kill, withB bool) *RunResult {
	var rr *RunResult
	for attempt := 0; attempt < 3; attempt++ {
		rr = runCaseOnce(c, h, k, withB)
		if !rr.infra() {
			return rr
		}
		c.Observe("infra_retries", 1)
	}
	return rr
}

// infra: the run failed for reasons outside the teamserver (port collisions with other
// processes on a loaded machine, spawn errors, watchdog).
func (rr *RunResult) infra() bool {
	if strings.HasPrefix(rr.Fail, "infra") || rr.AState == "timeout" || strings.HasPrefix(rr.AState, "spawn-error") || rr.BState == "timeout" {
		return true
	}
	return rr.Dump != nil && strings.HasPrefix(rr.Dump.Err, "infra")
}

func runCaseOnce(c *lib.Ctx, h *History, k Kill, withB bool) *RunResult {
	rr := &RunResult{FailOp: -2}
	base, err := os.MkdirTemp(scratchRoot(), "c10-")
	if err != nil {
		rr.Fail = "infra: " + err.Error()
		return rr
	}
	if os.Getenv("VERIF_C10_KEEP") == "" {
		defer os.RemoveAll(base)
	} else {
		fmt.Fprintln(os.Stderr, "c10: run dir", base, "kill", k)
	}
	rr.Ports = freePorts(c.Shard, h.slots())
	if len(rr.Ports) < h.slots() {
		rr.Fail = "infra: no free ports"
		return rr
	}
	tsdir := filepath.Join(base, "ts")
	os.MkdirAll(tsdir, 0o755)
	rc := RunCfg{Hist: h, Ports: rr.Ports, Dir: tsdir, Out: filepath.Join(base, "a.acks"), StopAfter: -2}
	hooks := ""
	var wrap []string
	var killAfter time.Duration
	switch k.Type {
	case "ack":
		rc.StopAfter = k.After
	case "hook":
		hooks = fmt.Sprintf("%s=kill@%d", k.Hook, k.N)
	case "strace":
		wrap = []string{"strace", "-f", "-qq", "-o", "/dev/null", "-e", "trace=write,pwrite64",
			"-e", fmt.Sprintf("inject=write,pwrite64:signal=SIGKILL:when=%d", k.When)}
	case "timer":
		killAfter = time.Duration(k.Ms) * time.Millisecond
	}
	b, _ := json.Marshal(&rc)
	aRun := filepath.Join(base, "a.json")
	os.WriteFile(aRun, b, 0o644)
	t0 := time.Now()
	rr.AState = spawn(base, "A", aRun, hooks, wrap, killAfter, 240*time.Second)
	rr.TotalMs = int(time.Since(t0).Milliseconds())
	parseALog(rc.Out, rr)
	rr.ALog = tailFile(filepath.Join(base, "A.log"), 3000)
	if !withB || rr.AState == "timeout" || strings.HasPrefix(rr.AState, "spawn-error") {
		return rr
	}
	if k.Restart {
		rc0 := RunCfg{Hist: h, Ports: rr.Ports, Dir: tsdir, Out: filepath.Join(base, "b0.dump"), KeepProfile: !h.DropProfile}
		b0, _ := json.Marshal(&rc0)
		b0Run := filepath.Join(base, "b0.json")
		os.WriteFile(b0Run, b0, 0o644)
		st := spawn(base, "B", b0Run, fmt.Sprintf("%s=kill@%d", k.Hook, k.N), nil, 0, 240*time.Second)
		if strings.HasPrefix(st, "signal") {
			c.Observe("restarts-killed-at:"+k.Hook, 1)
		} else {
			c.Observe("restart-kill-point-not-reached", 1)
		}
	}
	rcB := RunCfg{Hist: h, Ports: rr.Ports, Dir: tsdir, Out: filepath.Join(base, "b.dump"), KeepProfile: !h.DropProfile}
	b, _ = json.Marshal(&rcB)
	bRun := filepath.Join(base, "b.json")
	os.WriteFile(bRun, b, 0o644)
	rr.BState = spawn(base, "B", bRun, "", nil, 0, 240*time.Second)
	rr.BLog = tailFile(filepath.Join(base, "B.log"), 6000)
	if db, err := os.ReadFile(rcB.Out); err == nil {
		var d Dump
		if json.Unmarshal(db, &d) == nil {
			rr.Dump = &d
		}
	}
	return rr
}

// ---------------------------------------------------------------------------------------

type Witness struct {
	History  *History
	Kill     Kill
	Acked    int      `json:"acked_operations"`
	InFlight string   `json:"in_flight,omitempty"`
	Expected string   `json:"expected"`
	Observed []string `json:"observed"`
	DBRows   []string `json:"db_rows,omitempty"`
	BLog     string   `json:"restart_log,omitempty"`
}

func opDesc(h *History, i int) string {
	if i < 0 || i >= len(h.Ops) {
		return ""
	}
	op := h.Ops[i]
	switch op.K {
	case "ladd", "ldel":
		return fmt.Sprintf("#%d %s %s(%s)", i, op.K, h.Lst[op.L].Name, h.Lst[op.L].Kind)
	case "connect", "disconnect":
		return fmt.Sprintf("#%d %s parent=%s child=%s", i, op.K, h.Agents[op.A].Name(), h.Agents[op.B].Name())
	}
	return fmt.Sprintf("#%d %s %s", i, op.K, h.Agents[op.A].Name())
}

// opClass is the operation kind used in torn-state signatures.
func opClass(h *History, st *State, i int) string {
	op := h.Ops[i]
	switch op.K {
	case "connect":
		c := h.Agents[op.B].Name()
		if st.Agents[c] == nil {
			return "connect-new-child"
		}
		if st.parentOf(c) != "" {
			return "reparent"
		}
		return "reconnect"
	case "exit", "killdate", "markdead":
		id := h.Agents[op.A].Name()
		if len(st.kidsOf(id)) > 0 || st.parentOf(id) != "" {
			return "death-of-linked-agent"
		}
		return "death"
	}
	return op.K
}

func truncated(h *History, n int) *History {
	c := *h
	if n < len(c.Ops) {
		c.Ops = append([]Op{}, c.Ops[:n]...)
	}
	return &c
}

type histInfo struct {
	h      *History
	sem    Sem
	dry    *RunResult
	ok     bool
	reason string
	base   map[int]*baseline // by number of acknowledged operations
}

// baseline: what a kill exactly between two operations (after n acknowledged ones) leaves
// behind, compared with the model state after n operations. Used to tell "in-flight
// operation (not) applied, plus defects that exist anyway" from a torn state.
type baseline struct {
	ok    bool
	diffs map[string]bool // Sig|Key
}

func (hi *histInfo) baselineFor(c *lib.Ctx, n int) *baseline {
	if hi.base == nil {
		hi.base = map[int]*baseline{}
	}
	if b := hi.base[n]; b != nil {
		return b
	}
	b := &baseline{diffs: map[string]bool{}}
	hi.base[n] = b
	c.Observe("baseline_runs", 1)
	rr := runCase(c, hi.h, Kill{Type: "ack", After: n - 1}, true)
	if rr.infra() || rr.Dump == nil || rr.Dump.Err != "" || rr.Acks != n || rr.Done || rr.Fail != "" || liveMismatch(hi.h, hi.sem, rr) != "" {
		return b
	}
	st := statesFor(hi.h, hi.sem, rr.Ports)
	for _, x := range cmpDump(st[n], rr.Dump, nil) {
		b.diffs[x.Sig+"|"+x.Key] = true
	}
	b.ok = true
	return b
}

// probe runs the history once without a kill: hook hit counters, write counters, duration,
// and the validation of the model against the first process' own state.
func probe(c *lib.Ctx, h *History) *histInfo {
	hi := &histInfo{h: h, sem: defaultSem(), base: map[int]*baseline{}}
	rr := runCase(c, h, Kill{Type: "none"}, false)
	hi.dry = rr
	if !rr.Done {
		hi.reason = fmt.Sprintf("dry run of history %d did not complete: A=%s fail=%q(op %d) log=%s", h.Idx, rr.AState, rr.Fail, rr.FailOp, lastLines(rr.ALog, 6))
		return hi
	}
	for _, sem := range []Sem{{CheckinAdoptsKey: true}, {CheckinAdoptsKey: false}} {
		if d := liveMismatch(h, sem, rr); d == "" {
			hi.sem, hi.ok = sem, true
			return hi
		} else if !sem.CheckinAdoptsKey {
			hi.reason = fmt.Sprintf("history %d: the model does not describe the first process' own state: %s", h.Idx, d)
		}
	}
	return hi
}

func lastLines(s string, n int) string {
	l := strings.Split(strings.TrimSpace(s), "\n")
	if len(l) > n {
		l = l[len(l)-n:]
	}
	return strings.Join(l, " | ")
}

func liveMismatch(h *History, sem Sem, rr *RunResult) string {
	st := statesFor(h, sem, rr.Ports)
	for i := -1; i < rr.Acks; i++ {
		lv := rr.Lives[i]
		if lv == nil {
			continue
		}
		if ds := cmpLive(st[i+1], lv); len(ds) > 0 {
			return fmt.Sprintf("after %s: %s [%s]", opDesc(h, i), ds[0].What, ds[0].Sig)
		}
	}
	return ""
}

// unit m = the kill exactly before operation m (after m acknowledged operations; m = 0:
// right after boot) followed by every hook hit inside operation m. The first is the
// baseline for the others, so one worker handles a whole unit. Unit len(ops) is the kill
// after the last acknowledgement.
type unit struct {
	m     int
	kills []Kill
}

func enumerate(hi *histInfo) []unit {
	n := len(hi.h.Ops)
	us := make([]unit, n+1)
	for m := 0; m <= n; m++ {
		us[m] = unit{m: m, kills: []Kill{{Type: "ack", After: m - 1}}}
	}
	var names []string
	for nm := range hi.dry.DoneHits {
		if strings.HasPrefix(nm, "db.") || strings.HasPrefix(nm, "ts.") {
			names = append(names, nm)
		}
	}
	sort.Strings(names)
	for _, nm := range names {
		for k := hi.dry.BootHits[nm] + 1; k <= hi.dry.DoneHits[nm]; k++ {
			m := n - 1
			for i := 0; i < len(hi.dry.AckHits) && i < n; i++ {
				if hi.dry.AckHits[i][nm] >= k {
					m = i
					break
				}
			}
			us[m].kills = append(us[m].kills, Kill{Type: "hook", Hook: nm, N: k})
		}
	}
	return us
}

// evaluate decides one executed case.
func evaluate(c *lib.Ctx, hi *histInfo, k Kill, rr *RunResult) {
	h := hi.h
	tag := fmt.Sprintf("history %d kill %s", h.Idx, k)
	if rr.infra() {
		e := ""
		if rr.Dump != nil {
			e = rr.Dump.Err
		}
		inconclusive(c, fmt.Sprintf("%s: infrastructure: A=%s B=%s %s %s", tag, rr.AState, rr.BState, rr.Fail, e))
		return
	}
	if !rr.Booted {
		c.Observe("kill_during_boot", 1)
		return
	}
	if rr.Fail != "" {
		// an operation did not get its protocol reply although the process was alive: not this
		// property's business (the reply paths belong to C01..C09), but never silently passed
		inconclusive(c, fmt.Sprintf("%s: %s was not acknowledged: %s", tag, opDesc(h, rr.FailOp), rr.Fail))
		return
	}
	killed := !rr.Done
	if killed && k.Type != "strace" && !strings.HasPrefix(rr.AState, "signal") {
		// not a SIGKILL: the process left on its own (e.g. os.Exit in Start() when the
		// teamserver port could not be bound)
		inconclusive(c, fmt.Sprintf("%s: child A ended without being killed: %s %s", tag, rr.AState, lastLines(rr.ALog, 6)))
		return
	}
	switch {
	case !killed && k.Type != "none":
		c.Observe("kill_point_not_reached", 1)
	case killed && k.Type == "none":
		inconclusive(c, fmt.Sprintf("%s: child A died on its own: %s %s", tag, rr.AState, lastLines(rr.ALog, 8)))
		return
	case killed:
		c.Observe("killed:"+k.Type, 1)
	}
	if d := liveMismatch(h, hi.sem, rr); d != "" {
		inconclusive(c, fmt.Sprintf("%s: model does not describe the first process' own state: %s", tag, d))
		return
	}
	m := rr.Acks
	wit := func(exp string, obs []string) Witness {
		w := Witness{History: truncated(h, m+1), Kill: k, Acked: m, Expected: exp, Observed: obs}
		if killed && m < len(h.Ops) && k.Type != "ack" {
			w.InFlight = opDesc(h, m)
		}
		if rr.Dump != nil {
			w.DBRows = rr.Dump.DBRows
			if len(w.DBRows) > 12 {
				w.DBRows = w.DBRows[:12]
			}
		}
		return w
	}
	if rr.Dump == nil || rr.Dump.Err != "" {
		if strings.Contains(rr.BLog, "panic:") || strings.Contains(rr.BLog, "fatal error:") || strings.Contains(rr.BLog, "[signal ") {
			w := wit("the restarted teamserver comes up and restores the recorded state", []string{"child B: " + rr.BState})
			w.BLog = lastLines(rr.BLog, 40)
			c.Violation("restart:crash@"+lib.TopHavocFrames(rr.BLog, 2), "the teamserver crashes when it is restarted on the data left by the killed process", w)
			return
		}
		e := ""
		if rr.Dump != nil {
			e = rr.Dump.Err
		}
		inconclusive(c, fmt.Sprintf("%s: child B gave no dump: %s %s %s", tag, rr.BState, e, lastLines(rr.BLog, 4)))
		return
	}
	c.Observe("restarts", 1)
	c.Distinct(fmt.Sprintf("%d/%s/%d", h.Idx, k, m))
	st := statesFor(h, hi.sem, rr.Ports)
	first := map[string]string{}
	if lv := rr.Lives[m-1]; lv != nil {
		for _, s := range lv.Sess {
			first[s.ID] = s.First
		}
	}
	d := rr.Dump
	c.Observe("sessions_restored", int64(len(d.TS.Sess)))
	c.Observe("sessions_announced", int64(len(d.OpSess)))
	c.Observe("listeners_restored", int64(len(d.TS.Lst)))
	c.Observe("listeners_announced", int64(len(d.OpLst)))
	c.Observe("links_restored", int64(len(pairsFromLinks(d.TS.Sess))))
	dead := 0
	for _, a := range st[m].Agents {
		if !a.Active {
			dead++
		}
	}
	c.Observe("dead_agents_at_kill", int64(dead))
	c.Observe("active_agents_at_kill", int64(len(st[m].Agents)-dead))
	c.Observe("links_at_kill", int64(len(st[m].Links)))
	c.Observe("listeners_at_kill", int64(len(st[m].Lst)))

	before := cmpDump(st[m], d, first)
	report := before
	key := func(x Diff) string { return x.Sig + "|" + x.Key }
	if killed && k.Type == "ack" && hi.base != nil {
		// a kill exactly between two operations is the baseline for the kill points inside
		// the next operation
		bl := &baseline{ok: true, diffs: map[string]bool{}}
		for _, x := range before {
			bl.diffs[key(x)] = true
		}
		hi.base[m] = bl
	}
	if killed && m < len(h.Ops) && k.Type != "ack" {
		c.Observe("in_flight:"+h.Ops[m].K, 1)
		after := cmpDump(st[m+1], d, first)
		// A difference of the fidelity classes (a stored value that comes back transformed)
		// never decides whether the in-flight operation was applied.
		strict := func(ds []Diff) (n int) {
			for _, x := range ds {
				if !fidelityClass(x.Sig) {
					n++
				}
			}
			return
		}
		minus := func(ds []Diff, bl *baseline) (out []Diff) {
			for _, x := range ds {
				if !bl.diffs[key(x)] {
					out = append(out, x)
				}
			}
			return
		}
		verdict := ""
		var newB, newA []Diff
		switch {
		case strict(before) == 0:
			verdict = "not-applied"
		case strict(after) == 0:
			verdict = "applied"
		default:
			// "Not applied" means: the recovered state is what a kill exactly before the
			// in-flight operation leaves behind (its differences from the model are the
			// defects that exist anyway); "applied" likewise with a kill exactly after it.
			b0 := hi.baselineFor(c, m)
			if !b0.ok {
				inconclusive(c, fmt.Sprintf("%s: baseline run (kill after %d acknowledged operations) failed", tag, m))
				return
			}
			if newB = minus(before, b0); strict(newB) == 0 {
				verdict = "not-applied"
				break
			}
			b1 := hi.baselineFor(c, m+1)
			if !b1.ok {
				inconclusive(c, fmt.Sprintf("%s: baseline run (kill after %d acknowledged operations) failed", tag, m+1))
				return
			}
			if newA = minus(after, b1); strict(newA) == 0 {
				verdict = "applied"
			}
		}
		switch verdict {
		case "not-applied":
			c.Observe("in_flight_not_applied", 1)
			report = before
		case "applied":
			c.Observe("in_flight_applied", 1)
			report = after
		default:
			// neither: report the torn state; differences both baselines share are reported
			// under their own signatures
			c.Observe("in_flight_torn", 1)
			report = nil
			inNewB := map[string]bool{}
			for _, x := range newB {
				inNewB[key(x)] = true
			}
			for _, x := range before {
				if !inNewB[key(x)] {
					report = append(report, x)
				}
			}
			cls := opClass(h, st[m], m)
			var obs []string
			for _, x := range newB {
				if !fidelityClass(x.Sig) {
					obs = append(obs, "vs not applied: "+x.What+" ["+x.Sig+"]")
				}
			}
			for _, x := range newA {
				if !fidelityClass(x.Sig) {
					obs = append(obs, "vs applied: "+x.What+" ["+x.Sig+"]")
				}
			}
			c.Violation("torn:"+cls, fmt.Sprintf("killed during %s (%s): the recovered state is neither the state before nor the state after that operation", cls, k.hookClass()),
				wit("state after the acknowledged operations, the in-flight operation applied completely or not at all", obs))
		}
	}
	bySig := map[string][]Diff{}
	for _, x := range report {
		bySig[x.Sig] = append(bySig[x.Sig], x)
	}
	for sig, xs := range bySig {
		var obs []string
		for _, x := range xs {
			obs = append(obs, x.What)
		}
		c.Violation(sig, xs[0].What, wit("state after all acknowledged operations", obs))
	}
	if len(report) == 0 {
		c.Observe("recovered_state_equal", 1)
	}
	c.SampleSome(40, func() any {
		return map[string]any{"history": h.Idx, "ops": len(h.Ops), "kill": k.String(), "acked": m, "in_flight": opDesc(h, m),
			"restored_sessions": len(d.TS.Sess), "restored_listeners": len(d.TS.Lst), "db_links": len(d.DBLinks), "diffs": len(report)}
	})
}

// fidelityClass: signatures that describe a recorded value coming back transformed (as
// opposed to an object or a change being present or absent).
func fidelityClass(sig string) bool {
	return sig == "meta:numeric-looking-text-rewritten" || strings.HasPrefix(sig, "listener:field-lost:") ||
		sig == "listener:empty-list-becomes-one-empty-string" || strings.HasPrefix(sig, "listener:list-item-split-on-comma-space:")
}

func (k Kill) hookClass() string {
	if k.Type == "hook" {
		return "at " + k.Hook
	}
	return k.Type
}

func run(c *lib.Ctx) {
	switch os.Getenv("VERIF_C10_ROLE") {
	case "A":
		childA()
		return
	case "B":
		childB()
		return
	}
	c.Rule("one case = (operation history, kill point): the real teamserver (child A) executes the history over its real listener/websocket endpoints and is SIGKILLed at the kill point; a second real teamserver process (child B) is started on the same directory and its restored sessions, links, running listener configurations, the operator replay and a fresh read of the database file are compared with an independent model of the acknowledged history. A case is distinct by (history, kill point, number of acknowledged operations) and counts only if the restart produced a state dump.")
	c.Assume("process death only (SIGKILL): loss or reordering of un-synced writes (power failure) is not produced",
		"acknowledgement = HTTP 200 of the listener for agent packages; for operator packages the echo of a later chat message on the same connection (the connection's goroutine dispatches in order), so a broadcast that precedes the database write is not taken as acknowledgement",
		"recorded metadata = the columns of TS_Agents (ProcessPath, OSBuild and the magic value are not persisted by design and are not compared); LastCallIn is time dependent and masked; FirstCallIn is compared with the value the first process held",
		"operations are issued sequentially (no concurrent writers): lost updates caused by SQLITE_BUSY under concurrency are out of reach of this check",
		"histories keep to pivot depth 1 and never kill an agent with two or more links (C09 owns UnlinkFromAll); listener edits are not part of the statement and are not generated",
		"the model's two in-memory facts (CHECKIN adopts the key in its body; in-memory state after each acknowledged operation) are validated against the first process' own state in every run; a disagreement makes the run inconclusive")

	if c.Replay != nil {
		var w Witness
		if err := json.Unmarshal(c.Replay, &w); err != nil || w.History == nil {
			inconclusive(c, "replay: witness has no history")
			return
		}
		hi := probe(c, w.History)
		c.Eval()
		if !hi.ok {
			inconclusive(c, "replay: "+hi.reason)
			return
		}
		c.Cur("c10-case", mustJSON(map[string]any{"history": w.History, "kill": w.Kill}))
		rr := runCase(c, w.History, w.Kill, true)
		evaluate(c, hi, w.Kill, rr)
		return
	}

	if c.Shard == 0 {
		sweepStale()
	}
	nHist := 6
	groups := 1
	if c.Thorough() {
		nHist = 100
		if c.Shards >= 4 {
			groups = c.Shards / 4
		}
	}
	// shard -> (group, position in group); a history belongs to one group, its kill points are
	// dealt round-robin to the group's members
	group := c.Shard % groups
	pos := c.Shard / groups
	gsize := 0
	for s := 0; s < c.Shards; s++ {
		if s%groups == group {
			gsize++
		}
	}
	complete := true
	unitNo := 0
	for hidx := 0; hidx < nHist; hidx++ {
		if hidx%groups != group {
			continue
		}
		if only := os.Getenv("VERIF_C10_ONLY"); only != "" && !strings.Contains(","+only+",", fmt.Sprintf(",%d,", hidx)) {
			continue // debugging aid, never set by the driver
		}
		h := genHistory(c.Seed, hidx, c.Thorough())
		if h.LateParent && pos == 0 {
			c.Observe("histories-ending-with-takeover-by-a-later-parent", 1)
		}
		if h.ParentDeath && pos == 0 {
			c.Observe("histories-ending-with-death-of-a-parent", 1)
		}
		c.Cur("c10-dry", mustJSON(map[string]any{"history": h}))
		hi := probe(c, h)
		if !hi.ok {
			complete = false
			if pos == 0 {
				inconclusive(c, hi.reason)
			}
			continue
		}
		units := enumerate(hi)
		if pos == 0 {
			c.Observe("histories", 1)
			for _, op := range h.Ops {
				c.Observe("op:"+op.K, 1)
			}
			for _, u := range units {
				c.Observe("kill_points_enumerated", int64(len(u.kills)))
			}
		}
		var extra []Kill
		if c.Thorough() {
			// (3) strace-injected SIGKILL at sampled write-family calls, (4) timed SIGKILLs
			r := rand.New(rand.NewSource(c.Seed*31 + int64(hidx)))
			if hi.dry.DoneW > hi.dry.BootW && straceOK() {
				for j := 0; j < 4; j++ {
					extra = append(extra, Kill{Type: "strace", When: hi.dry.BootW + 1 + r.Int63n(hi.dry.DoneW-hi.dry.BootW)})
				}
			}
			if span := hi.dry.TotalMs; span > 400 {
				for j := 0; j < 4; j++ {
					extra = append(extra, Kill{Type: "timer", Ms: 300 + r.Intn(span-300)})
				}
			}
		}
		do := func(k Kill) {
			c.Cur("c10-case", mustJSON(map[string]any{"history": h, "kill": k}))
			c.Eval()
			rr := runCase(c, h, k, true)
			inc := nInconclusive
			evaluate(c, hi, k, rr)
			if nInconclusive != inc && (k.Type == "ack" || k.Type == "hook") {
				complete = false // a kill point of the enumeration was not decided
			}
		}
		for _, u := range units {
			if unitNo%gsize == pos {
				for _, k := range u.kills {
					do(k)
				}
			}
			unitNo++
		}
		// (5) kills of the first restart itself, at the first hit of each database write point
		if hidx%2 == 0 || c.Thorough() {
			points := []string{"db.ListenerAdd.exec", "db.AgentAdd.exec", "db.LinkAdd.exec"}
			if c.Thorough() {
				points = append(points, "db.ListenerRemove.exec", "db.AgentUpdate.exec", "db.LinkRemove.exec")
			}
			for _, nm := range points {
				extra = append(extra, Kill{Type: "none", Hook: nm, N: 1, Restart: true})
			}
		}
		for j, k := range extra {
			if j%gsize == pos {
				do(k)
			}
		}
		c.Checkpoint()
	}
	// the enumeration (1)+(2) is exhaustive for each history: every acknowledged-operation
	// boundary and every hit of every db.*/ts.* hook seen in the dry run
	c.Exhaustive(complete)
}

// scratchRoot: run directories live on tmpfs when there is one. Only process death is
// modelled (page cache and tmpfs behave the same under SIGKILL), and 16 workers issuing
// fsyncs against one disk would otherwise spend most of the budget waiting for it.
func scratchRoot() string {
	if d := os.Getenv("VERIF_C10_SCRATCH"); d != "" {
		return d
	}
	if fi, err := os.Stat("/dev/shm"); err == nil && fi.IsDir() {
		if f, err := os.CreateTemp("/dev/shm", "c10-probe-"); err == nil {
			f.Close()
			os.Remove(f.Name())
			return "/dev/shm"
		}
	}
	return ""
}

// sweepStale removes run directories that a watchdog-killed worker left behind (older than
// an hour, so never one of a run in progress).
func sweepStale() {
	root := scratchRoot()
	if root == "" {
		root = os.TempDir()
	}
	ents, err := os.ReadDir(root)
	if err != nil {
		return
	}
	for _, e := range ents {
		if !e.IsDir() || !strings.HasPrefix(e.Name(), "c10-") {
			continue
		}
		if fi, err := e.Info(); err == nil && time.Since(fi.ModTime()) > time.Hour {
			os.RemoveAll(filepath.Join(root, e.Name()))
		}
	}
}

var straceChecked, straceWorks bool

func straceOK() bool {
	if !straceChecked {
		straceChecked = true
		_, err := exec.LookPath("strace")
		straceWorks = err == nil
	}
	return straceWorks
}

var nInconclusive int

func inconclusive(c *lib.Ctx, what string) {
	nInconclusive++
	c.Inconclusive(what)
}

func mustJSON(v any) []byte {
	b, _ := json.Marshal(v)
	return b
}
