// Package c05: "Only callbacks to outstanding tasks have any effect".
//
// Histories mix task issue, hand-out, genuine callbacks and completion over three agents
// with forged callbacks (never-issued id, id issued to another agent, completed id, 0,
// 2^32-1) for bodies that WOULD have a visible effect if accepted. Effects are observed at
// the agent.TeamServer interface (recording proxy), in the session/queue/link snapshot, in
// the loot tree and the database; a forged callback must leave all of them exactly as a
// bare check-in does.
package c05

import (
	"Havoc/pkg/agent"
	"Havoc/pkg/packager"
	"encoding/json"
	"fmt"
	"io"
	"math/rand"
	"net"
	"strings"
	"time"

	"Havoc/pkg/handlers"

	"verifh/demon"
	"verifh/lib"
	"verifh/model"
	"verifh/observe"
	"verifh/rig"
)

func init() { lib.Register("C05", run) }

type step struct {
	Op     string `json:"op"` // issue | handout | genuine | forge | replay-final | die
	Agent  int    `json:"agent"`
	Layout string `json:"layout,omitempty"`
	IDKind string `json:"id_kind,omitempty"` // never | other | completed | zero | max
	Pick   int    `json:"pick"`
}

type history struct {
	Pivot    bool   `json:"pivot"` // agent 1 is an SMB pivot child of agent 0
	SendLogs bool   `json:"send_logs"`
	Seed     int64  `json:"seed"`
	Steps    []step `json:"steps"`
}

// effectful layouts: accepted => visible effect
var effectful = []string{"fs.download.close", "exit", "kill_date", "sleep.fixed", "config.killdate", "output", "fs.cd", "proc.kill", "net.domain", "beacon.output", "inline.ran_ok", "fs.download.open", "checkin.meta", "job.list", "token.make", "fs.pwd", "error.win32", "assembly.finished"}

func bodyFor(name string, rng *rand.Rand, s *rig.Sim) (cmd uint32, body []byte, final bool) {
	switch name {
	case "fs.download.open":
		var p demon.Pkg
		p.I32(2).I32(0).I32(uint32(0x700 + rng.Intn(100))).I64(10).WStr(fmt.Sprintf("C:\\t\\forged%d.bin", rng.Intn(1000)))
		return 15, p.B, false
	case "fs.download.close":
		// close of a transfer (reason 0 = finished): the terminal package of a download task
		var p demon.Pkg
		p.I32(2).I32(2).I32(uint32(0x700 + rng.Intn(100))).I32(0)
		return 15, p.B, true
	case "checkin.meta":
		var p demon.Pkg
		m := s.Meta
		m.Hostname = "FORGED-HOST"
		m.Sleep = 7777
		p.Pad(s.Key).Pad(s.IV).Pad(m.MetaBody())
		return demon.CmdCheckin, p.B, true
	}
	l := model.LayoutByName(name)
	in := model.Instantiate(l, rng, model.ASCII)
	return l.Cmd, in.Body(), l.Final
}

type world struct {
	r     *rig.Rig
	h     *handlers.HTTP
	rec   *rig.Recorder
	sims  []*rig.Sim
	out   []map[uint32]bool // outstanding per agent (model)
	done  [][]uint32        // completed ids per agent
	queue [][]uint32        // issued, not yet handed out (still outstanding for the gate)
	next  uint32
	rng   *rand.Rand
	db    string
	loot  string
	pivot bool
	// relayIDs: request ids that agents used in relay callbacks (never issued by anybody)
	relayIDs []uint32
}

func (w *world) snapshot() string {
	return observe.Snapshot(w.r.TS, w.db, w.loot).JSON()
}

func (w *world) checkin(i int, cbs ...demon.Callback) rig.Resp {
	if w.pivot && i == 1 {
		// the child's package travels inside its parent's check-in
		inner := demon.Checkin(w.sims[1].ID, w.sims[1].Key, w.sims[1].IV, cbs...)
		resp, _, _ := w.sims[0].Checkin(w.h.GinEngine, demon.PivotWrap(inner))
		return resp
	}
	resp, _, _ := w.sims[i].Checkin(w.h.GinEngine, cbs...)
	return resp
}

func runHistory(c *lib.Ctx, h history) (sig, what string) {
	r, err := rig.New(rig.Options{SendLogs: h.SendLogs})
	if err != nil {
		c.Inconclusive(err.Error())
		return
	}
	defer r.Close()
	hh, err := r.StartHTTP(handlers.HTTPConfig{Name: "c05"})
	if err != nil {
		c.Inconclusive(err.Error())
		return
	}
	w := &world{r: r, h: hh, rec: rig.NewRecorder(r.TS), next: 0x40000, rng: rand.New(rand.NewSource(h.Seed)),
		db: r.Dir + "/data/teamserver.db", loot: r.Dir + "/data/loot", pivot: h.Pivot}
	hh.Teamserver = w.rec
	for i, id := range []uint32{0x0a0a0001, 0x7ffffff0, 0x90000003} {
		s := rig.NewSim(w.rng, id)
		if h.Pivot && i == 1 {
			// registered through agent 0's SMB connect callback
			w.next++
			rig.TaskSimple(r.TS, w.sims[0].Hex(), w.next)
			w.sims[0].Checkin(hh.GinEngine)
			w.sims[0].Checkin(hh.GinEngine, demon.SmbConnect(w.next, s.RegisterBytes()))
			if len(r.TS.Agents.Agents) != 2 {
				c.Inconclusive("setup: pivot registration failed")
				return
			}
		} else if resp := s.Register(hh.GinEngine); resp.Status != 200 {
			c.Inconclusive(fmt.Sprintf("setup: registration %d failed", i))
			return
		}
		w.sims = append(w.sims, s)
		w.out = append(w.out, map[uint32]bool{})
		w.done = append(w.done, nil)
		w.queue = append(w.queue, nil)
	}
	w.rec.Take()

	for si, st := range h.Steps {
		a := st.Agent % len(w.sims)
		switch st.Op {
		case "issue":
			w.next++
			rig.TaskSimple(r.TS, w.sims[a].Hex(), w.next)
			w.out[a][w.next] = true
			w.queue[a] = append(w.queue[a], w.next)
		case "handout":
			if resp := w.checkin(a); resp.Panic != nil {
				return lib.PanicSig(resp.Panic, resp.Stack), fmt.Sprintf("step %d: check-in panics: %v", si, resp.Panic)
			}
			w.queue[a] = nil
			w.rec.Take()
		case "socks-gone":
			// relay traffic makes the teamserver queue packets of its own for the agent (no operator
			// task behind them): a SOCKS client asks for a connection and resets; the agent's
			// connect answer (under a request id R that was never issued) cannot be passed on, and
			// the teamserver queues a close packet for the agent. Neither R nor any other id
			// becomes acceptable by that.
			if h.Pivot && a == 1 {
				continue
			}
			port := rig.FreePort()
			if port == 0 {
				continue
			}
			socksCmd := func(cmd string) {
				w.next++
				r.TS.DispatchEvent(packager.Package{
					Head: packager.Head{Event: packager.Type.Session.Type, User: "alice"},
					Body: packager.Body{SubEvent: packager.Type.Session.Input, Info: map[string]any{
						"DemonID": w.sims[a].Hex(), "CommandID": "2540", "TaskID": fmt.Sprintf("%08X", w.next),
						"CommandLine": fmt.Sprintf("%s %d", cmd, port), "Command": cmd, "Params": fmt.Sprint(port)}}})
			}
			socksCmd("socks add")
			if rig.WaitTCP(fmt.Sprintf("127.0.0.1:%d", port), 5*time.Second) {
				var ag *agent.Agent
				for _, x := range r.TS.Agents.Agents {
					if x.NameID == w.sims[a].Hex() {
						ag = x
					}
				}
				socksID := func() int32 {
					ag.SocksCliMtx.Lock()
					defer ag.SocksCliMtx.Unlock()
					for _, cl := range ag.SocksCli {
						return cl.SocketID
					}
					return 0
				}
				if conn, err := net.DialTimeout("tcp", fmt.Sprintf("127.0.0.1:%d", port), 5*time.Second); err == nil {
					conn.SetDeadline(time.Now().Add(5 * time.Second))
					conn.Write([]byte{5, 1, 0})
					io.ReadFull(conn, make([]byte, 2))
					conn.Write([]byte{5, 1, 0, 1, 10, 9, 8, 7, 0, 80})
					var sid int32
					for i := 0; i < 1000 && sid == 0; i++ {
						if sid = socksID(); sid == 0 {
							time.Sleep(time.Millisecond)
						}
					}
					conn.(*net.TCPConn).SetLinger(0)
					conn.Close()
					time.Sleep(5 * time.Millisecond) // the reset has arrived before the agent answers
					if sid != 0 {
						relayID := 0x68000000 + uint32(st.Pick)
						var p demon.Pkg
						p.I32(0x14).Bool(true).I32(uint32(sid)).I32(0)
						w.checkin(a, demon.Callback{Cmd: demon.CmdSocket, ReqID: relayID, Body: p.B})
						w.relayIDs = append(w.relayIDs, relayID)
						c.Observe("socks-connect-answers-for-a-client-that-is-gone", 1)
					}
				}
			}
			socksCmd("socks kill")
			rig.ReleasePort(port)
			w.checkin(a)
			w.queue[a] = nil
			w.rec.Take()
		case "drain":
			// every outstanding task of the agent is answered by its final callback
			for len(w.out[a]) > 0 {
				var id uint32
				for k := range w.out[a] {
					if id == 0 || k < id {
						id = k
					}
				}
				cmd, body, _ := bodyFor("fs.pwd", w.rng, w.sims[a])
				if resp := w.checkin(a, demon.Callback{Cmd: cmd, ReqID: id, Body: body}); resp.Panic != nil {
					return lib.PanicSig(resp.Panic, resp.Stack), fmt.Sprintf("step %d: final callback panics: %v", si, resp.Panic)
				}
				delete(w.out[a], id)
				w.done[a] = append(w.done[a], id)
			}
			w.rec.Take()
		case "die":
			// the session ends with a genuine final exit callback (a task is issued and handed
			// out for it); forged callbacks that follow meet a dead session
			w.next++
			id := w.next
			rig.TaskSimple(r.TS, w.sims[a].Hex(), id)
			w.checkin(a)
			w.queue[a] = nil
			var p demon.Pkg
			p.I32(uint32(1 + st.Pick%2))
			if resp := w.checkin(a, demon.Callback{Cmd: 92, ReqID: id, Body: p.B}); resp.Panic != nil {
				return lib.PanicSig(resp.Panic, resp.Stack), fmt.Sprintf("step %d: exit callback panics: %v", si, resp.Panic)
			}
			w.done[a] = append(w.done[a], id)
			w.rec.Take()
			for _, ag := range r.TS.Agents.Agents {
				if ag.NameID == w.sims[a].Hex() && !ag.Active {
					c.Observe("sessions-ended-by-exit-callback", 1)
				}
			}
		case "genuine":
			var id uint32
			for k := range w.out[a] {
				if id == 0 || k < id {
					id = k
				}
			}
			if id == 0 {
				continue
			}
			cmd, body, final := bodyFor(st.Layout, w.rng, w.sims[a])
			before := w.snapshot()
			resp := w.checkin(a, demon.Callback{Cmd: cmd, ReqID: id, Body: body})
			if resp.Panic != nil {
				return lib.PanicSig(resp.Panic, resp.Stack), fmt.Sprintf("step %d: genuine %s callback panics: %v", si, st.Layout, resp.Panic)
			}
			eff := w.rec.Take()
			if len(eff) == 0 && before == w.snapshot() {
				return "genuine-callback-dropped:" + st.Layout, fmt.Sprintf("step %d: callback %s with outstanding id %#x of agent %s had no effect at all", si, st.Layout, id, w.sims[a].Hex())
			}
			if final {
				delete(w.out[a], id)
				w.done[a] = append(w.done[a], id)
			}
			if st.Layout == "exit" || st.Layout == "kill_date" {
				// a dead agent's other ids stay outstanding; nothing else to model
			}
		case "forge-multi":
			// one request, several callbacks: a forged one (console output with its own marker
			// text) next to a genuine one for an outstanding task; the forged text must not show
			var good uint32
			for k := range w.out[a] {
				if good == 0 || k < good {
					good = k
				}
			}
			if good == 0 {
				continue
			}
			var bad uint32
			switch st.IDKind {
			case "other":
				o := (a + 1 + st.Pick%2) % len(w.sims)
				for k := range w.out[o] {
					if !w.out[a][k] && (bad == 0 || k < bad) {
						bad = k
					}
				}
				if bad == 0 {
					continue
				}
			case "completed":
				if len(w.done[a]) == 0 {
					continue
				}
				bad = w.done[a][st.Pick%len(w.done[a])]
			default:
				bad = 0x67000000 + uint32(st.Pick)
			}
			if w.out[a][bad] {
				continue
			}
			forgedText := fmt.Sprintf("FORGED-%08x-%d", w.rng.Uint32(), si)
			genuineText := fmt.Sprintf("GENUINE-%08x-%d", w.rng.Uint32(), si)
			mk := func(id uint32, text string) demon.Callback {
				var p demon.Pkg
				p.Str(text)
				return demon.Callback{Cmd: 90, ReqID: id, Body: p.B}
			}
			cbs := []demon.Callback{mk(bad, forgedText), mk(good, genuineText)}
			if st.Pick%2 == 1 {
				cbs[0], cbs[1] = cbs[1], cbs[0]
			}
			w.checkin(a)
			w.queue[a] = nil
			w.rec.Take()
			resp := w.checkin(a, cbs...)
			if resp.Panic != nil {
				return lib.PanicSig(resp.Panic, resp.Stack), fmt.Sprintf("step %d: request with two callbacks panics: %v", si, resp.Panic)
			}
			sawGenuine := false
			for _, ef := range w.rec.Take() {
				for _, v := range ef.Output {
					if strings.Contains(v, forgedText) {
						return "forged-callback-effect:next-to-a-genuine-callback:" + st.IDKind, fmt.Sprintf("step %d: a request of agent %s carried two output callbacks, one with the %s request id %#x and one with the outstanding id %#x; the text of the forged one reached the console", si, w.sims[a].Hex(), st.IDKind, bad, good)
					}
					if strings.Contains(v, genuineText) {
						sawGenuine = true
					}
				}
			}
			if !sawGenuine && !h.Pivot {
				return "genuine-callback-dropped:next-to-a-forged-callback", fmt.Sprintf("step %d: the output callback with the outstanding id %#x did not reach the console when it shared a request with a forged one", si, good)
			}
			c.Observe("multi-callback-forgeries", 1)
		case "forge", "replay-final":
			var id uint32
			kind := st.IDKind
			if st.Op == "replay-final" {
				kind = "completed"
			}
			switch kind {
			case "never":
				id = 0x66000000 + uint32(st.Pick)
			case "other":
				o := (a + 1 + st.Pick%2) % len(w.sims)
				for k := range w.out[o] {
					if !w.out[a][k] && (id == 0 || k < id) {
						id = k
					}
				}
				if id == 0 {
					continue
				}
			case "completed":
				if len(w.done[a]) == 0 {
					continue
				}
				id = w.done[a][st.Pick%len(w.done[a])]
				if st.IDKind == "last" {
					id = w.done[a][len(w.done[a])-1]
				}
			case "relay":
				if len(w.relayIDs) == 0 {
					continue
				}
				id = w.relayIDs[st.Pick%len(w.relayIDs)]
			case "zero":
				id = 0
			case "max":
				id = 0xffffffff
			}
			if w.out[a][id] {
				continue
			}
			cmd, body, _ := bodyFor(st.Layout, w.rng, w.sims[a])
			if cmd == 94 && h.SendLogs {
				continue // beacon output is accepted without a task when log forwarding is on
			}
			// differential baseline: a bare check-in first (hands out whatever is queued and
			// does the last-seen bookkeeping), so that the forged request differs from the
			// state it meets only by the forged callback
			w.checkin(a)
			w.queue[a] = nil
			w.rec.Take()
			w.checkin(a)
			base := effKey(w.rec.Take()) // what a bare check-in on this route causes by itself
			before := w.snapshot()
			resp := w.checkin(a, demon.Callback{Cmd: cmd, ReqID: id, Body: body})
			if resp.Panic != nil {
				return lib.PanicSig(resp.Panic, resp.Stack), fmt.Sprintf("step %d: forged %s callback panics: %v", si, st.Layout, resp.Panic)
			}
			eff := w.rec.Take()
			after := w.snapshot()
			if effKey(eff) != base {
				b, _ := json.Marshal(eff)
				return fmt.Sprintf("forged-callback-effect:%s:%s", kind, firstCall(eff)), fmt.Sprintf("step %d: callback %s for agent %s with %s request id %#x caused %s", si, st.Layout, w.sims[a].Hex(), kind, id, clip(string(b), 400))
			}
			if before != after {
				return fmt.Sprintf("forged-callback-state:%s", kind), fmt.Sprintf("step %d: callback %s for agent %s with %s request id %#x changed state: %v", si, st.Layout, w.sims[a].Hex(), kind, id,
					observe.Diff(mustState(before), mustState(after)))
			}
		}
	}
	return "", ""
}

func effKey(e []rig.Effect) string {
	var sb []string
	for _, x := range e {
		sb = append(sb, x.Call+"/"+x.Agent+"/"+fmt.Sprint(len(x.Output)))
	}
	return fmt.Sprint(sb)
}

func firstCall(e []rig.Effect) string {
	for _, x := range e {
		if len(x.Output) > 0 || x.Call != "AgentConsole" {
			return x.Call
		}
	}
	if len(e) > 0 {
		return e[0].Call
	}
	return "none"
}

func mustState(s string) observe.State {
	var st observe.State
	json.Unmarshal([]byte(s), &st)
	return st
}

func clip(s string, n int) string {
	if len(s) > n {
		return s[:n] + "…"
	}
	return s
}

func gen(rng *rand.Rand) history {
	h := history{SendLogs: rng.Intn(2) == 0, Seed: rng.Int63(), Pivot: rng.Intn(3) == 0}
	kinds := []string{"never", "other", "completed", "zero", "max"}
	// warm-up: every agent gets tasks
	for a := 0; a < 3; a++ {
		for k := 0; k < 2+rng.Intn(3); k++ {
			h.Steps = append(h.Steps, step{Op: "issue", Agent: a})
		}
		if rng.Intn(3) != 0 {
			h.Steps = append(h.Steps, step{Op: "handout", Agent: a})
		}
	}
	if rng.Intn(3) == 0 {
		// one session is dead for the rest of the history (not the pivot parent)
		h.Steps = append(h.Steps, step{Op: "die", Agent: 1 + rng.Intn(2), Pick: rng.Intn(2)})
	}
	if rng.Intn(3) == 0 {
		// a task answers in two steps while another task is issued in between, then its id is
		// replayed: whatever the teamserver remembers about "the task being answered" must not
		// outlive the task
		a := rng.Intn(3)
		fin := []string{"sleep.fixed", "fs.cd", "fs.pwd", "checkin.meta"}[rng.Intn(4)]
		h.Steps = append(h.Steps,
			step{Op: "handout", Agent: a}, step{Op: "drain", Agent: a},
			step{Op: "issue", Agent: a}, step{Op: "handout", Agent: a},
			step{Op: "genuine", Agent: a, Layout: "output"},
			step{Op: "issue", Agent: a}, step{Op: "handout", Agent: a},
			step{Op: "genuine", Agent: a, Layout: fin},
			step{Op: "replay-final", Agent: a, Layout: "output", IDKind: "last"},
			step{Op: "replay-final", Agent: a, Layout: effectful[rng.Intn(len(effectful))], IDKind: "last"})
	}
	if rng.Intn(4) == 0 {
		a := []int{0, 2}[rng.Intn(2)]
		h.Steps = append(h.Steps, step{Op: "socks-gone", Agent: a, Pick: rng.Intn(1000)},
			step{Op: "forge", Agent: a, Layout: "output", IDKind: "relay", Pick: 0},
			step{Op: "forge", Agent: a, Layout: effectful[rng.Intn(len(effectful))], IDKind: "zero"},
			step{Op: "forge", Agent: a, Layout: "sleep.fixed", IDKind: "relay", Pick: 0})
	}
	n := 12 + rng.Intn(18)
	finals := []string{"checkin.meta", "fs.download.close", "sleep.fixed", "config.killdate"}
	for _, l := range model.Layouts {
		if l.Final && !l.NoTask {
			finals = append(finals, l.Name)
		}
	}
	for i := 0; i < n; i++ {
		a := rng.Intn(3)
		switch k := rng.Intn(10); {
		case k < 1:
			h.Steps = append(h.Steps, step{Op: "issue", Agent: a})
		case k < 2:
			h.Steps = append(h.Steps, step{Op: "handout", Agent: a})
		case k < 4:
			h.Steps = append(h.Steps, step{Op: "genuine", Agent: a, Layout: finals[rng.Intn(len(finals))]})
		case k < 5:
			h.Steps = append(h.Steps, step{Op: "replay-final", Agent: a, Layout: effectful[rng.Intn(len(effectful))], Pick: rng.Intn(8)})
			if rng.Intn(2) == 0 {
				h.Steps = append(h.Steps, step{Op: "forge-multi", Agent: a, IDKind: []string{"never", "other", "completed"}[rng.Intn(3)], Pick: rng.Intn(1000)})
			}
		default:
			h.Steps = append(h.Steps, step{Op: "forge", Agent: a, Layout: effectful[rng.Intn(len(effectful))], IDKind: kinds[rng.Intn(len(kinds))], Pick: rng.Intn(1000)})
		}
	}
	return h
}

func run(c *lib.Ctx) {
	c.Rule("histories of issue / hand-out / genuine final callback / forged callback / replayed final callback over 3 agents (ids below and above 2^31), SendLogs on and off; forged ids from {never issued, outstanding for another agent, completed, 0, 2^32-1} x 18 bodies that have a visible effect when accepted; distinct = distinct history; non-trivial = contains a forged or replayed callback that was actually sent")
	c.Assume("effects are observed at the agent.TeamServer interface, in the session/queue/link/download snapshot, the database rows (timestamps masked) and the loot tree", "'final' follows the places where the Demon sends one terminal package (model.Layouts); kinds with possible later output are never treated as final",
		"relay kinds (COMMAND_SOCKET, COMMAND_PIVOT) and, with log forwarding on, BEACON_OUTPUT are outside the assertion")
	one := func(h history) {
		b, _ := json.Marshal(h)
		c.Cur("history", b)
		c.Eval()
		c.DistinctBytes(b)
		for _, s := range h.Steps {
			c.Observe("op."+s.Op, 1)
			if s.Op == "forge" {
				c.Observe("forge."+s.IDKind, 1)
			}
		}
		c.SampleSome(100, func() any { return h })
		if sig, what := runHistory(c, h); sig != "" {
			c.Violation(sig, what, h)
		}
	}
	if c.Replay != nil {
		var h history
		if json.Unmarshal(c.Replay, &h) == nil {
			one(h)
		}
		return
	}
	n := c.N(2400, 60000)
	for i := 0; i < n; i++ {
		one(gen(c.Rng))
	}
}
