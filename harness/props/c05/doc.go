// Package c05 holds the workload and monitor for property C05 (see /verif/DESIGN.md §3).
package c05
