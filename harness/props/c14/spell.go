package c14

import (
	"math/rand"
	"regexp"
	"strconv"
	"strings"
	"unicode"
	"unicode/utf8"
)

// The speller writes single values in one of the spellings the dialect defines.  It is
// written from the language rules (DESIGN.md 2.9, Appendix C/D), not from the scanner.

type strCtx int

const (
	ctxAttr  strCtx = iota // attribute value, list element, map value
	ctxKey                 // object key
	ctxLabel               // block label
)

type speller struct {
	rng       *rand.Rand
	nl        string
	noHeredoc bool
	plain     bool // witnesses: the plainest spelling everywhere
	obs       func(string)
}

func (s *speller) note(k string) {
	if s.obs != nil {
		s.obs("sp:" + k)
	}
}

var reBareNum = regexp.MustCompile(`^(0|-?[1-9][0-9]{0,17})$`)

func isIdentStartRune(r rune) bool {
	switch {
	case r == '_', r >= 'a' && r <= 'z', r >= 'A' && r <= 'Z':
		return true
	case r >= 0xc0 && r <= 0x24f && unicode.IsLetter(r):
		return true
	case r >= 0x391 && r <= 0x3c9 && unicode.IsLetter(r):
		return true
	case r >= 0x410 && r <= 0x44f:
		return true
	case r >= 0x4e00 && r <= 0x9fa5:
		return true
	}
	return false
}

func isIdent(v string) bool {
	if v == "" || !utf8.ValidString(v) {
		return false
	}
	for i, r := range v {
		if i == 0 {
			if !isIdentStartRune(r) {
				return false
			}
			continue
		}
		if !(isIdentStartRune(r) || (r >= '0' && r <= '9') || r == '-') {
			return false
		}
	}
	return true
}

func isHexDigit(c byte) bool {
	return c >= '0' && c <= '9' || c >= 'a' && c <= 'f' || c >= 'A' && c <= 'F'
}

const (
	qRaw = iota
	qEsc
	qHex
)

func (s *speller) hexPair(b *strings.Builder, c byte) {
	const lo, up = "0123456789abcdef", "0123456789ABCDEF"
	for _, n := range []byte{c >> 4, c & 15} {
		if s.rng.Intn(2) == 0 {
			b.WriteByte(lo[n])
		} else {
			b.WriteByte(up[n])
		}
	}
}

// quoted writes v as a quoted template literal.
func (s *speller) quoted(v string, mode int) string {
	var b strings.Builder
	b.Grow(len(v) + 2)
	b.WriteByte('"')
	inHex := false
	runLen := 0 // hex digits in the current \x run: runs are written with 2 or 4 digits only
	for i := 0; i < len(v); {
		r, size := utf8.DecodeRuneInString(v[i:])
		c := v[i]
		invalid := r == utf8.RuneError && size == 1
		hex := invalid || mode == qHex || (mode == qEsc && s.rng.Intn(7) == 0)
		if inHex && size == 1 && isHexDigit(c) {
			// a literal hex digit directly after a \x run would be swallowed by the run
			hex = true
		}
		if !hex && (c == '$' || c == '%') && i+1 < len(v) && v[i+1] == '{' {
			if mode == qEsc && s.rng.Intn(4) == 0 {
				hex = true // "\x24{" is a literal "${" as well
			} else {
				b.WriteByte(c)
				b.WriteByte(c)
				b.WriteByte('{')
				i += 2
				inHex = false
				continue
			}
		}
		if hex {
			for k := 0; k < size; k++ {
				if !inHex || runLen != 2 || s.rng.Intn(2) == 0 {
					b.WriteString(`\x`)
					runLen = 0
				}
				s.hexPair(&b, v[i+k])
				runLen += 2
				inHex = true
			}
			i += size
			continue
		}
		inHex = false
		switch c {
		case '"':
			b.WriteString(`\"`)
		case '\\':
			b.WriteString(`\\`)
		case '\n':
			b.WriteString(`\n`)
		case '\r':
			b.WriteString(`\r`)
		case '\t':
			if mode == qEsc && s.rng.Intn(2) == 0 || s.plain {
				b.WriteString(`\t`)
			} else {
				b.WriteByte('\t')
			}
		default:
			b.WriteString(v[i : i+size])
		}
		i += size
	}
	b.WriteByte('"')
	return b.String()
}

var heredocIDs = []string{"EOT", "EOF", "END", "E", "_", "X9", "EOT-1", "a_b", "é", "ТЕКСТ", "eot", "DOC"}

// heredoc writes v as <<ID / <<-ID; ok=false when v is not representable that way.
func (s *speller) heredoc(v string, flush bool) (string, bool) {
	if s.noHeredoc || s.nl != "\n" || !utf8.ValidString(v) {
		return "", false
	}
	if v != "" && !strings.HasSuffix(v, "\n") {
		return "", false
	}
	for i := 0; i < len(v); i++ {
		if v[i] == '\r' && (i+1 >= len(v) || v[i+1] != '\n') {
			return "", false
		}
	}
	var lines []string
	if v != "" {
		lines = strings.SplitAfter(v[:len(v)-1], "\n")
		lines[len(lines)-1] += "\n"
	}
	id := heredocIDs[s.rng.Intn(len(heredocIDs))]
	if s.plain {
		id = "EOT"
	}
	for clash := true; clash; {
		clash = false
		for _, ln := range lines {
			if strings.TrimSpace(ln) == id {
				clash = true
				id += "X"
				break
			}
		}
	}
	prefix := ""
	if flush {
		anyText, anyFlushLeft := false, false
		for _, ln := range lines {
			if strings.TrimLeftFunc(ln, unicode.IsSpace) == "" {
				continue // blank line: not counted, not stripped
			}
			anyText = true
			r, _ := utf8.DecodeRuneInString(ln)
			if !unicode.IsSpace(r) {
				anyFlushLeft = true
			}
		}
		if anyText && !anyFlushLeft {
			return "", false // the common indentation would be stripped from the value itself
		}
		if anyText {
			ch := " "
			if s.rng.Intn(4) == 0 {
				ch = "\t"
			}
			prefix = strings.Repeat(ch, s.rng.Intn(7))
			if s.plain {
				prefix = "  "
			}
		}
	}
	var b strings.Builder
	b.WriteString("<<")
	if flush {
		b.WriteByte('-')
	}
	b.WriteString(id)
	b.WriteString("\n")
	for _, ln := range lines {
		if flush && strings.TrimLeftFunc(ln, unicode.IsSpace) != "" {
			b.WriteString(prefix)
		}
		for i := 0; i < len(ln); i++ {
			c := ln[i]
			if (c == '$' || c == '%') && i+1 < len(ln) && ln[i+1] == '{' {
				b.WriteByte(c)
			}
			b.WriteByte(c)
		}
	}
	if !s.plain {
		switch s.rng.Intn(4) {
		case 0:
			b.WriteString(strings.Repeat(" ", 1+s.rng.Intn(6)))
		case 1:
			if flush {
				b.WriteString(prefix)
			}
		}
	}
	b.WriteString(id)
	return b.String(), true
}

// str spells a string value. force != "" demands one spelling kind (ok=false if it does
// not apply to v). oneLine forbids spellings that span lines.
func (s *speller) str(v string, ctx strCtx, oneLine bool, force string) (text, kind string, ok bool) {
	type opt struct {
		k string
		w int
	}
	var opts []opt
	add := func(k string, w int) {
		if force == "" || force == k {
			opts = append(opts, opt{k, w})
		}
	}
	if s.plain && force == "" {
		add("q-raw", 1)
	} else {
		add("q-raw", 30)
		add("q-esc", 30)
		add("q-hex", 6)
		if len(v) > 4096 && force == "" {
			opts = opts[:2] // keep huge values cheap
		}
		switch ctx {
		case ctxAttr:
			if reBareNum.MatchString(v) {
				add("bare-num", 60)
			}
			if v == "true" || v == "false" {
				add("bare-bool", 60)
			}
			if !oneLine && !s.noHeredoc && s.nl == "\n" && (v == "" || strings.HasSuffix(v, "\n")) {
				w := 60
				if v == "" {
					w = 4
				}
				add("heredoc", w)
				add("heredoc-flush", w)
			}
		case ctxKey, ctxLabel:
			if isIdent(v) && !(ctx == ctxKey && (v == "for" || v == "true" || v == "false" || v == "null")) {
				add("ident", 50)
			}
		}
	}
	for len(opts) > 0 {
		tot := 0
		for _, o := range opts {
			tot += o.w
		}
		x, pick := s.rng.Intn(tot), 0
		for i, o := range opts {
			if x < o.w {
				pick = i
				break
			}
			x -= o.w
		}
		k := opts[pick].k
		switch k {
		case "q-raw":
			return s.quoted(v, qRaw), k, true
		case "q-esc":
			return s.quoted(v, qEsc), k, true
		case "q-hex":
			return s.quoted(v, qHex), k, true
		case "bare-num", "bare-bool", "ident":
			return v, k, true
		case "heredoc", "heredoc-flush":
			if t, ok := s.heredoc(v, k == "heredoc-flush"); ok {
				return t, k, true
			}
		}
		opts = append(opts[:pick], opts[pick+1:]...)
	}
	return "", "", false
}

// integer spellings
func (s *speller) integer(neg bool, mag uint64, force string) (string, string) {
	dec := strconv.FormatUint(mag, 10)
	sign := ""
	if neg {
		sign = "-"
	}
	kinds := []string{"dec", "dec", "dec", "q-dec", "q-dec", "exp", "q-exp", "frac0", "lead0"}
	k := kinds[s.rng.Intn(len(kinds))]
	if s.plain {
		k = "dec"
	}
	if force != "" {
		k = force
	}
	switch k {
	case "q-dec":
		return `"` + sign + dec + `"`, k
	case "exp", "q-exp":
		e := s.rng.Intn(len(dec))
		if mag == 0 {
			e = s.rng.Intn(3)
			dec = "0"
		}
		var t string
		if e == 0 || mag == 0 {
			t = dec + "e" + strconv.Itoa(e)
		} else {
			t = dec[:len(dec)-e] + "." + dec[len(dec)-e:] + []string{"e", "E", "e+", "E+"}[s.rng.Intn(4)] + strconv.Itoa(e)
			// trailing zeros of the mantissa may go
			if s.rng.Intn(2) == 0 {
				t2 := strings.TrimRight(dec[len(dec)-e:], "0")
				if t2 == "" {
					t = dec[:len(dec)-e] + "e" + strconv.Itoa(e)
				} else {
					t = dec[:len(dec)-e] + "." + t2 + "e" + strconv.Itoa(e)
				}
			}
		}
		if k == "q-exp" {
			return `"` + sign + t + `"`, k
		}
		return sign + t, k
	case "frac0":
		return sign + dec + "." + strings.Repeat("0", 1+s.rng.Intn(3)), k
	case "lead0":
		return sign + strings.Repeat("0", 1+s.rng.Intn(3)) + dec, k
	}
	return sign + dec, "dec"
}

func (s *speller) boolean(v bool, force string) (string, string) {
	t := strconv.FormatBool(v)
	k := "bare"
	if !s.plain && s.rng.Intn(3) == 0 {
		k = "q-bool"
	}
	if force != "" {
		k = force
	}
	if k == "q-bool" {
		return `"` + t + `"`, k
	}
	return t, "bare"
}

var commentWords = []string{"comment", "our callback host.", "TODO", "\"quoted\"", "${not.a.template}", "%{if x}", "<<EOT", "{", "}", "= 1",
	"Host = \"h\"", "é ü 漢字 🙂", "\\", "*", "/", "#", "//", "a\tb", "[", "]", "'", "EOT"}

func (s *speller) commentText() string {
	n := s.rng.Intn(4)
	var parts []string
	for i := 0; i < n; i++ {
		parts = append(parts, commentWords[s.rng.Intn(len(commentWords))])
	}
	return strings.Join(parts, " ")
}

// lineComment is a comment that runs to the end of the line.
func (s *speller) lineComment() string {
	if s.rng.Intn(2) == 0 {
		return "#" + s.commentText()
	}
	return "// " + s.commentText()
}

// inlineComment can stand between two tokens of one line.
func (s *speller) inlineComment() string {
	t := strings.ReplaceAll(s.commentText(), "*/", "* /")
	return "/* " + t + " */"
}

func (s *speller) blockComment() string {
	n := 1 + s.rng.Intn(3)
	var parts []string
	for i := 0; i < n; i++ {
		parts = append(parts, strings.ReplaceAll(s.commentText(), "*/", "* /"))
	}
	return "/*" + strings.Join(parts, s.nl) + "*/"
}

func (s *speller) ws(min, max int) string {
	if s.plain {
		return strings.Repeat(" ", min)
	}
	n := min + s.rng.Intn(max-min+1)
	if n > 0 && s.rng.Intn(10) == 0 {
		return strings.Repeat("\t", n)
	}
	return strings.Repeat(" ", n)
}
