package c14

import (
	"math"
	"math/rand"
	"reflect"
	"strings"
	"unicode"
	"unicode/utf8"

	"golang.org/x/text/unicode/norm"
)

// gen draws HavocConfig values.  All randomness comes from rng.
type gen struct {
	rng    *rand.Rand
	pOpt   float64 // probability that an optional attribute / single block is present
	calm   bool    // mutant bases: no huge strings
	nonNFC bool    // may keep strings that are not NFC-stable (known finding, see c14.go)
	obs    func(string)
}

type runeRange struct {
	lo, hi rune
	w      int
}

var runePool = []runeRange{
	{0x20, 0x7e, 30},
	{0xa1, 0xff, 6},
	{0x100, 0x24f, 4},
	{0x391, 0x3c9, 3},
	{0x410, 0x44f, 3},
	{0x5d0, 0x5ea, 2},
	{0x627, 0x64a, 2},
	{0x900, 0x97f, 2},
	{0x1100, 0x11ff, 1}, // conjoining jamo (not NFC-stable in sequences)
	{0x300, 0x36f, 2},   // combining marks
	{0x4e00, 0x9fff, 4},
	{0xac00, 0xd7a3, 2},
	{0x1f300, 0x1faff, 3},
	{0x10000, 0x10ffff, 2},
	{0xe000, 0xf8ff, 1},
	{0x00, 0x1f, 3},
	{0x7f, 0x9f, 2},
}

var specialRunes = []rune{0xfeff, 0x2028, 0x2029, 0x85, 0xa0, 0x200b, 0x200c, 0x200d, 0x200e, 0x202e,
	0xfffd, 0xfffe, 0xffff, 0xfdd0, 0xe000, 0x10ffff, 0x1f3fb, 0xe0041, 0xfe0f, 0x301, 0x308, 0x20dd, 0x903,
	0x212b, 0x2126, 0xfb01, 0x3000, 0x2003, 0x1680, 0xd7ff, 0xe000, 0x7ff, 0x800, 0xffff, 0x10000}

var poolTotal = func() int {
	n := 0
	for _, r := range runePool {
		n += r.w
	}
	return n
}()

func (g *gen) randRune() rune {
	if g.rng.Intn(12) == 0 {
		return specialRunes[g.rng.Intn(len(specialRunes))]
	}
	x := g.rng.Intn(poolTotal)
	for _, r := range runePool {
		if x < r.w {
			c := r.lo + rune(g.rng.Intn(int(r.hi-r.lo+1)))
			if c >= 0xd800 && c <= 0xdfff {
				c = 0xfffd
			}
			return c
		}
		x -= r.w
	}
	return 'a'
}

var plainWords = []string{
	"0.0.0.0", "127.0.0.1", "5pider.net", "round-robin", "random", "password1234", "service-endpoint",
	"C:\\Windows\\System32\\notepad.exe", "C:\\Windows\\SysWOW64\\Werfault.exe", "/usr/bin/nasm",
	"data/x86_64-w64-mingw32-cross/bin/x86_64-w64-mingw32-gcc", "2024-01-02 12:00:00", "8:00-17:00",
	"Mozilla/5.0 (Windows NT 6.1; WOW64) AppleWebKit/537.36 (KHTML, like Gecko) Chrome/96.0.4664.110 Safari/537.36",
	"Accept: json", "Content-Type: application/json; charset=utf-8", "x-ms-latency: 40018.2038",
	"/Collector/2.0/settings/", "demon_pipe", "POST", "Neo", "5pider", "https://discord.com/api/webhooks/1/x?wait=true&a=%7B",
	"MZ", "Ekko", "WaitForSingleObjectEx", "teams profile - http", "a", "x", "user name", "100%", "50% off {now}", "$HOME/bin", "cost: $5",
}

var numericWords = []string{"0", "1", "443", "40056", "-12", "65535", "4294967296", "9223372036854775807", "-9223372036854775808",
	"true", "false", "007", "1e5", " 42 ", "1.50", "-0", "+5", "0x10", "TRUE", "null", "12345678901234567890", "1.0", "-1", "10"}

func (g *gen) soup(alpha []string, n int) string {
	var b strings.Builder
	for i := 0; i < n; i++ {
		b.WriteString(alpha[g.rng.Intn(len(alpha))])
	}
	return b.String()
}

var tmplAlpha = []string{"$", "%", "{", "}", "~", "$", "%", "{", "${", "%{", "$${", "%%{", "a", " ", "\"", "\\", "if", "x", "\n"}
var escAlpha = []string{"\\", "\\", "n", "r", "t", "x", "u", "U", "\"", "4", "1", "a", "F", "0", "{", "$", "\\x41", "\\n", "\\u00e9", "'", "`", " "}

func (g *gen) unicodeString(n int) string {
	var b strings.Builder
	for i := 0; i < n; i++ {
		b.WriteRune(g.randRune())
	}
	return b.String()
}

func (g *gen) lineText(n int) string {
	// what a word / line in a multi-line text looks like
	switch g.rng.Intn(6) {
	case 0:
		return plainWords[g.rng.Intn(len(plainWords))]
	case 1:
		return g.soup(tmplAlpha[:len(tmplAlpha)-1], 1+g.rng.Intn(n+1))
	case 2:
		return strings.NewReplacer("\n", "", "\r", "").Replace(g.unicodeString(1 + g.rng.Intn(n+1)))
	case 3:
		return []string{"EOT", "EOF", "END", "  EOT", "EOT  ", "<<EOT", "<<-EOT", "}", "{", "# c", "// c", "/* c */", "E"}[g.rng.Intn(13)]
	case 4:
		return ""
	default:
		return g.soup([]string{"a", "b", " ", "\t", "é", "1", "-"}, 1+g.rng.Intn(n+1))
	}
}

func (g *gen) multiline() string {
	var b strings.Builder
	lines := 1 + g.rng.Intn(5)
	common := ""
	if g.rng.Intn(3) == 0 {
		common = strings.Repeat(" ", g.rng.Intn(4))
	}
	for i := 0; i < lines; i++ {
		b.WriteString(common)
		switch g.rng.Intn(8) {
		case 0:
			b.WriteString(strings.Repeat(" ", 1+g.rng.Intn(4)))
		case 1:
			b.WriteString("\t")
		case 2:
			b.WriteString(" \t ")
		}
		if g.rng.Intn(7) != 0 {
			lt := g.lineText(8)
			// a line that starts with a character that joins the preceding one is a known
			// defect class of <<- heredocs (see known_findings.d): keep it rare
			if r, _ := utf8.DecodeRuneInString(lt); isJoiner(r) && !(g.nonNFC && g.rng.Intn(25) == 0) {
				lt = "x" + lt
			}
			b.WriteString(lt)
		}
		if g.rng.Intn(12) == 0 {
			b.WriteString("\r")
		}
		if i < lines-1 || g.rng.Intn(8) != 0 {
			b.WriteString("\n")
		}
	}
	return b.String()
}

func isJoiner(r rune) bool {
	return unicode.Is(unicode.M, r) || r == 0x200c || r == 0x200d || r == 0xff9e || r == 0xff9f ||
		(r >= 0x1f3fb && r <= 0x1f3ff) || (r >= 0xe0020 && r <= 0xe007f)
}

func (g *gen) rawBytes(n int) string {
	b := make([]byte, n)
	for i := range b {
		switch g.rng.Intn(4) {
		case 0:
			b[i] = byte(0x80 + g.rng.Intn(0x80))
		case 1:
			b[i] = byte(g.rng.Intn(256))
		default:
			b[i] = byte(0x20 + g.rng.Intn(0x5f))
		}
	}
	return string(b)
}

// str draws one string value and the name of its class.
func (g *gen) str() string {
	s, class := g.str0()
	if !norm.NFC.IsNormalString(s) {
		if g.nonNFC && g.rng.Intn(150) == 0 {
			class = "not-nfc"
		} else {
			s = norm.NFC.String(s)
			if !norm.NFC.IsNormalString(s) { // cannot happen; stay inside the exact domain
				s = "nfc"
			}
		}
	}
	if g.obs != nil {
		g.obs("strclass:" + class)
	}
	return s
}

func (g *gen) str0() (string, string) {
	x := g.rng.Intn(100)
	switch {
	case x < 22:
		return plainWords[g.rng.Intn(len(plainWords))], "plain"
	case x < 26:
		return "", "empty"
	case x < 34:
		return numericWords[g.rng.Intn(len(numericWords))], "numeric-looking"
	case x < 46:
		return g.soup(tmplAlpha, 1+g.rng.Intn(10)), "template-markers"
	case x < 56:
		return g.soup(escAlpha, 1+g.rng.Intn(10)), "escape-lookalikes"
	case x < 68:
		return g.multiline(), "multiline"
	case x < 84:
		return g.unicodeString(1 + g.rng.Intn(12)), "unicode"
	case x < 88:
		var b strings.Builder
		for i, n := 0, 1+g.rng.Intn(8); i < n; i++ {
			c := rune(g.rng.Intn(0x21))
			if c == 0x20 {
				c = 0x7f
			}
			b.WriteRune(c)
			if g.rng.Intn(2) == 0 {
				b.WriteByte(byte('a' + g.rng.Intn(6)))
			}
		}
		return b.String(), "controls"
	case x < 91:
		s := g.rawBytes(1 + g.rng.Intn(8))
		if utf8.ValidString(s) {
			return s, "plain"
		}
		return s, "invalid-utf8"
	case x < 93:
		if g.calm || g.rng.Intn(30) != 0 {
			return plainWords[g.rng.Intn(len(plainWords))], "plain"
		}
		// very long
		unit, _ := g.str0short()
		if unit == "" {
			unit = "ab"
		}
		n := 1000 + g.rng.Intn(60000)
		if g.rng.Intn(10) == 0 {
			n = 200000
		}
		reps := n/len(unit) + 1
		return strings.Repeat(unit, reps), "very-long"
	case x < 96:
		// hex digits around things that the printer may escape
		return g.soup([]string{"a", "F", "0", "9", "é", "\t", "g", "\x01", "b", "C"}, 1+g.rng.Intn(10)), "hex-digit-neighbours"
	default:
		// decomposed / compatibility sequences: only survive the NFC filter in nonNFC mode
		return g.soup([]string{"e\u0301", "\u212b", "a\u0308", "\u1100\u1161", "\u0041\u030a", "x", "\u2126", "\u0344"}, 1+g.rng.Intn(4)), "decomposed"
	}
}

func (g *gen) str0short() (string, string) {
	switch g.rng.Intn(5) {
	case 0:
		return plainWords[g.rng.Intn(len(plainWords))], ""
	case 1:
		return g.soup(tmplAlpha, 1+g.rng.Intn(6)), ""
	case 2:
		return g.soup(escAlpha, 1+g.rng.Intn(6)), ""
	case 3:
		return g.unicodeString(1 + g.rng.Intn(6)), ""
	default:
		return g.lineText(6) + "\n", ""
	}
}

// label strings are not routed through the value layer of the decoder; any string goes.
func (g *gen) label() string {
	if g.rng.Intn(3) == 0 {
		return []string{"Neo", "5pider", "admin", "a", "op-1", "_x", "user_2", "é", "оператор", "for", "true", "null", "a-", "Ab9"}[g.rng.Intn(14)]
	}
	s, _ := g.str0()
	if len(s) > 4096 {
		s = s[:4096]
		for !utf8.ValidString(s) && len(s) > 4000 {
			s = s[:len(s)-1]
		}
	}
	return s
}

func (g *gen) intIn(bits int, unsigned bool) (int64, uint64) {
	if bits == 0 {
		bits = 64
	}
	var lo, hi int64
	if unsigned {
		lo = 0
		if bits >= 64 {
			hi = math.MaxInt64
		} else {
			hi = int64(1)<<uint(bits) - 1
		}
	} else {
		if bits >= 64 {
			lo, hi = math.MinInt64, math.MaxInt64
		} else {
			lo, hi = -(int64(1) << uint(bits-1)), int64(1)<<uint(bits-1)-1
		}
	}
	clamp := func(v int64) int64 {
		if v < lo {
			return lo
		}
		if v > hi {
			return hi
		}
		return v
	}
	var v int64
	switch g.rng.Intn(12) {
	case 0:
		v = 0
	case 1:
		v = int64(g.rng.Intn(100))
	case 2:
		v = int64(1 + g.rng.Intn(65535))
	case 3:
		v = -int64(g.rng.Intn(70000))
	case 4:
		v = []int64{1<<31 - 1, 1 << 31, 1<<31 + 1, -(1 << 31), -(1 << 31) - 1, 1<<32 - 1, 1 << 32, 1<<32 + 1, 1 << 53, 1<<53 + 1, -(1 << 53) - 1}[g.rng.Intn(11)]
	case 5:
		v = []int64{math.MaxInt64, math.MaxInt64 - 1, math.MinInt64, math.MinInt64 + 1, 1e18, -1e18, 999999999999999999, 1000000000000000001}[g.rng.Intn(8)]
	case 6:
		v = int64(g.rng.Uint64())
	case 7:
		v = int64(g.rng.Uint64() >> uint(g.rng.Intn(64)))
		if g.rng.Intn(2) == 0 {
			v = -v
		}
	case 8:
		v = int64(g.rng.Intn(1000)) * int64(math.Pow10(g.rng.Intn(16)))
	case 9:
		v = hi - int64(g.rng.Intn(3))
	case 10:
		v = lo + int64(g.rng.Intn(3))
	default:
		v = int64(g.rng.Intn(100000)) + 1<<32
	}
	v = clamp(v)
	if unsigned && bits >= 64 && g.rng.Intn(6) == 0 {
		return 0, math.MaxUint64 - uint64(g.rng.Intn(3))
	}
	return v, uint64(v)
}

func (g *gen) setPrim(v reflect.Value, k fkind) {
	switch k {
	case kString:
		v.SetString(g.str())
	case kBool:
		v.SetBool(g.rng.Intn(2) == 0)
	case kInt:
		i, _ := g.intIn(v.Type().Bits(), false)
		v.SetInt(i)
	case kUint:
		_, u := g.intIn(v.Type().Bits(), true)
		v.SetUint(u)
	}
}

func (g *gen) count(max int) int {
	x := g.rng.Intn(100)
	switch {
	case x < 20:
		return 0
	case x < 55:
		return 1
	case x < 80:
		return 2
	case x < 95:
		return 3
	case x < 98:
		return 4 + g.rng.Intn(4)
	default:
		if g.calm {
			return 3
		}
		return max
	}
}

func (g *gen) fillAttr(a *attrSchema, fv reflect.Value) {
	switch a.kind {
	case kList:
		n := g.count(40)
		sl := reflect.MakeSlice(a.typ, n, n)
		for i := 0; i < n; i++ {
			g.setPrim(sl.Index(i), a.elem)
		}
		fv.Set(sl)
	case kMap:
		n := g.count(30)
		m := reflect.MakeMapWithSize(a.typ, n)
		for i := 0; i < n; i++ {
			k := reflect.New(a.typ.Key()).Elem()
			if g.rng.Intn(3) == 0 {
				k.SetString([]string{"a", "key", "demon.x64.dll", "_k", "a-b", "for", "if", "k1", "é", "", "true", "null", "12"}[g.rng.Intn(13)])
			} else {
				s := g.str()
				if len(s) > 2000 {
					s = norm.NFC.String(strings.ToValidUTF8(s[:2000], ""))
					if !norm.NFC.IsNormalString(s) {
						s = "k"
					}
				}
				k.SetString(s)
			}
			e := reflect.New(a.typ.Elem()).Elem()
			g.setPrim(e, a.elem)
			m.SetMapIndex(k, e)
		}
		fv.Set(m)
	default:
		g.setPrim(fv, a.kind)
	}
}

func (g *gen) fillStruct(ss *structSchema, v reflect.Value, depth int) {
	for _, l := range ss.labels {
		v.Field(l.idx).SetString(g.label())
	}
	for _, a := range ss.attrs {
		if !a.required() && g.rng.Float64() >= g.pOpt {
			continue // stays the zero value = absent
		}
		g.fillAttr(a, v.Field(a.idx))
	}
	for _, b := range ss.blocks {
		fv := v.Field(b.idx)
		switch {
		case b.slice:
			n := 0
			switch x := g.rng.Intn(100); {
			case x < 30:
				n = 0
			case x < 65:
				n = 1
			case x < 88:
				n = 2
			default:
				n = 3
			}
			if g.rng.Float64() >= g.pOpt && g.rng.Intn(2) == 0 {
				n = 0
			}
			if n == 0 {
				continue
			}
			sl := reflect.MakeSlice(fv.Type(), n, n)
			for i := 0; i < n; i++ {
				if b.ptr {
					p := reflect.New(b.body.typ)
					g.fillStruct(b.body, p.Elem(), depth+1)
					sl.Index(i).Set(p)
				} else {
					g.fillStruct(b.body, sl.Index(i), depth+1)
				}
			}
			fv.Set(sl)
		case b.ptr:
			p := g.pOpt
			if depth == 0 && p < 0.5 {
				p = 0.5
			}
			if g.rng.Float64() >= p {
				continue
			}
			nv := reflect.New(b.body.typ)
			g.fillStruct(b.body, nv.Elem(), depth+1)
			fv.Set(nv)
		default:
			g.fillStruct(b.body, fv, depth+1)
		}
	}
}

// value draws one configuration of the given root type.
func (g *gen) value(root *structSchema) reflect.Value {
	g.pOpt = []float64{0.15, 0.5, 0.5, 0.85, 1.0}[g.rng.Intn(5)]
	v := reflect.New(root.typ).Elem()
	g.fillStruct(root, v, 0)
	return v
}
