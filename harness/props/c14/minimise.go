package c14

import (
	"math/rand"
	"reflect"
	"unicode/utf8"
)

// Witness minimisation for oracle A: keep only the chain of blocks down to the value that
// came back wrong (verbatim spelling), then shrink the string while the same signature
// is reported.

func simpleValue(a *attrSchema, dst reflect.Value) {
	switch a.kind {
	case kString:
		dst.SetString("x")
	case kInt:
		dst.SetInt(1)
	case kUint:
		dst.SetUint(1)
	case kBool:
		dst.SetBool(false)
	case kList:
		dst.Set(reflect.MakeSlice(a.typ, 0, 0))
	case kMap:
		dst.Set(reflect.MakeMap(a.typ))
	}
}

func pruneStruct(ss *structSchema, src, dst reflect.Value, rest, acc vpath) (vpath, bool) {
	var out vpath
	found := len(rest) == 0
	if found {
		out = acc
	}
	for _, l := range ss.labels {
		if len(rest) > 0 && rest[0].label && rest[0].field == l.name {
			dst.Field(l.idx).SetString(src.Field(l.idx).String())
			out, found = acc.with(rest[0]), true
		} else {
			dst.Field(l.idx).SetString("l")
		}
	}
	for _, a := range ss.attrs {
		if len(rest) > 0 && !rest[0].label && rest[0].field == a.name {
			sf, df := src.Field(a.idx), dst.Field(a.idx)
			e := rest[0]
			switch {
			case a.kind == kList && e.idx >= 0 && e.idx < sf.Len():
				sl := reflect.MakeSlice(a.typ, 1, 1)
				sl.Index(0).Set(sf.Index(e.idx))
				df.Set(sl)
				e.idx = 0
			case a.kind == kMap && e.key != nil && sf.Len() > 0 && sf.MapIndex(reflect.ValueOf(*e.key).Convert(a.typ.Key())).IsValid():
				m := reflect.MakeMap(a.typ)
				k := reflect.ValueOf(*e.key).Convert(a.typ.Key())
				m.SetMapIndex(k, sf.MapIndex(k))
				df.Set(m)
			default:
				df.Set(sf)
			}
			out, found = acc.with(e), true
			continue
		}
		if a.required() {
			simpleValue(a, dst.Field(a.idx))
		}
	}
	for _, b := range ss.blocks {
		if len(rest) == 0 || rest[0].label || rest[0].field != b.name {
			if !b.slice && !b.ptr {
				// a required single block: keep it in its simplest form
				pruneStruct(b.body, src.Field(b.idx), dst.Field(b.idx), nil, nil)
			}
			continue
		}
		sf, df := src.Field(b.idx), dst.Field(b.idx)
		e := rest[0]
		switch {
		case b.slice:
			if e.idx < 0 || e.idx >= sf.Len() {
				// the count itself differs: keep the blocks as they are
				df.Set(sf)
				out, found = acc.with(e), true
				continue
			}
			sl := reflect.MakeSlice(df.Type(), 1, 1)
			se, de := sf.Index(e.idx), sl.Index(0)
			if b.ptr {
				de.Set(reflect.New(b.body.typ))
				se, de = se.Elem(), de.Elem()
			}
			e.idx = 0
			o, ok := pruneStruct(b.body, se, de, rest[1:], acc.with(e))
			df.Set(sl)
			out, found = o, ok
		case b.ptr:
			if sf.IsNil() {
				out, found = acc.with(e), true
				continue
			}
			nv := reflect.New(b.body.typ)
			o, ok := pruneStruct(b.body, sf.Elem(), nv.Elem(), rest[1:], acc.with(e))
			df.Set(nv)
			out, found = o, ok
		default:
			o, ok := pruneStruct(b.body, sf, df, rest[1:], acc.with(e))
			out, found = o, ok
		}
	}
	return out, found
}

// locate gives access to the string at path p (label, string attribute, list element, map value).
func locate(ss *structSchema, v reflect.Value, p vpath) (get func() string, set func(string), ok bool) {
	if len(p) == 0 {
		return nil, nil, false
	}
	e := p[0]
	if e.label {
		for _, l := range ss.labels {
			if l.name == e.field {
				f := v.Field(l.idx)
				return f.String, f.SetString, true
			}
		}
		return nil, nil, false
	}
	for _, a := range ss.attrs {
		if a.name != e.field {
			continue
		}
		f := v.Field(a.idx)
		switch {
		case a.kind == kString && len(p) == 1:
			return f.String, f.SetString, true
		case a.kind == kList && a.elem == kString && e.idx >= 0 && e.idx < f.Len():
			el := f.Index(e.idx)
			return el.String, el.SetString, true
		case a.kind == kMap && a.elem == kString && e.key != nil && f.Len() > 0:
			k := reflect.ValueOf(*e.key).Convert(a.typ.Key())
			if !f.MapIndex(k).IsValid() {
				return nil, nil, false
			}
			return func() string { return f.MapIndex(k).String() },
				func(s string) { f.SetMapIndex(k, reflect.ValueOf(s).Convert(a.typ.Elem())) }, true
		}
		return nil, nil, false
	}
	for _, b := range ss.blocks {
		if b.name != e.field {
			continue
		}
		f := v.Field(b.idx)
		switch {
		case b.slice:
			if e.idx < 0 || e.idx >= f.Len() {
				return nil, nil, false
			}
			el := f.Index(e.idx)
			if b.ptr {
				el = el.Elem()
			}
			return locate(b.body, el, p[1:])
		case b.ptr:
			if f.IsNil() {
				return nil, nil, false
			}
			return locate(b.body, f.Elem(), p[1:])
		default:
			return locate(b.body, f, p[1:])
		}
	}
	return nil, nil, false
}

func (e *env) minimise(f finding, bt built, v reflect.Value, seed int64) (built, reflect.Value, loadResult, bool) {
	var none built
	if f.path == nil {
		return none, v, loadResult{}, false
	}
	nv := reflect.New(rootType).Elem()
	np, ok := pruneStruct(e.root, v, nv, f.path, nil)
	if !ok || np == nil {
		return none, v, loadResult{}, false
	}
	okey, nkey := f.path.String(), np.String()
	if f.d != nil && f.d.kind == "map-key" {
		okey, nkey = okey+"#key", nkey+"#key"
	}
	rec, have := bt.spells[okey]
	override, ovSpell := map[string]string{}, map[string]string{}
	if have && rec.text != "" {
		override[nkey], ovSpell[nkey] = rec.text, rec.spell
	}
	try := func(val reflect.Value, ov, os map[string]string) (built, loadResult, bool) {
		b := e.build(rand.New(rand.NewSource(seed)), val, true, ov, os, nil)
		fs, res := e.checkRoundtrip(b, val)
		for _, x := range fs {
			if x.sig == f.sig {
				return b, res, true
			}
		}
		return b, res, false
	}
	best, bres, ok := try(nv, override, ovSpell)
	if !ok {
		return none, v, loadResult{}, false
	}
	// shrink the string itself
	get, set, lok := locate(e.root, nv, np)
	if !lok || !have || rec.spell == "" || (f.d != nil && f.d.kind == "map-key") {
		return best, nv, bres, true
	}
	ctx := ctxAttr
	if np[len(np)-1].label {
		ctx = ctxLabel
	}
	cur := get()
	budget := 400
	spellOf := func(s string, k int64) (string, bool) {
		sp := &speller{rng: rand.New(rand.NewSource(seed + k)), nl: "\n"}
		t, _, ok := sp.str(s, ctx, false, rec.spell)
		return t, ok
	}
	test := func(cand string) bool {
		// the spelling has random parts (indentation, which characters are escaped): a few draws
		for k := int64(0); k < 4; k++ {
			if budget <= 0 {
				return false
			}
			budget--
			t, ok := spellOf(cand, k)
			if !ok {
				return false
			}
			set(cand)
			b, r, ok := try(nv, map[string]string{nkey: t}, map[string]string{nkey: rec.spell})
			if ok {
				best, bres = b, r
				return true
			}
			set(cur)
		}
		return false
	}
	// first re-spell the unchanged value: the shrink loop needs a spelling it can regenerate
	if !test(cur) {
		set(cur)
		return best, nv, bres, true
	}
	step := func(s string, i, n int) (string, bool) {
		if utf8.ValidString(s) {
			r := []rune(s)
			if i+n > len(r) {
				return "", false
			}
			return string(r[:i]) + string(r[i+n:]), true
		}
		if i+n > len(s) {
			return "", false
		}
		return s[:i] + s[i+n:], true
	}
	length := func(s string) int {
		if utf8.ValidString(s) {
			return utf8.RuneCountInString(s)
		}
		return len(s)
	}
	for n := length(cur) / 2; n >= 1 && budget > 0; n /= 2 {
		for i := 0; i+n <= length(cur) && budget > 0; {
			cand, ok := step(cur, i, n)
			if ok && test(cand) {
				cur = cand
			} else {
				i += n
			}
		}
	}
	set(cur)
	return best, nv, bres, true
}
