package c14

import (
	"Havoc/pkg/profile/yaotl/gohcl"
	"Havoc/pkg/profile/yaotl/hclwrite"
	"encoding/hex"
	"encoding/json"
	"fmt"
	"io"
	"math/rand"
	"os"
	"path/filepath"
	"reflect"
	"strings"
	"unicode"
	"unicode/utf8"

	"golang.org/x/text/unicode/norm"

	"Havoc/pkg/logger"

	"verifh/lib"
)

func init() { lib.Register("C14", run) }

const (
	quickProfiles    = 30000
	quickMutants     = 10000
	thoroughProfiles = 900000
	thoroughMutants  = 300000
)

type env struct {
	c      *lib.Ctx
	root   *structSchema
	path   string
	nonNFC bool
	nviol  map[string]int
}

// ---- witnesses ----

type witness struct {
	Mode     string               `json:"mode"` // roundtrip | mutant
	Text     string               `json:"text"` // the profile file (always valid UTF-8)
	Expected any                  `json:"expected,omitempty"`
	Path     string               `json:"path,omitempty"`
	Kind     string               `json:"kind,omitempty"`
	Spell    string               `json:"spelling,omitempty"`
	Literal  string               `json:"literal,omitempty"`
	ExpAt    string               `json:"expected_at_path,omitempty"`
	ObsAt    string               `json:"observed_at_path,omitempty"`
	Fault    *fault               `json:"fault,omitempty"`
	Error    string               `json:"observed_error,omitempty"`
	Diags    []diagInfo           `json:"observed_diagnostics,omitempty"`
	Spells   map[string]spellRec2 `json:"spellings,omitempty"`
	CaseSeed int64                `json:"case_seed,omitempty"`
}

type spellRec2 struct {
	Kind  string `json:"kind"`
	Spell string `json:"spelling"`
}

type finding struct {
	sig   string
	what  string
	d     *diff
	rec   spellRec
	path  vpath
	kind  string
	spell string
}

func startsWithJoiner(s string) bool {
	for _, ln := range strings.SplitAfter(s, "\n") {
		if strings.TrimLeftFunc(ln, unicode.IsSpace) == "" {
			continue
		}
		if r, _ := utf8.DecodeRuneInString(ln); isJoiner(r) {
			return true
		}
	}
	return false
}

// judgeRoundtrip is oracle A.
func (e *env) judgeRoundtrip(text []byte, exp reflect.Value, spells map[string]spellRec, res loadResult, spans []*attrNode) []finding {
	var out []finding
	if res.panicV != nil {
		return []finding{{sig: lib.PanicSig(res.panicV, res.stack), what: fmt.Sprintf("panic while loading a valid profile: %v", res.panicV)}}
	}
	if res.err != nil {
		// which value does the first diagnostic point at?
		kind, spell := "structure", "layout"
		var rec spellRec
		var path vpath
		if len(res.diags) > 0 && res.diags[0].HasSubject {
			d := res.diags[0]
			for _, a := range spans {
				if d.touches(text, a.sp) {
					kind, spell, path = a.kind, a.spell, a.path
					if path != nil {
						rec = spells[a.path.String()]
					}
					break
				}
			}
		}
		sum := "error"
		if len(res.diags) > 0 {
			sum = res.diags[0].Summary
		}
		return []finding{{sig: "roundtrip-error:" + kind + ":" + spell + ":" + lib.Classify(sum), rec: rec, path: path, kind: kind, spell: spell,
			what: "a valid profile was rejected: " + res.errText}}
	}
	var diffs []diff
	compare(e.root, exp, res.cfg, nil, &diffs)
	seen := map[string]bool{}
	for i := range diffs {
		d := &diffs[i]
		key := d.path.String()
		if d.kind == "map-key" {
			key += "#key" // the printer's record of the key spelling
		}
		rec := spells[key]
		sig := "roundtrip:" + d.kind + ":" + rec.spell
		if rec.spell == "" {
			sig = "roundtrip:" + d.kind
		}
		// two classes that are known on the unchanged tree get their own precise signature
		switch {
		case d.kind != "label" && d.kind != "map-key" && d.expS != d.obsS && norm.NFC.String(d.expS) == d.obsS:
			sig = "roundtrip:string:nfc-normalised"
		case d.nfc:
			sig = "roundtrip:string:nfc-normalised"
		case rec.spell == "heredoc-flush" && startsWithJoiner(d.expS):
			sig = "roundtrip:string:heredoc-flush:joiner-at-line-start"
		}
		if seen[sig] {
			continue
		}
		seen[sig] = true
		out = append(out, finding{sig: sig, d: d, rec: rec, path: d.path, kind: d.kind, spell: rec.spell,
			what: fmt.Sprintf("%s (%s, spelled %s): expected %s, loaded %s", d.path, d.kind, rec.spell, d.exp, d.obs)})
	}
	return out
}

func collectAttrs(bn *bodyNode, out *[]*attrNode) {
	for _, it := range bn.items {
		switch n := it.(type) {
		case *attrNode:
			*out = append(*out, n)
		case *blockNode:
			collectAttrs(n.body, out)
		}
	}
}

type built struct {
	text    []byte
	doc     *bodyNode
	spells  map[string]spellRec
	nblocks int
}

func (e *env) build(rng *rand.Rand, v reflect.Value, plain bool, override, ovSpell map[string]string, obs func(string)) built {
	sp := &speller{rng: rng, nl: "\n", plain: plain, obs: obs}
	bom := false
	if !plain {
		if rng.Intn(30) == 0 {
			sp.nl = "\r\n"
			sp.noHeredoc = true
			if obs != nil {
				obs("sp:file-crlf")
			}
		}
		if rng.Intn(40) == 0 {
			bom = true
			if obs != nil {
				obs("sp:file-bom")
			}
		}
	}
	b := &builder{sp: sp, rng: rng, spells: map[string]spellRec{}, override: override, ovSpell: ovSpell, obs: obs}
	doc := b.body(e.root, v, nil)
	text := render(sp, rng, doc, bom)
	return built{text: text, doc: doc, spells: b.spells, nblocks: b.nblocks}
}

// encodeSig: signature of a round-trip finding on the encoder's output. The writer builds
// labels through the value library as well, so its NFC normalisation (known for values on
// the load path) reaches labels here.
func encodeSig(f finding) string {
	if f.kind == "label" && f.d != nil && f.d.expS != f.d.obsS && norm.NFC.String(f.d.expS) == f.d.obsS {
		return "encode-roundtrip:label:nfc-normalised"
	}
	return "encode-" + f.sig
}

func (e *env) checkRoundtrip(bt built, v reflect.Value) ([]finding, loadResult) {
	res := loadProfile(e.path, bt.text)
	var attrs []*attrNode
	collectAttrs(bt.doc, &attrs)
	return e.judgeRoundtrip(bt.text, v, bt.spells, res, attrs), res
}

func (e *env) reportRoundtrip(f finding, bt built, v reflect.Value, res loadResult, seed int64) {
	lit := f.rec.text
	if len(lit) > 400 {
		lit = lit[:400] + "..."
	}
	w := witness{Mode: "roundtrip", Text: string(bt.text), Expected: encodeValue(v), Error: res.errText, Diags: res.diags, CaseSeed: seed,
		Kind: f.kind, Spell: f.spell, Literal: lit}
	if f.d != nil {
		w.Path, w.ExpAt, w.ObsAt = f.d.path.String(), f.d.exp, f.d.obs
	}
	if len(bt.spells) <= 3000 {
		w.Spells = map[string]spellRec2{}
		for k, r := range bt.spells {
			w.Spells[k] = spellRec2{r.kind, r.spell}
		}
	}
	e.c.Violation(f.sig, f.what, w)
}

// ---- run ----

func run(c *lib.Ctx) {
	logger.SetStdOut(io.Discard) // SetProfile logs one line per load
	c.Rule("random values of the real profile.HavocConfig type (schema read from its yaotl tags), written by an independent printer in random " +
		"spellings, loaded with profile.SetProfile and compared; plus single-fault mutants of such files. distinct & non-trivial = distinct file " +
		"text with at least 3 blocks")
	c.Assume("the dialect is read as in DESIGN.md 2.9 / Appendix C, D: escapes \\n \\r \\t \\\" \\\\, \\x only as runs of 2 or 4 hex digits not followed by a literal hex digit, "+
		"$${ and %%{ for literal template markers, heredocs without escape processing, <<- strips the smallest common indentation, numbers/bools may be quoted, "+
		"string attributes may be bare numbers/bools, nil and empty are the same for lists and maps only",
		"every top-level block is optional by declaration; required applies to attributes of a present block and to labels",
		"a diagnostic names the problem if one error diagnostic lies on the faulty item (or inside the enclosing block when the item is missing) and mentions the item's name; "+
			"for a value of the wrong kind lying on the attribute is enough (the decoder's message names the required type, not the attribute)",
		"null for a list/map attribute and \"1\"/\"0\" for a bool are accepted by the decoder and are not used as faults")

	e := &env{c: c, root: schemaOf(rootType), nonNFC: os.Getenv("C14_NONNFC") != "0", nviol: map[string]int{}}
	dir, err := os.MkdirTemp("", fmt.Sprintf("c14-%d-", c.Shard))
	if err != nil {
		panic(err)
	}
	defer os.RemoveAll(dir)
	e.path = filepath.Join(dir, "profile.yaotl")

	for _, ss := range allSchemas(e.root) {
		for _, u := range ss.unsupported {
			c.Inconclusive("field not generated (type unknown to the generator): " + u)
		}
	}
	if c.Shard == 0 {
		var fields []string
		for _, ss := range allSchemas(e.root) {
			for _, a := range ss.attrs {
				req := "required"
				if a.optional {
					req = "optional"
					if a.pinned {
						req = "optional-by-tag-but-pinned-required"
					}
				}
				fields = append(fields, ss.typ.Name()+"."+a.name+":"+a.kind.String()+":"+req)
			}
			for _, b := range ss.blocks {
				k := "single"
				if b.slice {
					k = "repeated"
				}
				fields = append(fields, ss.typ.Name()+"."+b.name+":block:"+k)
			}
			for _, l := range ss.labels {
				fields = append(fields, ss.typ.Name()+"."+l.name+":label")
			}
		}
		c.Note("schema_fields", len(fields))
		c.Note("schema", strings.Join(fields, " "))
	}

	if c.Replay != nil {
		e.replay(c.Replay)
		return
	}

	obs := func(k string) { c.Observe(k, 1) }
	minimised := map[string]int{}
	nP := c.N(quickProfiles, thoroughProfiles)
	nM := c.N(quickMutants, thoroughMutants)

	for i := 0; i < nP; i++ {
		seed := c.Rng.Int63()
		rng := rand.New(rand.NewSource(seed))
		g := &gen{rng: rng, nonNFC: e.nonNFC, obs: obs}
		v := g.value(e.root)
		bt := e.build(rng, v, false, nil, nil, obs)
		c.Cur("profile", bt.text)
		c.Eval()
		c.Observe("profiles", 1)
		if bt.nblocks >= 3 {
			c.DistinctBytes(bt.text)
		}
		c.ObserveMax("max:file-bytes", int64(len(bt.text)))
		fs, res := e.checkRoundtrip(bt, v)
		if len(fs) == 0 {
			c.Observe("roundtrip-ok", 1)
		}
		for _, f := range fs {
			minimised[f.sig]++
			if minimised[f.sig] > 3 {
				c.Violation(f.sig, f.what, nil) // counted only; the lib keeps three witnesses per signature
				continue
			}
			if minimised[f.sig] <= 1 {
				if mbt, mv, mres, ok := e.minimise(f, bt, v, seed); ok {
					e.reportRoundtrip(f, mbt, mv, mres, seed)
					continue
				}
			}
			e.reportRoundtrip(f, bt, v, res, seed)
		}
		if i%3 == 0 {
			// the same configuration written by the tree's own encoder (gohcl.EncodeIntoBody into
			// an empty file) instead of the harness' printer
			var enc []byte
			pv, st := lib.Guard(func() {
				f := hclwrite.NewEmptyFile()
				gohcl.EncodeIntoBody(v.Addr().Interface(), f.Body())
				enc = f.Bytes()
			})
			c.Observe("profiles-written-by-gohcl-encode", 1)
			if pv != nil {
				c.Violation("encode:"+lib.PanicSig(pv, st), fmt.Sprintf("gohcl.EncodeIntoBody panics on a valid configuration: %v", pv),
					witness{Mode: "encode", Expected: encodeValue(v), CaseSeed: seed})
			} else {
				eres := loadProfile(e.path, enc)
				for _, f := range e.judgeRoundtrip(enc, v, nil, eres, nil) {
					f.sig = encodeSig(f)
					minimised[f.sig]++
					if minimised[f.sig] > 3 {
						c.Violation(f.sig, f.what, nil)
						continue
					}
					w := witness{Mode: "encode", Text: string(enc), Expected: encodeValue(v), Error: eres.errText, Diags: eres.diags, CaseSeed: seed, Kind: f.kind}
					if f.d != nil {
						w.Path, w.ExpAt, w.ObsAt = f.d.path.String(), f.d.exp, f.d.obs
					}
					c.Violation(f.sig, "written by gohcl.EncodeIntoBody and loaded again: "+f.what, w)
				}
			}
		}
		c.SampleSome(5000, func() any {
			t := string(bt.text)
			if len(t) > 1500 {
				t = t[:1500] + "..."
			}
			return map[string]any{"kind": "profile", "blocks": bt.nblocks, "bytes": len(bt.text), "text": t}
		})
		if i%2000 == 1999 {
			c.Checkpoint()
		}
	}

	for i := 0; i < nM; i++ {
		seed := c.Rng.Int63()
		rng := rand.New(rand.NewSource(seed))
		g := &gen{rng: rng, calm: true, nonNFC: false}
		v := g.value(e.root)
		if g.pOpt < 0.5 {
			g.pOpt = 0.5
		}
		sp := &speller{rng: rng, nl: "\n"}
		if rng.Intn(30) == 0 {
			sp.nl, sp.noHeredoc = "\r\n", true
		}
		b := &builder{sp: sp, rng: rng}
		doc := b.body(e.root, v, nil)
		f, ok := applyFault(rng, doc, e.root)
		if !ok {
			c.Observe("mutant-base-without-fault-site", 1)
			continue
		}
		text := render(sp, rng, doc, rng.Intn(40) == 0)
		f.finish(len(text))
		c.Cur("mutant", text)
		c.Eval()
		c.Observe("mutants", 1)
		c.Observe("fault:"+f.Kind, 1)
		if f.Sub != "" {
			c.Observe("fault-sub:"+f.Sub, 1)
		}
		if countBlocks(doc) >= 3 {
			c.DistinctBytes(text)
		}
		res := loadProfile(e.path, text)
		e.judgeAndReportMutant(f, doc, sp, text, res, true)
		c.SampleSome(5000, func() any {
			t := string(text)
			if len(t) > 1500 {
				t = t[:1500] + "..."
			}
			return map[string]any{"kind": "mutant", "fault": f.Desc, "error": res.errText, "text": t}
		})
		if i%2000 == 1999 {
			c.Checkpoint()
		}
	}
}

func (e *env) judgeAndReportMutant(f *fault, doc *bodyNode, sp *speller, text []byte, res loadResult, minimiseIt bool) {
	c := e.c
	if res.panicV != nil {
		c.Violation(lib.PanicSig(res.panicV, res.stack), fmt.Sprintf("panic while loading a faulty profile (%s): %v", f.Desc, res.panicV),
			witness{Mode: "mutant", Text: string(text), Fault: f})
		return
	}
	if res.err != nil {
		c.Observe("mutants-rejected", 1)
		for i, d := range res.diags {
			if i == 0 {
				c.Observe("diag:"+lib.Classify(d.Summary), 1)
			}
		}
		if len(res.diags) > 0 {
			d := res.diags[0]
			on := d.inFile(e.path, text)
			if on {
				if len(f.Spans) > 0 {
					on = false
					for _, s := range f.Spans {
						on = on || d.touches(text, s)
					}
				} else {
					on = d.touches(text, f.Encl)
				}
			}
			if on && (!f.NeedName || d.mentions(f.Names)) {
				c.Observe("first-diagnostic-names-the-fault", 1)
			}
		}
		if !res.typed {
			c.Observe("error-not-typed-diagnostics", 1)
		}
	}
	vb := judgeMutant(f, e.path, text, res)
	if vb == nil {
		c.Observe("mutant-ok", 1)
		return
	}
	e.nviol[vb.sig]++
	if e.nviol[vb.sig] > 3 {
		c.Violation(vb.sig, vb.what, nil)
		return
	}
	w := witness{Mode: "mutant", Text: string(text), Fault: f, Error: res.errText, Diags: res.diags}
	if minimiseIt && doc != nil {
		// cheap minimisation: drop everything that is neither the fault, an ancestor of it, nor required
		keep := map[node]bool{}
		for _, it := range f.items {
			keep[it] = true
		}
		pd := pruneDoc(doc, keep, f.encl)
		psp := &speller{rng: rand.New(rand.NewSource(1)), nl: "\n", plain: true}
		ptext := render(psp, psp.rng, pd, false)
		f2 := *f
		f2.finish(len(ptext))
		r2 := loadProfile(e.path, ptext)
		if v2 := judgeMutant(&f2, e.path, ptext, r2); v2 != nil && v2.sig == vb.sig {
			w = witness{Mode: "mutant", Text: string(ptext), Fault: &f2, Error: r2.errText, Diags: r2.diags}
			vb = v2
		}
	}
	c.Violation(vb.sig, vb.what, w)
}

// pruneDoc keeps the nodes in keep, their ancestors, the enclosing block chain, and required attributes (rewritten simply).
func pruneDoc(bn *bodyNode, keep map[node]bool, encl *blockNode) *bodyNode {
	var contains func(b *bodyNode) bool
	contains = func(b *bodyNode) bool {
		for _, it := range b.items {
			if keep[it] {
				return true
			}
			if blk, ok := it.(*blockNode); ok && (blk == encl || contains(blk.body)) {
				return true
			}
		}
		return false
	}
	var prune func(b *bodyNode) *bodyNode
	prune = func(b *bodyNode) *bodyNode {
		nb := &bodyNode{ss: b.ss}
		for _, it := range b.items {
			switch n := it.(type) {
			case *attrNode:
				if keep[n] {
					nb.items = append(nb.items, n)
				} else if n.sch != nil && n.sch.required() {
					a := *n
					a.heredocEnd = false
					switch n.sch.kind {
					case kString:
						a.expr = `"x"`
					case kInt, kUint:
						a.expr = `1`
					case kBool:
						a.expr = `false`
					case kList:
						a.expr = `[]`
					case kMap:
						a.expr = `{}`
					}
					nb.items = append(nb.items, &a)
				}
			case *blockNode:
				if keep[n] {
					// keep the fault block itself, with a pruned body unless it is an unknown block
					if n.sch != nil && n.body != nil {
						n.body = prune(n.body)
					}
					nb.items = append(nb.items, n)
				} else if n == encl || contains(n.body) {
					n.body = prune(n.body)
					nb.items = append(nb.items, n)
				}
			}
		}
		return nb
	}
	return prune(bn)
}

// ---- replay ----

func (e *env) replay(raw json.RawMessage) {
	c := e.c
	var probe struct {
		Cur *struct {
			Kind string `json:"kind"`
			Hex  string `json:"hex"`
		} `json:"cur"`
	}
	if json.Unmarshal(raw, &probe) == nil && probe.Cur != nil {
		// witness of a process-fatal error: just load the file again
		text, _ := hex.DecodeString(probe.Cur.Hex)
		c.Cur(probe.Cur.Kind, text)
		c.Eval()
		res := loadProfile(e.path, text)
		if res.panicV != nil {
			c.Violation(lib.PanicSig(res.panicV, res.stack), fmt.Sprint("panic: ", res.panicV), witness{Mode: probe.Cur.Kind, Text: string(text)})
		}
		return
	}
	var w witness
	if err := json.Unmarshal(raw, &w); err != nil {
		c.Inconclusive("replay: witness not understood: " + err.Error())
		return
	}
	text := []byte(w.Text)
	c.Cur(w.Mode, text)
	c.Eval()
	switch w.Mode {
	case "roundtrip":
		exp := reflect.New(rootType).Elem()
		if err := decodeValue(w.Expected, exp); err != nil {
			c.Inconclusive("replay: expected value not understood: " + err.Error())
			return
		}
		spells := map[string]spellRec{}
		for k, r := range w.Spells {
			spells[k] = spellRec{kind: r.Kind, spell: r.Spell}
		}
		if w.Path != "" {
			key := w.Path
			if w.Kind == "map-key" {
				key += "#key"
			}
			spells[key] = spellRec{kind: w.Kind, spell: w.Spell, text: w.Literal}
		}
		res := loadProfile(e.path, text)
		// attribute spans are not part of the witness: rebuild them only for error classification
		var attrs []*attrNode
		if res.err != nil && w.Kind != "" && w.Kind != "structure" {
			attrs = []*attrNode{{kind: w.Kind, spell: w.Spell, sp: span{0, len(text)}}}
		}
		for _, f := range e.judgeRoundtrip(text, exp, spells, res, attrs) {
			c.Violation(f.sig, f.what, w)
		}
	case "encode":
		exp := reflect.New(rootType).Elem()
		if err := decodeValue(w.Expected, exp); err != nil {
			c.Inconclusive("replay: expected value not understood: " + err.Error())
			return
		}
		var enc []byte
		if pv, st := lib.Guard(func() {
			f := hclwrite.NewEmptyFile()
			gohcl.EncodeIntoBody(exp.Addr().Interface(), f.Body())
			enc = f.Bytes()
		}); pv != nil {
			c.Violation("encode:"+lib.PanicSig(pv, st), fmt.Sprintf("gohcl.EncodeIntoBody panics on a valid configuration: %v", pv), w)
			return
		}
		w.Text = string(enc)
		eres := loadProfile(e.path, enc)
		for _, f := range e.judgeRoundtrip(enc, exp, nil, eres, nil) {
			c.Violation(encodeSig(f), "written by gohcl.EncodeIntoBody and loaded again: "+f.what, w)
		}
	case "mutant":
		if w.Fault == nil {
			c.Inconclusive("replay: mutant witness without fault description")
			return
		}
		w.Fault.restore()
		res := loadProfile(e.path, text)
		e.judgeAndReportMutant(w.Fault, nil, nil, text, res, false)
	default:
		res := loadProfile(e.path, text)
		if res.panicV != nil {
			c.Violation(lib.PanicSig(res.panicV, res.stack), fmt.Sprint("panic: ", res.panicV), w)
		}
	}
}
