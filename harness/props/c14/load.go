package c14

import (
	"fmt"
	"os"
	"reflect"
	"regexp"
	"strconv"
	"strings"

	"Havoc/pkg/profile"
	hcl "Havoc/pkg/profile/yaotl"

	"verifh/lib"
)

var rootType = reflect.TypeOf(profile.HavocConfig{})

type diagInfo struct {
	Summary    string `json:"summary"`
	Detail     string `json:"detail"`
	Error      bool   `json:"error"`
	HasSubject bool   `json:"has_subject"`
	File       string `json:"file,omitempty"`
	SLine      int    `json:"sline"`
	SCol       int    `json:"scol"`
	SByte      int    `json:"sbyte"`
	ELine      int    `json:"eline"`
	ECol       int    `json:"ecol"`
	EByte      int    `json:"ebyte"`
	ByteKnown  bool   `json:"byte_known"`
}

type loadResult struct {
	cfg     reflect.Value
	err     error
	errText string
	typed   bool // err is hcl.Diagnostics
	diags   []diagInfo
	panicV  any
	stack   string
}

var reDiagText = regexp.MustCompile(`(?s)^(.+?):(\d+),(\d+)-(?:(\d+),)?(\d+): ([^;]*)(?:; (.*))?$`)

// loadProfile runs the real loader on text (written to path first).
func loadProfile(path string, text []byte) (res loadResult) {
	if err := os.WriteFile(path, text, 0o644); err != nil {
		panic("c14: cannot write the temp profile: " + err.Error())
	}
	p := profile.NewProfile()
	res.panicV, res.stack = lib.Guard(func() {
		res.err = p.SetProfile(path, false)
	})
	res.cfg = reflect.ValueOf(&p.Config).Elem()
	if res.err == nil {
		return
	}
	res.errText = res.err.Error()
	if ds, ok := res.err.(hcl.Diagnostics); ok {
		res.typed = true
		for _, d := range ds {
			di := diagInfo{Summary: d.Summary, Detail: d.Detail, Error: d.Severity == hcl.DiagError}
			if d.Subject != nil {
				di.HasSubject = true
				di.ByteKnown = true
				di.File = d.Subject.Filename
				di.SLine, di.SCol, di.SByte = d.Subject.Start.Line, d.Subject.Start.Column, d.Subject.Start.Byte
				di.ELine, di.ECol, di.EByte = d.Subject.End.Line, d.Subject.End.Column, d.Subject.End.Byte
			}
			res.diags = append(res.diags, di)
		}
		return
	}
	// flattened error: "file:line,col-col: Summary; Detail"
	if m := reDiagText.FindStringSubmatch(res.errText); m != nil {
		di := diagInfo{Summary: m[6], Detail: m[7], Error: true, HasSubject: true, File: m[1]}
		di.SLine, _ = strconv.Atoi(m[2])
		di.SCol, _ = strconv.Atoi(m[3])
		di.ELine = di.SLine
		if m[4] != "" {
			di.ELine, _ = strconv.Atoi(m[4])
		}
		di.ECol, _ = strconv.Atoi(m[5])
		res.diags = append(res.diags, di)
	} else {
		res.diags = append(res.diags, diagInfo{Summary: res.errText, Error: true})
	}
	return
}

// lineOf: 1-based line of byte offset off.
func lineOf(text []byte, off int) int {
	if off > len(text) {
		off = len(text)
	}
	n := 1
	for _, c := range text[:off] {
		if c == '\n' {
			n++
		}
	}
	return n
}

// inFile: the diagnostic points into the file that was loaded.
func (d diagInfo) inFile(path string, text []byte) bool {
	if !d.HasSubject || d.File != path {
		return false
	}
	lines := lineOf(text, len(text))
	if d.SLine < 1 || d.ELine < d.SLine || d.ELine > lines+1 || d.SCol < 1 {
		return false
	}
	if d.ByteKnown {
		if d.SByte < 0 || d.EByte < d.SByte || d.EByte > len(text) {
			return false
		}
		// line and byte offset must agree
		if lineOf(text, d.SByte) != d.SLine {
			return false
		}
	}
	return true
}

// touches: the subject overlaps [s,e] (byte offsets into text).
func (d diagInfo) touches(text []byte, sp span) bool {
	if d.ByteKnown {
		return d.SByte <= sp.e && d.EByte >= sp.s
	}
	return d.SLine <= lineOf(text, sp.e) && d.ELine >= lineOf(text, sp.s)
}

func (d diagInfo) mentions(names []string) bool {
	t := d.Summary + " " + d.Detail
	for _, n := range names {
		if n != "" && strings.Contains(t, n) {
			return true
		}
	}
	return false
}

func (d diagInfo) String() string {
	return fmt.Sprintf("%d,%d-%d,%d [%d,%d): %s; %s", d.SLine, d.SCol, d.ELine, d.ECol, d.SByte, d.EByte, d.Summary, d.Detail)
}
