package c14

import (
	"fmt"
	"reflect"
	"strings"
)

// The schema is derived here, independently of gohcl, from the `yaotl` struct tags of the
// real profile.HavocConfig type: `name` (required attribute), `name,optional`,
// `name,block`, `name,label`.  A field added, renamed or re-tagged in config.go is picked up
// without touching this package.

type fkind int

const (
	kString fkind = iota
	kInt
	kUint
	kBool
	kList
	kMap
	kUnsupported
)

func (k fkind) String() string {
	switch k {
	case kString:
		return "string"
	case kInt:
		return "int"
	case kUint:
		return "uint"
	case kBool:
		return "bool"
	case kList:
		return "list"
	case kMap:
		return "map"
	}
	return "unsupported"
}

type attrSchema struct {
	name     string // yaotl name
	goName   string
	idx      int
	optional bool
	typ      reflect.Type
	kind     fkind
	elem     fkind // element kind of lists / maps
	bits     int
	owner    *structSchema
	pinned   bool // required according to the pinned table below, whatever the tag says now
}

// pinnedRequired lists the settings that are required inside a present block in the
// profile format as shipped (struct name -> yaotl attribute names).  The generator follows
// the tags of the real type; oracle B additionally insists that these stay required, so
// that a tag that silently turns one of them optional is noticed.  Settings added later
// are judged by their tag alone.
var pinnedRequired = map[string][]string{
	"ServerProfile":        {"Host", "Port"},
	"UsersBlock":           {"Password"},
	"ServiceConfig":        {"Endpoint", "Password"},
	"WebHookDiscordConfig": {"Url"},
	"ListenerHTTP":         {"Name", "Hosts", "HostBind", "HostRotation", "PortBind"},
	"ListenerSMB":          {"Name", "PipeName"},
	"ListenerExternal":     {"Name", "Endpoint"},
	"ListenerHttpProxy":    {"Host", "Port"},
	"ListenerHttpCerts":    {"Cert", "Key"},
}

// pinnedNames is the file format as shipped: Go struct -> Go field -> name of the setting
// in a profile file.  The generator assigns values to Go fields (what the server reads) and
// the printer writes each field under this name, so that a tag that sends a setting into
// another field is seen as a round-trip difference.  Fields that are not listed (added
// later) are written under their current tag name.
var pinnedNames = map[string]map[string]string{
	"HavocConfig":           {"Server": "Teamserver", "Operators": "Operators", "Listener": "Listeners", "Demon": "Demon", "Service": "Service", "WebHook": "WebHook"},
	"ServerProfile":         {"Host": "Host", "Port": "Port", "Build": "Build"},
	"BuildConfig":           {"Compiler64": "Compiler64", "Compiler86": "Compiler86", "Nasm": "Nasm"},
	"OperatorsBlock":        {"Users": "user"},
	"UsersBlock":            {"Name": "Name", "Password": "Password"},
	"Listeners":             {"ListenerHTTP": "Http", "ListenerSMB": "Smb", "ListenerExternal": "External"},
	"ListenerHTTP":          {"Name": "Name", "KillDate": "KillDate", "WorkingHours": "WorkingHours", "Hosts": "Hosts", "HostBind": "HostBind", "HostRotation": "HostRotation", "PortBind": "PortBind", "PortConn": "PortConn", "Methode": "Method", "UserAgent": "UserAgent", "Headers": "Headers", "Uris": "Uris", "Secure": "Secure", "Cert": "Cert", "Response": "Response", "Proxy": "Proxy"},
	"ListenerHttpCerts":     {"Cert": "Cert", "Key": "Key"},
	"ListenerHttpResponse":  {"Headers": "Headers"},
	"ListenerHttpProxy":     {"Host": "Host", "Port": "Port", "User": "Username", "Pass": "Password"},
	"ListenerSMB":           {"Name": "Name", "PipeName": "PipeName", "KillDate": "KillDate", "WorkingHours": "WorkingHours"},
	"ListenerExternal":      {"Name": "Name", "Endpoint": "Endpoint"},
	"Demon":                 {"Sleep": "Sleep", "Jitter": "Jitter", "IndirectSyscall": "IndirectSyscall", "StackDuplication": "StackDuplication", "SleepTechnique": "SleepTechnique", "ProxyLoading": "ProxyLoading", "AmsiEtwPatching": "AmsiEtwPatching", "ProcessInjection": "Injection", "DotNetNamePipe": "DotNetNamePipe", "Binary": "Binary", "TrustXForwardedFor": "TrustXForwardedFor"},
	"ProcessInjectionBlock": {"Spawn64": "Spawn64", "Spawn32": "Spawn32"},
	"Binary":                {"Header": "Header", "ReplaceStringsX64": "ReplaceStrings-x64", "ReplaceStringsX86": "ReplaceStrings-x86"},
	"HeaderBlock":           {"MagicMzX64": "MagicMz-x64", "MagicMzX86": "MagicMz-x86", "CompileTime": "CompileTime", "ImageSizeX64": "ImageSize-x64", "ImageSizeX86": "ImageSize-x86"},
	"ServiceConfig":         {"Endpoint": "Endpoint", "Password": "Password"},
	"WebHookConfig":         {"Discord": "Discord"},
	"WebHookDiscordConfig":  {"WebHook": "Url", "AvatarUrl": "AvatarUrl", "UserName": "User"},
}

// pinnedLabels: Go fields that are block labels in the shipped format.
var pinnedLabels = map[string][]string{"UsersBlock": {"Name"}}

func (a *attrSchema) required() bool { return !a.optional || a.pinned }

type blockSchema struct {
	name   string
	goName string
	idx    int
	slice  bool
	ptr    bool
	body   *structSchema
	owner  *structSchema
}

type labelSchema struct {
	name   string
	goName string
	idx    int
}

type structSchema struct {
	typ         reflect.Type
	attrs       []*attrSchema
	blocks      []*blockSchema
	labels      []*labelSchema
	unsupported []string
}

var schemaCache = map[reflect.Type]*structSchema{}

func primKind(t reflect.Type) (fkind, int) {
	switch t.Kind() {
	case reflect.String:
		return kString, 0
	case reflect.Bool:
		return kBool, 0
	case reflect.Int, reflect.Int8, reflect.Int16, reflect.Int32, reflect.Int64:
		return kInt, t.Bits()
	case reflect.Uint, reflect.Uint8, reflect.Uint16, reflect.Uint32, reflect.Uint64:
		return kUint, t.Bits()
	}
	return kUnsupported, 0
}

func schemaOf(t reflect.Type) *structSchema {
	if s, ok := schemaCache[t]; ok {
		return s
	}
	if t.Kind() != reflect.Struct {
		panic(fmt.Sprintf("c14: schemaOf(%s): not a struct", t))
	}
	ss := &structSchema{typ: t}
	schemaCache[t] = ss
	for i := 0; i < t.NumField(); i++ {
		f := t.Field(i)
		tag, ok := f.Tag.Lookup("yaotl")
		if !ok || tag == "" {
			continue
		}
		name, kind := tag, "attr"
		if c := strings.Index(tag, ","); c >= 0 {
			name, kind = tag[:c], tag[c+1:]
		}
		if pn, ok := pinnedNames[t.Name()][f.Name]; ok {
			name = pn
		}
		for _, l := range pinnedLabels[t.Name()] {
			if l == f.Name {
				kind = "label" // written as a block label in the shipped format
			}
		}
		switch kind {
		case "attr", "optional":
			a := &attrSchema{name: name, goName: f.Name, idx: i, optional: kind == "optional", typ: f.Type, owner: ss}
			for _, n := range pinnedRequired[t.Name()] {
				if n == name {
					a.pinned = true
				}
			}
			switch f.Type.Kind() {
			case reflect.Slice:
				a.kind = kList
				a.elem, a.bits = primKind(f.Type.Elem())
				if a.elem == kUnsupported {
					a.kind = kUnsupported
				}
			case reflect.Map:
				a.kind = kMap
				a.elem, a.bits = primKind(f.Type.Elem())
				if a.elem == kUnsupported || f.Type.Key().Kind() != reflect.String {
					a.kind = kUnsupported
				}
			default:
				a.kind, a.bits = primKind(f.Type)
			}
			if a.kind == kUnsupported {
				ss.unsupported = append(ss.unsupported, t.Name()+"."+f.Name+" "+f.Type.String())
				if !a.optional {
					panic(fmt.Sprintf("c14: required attribute %s.%s has a type (%s) the generator does not know", t.Name(), f.Name, f.Type))
				}
				continue
			}
			ss.attrs = append(ss.attrs, a)
		case "label":
			if f.Type.Kind() != reflect.String {
				panic(fmt.Sprintf("c14: label %s.%s is not a string", t.Name(), f.Name))
			}
			ss.labels = append(ss.labels, &labelSchema{name: name, goName: f.Name, idx: i})
		case "block":
			b := &blockSchema{name: name, goName: f.Name, idx: i, owner: ss}
			ft := f.Type
			if ft.Kind() == reflect.Slice {
				b.slice = true
				ft = ft.Elem()
			}
			if ft.Kind() == reflect.Ptr {
				b.ptr = true
				ft = ft.Elem()
			}
			if ft.Kind() != reflect.Struct {
				panic(fmt.Sprintf("c14: block %s.%s is not a struct", t.Name(), f.Name))
			}
			b.body = schemaOf(ft)
			ss.blocks = append(ss.blocks, b)
		default:
			panic(fmt.Sprintf("c14: tag kind %q on %s.%s is not known to the generator", kind, t.Name(), f.Name))
		}
	}
	return ss
}

func (ss *structSchema) hasName(n string) bool {
	for _, a := range ss.attrs {
		if a.name == n {
			return true
		}
	}
	for _, b := range ss.blocks {
		if b.name == n {
			return true
		}
	}
	return false
}

// allSchemas lists every struct schema reachable from root (root first).
func allSchemas(root *structSchema) []*structSchema {
	var out []*structSchema
	seen := map[*structSchema]bool{}
	var walk func(s *structSchema)
	walk = func(s *structSchema) {
		if seen[s] {
			return
		}
		seen[s] = true
		out = append(out, s)
		for _, b := range s.blocks {
			walk(b.body)
		}
	}
	walk(root)
	return out
}

// ---- paths ----

type pelem struct {
	field string // yaotl name
	idx   int    // >= 0: element of a repeated block / list
	key   *string
	label bool
}

type vpath []pelem

func (p vpath) String() string {
	var b strings.Builder
	for i, e := range p {
		if i > 0 {
			b.WriteByte('.')
		}
		b.WriteString(e.field)
		if e.label {
			b.WriteString("(label)")
		}
		if e.idx >= 0 {
			fmt.Fprintf(&b, "[%d]", e.idx)
		}
		if e.key != nil {
			fmt.Fprintf(&b, "{%+q}", *e.key)
		}
	}
	return b.String()
}

func (p vpath) with(e pelem) vpath {
	q := make(vpath, len(p)+1)
	copy(q, p)
	q[len(p)] = e
	return q
}

func pf(field string) pelem { return pelem{field: field, idx: -1} }
func pi(field string, i int) pelem {
	return pelem{field: field, idx: i}
}
