// Package c14 holds the workload and monitor for property C14 (see /verif/DESIGN.md §3).
package c14

import (
	"reflect"
	"sort"
	"strings"
)

// ---- document model (the printer's own; nothing from hclwrite / gohcl) ----

type span struct{ s, e int }

type node interface{ isNode() }

type attrNode struct {
	sch        *attrSchema // nil: not in the schema (fault injection)
	name       string
	expr       string // the expression text, verbatim
	heredocEnd bool   // expr ends with a heredoc closer: nothing may follow on that line
	path       vpath
	kind       string // field kind for signatures
	spell      string
	sp         span
}

type blockNode struct {
	sch    *blockSchema // nil: unknown block type
	typ    string
	labels []string // rendered label tokens
	body   *bodyNode
	path   vpath
	sp     span
}

type triviaNode struct{ text string }

func (*attrNode) isNode()   {}
func (*blockNode) isNode()  {}
func (*triviaNode) isNode() {}

type bodyNode struct {
	ss      *structSchema
	items   []node
	oneLine bool
}

// spellRec remembers how each value was spelled (for signatures and minimisation).
type spellRec struct {
	kind  string // string | int | uint | bool | list | map | label | list-string | map-string | map-key ...
	spell string
	text  string
}

type builder struct {
	sp       *speller
	rng      interface{ Intn(int) int }
	spells   map[string]spellRec
	override map[string]string // path -> verbatim expression / label text (minimisation)
	ovSpell  map[string]string
	obs      func(string)
	nblocks  int
}

func (b *builder) rec(p vpath, kind, spell, text string) {
	if b.spells != nil {
		b.spells[p.String()] = spellRec{kind, spell, text}
	}
	if b.obs != nil {
		b.obs("fk:" + kind)
	}
}

func endsWithHeredoc(kind string) bool { return kind == "heredoc" || kind == "heredoc-flush" }

func (b *builder) prim(v reflect.Value, k fkind, p vpath, kindName string, oneLine bool) (text, spell string) {
	if t, ok := b.override[p.String()]; ok {
		spell = b.ovSpell[p.String()]
		b.rec(p, kindName, spell, t)
		return t, spell
	}
	switch k {
	case kString:
		t, sk, _ := b.sp.str(v.String(), ctxAttr, oneLine, "")
		b.sp.note(sk)
		b.rec(p, kindName, sk, t)
		return t, sk
	case kBool:
		t, sk := b.sp.boolean(v.Bool(), "")
		b.sp.note("bool-" + sk)
		b.rec(p, kindName, sk, t)
		return t, sk
	case kInt:
		i := v.Int()
		neg := i < 0
		mag := uint64(i)
		if neg {
			mag = uint64(-(i + 1)) + 1
		}
		t, sk := b.sp.integer(neg, mag, "")
		b.sp.note("int-" + sk)
		b.rec(p, kindName, sk, t)
		return t, sk
	case kUint:
		t, sk := b.sp.integer(false, v.Uint(), "")
		b.sp.note("int-" + sk)
		b.rec(p, kindName, sk, t)
		return t, sk
	}
	panic("c14: prim kind")
}

func elemKindName(prefix string, k fkind) string { return prefix + "-" + k.String() }

func (b *builder) attrExpr(a *attrSchema, fv reflect.Value, p vpath, oneLine bool) (expr, spell string, heredocEnd bool) {
	sp := b.sp
	nl := sp.nl
	switch a.kind {
	case kList:
		n := fv.Len()
		if n == 0 {
			t := []string{"[]", "[ ]", "[" + nl + "]", "[" + nl + sp.ws(0, 4) + "# none" + nl + "]"}[b.rng.Intn(4)]
			if oneLine || sp.plain {
				t = "[]"
			}
			sp.note("list-empty")
			b.rec(p, "list", "l-empty", t)
			return t, "l-empty", false
		}
		multi := !oneLine && !sp.plain && b.rng.Intn(2) == 0
		var sb strings.Builder
		sb.WriteByte('[')
		for i := 0; i < n; i++ {
			et, esp := b.prim(fv.Index(i), a.elem, p.elem(i), elemKindName("list", a.elem), !multi)
			if multi {
				sb.WriteString(nl + sp.ws(0, 8))
			} else if i > 0 {
				sb.WriteString(sp.ws(0, 2))
			}
			sb.WriteString(et)
			last := i == n-1
			if endsWithHeredoc(esp) {
				sb.WriteString(nl)
				if !last || b.rng.Intn(2) == 0 {
					sb.WriteString(sp.ws(0, 4) + ",")
				}
			} else if !last || (!sp.plain && b.rng.Intn(3) == 0) {
				sb.WriteString(sp.ws(0, 1) + ",")
			}
			if multi && !sp.plain && b.rng.Intn(5) == 0 {
				sb.WriteString(" " + sp.lineComment())
				// the comment ends at the line end; the next element starts a new line anyway
			}
		}
		if multi {
			sb.WriteString(nl + sp.ws(0, 4))
		}
		sb.WriteByte(']')
		k := "l-one"
		if multi {
			k = "l-multi"
		}
		sp.note("list-" + k)
		b.rec(p, "list", k, "")
		return sb.String(), k, false
	case kMap:
		keys := make([]string, 0, fv.Len())
		for _, kv := range fv.MapKeys() {
			keys = append(keys, kv.String())
		}
		sort.Strings(keys)
		if len(keys) == 0 {
			t := []string{"{}", "{ }", "{" + nl + "}"}[b.rng.Intn(3)]
			if oneLine || sp.plain {
				t = "{}"
			}
			sp.note("map-empty")
			b.rec(p, "map", "m-empty", t)
			return t, "m-empty", false
		}
		// source order of the entries is free
		if !sp.plain {
			for i := len(keys) - 1; i > 0; i-- {
				j := b.rng.Intn(i + 1)
				keys[i], keys[j] = keys[j], keys[i]
			}
		}
		multi := !oneLine && !sp.plain && b.rng.Intn(2) == 0
		var sb strings.Builder
		sb.WriteByte('{')
		for i, k := range keys {
			ep := p.keyed(k)
			kt, ksp, _ := sp.str(k, ctxKey, true, "")
			if ot, ok := b.override[ep.String()+"#key"]; ok {
				kt, ksp = ot, b.ovSpell[ep.String()+"#key"]
			}
			sp.note("key-" + ksp)
			if b.spells != nil {
				b.spells[ep.String()+"#key"] = spellRec{"map-key", ksp, kt}
			}
			vt, vsp := b.prim(fv.MapIndex(reflect.ValueOf(k).Convert(a.typ.Key())), a.elem, ep, elemKindName("map", a.elem), !multi)
			if multi {
				sb.WriteString(nl + sp.ws(0, 8))
			} else {
				sb.WriteString(sp.ws(0, 1))
			}
			sb.WriteString(kt)
			eq := "="
			if !sp.plain && b.rng.Intn(4) == 0 {
				eq = ":"
			}
			sb.WriteString(sp.ws(0, 2) + eq + sp.ws(0, 2))
			sb.WriteString(vt)
			last := i == len(keys)-1
			switch {
			case endsWithHeredoc(vsp):
				sb.WriteString(nl) // the newline is the separator
			case multi:
				if b.rng.Intn(2) == 0 {
					sb.WriteString(",")
				}
				if b.rng.Intn(6) == 0 {
					sb.WriteString(" " + sp.lineComment())
				}
			default:
				if !last || (!sp.plain && b.rng.Intn(4) == 0) {
					sb.WriteString(",")
				}
			}
		}
		if multi {
			sb.WriteString(nl + sp.ws(0, 4))
		} else {
			sb.WriteString(sp.ws(0, 1))
		}
		sb.WriteByte('}')
		k := "m-one"
		if multi {
			k = "m-multi"
		}
		sp.note("map-" + k)
		b.rec(p, "map", k, "")
		return sb.String(), k, false
	default:
		t, s := b.prim(fv, a.kind, p, a.kind.String(), oneLine)
		return t, s, endsWithHeredoc(s)
	}
}

// elem / keyed address one element of the list / map attribute p points at.
func (p vpath) elem(i int) vpath {
	q := append(vpath{}, p...)
	q[len(q)-1].idx = i
	return q
}

func (p vpath) keyed(k string) vpath {
	q := append(vpath{}, p...)
	q[len(q)-1].key = &k
	return q
}

func isZero(v reflect.Value) bool {
	switch v.Kind() {
	case reflect.Slice, reflect.Map:
		return v.Len() == 0
	}
	return v.IsZero()
}

// body builds the document of one struct value.
func (b *builder) body(ss *structSchema, v reflect.Value, p vpath) *bodyNode {
	bn := &bodyNode{ss: ss}
	plain := b.sp.plain
	// a block with at most one attribute and no nested block may be written on one line
	nAttr, nBlock := 0, 0
	present := map[*attrSchema]bool{}
	for _, a := range ss.attrs {
		fv := v.Field(a.idx)
		pr := true
		if !a.required() && isZero(fv) {
			pr = !plain && b.rng.Intn(10) < 3 // an explicit zero is the same value
		}
		present[a] = pr
		if pr {
			nAttr++
		}
		if b.obs != nil {
			if pr {
				b.obs("present:" + ss.typ.Name() + "." + a.name)
			} else {
				b.obs("absent:" + ss.typ.Name() + "." + a.name)
			}
		}
	}
	for _, bs := range ss.blocks {
		fv := v.Field(bs.idx)
		n := 0
		switch {
		case bs.slice:
			n = fv.Len()
		case bs.ptr:
			if !fv.IsNil() {
				n = 1
			}
		default:
			n = 1
		}
		nBlock += n
		if b.obs != nil {
			if n > 0 {
				b.obs("present:" + ss.typ.Name() + "." + bs.name)
			} else {
				b.obs("absent:" + ss.typ.Name() + "." + bs.name)
			}
			if bs.slice && n > 1 {
				b.obs("repeated:" + ss.typ.Name() + "." + bs.name)
			}
		}
	}
	oneLine := len(p) > 0 && nBlock == 0 && nAttr <= 1 && !plain && b.rng.Intn(3) == 0
	bn.oneLine = oneLine

	for _, a := range ss.attrs {
		if !present[a] {
			continue
		}
		ap := p.with(pf(a.name))
		expr, spell, hd := b.attrExpr(a, v.Field(a.idx), ap, oneLine)
		if oneLine && strings.ContainsAny(expr, "\r\n") {
			oneLine = false
			bn.oneLine = false
		}
		bn.items = append(bn.items, &attrNode{sch: a, name: a.name, expr: expr, heredocEnd: hd, path: ap, kind: a.kind.String(), spell: spell})
	}
	for _, bs := range ss.blocks {
		fv := v.Field(bs.idx)
		mk := func(sv reflect.Value, bp vpath) {
			b.nblocks++
			blk := &blockNode{sch: bs, typ: bs.name, path: bp}
			for _, l := range bs.body.labels {
				lp := bp.with(pelem{field: l.name, idx: -1, label: true})
				var lt, lsp string
				if ot, ok := b.override[lp.String()]; ok {
					lt, lsp = ot, b.ovSpell[lp.String()]
				} else {
					lt, lsp, _ = b.sp.str(sv.Field(l.idx).String(), ctxLabel, true, "")
				}
				b.sp.note("label-" + lsp)
				b.rec(lp, "label", lsp, lt)
				blk.labels = append(blk.labels, lt)
			}
			blk.body = b.body(bs.body, sv, bp)
			bn.items = append(bn.items, blk)
		}
		switch {
		case bs.slice:
			for i := 0; i < fv.Len(); i++ {
				e := fv.Index(i)
				if bs.ptr {
					e = e.Elem()
				}
				mk(e, p.with(pi(bs.name, i)))
			}
		case bs.ptr:
			if !fv.IsNil() {
				mk(fv.Elem(), p.with(pf(bs.name)))
			}
		default:
			mk(fv, p.with(pf(bs.name)))
		}
	}
	if !plain {
		b.shuffle(bn)
		b.trivia(bn)
	}
	return bn
}

// shuffle permutes the items of a body; blocks of one type keep their relative order.
func (b *builder) shuffle(bn *bodyNode) {
	items := bn.items
	orig := append([]node{}, items...)
	for i := len(items) - 1; i > 0; i-- {
		j := b.rng.Intn(i + 1)
		items[i], items[j] = items[j], items[i]
	}
	byType := map[string][]int{}
	for i, it := range items {
		if blk, ok := it.(*blockNode); ok {
			byType[blk.typ] = append(byType[blk.typ], i)
		}
	}
	for typ, pos := range byType {
		if len(pos) < 2 {
			continue
		}
		var inOrder []node
		for _, it := range orig {
			if blk, ok := it.(*blockNode); ok && blk.typ == typ {
				inOrder = append(inOrder, it)
			}
		}
		for k, ix := range pos {
			items[ix] = inOrder[k]
		}
	}
}

func (b *builder) trivia(bn *bodyNode) {
	if bn.oneLine {
		return
	}
	var out []node
	for i := 0; i <= len(bn.items); i++ {
		for b.rng.Intn(5) == 0 {
			var t string
			switch b.rng.Intn(5) {
			case 0, 1:
				t = b.sp.ws(0, 3)
				b.sp.note("blank-line")
			case 2:
				t = b.sp.lineComment()
				b.sp.note("comment-line")
			case 3:
				t = b.sp.lineComment()
				b.sp.note("comment-line")
			default:
				t = b.sp.blockComment()
				b.sp.note("comment-block")
			}
			out = append(out, &triviaNode{text: t})
		}
		if i < len(bn.items) {
			out = append(out, bn.items[i])
		}
	}
	bn.items = out
}

// ---- renderer ----

type renderer struct {
	sp     *speller
	rng    interface{ Intn(int) int }
	buf    []byte
	indent string
}

func (r *renderer) w(s string) { r.buf = append(r.buf, s...) }

func (r *renderer) ind(depth int) {
	if r.sp.plain {
		r.w(strings.Repeat("  ", depth))
		return
	}
	r.w(strings.Repeat(r.indent, depth))
	if r.rng.Intn(12) == 0 {
		r.w(r.sp.ws(0, 3))
	}
}

func (r *renderer) maybeInline() {
	if !r.sp.plain && r.rng.Intn(25) == 0 {
		r.w(" " + r.sp.inlineComment() + " ")
		r.sp.note("comment-inline")
	}
}

func (r *renderer) attr(a *attrNode) {
	a.sp.s = len(r.buf)
	r.w(a.name)
	r.maybeInline()
	r.w(r.sp.ws(0, 3) + "=" + r.sp.ws(0, 3))
	if r.sp.plain {
		r.buf = r.buf[:a.sp.s]
		r.w(a.name + " = ")
	}
	r.w(a.expr)
	a.sp.e = len(r.buf)
}

func (r *renderer) trailing() {
	if r.sp.plain {
		return
	}
	switch r.rng.Intn(14) {
	case 0:
		r.w(" " + r.sp.lineComment())
		r.sp.note("comment-trailing")
	case 1:
		r.w(" " + r.sp.inlineComment())
		r.sp.note("comment-inline")
	case 2:
		r.w(r.sp.ws(1, 3))
	}
}

func (r *renderer) block(blk *blockNode, depth int) {
	blk.sp.s = len(r.buf)
	r.w(blk.typ)
	for _, l := range blk.labels {
		r.w(r.sp.ws(1, 2) + l)
	}
	r.w(r.sp.ws(0, 2))
	r.w("{")
	if blk.body.oneLine {
		var only *attrNode
		for _, it := range blk.body.items {
			if a, ok := it.(*attrNode); ok {
				only = a
			}
		}
		if only != nil {
			r.w(r.sp.ws(0, 2))
			r.attr(only)
			r.w(r.sp.ws(0, 2))
		} else {
			r.w(r.sp.ws(0, 2))
		}
		r.w("}")
		r.sp.note("block-one-line")
	} else {
		r.trailing()
		r.w(r.sp.nl)
		r.body(blk.body, depth+1)
		r.ind(depth)
		r.w("}")
	}
	blk.sp.e = len(r.buf)
}

func (r *renderer) body(bn *bodyNode, depth int) {
	for _, it := range bn.items {
		r.ind(depth)
		switch n := it.(type) {
		case *triviaNode:
			r.w(n.text)
		case *attrNode:
			r.attr(n)
			if !n.heredocEnd {
				r.trailing()
			}
		case *blockNode:
			r.block(n, depth)
			r.trailing()
		}
		r.w(r.sp.nl)
	}
}

// render writes the whole file and fills in the spans.
func render(sp *speller, rng interface{ Intn(int) int }, root *bodyNode, bom bool) []byte {
	r := &renderer{sp: sp, rng: rng}
	r.indent = []string{"  ", "    ", "\t", "", " "}[rng.Intn(5)]
	if bom {
		r.w("\xef\xbb\xbf")
	}
	r.body(root, 0)
	return r.buf
}

func countBlocks(bn *bodyNode) int {
	n := 0
	for _, it := range bn.items {
		if blk, ok := it.(*blockNode); ok {
			n += 1 + countBlocks(blk.body)
		}
	}
	return n
}
