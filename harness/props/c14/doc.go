// Package c14 holds the workload and monitor for property C14 (see /verif/DESIGN.md §3).
package c14
