package c14

import (
	"fmt"
	"math/rand"
	"strings"
	"unicode"
)

// Single-fault mutants of a valid profile (oracle B).

type fault struct {
	Kind     string   `json:"kind"`
	Sub      string   `json:"sub,omitempty"`
	Names    []string `json:"names"`     // the diagnostic must mention one of them ...
	NeedName bool     `json:"need_name"` // ... unless the fault is only pointed at (wrong kind of value)
	Desc     string   `json:"desc"`
	Spans    []span   `json:"-"`
	Encl     span     `json:"-"`
	// filled by finish():
	SpanList [][2]int `json:"item_spans"`
	EnclSpan [2]int   `json:"enclosing_span"`

	items []node
	encl  *blockNode
}

type site struct {
	body  *bodyNode
	owner *blockNode // nil: file body
	idx   int
	n     node
}

func collectSites(bn *bodyNode, owner *blockNode, out *[]site, bodies *[]site) {
	*bodies = append(*bodies, site{body: bn, owner: owner})
	for i, it := range bn.items {
		switch n := it.(type) {
		case *attrNode:
			*out = append(*out, site{bn, owner, i, n})
		case *blockNode:
			*out = append(*out, site{bn, owner, i, n})
			collectSites(n.body, n, out, bodies)
		}
	}
}

func copyBlock(b *blockNode) *blockNode {
	c := *b
	c.labels = append([]string{}, b.labels...)
	c.body = &bodyNode{ss: b.body.ss, oneLine: b.body.oneLine}
	for _, it := range b.body.items {
		switch n := it.(type) {
		case *attrNode:
			a := *n
			c.body.items = append(c.body.items, &a)
		case *blockNode:
			c.body.items = append(c.body.items, copyBlock(n))
		case *triviaNode:
			t := *n
			c.body.items = append(c.body.items, &t)
		}
	}
	return &c
}

func insertAt(bn *bodyNode, i int, n node) {
	bn.oneLine = false
	bn.items = append(bn.items, nil)
	copy(bn.items[i+1:], bn.items[i:])
	bn.items[i] = n
}

func removeAt(bn *bodyNode, i int) {
	bn.items = append(bn.items[:i], bn.items[i+1:]...)
}

func flipCase(s string) string {
	r := []rune(s)
	for i, c := range r {
		if unicode.IsUpper(c) {
			r[i] = unicode.ToLower(c)
			return string(r)
		}
		if unicode.IsLower(c) {
			r[i] = unicode.ToUpper(c)
			return string(r)
		}
	}
	return s + "X"
}

func unknownName(rng *rand.Rand, ss *structSchema, all []*structSchema) string {
	for try := 0; try < 20; try++ {
		var n string
		switch rng.Intn(6) {
		case 0:
			n = "Zq" + string(rune('A'+rng.Intn(26))) + string(rune('a'+rng.Intn(26))) + fmt.Sprint(rng.Intn(100))
		case 1:
			var names []string
			for _, a := range ss.attrs {
				names = append(names, a.name)
			}
			for _, b := range ss.blocks {
				names = append(names, b.name)
			}
			if len(names) == 0 {
				continue
			}
			n = flipCase(names[rng.Intn(len(names))])
		case 2:
			o := all[rng.Intn(len(all))]
			var names []string
			for _, a := range o.attrs {
				names = append(names, a.name)
			}
			for _, b := range o.blocks {
				names = append(names, b.name)
			}
			if len(names) == 0 {
				continue
			}
			n = names[rng.Intn(len(names))]
		case 3:
			var names []string
			for _, a := range ss.attrs {
				names = append(names, a.name)
			}
			for _, b := range ss.blocks {
				names = append(names, b.name)
			}
			if len(names) == 0 {
				continue
			}
			n = names[rng.Intn(len(names))] + []string{"s", "2", "_", "-x"}[rng.Intn(4)]
		case 4:
			n = []string{"Überwachung", "Пароль", "Hostname", "Timeout", "Enabled", "listen_addr", "Kill-Date"}[rng.Intn(7)]
		default:
			n = "Unknown" + fmt.Sprint(rng.Intn(1000))
		}
		if len(n) >= 3 && !ss.hasName(n) {
			return n
		}
	}
	return "ZqUnknownName"
}

func simpleExpr(rng *rand.Rand) string {
	return []string{`"x"`, `1`, `true`, `[]`, `["a", "b"]`, `{}`, `"${1}"`, `null`, `-5`, `"a b"`}[rng.Intn(10)]
}

// wrongKind returns an expression that the dialect does not convert to the attribute's kind.
func wrongKind(rng *rand.Rand, a *attrSchema) (expr, sub string) {
	pick := func(xs [][2]string) (string, string) {
		x := xs[rng.Intn(len(xs))]
		return x[0], a.kind.String() + "<-" + x[1]
	}
	switch a.kind {
	case kString:
		return pick([][2]string{{`["a"]`, "list"}, {`[]`, "list"}, {`{}`, "object"}, {`{ a = "b" }`, "object"}, {`null`, "null"}, {`[1, 2]`, "list"}})
	case kInt, kUint:
		xs := [][2]string{{`true`, "bool"}, {`[1]`, "list"}, {`1.5`, "fraction"}, {`"1.5"`, "fraction-string"}, {`null`, "null"},
			{`"abc"`, "string"}, {`""`, "empty-string"}, {`{}`, "object"}, {`1e19`, "out-of-range"}, {`0.5`, "fraction"}, {`"true"`, "string"}}
		bits := a.bits
		if bits == 0 {
			bits = 64
		}
		if a.kind == kInt {
			hi := map[int]string{8: "128", 16: "32768", 32: "2147483648", 64: "9223372036854775808"}[bits]
			lo := map[int]string{8: "-129", 16: "-32769", 32: "-2147483649", 64: "-9223372036854775809"}[bits]
			xs = append(xs, [2]string{hi, "out-of-range"}, [2]string{lo, "out-of-range"}, [2]string{`"` + hi + `"`, "out-of-range"})
		} else {
			hi := map[int]string{8: "256", 16: "65536", 32: "4294967296", 64: "18446744073709551616"}[bits]
			xs = append(xs, [2]string{hi, "out-of-range"}, [2]string{"-1", "out-of-range"})
		}
		return pick(xs)
	case kBool:
		return pick([][2]string{{`[true]`, "list"}, {`1`, "number"}, {`0`, "number"}, {`"yes"`, "string"}, {`null`, "null"}, {`{}`, "object"},
			{`""`, "empty-string"}, {`"TRUE"`, "string"}, {`2`, "number"}})
	case kList:
		return pick([][2]string{{`"a"`, "string"}, {`5`, "number"}, {`true`, "bool"}, {`{}`, "object"}, {`{ a = "b" }`, "object"},
			{`["a", ["b"]]`, "nested-list"}, {`["a", null]`, "null-element"}, {`[{}]`, "object-element"}})
	case kMap:
		return pick([][2]string{{`"a"`, "string"}, {`["a"]`, "list"}, {`5`, "number"}, {`[]`, "list"}, {`{ a = ["b"] }`, "list-element"},
			{`{ a = {} }`, "object-element"}, {`{ a = null }`, "null-element"}, {`true`, "bool"}})
	}
	return `null`, "null"
}

// applyFault mutates the document in place; ok=false if no fault site exists.
func applyFault(rng *rand.Rand, root *bodyNode, rootSS *structSchema) (*fault, bool) {
	var sites, bodies []site
	collectSites(root, nil, &sites, &bodies)
	all := allSchemas(rootSS)
	kinds := []string{"del-required-attr", "dup-single-block", "unknown-attr", "unknown-block", "wrong-kind", "wrong-kind",
		"attr-as-block", "block-as-attr", "missing-label", "extra-label", "dup-attr"}
	rng.Shuffle(len(kinds), func(i, j int) { kinds[i], kinds[j] = kinds[j], kinds[i] })
	sel := func(ok func(s site) bool) (site, bool) {
		var c []site
		for _, s := range sites {
			if ok(s) {
				c = append(c, s)
			}
		}
		if len(c) == 0 {
			return site{}, false
		}
		return c[rng.Intn(len(c))], true
	}
	isAttr := func(s site) (*attrNode, bool) { a, ok := s.n.(*attrNode); return a, ok }
	isBlock := func(s site) (*blockNode, bool) { b, ok := s.n.(*blockNode); return b, ok }

	for _, k := range kinds {
		switch k {
		case "del-required-attr":
			s, ok := sel(func(s site) bool { a, ok := isAttr(s); return ok && a.sch != nil && a.sch.required() })
			if !ok {
				continue
			}
			a := s.n.(*attrNode)
			removeAt(s.body, s.idx)
			return &fault{Kind: k, Names: []string{a.name}, NeedName: true, encl: s.owner,
				Desc: "required attribute " + a.path.String() + " deleted"}, true
		case "dup-single-block":
			s, ok := sel(func(s site) bool { b, ok := isBlock(s); return ok && b.sch != nil && !b.sch.slice })
			if !ok {
				continue
			}
			b := s.n.(*blockNode)
			c := copyBlock(b)
			insertAt(s.body, rng.Intn(len(s.body.items)+1), c)
			return &fault{Kind: k, Names: []string{b.typ}, NeedName: true, items: []node{b, c}, encl: s.owner,
				Desc: "single block " + b.path.String() + " written twice"}, true
		case "unknown-attr":
			bs := bodies[rng.Intn(len(bodies))]
			name := unknownName(rng, bs.body.ss, all)
			a := &attrNode{name: name, expr: simpleExpr(rng)}
			insertAt(bs.body, rng.Intn(len(bs.body.items)+1), a)
			where := "file"
			if bs.owner != nil {
				where = bs.owner.path.String()
			}
			return &fault{Kind: k, Names: []string{name}, NeedName: true, items: []node{a}, encl: bs.owner,
				Desc: "unknown attribute " + name + " added to " + where}, true
		case "unknown-block":
			bs := bodies[rng.Intn(len(bodies))]
			name := unknownName(rng, bs.body.ss, all)
			blk := &blockNode{typ: name, body: &bodyNode{}}
			if rng.Intn(3) == 0 {
				blk.labels = []string{`"x"`}
			}
			switch rng.Intn(3) {
			case 0:
				blk.body.oneLine = true
			case 1:
				blk.body.items = []node{&attrNode{name: "Name", expr: `"n"`}}
			}
			insertAt(bs.body, rng.Intn(len(bs.body.items)+1), blk)
			where := "file"
			if bs.owner != nil {
				where = bs.owner.path.String()
			}
			return &fault{Kind: k, Names: []string{name}, NeedName: true, items: []node{blk}, encl: bs.owner,
				Desc: "unknown block " + name + " added to " + where}, true
		case "wrong-kind":
			s, ok := sel(func(s site) bool { a, ok := isAttr(s); return ok && a.sch != nil })
			if !ok {
				continue
			}
			a := s.n.(*attrNode)
			expr, sub := wrongKind(rng, a.sch)
			a.expr, a.heredocEnd = expr, false
			return &fault{Kind: k + ":" + a.sch.kind.String(), Sub: sub, Names: []string{a.name}, NeedName: false, items: []node{a}, encl: s.owner,
				Desc: "attribute " + a.path.String() + " given as " + expr + " (" + sub + ")"}, true
		case "attr-as-block":
			s, ok := sel(func(s site) bool { a, ok := isAttr(s); return ok && a.sch != nil })
			if !ok {
				continue
			}
			a := s.n.(*attrNode)
			blk := &blockNode{typ: a.name, body: &bodyNode{oneLine: rng.Intn(2) == 0}}
			if rng.Intn(3) == 0 {
				blk.body.oneLine = false
				blk.body.items = []node{&attrNode{name: "Value", expr: `"v"`}}
			}
			s.body.items[s.idx] = blk
			s.body.oneLine = false
			return &fault{Kind: k, Names: []string{a.name}, NeedName: true, items: []node{blk}, encl: s.owner,
				Desc: "attribute " + a.path.String() + " written with block syntax"}, true
		case "block-as-attr":
			s, ok := sel(func(s site) bool { b, ok := isBlock(s); return ok && b.sch != nil })
			if !ok {
				continue
			}
			b := s.n.(*blockNode)
			a := &attrNode{name: b.typ, expr: []string{`{}`, `{ Name = "n" }`, `1`, `"x"`, `[]`, `[{}]`}[rng.Intn(6)]}
			s.body.items[s.idx] = a
			return &fault{Kind: k, Names: []string{b.typ}, NeedName: true, items: []node{a}, encl: s.owner,
				Desc: "block " + b.path.String() + " written with attribute syntax (= " + a.expr + ")"}, true
		case "missing-label":
			s, ok := sel(func(s site) bool { b, ok := isBlock(s); return ok && b.sch != nil && len(b.labels) > 0 })
			if !ok {
				continue
			}
			b := s.n.(*blockNode)
			i := rng.Intn(len(b.labels))
			names := []string{b.typ, b.sch.body.labels[i].name}
			b.labels = append(b.labels[:i:i], b.labels[i+1:]...)
			return &fault{Kind: k, Names: names, NeedName: true, items: []node{b}, encl: s.owner,
				Desc: "label of block " + b.path.String() + " left out"}, true
		case "extra-label":
			s, ok := sel(func(s site) bool { b, ok := isBlock(s); return ok && b.sch != nil })
			if !ok {
				continue
			}
			b := s.n.(*blockNode)
			extra := []string{`"extra"`, `extra`, `"a b"`, `""`}[rng.Intn(4)]
			i := rng.Intn(len(b.labels) + 1)
			b.labels = append(b.labels[:i:i], append([]string{extra}, b.labels[i:]...)...)
			return &fault{Kind: k, Names: []string{b.typ}, NeedName: true, items: []node{b}, encl: s.owner,
				Desc: "extra label " + extra + " on block " + b.path.String()}, true
		case "dup-attr":
			s, ok := sel(func(s site) bool { a, ok := isAttr(s); return ok && a.sch != nil })
			if !ok {
				continue
			}
			a := s.n.(*attrNode)
			c := *a
			if rng.Intn(2) == 0 && !a.heredocEnd {
				// same name, another (valid) value of the simplest form
				switch a.sch.kind {
				case kString:
					c.expr = `"other"`
				case kInt, kUint:
					c.expr = `7`
				case kBool:
					c.expr = `true`
				case kList:
					c.expr = `[]`
				case kMap:
					c.expr = `{}`
				}
			}
			insertAt(s.body, rng.Intn(len(s.body.items)+1), &c)
			return &fault{Kind: k, Names: []string{a.name}, NeedName: true, items: []node{a, &c}, encl: s.owner,
				Desc: "attribute " + a.path.String() + " set twice"}, true
		}
	}
	return nil, false
}

// finish copies the spans out of the rendered document.
func (f *fault) finish(textLen int) {
	f.Spans = nil
	f.SpanList = nil
	for _, it := range f.items {
		switch n := it.(type) {
		case *attrNode:
			f.Spans = append(f.Spans, n.sp)
		case *blockNode:
			f.Spans = append(f.Spans, n.sp)
		}
	}
	if f.encl != nil {
		f.Encl = f.encl.sp
	} else {
		f.Encl = span{0, textLen}
	}
	for _, s := range f.Spans {
		f.SpanList = append(f.SpanList, [2]int{s.s, s.e})
	}
	f.EnclSpan = [2]int{f.Encl.s, f.Encl.e}
}

func (f *fault) restore() {
	f.Spans = nil
	for _, s := range f.SpanList {
		f.Spans = append(f.Spans, span{s[0], s[1]})
	}
	f.Encl = span{f.EnclSpan[0], f.EnclSpan[1]}
}

type verdictB struct {
	sig  string
	what string
}

// judgeMutant is oracle B: the load must fail, without panic, with a diagnostic that lies
// on the mutated item (or inside the enclosing block when the item is gone) and names it.
func judgeMutant(f *fault, path string, text []byte, res loadResult) *verdictB {
	if res.panicV != nil {
		return nil // reported by the caller with the panic signature
	}
	if res.err == nil {
		return &verdictB{"mutant-accepted:" + f.Kind, "the faulty profile loaded without an error: " + f.Desc}
	}
	anyErr, anyPos, anyOn := false, false, false
	for _, d := range res.diags {
		if !d.Error {
			continue
		}
		anyErr = true
		if !d.inFile(path, text) {
			continue
		}
		anyPos = true
		on := false
		if len(f.Spans) > 0 {
			for _, sp := range f.Spans {
				if d.touches(text, sp) {
					on = true
				}
			}
		} else {
			on = d.touches(text, f.Encl)
		}
		if !on {
			continue
		}
		anyOn = true
		if !f.NeedName || d.mentions(f.Names) {
			return nil
		}
	}
	first := ""
	if len(res.diags) > 0 {
		first = res.diags[0].String()
	}
	switch {
	case !anyErr:
		return &verdictB{"mutant-diagnostic:" + f.Kind + ":no-error-severity", "error returned but no diagnostic of severity error: " + res.errText}
	case !anyPos:
		return &verdictB{"mutant-diagnostic:" + f.Kind + ":no-position", "no diagnostic carries a position inside the file (" + f.Desc + "); first: " + first}
	case !anyOn:
		return &verdictB{"mutant-diagnostic:" + f.Kind + ":position-elsewhere", "no diagnostic points at the faulty item or its enclosing block (" + f.Desc + "); first: " + first}
	default:
		return &verdictB{"mutant-diagnostic:" + f.Kind + ":name-missing", "the diagnostic at the fault does not mention " + strings.Join(f.Names, "/") + " (" + f.Desc + "); first: " + first}
	}
}
