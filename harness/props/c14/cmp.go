package c14

import (
	"fmt"
	"reflect"
	"sort"
	"strconv"
	"strings"

	"golang.org/x/text/unicode/norm"
)

// diff is one place where the loaded configuration differs from the generated one.
type diff struct {
	path vpath
	kind string // string | int | uint | bool | label | list | list-string | map | map-string | map-key | block | block-count | untagged
	exp  string
	obs  string
	expS string // raw strings, for classification
	obsS string
	nfc  bool // map keys: the difference is explained by NFC normalisation of a key
}

func short(s string) string {
	q := strconv.QuoteToASCII(s)
	if len(q) > 300 {
		q = q[:300] + "...(" + strconv.Itoa(len(s)) + " bytes)"
	}
	return q
}

func cmpPrim(e, o reflect.Value, p vpath, kind string, out *[]diff) {
	switch e.Kind() {
	case reflect.String:
		if e.String() != o.String() {
			*out = append(*out, diff{path: p, kind: kind, exp: short(e.String()), obs: short(o.String()), expS: e.String(), obsS: o.String()})
		}
	case reflect.Bool:
		if e.Bool() != o.Bool() {
			*out = append(*out, diff{path: p, kind: kind, exp: fmt.Sprint(e.Bool()), obs: fmt.Sprint(o.Bool())})
		}
	case reflect.Int, reflect.Int8, reflect.Int16, reflect.Int32, reflect.Int64:
		if e.Int() != o.Int() {
			*out = append(*out, diff{path: p, kind: kind, exp: fmt.Sprint(e.Int()), obs: fmt.Sprint(o.Int())})
		}
	case reflect.Uint, reflect.Uint8, reflect.Uint16, reflect.Uint32, reflect.Uint64:
		if e.Uint() != o.Uint() {
			*out = append(*out, diff{path: p, kind: kind, exp: fmt.Sprint(e.Uint()), obs: fmt.Sprint(o.Uint())})
		}
	}
}

// compare: deep equality of two values of the schema's struct type. nil and empty are the
// same for slices and maps only; a nil block pointer and an absent block are compared exactly.
func compare(ss *structSchema, e, o reflect.Value, p vpath, out *[]diff) {
	tagged := map[int]bool{}
	for _, l := range ss.labels {
		tagged[l.idx] = true
		cmpPrim(e.Field(l.idx), o.Field(l.idx), p.with(pelem{field: l.name, idx: -1, label: true}), "label", out)
	}
	for _, a := range ss.attrs {
		tagged[a.idx] = true
		ef, of := e.Field(a.idx), o.Field(a.idx)
		ap := p.with(pf(a.name))
		switch a.kind {
		case kList:
			if ef.Len() != of.Len() {
				*out = append(*out, diff{path: ap, kind: "list", exp: fmt.Sprintf("%d elements", ef.Len()), obs: fmt.Sprintf("%d elements", of.Len())})
				continue
			}
			for i := 0; i < ef.Len(); i++ {
				cmpPrim(ef.Index(i), of.Index(i), ap.elem(i), elemKindName("list", a.elem), out)
			}
		case kMap:
			seen := map[string]bool{}
			var keys []string
			for _, k := range ef.MapKeys() {
				keys = append(keys, k.String())
				seen[k.String()] = true
			}
			sort.Strings(keys)
			for _, k := range keys {
				kv := reflect.ValueOf(k).Convert(a.typ.Key())
				ov := reflect.Value{}
				if !of.IsNil() {
					ov = of.MapIndex(kv)
				}
				if !ov.IsValid() {
					*out = append(*out, diff{path: ap.keyed(k), kind: "map-key", exp: "key " + short(k), obs: "missing", expS: k, nfc: !norm.NFC.IsNormalString(k)})
					continue
				}
				before := len(*out)
				cmpPrim(ef.MapIndex(kv), ov, ap.keyed(k), elemKindName("map", a.elem), out)
				if len(*out) > before {
					// another generated key with the same NFC form has overwritten this entry
					for _, g := range keys {
						if g != k && norm.NFC.String(g) == k {
							(*out)[before].nfc = true
						}
					}
				}
			}
			if !of.IsNil() {
				var extra []string
				for _, k := range of.MapKeys() {
					if !seen[k.String()] {
						extra = append(extra, k.String())
					}
				}
				sort.Strings(extra)
				for _, k := range extra {
					isNFC := false
					for _, g := range keys {
						if g != k && norm.NFC.String(g) == k {
							isNFC = true
						}
					}
					*out = append(*out, diff{path: ap.keyed(k), kind: "map-key", exp: "no such key", obs: "key " + short(k), obsS: k, nfc: isNFC})
				}
			}
		default:
			cmpPrim(ef, of, ap, a.kind.String(), out)
		}
	}
	for _, b := range ss.blocks {
		tagged[b.idx] = true
		ef, of := e.Field(b.idx), o.Field(b.idx)
		switch {
		case b.slice:
			if ef.Len() != of.Len() {
				*out = append(*out, diff{path: p.with(pf(b.name)), kind: "block-count", exp: fmt.Sprintf("%d blocks", ef.Len()), obs: fmt.Sprintf("%d blocks", of.Len())})
				continue
			}
			for i := 0; i < ef.Len(); i++ {
				ee, oe := ef.Index(i), of.Index(i)
				bp := p.with(pi(b.name, i))
				if b.ptr {
					if ee.IsNil() != oe.IsNil() {
						*out = append(*out, diff{path: bp, kind: "block", exp: fmt.Sprint("nil=", ee.IsNil()), obs: fmt.Sprint("nil=", oe.IsNil())})
						continue
					}
					if ee.IsNil() {
						continue
					}
					ee, oe = ee.Elem(), oe.Elem()
				}
				compare(b.body, ee, oe, bp, out)
			}
		case b.ptr:
			bp := p.with(pf(b.name))
			if ef.IsNil() != of.IsNil() {
				pres := func(n bool) string {
					if n {
						return "absent"
					}
					return "present"
				}
				*out = append(*out, diff{path: bp, kind: "block", exp: pres(ef.IsNil()), obs: pres(of.IsNil())})
				continue
			}
			if !ef.IsNil() {
				compare(b.body, ef.Elem(), of.Elem(), bp, out)
			}
		default:
			compare(b.body, ef, of, p.with(pf(b.name)), out)
		}
	}
	for i := 0; i < ss.typ.NumField(); i++ {
		if tagged[i] || !ss.typ.Field(i).IsExported() {
			continue
		}
		if !reflect.DeepEqual(e.Field(i).Interface(), o.Field(i).Interface()) {
			*out = append(*out, diff{path: p.with(pf(ss.typ.Field(i).Name)), kind: "untagged", exp: fmt.Sprintf("%+v", e.Field(i).Interface()), obs: fmt.Sprintf("%+v", o.Field(i).Interface())})
		}
	}
}

// ---- lossless, ASCII-only encoding of a configuration value for witnesses ----
// strings are Go-quoted ("\xff" survives), integers are decimal strings.

func encodeValue(v reflect.Value) any {
	switch v.Kind() {
	case reflect.Ptr:
		if v.IsNil() {
			return nil
		}
		return encodeValue(v.Elem())
	case reflect.Struct:
		m := map[string]any{}
		for i := 0; i < v.NumField(); i++ {
			if v.Type().Field(i).IsExported() {
				m[v.Type().Field(i).Name] = encodeValue(v.Field(i))
			}
		}
		return m
	case reflect.Slice:
		if v.IsNil() {
			return nil
		}
		out := make([]any, v.Len())
		for i := range out {
			out[i] = encodeValue(v.Index(i))
		}
		return out
	case reflect.Map:
		if v.IsNil() {
			return nil
		}
		m := map[string]any{}
		for _, k := range v.MapKeys() {
			m[strconv.QuoteToASCII(k.String())] = encodeValue(v.MapIndex(k))
		}
		return m
	case reflect.String:
		return strconv.QuoteToASCII(v.String())
	case reflect.Bool:
		return v.Bool()
	case reflect.Int, reflect.Int8, reflect.Int16, reflect.Int32, reflect.Int64:
		return strconv.FormatInt(v.Int(), 10)
	case reflect.Uint, reflect.Uint8, reflect.Uint16, reflect.Uint32, reflect.Uint64:
		return strconv.FormatUint(v.Uint(), 10)
	}
	return fmt.Sprintf("?%s", v.Kind())
}

func decodeValue(x any, v reflect.Value) error {
	switch v.Kind() {
	case reflect.Ptr:
		if x == nil {
			v.Set(reflect.Zero(v.Type()))
			return nil
		}
		nv := reflect.New(v.Type().Elem())
		if err := decodeValue(x, nv.Elem()); err != nil {
			return err
		}
		v.Set(nv)
	case reflect.Struct:
		m, ok := x.(map[string]any)
		if !ok {
			return fmt.Errorf("struct %s: not an object", v.Type())
		}
		for i := 0; i < v.NumField(); i++ {
			if !v.Type().Field(i).IsExported() {
				continue
			}
			if fx, ok := m[v.Type().Field(i).Name]; ok {
				if err := decodeValue(fx, v.Field(i)); err != nil {
					return err
				}
			}
		}
	case reflect.Slice:
		if x == nil {
			return nil
		}
		l, ok := x.([]any)
		if !ok {
			return fmt.Errorf("slice: not an array")
		}
		sl := reflect.MakeSlice(v.Type(), len(l), len(l))
		for i := range l {
			if err := decodeValue(l[i], sl.Index(i)); err != nil {
				return err
			}
		}
		v.Set(sl)
	case reflect.Map:
		if x == nil {
			return nil
		}
		m, ok := x.(map[string]any)
		if !ok {
			return fmt.Errorf("map: not an object")
		}
		mv := reflect.MakeMap(v.Type())
		for k, e := range m {
			ks, err := strconv.Unquote(k)
			if err != nil {
				return err
			}
			ev := reflect.New(v.Type().Elem()).Elem()
			if err := decodeValue(e, ev); err != nil {
				return err
			}
			mv.SetMapIndex(reflect.ValueOf(ks).Convert(v.Type().Key()), ev)
		}
		v.Set(mv)
	case reflect.String:
		s, ok := x.(string)
		if !ok {
			return fmt.Errorf("string: not a string")
		}
		u, err := strconv.Unquote(s)
		if err != nil {
			return err
		}
		v.SetString(u)
	case reflect.Bool:
		b, ok := x.(bool)
		if !ok {
			return fmt.Errorf("bool: not a bool")
		}
		v.SetBool(b)
	case reflect.Int, reflect.Int8, reflect.Int16, reflect.Int32, reflect.Int64:
		s, _ := x.(string)
		i, err := strconv.ParseInt(strings.TrimSpace(s), 10, 64)
		if err != nil {
			return err
		}
		v.SetInt(i)
	case reflect.Uint, reflect.Uint8, reflect.Uint16, reflect.Uint32, reflect.Uint64:
		s, _ := x.(string)
		u, err := strconv.ParseUint(strings.TrimSpace(s), 10, 64)
		if err != nil {
			return err
		}
		v.SetUint(u)
	}
	return nil
}
