// Package selftest exercises the driver itself (DESIGN.md §5.3): with VERIF_SELFTEST=violate
// it reports a deliberate violation, with =crash it dies with a fatal error, with =hang it
// blocks; otherwise it passes.
package selftest

import (
	"fmt"
	"os"
	"time"

	"verifh/lib"
)

func init() { lib.Register("SELFTEST", run) }

func run(c *lib.Ctx) {
	c.Rule("integers 0..n; non-trivial = every one")
	n := c.N(100, 1000)
	for i := 0; i < n; i++ {
		c.Cur("int", []byte(fmt.Sprint(i)))
		c.Eval()
		c.Distinct(fmt.Sprint(c.Shard, i))
		c.SampleSome(10, func() any { return i })
		switch os.Getenv("VERIF_SELFTEST") {
		case "violate":
			if i == 7 {
				c.Violation("selftest:seven", "deliberate violation", map[string]any{"i": i})
			}
		case "crash":
			if i == 9 {
				var m map[int]int
				go func() { m[1] = 1 }()
				time.Sleep(time.Second)
			}
		case "hang":
			if i == 5 {
				select {}
			}
		}
	}
}
