package c18

import (
	"math/big"
	"regexp"
	"strings"
)

// Reference evaluator, written from the language rules (HCL native syntax specification:
// operators and their precedence, conditional, constructors, index/attribute/splat,
// for expressions, templates) and the facts of DESIGN.md Appendix C. It uses exact
// rational arithmetic and never calls the code under test.
//
// Three outcomes: a value, "error" (with a class), or out-of-domain (the tree left the
// part of the language whose meaning is unambiguous; the case is discarded and counted).

type refErr struct {
	class  string
	detail string
}

type oodPanic struct{ why string }

func ood(why string) { panic(oodPanic{why}) }

type scope struct {
	name  string
	v     Val
	up    *scope
	noEnv bool // barrier: user-function bodies see only their parameters
}

type refEval struct {
	env       map[string]Val
	faultHit  bool
	lineStrip bool // defect model used only to classify a mismatch (see strip.go)
	tcache    map[*Node][]*TPart
}

func (ev *refEval) lookup(name string, sc *scope) (Val, bool) {
	for s := sc; s != nil; s = s.up {
		if s.noEnv {
			return Val{}, false
		}
		if s.name == name {
			return s.v, true
		}
	}
	v, ok := ev.env[name]
	return v, ok
}

func errf(class, detail string) *refErr { return &refErr{class, detail} }

// ---- numbers ----

const (
	maxNumBits = 260
	maxDenBits = 65
)

func isPow2(d *big.Int) bool {
	return d.Sign() > 0 && uint(d.BitLen()-1) == d.TrailingZeroBits()
}

// numCheck keeps every number inside the domain in which 512-bit binary floating point
// is exact: dyadic rationals of bounded size.
func numCheck(r *big.Rat) *big.Rat {
	if !isPow2(r.Denom()) {
		ood("number that is not a dyadic rational (not exactly representable in binary)")
	}
	if r.Num().BitLen() > maxNumBits || r.Denom().BitLen() > maxDenBits {
		ood("number beyond the size bound of the exact domain")
	}
	return r
}

var reStrictNum = regexp.MustCompile(`^[0-9]+(\.[0-9]+)?([eE][+-]?[0-9]{1,2})?$`)

func strToNum(s string) (*big.Rat, *refErr) {
	if reStrictNum.MatchString(s) {
		r, ok := new(big.Rat).SetString(s)
		if !ok {
			ood("numeric string not parsable")
		}
		return numCheck(r), nil
	}
	ls := strings.ToLower(s)
	if strings.ContainsAny(s, "0123456789") || strings.Contains(ls, "inf") || strings.Contains(ls, "nan") {
		ood("string that looks numeric but is not in the literal grammar (sign, spaces, hex, inf)")
	}
	return nil, errf("operand-kind", "non-numeric string where a number is required")
}

func toNum(v Val) (*big.Rat, *refErr) {
	switch v.K {
	case KNum:
		return v.N, nil
	case KStr:
		return strToNum(v.S)
	case KNull:
		return nil, errf("null-operand", "null where a number is required")
	}
	return nil, errf("operand-kind", v.K.String()+" where a number is required")
}

func toBool(v Val) (bool, *refErr) {
	switch v.K {
	case KBool:
		return v.B, nil
	case KStr:
		switch v.S {
		case "true":
			return true, nil
		case "false":
			return false, nil
		case "1", "0":
			ood(`string "1"/"0" in bool position (library conversion, not language)`)
		}
		if l := strings.ToLower(v.S); l == "true" || l == "false" {
			ood("bool string with capitals")
		}
		return false, errf("operand-kind", "string that is not true/false where a bool is required")
	case KNull:
		return false, errf("null-operand", "null where a bool is required")
	}
	return false, errf("operand-kind", v.K.String()+" where a bool is required")
}

func numToStr(r *big.Rat) string {
	numCheck(r)
	if r.IsInt() {
		s := r.Num().String()
		if len(s) > 80 {
			ood("number->string conversion of a very large number")
		}
		return s
	}
	m := r.Denom().BitLen() - 1 // denominator 2^m: exactly m fractional digits
	if m > 30 {
		ood("number->string conversion with a long fraction")
	}
	s := r.FloatString(m)
	if len(s) > 80 {
		ood("number->string conversion of a very large number")
	}
	return s
}

// toStr: conversion of a primitive to string (template parts, object keys, string params).
// lineStripMode is set only while the defect model runs (classification of a mismatch):
// there a possibly-negative zero prints as "0".
var lineStripMode bool

func toStr(v Val) (string, *refErr) {
	switch v.K {
	case KStr:
		return v.S, nil
	case KNum:
		if v.NZ && !lineStripMode {
			ood("number->string conversion of a zero that may be negative zero in the float library")
		}
		return numToStr(v.N), nil
	case KBool:
		if v.B {
			return "true", nil
		}
		return "false", nil
	case KNull:
		return "", errf("null-operand", "null where a string is required")
	}
	return "", errf("operand-kind", v.K.String()+" where a string is required")
}

func truncQuo(a, b *big.Rat) *big.Int {
	q := new(big.Rat).Quo(a, b)
	return new(big.Int).Quo(q.Num(), q.Denom()) // big.Int.Quo truncates toward zero
}

// ---- equality ----

func hasNull(v Val) bool {
	if v.K == KNull {
		return true
	}
	for _, e := range v.L {
		if hasNull(e) {
			return true
		}
	}
	for _, e := range v.M {
		if hasNull(e) {
			return true
		}
	}
	return false
}

func strictEqual(a, b Val) bool {
	if a.K != b.K {
		return false
	}
	switch a.K {
	case KNull:
		return true
	case KBool:
		return a.B == b.B
	case KNum:
		return a.N.Cmp(b.N) == 0
	case KStr:
		return a.S == b.S
	case KList, KTuple:
		if len(a.L) != len(b.L) {
			return false
		}
		for i := range a.L {
			if !strictEqual(a.L[i], b.L[i]) {
				return false
			}
		}
		return true
	default:
		if len(a.M) != len(b.M) {
			return false
		}
		for k, x := range a.M {
			y, ok := b.M[k]
			if !ok || !strictEqual(x, y) {
				return false
			}
		}
		return true
	}
}

func langEqual(a, b Val) bool {
	ap, bp := a.isPrim() || a.K == KNull, b.isPrim() || b.K == KNull
	if ap && bp {
		return strictEqual(a, b)
	}
	// a collection is involved
	for _, v := range []Val{a, b} {
		if !(v.isPrim() || v.K == KNull) {
			if !v.Pure {
				ood("== on a collection that is not written as a constructor of primitives (typing of lists/maps vs tuples/objects)")
			}
			if hasNull(v) {
				ood("== on a collection containing null")
			}
		}
	}
	return strictEqual(a, b)
}

func typeSig(v Val) string {
	switch v.K {
	case KList, KTuple:
		var sb strings.Builder
		sb.WriteString(v.K.String() + "(")
		if v.K == KList {
			if len(v.L) == 0 {
				sb.WriteString("?")
			} else {
				sb.WriteString(typeSig(v.L[0]))
			}
		} else {
			for _, e := range v.L {
				sb.WriteString(typeSig(e) + ",")
			}
		}
		sb.WriteString(")")
		return sb.String()
	case KMap, KObj:
		var sb strings.Builder
		sb.WriteString(v.K.String() + "(")
		ks := sortedKeys(v.M)
		if v.K == KMap {
			if len(ks) == 0 {
				sb.WriteString("?")
			} else {
				sb.WriteString(typeSig(v.M[ks[0]]))
			}
		} else {
			for _, k := range ks {
				sb.WriteString(k + ":" + typeSig(v.M[k]) + ",")
			}
		}
		sb.WriteString(")")
		return sb.String()
	}
	return v.K.String()
}

// ---- index / attribute ----

func indexVal(coll, key Val) (Val, *refErr) {
	if coll.K == KNull {
		return Val{}, errf("not-indexable", "index on null")
	}
	if coll.isPrim() {
		return Val{}, errf("not-indexable", "index on a primitive")
	}
	if key.K == KNull {
		return Val{}, errf("index-key", "null index key")
	}
	if coll.isSeq() {
		var r *big.Rat
		switch key.K {
		case KNum:
			r = key.N
		case KStr:
			var e *refErr
			r, e = strToNum(key.S)
			if e != nil {
				return Val{}, errf("index-key", "non-numeric string as sequence index")
			}
		default:
			return Val{}, errf("index-key", key.K.String()+" as sequence index")
		}
		if !r.IsInt() {
			return Val{}, errf("index-range", "fractional index")
		}
		if r.Sign() < 0 {
			return Val{}, errf("index-range", "negative index")
		}
		if !r.Num().IsInt64() || r.Num().Int64() >= int64(len(coll.L)) {
			return Val{}, errf("index-range", "index >= length")
		}
		return coll.L[r.Num().Int64()], nil
	}
	// mapping
	switch key.K {
	case KStr:
		v, ok := coll.M[key.S]
		if !ok {
			return Val{}, errf("missing-key", "no such key")
		}
		return v, nil
	case KNum:
		if coll.K == KObj {
			return Val{}, errf("index-key", "number index on an object")
		}
		s := numToStr(key.N)
		v, ok := coll.M[s]
		if !ok {
			return Val{}, errf("missing-key", "no such key")
		}
		return v, nil
	case KBool:
		ood("bool as mapping key")
	}
	return Val{}, errf("index-key", key.K.String()+" as mapping key")
}

func attrVal(x Val, name string) (Val, *refErr) {
	switch {
	case x.K == KNull:
		return Val{}, errf("not-indexable", "attribute of null")
	case x.isPrim():
		return Val{}, errf("not-indexable", "attribute of a primitive")
	case x.isSeq():
		return Val{}, errf("not-indexable", "attribute of a sequence")
	}
	v, ok := x.M[name]
	if !ok {
		return Val{}, errf("missing-attr", "no attribute/key "+name)
	}
	return v, nil
}

// ---- iteration (for expressions and %{for}) ----

type pair struct{ k, v Val }

func iterate(coll Val) ([]pair, *refErr) {
	switch {
	case coll.K == KNull:
		return nil, errf("not-iterable", "iteration over null")
	case coll.isPrim():
		return nil, errf("not-iterable", "iteration over a primitive")
	case coll.isSeq():
		out := make([]pair, len(coll.L))
		for i, e := range coll.L {
			out[i] = pair{vInt(int64(i)), e}
		}
		return out, nil
	}
	ks := sortedKeys(coll.M)
	out := make([]pair, len(ks))
	for i, k := range ks {
		out[i] = pair{vStr(k), coll.M[k]}
	}
	return out, nil
}

func bind(sc *scope, keyVar, valVar string, p pair) *scope {
	if keyVar != "" {
		sc = &scope{name: keyVar, v: p.k, up: sc}
	}
	return &scope{name: valVar, v: p.v, up: sc}
}

// ---- the evaluator ----

func (ev *refEval) eval(n *Node, sc *scope) (Val, *refErr) {
	if n.Fault != "" {
		ev.faultHit = true
	}
	switch n.K {
	case NNum:
		return vNum(numCheck(n.Num)), nil
	case NStr:
		return vStr(n.S), nil
	case NBool:
		return vBool(n.B), nil
	case NNull:
		return vNull("dyn"), nil
	case NVar:
		v, ok := ev.lookup(n.S, sc)
		if !ok {
			return Val{}, errf("unknown-var", n.S)
		}
		return v, nil
	case NUnary:
		x, e := ev.eval(n.A[0], sc)
		if e != nil {
			return Val{}, e
		}
		if n.Op == "-" {
			r, e := toNum(x)
			if e != nil {
				return Val{}, e
			}
			out := vNum(numCheck(new(big.Rat).Neg(r)))
			out.NZ = out.N.Sign() == 0
			return out, nil
		}
		b, e := toBool(x)
		if e != nil {
			return Val{}, e
		}
		return vBool(!b), nil
	case NBinary:
		return ev.binary(n, sc)
	case NCond:
		c, e := ev.eval(n.A[0], sc)
		if e != nil {
			return Val{}, e
		}
		if c.K == KNull {
			return Val{}, errf("null-cond", "null condition")
		}
		cb, e := toBool(c)
		if e != nil {
			return Val{}, errf("cond-kind", "condition is not a bool")
		}
		tv, te := ev.eval(n.A[1], sc)
		fv, fe := ev.eval(n.A[2], sc)
		chosen, ce, oe := tv, te, fe
		if !cb {
			chosen, ce, oe = fv, fe, te
		}
		if ce != nil {
			return Val{}, ce
		}
		if oe != nil {
			ood("error in the conditional arm that is not selected")
		}
		if tv.K != KNull && fv.K != KNull && typeSig(tv) != typeSig(fv) {
			ood("conditional arms of different types (result type unification)")
		}
		return chosen, nil
	case NTuple:
		out := Val{K: KTuple, L: make([]Val, 0, len(n.A)), Pure: true}
		for _, a := range n.A {
			v, e := ev.eval(a, sc)
			if e != nil {
				return Val{}, e
			}
			if !(v.isPrim() || v.Pure) {
				out.Pure = false
			}
			out.L = append(out.L, v)
		}
		return out, nil
	case NObject:
		out := Val{K: KObj, M: map[string]Val{}, Pure: true}
		for _, it := range n.Items {
			var key string
			if it.Style == KeyIdent {
				key = it.Name
			} else {
				kv, e := ev.eval(it.Key, sc)
				if e != nil {
					return Val{}, e
				}
				if kv.K == KNull {
					return Val{}, errf("key-kind", "null object key")
				}
				var e2 *refErr
				key, e2 = toStr(kv)
				if e2 != nil {
					return Val{}, errf("key-kind", "object key is not a primitive")
				}
			}
			v, e := ev.eval(it.Val, sc)
			if e != nil {
				return Val{}, e
			}
			if _, dup := out.M[key]; dup {
				ood("duplicate key in an object constructor")
			}
			if !(v.isPrim() || v.Pure) {
				out.Pure = false
			}
			out.M[key] = v
		}
		return out, nil
	case NIndex:
		x, e := ev.eval(n.A[0], sc)
		if e != nil {
			return Val{}, e
		}
		k, e := ev.eval(n.A[1], sc)
		if e != nil {
			return Val{}, e
		}
		return indexVal(x, k)
	case NLegacy:
		x, e := ev.eval(n.A[0], sc)
		if e != nil {
			return Val{}, e
		}
		return indexVal(x, vInt(int64(n.Idx)))
	case NAttr:
		x, e := ev.eval(n.A[0], sc)
		if e != nil {
			return Val{}, e
		}
		return attrVal(x, n.S)
	case NSplat:
		src, e := ev.eval(n.A[0], sc)
		if e != nil {
			return Val{}, e
		}
		var elems []Val
		switch {
		case src.K == KNull:
			elems = nil
		case src.isSeq():
			elems = src.L
		default:
			elems = []Val{src}
		}
		out := Val{K: KTuple, L: make([]Val, 0, len(elems))}
		for _, el := range elems {
			cur := el
			for _, st := range n.Steps {
				var e *refErr
				if st.Key == nil {
					cur, e = attrVal(cur, st.Attr)
				} else {
					var k Val
					k, e = ev.eval(st.Key, sc)
					if e == nil {
						cur, e = indexVal(cur, k)
					}
				}
				if e != nil {
					return Val{}, e
				}
			}
			out.L = append(out.L, cur)
		}
		return out, nil
	case NFor:
		return ev.forExpr(n, sc)
	case NCall:
		return ev.call(n, sc)
	case NTemplate:
		return ev.template(n, sc)
	}
	panic("ref: unknown node kind")
}

func (ev *refEval) binary(n *Node, sc *scope) (Val, *refErr) {
	// operators are functions of both operand values: both are evaluated, left first
	a, e := ev.eval(n.A[0], sc)
	if e != nil {
		return Val{}, e
	}
	b, e := ev.eval(n.A[1], sc)
	if e != nil {
		return Val{}, e
	}
	switch n.Op {
	case "==":
		return vBool(langEqual(a, b)), nil
	case "!=":
		return vBool(!langEqual(a, b)), nil
	case "&&", "||":
		x, e := toBool(a)
		if e != nil {
			return Val{}, e
		}
		y, e := toBool(b)
		if e != nil {
			return Val{}, e
		}
		if n.Op == "&&" {
			return vBool(x && y), nil
		}
		return vBool(x || y), nil
	}
	x, e := toNum(a)
	if e != nil {
		return Val{}, e
	}
	y, e := toNum(b)
	if e != nil {
		return Val{}, e
	}
	// a zero result of an operation with a negative or tainted operand may be "-0"
	nz := func(r *big.Rat) Val {
		out := vNum(numCheck(r))
		out.NZ = r.Sign() == 0 && (x.Sign() < 0 || y.Sign() < 0 || a.NZ || b.NZ)
		return out
	}
	switch n.Op {
	case "+":
		return nz(new(big.Rat).Add(x, y)), nil
	case "-":
		return nz(new(big.Rat).Sub(x, y)), nil
	case "*":
		return nz(new(big.Rat).Mul(x, y)), nil
	case "/":
		if y.Sign() == 0 {
			ood("division by zero")
		}
		return nz(new(big.Rat).Quo(x, y)), nil
	case "%":
		if y.Sign() == 0 {
			ood("modulo by zero")
		}
		if x.Num().BitLen() > 128 || y.Num().BitLen() > 128 || x.Denom().BitLen() > 33 || y.Denom().BitLen() > 33 {
			ood("modulo on very large/small operands")
		}
		q := new(big.Rat).SetInt(truncQuo(x, y))
		return nz(new(big.Rat).Sub(x, q.Mul(q, y))), nil // x - y*trunc(x/y)
	case "<":
		return vBool(x.Cmp(y) < 0), nil
	case "<=":
		return vBool(x.Cmp(y) <= 0), nil
	case ">":
		return vBool(x.Cmp(y) > 0), nil
	case ">=":
		return vBool(x.Cmp(y) >= 0), nil
	}
	panic("ref: unknown operator " + n.Op)
}

func (ev *refEval) forCond(c *Node, sc *scope) (bool, *refErr) {
	if c == nil {
		return true, nil
	}
	v, e := ev.eval(c, sc)
	if e != nil {
		return false, e
	}
	if v.K == KNull {
		return false, errf("null-cond", "null 'if' clause")
	}
	b, e := toBool(v)
	if e != nil {
		return false, errf("cond-kind", "'if' clause is not a bool")
	}
	return b, nil
}

func (ev *refEval) forExpr(n *Node, sc *scope) (Val, *refErr) {
	coll, e := ev.eval(n.Coll, sc)
	if e != nil {
		return Val{}, e
	}
	pairs, e := iterate(coll)
	if e != nil {
		return Val{}, e
	}
	if len(pairs) == 0 && n.CondE != nil {
		ood("for expression with an 'if' clause over an empty source (static check of the clause is not defined)")
	}
	if !n.ObjForm {
		out := Val{K: KTuple, L: []Val{}}
		for _, p := range pairs {
			s2 := bind(sc, n.KeyVar, n.ValVar, p)
			ok, e := ev.forCond(n.CondE, s2)
			if e != nil {
				return Val{}, e
			}
			if !ok {
				continue
			}
			v, e := ev.eval(n.ValE, s2)
			if e != nil {
				return Val{}, e
			}
			out.L = append(out.L, v)
		}
		return out, nil
	}
	out := Val{K: KObj, M: map[string]Val{}}
	groups := map[string][]Val{}
	for _, p := range pairs {
		s2 := bind(sc, n.KeyVar, n.ValVar, p)
		ok, e := ev.forCond(n.CondE, s2)
		if e != nil {
			return Val{}, e
		}
		if !ok {
			continue
		}
		kv, e := ev.eval(n.KeyE, s2)
		if e != nil {
			return Val{}, e
		}
		if kv.K == KNull {
			return Val{}, errf("key-kind", "null key in for expression")
		}
		key, e2 := toStr(kv)
		if e2 != nil {
			return Val{}, errf("key-kind", "for key is not a primitive")
		}
		v, e := ev.eval(n.ValE, s2)
		if e != nil {
			return Val{}, e
		}
		if n.Group {
			groups[key] = append(groups[key], v) // source order within each key
		} else {
			if _, dup := out.M[key]; dup {
				return Val{}, errf("dup-key", "duplicate key without grouping")
			}
			out.M[key] = v
		}
	}
	if n.Group {
		for k, l := range groups {
			out.M[k] = vTuple(l)
		}
	}
	return out, nil
}

// ---- functions ----

type userFunc struct {
	params   []string
	variadic string
	body     *Node
}

func asciiUpperRef(s string) string {
	b := []byte(s)
	for i, c := range b {
		if 'a' <= c && c <= 'z' {
			b[i] = c - 32
		}
	}
	return string(b)
}

func (ev *refEval) call(n *Node, sc *scope) (Val, *refErr) {
	switch n.S {
	case "try":
		if n.Expand {
			ood("try with argument expansion")
		}
		if len(n.A) == 0 {
			return Val{}, errf("arg-count", "try without arguments")
		}
		for _, a := range n.A {
			v, e := ev.eval(a, sc)
			if e == nil {
				return v, nil
			}
		}
		return Val{}, errf("try-exhausted", "no argument of try succeeded")
	case "can":
		if n.Expand {
			ood("can with argument expansion")
		}
		if len(n.A) != 1 {
			return Val{}, errf("arg-count", "can takes one argument")
		}
		_, e := ev.eval(n.A[0], sc)
		return vBool(e == nil), nil
	}
	uf, isUser := userFuncsRef[n.S]
	if !isUser && n.S != "upper" && n.S != "size" && n.S != "add" {
		// argument errors and the unknown function are both errors; which is reported first does not matter
		return Val{}, errf("unknown-func", n.S)
	}
	var args []Val
	for i, a := range n.A {
		v, e := ev.eval(a, sc)
		if e != nil {
			return Val{}, e
		}
		if n.Expand && i == len(n.A)-1 {
			if v.K == KNull {
				return Val{}, errf("expand-kind", "null expanded as arguments")
			}
			if !v.isSeq() {
				return Val{}, errf("expand-kind", "expansion of a non-sequence")
			}
			args = append(args, v.L...)
			continue
		}
		args = append(args, v)
	}
	if isUser {
		if len(args) < len(uf.params) || (uf.variadic == "" && len(args) > len(uf.params)) {
			return Val{}, errf("arg-count", n.S)
		}
		for _, a := range args {
			if a.K == KNull {
				return Val{}, errf("arg-null", "null argument")
			}
		}
		s2 := &scope{noEnv: true}
		for i, p := range uf.params {
			s2 = &scope{name: p, v: args[i], up: s2}
		}
		if uf.variadic != "" {
			s2 = &scope{name: uf.variadic, v: vTuple(append([]Val{}, args[len(uf.params):]...)), up: s2}
		}
		v, e := ev.eval(uf.body, s2)
		if e != nil {
			return Val{}, errf("userfunc-body:"+e.class, e.detail)
		}
		return v, nil
	}
	switch n.S {
	case "upper":
		if len(args) != 1 {
			return Val{}, errf("arg-count", "upper")
		}
		if args[0].K == KNull {
			return Val{}, errf("arg-null", "null argument")
		}
		s, e := toStr(args[0])
		if e != nil {
			return Val{}, errf("arg-kind", "upper needs a string")
		}
		return vStr(asciiUpperRef(s)), nil
	case "size":
		if len(args) != 1 {
			return Val{}, errf("arg-count", "size")
		}
		a := args[0]
		switch {
		case a.K == KNull:
			return Val{}, errf("arg-null", "null argument")
		case a.K == KStr:
			return vInt(int64(len(a.S))), nil
		case a.isSeq():
			return vInt(int64(len(a.L))), nil
		case a.isMapping():
			return vInt(int64(len(a.M))), nil
		}
		return Val{}, errf("arg-kind", "size of a number/bool")
	default: // add
		if len(args) < 1 {
			return Val{}, errf("arg-count", "add")
		}
		sum := new(big.Rat)
		neg := false
		for _, a := range args {
			if a.K == KNull {
				return Val{}, errf("arg-null", "null argument")
			}
			r, e := toNum(a)
			if e != nil {
				return Val{}, errf("arg-kind", "add needs numbers")
			}
			if r.Sign() < 0 || a.NZ {
				neg = true
			}
			sum.Add(sum, r)
			numCheck(sum)
		}
		out := vNum(sum)
		out.NZ = neg && sum.Sign() == 0
		return out, nil
	}
}

// runRef evaluates a tree in an environment; recovers the out-of-domain signal.
func runRef(root *Node, env map[string]Val, lineStrip bool) (val Val, err *refErr, oodWhy string, faultHit bool) {
	ev := &refEval{env: env, lineStrip: lineStrip, tcache: map[*Node][]*TPart{}}
	lineStripMode = lineStrip
	defer func() {
		lineStripMode = false
		if r := recover(); r != nil {
			if o, ok := r.(oodPanic); ok {
				oodWhy = o.why
				return
			}
			panic(r)
		}
	}()
	val, err = ev.eval(root, nil)
	faultHit = ev.faultHit
	return
}
