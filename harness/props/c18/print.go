package c18

import (
	"math/rand"
	"strings"
)

// Two printers over the same tree:
//   minimal: parentheses only where this file's own precedence table requires them,
//            single spaces around binary operators;
//   noisy:   redundant parentheses, random spacing (including none), comments, and
//            newlines wherever the language treats them as plain whitespace
//            (inside ( ), [ ], call arguments, for expressions, ${ } and %{ }).

func prec(n *Node) int {
	switch n.K {
	case NCond:
		return 0
	case NBinary:
		switch n.Op {
		case "||":
			return 1
		case "&&":
			return 2
		case "==", "!=":
			return 3
		case "<", "<=", ">", ">=":
			return 4
		case "+", "-":
			return 5
		default: // * / %
			return 6
		}
	case NUnary:
		return 7
	}
	return 9
}

type printer struct {
	noisy bool
	rng   *rand.Rand
	noNL  int // >0: never emit a newline as whitespace (inside a <<- heredoc body)
}

func printTree(n *Node, noisy bool, seed int64) string {
	p := &printer{noisy: noisy}
	if noisy {
		p.rng = rand.New(rand.NewSource(seed))
	}
	if n.K == NTemplate && n.Form == TBare {
		return p.rawParts(n.Parts, "")
	}
	return p.expr(n, true)
}

func (p *printer) chance(pct int) bool { return p.noisy && p.rng.Intn(100) < pct }

var comments = []string{"/* c */", "/* a + b */", "/**/", "/* ) ] } */"}
var lineComments = []string{"# note", "// note", "# ) ]", "//"}

// sp: optional whitespace (possibly empty). nl: newlines count as whitespace here.
func (p *printer) sp(nl bool) string {
	if !p.noisy {
		return ""
	}
	return p.noise(nl, true)
}

// gap: mandatory whitespace (at least one blank).
func (p *printer) gap(nl bool) string {
	if !p.noisy {
		return " "
	}
	return p.noise(nl, false)
}

func (p *printer) noise(nl, emptyOK bool) string {
	nl = nl && p.noNL == 0
	r := p.rng.Intn(100)
	switch {
	case r < 40:
		if emptyOK {
			return ""
		}
		return " "
	case r < 70:
		return " "
	case r < 78:
		return "  "
	case r < 82:
		return "\t"
	case r < 88:
		return " " + comments[p.rng.Intn(len(comments))] + " "
	case r < 94:
		if nl {
			return "\n"
		}
		return " "
	case r < 97:
		if nl {
			return " \n  "
		}
		return "  "
	default:
		if nl {
			return " " + lineComments[p.rng.Intn(len(lineComments))] + "\n"
		}
		return " "
	}
}

// sub prints a child that must bind at least as tightly as min.
func (p *printer) sub(n *Node, min int, nl bool) string {
	need := prec(n) < min
	if n.K == NTemplate && (n.Form == THeredoc || n.Form == THeredocFlush) && (!nl || p.noNL > 0) {
		need = true // a heredoc ends with a newline: only where newlines are whitespace
	}
	if need {
		return "(" + p.sp(true) + p.expr(n, true) + p.sp(true) + ")"
	}
	return p.expr(n, nl)
}

// postfixTarget prints the target of an index / attribute / splat operator.
func (p *printer) postfixTarget(t *Node, parent *Node, nl bool) string {
	need := prec(t) < 9
	switch t.K {
	case NNum:
		need = true // "1.a" would be read as a number followed by garbage
	case NTemplate:
		if t.Form != TQuoted {
			need = true
		}
	case NSplat:
		// a following operator would otherwise become part of the splat's per-element
		// traversal; the one exception is an index after an attribute-only splat, which
		// the language applies to the whole result.
		need = !(parent.K == NIndex && !t.Full)
	case NLegacy:
		if parent.K == NLegacy {
			need = true // chaining two legacy indexes is not permitted
		}
	}
	if need {
		return "(" + p.sp(true) + p.expr(t, true) + p.sp(true) + ")"
	}
	return p.expr(t, nl)
}

func (p *printer) expr(n *Node, nl bool) string {
	if p.chance(12) {
		return "(" + p.sp(true) + p.expr(n, true) + p.sp(true) + ")"
	}
	switch n.K {
	case NNum:
		return n.Text
	case NStr:
		return `"` + quoteLit(n.S) + `"`
	case NBool:
		if n.B {
			return "true"
		}
		return "false"
	case NNull:
		return "null"
	case NVar:
		return n.S
	case NUnary:
		s := n.Op
		if p.chance(30) {
			s += " "
		}
		return s + p.sub(n.A[0], 8, nl)
	case NBinary:
		pr := prec(n)
		l := p.sub(n.A[0], pr, nl)
		r := p.sub(n.A[1], pr+1, nl)
		switch {
		case n.Op == "/" || n.Op == "%" || !p.noisy:
			// "/" next to a comment or another "/" would start a comment
			return l + p.gap(nl) + n.Op + p.gap(nl) + r
		case n.Op == "-":
			// identifiers may contain "-": "a-1" is one identifier, so the blank before a
			// binary minus is significant
			return l + p.gap(nl) + n.Op + p.sp(nl) + r
		}
		return l + p.sp(nl) + n.Op + p.sp(nl) + r
	case NCond:
		return p.sub(n.A[0], 1, nl) + p.gapOrSp(nl) + "?" + p.gapOrSp(nl) + p.sub(n.A[1], 1, nl) + p.gapOrSp(nl) + ":" + p.gapOrSp(nl) + p.sub(n.A[2], 0, nl)
	case NTuple:
		var sb strings.Builder
		sb.WriteString("[" + p.sp(true))
		for i, a := range n.A {
			if i > 0 {
				sb.WriteString(p.sp(true) + "," + p.gapOrSp(true))
			}
			sb.WriteString(p.sub(a, 0, true))
		}
		if len(n.A) > 0 && p.chance(15) {
			sb.WriteString(p.sp(true) + ",")
		}
		sb.WriteString(p.sp(true) + "]")
		return sb.String()
	case NObject:
		return p.object(n)
	case NIndex:
		return p.postfixTarget(n.A[0], n, nl) + "[" + p.sp(true) + p.sub(n.A[1], 0, true) + p.sp(true) + "]"
	case NLegacy:
		return p.postfixTarget(n.A[0], n, nl) + "." + itoa(n.Idx)
	case NAttr:
		return p.postfixTarget(n.A[0], n, nl) + "." + n.S
	case NSplat:
		var sb strings.Builder
		sb.WriteString(p.postfixTarget(n.A[0], n, nl))
		if n.Full {
			sb.WriteString("[*]")
		} else {
			sb.WriteString(".*")
		}
		for _, st := range n.Steps {
			if st.Key == nil {
				sb.WriteString("." + st.Attr)
			} else {
				sb.WriteString("[" + p.sp(true) + p.sub(st.Key, 0, true) + p.sp(true) + "]")
			}
		}
		return sb.String()
	case NCall:
		var sb strings.Builder
		sb.WriteString(n.S + "(" + p.sp(true))
		for i, a := range n.A {
			if i > 0 {
				sb.WriteString(p.sp(true) + "," + p.gapOrSp(true))
			}
			sb.WriteString(p.sub(a, 0, true))
		}
		if n.Expand {
			sb.WriteString(p.sp(true) + "...")
		}
		sb.WriteString(p.sp(true) + ")")
		return sb.String()
	case NFor:
		return p.forExpr(n)
	case NTemplate:
		return p.template(n)
	}
	panic("print: unknown node")
}

// gapOrSp: a single blank in the minimal spelling, arbitrary (possibly empty) noise otherwise.
func (p *printer) gapOrSp(nl bool) string {
	if !p.noisy {
		return " "
	}
	return p.sp(nl)
}

func itoa(i int) string {
	if i == 0 {
		return "0"
	}
	s := ""
	for i > 0 {
		s = string(rune('0'+i%10)) + s
		i /= 10
	}
	return s
}

func (p *printer) object(n *Node) string {
	var sb strings.Builder
	sb.WriteString("{" + p.sp(false))
	for i, it := range n.Items {
		if i > 0 {
			if p.chance(30) && p.noNL == 0 {
				sb.WriteString(p.sp(false) + "\n" + p.sp(false)) // newline is an item separator
			} else {
				sb.WriteString(p.sp(false) + "," + p.gapOrSp(false))
			}
		}
		switch it.Style {
		case KeyIdent:
			sb.WriteString(it.Name)
		case KeyQuoted:
			switch {
			case it.Key.K == NStr:
				sb.WriteString(`"` + quoteLit(it.Key.S) + `"`)
			case it.Key.K == NTemplate && it.Key.Form == TQuoted:
				sb.WriteString(p.template(it.Key))
			default: // (after shrinking / fault injection) any other key expression
				sb.WriteString("(" + p.expr(it.Key, true) + ")")
			}
		default:
			sb.WriteString("(" + p.sp(true) + p.expr(it.Key, true) + p.sp(true) + ")")
		}
		eq := "="
		if it.Colon {
			eq = ":"
		}
		sb.WriteString(p.gapOrSp(false) + eq + p.gapOrSp(false))
		// directly inside the braces a newline ends the item: no newline noise here
		sb.WriteString(p.sub(it.Val, 0, false))
	}
	if len(n.Items) > 0 && p.chance(15) {
		sb.WriteString(p.sp(false) + ",")
	}
	sb.WriteString(p.sp(false) + "}")
	return sb.String()
}

func (p *printer) forExpr(n *Node) string {
	var sb strings.Builder
	open, close := "[", "]"
	if n.ObjForm {
		open, close = "{", "}"
	}
	sb.WriteString(open + p.sp(true) + "for" + p.gap(true))
	if n.KeyVar != "" {
		sb.WriteString(n.KeyVar + p.sp(true) + "," + p.gapOrSp(true))
	}
	sb.WriteString(n.ValVar + p.gap(true) + "in" + p.gap(true))
	sb.WriteString(p.sub(n.Coll, 1, true))
	sb.WriteString(p.gapOrSp(true) + ":" + p.gapOrSp(true))
	if n.ObjForm {
		sb.WriteString(p.sub(n.KeyE, 0, true) + p.gapOrSp(true) + "=>" + p.gapOrSp(true))
	}
	sb.WriteString(p.sub(n.ValE, 0, true))
	if n.Group {
		sb.WriteString(p.sp(true) + "...")
	}
	if n.CondE != nil {
		sb.WriteString(p.gap(true) + "if" + p.gap(true) + p.sub(n.CondE, 0, true))
	}
	sb.WriteString(p.sp(true) + close)
	return sb.String()
}

// ---- templates ----

// quoteLit: literal text inside a quoted template.
func quoteLit(s string) string {
	var sb strings.Builder
	for i := 0; i < len(s); i++ {
		c := s[i]
		switch c {
		case '\\':
			sb.WriteString(`\\`)
		case '"':
			sb.WriteString(`\"`)
		case '\n':
			sb.WriteString(`\n`)
		case '\t':
			sb.WriteString(`\t`)
		case '\r':
			sb.WriteString(`\r`)
		case '$', '%':
			if i+1 < len(s) && s[i+1] == '{' {
				sb.WriteByte(c) // doubled: literal "${" / "%{"
			}
			sb.WriteByte(c)
		default:
			sb.WriteByte(c)
		}
	}
	return sb.String()
}

// rawLit: literal text inside a heredoc or a bare template (no backslash escapes).
func rawLit(s string) string {
	var sb strings.Builder
	for i := 0; i < len(s); i++ {
		c := s[i]
		if (c == '$' || c == '%') && i+1 < len(s) && s[i+1] == '{' {
			sb.WriteByte(c)
		}
		sb.WriteByte(c)
	}
	return sb.String()
}

func (p *printer) template(n *Node) string {
	switch n.Form {
	case TQuoted:
		return `"` + p.tparts(n.Parts, true) + `"`
	case TBare:
		return p.rawParts(n.Parts, "")
	}
	op := "<<"
	if n.Form == THeredocFlush {
		op = "<<-"
		p.noNL++
		defer func() { p.noNL-- }()
	}
	return op + n.Marker + "\n" + p.tparts(n.Parts, false) + strings.Repeat(" ", n.EndInd) + n.Marker + "\n"
}

func (p *printer) rawParts(ps []*TPart, _ string) string { return p.tparts(ps, false) }

func tilde(b bool) string {
	if b {
		return "~"
	}
	return ""
}

func (p *printer) tag(open string, strip [2]bool, body string) string {
	return open + tilde(strip[0]) + p.sp(true) + body + p.sp(true) + tilde(strip[1]) + "}"
}

func (p *printer) tparts(ps []*TPart, quoted bool) string {
	var sb strings.Builder
	for _, t := range ps {
		switch t.K {
		case TLit:
			if quoted {
				sb.WriteString(quoteLit(t.S))
			} else {
				sb.WriteString(rawLit(t.S))
			}
		case TInterp:
			sb.WriteString(p.tag("${", t.Open, p.sub(t.E, 0, true)))
		case TIf:
			sb.WriteString(p.tag("%{", t.Open, "if"+p.gap(true)+p.sub(t.E, 0, true)))
			sb.WriteString(p.tparts(t.Then, quoted))
			if t.HasElse {
				sb.WriteString(p.tag("%{", t.Mid, "else"))
				sb.WriteString(p.tparts(t.Else, quoted))
			}
			sb.WriteString(p.tag("%{", t.Close, "endif"))
		case TFor:
			h := "for" + p.gap(true)
			if t.KeyVar != "" {
				h += t.KeyVar + p.sp(true) + "," + p.gapOrSp(true)
			}
			h += t.ValVar + p.gap(true) + "in" + p.gap(true) + p.sub(t.E, 1, true)
			sb.WriteString(p.tag("%{", t.Open, h))
			sb.WriteString(p.tparts(t.Then, quoted))
			sb.WriteString(p.tag("%{", t.Close, "endfor"))
		}
	}
	return sb.String()
}
