// Package c18 holds the workload and monitor for property C18 (see /verif/DESIGN.md §3).
package c18
