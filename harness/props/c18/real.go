package c18

import (
	"fmt"
	"math/big"
	"sync"

	hcl "Havoc/pkg/profile/yaotl"
	"Havoc/pkg/profile/yaotl/ext/tryfunc"
	"Havoc/pkg/profile/yaotl/ext/userfunc"
	"Havoc/pkg/profile/yaotl/hclsyntax"
	"github.com/zclconf/go-cty/cty"
	"github.com/zclconf/go-cty/cty/function"

	"verifh/lib"
)

// The user functions, declared through ext/userfunc from source text. The reference
// evaluates the same two bodies from its own trees (userFuncsRef).
//
//	absd(a, b)        = a > b ? a - b : b - a
//	wrap(p, rest...)  = "${p}<${size(rest)}>"
var userFuncsRef = map[string]*userFunc{
	"absd": {params: []string{"a", "b"},
		body: nCond(nBin(">", nVar("a"), nVar("b")), nBin("-", nVar("a"), nVar("b")), nBin("-", nVar("b"), nVar("a")))},
	"wrap": {params: []string{"p"}, variadic: "rest",
		body: &Node{K: NTemplate, Form: TQuoted, Parts: []*TPart{
			{K: TInterp, E: nVar("p")}, {K: TLit, S: "<"}, {K: TInterp, E: nCall("size", nVar("rest"))}, {K: TLit, S: ">"}}}},
}

func userFuncSource() string {
	return "function \"absd\" {\n  params = [a, b]\n  result = " + printTree(userFuncsRef["absd"].body, false, 0) + "\n}\n" +
		"function \"wrap\" {\n  params = [p]\n  variadic_param = rest\n  result = " + printTree(userFuncsRef["wrap"].body, false, 0) + "\n}\n"
}

func asciiUpperReal(s string) string {
	out := make([]rune, 0, len(s))
	for _, r := range s {
		if r >= 'a' && r <= 'z' {
			r -= 'a' - 'A'
		}
		out = append(out, r)
	}
	return string(out)
}

var (
	funcsOnce sync.Once
	funcs     map[string]function.Function
	funcsErr  error
)

func realFunctions() (map[string]function.Function, error) {
	funcsOnce.Do(func() {
		base := map[string]function.Function{
			"upper": function.New(&function.Spec{
				Params: []function.Parameter{{Name: "s", Type: cty.String}},
				Type:   function.StaticReturnType(cty.String),
				Impl: func(a []cty.Value, _ cty.Type) (cty.Value, error) {
					return cty.StringVal(asciiUpperReal(a[0].AsString())), nil
				}}),
			"size": function.New(&function.Spec{
				Params: []function.Parameter{{Name: "x", Type: cty.DynamicPseudoType}},
				Type:   function.StaticReturnType(cty.Number),
				Impl: func(a []cty.Value, _ cty.Type) (cty.Value, error) {
					v := a[0]
					ty := v.Type()
					var n int
					switch {
					case ty == cty.String:
						n = len(v.AsString())
					case ty.IsListType() || ty.IsTupleType() || ty.IsMapType() || ty.IsObjectType():
						n = v.LengthInt()
					default:
						return cty.NilVal, fmt.Errorf("size: collection or string required")
					}
					return cty.NumberVal(new(big.Float).SetPrec(numPrec).SetInt64(int64(n))), nil
				}}),
			"add": function.New(&function.Spec{
				Params:   []function.Parameter{{Name: "a", Type: cty.Number}},
				VarParam: &function.Parameter{Name: "more", Type: cty.Number},
				Type:     function.StaticReturnType(cty.Number),
				Impl: func(a []cty.Value, _ cty.Type) (cty.Value, error) {
					sum := new(big.Float).SetPrec(numPrec)
					for _, v := range a {
						sum.Add(sum, v.AsBigFloat())
					}
					return cty.NumberVal(sum), nil
				}}),
			"try": tryfunc.TryFunc,
			"can": tryfunc.CanFunc,
		}
		f, diags := hclsyntax.ParseConfig([]byte(userFuncSource()), "userfuncs.hcl", hcl.InitialPos)
		if diags.HasErrors() {
			funcsErr = fmt.Errorf("user function source does not parse: %s", diags.Error())
			return
		}
		ufs, _, diags := userfunc.DecodeUserFunctions(f.Body, "function", func() *hcl.EvalContext {
			return &hcl.EvalContext{Functions: base}
		})
		if diags.HasErrors() || len(ufs) != 2 {
			funcsErr = fmt.Errorf("user functions do not decode: %s", diags.Error())
			return
		}
		all := map[string]function.Function{}
		for k, v := range base {
			all[k] = v
		}
		for k, v := range ufs {
			all[k] = v
		}
		funcs = all
	})
	return funcs, funcsErr
}

func realContext(env map[string]Val) *hcl.EvalContext {
	fs, _ := realFunctions()
	vars := make(map[string]cty.Value, len(env))
	for k, v := range env {
		vars[k] = toCty(v)
	}
	return &hcl.EvalContext{Variables: vars, Functions: fs}
}

// outcome of the real evaluator on one source text
type realOut struct {
	Kind   string `json:"kind"` // value | error | parse-error | panic | unrepresentable
	Val    *Val   `json:"value,omitempty"`
	Detail string `json:"detail,omitempty"`
	stack  string
	pv     any
}

func runReal(mode, src string, ctx *hcl.EvalContext) (out realOut) {
	pv, stack := lib.Guard(func() {
		var e hclsyntax.Expression
		var diags hcl.Diagnostics
		if mode == "template" {
			e, diags = hclsyntax.ParseTemplate([]byte(src), "c18.tmpl", hcl.InitialPos)
		} else {
			e, diags = hclsyntax.ParseExpression([]byte(src), "c18.hcl", hcl.InitialPos)
		}
		if diags.HasErrors() {
			out = realOut{Kind: "parse-error", Detail: diags.Error()}
			return
		}
		v, diags := e.Value(ctx)
		if diags.HasErrors() {
			out = realOut{Kind: "error", Detail: diags.Error()}
			return
		}
		mv, why := fromCty(v)
		if why != "" {
			out = realOut{Kind: "unrepresentable", Detail: why + ": " + v.GoString()}
			return
		}
		out = realOut{Kind: "value", Val: &mv}
	})
	if pv != nil {
		return realOut{Kind: "panic", Detail: fmt.Sprint(pv), stack: stack, pv: pv}
	}
	return out
}
