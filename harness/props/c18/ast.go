package c18

import "math/big"

// The check's own syntax tree. Nothing here refers to hclsyntax.

type NK uint8

const (
	NNum NK = iota // numeric literal: Text is the spelling, Num the exact value
	NStr           // plain quoted string literal (no template sequences): S
	NBool
	NNull
	NVar    // S = name
	NCall   // S = function name, A = args, Expand = last arg followed by ...
	NUnary  // Op, A[0]
	NBinary // Op, A[0], A[1]
	NCond   // A[0] ? A[1] : A[2]
	NTuple  // A = items
	NObject // Items
	NIndex  // A[0][A[1]]
	NAttr   // A[0].S
	NLegacy // A[0].<Idx>
	NSplat  // A[0] source; Full; Steps applied to every element
	NFor    // for expression (tuple or object form)
	NTemplate
)

type Step struct {
	Attr string // attribute step when Key == nil
	Key  *Node  // index step (full splat only)
}

type ObjKeyStyle uint8

const (
	KeyIdent  ObjKeyStyle = iota // bare identifier: literal string
	KeyQuoted                    // quoted string / template expression (Key node)
	KeyParen                     // ( expression )
)

type ObjItem struct {
	Style ObjKeyStyle
	Name  string // KeyIdent
	Key   *Node  // KeyQuoted / KeyParen
	Val   *Node
	Colon bool // written with ":" instead of "=" (both spellings)
}

type TForm uint8

const (
	TQuoted TForm = iota
	THeredoc
	THeredocFlush
	TBare // root of ParseTemplate
)

type TK uint8

const (
	TLit TK = iota
	TInterp
	TIf
	TFor
)

type TPart struct {
	K       TK
	S       string   // TLit
	E       *Node    // interpolated expression / if condition / for collection
	KeyVar  string   // TFor (optional)
	ValVar  string   // TFor
	Then    []*TPart // TIf then-branch / TFor body
	Else    []*TPart
	HasElse bool
	// strip markers: [0] left (~ directly after the opening brace), [1] right
	Open  [2]bool // ${ } or %{if}/%{for}
	Mid   [2]bool // %{else}
	Close [2]bool // %{endif}/%{endfor}
}

type Node struct {
	K      NK
	Text   string
	Num    *big.Rat
	S      string
	B      bool
	Op     string
	A      []*Node
	Expand bool

	Items []ObjItem

	Idx   int
	Full  bool
	Steps []Step

	// for expression
	ObjForm bool
	KeyVar  string
	ValVar  string
	Coll    *Node
	KeyE    *Node // object form
	ValE    *Node
	CondE   *Node
	Group   bool

	// template
	Form   TForm
	Parts  []*TPart
	Marker string // heredoc identifier
	EndInd int    // indentation of the closing marker (flush heredoc)

	Fault string // this node is the injected one-fault site (fault kind)

	ty *Ty // generator's static type guess (not part of the tree's meaning)
}

// kindName is the construct name used in counters and signatures.
func (n *Node) kindName() string {
	switch n.K {
	case NNum:
		return "lit.num"
	case NStr:
		return "lit.str"
	case NBool:
		return "lit.bool"
	case NNull:
		return "lit.null"
	case NVar:
		return "var"
	case NCall:
		switch n.S {
		case "upper", "size", "add", "try", "can", "absd", "wrap":
			return "call:" + n.S
		}
		return "call:unknown"
	case NUnary:
		return "unary:" + n.Op
	case NBinary:
		return "binary:" + n.Op
	case NCond:
		return "cond"
	case NTuple:
		return "tuple"
	case NObject:
		return "object"
	case NIndex:
		return "index"
	case NAttr:
		return "attr"
	case NLegacy:
		return "legacyindex"
	case NSplat:
		if n.Full {
			return "splat.full"
		}
		return "splat.attr"
	case NFor:
		if !n.ObjForm {
			return "for.tuple"
		}
		if n.Group {
			return "for.object.group"
		}
		return "for.object"
	case NTemplate:
		switch n.Form {
		case TQuoted:
			return "template.quoted"
		case THeredoc:
			return "template.heredoc"
		case THeredocFlush:
			return "template.heredoc-flush"
		}
		return "template.bare"
	}
	return "?"
}

// slots returns pointers to every direct child expression slot (used by the shrinker,
// the fault injector and the statistics walk).
func (n *Node) slots() []**Node {
	var out []**Node
	for i := range n.A {
		out = append(out, &n.A[i])
	}
	for i := range n.Items {
		if n.Items[i].Key != nil {
			out = append(out, &n.Items[i].Key)
		}
		out = append(out, &n.Items[i].Val)
	}
	for i := range n.Steps {
		if n.Steps[i].Key != nil {
			out = append(out, &n.Steps[i].Key)
		}
	}
	for _, p := range []**Node{&n.Coll, &n.KeyE, &n.ValE, &n.CondE} {
		if *p != nil {
			out = append(out, p)
		}
	}
	out = append(out, partSlots(n.Parts)...)
	return out
}

func partSlots(ps []*TPart) []**Node {
	var out []**Node
	for _, p := range ps {
		if p.E != nil {
			out = append(out, &p.E)
		}
		out = append(out, partSlots(p.Then)...)
		out = append(out, partSlots(p.Else)...)
	}
	return out
}

func (n *Node) walk(f func(*Node, int), depth int) {
	f(n, depth)
	for _, s := range n.slots() {
		(*s).walk(f, depth+1)
	}
}

func (n *Node) size() int {
	c := 0
	n.walk(func(*Node, int) { c++ }, 0)
	return c
}

func walkParts(ps []*TPart, f func(*TPart)) {
	for _, p := range ps {
		f(p)
		walkParts(p.Then, f)
		walkParts(p.Else, f)
	}
}

// clone makes a deep copy (the shrinker mutates copies).
func (n *Node) clone() *Node {
	if n == nil {
		return nil
	}
	c := *n
	if n.A != nil {
		c.A = make([]*Node, len(n.A))
		for i, a := range n.A {
			c.A[i] = a.clone()
		}
	}
	if n.Items != nil {
		c.Items = make([]ObjItem, len(n.Items))
		for i, it := range n.Items {
			c.Items[i] = it
			c.Items[i].Key = it.Key.clone()
			c.Items[i].Val = it.Val.clone()
		}
	}
	if n.Steps != nil {
		c.Steps = make([]Step, len(n.Steps))
		for i, s := range n.Steps {
			c.Steps[i] = Step{Attr: s.Attr, Key: s.Key.clone()}
		}
	}
	c.Coll, c.KeyE, c.ValE, c.CondE = n.Coll.clone(), n.KeyE.clone(), n.ValE.clone(), n.CondE.clone()
	c.Parts = cloneParts(n.Parts)
	return &c
}

func cloneParts(ps []*TPart) []*TPart {
	if ps == nil {
		return nil
	}
	out := make([]*TPart, len(ps))
	for i, p := range ps {
		c := *p
		c.E = p.E.clone()
		c.Then = cloneParts(p.Then)
		c.Else = cloneParts(p.Else)
		out[i] = &c
	}
	return out
}

// normParts merges adjacent literals and drops empty ones: in source text two adjacent
// literals are one literal, and an empty literal does not exist.
func normParts(ps []*TPart) []*TPart {
	var out []*TPart
	for _, p := range ps {
		if p.K == TLit {
			if p.S == "" {
				continue
			}
			if len(out) > 0 && out[len(out)-1].K == TLit {
				m := *out[len(out)-1]
				m.S += p.S
				out[len(out)-1] = &m
				continue
			}
		} else {
			p.Then = normParts(p.Then)
			p.Else = normParts(p.Else)
		}
		out = append(out, p)
	}
	return out
}

// constructors used by generator and tests
func nNum(text string) *Node {
	r, ok := new(big.Rat).SetString(text)
	if !ok {
		panic("bad numeric literal " + text)
	}
	return &Node{K: NNum, Text: text, Num: r}
}
func nStr(s string) *Node                    { return &Node{K: NStr, S: s} }
func nBool(b bool) *Node                     { return &Node{K: NBool, B: b} }
func nNull() *Node                           { return &Node{K: NNull} }
func nVar(name string) *Node                 { return &Node{K: NVar, S: name} }
func nBin(op string, a, b *Node) *Node       { return &Node{K: NBinary, Op: op, A: []*Node{a, b}} }
func nUn(op string, a *Node) *Node           { return &Node{K: NUnary, Op: op, A: []*Node{a}} }
func nCond(c, a, b *Node) *Node              { return &Node{K: NCond, A: []*Node{c, a, b}} }
func nCall(name string, args ...*Node) *Node { return &Node{K: NCall, S: name, A: args} }
func nIndex(x, k *Node) *Node                { return &Node{K: NIndex, A: []*Node{x, k}} }
func nAttr(x *Node, name string) *Node       { return &Node{K: NAttr, S: name, A: []*Node{x}} }
func nTuple(items ...*Node) *Node            { return &Node{K: NTuple, A: items} }
