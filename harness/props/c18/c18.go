package c18

import (
	"encoding/json"
	"fmt"
	"strings"

	hcl "Havoc/pkg/profile/yaotl"

	"verifh/lib"
)

func init() { lib.Register("C18", run) }

const (
	quickTrees    = 64000
	thoroughTrees = 8000000
)

var exclusions = []string{
	"unknown and marked values (never in the environment)",
	"division and modulo by zero (1/0 is +Inf and 7%0 is 7 here: library behaviour, not language)",
	"numbers that are not dyadic rationals of bounded size (|numerator| < 2^260, denominator <= 2^64): decimal fractions such as 0.1 are not exactly representable in the evaluator's 512-bit binary floats, so every literal, variable and intermediate result stays in the exact domain; cases leaving it are discarded",
	"number->string conversion of numbers with more than 80 digits or more than 30 fractional binary digits; string->number conversion of anything outside the numeric literal grammar (sign, blanks, hex, inf/nan)",
	`strings "1"/"0" and capitalised "True"/"False" in bool position (accepted by the conversion library, not by the language rules)`,
	"conditional whose arms have different types (result type unification), and an error inside the arm that is not selected (laziness of the arms is not defined)",
	"== / != with an operand that is a collection not written as a constructor of primitives, or containing null (list-vs-tuple / map-vs-object / typed-null typing details decide the answer, not the values)",
	"duplicate keys in an object constructor (last one wins silently)",
	"null or a collection interpolated into a multi-part template",
	"bool used as a mapping key; numeric keys on environment maps/objects never match an existing key",
	"null of a collection type as splat source (this tree reports an error, the language says empty tuple; only nulls of type string/dynamic are in the environment)",
	"legacy index (.N) inside an attribute-only splat traversal and two chained legacy indexes (a parse error by design)",
	"strip markers inside a <<- heredoc (relative order of de-indentation and stripping is not defined), blank lines and tabs/CR in the indentation of a <<- heredoc",
	`literal template text where a run of "$"/"%" directly precedes "{", or that ends in "$"/"%" (which character escapes is not defined); \u, \U and \x escapes are never printed (dialect); no carriage return in heredocs`,
	"heredocs nested inside template sequences",
	"an injected fault that the reference never evaluates (dead code, e.g. the body of a for over an empty collection): static checks of dead code are not defined",
	"result typing list-vs-tuple and map-vs-object is not compared (a splat over a list yields a list here, the language says tuple); values are compared structurally",
	"try()/can() with argument expansion",
	"number->string conversion of a zero that results from negating zero or from an operation with a negative operand: the float library keeps it as negative zero and prints \"-0\" (\"x${0 * -1}\" gives \"x-0\"); treated like 1/0 = +Inf as library behaviour, see report",
	"strip marker next to a heredoc / ParseTemplate literal that contains $ or % (the scanner also splits literals there; same deviation as the known finding, not modelled)",
	"for expression with an 'if' clause over an empty source (this tree type-checks the clause once with unknown iterator values; whether dead code is checked is not defined)",
}

type expected struct {
	Error string `json:"error,omitempty"` // reference error class
	Value *Val   `json:"value,omitempty"`
}

type witness struct {
	Mode      string         `json:"mode"`     // expr: ParseExpression, template: ParseTemplate
	Spelling  string         `json:"spelling"` // minimal | noisy
	Source    string         `json:"source"`
	Other     string         `json:"other_spelling,omitempty"`
	Env       map[string]Val `json:"env"`
	Expected  expected       `json:"expected"`
	Observed  realOut        `json:"observed"`
	Class     string         `json:"class"`
	Signature string         `json:"signature"`
	Fault     string         `json:"fault,omitempty"`
	Original  string         `json:"unminimised_source,omitempty"`
}

type verdict struct {
	ood    string
	expErr *refErr
	expVal Val
	src    [2]string
	out    [2]realOut
	bad    int
	class  string
}

func hasFault(root *Node) bool {
	f := false
	root.walk(func(n *Node, _ int) {
		if n.Fault != "" {
			f = true
		}
	}, 0)
	return f
}

func classOf(expErr *refErr, expVal Val, out realOut) string {
	if out.Kind == "panic" {
		return "panic"
	}
	if expErr != nil {
		switch out.Kind {
		case "error", "parse-error":
			return ""
		}
		return "error-expected"
	}
	switch out.Kind {
	case "value":
		if sameResult(expVal, *out.Val) {
			return ""
		}
		return "value-mismatch"
	case "unrepresentable":
		return "value-mismatch"
	}
	return "unexpected-error"
}

var spellings = [2]string{"minimal", "noisy"}

func evalCase(root *Node, mode string, env map[string]Val, ctx *hcl.EvalContext, noiseSeed int64) verdict {
	v := verdict{bad: -1}
	val, err, oodWhy, hit := runRef(root, env, false)
	if oodWhy != "" {
		v.ood = oodWhy
		return v
	}
	if !hit && hasFault(root) {
		v.ood = "injected fault is never evaluated (dead code)"
		return v
	}
	v.expErr, v.expVal = err, val
	v.src[0] = printTree(root, false, 0)
	v.src[1] = printTree(root, true, noiseSeed)
	for i := 0; i < 2; i++ {
		v.out[i] = runReal(mode, v.src[i], ctx)
		if cl := classOf(err, val, v.out[i]); cl != "" && v.bad < 0 {
			v.bad, v.class = i, cl
		}
	}
	return v
}

// ---- signatures ----

func tplFeatures(n *Node) string {
	var strip, hasIf, hasFor bool
	walkParts(n.Parts, func(p *TPart) {
		if p.K != TLit && (p.Open[0] || p.Open[1] || p.Mid[0] || p.Mid[1] || p.Close[0] || p.Close[1]) {
			strip = true
		}
		hasIf = hasIf || p.K == TIf
		hasFor = hasFor || p.K == TFor
	})
	s := ""
	if hasIf {
		s += "+if"
	}
	if hasFor {
		s += "+for"
	}
	if strip {
		s += "+strip"
	}
	return s
}

func sigKind(n *Node) string {
	s := n.kindName()
	switch n.K {
	case NTemplate:
		s += tplFeatures(n)
	case NUnary, NBinary:
		for _, a := range n.A {
			if a.K == NUnary || a.K == NBinary || a.K == NCond {
				return s + ">" + a.kindName()
			}
		}
	case NIndex, NAttr, NLegacy:
		s += ">" + n.A[0].kindName()
	}
	return s
}

const knownStripSig = "value-mismatch:strip-marker-stops-at-line-break"

// stripDefect: does the observed value equal what a "strip only within the adjacent source
// line" evaluator would produce? Used only to give that known deviation its own signature.
func stripDefect(root *Node, env map[string]Val, out realOut) bool {
	return stripClass(root, env, out) == "explained"
}

// stripClass: "" = the tree has no heredoc/bare template with strip markers, or the defect
// model evaluates to the reference value (the known deviation cannot be the cause);
// "explained" = the observed value is what the defect model gives; "unclassifiable" = the
// defect model gives another value than the reference but cannot be evaluated to the end
// or the real evaluator reports an error; "other" = the defect model gives a third value.
func stripClass(root *Node, env map[string]Val, out realOut) string {
	multi := false
	root.walk(func(n *Node, _ int) {
		if n.K == NTemplate && n.Form != TQuoted && strings.Contains(tplFeatures(n), "+strip") {
			multi = true
		}
	}, 0)
	if !multi {
		return ""
	}
	alt, err, oodWhy, _ := runRef(root, env, true)
	if oodWhy != "" {
		return "unclassifiable"
	}
	ref, rerr, _, _ := runRef(root, env, false)
	if (err == nil) == (rerr == nil) && (err != nil || sameResult(alt, ref)) {
		return "" // the deviation does not change this tree's outcome
	}
	if out.Kind != "value" || err != nil {
		return "unclassifiable"
	}
	if sameResult(alt, *out.Val) {
		return "explained"
	}
	return "other"
}

func signatureOf(root *Node, env map[string]Val, v verdict) string {
	out := v.out[v.bad]
	switch v.class {
	case "panic":
		return lib.PanicSig(out.pv, out.stack)
	case "error-expected":
		return "error-expected:" + v.expErr.class
	case "unexpected-error":
		if out.Kind == "parse-error" {
			return "unexpected-error:parse:" + sigKind(root)
		}
		return "unexpected-error:" + sigKind(root)
	}
	if stripDefect(root, env, out) {
		return knownStripSig
	}
	return "value-mismatch:" + sigKind(root)
}

func usedEnv(root *Node, env map[string]Val) map[string]Val {
	out := map[string]Val{}
	root.walk(func(n *Node, _ int) {
		if n.K == NVar {
			if v, ok := env[n.S]; ok {
				out[n.S] = v
			}
		}
	}, 0)
	return out
}

// diagSummary: "file:pos: Summary; detail" -> "Summary" (empty for values).
func diagSummary(o realOut) string {
	if o.Kind == "value" {
		return ""
	}
	d := o.Detail
	if i := strings.Index(d, ": "); i >= 0 {
		d = d[i+2:]
	}
	if i := strings.Index(d, ";"); i >= 0 {
		d = d[:i]
	}
	return d
}

func showExpected(e *refErr, v Val) string {
	if e != nil {
		return "error (" + e.class + ": " + e.detail + ")"
	}
	return v.show()
}

func showOut(o realOut) string {
	if o.Kind == "value" {
		return o.Val.show()
	}
	d := o.Detail
	if len(d) > 200 {
		d = d[:200] + "..."
	}
	return o.Kind + ": " + d
}

// Minimisation is the expensive step: it is done for the first few violations of each
// coarse class in a shard; later ones of a class that is already documented are counted.
type reporter struct {
	perClass map[string]int
	total    int
}

const (
	maxShrinksPerClass = 4
	maxShrinksPerShard = 30
)

func (r *reporter) report(c *lib.Ctx, root *Node, mode string, env map[string]Val, ctx *hcl.EvalContext, v verdict, faultKind string, noiseSeed int64) {
	orig := v.src[v.bad]
	sc := stripClass(root, env, v.out[v.bad])
	if sc == "unclassifiable" {
		// the tree is touched by the known strip deviation, but its effect on this outcome
		// cannot be computed: neither a pass nor a new failure
		c.Inconclusive("disagreement on a tree affected by the known strip-marker deviation whose effect cannot be modelled: " + orig)
		return
	}
	wantStrip := v.class == "value-mismatch" && sc == "explained"
	coarse := v.class + "/" + sigKind(root)
	if wantStrip {
		coarse = knownStripSig
	} else if v.expErr != nil {
		coarse = v.class + "/" + v.expErr.class
	}
	if r.perClass[coarse] >= maxShrinksPerClass || r.total >= maxShrinksPerShard {
		if wantStrip {
			ev := v.expVal
			c.Violation(knownStripSig, "further occurrence (not minimised): "+orig, witness{
				Mode: mode, Spelling: spellings[v.bad], Source: orig, Env: usedEnv(root, env), Expected: expected{Value: &ev},
				Observed: v.out[v.bad], Class: v.class, Signature: knownStripSig})
		} else {
			c.Observe("violations_counted_not_minimised", 1)
		}
		return
	}
	r.perClass[coarse]++
	r.total++
	fails := func(t *Node) bool {
		w := evalCase(t, mode, env, ctx, noiseSeed)
		if w.ood != "" || w.bad < 0 || w.class != v.class {
			return false
		}
		// stay on the same failure: same outcome kind and same diagnostic summary
		if w.out[w.bad].Kind != v.out[v.bad].Kind || diagSummary(w.out[w.bad]) != diagSummary(v.out[v.bad]) {
			return false
		}
		if (w.expErr == nil) != (v.expErr == nil) || (w.expErr != nil && w.expErr.class != v.expErr.class) {
			return false
		}
		if v.class == "value-mismatch" && stripDefect(t, env, w.out[w.bad]) != wantStrip {
			return false
		}
		return true
	}
	min := shrinkTree(root.clone(), fails, 400)
	mv := evalCase(min, mode, env, ctx, noiseSeed)
	if mv.bad < 0 || mv.class != v.class {
		min, mv = root, v // cannot happen; keep the original
	}
	sig := signatureOf(min, env, mv)
	w := witness{
		Mode: mode, Spelling: spellings[mv.bad], Source: mv.src[mv.bad], Other: mv.src[1-mv.bad],
		Env: usedEnv(min, env), Observed: mv.out[mv.bad], Class: mv.class, Signature: sig, Fault: faultKind,
	}
	if orig != w.Source {
		w.Original = orig
	}
	if mv.expErr != nil {
		w.Expected.Error = mv.expErr.class
	} else {
		ev := mv.expVal
		w.Expected.Value = &ev
	}
	what := fmt.Sprintf("%s spelling of %s %q: reference says %s, real evaluator gives %s",
		w.Spelling, mode, w.Source, showExpected(mv.expErr, mv.expVal), showOut(w.Observed))
	c.Violation(sig, what, w)
}

// ---- replay ----

func replay(c *lib.Ctx) {
	var w witness
	if err := json.Unmarshal(c.Replay, &w); err != nil {
		c.Inconclusive("replay: witness does not parse: " + err.Error())
		return
	}
	c.Cur("replay", []byte(w.Mode+"\n"+w.Source))
	c.Eval()
	out := runReal(w.Mode, w.Source, realContext(w.Env))
	var expErr *refErr
	var expVal Val
	if w.Expected.Error != "" {
		expErr = &refErr{class: w.Expected.Error}
	} else if w.Expected.Value != nil {
		expVal = *w.Expected.Value
	} else {
		c.Inconclusive("replay: witness has no expected outcome")
		return
	}
	cl := classOf(expErr, expVal, out)
	if cl == "" {
		return
	}
	sig := w.Signature
	if cl != w.Class || sig == "" {
		if cl == "panic" {
			sig = lib.PanicSig(out.pv, out.stack)
		} else {
			sig = cl + ":replayed"
		}
	}
	w.Observed = out
	c.Violation(sig, fmt.Sprintf("replayed %s %q: expected %s, real evaluator gives %s", w.Mode, w.Source, showExpected(expErr, expVal), showOut(out)), w)
}

// ---- workload ----

func envText(env map[string]Val) string {
	var sb strings.Builder
	for _, k := range sortedKeys(env) {
		sb.WriteString(k + "=" + env[k].show() + ";")
	}
	return sb.String()
}

func run(c *lib.Ctx) {
	c.Rule("seeded generator of typed expression/template trees (depth<=6) with a random environment, ~22% with one injected ill-typed edit; each tree is printed twice (minimal parentheses, noisy) and evaluated by the real parser+evaluator; distinct non-trivial = distinct minimal-spelling source texts (with mode) whose root is not a bare literal or variable")
	c.Assume(
		"go-cty's value representation (AsBigFloat/AsString/ElementIterator) is used only to read results, and harness-built environments are exact (512-bit dyadic numbers)",
		"the three harness functions upper/size/add are written twice (cty function and reference) from one definition: ASCII upper-casing, byte/element count, exact sum",
		"language rules are those of the HCL native-syntax specification and DESIGN.md Appendix C (the spec.md files are not present in this tree); constructs whose meaning those do not fix are excluded (notes.exclusions)",
	)
	c.Note("exclusions", exclusions)
	if _, err := realFunctions(); err != nil {
		// the user functions cannot even be declared: that is a failure of the code under test
		c.Violation("unexpected-error:userfunc-declaration", err.Error(), map[string]any{"source": userFuncSource()})
		return
	}
	if c.Replay != nil {
		replay(c)
		return
	}
	n := c.N(quickTrees, thoroughTrees)
	obs := map[string]int64{}
	flush := func() {
		for k, v := range obs {
			c.Observe(k, v)
			delete(obs, k)
		}
	}
	var maxDepth, maxSize int64
	rep := &reporter{perClass: map[string]int{}}
	for i := 0; i < n; i++ {
		env := genEnv(c.Rng)
		g := newGen(c.Rng, env)
		root, mode := g.genRoot()
		faultKind := ""
		if c.Rng.Intn(100) < 22 {
			faultKind = g.inject(&root)
		}
		noiseSeed := c.Rng.Int63()
		ctx := realContext(env)

		// the current input goes to disk before the code under test runs
		minimal := printTree(root, false, 0)
		c.Cur("tree", []byte(mode+"\n"+minimal+"\nnoise-seed="+fmt.Sprint(noiseSeed)+"\n"+envText(usedEnv(root, env))))

		v := evalCase(root, mode, env, ctx, noiseSeed)
		if v.ood != "" {
			obs["discarded"]++
			obs["discard:"+shortWhy(v.ood)]++
			continue
		}
		c.EvalN(2)
		depth := 0
		size := 0
		root.walk(func(m *Node, d int) {
			obs["kind:"+m.kindName()]++
			size++
			if d > depth {
				depth = d
			}
			if m.K == NTemplate {
				walkParts(m.Parts, func(p *TPart) {
					switch p.K {
					case TInterp:
						obs["tpl.interp"]++
					case TIf:
						obs["tpl.if"]++
					case TFor:
						obs["tpl.for"]++
					}
					if p.K != TLit {
						for _, b := range [][2]bool{p.Open, p.Mid, p.Close} {
							if b[0] {
								obs["tpl.strip.left"]++
							}
							if b[1] {
								obs["tpl.strip.right"]++
							}
						}
					}
				})
			}
		}, 0)
		if int64(depth) > maxDepth {
			maxDepth = int64(depth)
		}
		if int64(size) > maxSize {
			maxSize = int64(size)
		}
		if v.expErr != nil {
			obs["error_cases"]++
			obs["error:"+v.expErr.class]++
			if v.out[0].Kind == "parse-error" || v.out[1].Kind == "parse-error" {
				obs["parse_error_where_error_expected"]++
			}
		} else {
			obs["value_cases"]++
			obs["value:"+v.expVal.K.String()]++
		}
		if faultKind != "" {
			obs["fault:"+faultKind]++
			if v.expErr == nil {
				obs["fault_absorbed_by_try_or_can"]++
			}
		}
		if mode == "template" {
			obs["mode:ParseTemplate"]++
		} else {
			obs["mode:ParseExpression"]++
		}
		switch root.K {
		case NNum, NStr, NBool, NNull, NVar:
		default:
			c.Distinct(mode + "\x00" + minimal)
		}
		c.SampleSome(5000, func() any {
			return map[string]any{"mode": mode, "minimal": v.src[0], "noisy": v.src[1], "expected": showExpected(v.expErr, v.expVal)}
		})
		if v.bad >= 0 {
			rep.report(c, root, mode, env, ctx, v, faultKind, noiseSeed)
		}
		if i%20000 == 19999 {
			flush()
			c.ObserveMax("max:depth", maxDepth)
			c.ObserveMax("max:nodes", maxSize)
			c.Checkpoint()
		}
	}
	flush()
	c.ObserveMax("max:depth", maxDepth)
	c.ObserveMax("max:nodes", maxSize)
}

func shortWhy(s string) string {
	if i := strings.IndexAny(s, "(:"); i > 0 {
		s = s[:i]
	}
	s = strings.TrimSpace(s)
	if len(s) > 60 {
		s = s[:60]
	}
	return s
}
