package c18

import (
	"math/big"
	"math/rand"
	"strings"
)

// Generator of (mostly) well-typed trees over a random environment. The static types
// tracked here are only a guide: whether a tree has a value or is an error is decided by
// the reference evaluator alone, so an imprecise guess costs yield, never soundness.

const KAny Kind = 100 // some non-null primitive

type Ty struct {
	K     Kind
	Elem  *Ty            // list / map element
	Elems []*Ty          // tuple
	Attrs map[string]*Ty // object attributes; for maps the known keys
	Len   int            // known length of a list, -1 unknown
}

var (
	tNum  = &Ty{K: KNum}
	tStr  = &Ty{K: KStr}
	tBool = &Ty{K: KBool}
	tNull = &Ty{K: KNull}
	tAny  = &Ty{K: KAny}
)

func tyOf(v Val) *Ty {
	switch v.K {
	case KNull:
		return tNull
	case KBool:
		return tBool
	case KNum:
		return tNum
	case KStr:
		return tStr
	case KList:
		t := &Ty{K: KList, Len: len(v.L), Elem: tAny}
		if len(v.L) > 0 {
			t.Elem = tyOf(v.L[0])
		}
		return t
	case KTuple:
		t := &Ty{K: KTuple, Len: len(v.L)}
		for _, e := range v.L {
			t.Elems = append(t.Elems, tyOf(e))
		}
		return t
	case KMap:
		t := &Ty{K: KMap, Attrs: map[string]*Ty{}, Elem: tAny}
		for k, e := range v.M {
			t.Attrs[k] = tyOf(e)
			t.Elem = t.Attrs[k]
		}
		return t
	default:
		t := &Ty{K: KObj, Attrs: map[string]*Ty{}}
		for k, e := range v.M {
			t.Attrs[k] = tyOf(e)
		}
		return t
	}
}

func (t *Ty) isSeq() bool     { return t != nil && (t.K == KList || t.K == KTuple) }
func (t *Ty) isMapping() bool { return t != nil && (t.K == KMap || t.K == KObj) }
func (t *Ty) isPrim() bool {
	return t != nil && (t.K == KNum || t.K == KStr || t.K == KBool || t.K == KAny)
}

// elemTy: static type of the elements when iterating / indexing a sequence.
func (t *Ty) elemTy() *Ty {
	if t.K == KList || t.K == KMap {
		if t.Elem != nil {
			return t.Elem
		}
		return tAny
	}
	var src []*Ty
	if t.K == KTuple {
		src = t.Elems
	} else {
		for _, a := range t.Attrs {
			src = append(src, a)
		}
	}
	if len(src) == 0 {
		return tAny
	}
	k := src[0].K
	allPrim := true
	for _, e := range src {
		if e.K != k {
			k = KAny
		}
		if !e.isPrim() {
			allPrim = false
		}
	}
	if k != KAny {
		return src[0]
	}
	if allPrim {
		return tAny
	}
	return &Ty{K: KNull} // mixed: treat as opaque
}

// ---- environment ----

var numPool = []string{"0", "1", "2", "3", "4", "5", "7", "8", "10", "12", "16", "42", "100", "255", "1000",
	"-1", "-2", "-3", "-7", "-10", "1/2", "3/2", "-1/2", "5/4", "7/2", "-9/4", "1/8", "15/2", "21/4",
	"123456789012345678901234567890", "18446744073709551616", "-9223372036854775808", "1000000000000", "4294967297"}

var pow2Pool = []string{"1", "2", "4", "8", "1/2", "1/4", "-2", "-1", "16"}

var strPool = []string{"abc", "Hello World", "x", "", "a b", "é", "日本", "tab\there", "l1\nl2", `q"uote`, `back\slash`,
	"${lit}", "%{lit}", "100%", "$5", "  padded  ", "k1", "Key", "a", "b", "UPPER", "mixed Case é"}
var numStrPool = []string{"5", "12", "2.5", "0.25", "100", "0", "1e2", "3"}
var keyPool = []string{"a", "b", "c", "k1", "Key", "zed", "B"}

func rn(r *rand.Rand, pool []string) Val {
	x, _ := new(big.Rat).SetString(pool[r.Intn(len(pool))])
	return vNum(x)
}
func smallInt(r *rand.Rand) Val { return vInt(int64(r.Intn(12)) - 2) }
func rs(r *rand.Rand) Val       { return vStr(strPool[r.Intn(len(strPool))]) }

func genEnv(r *rand.Rand) map[string]Val {
	env := map[string]Val{}
	env["n0"], env["n1"], env["n2"] = rn(r, numPool), rn(r, numPool), smallInt(r)
	env["n3"] = rn(r, pow2Pool)
	env["s0"], env["s1"] = rs(r), rs(r)
	env["s2"] = vStr(numStrPool[r.Intn(len(numStrPool))])
	env["s3"] = vStr([]string{"true", "false"}[r.Intn(2)])
	env["b0"], env["b1"] = vBool(r.Intn(2) == 0), vBool(r.Intn(2) == 0)
	env["z"], env["zd"] = vNull("string"), vNull("dyn")
	list := func(n int, f func() Val) Val {
		v := Val{K: KList, L: []Val{}}
		for i := 0; i < n; i++ {
			v.L = append(v.L, f())
		}
		return v
	}
	env["ln"] = list(1+r.Intn(4), func() Val {
		if r.Intn(4) == 0 {
			return rn(r, numPool)
		}
		return smallInt(r)
	})
	env["le"] = Val{K: KList, L: []Val{}}
	env["ls"] = list(1+r.Intn(3), func() Val { return vStr(keyPool[r.Intn(len(keyPool))]) })
	prim := func() Val {
		switch r.Intn(3) {
		case 0:
			return smallInt(r)
		case 1:
			return rs(r)
		}
		return vBool(r.Intn(2) == 0)
	}
	tp := Val{K: KTuple, L: []Val{}}
	for i, n := 0, 1+r.Intn(4); i < n; i++ {
		tp.L = append(tp.L, prim())
	}
	env["tp"] = tp
	env["ll"] = list(1+r.Intn(3), func() Val { return list(1+r.Intn(3), func() Val { return smallInt(r) }) })
	mkmap := func(f func() Val, min int) Val {
		m := Val{K: KMap, M: map[string]Val{}}
		for i, n := 0, min+r.Intn(3); i < n; i++ {
			m.M[keyPool[r.Intn(len(keyPool))]] = f()
		}
		return m
	}
	env["mn"] = mkmap(func() Val { return smallInt(r) }, 1)
	env["ms"] = mkmap(func() Val { return rs(r) }, 1)
	env["me"] = Val{K: KMap, M: map[string]Val{}}
	env["ob"] = vObj(map[string]Val{
		"name": rs(r), "n": rn(r, numPool), "flag": vBool(r.Intn(2) == 0),
		"tags": list(1+r.Intn(3), func() Val { return rs(r) }),
		"in":   vObj(map[string]Val{"x": smallInt(r), "y": rs(r)}),
		"opt":  vNull("string"),
	})
	env["lo"] = list(1+r.Intn(3), func() Val {
		return vObj(map[string]Val{"a": smallInt(r), "s": vStr(keyPool[r.Intn(len(keyPool))]),
			"l": list(1+r.Intn(2), func() Val { return smallInt(r) })})
	})
	env["to"] = Val{K: KTuple, L: []Val{
		vObj(map[string]Val{"a": smallInt(r)}),
		vObj(map[string]Val{"a": smallInt(r), "b": rs(r)}),
	}}
	return env
}

// ---- generator ----

type svar struct {
	name string
	ty   *Ty
}

type path struct {
	root  string
	steps []Step // Attr or Key=literal index
	ty    *Ty
}

type gen struct {
	r      *rand.Rand
	env    map[string]Val
	paths  []path
	scope  []svar
	inTpl  int
	budget int
}

func newGen(r *rand.Rand, env map[string]Val) *gen {
	g := &gen{r: r, env: env}
	for _, name := range sortedKeys(env) {
		g.addPaths(path{root: name, ty: tyOf(env[name])}, 0)
	}
	return g
}

func (g *gen) addPaths(p path, depth int) {
	g.paths = append(g.paths, p)
	if depth >= 3 {
		return
	}
	ext := func(st Step, t *Ty) {
		np := path{root: p.root, ty: t, steps: append(append([]Step{}, p.steps...), st)}
		g.addPaths(np, depth+1)
	}
	switch p.ty.K {
	case KList:
		for i := 0; i < p.ty.Len && i < 3; i++ {
			ext(Step{Key: nNum(itoa(i))}, p.ty.Elem)
		}
	case KTuple:
		for i, e := range p.ty.Elems {
			ext(Step{Key: nNum(itoa(i))}, e)
		}
	case KMap, KObj:
		ks := make([]string, 0, len(p.ty.Attrs))
		for k := range p.ty.Attrs {
			ks = append(ks, k)
		}
		sortStrings(ks)
		for _, k := range ks {
			ext(Step{Attr: k}, p.ty.Attrs[k])
		}
	}
}

func sortStrings(s []string) {
	for i := 1; i < len(s); i++ {
		for j := i; j > 0 && s[j] < s[j-1]; j-- {
			s[j], s[j-1] = s[j-1], s[j]
		}
	}
}

func (g *gen) pick(n int) int { return g.r.Intn(n) }
func (g *gen) pct(p int) bool { return g.r.Intn(100) < p }

func withTy(n *Node, t *Ty) *Node { n.ty = t; return n }

// pathNode spells an access path with random but equivalent operator forms.
func (g *gen) pathNode(p path) *Node {
	n := withTy(nVar(p.root), tyOf(g.env[p.root]))
	cur := n.ty
	for _, st := range p.steps {
		var next *Ty
		if st.Key != nil { // sequence index
			i := int(st.Key.Num.Num().Int64())
			if cur.K == KList {
				next = cur.Elem
			} else {
				next = cur.Elems[i]
			}
			switch x := g.pick(20); {
			case x < 11:
				n = nIndex(n, nNum(itoa(i)))
			case x < 13:
				n = nIndex(n, nStr(itoa(i))) // numeric string as index
			case x < 15:
				n = nIndex(n, nNum(itoa(i)+".0"))
			case x < 17:
				n = nIndex(n, nBin("-", nNum(itoa(i+2)), nNum("2")))
			case x < 19 && n.K != NLegacy:
				n = &Node{K: NLegacy, Idx: i, A: []*Node{n}}
			default:
				n = nIndex(n, nNum(itoa(i)))
			}
		} else {
			next = cur.Attrs[st.Attr]
			if g.pct(75) {
				n = nAttr(n, st.Attr)
			} else {
				n = nIndex(n, nStr(st.Attr))
			}
		}
		n.ty = next
		cur = next
	}
	return n
}

func (g *gen) pathOf(ok func(*Ty) bool) *Node {
	var c []int
	for i, p := range g.paths {
		if ok(p.ty) {
			c = append(c, i)
		}
	}
	if len(c) == 0 {
		return nil
	}
	return g.pathNode(g.paths[c[g.pick(len(c))]])
}

func (g *gen) scopeVar(ok func(*Ty) bool) *Node {
	var c []svar
	for _, s := range g.scope {
		if ok(s.ty) {
			c = append(c, s)
		}
	}
	if len(c) == 0 {
		return nil
	}
	s := c[g.pick(len(c))]
	return withTy(nVar(s.name), s.ty)
}

func kindIs(k Kind) func(*Ty) bool { return func(t *Ty) bool { return t != nil && t.K == k } }

var numLits = []string{"0", "1", "2", "3", "4", "5", "7", "9", "10", "12", "42", "100", "255", "1000",
	"0.5", "1.5", "2.25", "0.125", "3.75", "10.5", "0.0", "1.0", "2.50",
	"1e3", "2.5e1", "5e-1", "25e-2", "1E2", "1e+2", "12.5e1", "1.5e0",
	"123456789012345678901234567890", "18446744073709551616", "1e30", "4294967296", "9007199254740993", "007",
	// integers that fill 60..63 bits: sums and differences of two or three of them need more than 64 bits
	"9223372036854775807", "9223372036854775806", "4611686018427387905", "1152921504606846977", "999999999999999999", "9223372036854775807"}

func (g *gen) numLit() *Node { return withTy(nNum(numLits[g.pick(len(numLits))]), tNum) }

func (g *gen) numLeaf() *Node {
	if len(g.scope) > 0 && g.pct(55) {
		if n := g.scopeVar(kindIs(KNum)); n != nil {
			return n
		}
	}
	switch x := g.pick(10); {
	case x < 5:
		return g.numLit()
	case x < 8:
		return withTy(nVar([]string{"n0", "n1", "n2", "n3"}[g.pick(4)]), tNum)
	default:
		if n := g.pathOf(kindIs(KNum)); n != nil {
			return n
		}
		return g.numLit()
	}
}

func (g *gen) leafOnly(d int) bool {
	g.budget--
	return d <= 0 || g.budget <= 0
}

var arith = []string{"+", "-", "*", "+", "-", "*", "/", "%", "%"}

func (g *gen) genNum(d int) *Node {
	if g.leafOnly(d) {
		return g.numLeaf()
	}
	var n *Node
	switch x := g.pick(100); {
	case x < 12:
		return g.numLeaf()
	case x < 42:
		op := arith[g.pick(len(arith))]
		l := g.genNum(d - 1)
		var r *Node
		if op == "/" && g.pct(80) {
			r = withTy(nNum([]string{"2", "4", "8", "0.5", "0.25", "1", "16"}[g.pick(7)]), tNum)
			if g.pct(25) {
				r = withTy(nVar("n3"), tNum)
			}
			if g.pct(15) {
				r = nUn("-", r)
			}
		} else {
			r = g.genNum(d - 1)
		}
		n = nBin(op, l, r)
	case x < 48:
		n = nUn("-", g.genNum(d-1))
	case x < 54:
		n = nCond(g.condExpr(d-1), g.genNum(d-1), g.genNum(d-1))
	case x < 64:
		if n = g.pathOf(kindIs(KNum)); n == nil {
			n = g.numLit()
		}
	case x < 70:
		switch g.pick(3) {
		case 0:
			var arg *Node
			switch g.pick(3) {
			case 0:
				arg = g.genSeq(d - 1)
			case 1:
				arg = g.genMap(d - 1)
			default:
				arg = g.genStr(d - 1)
			}
			n = nCall("size", arg)
		case 1:
			n = nCall("add", g.genNum(d-1))
			for g.pct(55) && len(n.A) < 4 {
				n.A = append(n.A, g.genNum(d-1))
			}
			if g.pct(25) {
				n.A = append(n.A, g.seqOfNum(d-1))
				n.Expand = true
			}
		default:
			n = nCall("absd", g.genNum(d-1), g.genNum(d-1))
		}
	case x < 75:
		n = g.tryOf(d, g.genNum)
	case x < 78:
		n = &Node{K: NTemplate, Form: TQuoted, Parts: []*TPart{{K: TInterp, E: g.genNum(d - 1), Open: g.strips(false)}}}
	case x < 82: // numeric string operand converts
		s := withTy(nStr(numStrPool[g.pick(len(numStrPool))]), tStr)
		if g.pct(30) {
			s = withTy(nVar("s2"), tStr)
		}
		if g.pct(50) {
			n = nBin(arith[g.pick(5)], g.genNum(d-1), s)
		} else {
			n = nBin(arith[g.pick(5)], s, g.genNum(d-1))
		}
	case x < 86:
		// element of a constructor / splat / for result
		s := g.seqOfNum(d - 1)
		n = nIndex(s, nNum("0"))
	default:
		op := arith[g.pick(len(arith))]
		n = nBin(op, g.genNum(d-1), g.numLeaf())
	}
	return withTy(n, tNum)
}

// seqOfNum: a sequence expression whose elements are numbers (possibly empty at run time).
func (g *gen) seqOfNum(d int) *Node {
	switch x := g.pick(10); {
	case x < 3:
		return withTy(nVar("ln"), tyOf(g.env["ln"]))
	case x < 6 || d <= 0:
		n := nTuple(g.genNum(d - 1))
		for g.pct(60) && len(n.A) < 4 {
			n.A = append(n.A, g.genNum(d-1))
		}
		return withTy(n, &Ty{K: KTuple, Len: len(n.A), Elems: repTy(tNum, len(n.A))})
	case x < 8:
		return g.forOver(d, false, tNum)
	default:
		sp := &Node{K: NSplat, Full: g.pct(60), A: []*Node{withTy(nVar("lo"), tyOf(g.env["lo"]))}, Steps: []Step{{Attr: "a"}}}
		return withTy(sp, &Ty{K: KTuple, Len: -1, Elem: tNum})
	}
}

func repTy(t *Ty, n int) []*Ty {
	out := make([]*Ty, n)
	for i := range out {
		out[i] = t
	}
	return out
}

func (g *gen) tryOf(d int, f func(int) *Node) *Node {
	// any mix of failing and succeeding arguments, in any order: the first success wins
	n := nCall("try")
	ok := false
	for i, k := 0, 1+g.pick(4); i < k; i++ {
		if g.pct(45) {
			n.A = append(n.A, g.failing(d-1))
		} else {
			n.A = append(n.A, f(d-1))
			ok = true
		}
	}
	if !ok && g.pct(85) {
		n.A = append(n.A, f(d-1))
	}
	return n
}

// failing: an expression that (usually) is an error, for try/can.
func (g *gen) failing(d int) *Node {
	switch g.pick(7) {
	case 0:
		return nVar("undefined_v")
	case 1:
		return nAttr(withTy(nVar("ob"), nil), "zz_missing")
	case 2:
		return nIndex(nVar("ln"), nNum("99"))
	case 3:
		return nBin("+", nStr("abc"), g.genNum(d-1))
	case 4:
		return nCall("nofunc", g.genNum(d-1))
	case 5:
		return nIndex(nVar("mn"), nStr("zz_missing"))
	default:
		return nAttr(nVar("z"), "a")
	}
}

// condExpr: a condition (conditional, for filter, %{if}): a bool, or sometimes a string
// "true"/"false", which converts.
func (g *gen) condExpr(d int) *Node {
	if g.pct(8) {
		if g.pct(40) {
			return withTy(nVar("s3"), tStr)
		}
		return withTy(nStr([]string{"true", "false"}[g.pick(2)]), tStr)
	}
	return g.genBool(d)
}

func (g *gen) boolLeaf() *Node {
	if len(g.scope) > 0 && g.pct(30) {
		if n := g.scopeVar(kindIs(KBool)); n != nil {
			return n
		}
	}
	switch x := g.pick(10); {
	case x < 4:
		return withTy(nBool(g.pct(50)), tBool)
	case x < 8:
		return withTy(nVar([]string{"b0", "b1"}[g.pick(2)]), tBool)
	default:
		if n := g.pathOf(kindIs(KBool)); n != nil {
			return n
		}
		return withTy(nBool(g.pct(50)), tBool)
	}
}

var cmpOps = []string{"<", "<=", ">", ">="}
var eqOps = []string{"==", "!="}

func (g *gen) genBool(d int) *Node {
	if g.leafOnly(d) {
		return g.boolLeaf()
	}
	var n *Node
	switch x := g.pick(100); {
	case x < 10:
		return g.boolLeaf()
	case x < 34:
		n = nBin(cmpOps[g.pick(4)], g.genNum(d-1), g.genNum(d-1))
	case x < 52:
		n = g.equality(d)
	case x < 72:
		n = nBin([]string{"&&", "||"}[g.pick(2)], g.genBool(d-1), g.genBool(d-1))
	case x < 80:
		n = nUn("!", g.genBool(d-1))
	case x < 85:
		n = nCond(g.condExpr(d-1), g.genBool(d-1), g.genBool(d-1))
	case x < 91:
		if g.pct(50) {
			n = nCall("can", g.failing(d-1))
		} else {
			n = nCall("can", g.genPrim(d-1))
		}
	case x < 95: // bool strings convert
		s := withTy(nStr([]string{"true", "false"}[g.pick(2)]), tStr)
		if g.pct(30) {
			s = withTy(nVar("s3"), tStr)
		}
		if g.pct(50) {
			n = nBin([]string{"&&", "||"}[g.pick(2)], s, g.genBool(d-1))
		} else {
			n = nUn("!", s)
		}
	case x < 97:
		n = g.tryOf(d, g.genBool)
	default:
		// cmp chained through equality: (a < b) == (c >= d)
		n = nBin(eqOps[g.pick(2)], nBin(cmpOps[g.pick(4)], g.genNum(d-1), g.genNum(d-1)), g.genBool(d-1))
	}
	return withTy(n, tBool)
}

func (g *gen) equality(d int) *Node {
	op := eqOps[g.pick(2)]
	switch x := g.pick(20); {
	case x < 6:
		return nBin(op, g.genNum(d-1), g.genNum(d-1))
	case x < 9:
		return nBin(op, g.genStr(d-1), g.genStr(d-1))
	case x < 11:
		return nBin(op, g.genBool(d-1), g.genBool(d-1))
	case x < 13: // across kinds: never equal
		return nBin(op, g.genPrim(d-1), g.genPrim(d-1))
	case x < 16: // null tests
		var l *Node
		switch g.pick(4) {
		case 0:
			l = nVar("z")
		case 1:
			l = nVar("zd")
		case 2:
			l = nAttr(nVar("ob"), "opt")
		default:
			l = g.genPrim(d - 1)
		}
		if g.pct(50) {
			return nBin(op, l, nNull())
		}
		return nBin(op, nNull(), l)
	default: // constructors of primitives compare structurally
		a := g.pureCtor(d - 1)
		b := a.clone()
		if g.pct(50) {
			b = g.pureCtor(d - 1)
		} else if g.pct(50) {
			// same values, other spelling of the numbers
			b.walk(func(m *Node, _ int) {
				if m.K == NNum && m.Num.IsInt() && !strings.ContainsAny(m.Text, ".eE") && g.pct(50) {
					m.Text += ".0"
				}
			}, 0)
		}
		return nBin(op, a, b)
	}
}

func (g *gen) pureCtor(d int) *Node {
	if g.pct(60) {
		n := nTuple()
		for i, k := 0, g.pick(4); i < k; i++ {
			if g.pct(15) && d > 0 {
				n.A = append(n.A, g.pureCtor(d-1))
			} else {
				n.A = append(n.A, g.primLit())
			}
		}
		return n
	}
	n := &Node{K: NObject}
	used := map[string]bool{}
	for i, k := 0, g.pick(3); i < k; i++ {
		key := keyPool[g.pick(len(keyPool))]
		if used[key] {
			continue
		}
		used[key] = true
		n.Items = append(n.Items, ObjItem{Style: KeyIdent, Name: key, Val: g.primLit()})
	}
	return n
}

func (g *gen) primLit() *Node {
	switch g.pick(3) {
	case 0:
		return withTy(nNum([]string{"0", "1", "2", "3", "1.5"}[g.pick(5)]), tNum)
	case 1:
		return withTy(nStr([]string{"a", "b", "1", ""}[g.pick(4)]), tStr)
	}
	return withTy(nBool(g.pct(50)), tBool)
}

func (g *gen) strLit() *Node { return withTy(nStr(g.litText(true, 3)), tStr) }

func (g *gen) strLeaf() *Node {
	if len(g.scope) > 0 && g.pct(50) {
		if n := g.scopeVar(kindIs(KStr)); n != nil {
			return n
		}
	}
	switch x := g.pick(10); {
	case x < 4:
		return g.strLit()
	case x < 8:
		return withTy(nVar([]string{"s0", "s1", "s2", "s3"}[g.pick(4)]), tStr)
	default:
		if n := g.pathOf(kindIs(KStr)); n != nil {
			return n
		}
		return g.strLit()
	}
}

func (g *gen) genStr(d int) *Node {
	if g.leafOnly(d) {
		return g.strLeaf()
	}
	var n *Node
	switch x := g.pick(100); {
	case x < 12:
		return g.strLeaf()
	case x < 57:
		n = g.template(d, g.tplForm())
	case x < 67:
		if g.pct(70) {
			n = nCall("upper", g.genStr(d-1))
		} else {
			n = nCall("upper", g.genPrim(d-1))
		}
	case x < 73:
		n = nCall("wrap", g.genPrim(d-1))
		for g.pct(50) && len(n.A) < 4 {
			n.A = append(n.A, g.genPrim(d-1))
		}
	case x < 80:
		n = nCond(g.condExpr(d-1), g.genStr(d-1), g.genStr(d-1))
	case x < 86:
		n = g.tryOf(d, g.genStr)
	case x < 94:
		if n = g.pathOf(kindIs(KStr)); n == nil {
			n = g.strLit()
		}
	default:
		// first key of an object built by a for expression, etc.
		n = nIndex(g.forOver(d, false, tStr), nNum("0"))
	}
	return withTy(n, tStr)
}

func (g *gen) genPrim(d int) *Node {
	switch g.pick(3) {
	case 0:
		return g.genNum(d)
	case 1:
		return g.genStr(d)
	}
	return g.genBool(d)
}

// genOf: an expression of (about) the given static type, preferring iterator variables.
func (g *gen) genOf(t *Ty, d int) *Node {
	switch t.K {
	case KNum:
		return g.genNum(d)
	case KStr:
		return g.genStr(d)
	case KBool:
		return g.genBool(d)
	}
	return g.genPrim(d)
}

// ---- sequences and mappings ----

func (g *gen) genSeq(d int) *Node {
	g.budget--
	leaf := d <= 0 || g.budget <= 0
	x := g.pick(100)
	switch {
	case x < 30 || leaf:
		if len(g.scope) > 0 && g.pct(30) {
			if n := g.scopeVar((*Ty).isSeq); n != nil {
				return n
			}
		}
		if n := g.pathOf((*Ty).isSeq); n != nil {
			return n
		}
		return withTy(nVar("ln"), tyOf(g.env["ln"]))
	case x < 55:
		n := nTuple()
		t := &Ty{K: KTuple}
		for i, k := 0, g.pick(5); i < k; i++ {
			var e *Node
			switch y := g.pick(10); {
			case y < 7:
				e = g.genPrim(d - 1)
			case y < 8:
				e = withTy(nNull(), tNull)
			case y < 9:
				e = g.genSeq(d - 1)
			default:
				e = g.genMap(d - 1)
			}
			n.A = append(n.A, e)
			t.Elems = append(t.Elems, orAny(e.ty))
		}
		t.Len = len(n.A)
		return withTy(n, t)
	case x < 75:
		return g.forOver(d, false, nil)
	case x < 93:
		return g.splat(d)
	case x < 97:
		a, b := g.seqOfNum(d-1), g.seqOfNum(d-1)
		return withTy(nCond(g.condExpr(d-1), a, b), &Ty{K: KTuple, Len: -1, Elem: tNum})
	default:
		s := g.genSeq(d - 1)
		return withTy(g.tryOf(d, func(int) *Node { return s }), s.ty)
	}
}

func orAny(t *Ty) *Ty {
	if t == nil {
		return tAny
	}
	return t
}

func (g *gen) genMap(d int) *Node {
	g.budget--
	leaf := d <= 0 || g.budget <= 0
	x := g.pick(100)
	switch {
	case x < 35 || leaf:
		if len(g.scope) > 0 && g.pct(30) {
			if n := g.scopeVar((*Ty).isMapping); n != nil {
				return n
			}
		}
		if n := g.pathOf((*Ty).isMapping); n != nil {
			return n
		}
		return withTy(nVar("mn"), tyOf(g.env["mn"]))
	case x < 70:
		return g.objectCtor(d)
	default:
		return g.forOver(d, true, nil)
	}
}

func (g *gen) objectCtor(d int) *Node {
	n := &Node{K: NObject}
	t := &Ty{K: KObj, Attrs: map[string]*Ty{}}
	used := map[string]bool{}
	for i, k := 0, g.pick(4); i < k; i++ {
		key := keyPool[g.pick(len(keyPool))]
		if used[key] {
			continue
		}
		used[key] = true
		var v *Node
		switch y := g.pick(10); {
		case y < 7:
			v = g.genPrim(d - 1)
		case y < 8:
			v = withTy(nNull(), tNull)
		case y < 9:
			v = g.genSeq(d - 1)
		default:
			v = g.genMap(d - 1)
		}
		it := ObjItem{Val: v, Colon: g.pct(20)}
		switch y := g.pick(10); {
		case y < 5:
			it.Style, it.Name = KeyIdent, key
			if g.pct(30) {
				// a bare identifier is a literal key even when a variable of that name exists
				nm := []string{"s0", "n1", "ls", "k1"}[g.pick(4)]
				if len(g.scope) > 0 && g.pct(60) {
					nm = g.scope[g.pick(len(g.scope))].name
				}
				if !used[nm] {
					delete(used, key)
					key = nm
					used[key] = true
					it.Name = key
				}
			}
		case y < 8:
			it.Style, it.Key = KeyQuoted, nStr(key)
		default:
			// computed key: ("k" prefix) built by a template or an expression in parentheses
			it.Style = KeyParen
			if g.pct(50) {
				it.Key = nStr(key)
			} else {
				it.Key = &Node{K: NTemplate, Form: TQuoted, Parts: []*TPart{{K: TLit, S: key[:1]}, {K: TInterp, E: nStr(key[1:])}}}
			}
		}
		n.Items = append(n.Items, it)
		t.Attrs[key] = orAny(v.ty)
	}
	// number / bool keys convert to string
	if g.pct(10) && !used["7"] {
		n.Items = append(n.Items, ObjItem{Style: KeyParen, Key: nBin("+", nNum("3"), nNum("4")), Val: g.genPrim(d - 1)})
		t.Attrs["7"] = tAny
	}
	return withTy(n, t)
}

var iterNames = []string{"v", "k", "i", "x", "e", "it", "idx", "val", "w"}

func (g *gen) freshNames(two bool) (string, string) {
	a := iterNames[g.pick(len(iterNames))]
	if !two {
		return "", a
	}
	b := iterNames[g.pick(len(iterNames))]
	for b == a {
		b = iterNames[g.pick(len(iterNames))]
	}
	return a, b
}

// collection for iteration: node, key type, value type
func (g *gen) iterSource(d int) (*Node, *Ty, *Ty) {
	var c *Node
	if g.pct(65) {
		c = g.genSeq(d - 1)
	} else {
		c = g.genMap(d - 1)
	}
	t := c.ty
	if t == nil {
		return c, tAny, tAny
	}
	kt := tNum
	if t.isMapping() {
		kt = tStr
	}
	return c, kt, t.elemTy()
}

// forOver builds a for expression. want (optional) asks for a tuple form whose elements
// have that primitive type.
func (g *gen) forOver(d int, obj bool, want *Ty) *Node {
	coll, kt, vt := g.iterSource(d)
	two := g.pct(55)
	kv, vv := g.freshNames(two)
	n := &Node{K: NFor, ObjForm: obj, KeyVar: kv, ValVar: vv, Coll: coll}
	save := len(g.scope)
	if two {
		g.scope = append(g.scope, svar{kv, kt})
	}
	g.scope = append(g.scope, svar{vv, vt})
	defer func() { g.scope = g.scope[:save] }()

	if g.pct(40) {
		n.CondE = g.condExpr(d - 1)
	}
	body := func() *Node {
		if want != nil {
			return g.genOf(want, d-1)
		}
		switch y := g.pick(10); {
		case y < 2:
			return withTy(nVar(vv), vt)
		case y < 7:
			return g.genPrim(d - 1)
		case y < 8 && two:
			return nTuple(withTy(nVar(kv), kt), withTy(nVar(vv), vt))
		case y < 9:
			return g.genSeq(d - 1)
		default:
			return g.genMap(d - 1)
		}
	}
	if !obj {
		n.ValE = body()
		return withTy(n, &Ty{K: KTuple, Len: -1, Elem: orAny(n.ValE.ty)})
	}
	// object form: key expression
	uniqueKey := two
	switch y := g.pick(10); {
	case y < 4 && two:
		n.KeyE = withTy(nVar(kv), kt)
	case y < 6 && two:
		n.KeyE = &Node{K: NTemplate, Form: TQuoted, Parts: []*TPart{{K: TLit, S: "k"}, {K: TInterp, E: nVar(kv)}}}
	case y < 8:
		uniqueKey = false
		if vt.isPrim() {
			n.KeyE = withTy(nVar(vv), vt)
		} else {
			n.KeyE = nStr("k")
		}
	default:
		uniqueKey = false
		if two && kt == tNum {
			n.KeyE = nCond(nBin("==", nBin("%", nVar(kv), nNum("2")), nNum("0")), nStr("even"), nStr("odd"))
		} else {
			n.KeyE = g.genStr(d - 1)
		}
	}
	n.ValE = body()
	if uniqueKey {
		n.Group = g.pct(15)
	} else {
		n.Group = g.pct(85)
	}
	return withTy(n, &Ty{K: KObj, Attrs: map[string]*Ty{}})
}

func (g *gen) splat(d int) *Node {
	full := g.pct(55)
	mk := func(src *Node, steps ...Step) *Node {
		return withTy(&Node{K: NSplat, Full: full, A: []*Node{src}, Steps: steps}, &Ty{K: KTuple, Len: -1, Elem: tAny})
	}
	v := func(name string) *Node { return withTy(nVar(name), tyOf(g.env[name])) }
	switch x := g.pick(16); {
	case x < 3:
		at := []string{"a", "s", "l"}[g.pick(3)]
		return mk(v("lo"), Step{Attr: at})
	case x < 4:
		return mk(v("lo"))
	case x < 5:
		if full {
			return mk(v("lo"), Step{Attr: "l"}, Step{Key: nNum("0")})
		}
		// attribute-only splat: the index applies to the whole result
		return withTy(nIndex(mk(v("lo"), Step{Attr: "l"}), nNum("0")), tyOf(g.env["ln"]))
	case x < 6:
		return mk(v("to"), Step{Attr: "a"})
	case x < 8:
		// non-sequence source: one-element tuple
		switch g.pick(4) {
		case 0:
			return mk(v("ob"), Step{Attr: "name"})
		case 1:
			return mk(v("ob"), Step{Attr: "in"}, Step{Attr: "x"})
		case 2:
			return mk(g.genPrim(d - 1))
		default:
			return mk(v("mn"))
		}
	case x < 10:
		// null source: empty tuple
		if g.pct(50) {
			return mk(v([]string{"z", "zd"}[g.pick(2)]))
		}
		return mk(v([]string{"z", "zd"}[g.pick(2)]), Step{Attr: "a"})
	case x < 11:
		return mk(v([]string{"ln", "ls", "tp", "le"}[g.pick(4)]))
	case x < 12:
		if full {
			return mk(v("ll"), Step{Key: nNum("0")})
		}
		return mk(v("ll"))
	case x < 14:
		// constructor source
		src := nTuple()
		for i, k := 0, 1+g.pick(3); i < k; i++ {
			src.A = append(src.A, &Node{K: NObject, Items: []ObjItem{{Style: KeyIdent, Name: "a", Val: g.genPrim(d - 1)}}})
		}
		return mk(src, Step{Attr: "a"})
	case x < 15:
		return mk(g.genSeq(d - 1))
	default:
		// splat of a splat result
		inner := mk(v("lo"), Step{Attr: "l"})
		return mk(inner)
	}
}

// ---- templates ----

func (g *gen) tplForm() TForm {
	if g.inTpl > 0 {
		return TQuoted // no heredoc inside a template sequence
	}
	switch x := g.pick(10); {
	case x < 6:
		return TQuoted
	case x < 8:
		return THeredoc
	default:
		return THeredocFlush
	}
}

var words = []string{"foo", "bar", "baz", "lorem", "x", "Hello", "World", "a", "é", "日本", "k=v", "a.b", "(p)", "[q]", "{r", "s}", "#h", "//", "/*", "~", "1", "07"}
var spaces = []string{" ", " ", "  ", "\t", "\n", "\n", " \n", "\n  ", " \n \n  ", "   "}
var specials = []string{`"`, `\`, `\n`, "$", "%", "${", "%{", "$$", "%%", "$ {", "\r"}

// litText builds literal template text. quoted: all characters are possible (the printer
// escapes); otherwise (heredoc / bare) no carriage returns.
func (g *gen) litText(quoted bool, maxTok int) string {
	var sb strings.Builder
	for i, k := 0, 1+g.pick(maxTok); i < k; i++ {
		switch x := g.pick(10); {
		case x < 5:
			sb.WriteString(words[g.pick(len(words))])
		case x < 8:
			sb.WriteString(spaces[g.pick(len(spaces))])
		default:
			s := specials[g.pick(len(specials))]
			if s == "\r" && !quoted {
				s = " "
			}
			if !quoted && strings.ContainsAny(s, "$%") && g.pct(60) {
				s = words[g.pick(len(words))] // fewer $/% in heredocs: they exclude strip cases
			}
			sb.WriteString(s)
		}
	}
	return sanitizeLit(sb.String())
}

// sanitizeLit keeps literal text inside the part of the escape rules that is unambiguous:
// a "$" or "%" is never directly followed by another "$"/"%" that precedes a "{", and the
// text never ends in "$" or "%" (the next part could start with "{" or be a sequence).
func sanitizeLit(s string) string {
	b := []byte(s)
	var out []byte
	isD := func(c byte) bool { return c == '$' || c == '%' }
	for i := 0; i < len(b); i++ {
		c := b[i]
		out = append(out, c)
		if isD(c) && i+1 < len(b) && isD(b[i+1]) {
			j := i + 1
			for j < len(b) && isD(b[j]) {
				j++
			}
			if j < len(b) && b[j] == '{' {
				out = append(out, '_') // "$${" as literal text: which "$" escapes is not defined
			}
		}
	}
	if n := len(out); n > 0 && isD(out[n-1]) {
		out = append(out, '.')
	}
	return string(out)
}

func (g *gen) strips(flush bool) [2]bool {
	if flush {
		return [2]bool{}
	}
	return [2]bool{g.pct(22), g.pct(22)}
}

func (g *gen) template(d int, form TForm) *Node {
	g.inTpl++
	defer func() { g.inTpl-- }()
	n := &Node{K: NTemplate, Form: form, Marker: []string{"EOT", "END", "TPL_1"}[g.pick(3)]}
	if form == THeredocFlush {
		n.Parts = g.flushLines(d, 0)
		n.EndInd = g.pick(5)
	} else {
		n.Parts = g.tparts(d, form, 0)
		if form == THeredoc {
			n.Parts = append(n.Parts, &TPart{K: TLit, S: "\n"})
			if g.pct(15) {
				n.EndInd = g.pick(4)
			}
		}
	}
	n.Parts = normParts(n.Parts)
	if form == TQuoted && len(n.Parts) == 1 && n.Parts[0].K == TInterp && g.pct(80) {
		// keep it a string: a lone interpolation would be the value itself
		n.Parts = append(n.Parts, &TPart{K: TLit, S: words[g.pick(3)]})
	}
	return withTy(n, tStr)
}

func (g *gen) tparts(d int, form TForm, nest int) []*TPart {
	quoted := form == TQuoted
	var ps []*TPart
	for i, k := 0, 1+g.pick(5); i < k; i++ {
		g.budget--
		x := g.pick(100)
		switch {
		case x < 40 || g.budget <= 0:
			ps = append(ps, &TPart{K: TLit, S: g.litText(quoted, 4)})
		case x < 72:
			ps = append(ps, &TPart{K: TInterp, E: g.genPrim(d - 1), Open: g.strips(false)})
		case x < 86 && nest < 2:
			p := &TPart{K: TIf, E: g.condExpr(d - 1), Open: g.strips(false), Mid: g.strips(false), Close: g.strips(false)}
			p.Then = g.tparts(d-1, form, nest+1)
			if g.pct(55) {
				p.HasElse = true
				p.Else = g.tparts(d-1, form, nest+1)
			}
			ps = append(ps, p)
		case nest < 2:
			ps = append(ps, g.tfor(d, func() []*TPart { return g.tparts(d-1, form, nest+1) }, false))
		default:
			ps = append(ps, &TPart{K: TLit, S: g.litText(quoted, 3)})
		}
		// whitespace next to sequences makes strip markers observable
		if g.pct(35) {
			ps = append(ps, &TPart{K: TLit, S: spaces[g.pick(len(spaces))]})
		}
	}
	return ps
}

func (g *gen) tfor(d int, body func() []*TPart, flush bool) *TPart {
	coll, kt, vt := g.iterSource(d)
	two := g.pct(45)
	kv, vv := g.freshNames(two)
	p := &TPart{K: TFor, E: coll, KeyVar: kv, ValVar: vv, Open: g.strips(flush), Close: g.strips(flush)}
	save := len(g.scope)
	if two {
		g.scope = append(g.scope, svar{kv, kt})
	}
	g.scope = append(g.scope, svar{vv, vt})
	p.Then = body()
	// make sure the iterator is used
	if vt.isPrim() && g.pct(70) {
		p.Then = append(p.Then, &TPart{K: TInterp, E: nVar(vv), Open: g.strips(flush)})
	}
	if two && g.pct(50) {
		p.Then = append([]*TPart{{K: TInterp, E: nVar(kv), Open: g.strips(flush)}, {K: TLit, S: ":"}}, p.Then...)
	}
	g.scope = g.scope[:save]
	return p
}

// flushLines builds the body of a <<- heredoc line by line: every line starts with some
// spaces followed by a non-blank (a word, an interpolation or a directive).
func (g *gen) flushLines(d int, nest int) []*TPart {
	var ps []*TPart
	base := g.pick(4) * 2
	for i, k := 0, 1+g.pick(4); i < k; i++ {
		g.budget--
		ind := strings.Repeat(" ", base+g.pick(5))
		x := g.pick(100)
		switch {
		case x < 60 || nest >= 2 || g.budget <= 0:
			ps = append(ps, &TPart{K: TLit, S: ind})
			ps = append(ps, g.inlineItems(d)...)
			ps = append(ps, &TPart{K: TLit, S: "\n"})
		case x < 82:
			p := &TPart{K: TIf, E: g.condExpr(d - 1)}
			ps = append(ps, &TPart{K: TLit, S: ind}, p)
			p.Then = append([]*TPart{{K: TLit, S: "\n"}}, g.flushLines(d-1, nest+1)...)
			p.Then = append(p.Then, &TPart{K: TLit, S: strings.Repeat(" ", base+g.pick(5))})
			if g.pct(50) {
				p.HasElse = true
				p.Else = append([]*TPart{{K: TLit, S: "\n"}}, g.flushLines(d-1, nest+1)...)
				p.Else = append(p.Else, &TPart{K: TLit, S: strings.Repeat(" ", base+g.pick(5))})
			}
			ps = append(ps, &TPart{K: TLit, S: "\n"})
		default:
			p := g.tfor(d, func() []*TPart {
				b := append([]*TPart{{K: TLit, S: "\n"}}, g.flushLines(d-1, nest+1)...)
				return append(b, &TPart{K: TLit, S: strings.Repeat(" ", base+g.pick(5)) + "-"})
			}, true)
			ps = append(ps, &TPart{K: TLit, S: ind}, p, &TPart{K: TLit, S: "\n"})
		}
	}
	return ps
}

func (g *gen) inlineItems(d int) []*TPart {
	var ps []*TPart
	for i, k := 0, 1+g.pick(3); i < k; i++ {
		if g.pct(55) {
			w := words[g.pick(len(words))]
			if i > 0 {
				w = " " + w
			}
			ps = append(ps, &TPart{K: TLit, S: sanitizeLit(w)})
		} else {
			ps = append(ps, &TPart{K: TInterp, E: g.genPrim(d - 1)})
		}
	}
	return ps
}

// genRoot: a whole case. mode "expr" is parsed with ParseExpression, "template" with
// ParseTemplate.
func (g *gen) genRoot() (*Node, string) {
	d := 1 + g.pick(5)
	g.budget = 6 + g.pick(40)
	if g.pct(14) {
		g.inTpl++
		n := &Node{K: NTemplate, Form: TBare}
		n.Parts = normParts(g.tparts(d, TBare, 0))
		g.inTpl--
		return withTy(n, tStr), "template"
	}
	switch x := g.pick(100); {
	case x < 25:
		return g.genNum(d), "expr"
	case x < 42:
		return g.genBool(d), "expr"
	case x < 70:
		return g.genStr(d), "expr"
	case x < 86:
		return g.genSeq(d), "expr"
	default:
		return g.genMap(d), "expr"
	}
}
