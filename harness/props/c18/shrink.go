package c18

// Deterministic witness minimisation over the check's own tree: hoist subtrees, replace
// subtrees by their children or by small literals, delete list elements / template parts /
// strip markers / filters, shorten literal text. A candidate is kept when it still fails in
// the same class.

type partList struct {
	get func() []*TPart
	set func([]*TPart)
}

func partLists(n *Node) []partList {
	var out []partList
	var rec func(get func() []*TPart, set func([]*TPart))
	rec = func(get func() []*TPart, set func([]*TPart)) {
		out = append(out, partList{get, set})
		for _, p := range get() {
			p := p
			if p.K == TIf || p.K == TFor {
				rec(func() []*TPart { return p.Then }, func(x []*TPart) { p.Then = x })
				if p.HasElse {
					rec(func() []*TPart { return p.Else }, func(x []*TPart) { p.Else = x })
				}
			}
		}
	}
	if n.K == NTemplate {
		rec(func() []*TPart { return n.Parts }, func(x []*TPart) { n.Parts = x })
	}
	return out
}

// localEdits returns the number of deletion-style edits available on a node; applyEdit
// performs edit i on the node (of a cloned tree). Returns false if it was a no-op.
func localEdits(n *Node) int {
	c := len(n.A) + len(n.Items) + len(n.Steps) + 3
	for _, pl := range partLists(n) {
		c += len(pl.get()) * 9
	}
	if n.K == NStr {
		c += 3
	}
	return c
}

func applyEdit(n *Node, i int) bool {
	if i < len(n.A) {
		switch n.K {
		case NTuple, NCall:
			n.A = append(n.A[:i:i], n.A[i+1:]...)
			if n.K == NCall && i == len(n.A) {
				n.Expand = false
			}
			return true
		}
		return false
	}
	i -= len(n.A)
	if i < len(n.Items) {
		n.Items = append(n.Items[:i:i], n.Items[i+1:]...)
		return true
	}
	i -= len(n.Items)
	if i < len(n.Steps) {
		n.Steps = append(n.Steps[:i:i], n.Steps[i+1:]...)
		return true
	}
	i -= len(n.Steps)
	switch i {
	case 0:
		if n.CondE != nil {
			n.CondE = nil
			return true
		}
		return false
	case 1:
		if n.KeyVar != "" && n.K == NFor {
			// only if unused
			used := false
			for _, s := range []*Node{n.KeyE, n.ValE, n.CondE} {
				if s != nil {
					s.walk(func(m *Node, _ int) {
						if m.K == NVar && m.S == n.KeyVar {
							used = true
						}
					}, 0)
				}
			}
			if !used {
				n.KeyVar = ""
				return true
			}
		}
		return false
	case 2:
		if n.K == NTemplate && n.EndInd > 0 {
			n.EndInd = 0
			return true
		}
		return false
	}
	i -= 3
	for _, pl := range partLists(n) {
		ps := pl.get()
		if i < len(ps)*9 {
			k, op := i/9, i%9
			p := ps[k]
			switch op {
			case 0: // delete the part
				pl.set(append(append([]*TPart{}, ps[:k]...), ps[k+1:]...))
				n.Parts = normParts(n.Parts)
				return true
			case 1, 2, 3, 4, 5, 6:
				flags := []*bool{&p.Open[0], &p.Open[1], &p.Mid[0], &p.Mid[1], &p.Close[0], &p.Close[1]}
				f := flags[op-1]
				if p.K != TLit && *f {
					*f = false
					return true
				}
				return false
			case 7:
				if p.K == TLit && len(p.S) > 1 {
					p.S = p.S[:len(p.S)/2]
					return true
				}
				if p.K == TIf && p.HasElse {
					p.HasElse, p.Else = false, nil
					return true
				}
				return false
			default:
				if p.K == TLit && len(p.S) > 1 {
					p.S = p.S[(len(p.S)+1)/2:]
					return true
				}
				if (p.K == TIf || p.K == TFor) && len(p.Then) > 0 {
					// replace the directive by its body
					pl.set(append(append(append([]*TPart{}, ps[:k]...), p.Then...), ps[k+1:]...))
					n.Parts = normParts(n.Parts)
					return true
				}
				return false
			}
		}
		i -= len(ps) * 9
	}
	if n.K == NStr {
		switch i {
		case 0:
			if len(n.S) > 1 {
				n.S = n.S[:len(n.S)/2]
				return true
			}
		case 1:
			if len(n.S) > 1 {
				n.S = n.S[(len(n.S)+1)/2:]
				return true
			}
		case 2:
			if n.S != "" && n.S != "a" {
				n.S = "a"
				return true
			}
		}
	}
	return false
}

func allNodes(root *Node) []*Node {
	var out []*Node
	root.walk(func(n *Node, _ int) { out = append(out, n) }, 0)
	return out
}

func shrinkTree(root *Node, fails func(*Node) bool, budget int) *Node {
	try := func(c *Node) bool {
		if budget <= 0 {
			return false
		}
		budget--
		return fails(c)
	}
	lits := []func() *Node{func() *Node { return nNum("1") }, func() *Node { return nStr("a") }, func() *Node { return nBool(true) }}
	for progress := true; progress && budget > 0; {
		progress = false
		// 1. hoist any descendant to the root (largest reduction first: shallow ones last)
		nodes := allNodes(root)
		for k := len(nodes) - 1; k >= 1 && !progress; k-- {
			if nodes[k].K == NNum || nodes[k].K == NVar || nodes[k].K == NBool || nodes[k].K == NNull {
				continue
			}
			if nodes[k].K == NTemplate && nodes[k].Form == TBare {
				continue
			}
			c := nodes[k].clone()
			if root.K == NTemplate && root.Form == TBare {
				continue // a bare template root is parsed differently; keep the mode
			}
			if try(c) {
				root, progress = c, true
			}
		}
		if progress {
			continue
		}
		// 2. replace a subtree by one of its children or by a literal
		ns := len(allSlots(&root))
		for k := 1; k < ns && !progress; k++ {
			cur := *allSlots(&root)[k]
			kids := len(cur.slots())
			for j := 0; j < kids+len(lits) && !progress; j++ {
				c := root.clone()
				s := allSlots(&c)[k]
				var repl *Node
				if j < kids {
					repl = *((*s).slots()[j])
				} else {
					if cur.K == NNum || cur.K == NStr || cur.K == NBool || cur.K == NNull {
						continue
					}
					repl = lits[j-kids]()
				}
				*s = repl
				if try(c) {
					root, progress = c, true
				}
			}
		}
		if progress {
			continue
		}
		// 3. local deletions
		nn := len(allNodes(root))
		for k := 0; k < nn && !progress; k++ {
			ne := localEdits(allNodes(root)[k])
			for e := 0; e < ne && !progress; e++ {
				c := root.clone()
				if !applyEdit(allNodes(c)[k], e) {
					continue
				}
				if try(c) {
					root, progress = c, true
				}
			}
		}
	}
	return root
}
