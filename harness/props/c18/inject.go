package c18

// One-fault variants: a well-typed tree receives exactly one ill-typed edit. Whether the
// edited tree is an error is still decided by the reference evaluator (the fault may sit
// under try()/can(), which turns it into a value).

func allSlots(root **Node) []**Node {
	out := []**Node{root}
	var rec func(n *Node)
	rec = func(n *Node) {
		for _, s := range n.slots() {
			out = append(out, s)
			rec(*s)
		}
	}
	rec(*root)
	return out
}

func fault(n *Node, kind string) *Node { n.Fault = kind; return n }

func (g *gen) wrongFor(op string) *Node {
	switch op {
	case "&&", "||", "!":
		return []*Node{nNum("5"), nStr("abc"), nTuple(nBool(true)), nNull()}[g.pick(4)]
	}
	return []*Node{nBool(true), nStr("abc"), nTuple(nNum("1")), &Node{K: NObject}, nNull()}[g.pick(5)]
}

// inject edits the tree in place; returns the fault kind or "".
func (g *gen) inject(root **Node) string {
	slots := allSlots(root)
	if (*root).K == NTemplate && (*root).Form == TBare {
		if len(slots) == 1 {
			return ""
		}
		slots = slots[1:] // the root of a ParseTemplate case stays a template
	}
	for attempt := 0; attempt < 12; attempt++ {
		s := slots[g.pick(len(slots))]
		t := *s
		kind := g.pick(11)
		if kind < 2 && !g.pct(30) {
			continue // the two always-applicable faults would otherwise dominate
		}
		switch kind {
		case 0:
			*s = fault(nVar([]string{"undefined_x", "nope", "N0", "lnn"}[g.pick(4)]), "unknown-var")
			return "unknown-var"
		case 1:
			*s = fault(nCall([]string{"nofunc", "Upper", "len"}[g.pick(3)], t), "unknown-func")
			return "unknown-func"
		case 2:
			if t.ty.isMapping() {
				if g.pct(60) {
					*s = fault(nAttr(t, "zz_missing"), "missing-attr")
				} else {
					*s = fault(nIndex(t, nStr("zz_missing")), "missing-attr")
				}
				return "missing-attr"
			}
		case 3:
			if t.ty.isSeq() && t.ty.Len >= 0 {
				var k *Node
				switch g.pick(4) {
				case 0:
					k = nNum(itoa(t.ty.Len))
				case 1:
					k = nUn("-", nNum("1"))
				case 2:
					k = nNum("0.5")
				default:
					k = nStr(itoa(t.ty.Len + 1))
				}
				*s = fault(nIndex(t, k), "index-range")
				return "index-range"
			}
		case 4:
			if t.K == NBinary && t.Op != "==" && t.Op != "!=" {
				t.A[g.pick(2)] = fault(g.wrongFor(t.Op), "operand-kind")
				return "operand-kind"
			}
			if t.K == NUnary {
				t.A[0] = fault(g.wrongFor(t.Op), "operand-kind")
				return "operand-kind"
			}
		case 5:
			if t.ty.isPrim() || (t.ty != nil && t.ty.K == KNull) {
				if g.pct(50) {
					*s = fault(nAttr(t, "a"), "not-indexable")
				} else {
					*s = fault(nIndex(t, nNum("0")), "not-indexable")
				}
				return "not-indexable"
			}
		case 6:
			if t.K == NCond {
				t.A[0] = fault([]*Node{nNum("1"), nStr("abc"), nNull(), nTuple()}[g.pick(4)], "cond-kind")
				return "cond-kind"
			}
		case 7:
			if t.K == NFor {
				t.Coll = fault([]*Node{nNum("3"), nStr("abc"), nNull(), nBool(true)}[g.pick(4)], "not-iterable")
				return "not-iterable"
			}
		case 8:
			if t.K == NCall && t.S != "try" && t.S != "can" && !t.Expand {
				switch {
				case (t.S == "upper" || t.S == "size" || t.S == "absd") && g.pct(50):
					t.A = append(t.A, nNum("1"))
				case len(t.A) > 0 && (t.S != "add" && t.S != "wrap" || len(t.A) == 1):
					t.A = t.A[:len(t.A)-1]
				default:
					continue
				}
				t.Fault = "arg-count"
				return "arg-count"
			}
		case 9:
			if t.K == NCall && len(t.A) > 0 {
				switch t.S {
				case "upper":
					t.A[0] = fault(nTuple(nStr("a")), "arg-kind")
				case "size":
					t.A[0] = fault(nNum("5"), "arg-kind")
				case "add", "absd":
					t.A[0] = fault([]*Node{nStr("abc"), nBool(true), nNull()}[g.pick(3)], "arg-kind")
				default:
					continue
				}
				return "arg-kind"
			}
		case 10:
			// template directive with an ill-typed condition / collection
			if t.K == NTemplate {
				var cands []*TPart
				walkParts(t.Parts, func(p *TPart) {
					if p.K == TIf || p.K == TFor {
						cands = append(cands, p)
					}
				})
				if len(cands) > 0 {
					p := cands[g.pick(len(cands))]
					if p.K == TIf {
						p.E = fault([]*Node{nNum("1"), nStr("abc"), nNull()}[g.pick(3)], "cond-kind")
						return "cond-kind"
					}
					p.E = fault([]*Node{nNum("1"), nStr("abc"), nNull()}[g.pick(3)], "not-iterable")
					return "not-iterable"
				}
			}
		}
	}
	return ""
}
