package c18

import "strings"

// Template semantics of the reference evaluator.
//
//  * strip markers act on the literal that is adjacent in the source text (the flat
//    sequence literal / ${..} / %{..}), removing its whitespace (spaces, tabs, newlines,
//    carriage returns) on that side, all of it up to the first non-whitespace character;
//  * a "<<-" heredoc removes the smallest indentation found on any source line from every
//    line; analysis is on the source literals, not on interpolated values;
//  * a template that is exactly one interpolation yields the value itself;
//  * otherwise every part is converted to string and concatenated.

type flatItem struct {
	lit  *TPart
	l, r bool
}

func flatten(ps []*TPart, out *[]flatItem) {
	for _, p := range ps {
		switch p.K {
		case TLit:
			*out = append(*out, flatItem{lit: p})
		case TInterp:
			*out = append(*out, flatItem{l: p.Open[0], r: p.Open[1]})
		case TIf:
			*out = append(*out, flatItem{l: p.Open[0], r: p.Open[1]})
			flatten(p.Then, out)
			if p.HasElse {
				*out = append(*out, flatItem{l: p.Mid[0], r: p.Mid[1]})
				flatten(p.Else, out)
			}
			*out = append(*out, flatItem{l: p.Close[0], r: p.Close[1]})
		case TFor:
			*out = append(*out, flatItem{l: p.Open[0], r: p.Open[1]})
			flatten(p.Then, out)
			*out = append(*out, flatItem{l: p.Close[0], r: p.Close[1]})
		}
	}
}

const wsChars = " \t\n\r"

func isWS(c byte) bool { return c == ' ' || c == '\t' || c == '\n' || c == '\r' }

// prepared returns the template's parts after flush-dedent and strip processing.
func (ev *refEval) prepared(n *Node) []*TPart {
	if ps, ok := ev.tcache[n]; ok {
		return ps
	}
	ps := cloneParts(n.Parts)
	var items []flatItem
	flatten(ps, &items)
	if n.Form == THeredocFlush {
		for _, it := range items {
			if it.lit == nil && (it.l || it.r) {
				ood("strip marker inside a <<- heredoc (order of dedent and strip is not defined)")
			}
		}
		dedent(items)
	}
	multiline := n.Form != TQuoted
	for i, it := range items {
		if it.lit != nil {
			continue
		}
		if multiline {
			for _, j := range []int{i - 1, i + 1} {
				if (j == i-1 && it.l || j == i+1 && it.r) && j >= 0 && j < len(items) && items[j].lit != nil &&
					strings.ContainsAny(items[j].lit.S, "$%") {
					ood("strip marker next to a heredoc/bare-template literal containing $ or % (scanner token boundaries)")
				}
			}
		}
		if it.l && i > 0 && items[i-1].lit != nil {
			p := items[i-1].lit
			if ev.lineStrip && multiline {
				// defect model: only the last source line of the literal is trimmed
				body := p.S
				if strings.HasSuffix(body, "\n") {
					body = body[:len(body)-1] // the last line token is the one ending with this newline
				}
				cut := strings.LastIndexByte(body, '\n') + 1
				p.S = p.S[:cut] + strings.TrimRight(p.S[cut:], wsChars)
			} else {
				p.S = strings.TrimRight(p.S, wsChars)
			}
		}
		if it.r && i+1 < len(items) && items[i+1].lit != nil {
			p := items[i+1].lit
			if ev.lineStrip && multiline {
				cut := strings.IndexByte(p.S, '\n') + 1 // first line token incl. its newline
				if cut == 0 {
					cut = len(p.S)
				}
				p.S = strings.TrimLeft(p.S[:cut], wsChars) + p.S[cut:]
			} else {
				p.S = strings.TrimLeft(p.S, wsChars)
			}
		}
	}
	ev.tcache[n] = ps
	return ps
}

// dedent implements the <<- rule on the flat source sequence.
func dedent(items []flatItem) {
	const big = 1 << 30
	min := big
	scan := func(apply bool) {
		atStart := true
		for _, it := range items {
			if it.lit == nil {
				if atStart && !apply {
					min = 0
				}
				atStart = false
				continue
			}
			s := it.lit.S
			var sb strings.Builder
			pos := 0
			for pos < len(s) {
				if atStart {
					j := pos
					for j < len(s) && s[j] == ' ' {
						j++
					}
					if j < len(s) && s[j] == '\n' {
						ood("blank line inside a <<- heredoc")
					}
					if j < len(s) && isWS(s[j]) {
						ood("tab/CR in the indentation of a <<- heredoc")
					}
					if !apply {
						if j-pos < min {
							min = j - pos
						}
					} else {
						pos += min
					}
					atStart = false
				}
				nl := strings.IndexByte(s[pos:], '\n')
				if nl < 0 {
					sb.WriteString(s[pos:])
					pos = len(s)
				} else {
					sb.WriteString(s[pos : pos+nl+1])
					pos += nl + 1
					atStart = true
				}
			}
			if apply {
				it.lit.S = sb.String()
			}
		}
	}
	scan(false)
	if min == big || min == 0 {
		return
	}
	scan(true)
}

func (ev *refEval) template(n *Node, sc *scope) (Val, *refErr) {
	if (n.Form == TQuoted || n.Form == TBare) && len(n.Parts) == 1 && n.Parts[0].K == TInterp {
		return ev.eval(n.Parts[0].E, sc) // single interpolation: the value itself
	}
	s, e := ev.parts(ev.prepared(n), sc)
	if e != nil {
		return Val{}, e
	}
	return vStr(s), nil
}

func (ev *refEval) parts(ps []*TPart, sc *scope) (string, *refErr) {
	var sb strings.Builder
	for _, p := range ps {
		switch p.K {
		case TLit:
			sb.WriteString(p.S)
		case TInterp:
			v, e := ev.eval(p.E, sc)
			if e != nil {
				return "", e
			}
			if v.K == KNull {
				ood("null interpolated into a multi-part template")
			}
			if !v.isPrim() {
				ood("collection interpolated into a multi-part template")
			}
			s, _ := toStr(v)
			sb.WriteString(s)
		case TIf:
			c, e := ev.eval(p.E, sc)
			if e != nil {
				return "", e
			}
			if c.K == KNull {
				return "", errf("null-cond", "null %{if} condition")
			}
			cb, e := toBool(c)
			if e != nil {
				return "", errf("cond-kind", "%{if} condition is not a bool")
			}
			ts, te := ev.parts(p.Then, sc)
			fs, fe := "", (*refErr)(nil)
			if p.HasElse {
				fs, fe = ev.parts(p.Else, sc)
			}
			cs, ce, oe := ts, te, fe
			if !cb {
				cs, ce, oe = fs, fe, te
			}
			if ce != nil {
				return "", ce
			}
			if oe != nil {
				ood("error in the %{if} branch that is not selected")
			}
			sb.WriteString(cs)
		case TFor:
			coll, e := ev.eval(p.E, sc)
			if e != nil {
				return "", e
			}
			pairs, e := iterate(coll)
			if e != nil {
				return "", e
			}
			for _, pr := range pairs {
				s, e := ev.parts(p.Then, bind(sc, p.KeyVar, p.ValVar, pr))
				if e != nil {
					return "", e
				}
				sb.WriteString(s)
			}
		}
	}
	return sb.String(), nil
}
