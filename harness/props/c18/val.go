package c18

import (
	"encoding/json"
	"fmt"
	"math/big"
	"sort"
	"strings"

	"github.com/zclconf/go-cty/cty"
)

// Val is the reference evaluator's own value type. It never holds a cty value.
type Kind uint8

const (
	KNull Kind = iota
	KBool
	KNum
	KStr
	KList  // homogeneous sequence (only from the environment)
	KTuple // sequence built by the language
	KMap   // homogeneous mapping (only from the environment)
	KObj   // mapping built by the language / object from the environment
)

var kindNames = [...]string{"null", "bool", "number", "string", "list", "tuple", "map", "object"}

func (k Kind) String() string { return kindNames[k] }

type Val struct {
	K Kind
	B bool
	N *big.Rat
	S string // string value; for KNull the type tag ("string" or "dyn")
	L []Val
	M map[string]Val
	// Pure: built by constructor syntax from primitives / pure values only; `==` on
	// collections is only defined (for the check) on pure operands.
	Pure bool
	// NZ: a zero that the evaluator's float library may hold as negative zero (result of
	// negating zero or of an operation on a negative / tainted operand). Its conversion to
	// string is outside the checked domain.
	NZ bool
}

func vNull(tag string) Val      { return Val{K: KNull, S: tag} }
func vBool(b bool) Val          { return Val{K: KBool, B: b} }
func vStr(s string) Val         { return Val{K: KStr, S: s} }
func vNum(r *big.Rat) Val       { return Val{K: KNum, N: r} }
func vInt(i int64) Val          { return Val{K: KNum, N: new(big.Rat).SetInt64(i)} }
func vTuple(l []Val) Val        { return Val{K: KTuple, L: l} }
func vObj(m map[string]Val) Val { return Val{K: KObj, M: m} }

func (v Val) isPrim() bool    { return v.K == KBool || v.K == KNum || v.K == KStr }
func (v Val) isSeq() bool     { return v.K == KList || v.K == KTuple }
func (v Val) isMapping() bool { return v.K == KMap || v.K == KObj }

func sortedKeys(m map[string]Val) []string {
	ks := make([]string, 0, len(m))
	for k := range m {
		ks = append(ks, k)
	}
	sort.Strings(ks) // byte-wise lexicographic
	return ks
}

// ---- JSON (witness) encoding: unambiguous and reversible ----

func (v Val) MarshalJSON() ([]byte, error) {
	switch v.K {
	case KNull:
		return json.Marshal(map[string]string{"null": v.S})
	case KBool:
		return json.Marshal(v.B)
	case KNum:
		return json.Marshal(map[string]string{"n": v.N.RatString()})
	case KStr:
		return json.Marshal(v.S)
	case KList:
		return json.Marshal(map[string][]Val{"list": nonNil(v.L)})
	case KTuple:
		return json.Marshal(map[string][]Val{"tuple": nonNil(v.L)})
	case KMap:
		return json.Marshal(map[string]map[string]Val{"map": nonNilM(v.M)})
	case KObj:
		return json.Marshal(map[string]map[string]Val{"obj": nonNilM(v.M)})
	}
	return nil, fmt.Errorf("bad kind")
}

func nonNil(l []Val) []Val {
	if l == nil {
		return []Val{}
	}
	return l
}
func nonNilM(m map[string]Val) map[string]Val {
	if m == nil {
		return map[string]Val{}
	}
	return m
}

func (v *Val) UnmarshalJSON(b []byte) error {
	s := strings.TrimSpace(string(b))
	switch {
	case s == "true":
		*v = vBool(true)
		return nil
	case s == "false":
		*v = vBool(false)
		return nil
	case strings.HasPrefix(s, "\""):
		var str string
		if err := json.Unmarshal(b, &str); err != nil {
			return err
		}
		*v = vStr(str)
		return nil
	case strings.HasPrefix(s, "{"):
		var raw map[string]json.RawMessage
		if err := json.Unmarshal(b, &raw); err != nil {
			return err
		}
		for k, r := range raw {
			switch k {
			case "null":
				var tag string
				json.Unmarshal(r, &tag)
				*v = vNull(tag)
			case "n":
				var t string
				json.Unmarshal(r, &t)
				rat, ok := new(big.Rat).SetString(t)
				if !ok {
					return fmt.Errorf("bad number %q", t)
				}
				*v = vNum(rat)
			case "list", "tuple":
				var l []Val
				if err := json.Unmarshal(r, &l); err != nil {
					return err
				}
				kk := KList
				if k == "tuple" {
					kk = KTuple
				}
				*v = Val{K: kk, L: l}
			case "map", "obj":
				var m map[string]Val
				if err := json.Unmarshal(r, &m); err != nil {
					return err
				}
				kk := KMap
				if k == "obj" {
					kk = KObj
				}
				*v = Val{K: kk, M: m}
			default:
				return fmt.Errorf("bad value tag %q", k)
			}
			return nil
		}
	}
	return fmt.Errorf("bad value json %s", s)
}

// show renders a value for humans (what/expected/observed strings).
func (v Val) show() string {
	switch v.K {
	case KNull:
		return "null"
	case KBool:
		return fmt.Sprint(v.B)
	case KNum:
		return v.N.RatString()
	case KStr:
		return fmt.Sprintf("%q", v.S)
	case KList, KTuple:
		var sb strings.Builder
		if v.K == KList {
			sb.WriteString("list")
		}
		sb.WriteString("[")
		for i, e := range v.L {
			if i > 0 {
				sb.WriteString(", ")
			}
			sb.WriteString(e.show())
		}
		sb.WriteString("]")
		return sb.String()
	default:
		var sb strings.Builder
		if v.K == KMap {
			sb.WriteString("map")
		}
		sb.WriteString("{")
		for i, k := range sortedKeys(v.M) {
			if i > 0 {
				sb.WriteString(", ")
			}
			fmt.Fprintf(&sb, "%q: %s", k, v.M[k].show())
		}
		sb.WriteString("}")
		return sb.String()
	}
}

// ---- comparison of an observed result with the expected one ----
//
// Structural; numbers by exact rational value. list~tuple and map~object are NOT
// distinguished at this point (see exclusions: the spec calls splat results tuples, this
// tree returns a list for a list source - a typing detail with no observable value
// difference).
func sameResult(a, b Val) bool {
	switch {
	case a.K == KNull || b.K == KNull:
		return a.K == b.K
	case a.isSeq() && b.isSeq():
		if len(a.L) != len(b.L) {
			return false
		}
		for i := range a.L {
			if !sameResult(a.L[i], b.L[i]) {
				return false
			}
		}
		return true
	case a.isMapping() && b.isMapping():
		if len(a.M) != len(b.M) {
			return false
		}
		for k, x := range a.M {
			y, ok := b.M[k]
			if !ok || !sameResult(x, y) {
				return false
			}
		}
		return true
	case a.K != b.K:
		return false
	case a.K == KBool:
		return a.B == b.B
	case a.K == KNum:
		return a.N.Cmp(b.N) == 0
	case a.K == KStr:
		return a.S == b.S
	}
	return false
}

// ---- conversion to and from cty (harness boundary only) ----

const numPrec = 512

func ratToCty(r *big.Rat) cty.Value {
	f := new(big.Float).SetPrec(numPrec).SetRat(r) // exact for the dyadic rationals of the environment
	return cty.NumberVal(f)
}

func ctyTypeOf(v Val) cty.Type {
	switch v.K {
	case KNull:
		if v.S == "string" {
			return cty.String
		}
		return cty.DynamicPseudoType
	case KBool:
		return cty.Bool
	case KNum:
		return cty.Number
	case KStr:
		return cty.String
	case KList:
		if len(v.L) == 0 {
			return cty.List(cty.Number)
		}
		return cty.List(ctyTypeOf(v.L[0]))
	case KTuple:
		ts := make([]cty.Type, len(v.L))
		for i, e := range v.L {
			ts[i] = ctyTypeOf(e)
		}
		return cty.Tuple(ts)
	case KMap:
		if len(v.M) == 0 {
			return cty.Map(cty.String)
		}
		for _, k := range sortedKeys(v.M) {
			return cty.Map(ctyTypeOf(v.M[k]))
		}
	case KObj:
		ts := map[string]cty.Type{}
		for k, e := range v.M {
			ts[k] = ctyTypeOf(e)
		}
		return cty.Object(ts)
	}
	return cty.DynamicPseudoType
}

func toCty(v Val) cty.Value {
	switch v.K {
	case KNull:
		return cty.NullVal(ctyTypeOf(v))
	case KBool:
		return cty.BoolVal(v.B)
	case KNum:
		return ratToCty(v.N)
	case KStr:
		return cty.StringVal(v.S)
	case KList:
		if len(v.L) == 0 {
			return cty.ListValEmpty(cty.Number)
		}
		es := make([]cty.Value, len(v.L))
		for i, e := range v.L {
			es[i] = toCty(e)
		}
		return cty.ListVal(es)
	case KTuple:
		es := make([]cty.Value, len(v.L))
		for i, e := range v.L {
			es[i] = toCty(e)
		}
		return cty.TupleVal(es)
	case KMap:
		if len(v.M) == 0 {
			return cty.MapValEmpty(cty.String)
		}
		es := map[string]cty.Value{}
		for k, e := range v.M {
			es[k] = toCty(e)
		}
		return cty.MapVal(es)
	default:
		es := map[string]cty.Value{}
		for k, e := range v.M {
			es[k] = toCty(e)
		}
		return cty.ObjectVal(es)
	}
}

// fromCty converts a result of the real evaluator. ok=false: the value is outside the
// reference's value space (unknown, marked, infinite, capsule, set).
func fromCty(v cty.Value) (Val, string) {
	if v.IsMarked() {
		return Val{}, "marked value"
	}
	if !v.IsKnown() {
		return Val{}, "unknown value"
	}
	ty := v.Type()
	if v.IsNull() {
		return vNull("dyn"), ""
	}
	switch {
	case ty == cty.Bool:
		return vBool(v.True()), ""
	case ty == cty.String:
		return vStr(v.AsString()), ""
	case ty == cty.Number:
		f := v.AsBigFloat()
		if f.IsInf() {
			return Val{}, "infinite number"
		}
		r, _ := f.Rat(nil) // exact
		return vNum(r), ""
	case ty.IsListType() || ty.IsTupleType() || ty.IsSetType():
		if ty.IsSetType() {
			return Val{}, "set value"
		}
		k := KTuple
		if ty.IsListType() {
			k = KList
		}
		out := Val{K: k, L: []Val{}}
		for it := v.ElementIterator(); it.Next(); {
			_, ev := it.Element()
			e, why := fromCty(ev)
			if why != "" {
				return Val{}, why
			}
			out.L = append(out.L, e)
		}
		return out, ""
	case ty.IsMapType() || ty.IsObjectType():
		k := KObj
		if ty.IsMapType() {
			k = KMap
		}
		out := Val{K: k, M: map[string]Val{}}
		for it := v.ElementIterator(); it.Next(); {
			kv, ev := it.Element()
			e, why := fromCty(ev)
			if why != "" {
				return Val{}, why
			}
			out.M[kv.AsString()] = e
		}
		return out, ""
	}
	return Val{}, "value of type " + ty.FriendlyName()
}
