// Package c06 holds the workload and monitor for property C06 (see /verif/DESIGN.md §3).
package c06
