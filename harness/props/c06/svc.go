package c06

import (
	"bytes"
	"crypto/tls"
	"encoding/base64"
	"encoding/json"
	"fmt"
	"time"

	"github.com/gorilla/websocket"

	"verifh/svcclient"
)

func (ch *child) svcFollow(kind, tok string) map[string]any {
	a := ch.agents[0]
	switch kind {
	case "register-agent":
		return map[string]any{"Head": map[string]any{"Type": "RegisterAgent"}, "Body": map[string]any{"Agent": map[string]any{
			"Name": tok, "MagicValue": "0x43303631", "Author": "c06", "Description": "d", "Formats": []any{}, "SupportedOS": []string{"linux"}, "Commands": []any{}, "BuildingConfig": map[string]any{}}}}
	case "listener-add":
		return map[string]any{"Head": map[string]any{"Type": "Listener"}, "Body": map[string]any{"Type": "ListenerAdd", "Listener": map[string]any{"Name": tok, "Agent": "x", "Items": []any{}}}}
	case "exc2":
		return map[string]any{"Head": map[string]any{"Type": "Listener", "RequestID": tok}, "Body": map[string]any{"Type": "ListenerAddExC2", "Name": tok, "Endpoint": tok}}
	case "agent-task":
		return map[string]any{"Head": map[string]any{"Type": "Agent"}, "Body": map[string]any{"Type": "AgentTask", "Agent": map[string]any{"NameID": a.name}, "Task": "Add", "Command": base64.StdEncoding.EncodeToString([]byte(tok))}}
	case "agent-output":
		return map[string]any{"Head": map[string]any{"Type": "Agent"}, "Body": map[string]any{"Type": "AgentOutput", "AgentID": a.name, "Callback": map[string]any{"Type": "Good", "Message": tok, "Output": tok}}}
	case "listener-start":
		return map[string]any{"Head": map[string]any{"Type": "Listener"}, "Body": map[string]any{"Type": "ListenerStart", "Listener": map[string]any{
			"Name": tok, "Protocol": "x", "Host": "127.0.0.1", "PortBind": "1", "Error": "", "Status": "Online", "Info": map[string]any{}}}}
	}
	return map[string]any{}
}

func svcRegisterReply(m svcclient.Msg) (isReply, success bool) {
	if t, _ := m.Head["Type"].(string); t != "Register" {
		return false, false
	}
	s, ok := m.Body["Success"].(bool)
	return ok, s
}

func (ch *child) runSvc(sp *Spec) (restart bool) {
	msg := sp.Msg()
	ch.rec.Cur(sp, "dial", msg)
	S0 := ch.snapshot()
	cl, err := svcclient.Dial(ch.addr, svcEndpoint)
	if err != nil {
		ch.rec.Inconclusive(fmt.Sprintf("case %d: service dial: %v", sp.ID, err))
		return true
	}
	defer cl.Close()
	cl.Name = "c06"
	ch.rec.Cur(sp, "first-message", msg)
	sent := false
	switch sp.Conn {
	case "msg":
		if sp.Binary {
			err = cl.Conn.WriteMessage(websocket.BinaryMessage, msg)
		} else {
			err = cl.SendRaw(msg)
		}
		sent = err == nil
	case "silent":
	case "close-ws":
		cl.Conn.WriteControl(websocket.CloseMessage, websocket.FormatCloseMessage(websocket.CloseNormalClosure, ""), time.Now().Add(5*time.Second))
		cl.Close()
	case "close-tcp":
		if t, ok := cl.Conn.UnderlyingConn().(*tls.Conn); ok {
			t.NetConn().Close()
		}
	case "partial":
		if t, ok := cl.Conn.UnderlyingConn().(*tls.Conn); ok {
			t.Write(partialFrame(msg))
		}
	}
	if sent {
		// a reply or a close
		// a reply or a close (the unchanged code answers or closes at once; a server that
		// does neither is caught by the follow-ups, there is no point in waiting long)
		cl.WaitFor(func(svcclient.Msg) bool { return true }, 8*time.Second)
	}
	ch.rec.Observe("svc_handshakes", 1)
	ch.rec.Observe("expect:svc-"+sp.Expect, 1)
	accepted := false
	for _, m := range cl.Msgs() {
		if is, ok := svcRegisterReply(m); is && ok {
			accepted = true
		}
	}
	if accepted {
		ch.rec.Observe("svc_outcome:accepted", 1)
		if sp.Expect == "reject" {
			ch.rec.Violation("svc:accepted:"+sp.Class, fmt.Sprintf("service endpoint: first message of class %q does not present the service password, yet Register answered Success=true", sp.Class),
				map[string]any{"spec": sp, "message": short(msg)})
		}
		// positive control: an authenticated service connection is dispatched
		tok := ch.newTok("hb")
		if ok, e, got := cl.AddExC2(tok, tok, tok, 20*time.Second); got && ok {
			ch.rec.Observe("svc_authenticated_dispatch_works", 1)
		} else {
			ch.rec.Inconclusive(fmt.Sprintf("case %d: authenticated service connection got no ExC2 reply (got=%v ok=%v err=%s)", sp.ID, got, ok, e))
		}
		cl.Close()
		if err := ch.barrier(nil, ""); err != nil {
			return ch.wedge(sp, "after service control", err)
		}
		ch.aliceScan = ch.alice.Count()
		ch.rec.Done(sp, map[string]any{"class": sp.Class, "outcome": "authenticated"})
		return false
	}
	if sp.Expect == "accept" {
		ch.rec.Violation("svc:rejected-valid-register", "service endpoint: a Register message with the profile's password was not accepted", map[string]any{"spec": sp, "message": short(msg), "replies": len(cl.Msgs())})
	}

	// not authenticated: wait briefly for the server's close, otherwise try to get something dispatched
	var toks []string
	if sent {
		for i := 0; i < 100 && !cl.Closed(); i++ {
			time.Sleep(5 * time.Millisecond)
		}
	}
	if cl.Closed() {
		ch.rec.Observe("svc_outcome:closed", 1)
	} else {
		ch.rec.Observe("svc_outcome:still-open", 1)
	}
	if sent && !cl.Closed() {
		for _, k := range sp.Follow {
			tok := ch.newTok("fu")
			toks = append(toks, tok)
			b, _ := json.Marshal(ch.svcFollow(k, tok))
			ch.rec.Cur(sp, "svc-follow-up:"+k, b)
			if cl.SendRaw(b) == nil {
				ch.rec.Observe("svc_followup:"+k, 1)
			}
		}
		// probe: a request that a dispatching server answers on this very socket
		tok := ch.newTok("fu")
		toks = append(toks, tok)
		b, _ := json.Marshal(ch.svcFollow("exc2", tok))
		ch.rec.Cur(sp, "svc-follow-up:probe-exc2", b)
		cl.SendRaw(b)
		if m, ok := cl.WaitFor(func(m svcclient.Msg) bool { return m.Head["Type"] == "Listener" }, 400*time.Millisecond); ok {
			ch.rec.Violation("svc:dispatch-before-auth", fmt.Sprintf("service endpoint: after a first message of class %q (no password accepted) a ListenerAddExC2 request on the same socket was answered", sp.Class),
				map[string]any{"spec": sp, "reply": short(m.Raw)})
		}
	}
	if err := ch.barrier(nil, ""); err != nil {
		return ch.wedge(sp, "after service case", err)
	}
	// frames: at most one Register reply with Success=false
	replies := 0
	for _, m := range cl.Msgs() {
		if is, ok := svcRegisterReply(m); is && !ok && replies == 0 {
			replies++
			continue
		}
		ch.rec.Violation("svc:leak", fmt.Sprintf("service endpoint: a connection that never presented the password (class %q) received a message other than one Register/Success=false reply", sp.Class),
			map[string]any{"spec": sp, "frame": short(m.Raw)})
	}
	S1 := ch.snapshot()
	if k, what := snapDiff(S0, S1, false); k != "" {
		ch.rec.Violation("svc:state:"+k, fmt.Sprintf("service endpoint: messages on a connection that never presented the password (class %q, follow-ups %v) changed teamserver state: %s", sp.Class, sp.Follow, what),
			map[string]any{"spec": sp, "message": short(msg), "diff": what})
	}
	frames := ch.alice.Frames()
	for ; ch.aliceScan < len(frames); ch.aliceScan++ {
		f := frames[ch.aliceScan]
		for _, t := range toks {
			if bytes.Contains(f.Raw, []byte(t)) {
				ch.rec.Violation("svc:action:broadcast-from-unauthenticated", fmt.Sprintf("service endpoint: a message on an unauthenticated service socket (class %q) caused operator event %d/%d", sp.Class, f.Head.Event, f.Body.SubEvent),
					map[string]any{"spec": sp, "frame": short(f.Raw)})
			}
		}
	}
	ch.rec.Done(sp, map[string]any{"class": sp.Class, "conn": sp.Conn, "message": short(msg[:min(len(msg), 300)]), "expect": sp.Expect, "replies": replies, "closed_by_server": cl.Closed(), "follow": sp.Follow})
	return false
}
