package c06

import (
	"bufio"
	"encoding/json"
	"os"
	"regexp"
	"strings"
	"sync"

	"verifh/lib"
)

// Job is what the parent worker hands to a child process (path in C06_CHILD).
type Job struct {
	Cases   []Spec `json:"cases"`
	Events  string `json:"events"`  // JSON-lines file the child appends to
	CurFile string `json:"curfile"` // the message about to be sent, written before sending
	Cleanup bool   `json:"cleanup"` // see child.cleanupStale
	Replay  bool   `json:"replay"`
}

// Event is one line of the child's event file.
type Event struct {
	T       string          `json:"t"` // cur | done | obs | max | viol | inc | note | exit
	Case    int             `json:"case,omitempty"`
	Key     string          `json:"key,omitempty"`
	N       int64           `json:"n,omitempty"`
	Sig     string          `json:"sig,omitempty"`
	What    string          `json:"what,omitempty"`
	Witness json.RawMessage `json:"witness,omitempty"`
	Sample  json.RawMessage `json:"sample,omitempty"`
	Reason  string          `json:"reason,omitempty"`
}

type recorder struct {
	mu   sync.Mutex
	f    *os.File
	cur  string
	hold bool // verdict events of the running case are kept back until the case is known to be untainted
	held []Event
	// prior: the last accepted logins (at most 2) of earlier cases in this child
	prior []Spec
}

// Hold starts keeping back verdict events (viol, done); Release writes or drops them.
func (r *recorder) Hold() {
	r.mu.Lock()
	r.hold, r.held = true, nil
	r.mu.Unlock()
}

func (r *recorder) Release(keep bool) (dropped int) {
	r.mu.Lock()
	held := r.held
	r.hold, r.held = false, nil
	r.mu.Unlock()
	if !keep {
		return len(held)
	}
	for _, e := range held {
		r.emit(e)
	}
	return 0
}

func (r *recorder) verdict(e Event) {
	r.mu.Lock()
	if r.hold {
		r.held = append(r.held, e)
		r.mu.Unlock()
		return
	}
	r.mu.Unlock()
	r.emit(e)
}

func newRecorder(events, cur string) (*recorder, error) {
	f, err := os.OpenFile(events, os.O_CREATE|os.O_WRONLY|os.O_APPEND, 0o644)
	if err != nil {
		return nil, err
	}
	return &recorder{f: f, cur: cur}, nil
}

func (r *recorder) emit(e Event) {
	b, _ := json.Marshal(e)
	r.mu.Lock()
	r.f.Write(append(b, '\n'))
	r.mu.Unlock()
}

// Cur writes what is about to be sent (with the whole case) to disk before it is sent, so
// that a process-fatal error in the teamserver leaves the witness behind.
func (r *recorder) Cur(sp *Spec, stage string, msg []byte) {
	show := msg
	if len(show) > 4096 {
		show = show[:4096]
	}
	b, _ := json.Marshal(map[string]any{"spec": sp, "stage": stage, "message_head": string(show), "message_len": len(msg)})
	tmp := r.cur + ".tmp"
	os.WriteFile(tmp, b, 0o644)
	os.Rename(tmp, r.cur)
	r.emit(Event{T: "cur", Case: sp.ID, Key: stage})
}

func (r *recorder) Observe(k string, n int64) { r.emit(Event{T: "obs", Key: k, N: n}) }
func (r *recorder) Max(k string, n int64)     { r.emit(Event{T: "max", Key: k, N: n}) }
func (r *recorder) Inconclusive(what string)  { r.emit(Event{T: "inc", What: what}) }
func (r *recorder) Violation(sig, what string, witness any) {
	// the logins that were accepted (and have ended) earlier in this teamserver are part of
	// the history a replay has to rebuild
	if m, ok := witness.(map[string]any); ok && len(r.prior) > 0 {
		m["after_logins"] = r.prior
	}
	b, err := json.Marshal(witness)
	if err != nil {
		b, _ = json.Marshal(map[string]string{"unmarshalable": err.Error()})
	}
	r.verdict(Event{T: "viol", Sig: sig, What: what, Witness: b})
}
func (r *recorder) Done(sp *Spec, sample any) {
	var sb json.RawMessage
	if sample != nil {
		sb, _ = json.Marshal(sample)
	}
	r.verdict(Event{T: "done", Case: sp.ID, Key: sp.Key(), Sample: sb})
}
func (r *recorder) Exit(reason string, next int) {
	r.emit(Event{T: "exit", Reason: reason, Case: next})
}

func readEvents(path string, from int64) (evs []Event, off int64) {
	f, err := os.Open(path)
	if err != nil {
		return nil, from
	}
	defer f.Close()
	f.Seek(from, 0)
	rd := bufio.NewReaderSize(f, 1<<20)
	off = from
	for {
		line, err := rd.ReadBytes('\n')
		if err != nil {
			break // incomplete last line: the child died while writing it
		}
		off += int64(len(line))
		var e Event
		if json.Unmarshal(line, &e) == nil {
			evs = append(evs, e)
		}
	}
	return evs, off
}

// ---- crash classification (child stderr of a Go crash) ----

var (
	reIfaceConv = regexp.MustCompile(`interface conversion: interface \{\} is [^,]+, not (\S+)`)
	reFatalLine = regexp.MustCompile(`^(panic: |fatal error: |runtime: |SIGSEGV|unexpected fault address)`)
)

// crashClass finds the first panic / fatal error in a Go crash log and returns the
// normalised message, the function of the first frame inside Havoc/ of the crashing
// goroutine, and the log region.
func crashClass(log string) (msg, frame string, region []string, ok bool) {
	lines := strings.Split(log, "\n")
	start := -1
	for i, l := range lines {
		if reFatalLine.MatchString(l) {
			// "panic: " lines that are part of a re-panic chain ("[recovered]") are fine too
			start = i
			break
		}
	}
	if start < 0 {
		return "", "", nil, false
	}
	msg = strings.TrimSpace(lines[start])
	msg = strings.TrimPrefix(msg, "panic: ")
	msg = reIfaceConv.ReplaceAllString(msg, "interface conversion: interface {} is T, not $1")
	msg = lib.Classify(msg)
	// frames of the first goroutine block after the message
	inBlock := false
	for i := start + 1; i < len(lines) && i < start+400; i++ {
		l := lines[i]
		if strings.HasPrefix(l, "goroutine ") {
			if inBlock {
				break
			}
			inBlock = true
			continue
		}
		if inBlock && frame == "" && strings.HasPrefix(strings.TrimSpace(l), "Havoc/") {
			fr := strings.TrimSpace(l)
			if j := strings.LastIndex(fr, "("); j > 0 {
				fr = fr[:j]
			}
			frame = fr
		}
	}
	end := start + 40
	if end > len(lines) {
		end = len(lines)
	}
	region = lines[start:end]
	return msg, frame, region, true
}
