package c06

import (
	"bytes"
	"crypto/tls"
	"database/sql"
	"encoding/base64"
	"encoding/json"
	"errors"
	"fmt"
	"io"
	"math/rand"
	"net"
	"net/http"
	"os"
	"path/filepath"
	"runtime"
	"strings"
	"sync"
	"sync/atomic"
	"time"

	"Havoc/cmd/server"
	"Havoc/pkg/handlers"
	"Havoc/pkg/verifhook"

	"github.com/gorilla/websocket"
	_ "github.com/mattn/go-sqlite3"

	"verifh/demon"
	"verifh/observe"
	"verifh/opclient"
	"verifh/rig"
)

// Exit codes of a child process (anything else is a crash).
const (
	exitDone    = 0
	exitRestart = 3 // the rig became unusable (wedge / infrastructure); parent continues with Event.Case
)

type agentRec struct {
	id     uint32
	name   string
	key    []byte
	iv     []byte
	keyB64 string
}

type child struct {
	job  Job
	rec  *recorder
	r    *rig.Rig
	ts   *server.Teamserver
	addr string
	rng  *rand.Rand

	alice    *opclient.Client
	silent   *probe // long-lived: connected, never says anything
	rejected *probe // long-lived: sent an unknown-user message, got the error, stays connected
	lurkSeen int
	rejSeen  int

	httpURL string
	hc      *http.Client
	agents  []agentRec

	tokPrefix string
	tokN      int
	allKeys   []string // base64 AES keys of every agent registered (frames carrying them carry keys)

	cur    atomic.Pointer[caseRun]
	storm  atomic.Bool
	locals sync.Map // local addresses of every connection the harness opened to /havoc/

	authed    int // operator connections the harness has authenticated and not yet closed
	aliceScan int
	dbPath    string
	loot      string
	wedged    bool

	dbv      *sql.DB
	dbVer    int64
	dbCached bool
	dbA      []string
	dbL      []string
	dbLi     []string
}

type probe struct {
	cl       *opclient.Client
	raw      net.Conn
	local    string
	reported int
}

type caseRun struct {
	sp       *Spec
	mu       sync.Mutex
	tokens   map[string]string // token -> phase it was issued in (pre|win|post|fu)
	hookOnce sync.Once
	lockOnce sync.Once
	lockDone chan error // result of the broadcast fired while the verdict was being written
	hookHit  bool
	hookS0   *snap
	hookErr  error
	storm    bool // concurrent phase: user connect notices are live events too
	sent     bool // a complete first message went out
	errSeen  int
	accepted bool
	leaks    int
}

func (cr *caseRun) addTok(tok, phase string) {
	cr.mu.Lock()
	cr.tokens[tok] = phase
	cr.mu.Unlock()
}

var errWedge = errors.New("broadcast blocked: an operator-connection write mutex is held forever")
var errObserverRejected = errors.New("the observer's valid login was rejected")
var errSlow = errors.New("broadcast did not arrive at the authenticated observer within the bound")

func childMain(jobPath string) int {
	b, err := os.ReadFile(jobPath)
	if err != nil {
		fmt.Fprintln(os.Stderr, "c06 child: ", err)
		return 2
	}
	var job Job
	if err := json.Unmarshal(b, &job); err != nil {
		fmt.Fprintln(os.Stderr, "c06 child: ", err)
		return 2
	}
	rec, err := newRecorder(job.Events, job.CurFile)
	if err != nil {
		fmt.Fprintln(os.Stderr, "c06 child: ", err)
		return 2
	}
	ch := &child{job: job, rec: rec}
	seed := int64(1)
	if len(job.Cases) > 0 {
		seed = job.Cases[0].Seed
	}
	ch.rng = rand.New(rand.NewSource(seed))
	if err := ch.setup(); err != nil {
		if errors.Is(err, errObserverRejected) {
			sp := opCase("valid", "alice", loginTree("alice", digestOf(opPassword("alice"))), "accept")
			rec.Violation("rejected-valid-login", "the valid first message of operator alice (profile name, SHA3-256 hex digest of the profile password) was answered with InitConnection/Error by this process's own teamserver",
				map[string]any{"spec": sp, "message": sp.Pre})
			rec.Exit("observer-rejected", -1)
			return exitRestart
		}
		rec.emit(Event{T: "note", What: "rig setup failed: " + err.Error()})
		next := 0
		if len(job.Cases) > 0 {
			next = job.Cases[0].ID
		}
		rec.Exit("setup", next)
		return exitRestart
	}
	for i := range job.Cases {
		sp := &job.Cases[i]
		var restart bool
		t0 := time.Now()
		rec.Hold()
		switch sp.EP {
		case "svc":
			restart = ch.runSvc(sp)
		case "storm":
			restart = ch.runStorm(sp)
		default:
			restart = ch.runOp(sp)
		}
		rec.Observe("ms:case:"+sp.EP, time.Since(t0).Milliseconds())
		ch.longLivedCheck(sp)
		if fp := ch.foreignPeers(); len(fp) > 0 {
			n := rec.Release(false)
			rec.Inconclusive(fmt.Sprintf("case %d discarded (%d verdict events): connections from %v reached this rig's teamserver but were not opened by this harness (port clash with another rig)", sp.ID, n, fp))
			restart = true
		} else {
			rec.Release(true)
		}
		if restart {
			rec.Exit("restart", sp.ID+1)
			ch.hits()
			return exitRestart
		}
	}
	ch.hits()
	rec.Exit("done", -1)
	return exitDone
}

func (ch *child) hits() {
	for k, v := range verifhook.AllHits() {
		if strings.HasPrefix(k, "ws.") {
			ch.rec.Observe("hook:"+k, v)
		}
	}
}

func (ch *child) setup() error {
	t0 := time.Now()
	defer func() { ch.rec.Observe("ms:setup", time.Since(t0).Milliseconds()) }()
	r, err := rig.New(rig.Options{Full: true, Service: true})
	if err != nil {
		return err
	}
	ch.r, ch.ts = r, r.TS
	ch.addr = fmt.Sprintf("127.0.0.1:%d", r.Port)
	ch.dbPath = filepath.Join(r.Dir, "data", "teamserver.db")
	ch.loot = filepath.Join(r.Dir, "data", "loot")
	ch.tokPrefix = "c06" + randHex(ch.rng, 6)
	ch.hc = &http.Client{Timeout: 45 * time.Second}
	verifhook.Set("ws.first_read", ch.firstReadHook)
	verifhook.Set("ws.send.locked", ch.sendLockedHook)

	h, err := r.StartHTTP(handlers.HTTPConfig{Name: "c06-http"})
	if err != nil {
		return fmt.Errorf("StartHTTP: %w", err)
	}
	ch.httpURL = "http://127.0.0.1:" + h.Config.PortBind + "/"
	if !rig.WaitTCP("127.0.0.1:"+h.Config.PortBind, 20*time.Second) {
		return fmt.Errorf("http listener never accepted")
	}
	a, err := opclient.Dial(ch.addr, nil)
	if err != nil {
		return fmt.Errorf("observer dial: %w", err)
	}
	ch.alice = a
	ch.locals.Store(a.Conn.LocalAddr().String(), true)
	if err := ch.ownEntry(a.Conn.LocalAddr().String()); err != nil {
		return err
	}
	ok, err := a.Login("alice", opPassword("alice"), 60*time.Second)
	if err != nil {
		return fmt.Errorf("observer login: %w", err)
	}
	if !ok {
		return errObserverRejected
	}
	ch.authed = 1
	a.Quiesce(100*time.Millisecond, 3*time.Second)
	// one agent up front so that console/task broadcasts have a target
	if _, err := ch.registerAgent(nil, ""); err != nil {
		return fmt.Errorf("first agent registration: %w", err)
	}
	// a listener that a "listener remove" follow-up on an unauthenticated socket aims at
	keep := "c06-keep-" + ch.tokPrefix
	a.Send(opclient.EvListener, opclient.ListenerAdd, map[string]any{"Protocol": "Smb", "Name": keep, "PipeName": "pipe-" + keep})
	if err := ch.waitAlice(func(f opclient.Frame) bool {
		return f.Head.Event == opclient.EvListener && f.Body.SubEvent == opclient.ListenerAdd && f.InfoStr("Name") == keep
	}); err != nil {
		return fmt.Errorf("keep listener: %w", err)
	}
	if err := ch.barrier(nil, ""); err != nil {
		return fmt.Errorf("setup barrier: %w", err)
	}
	if ch.silent, err = ch.dial(); err != nil {
		return err
	}
	if ch.rejected, err = ch.dial(); err != nil {
		return err
	}
	t := loginTree("mallory", digestOf(opPassword("bob")))
	ch.rejected.cl.SendRaw([]byte(t.String()))
	ch.rejected.cl.WaitCount(1, 10*time.Second)
	return nil
}

func (ch *child) dial() (*probe, error) {
	p := &probe{}
	t0 := time.Now()
	defer func() { ch.rec.Observe("ms:dial", time.Since(t0).Milliseconds()) }()
	cl, err := opclient.Dial(ch.addr, func(network, a string) (net.Conn, error) {
		c, err := net.DialTimeout(network, a, 10*time.Second)
		p.raw = c
		return c, err
	})
	if err != nil {
		return nil, err
	}
	p.cl = cl
	p.local = cl.Conn.LocalAddr().String()
	ch.locals.Store(p.local, true)
	if err := ch.ownEntry(p.local); err != nil {
		cl.Close()
		return nil, err
	}
	return p, nil
}

// ownEntry verifies that a connection the harness has opened arrived at THIS process's
// teamserver. Rig ports are picked with listen(:0)/close and bound a moment later, so two
// rigs started at the same time (other shards, other properties' workers, which use the
// same operator names) can end up talking to each other; such a case is discarded.
func (ch *child) ownEntry(local string) error {
	for i := 0; i < 5000; i++ {
		if id, _ := ch.findEntry(local); id != "" {
			return nil
		}
		time.Sleep(time.Millisecond)
	}
	return fmt.Errorf("connection %s did not arrive at this process's teamserver (port clash with another rig)", local)
}

// foreignPeers lists stored connections that the harness did not open.
func (ch *child) foreignPeers() []string {
	var out []string
	ch.ts.Clients.Range(func(k, v any) bool {
		ip := v.(*server.Client).GlobalIP
		if _, ok := ch.locals.Load(ip); !ok {
			out = append(out, ip)
		}
		return true
	})
	return out
}

func (ch *child) newTok(kind string) string {
	ch.tokN++
	return fmt.Sprintf("%s-%s%d", ch.tokPrefix, kind, ch.tokN)
}

// ---------------------------------------------------------------------------------------
// Broadcast triggers. Every one waits until the authenticated observer has received the
// event (positive control: the broadcast really happened) and reports a wedge otherwise.
// ---------------------------------------------------------------------------------------

func (ch *child) waitAlice(pred func(opclient.Frame) bool) error {
	if _, ok := ch.alice.WaitFor(pred, 4*time.Second); ok {
		return nil
	}
	for i := 0; i < 10; i++ {
		if held := observe.HeldClientLocks(ch.ts, 400*time.Millisecond); len(held) > 0 {
			return errWedge
		}
		if _, ok := ch.alice.WaitFor(pred, 4*time.Second); ok {
			return nil
		}
	}
	return errSlow
}

func rawHas(tok string) func(opclient.Frame) bool {
	b := []byte(tok)
	return func(f opclient.Frame) bool { return bytes.Contains(f.Raw, b) }
}

func (ch *child) chat(cr *caseRun, phase string) error {
	tok := ch.newTok("hb")
	if cr != nil {
		cr.addTok(tok, phase)
	}
	if err := ch.alice.Chat(tok); err != nil {
		return err
	}
	if err := ch.waitAlice(rawHas(tok)); err != nil {
		return err
	}
	ch.rec.Observe("bcast:chat:"+phase, 1)
	return nil
}

// barrier: a second event from the same broadcasting goroutine; once the observer has it,
// every write of the previous broadcast to every stored connection has been issued.
func (ch *child) barrier(cr *caseRun, phase string) error {
	tok := ch.newTok("hb")
	if cr != nil {
		cr.addTok(tok, phase)
	}
	if err := ch.alice.Chat(tok); err != nil {
		return err
	}
	return ch.waitAlice(rawHas(tok))
}

func (ch *child) post(body []byte) error {
	resp, err := ch.hc.Post(ch.httpURL, "application/octet-stream", bytes.NewReader(body))
	if err != nil {
		return err
	}
	io.Copy(io.Discard, resp.Body)
	resp.Body.Close()
	if resp.StatusCode != 200 {
		return fmt.Errorf("listener answered %d", resp.StatusCode)
	}
	return nil
}

// registerAgent sends a reference-encoded DEMON_INIT through the real HTTP listener; the
// server broadcasts a NewSession frame carrying the AES key.
func (ch *child) registerAgent(cr *caseRun, phase string) (*agentRec, error) {
	id := uint32(0x10000000 + len(ch.agents)*0x101 + ch.rng.Intn(0xff))
	key := make([]byte, 32)
	iv := make([]byte, 16)
	ch.rng.Read(key)
	ch.rng.Read(iv)
	key[0] |= 1
	a := agentRec{id: id, name: fmt.Sprintf("%08x", id), key: key, iv: iv, keyB64: base64.StdEncoding.EncodeToString(key)}
	tok := ch.newTok("hb")
	m := &demon.Meta{AgentID: id, Hostname: tok, Username: "user", Domain: "DOM", InternalIP: "10.0.0.1", ProcessPath: "C:\\x\\p.exe", PID: 10, TID: 11, PPID: 12, Arch: 2, Elevated: 1, BaseAddr: 0x7ff000, OS: [5]uint32{10, 0, 1, 0, 19045}, OSArch: 9, Sleep: 5, Jitter: 10}
	if cr != nil {
		cr.addTok(a.keyB64, phase)
		cr.addTok(tok, phase)
	}
	ch.allKeys = append(ch.allKeys, a.keyB64)
	if err := ch.post(demon.Register(id, key, iv, m)); err != nil {
		if held := observe.HeldClientLocks(ch.ts, 400*time.Millisecond); len(held) > 0 {
			return nil, errWedge
		}
		return nil, err
	}
	if err := ch.waitAlice(func(f opclient.Frame) bool {
		return f.Head.Event == opclient.EvSession && f.Body.SubEvent == opclient.SessNew && bytes.Contains(f.Raw, []byte(a.keyB64))
	}); err != nil {
		return nil, err
	}
	ch.agents = append(ch.agents, a)
	ch.rec.Observe("bcast:agent-keys:"+phase, 1)
	return &ch.agents[len(ch.agents)-1], nil
}

func (ch *child) console(cr *caseRun, phase string) error {
	a := ch.agents[ch.rng.Intn(len(ch.agents))]
	tok := ch.newTok("hb")
	if cr != nil {
		cr.addTok(tok, phase)
	}
	// task input from the operator: broadcast of the Session/Input event
	if err := ch.alice.Task(a.name, "11", fmt.Sprintf("%08X", ch.tokN), "sleep 7 3 "+tok, map[string]any{"Arguments": "7;3"}); err != nil {
		return err
	}
	if err := ch.waitAlice(func(f opclient.Frame) bool {
		return f.Head.Event == opclient.EvSession && f.Body.SubEvent == opclient.SessInput && bytes.Contains(f.Raw, []byte(tok))
	}); err != nil {
		return err
	}
	// agent check-in: broadcast of a Session/Output (callback) event, queue drained
	n := ch.alice.Count()
	if err := ch.post(demon.Checkin(a.id, a.key, a.iv)); err != nil {
		if held := observe.HeldClientLocks(ch.ts, 400*time.Millisecond); len(held) > 0 {
			return errWedge
		}
		return err
	}
	_ = n
	ch.rec.Observe("bcast:console:"+phase, 1)
	return nil
}

func (ch *child) listenerCycle(cr *caseRun, phase string) error {
	tok := ch.newTok("hb")
	if cr != nil {
		cr.addTok(tok, phase)
	}
	if err := ch.alice.Send(opclient.EvListener, opclient.ListenerAdd, map[string]any{"Protocol": "Smb", "Name": tok, "PipeName": "pipe-" + tok}); err != nil {
		return err
	}
	if err := ch.waitAlice(func(f opclient.Frame) bool {
		return f.Head.Event == opclient.EvListener && f.Body.SubEvent == opclient.ListenerAdd && f.InfoStr("Name") == tok
	}); err != nil {
		return err
	}
	if err := ch.alice.ListenerRemove(tok); err != nil {
		return err
	}
	if err := ch.waitAlice(func(f opclient.Frame) bool {
		return f.Head.Event == opclient.EvListener && f.Body.SubEvent == opclient.ListenerRemove && f.InfoStr("Name") == tok
	}); err != nil {
		return err
	}
	ch.rec.Observe("bcast:listener:"+phase, 1)
	return nil
}

func (ch *child) bcast(kind string, cr *caseRun, phase string) error {
	var err error
	t0 := time.Now()
	defer func() { ch.rec.Observe("ms:bcast:"+kind, time.Since(t0).Milliseconds()) }()
	switch kind {
	case "":
		// no event of its own: only the barrier chat below
	case "chat":
		err = ch.chat(cr, phase)
	case "agent":
		_, err = ch.registerAgent(cr, phase)
	case "console":
		err = ch.console(cr, phase)
	case "listener":
		err = ch.listenerCycle(cr, phase)
	}
	if err != nil {
		return err
	}
	return ch.barrier(cr, phase)
}

// ---------------------------------------------------------------------------------------
// State snapshot
// ---------------------------------------------------------------------------------------

type snap struct {
	Obs          observe.State
	Foreign      []string // EventsList entries not caused by the harness's own broadcasts
	Harness      int
	SvcAgents    []string
	SvcListeners []string
	Authed       int
}

func (ch *child) snapshot() snap {
	var s snap
	t0 := time.Now()
	defer func() { ch.rec.Observe("ms:snapshot", time.Since(t0).Milliseconds()) }()
	s.Obs = observe.Snapshot(ch.ts, "", "")
	t1 := time.Now()
	s.Obs.DBAgents, s.Obs.DBLinks, s.Obs.DBListen = ch.dbRows()
	t2 := time.Now()
	s.Obs.Loot = observe.FSSnap(ch.loot)
	t3 := time.Now()
	ch.rec.Observe("us:snap:mem", t1.Sub(t0).Microseconds())
	ch.rec.Observe("us:snap:db", t2.Sub(t1).Microseconds())
	ch.rec.Observe("us:snap:loot", t3.Sub(t2).Microseconds())
	defer func() { ch.rec.Observe("us:snap:rest", time.Since(t3).Microseconds()) }()
	mark := ch.tokPrefix + "-hb"
	for _, e := range ch.ts.EventsList {
		// events caused by the harness's own broadcasts carry a harness token in a
		// top-level string of Info (chat message, command line, listener name)
		own := false
		for _, v := range e.Body.Info {
			if sv, ok := v.(string); ok && strings.Contains(sv, mark) {
				own = true
				break
			}
		}
		if own {
			s.Harness++
			continue
		}
		b, _ := json.Marshal(e.Body.Info)
		if len(b) > 160 {
			b = append(b[:160:160], []byte(fmt.Sprintf("…(%d)", len(b)))...)
		}
		s.Foreign = append(s.Foreign, fmt.Sprintf("%d/%d user=%q %s", e.Head.Event, e.Body.SubEvent, e.Head.User, b))
	}
	if ch.ts.Service != nil {
		for _, a := range ch.ts.Service.Agents {
			if a != nil {
				s.SvcAgents = append(s.SvcAgents, a.Name)
			}
		}
		for _, l := range ch.ts.Service.Listeners {
			if l != nil {
				s.SvcListeners = append(s.SvcListeners, l.Name)
			}
		}
	}
	ch.ts.Clients.Range(func(k, v any) bool {
		if v.(*server.Client).Authenticated {
			s.Authed++
		}
		return true
	})
	return s
}

// dbRows reads the three tables through an independent read-only connection, but only when
// the database has been written since the last read: PRAGMA data_version on a kept
// connection changes whenever another connection (the teamserver's) commits.
func (ch *child) dbRows() (a, l, li []string) {
	if ch.dbv == nil {
		if db, err := sql.Open("sqlite3", "file:"+ch.dbPath+"?mode=ro&_busy_timeout=5000"); err == nil {
			db.SetMaxOpenConns(1)
			db.SetMaxIdleConns(1)
			db.SetConnMaxLifetime(0)
			ch.dbv = db
		}
	}
	ver := int64(-1)
	if ch.dbv != nil {
		if err := ch.dbv.QueryRow("PRAGMA data_version").Scan(&ver); err != nil {
			ver = -1
		}
	}
	if ver >= 0 && ch.dbCached && ver == ch.dbVer {
		ch.rec.Observe("db_reads_skipped_unchanged", 1)
		return ch.dbA, ch.dbL, ch.dbLi
	}
	a, _ = observe.DBRows(ch.dbPath, "TS_Agents", "LastCallIn", "FirstCallIn")
	l, _ = observe.DBRows(ch.dbPath, "TS_Links")
	li, _ = observe.DBRows(ch.dbPath, "TS_Listeners")
	// re-read the version after the rows: if it moved meanwhile the cache is not trusted
	ver2 := int64(-2)
	if ch.dbv != nil {
		ch.dbv.QueryRow("PRAGMA data_version").Scan(&ver2)
	}
	ch.dbCached = ver >= 0 && ver == ver2
	ch.dbVer, ch.dbA, ch.dbL, ch.dbLi = ver, a, l, li
	return
}

// clientTable describes the stored connections (for witnesses).
func (ch *child) clientTable() []string {
	var out []string
	ch.ts.Clients.Range(func(k, v any) bool {
		c := v.(*server.Client)
		out = append(out, fmt.Sprintf("%s user=%q peer=%s authenticated=%v", k, c.Username, c.GlobalIP, c.Authenticated))
		return true
	})
	return out
}

// diff returns "" or the first class of difference and a description.
func snapDiff(a, b snap, withHarnessEvents bool) (key, what string) {
	if d := observe.Diff(a.Obs, b.Obs); len(d) > 0 {
		k := d[0]
		if i := strings.Index(k, ":"); i > 0 {
			k = k[:i]
		}
		return k, strings.Join(d, "; ")
	}
	if strings.Join(a.Foreign, "\n") != strings.Join(b.Foreign, "\n") {
		return "Events", fmt.Sprintf("event list: before=%d entries after=%d entries; new: %v", len(a.Foreign), len(b.Foreign), tailDiff(a.Foreign, b.Foreign))
	}
	if withHarnessEvents && a.Harness != b.Harness {
		return "Events", fmt.Sprintf("event list grew by %d harness-token entries", b.Harness-a.Harness)
	}
	if fmt.Sprint(a.SvcAgents) != fmt.Sprint(b.SvcAgents) {
		return "ServiceAgents", fmt.Sprintf("service agents before=%v after=%v", a.SvcAgents, b.SvcAgents)
	}
	if fmt.Sprint(a.SvcListeners) != fmt.Sprint(b.SvcListeners) {
		return "ServiceListeners", fmt.Sprintf("service listeners before=%v after=%v", a.SvcListeners, b.SvcListeners)
	}
	if a.Authed != b.Authed {
		return "Authenticated", fmt.Sprintf("authenticated connections before=%d after=%d", a.Authed, b.Authed)
	}
	return "", ""
}

func tailDiff(a, b []string) []string {
	seen := map[string]int{}
	for _, x := range a {
		seen[x]++
	}
	var out []string
	for _, x := range b {
		if seen[x] > 0 {
			seen[x]--
			continue
		}
		out = append(out, x)
	}
	if len(out) > 6 {
		out = out[:6]
	}
	return out
}

// ---------------------------------------------------------------------------------------
// ws.first_read hook: runs inside the server's connection goroutine between the first
// ReadMessage and the verdict.
// ---------------------------------------------------------------------------------------

func (ch *child) firstReadHook() {
	cr := ch.cur.Load()
	if cr == nil {
		if ch.storm.Load() {
			// concurrent phase: keep the window between first read and verdict open for a
			// moment while broadcasts are flowing
			time.Sleep(3 * time.Millisecond)
		}
		return
	}
	cr.hookOnce.Do(func() {
		var herr error
		var hs *snap
		if cr.sp.WinK != "" {
			if err := ch.bcast(cr.sp.WinK, cr, "win"); err != nil {
				herr = err
			} else {
				ch.rec.Observe("window_broadcasts", 1)
			}
		}
		if herr == nil {
			s := ch.snapshot()
			hs = &s
		}
		cr.mu.Lock()
		cr.hookHit, cr.hookErr, cr.hookS0 = true, herr, hs
		cr.mu.Unlock()
	})
}

// ws.send.locked hook: runs inside SendEvent with the receiving client's write mutex held.
// When the connection handler itself is the sender (not a broadcast) and the case asks for
// it, this is the write of the verdict to the probing connection: another goroutine starts
// a broadcast now, so that the broadcaster meets this connection while its mutex is busy.
func (ch *child) sendLockedHook() {
	cr := ch.cur.Load()
	if cr == nil || cr.sp.LockK == "" || !sentByHandler() {
		return
	}
	cr.lockOnce.Do(func() {
		done := make(chan error, 1)
		cr.mu.Lock()
		cr.lockDone = done
		cr.mu.Unlock()
		go func() { done <- ch.bcast(cr.sp.LockK, cr, "lock") }()
		// hold the write for a moment: the broadcaster reaches this connection's entry
		// of the client table meanwhile (nothing is judged by this delay)
		time.Sleep(8 * time.Millisecond)
		ch.rec.Observe("verdict_write_broadcasts", 1)
	})
}

// sentByHandler: SendEvent was called by handleRequest itself, not through EventBroadcast.
func sentByHandler() bool {
	var pcs [16]uintptr
	n := runtime.Callers(3, pcs[:])
	fr := runtime.CallersFrames(pcs[:n])
	handler := false
	for {
		f, more := fr.Next()
		if strings.HasSuffix(f.Function, ".EventBroadcast") || strings.Contains(f.Function, ".EventBroadcast.") {
			return false
		}
		if strings.HasSuffix(f.Function, ".handleRequest") {
			handler = true
		}
		if !more {
			return handler
		}
	}
}

// ---------------------------------------------------------------------------------------
// Frame oracle for a connection that has not authenticated.
// ---------------------------------------------------------------------------------------

func isInit(f opclient.Frame, sub int) bool {
	return f.BadErr == "" && f.Head.Event == opclient.EvInit && f.Body.SubEvent == sub
}

func short(b []byte) string {
	if len(b) > 700 {
		return string(b[:700]) + fmt.Sprintf("…(%d bytes)", len(b))
	}
	return string(b)
}

func (ch *child) frameKind(cr *caseRun, f opclient.Frame) (kind, phase string, keys bool) {
	raw := f.Raw
	for _, k := range ch.allKeys {
		if bytes.Contains(raw, []byte(k)) {
			keys = true
		}
	}
	if cr != nil {
		cr.mu.Lock()
		defer cr.mu.Unlock()
		for tok, ph := range cr.tokens {
			if bytes.Contains(raw, []byte(tok)) {
				return "live", ph, keys
			}
		}
	}
	// "replay" only on positive evidence that the frame is an older event: a harness token
	// or agent key of an earlier case, the set-up listeners, the profile event, user
	// connect/disconnect notices. Everything else was broadcast while the case ran.
	switch {
	case bytes.Contains(raw, []byte(ch.tokPrefix)), keys, bytes.Contains(raw, []byte("c06-http")):
		return "replay", "", keys
	case f.Head.Event == opclient.EvTS:
		return "replay", "", keys
	case f.Head.Event == opclient.EvChat && (f.Body.SubEvent == opclient.ChatNewUser || f.Body.SubEvent == opclient.ChatUserDisc) && !(cr != nil && cr.storm):
		return "replay", "", keys
	}
	return "live", "", keys
}

// checkProbe classifies everything p has received since the last call. checkpoint is the
// state the connection is in by the harness's own actions: silent | handshake | rejected.
func (ch *child) checkProbe(cr *caseRun, p *probe, checkpoint string) {
	frames := p.cl.Frames()
	for ; p.reported < len(frames); p.reported++ {
		f := frames[p.reported]
		if cr.accepted {
			continue
		}
		if isInit(f, opclient.InitSuccess) {
			cr.accepted = true
			continue
		}
		if isInit(f, opclient.InitError) && checkpoint != "silent" {
			cr.errSeen++
			if cr.errSeen == 1 {
				continue
			}
			ch.rec.Violation("reply:more-than-one-error", fmt.Sprintf("class %s: the unauthenticated connection received %d InitConnection/Error frames", cr.sp.Class, cr.errSeen),
				map[string]any{"spec": cr.sp, "frame": short(f.Raw), "checkpoint": checkpoint})
			continue
		}
		kind, phase, keys := ch.frameKind(cr, f)
		if cr.storm && kind == "live" {
			phase = "storm"
		}
		state := checkpoint
		switch phase {
		case "pre":
			state = "silent"
		case "win":
			state = "window"
		case "storm":
			// concurrent phase: the frame arrived before the connection's message was read
			// or between first read and verdict - the harness cannot tell which
			if checkpoint != "silent" {
				state = "window"
			}
		case "post", "fu":
			if cr.sent {
				state = "rejected"
			} else {
				state = "silent"
			}
		}
		if state == "handshake" {
			if kind == "live" {
				state = "window"
			} else if cr.sent {
				state = "handshake"
			}
		}
		cr.leaks++
		what := fmt.Sprintf("a connection that never authenticated (state %s, first message class %q) received event %d/%d", state, cr.sp.Class, f.Head.Event, f.Body.SubEvent)
		if keys {
			what += " carrying an agent's AES key"
			ch.rec.Observe("leaked_key_frames", 1)
		}
		ch.rec.Observe("leaked_frames", 1)
		ch.rec.Violation("leak:"+state+":"+kind, what, map[string]any{"spec": cr.sp, "frame": short(f.Raw), "checkpoint": checkpoint, "carries_agent_key": keys,
			"expected": "no frame other than at most one InitConnection/Error", "frame_index": p.reported})
	}
}

// longLivedCheck: the two long-lived unauthenticated connections must never receive anything.
func (ch *child) longLivedCheck(sp *Spec) {
	for i, p := range []*probe{ch.silent, ch.rejected} {
		if p == nil {
			continue
		}
		frames := p.cl.Frames()
		state := "silent"
		allowed := 0
		if i == 1 {
			state = "rejected"
			allowed = 1
		}
		if p.reported < allowed {
			p.reported = allowed
			if len(frames) >= 1 && !isInit(frames[0], opclient.InitError) {
				ch.rec.Violation("reply:no-error", "long-lived rejected connection: the first frame is not InitConnection/Error", map[string]any{"frame": short(frames[0].Raw)})
			}
		}
		for ; p.reported < len(frames); p.reported++ {
			f := frames[p.reported]
			_, _, keys := ch.frameKind(nil, f)
			what := fmt.Sprintf("a long-lived connection that never authenticated (state %s) received event %d/%d", state, f.Head.Event, f.Body.SubEvent)
			if keys {
				what += " carrying an agent's AES key"
				ch.rec.Observe("leaked_key_frames", 1)
			}
			ch.rec.Observe("leaked_frames", 1)
			ch.rec.Violation("leak:"+state+":live", what, map[string]any{"spec": sp, "frame": short(f.Raw), "long_lived": true, "carries_agent_key": keys,
				"expected": "no frame at all"})
		}
	}
}

// scanObserver looks for effects of the follow-up messages at the authenticated observer.
func (ch *child) scanObserver(cr *caseRun, fuToks []string) {
	frames := ch.alice.Frames()
	for ; ch.aliceScan < len(frames); ch.aliceScan++ {
		f := frames[ch.aliceScan]
		for _, t := range fuToks {
			if bytes.Contains(f.Raw, []byte(t)) {
				ch.rec.Violation("action:broadcast-from-unauthenticated", fmt.Sprintf("class %s: a message sent on the unauthenticated socket after the rejection was dispatched: the observer received event %d/%d carrying its token", cr.sp.Class, f.Head.Event, f.Body.SubEvent),
					map[string]any{"spec": cr.sp, "frame": short(f.Raw), "token": t})
			}
		}
	}
}

// ---------------------------------------------------------------------------------------
// One operator-endpoint case
// ---------------------------------------------------------------------------------------

func (ch *child) wedge(sp *Spec, where string, err error) bool {
	if errors.Is(err, errWedge) {
		// a mutex that is still held after three more seconds without a single moment of
		// being free is not a slow write on a loaded machine
		held := observe.HeldClientLocks(ch.ts, 3*time.Second)
		if len(held) == 0 {
			ch.rec.Inconclusive(fmt.Sprintf("case %d (%s): %s: broadcast slow, client mutex free again after a while", sp.ID, sp.Class, where))
			ch.wedged = true
			return true
		}
		unauth := 0
		ch.ts.Clients.Range(func(k, v any) bool {
			c := v.(*server.Client)
			for _, h := range held {
				if h == k.(string) && !c.Authenticated {
					unauth++
				}
			}
			return true
		})
		if unauth > 0 {
			ch.rec.Violation("wedge:broadcast-blocked-by-unauthenticated-connection",
				fmt.Sprintf("after the handshake of class %q a broadcast (%s) never completed: the write mutex of a stored, never authenticated connection is held forever, every later broadcaster blocks on it", sp.Class, where),
				map[string]any{"spec": sp, "held_client_mutexes": held, "where": where})
		} else {
			ch.rec.Inconclusive(fmt.Sprintf("case %d (%s): broadcast blocked on a held client mutex of an authenticated connection at %s (C11 territory)", sp.ID, sp.Class, where))
		}
		ch.wedged = true
		return true
	}
	ch.rec.Inconclusive(fmt.Sprintf("case %d (%s): %s: %v", sp.ID, sp.Class, where, err))
	return true
}

func (ch *child) findEntry(local string) (id string, c *server.Client) {
	ch.ts.Clients.Range(func(k, v any) bool {
		if v.(*server.Client).GlobalIP == local {
			id, c = k.(string), v.(*server.Client)
			return false
		}
		return true
	})
	return
}

func partialFrame(msg []byte) []byte {
	// client text frame, FIN, masked, 16-bit length claiming len(msg)+1000 bytes; only the
	// header and half of the message follow.
	n := len(msg) + 1000
	if n > 65000 {
		n = 65000
	}
	b := []byte{0x81, 0x80 | 126, byte(n >> 8), byte(n), 0, 0, 0, 0}
	half := msg
	if len(half) > n/2 {
		half = half[:n/2]
	}
	return append(b, half...)
}

func (ch *child) sendFirst(sp *Spec, p *probe, msg []byte) (sent bool) {
	switch sp.Conn {
	case "msg":
		var err error
		if sp.Binary {
			err = p.cl.SendBinary(msg)
		} else {
			err = p.cl.SendRaw(msg)
		}
		return err == nil
	case "silent":
	case "ping":
		p.cl.Conn.WriteControl(websocket.PingMessage, []byte("c06"), time.Now().Add(5*time.Second))
	case "close-ws":
		p.cl.Conn.WriteControl(websocket.CloseMessage, websocket.FormatCloseMessage(websocket.CloseNormalClosure, ""), time.Now().Add(5*time.Second))
		p.cl.Close()
	case "close-tcp":
		if p.raw != nil {
			p.raw.Close()
		}
	case "rst":
		if t, ok := p.raw.(*net.TCPConn); ok {
			t.SetLinger(0)
			t.Close()
		}
	case "partial":
		if t, ok := p.cl.Conn.UnderlyingConn().(*tls.Conn); ok {
			t.Write(partialFrame(msg))
		}
	}
	return false
}

func (ch *child) followMsg(kind, tok string) []byte {
	a := ch.agents[0]
	switch kind {
	case "task":
		return opclient.Package(opclient.EvSession, "alice", opclient.SessInput, map[string]any{"DemonID": a.name, "CommandID": "11", "TaskID": "0000FEED", "CommandLine": "sleep 9 9 " + tok, "Arguments": "9;9"})
	case "task-ts":
		return opclient.Package(opclient.EvSession, "alice", opclient.SessInput, map[string]any{"DemonID": a.name, "CommandID": "Python Plugin", "TaskID": "0000FEEE", "CommandLine": tok, "TaskMessage": tok})
	case "chat":
		return opclient.Package(opclient.EvChat, "alice", opclient.ChatNewMessage, map[string]any{"User": "alice", "Message": tok})
	case "listener-add":
		return opclient.Package(opclient.EvListener, "alice", opclient.ListenerAdd, map[string]any{"Protocol": "Smb", "Name": tok, "PipeName": "pipe-" + tok})
	case "listener-remove":
		return opclient.Package(opclient.EvListener, "alice", opclient.ListenerRemove, map[string]any{"Name": "c06-keep-" + ch.tokPrefix})
	case "mark":
		return opclient.Package(opclient.EvSession, "alice", opclient.SessMark, map[string]any{"AgentID": a.name, "Marked": "Dead"})
	case "gate":
		return opclient.Package(opclient.EvGate, "alice", 2, map[string]any{"AgentType": "Demon", "Listener": "c06-http", "Arch": "x64", "Format": "Windows Exe", "Config": `{"Sleep":"2","Jitter":"0","Indirect Syscall":false,"Injection":{"Alloc":"Native/Syscall","Execute":"Native/Syscall","Spawn64":"a","Spawn32":"b"},"note":"` + tok + `"}`})
	}
	return []byte("{}")
}

func (ch *child) runOp(sp *Spec) (restart bool) {
	cr := &caseRun{sp: sp, tokens: map[string]string{}}
	msg := sp.Msg()
	ch.rec.Cur(sp, "dial", msg)
	p, err := ch.dial()
	if err != nil {
		ch.rec.Inconclusive(fmt.Sprintf("case %d: dial: %v", sp.ID, err))
		return true
	}
	defer p.cl.Close()

	// phase 1: connected, silent; the server broadcasts
	if err := ch.bcast(sp.PreK, cr, "pre"); err != nil {
		return ch.wedge(sp, "pre-handshake "+sp.PreK, err)
	}
	ch.checkProbe(cr, p, "silent")
	// baseline: taken inside the server (ws.first_read hook, after the in-window broadcast)
	// when a complete message is sent, otherwise here
	var S0 snap
	haveS0 := false
	if sp.Conn != "msg" {
		S0, haveS0 = ch.snapshot(), true
	}

	// phase 2: the first message; ws.first_read fires inside the server
	ch.cur.Store(cr)
	ch.rec.Cur(sp, "first-message", msg)
	tSend := time.Now()
	cr.sent = ch.sendFirst(sp, p, msg)
	verdict := "none"
	if cr.sent {
		_, ok := p.cl.WaitFor(func(f opclient.Frame) bool { return isInit(f, opclient.InitSuccess) || isInit(f, opclient.InitError) }, 90*time.Second)
		switch {
		case ok:
			verdict = "frame"
		case p.cl.Closed():
			verdict = "closed"
		}
	} else {
		// nothing (complete) was sent: give the server's reader a moment to notice a close
		time.Sleep(20 * time.Millisecond)
	}
	ch.cur.Store(nil)
	ch.rec.Observe("ms:send-to-verdict", time.Since(tSend).Milliseconds())
	cr.mu.Lock()
	hookHit, hookErr, hookS0 := cr.hookHit, cr.hookErr, cr.hookS0
	lockDone := cr.lockDone
	cr.mu.Unlock()
	if lockDone != nil {
		// the broadcast that was started while the verdict was being written must be over
		// before anything else is done with this case
		select {
		case err := <-lockDone:
			if err != nil {
				return ch.wedge(sp, "during-verdict-write "+sp.LockK, err)
			}
		case <-time.After(120 * time.Second):
			ch.rec.Inconclusive(fmt.Sprintf("case %d (%s): the broadcast started during the verdict write did not finish within 120 s", sp.ID, sp.Class))
			return true
		}
	}
	if hookErr != nil {
		return ch.wedge(sp, "in-window "+sp.WinK, hookErr)
	}
	if hookHit {
		ch.rec.Observe("first_read_windows", 1)
		if hookS0 != nil {
			S0, haveS0 = *hookS0, true
		}
	}
	if haveS0 && S0.Authed != ch.authed {
		ch.rec.Violation("state:authenticated-without-login", fmt.Sprintf("%d stored connections are marked authenticated before the verdict on the first message, the harness has logged in %d", S0.Authed, ch.authed), map[string]any{"spec": sp, "client_table": ch.clientTable()})
	}
	if verdict == "frame" && sp.Expect != "accept" {
		// let a close that follows the error frame register
		p.cl.WaitFor(func(opclient.Frame) bool { return false }, 15*time.Millisecond)
	}
	ch.checkProbe(cr, p, "handshake")
	ch.rec.Observe("op_handshakes", 1)
	ch.rec.Observe("conn:"+sp.Conn, 1)
	ch.rec.Observe("expect:"+sp.Expect, 1)

	sigClass := sp.Class
	if strings.HasPrefix(sigClass, "rnd:") {
		sigClass = "rnd"
	}
	switch {
	case cr.accepted:
		ch.rec.Observe("outcome:accepted", 1)
		if sp.Expect == "reject" {
			ch.rec.Violation("accepted:"+sigClass, fmt.Sprintf("first message of class %q names no operator together with that operator's password digest, yet the connection was authenticated (InitConnection/Success)", sp.Class),
				map[string]any{"spec": sp, "message": short(msg), "expected": "InitConnection/Error and nothing else", "observed": "InitConnection/Success"})
		}
	case cr.errSeen > 0:
		ch.rec.Observe("outcome:error-frame", 1)
		if p.cl.Closed() {
			ch.rec.Observe("outcome:error-then-closed", 1)
		} else {
			ch.rec.Observe("outcome:error-still-connected", 1)
		}
		if sp.Expect == "accept" {
			ch.rec.Violation("rejected-valid-login", fmt.Sprintf("the valid first message of operator %s was answered with InitConnection/Error", sp.User), map[string]any{"spec": sp, "message": short(msg)})
		}
	case cr.sent && verdict == "closed":
		ch.rec.Observe("outcome:closed-without-answer", 1)
		ch.rec.Violation("reply:closed-without-error", fmt.Sprintf("class %q: the first message was not answered with an error; the server closed the connection without a verdict frame", sp.Class), map[string]any{"spec": sp, "message": short(msg)})
	case cr.sent:
		ch.rec.Observe("outcome:no-answer", 1)
		ch.rec.Inconclusive(fmt.Sprintf("case %d (%s): no verdict frame and no close within 90 s", sp.ID, sp.Class))
		return true
	default:
		ch.rec.Observe("outcome:nothing-sent", 1)
	}

	if cr.accepted {
		ch.authed++
		restart := ch.finishAccepted(sp, cr, p, true)
		ch.rec.prior = append(ch.rec.prior, *sp)
		if len(ch.rec.prior) > 2 {
			ch.rec.prior = ch.rec.prior[len(ch.rec.prior)-2:]
		}
		return restart
	}

	// rejected (or nothing sent): state must be what it was
	S1 := ch.snapshot()
	if !haveS0 {
		ch.rec.Observe("no_baseline_snapshot", 1)
		S0 = S1
	}
	if lockDone != nil {
		// the chats of the broadcast started during the verdict write (one event per token
		// issued in that phase) are the harness's own
		cr.mu.Lock()
		for _, ph := range cr.tokens {
			if ph == "lock" {
				S0.Harness++
			}
		}
		cr.mu.Unlock()
	}
	if k, what := snapDiff(S0, S1, true); k != "" {
		ch.rec.Violation("state:"+k+":handshake", fmt.Sprintf("class %q: a handshake that did not authenticate changed teamserver state: %s", sp.Class, what), map[string]any{"spec": sp, "message": short(msg), "diff": what})
	}
	if ch.job.Cleanup {
		ch.cleanupStale(p)
	}

	// phase 3: broadcasts after the rejection
	// (always at least two events: an entry whose write fails blocks the one after it)
	if err := ch.bcast(sp.PostK, cr, "post"); err != nil {
		return ch.wedge(sp, "post-rejection "+sp.PostK, err)
	}
	// (the first write to a dead stored connection fails, the second blocks - possibly after
	// the observer has been served -, the third is never read)
	for i := 0; i < 2; i++ {
		if err := ch.barrier(cr, "post"); err != nil {
			return ch.wedge(sp, "post-rejection follow-on broadcast", err)
		}
	}
	state := "rejected"
	if !cr.sent {
		state = "silent"
	}
	ch.checkProbe(cr, p, state)

	// follow-up messages on the unauthenticated socket
	if len(sp.Follow) > 0 && !p.cl.Closed() && sp.Conn != "partial" {
		S2 := S1
		if sp.PostK != "" && sp.PostK != "chat" {
			S2 = ch.snapshot()
		}
		var toks []string
		nsent := 0
		for _, k := range sp.Follow {
			tok := ch.newTok("fu")
			toks = append(toks, tok)
			cr.addTok(tok, "fu")
			fm := ch.followMsg(k, tok)
			ch.rec.Cur(sp, "follow-up:"+k, fm)
			if p.cl.SendRaw(fm) == nil {
				nsent++
				ch.rec.Observe("followup:"+k, 1)
				// on a connection that has said nothing so far this is the first message:
				// one error frame is the expected answer from here on
				cr.sent = true
				state = "rejected"
			}
		}
		if nsent > 0 {
			// two round trips through the server, then a short settle: whatever a
			// dispatching server would have done with the follow-ups is visible now
			if err := ch.barrier(cr, "fu"); err != nil {
				return ch.wedge(sp, "after follow-ups", err)
			}
			time.Sleep(25 * time.Millisecond)
			if err := ch.barrier(cr, "fu"); err != nil {
				return ch.wedge(sp, "after follow-ups", err)
			}
			S3 := ch.snapshot()
			if k, what := snapDiff(S2, S3, false); k != "" {
				ch.rec.Violation("state:"+k+":follow-up", fmt.Sprintf("class %q: a message sent on the rejected socket (%v) changed teamserver state: %s", sp.Class, sp.Follow, what), map[string]any{"spec": sp, "diff": what})
			}
			ch.scanObserver(cr, toks)
			ch.checkProbe(cr, p, state)
			ch.rec.Observe("followup_rounds", 1)
		}
	} else {
		ch.aliceScan = ch.alice.Count()
	}
	ch.checkProbe(cr, p, state)
	p.cl.Close()
	if cr.leaks == 0 {
		ch.rec.Observe("clean_unauthenticated_cases", 1)
	}
	ch.rec.Done(sp, map[string]any{"class": sp.Class, "conn": sp.Conn, "message": short(msg[:min(len(msg), 300)]), "expect": sp.Expect, "error_frames": cr.errSeen, "closed_by_server": p.cl.Closed(), "pre": sp.PreK, "window": sp.WinK, "post": sp.PostK, "follow": sp.Follow})
	return false
}

func min(a, b int) int {
	if a < b {
		return a
	}
	return b
}

// finishAccepted: the connection authenticated (legitimately or not): it must now work as
// an operator connection (positive control), then it is closed and the harness waits until
// the server has dropped it.
func (ch *child) finishAccepted(sp *Spec, cr *caseRun, p *probe, emitDone bool) bool {
	t0 := time.Now()
	defer func() { ch.rec.Observe("ms:finish-accepted", time.Since(t0).Milliseconds()) }()
	// frames before the Success frame were classified by checkProbe; after it the replay
	// and live events are legitimate. Positive control: it receives the next broadcast.
	// It sends a chat message itself: the server reads it only after the replay has been
	// written completely, so once it comes back the connection is in its dispatch loop.
	tok := ch.newTok("hb")
	p.cl.User = sp.User
	if err := p.cl.Chat(tok); err == nil {
		if err := ch.waitAlice(rawHas(tok)); err != nil {
			return ch.wedge(sp, "after accepted login", err)
		}
		if _, ok := p.cl.WaitFor(rawHas(tok), 20*time.Second); ok {
			ch.rec.Observe("accepted_connection_receives_broadcasts", 1)
		} else {
			ch.rec.Inconclusive(fmt.Sprintf("case %d: authenticated connection did not receive a broadcast within 20 s", sp.ID))
		}
	}
	S := ch.snapshot()
	if S.Authed != ch.authed {
		ch.rec.Violation("state:authenticated-count", fmt.Sprintf("%d stored connections are marked authenticated after a successful login, expected %d", S.Authed, ch.authed), map[string]any{"spec": sp, "client_table": ch.clientTable()})
	}
	// close and wait for the server to notice (UserDisconnected is broadcast by RemoveClient)
	before := ch.alice.Count()
	p.cl.Conn.WriteControl(websocket.CloseMessage, websocket.FormatCloseMessage(websocket.CloseNormalClosure, ""), time.Now().Add(5*time.Second))
	p.cl.Close()
	ch.authed--
	frames := func() []opclient.Frame { return ch.alice.Frames() }
	deadline := time.Now().Add(30 * time.Second)
	got := false
	for time.Now().Before(deadline) && !got {
		fs := frames()
		for _, f := range fs[min(before, len(fs)):] {
			if f.Head.Event == opclient.EvChat && f.Body.SubEvent == opclient.ChatUserDisc {
				got = true
			}
		}
		if !got {
			time.Sleep(5 * time.Millisecond)
		}
	}
	if !got {
		ch.rec.Inconclusive(fmt.Sprintf("case %d: no UserDisconnected event within 30 s after closing an authenticated connection", sp.ID))
		return true
	}
	// the entry is deleted right after that broadcast
	for i := 0; i < 400; i++ {
		if id, _ := ch.findEntry(p.local); id == "" {
			break
		}
		time.Sleep(5 * time.Millisecond)
	}
	if err := ch.barrier(nil, ""); err != nil {
		return ch.wedge(sp, "after closing accepted connection", err)
	}
	ch.aliceScan = ch.alice.Count()
	if emitDone {
		ch.rec.Done(sp, map[string]any{"class": sp.Class, "expect": sp.Expect, "outcome": "authenticated", "frames": p.cl.Count()})
	}
	return false
}

// cleanupStale is only active after the parent has already recorded the wedge violation of
// this shard: the unchanged tree leaves a rejected, closed connection in the client table,
// which blocks the second broadcast after it for ever. To keep exploring the remaining
// cases the harness then removes such an entry itself (counted in the evidence). On a tree
// without that defect it never runs.
func (ch *child) cleanupStale(p *probe) {
	if !p.cl.Closed() {
		return
	}
	if id, c := ch.findEntry(p.local); id != "" && !c.Authenticated {
		ch.ts.Clients.Delete(id)
		ch.rec.Observe("harness_removed_stale_entry", 1)
	}
}
