package c06

import (
	"fmt"
	"strings"
	"sync"
	"time"

	"verifh/opclient"
)

// runStorm is the schedule part of the quantifier: logins (valid and wrong password),
// silent connections and broadcasts (chat flood + agent registrations with keys) all run
// concurrently, so that the race detector sees the accesses to Client.Authenticated and the
// client table from the broadcasting goroutines and from connection goroutines that are
// in the middle of their handshake. Connections are only closed after the traffic has
// stopped (a write to a closing authenticated connection is C11's business).
func (ch *child) runStorm(sp *Spec) (restart bool) {
	cr := &caseRun{sp: sp, tokens: map[string]string{}}
	ch.rec.Cur(sp, "storm", []byte(sp.Class))
	// chat flood tokens are made on the fly (own numbering: newTok is not for concurrent use)
	floodBase := ch.newTok("hb")
	lastTok := ch.newTok("hb")
	cr.addTok(floodBase, "storm") // prefix of every flood token
	cr.addTok(lastTok, "storm")
	cr.storm = true
	S0 := ch.snapshot()

	var silents []*probe
	for i := 0; i < 3; i++ {
		p, err := ch.dial()
		if err != nil {
			ch.rec.Inconclusive(fmt.Sprintf("case %d: dial: %v", sp.ID, err))
			return true
		}
		defer p.cl.Close()
		silents = append(silents, p)
	}

	ch.storm.Store(true)
	ch.rec.Observe("storms", 1)
	var wg sync.WaitGroup
	var mu sync.Mutex
	var agentErr error
	type res struct {
		p       *probe
		user    string
		valid   bool
		verdict string
	}
	var results []*res
	var fwg sync.WaitGroup
	stopFlood := make(chan struct{})

	fwg.Add(1)
	go func() { // chat flood from the authenticated observer, as long as logins are under way
		defer fwg.Done()
		for i := 0; i < 2000; i++ {
			select {
			case <-stopFlood:
				if i >= 40 {
					return
				}
			default:
			}
			ch.alice.Chat(fmt.Sprintf("%s-f%d", floodBase, i))
			time.Sleep(2 * time.Millisecond)
		}
	}()
	wg.Add(1)
	go func() { // agent registrations: NewSession frames with keys
		defer wg.Done()
		for i := 0; i < 2; i++ {
			if _, err := ch.registerAgent(cr, "storm"); err != nil {
				mu.Lock()
				agentErr = err
				mu.Unlock()
				return
			}
		}
	}()
	login := func(user, digest string, valid bool) {
		defer wg.Done()
		r := &res{user: user, valid: valid, verdict: "none"}
		p, err := ch.dial()
		if err == nil {
			r.p = p
			p.cl.SendRaw([]byte(loginTree(user, digest).String()))
			if f, ok := p.cl.WaitFor(func(f opclient.Frame) bool { return isInit(f, opclient.InitSuccess) || isInit(f, opclient.InitError) }, 60*time.Second); ok {
				if isInit(f, opclient.InitSuccess) {
					r.verdict = "success"
				} else {
					r.verdict = "error"
				}
			} else if p.cl.Closed() {
				r.verdict = "closed"
			}
		}
		mu.Lock()
		results = append(results, r)
		mu.Unlock()
	}
	for _, u := range []string{"bob", "carol", "dave"} {
		wg.Add(1)
		go login(u, digestOf(opPassword(u)), true)
		// (once this shard has recorded that the tree wedges after a wrong-password
		// rejection, the concurrent phase leaves those out: it would only wedge again)
		if !ch.job.Cleanup {
			wg.Add(1)
			go login(u, digestOf("wrong-"+u), false)
		}
	}
	wg.Add(1)
	go login("mallory", digestOf(opPassword("bob")), false)
	wg.Wait()
	close(stopFlood)
	fwg.Wait()
	ch.storm.Store(false)

	for _, r := range results {
		if r.p != nil {
			defer r.p.cl.Close()
		}
	}
	if agentErr != nil {
		return ch.wedge(sp, "concurrent agent registration", agentErr)
	}
	// quiesce: the last chat token and two barrier events
	ch.alice.Chat(lastTok)
	if err := ch.waitAlice(rawHas(lastTok)); err != nil {
		return ch.wedge(sp, "after concurrent phase", err)
	}
	for i := 0; i < 3; i++ {
		if err := ch.barrier(cr, "storm"); err != nil {
			return ch.wedge(sp, "after concurrent phase", err)
		}
	}
	ch.rec.Observe("storms_completed", 1)

	// oracle
	for _, p := range silents {
		ch.checkProbe(cr, p, "silent")
	}
	nvalid := 0
	for _, r := range results {
		if r.p == nil {
			ch.rec.Inconclusive(fmt.Sprintf("case %d: a concurrent dial failed", sp.ID))
			continue
		}
		c2 := &caseRun{sp: sp, tokens: cr.tokens, sent: true, storm: true}
		if r.valid {
			// between the (successful) verdict and the Success frame a concurrent broadcast
			// may legitimately reach the connection: only look for the verdict here
			for _, f := range r.p.cl.Frames() {
				if isInit(f, opclient.InitSuccess) {
					c2.accepted = true
				}
			}
			r.p.reported = r.p.cl.Count()
		} else {
			ch.checkProbe(c2, r.p, "rejected")
		}
		switch {
		case r.valid && c2.accepted:
			nvalid++
			ch.rec.Observe("storm_valid_logins", 1)
		case r.valid:
			if r.verdict == "none" {
				ch.rec.Inconclusive(fmt.Sprintf("case %d: concurrent valid login of %s got no verdict within 60 s", sp.ID, r.user))
			} else {
				ch.rec.Violation("rejected-valid-login", fmt.Sprintf("concurrent phase: the valid first message of operator %s was not accepted (%s)", r.user, r.verdict), map[string]any{"spec": sp})
			}
		case c2.accepted:
			ch.rec.Violation("accepted:concurrent-wrong-credentials", fmt.Sprintf("concurrent phase: a login as %q with a wrong digest / unknown user was authenticated", r.user), map[string]any{"spec": sp, "user": r.user})
		default:
			ch.rec.Observe("storm_rejected_logins", 1)
			if c2.errSeen == 0 && r.verdict != "none" {
				ch.rec.Violation("reply:closed-without-error", "concurrent phase: a rejected login got no InitConnection/Error frame", map[string]any{"spec": sp, "user": r.user})
			}
		}
	}
	S1 := ch.snapshot()
	if S1.Authed != ch.authed+nvalid {
		ch.rec.Violation("state:authenticated-count", fmt.Sprintf("%d stored connections are marked authenticated after the concurrent phase, expected %d", S1.Authed, ch.authed+nvalid), map[string]any{"spec": sp, "client_table": ch.clientTable()})
	}
	// foreign events may only be connect notices of operators that logged in validly. Their
	// number is not checked: EventAppend is called concurrently here and its unsynchronised
	// double append can lose and duplicate entries (C11's race on EventsList).
	extra := tailDiff(S0.Foreign, S1.Foreign)
	bad := false
	for _, e := range extra {
		ok := false
		for _, u := range []string{"bob", "carol", "dave"} {
			if strings.HasPrefix(e, fmt.Sprintf("4/4 user=%q {\"User\":%q}", "", u)) {
				ok = true
			}
		}
		if !ok {
			bad = true
		}
	}
	if bad {
		ch.rec.Violation("state:Events:concurrent", fmt.Sprintf("concurrent phase with %d successful logins appended events that neither the harness nor a successful login caused: %v", nvalid, extra), map[string]any{"spec": sp})
	}
	// leave one after the other
	ch.authed += nvalid
	for _, r := range results {
		if r.p == nil || !r.valid || r.verdict != "success" {
			continue
		}
		s2 := *sp
		s2.User = r.user
		if ch.finishAccepted(&s2, cr, r.p, false) {
			return true
		}
	}
	ch.aliceScan = ch.alice.Count()
	ch.rec.Done(sp, map[string]any{"class": sp.Class, "valid_logins": nvalid, "connections": len(results) + len(silents)})
	return false
}
