package c06

import (
	"encoding/json"
	"fmt"
	"os"
	"os/exec"
	"path/filepath"
	"strings"
	"syscall"
	"time"

	"verifh/lib"
)

func init() {
	// A child process of this property's worker: run the cases of the job file against a
	// fresh in-process teamserver and exit (see run).
	if p := os.Getenv("C06_CHILD"); p != "" {
		os.Exit(childMain(p))
	}
	lib.Register("C06", run)
}

const batchSize = 120 // cases per rig

func run(c *lib.Ctx) {
	c.Rule("one case = one connection to /havoc/ (or the service endpoint) with one first message or connection behaviour; distinct = (class, message bytes, connection behaviour, kinds of broadcast placed before the first message / between first read and verdict / after the verdict, follow-up messages); classes: valid; single-field deletion, retyping (11 kinds), duplication of Head/Body/Event/User/SubEvent/Info/Info.User/Info.Password; wrong event/sub-event codes with the right digest; unknown and near-miss users; digest variants (upper, truncated, extended, of the user name, empty, clear password, other operator's); non-JSON, binary, empty and 1 MiB frames; silent, ping, close, reset and half-frame connections; random 1-3-fold mutations")
	c.Assume(
		"the teamserver runs in-process in a child of the worker (real Start(), real wss clients, real HTTP listener); a child crash with a Havoc frame on the crashing goroutine is the violation, the message was written to disk before it was sent",
		"absence of frames on an unauthenticated socket is decided after the authenticated observer has received the same broadcast and a following barrier event from the same broadcasting goroutine (all writes of the broadcast have been issued), and again at the end of the case and at the end of the rig's life for the long-lived silent / rejected connections",
		"expectation: a message MUST be rejected unless an operator of the profile is named in Head.User or Info.User and Info.Password holds that operator's SHA3-256 hex digest (compared case-insensitively); only the canonical valid message MUST be accepted; everything in between may go either way, but then must behave entirely as accepted or entirely as rejected",
		"ts.EventsList, Listeners, Endpoints, Agents, Service registries and the database are read at quiescent points only (after a frame that the server sent after its last write)",
		"after this shard has recorded the wedge violation once, the harness itself deletes the stale client-table entry that the unchanged tree leaves behind after a wrong-password rejection (observed counter harness_removed_stale_entry), otherwise no later case could run",
	)

	var cases []Spec
	replay := false
	if c.Replay != nil {
		var w struct {
			Spec  *Spec  `json:"spec"`
			Prior []Spec `json:"after_logins"`
		}
		if err := json.Unmarshal(c.Replay, &w); err != nil || w.Spec == nil {
			c.Inconclusive("replay witness does not contain a case spec")
			return
		}
		// the accepted logins that preceded the case in its teamserver come first
		cases = append(append([]Spec{}, w.Prior...), *w.Spec)
		replay = true
	} else {
		all := buildCases(c.Seed, c.Thorough())
		for i := range all {
			if c.Mine(i) {
				cases = append(cases, all[i])
			}
		}
		c.Note("cases_total", len(all))
	}

	p := &parent{c: c, replay: replay}
	for len(cases) > 0 && !p.abort {
		n := batchSize
		if n > len(cases) {
			n = len(cases)
		}
		p.runBatch(cases[:n])
		cases = cases[n:]
		c.Checkpoint()
	}
}

type parent struct {
	c       *lib.Ctx
	replay  bool
	launch  int
	cleanup bool
	wedges  int

	setupFails int
	abort      bool
}

func reFatalAny(log []byte) bool {
	_, _, _, ok := crashClass(string(log))
	return ok
}

// runBatch runs the cases in child processes: one child as long as it survives; after a
// crash / wedge the next child continues behind the case that ended the previous one.
func (p *parent) runBatch(cases []Spec) {
	c := p.c
	byID := map[int]*Spec{}
	for i := range cases {
		byID[cases[i].ID] = &cases[i]
	}
	for len(cases) > 0 {
		p.launch++
		base := filepath.Join(c.Out, fmt.Sprintf("c06-%d-%d", c.Shard, p.launch))
		job := Job{Cases: cases, Events: base + ".events", CurFile: base + ".cur", Cleanup: p.cleanup, Replay: p.replay}
		jb, _ := json.Marshal(job)
		os.WriteFile(base+".job", jb, 0o644)
		ids := make([]int, len(cases))
		for i := range cases {
			ids[i] = cases[i].ID
		}
		cb, _ := json.Marshal(map[string]any{"child_batch_case_ids": ids, "first": cases[0]})
		c.Cur("child-batch", cb)

		logf, _ := os.Create(base + ".log")
		cmd := exec.Command(os.Args[0])
		cmd.Env = append(os.Environ(), "C06_CHILD="+base+".job")
		cmd.Stdout = logf
		cmd.Stderr = logf
		cmd.SysProcAttr = &syscall.SysProcAttr{Pdeathsig: syscall.SIGKILL}
		if err := cmd.Start(); err != nil {
			c.Inconclusive("cannot start child: " + err.Error())
			return
		}
		done := make(chan error, 1)
		go func() { done <- cmd.Wait() }()

		// watchdog on progress of the event file (never a verdict: a stalled child is inconclusive)
		var werr error
		stalled := false
		lastSize, lastChange := int64(-1), time.Now()
	wait:
		for {
			select {
			case werr = <-done:
				break wait
			case <-time.After(500 * time.Millisecond):
				if st, err := os.Stat(job.Events); err == nil && st.Size() != lastSize {
					lastSize, lastChange = st.Size(), time.Now()
				}
				if time.Since(lastChange) > 240*time.Second {
					stalled = true
					cmd.Process.Signal(syscall.SIGQUIT)
					select {
					case werr = <-done:
					case <-time.After(20 * time.Second):
						cmd.Process.Kill()
						werr = <-done
					}
					break wait
				}
			}
		}
		logf.Close()

		evs, _ := readEvents(job.Events, 0)
		doneIDs := map[int]bool{}
		curID := -1
		next := -2
		reason, note := "", ""
		for _, e := range evs {
			switch e.T {
			case "note":
				note = e.What
			case "cur":
				curID = e.Case
			case "done":
				doneIDs[e.Case] = true
				c.Eval()
				c.Distinct(e.Key)
				if e.Sample != nil {
					s := e.Sample
					c.SampleSome(40, func() any { return json.RawMessage(s) })
				}
			case "obs":
				c.Observe(e.Key, e.N)
			case "max":
				c.ObserveMax(e.Key, e.N)
			case "viol":
				c.Violation(e.Sig, e.What, json.RawMessage(e.Witness))
				if strings.HasPrefix(e.Sig, "wedge:") {
					p.wedges++
					p.cleanup = true
				}
			case "inc":
				c.Inconclusive(e.What)
			case "exit":
				next, reason = e.Case, e.Reason
			}
		}
		code := 0
		if werr != nil {
			code = -1
			if ee, ok := werr.(*exec.ExitError); ok {
				code = ee.ExitCode()
			}
		}
		// (the race runtime replaces the exit status by 66 when it has reported a race, so
		// the child's own "exit" event decides, not the status)
		// a rig that could not be set up (no free port, port clash) or a child that ended
		// before its first case without a crash report (the in-process teamserver calls
		// os.Exit(0) when it cannot bind): retry the same cases a few times
		if reason == "observer-rejected" {
			// no authenticated observer can be had on this tree: the violation is recorded,
			// nothing else can be judged
			c.Eval()
			p.abort = true
			return
		}
		if logb, _ := os.ReadFile(base + ".log"); reason == "setup" || (curID < 0 && reason == "" && !reFatalAny(logb)) {
			p.setupFails++
			if p.setupFails >= 4 {
				c.Inconclusive(fmt.Sprintf("rig could not be set up %d times in a row (%s); %d cases not run", p.setupFails, note, len(cases)))
				return
			}
			time.Sleep(time.Duration(p.setupFails) * time.Second)
			continue
		}
		p.setupFails = 0
		switch {
		case (code == exitDone || code == 66) && next == -1:
			os.Remove(base + ".log")
			return
		case (code == exitRestart || code == 66) && next >= 0:
			// the child asked for a fresh rig; the case that made it do so has been judged
			if sp := byID[next-1]; sp != nil && !doneIDs[next-1] {
				c.Eval()
				c.Distinct(sp.Key())
			}
			cases = after(cases, next-1)
			continue
		}
		// crash or stall
		logb, _ := os.ReadFile(base + ".log")
		var witness map[string]any
		if b, err := os.ReadFile(job.CurFile); err == nil {
			json.Unmarshal(b, &witness)
		}
		if witness == nil {
			witness = map[string]any{}
			if sp := byID[curID]; sp != nil {
				witness["spec"] = sp
			}
		}
		if stalled {
			c.Inconclusive(fmt.Sprintf("child made no progress for 240 s at case %d (goroutine dump in %s)", curID, base+".log"))
		} else if msg, frame, region, ok := crashClass(string(logb)); ok && frame != "" {
			witness["crash_log"] = region
			witness["exit_code"] = code
			c.Eval()
			c.Observe("teamserver_crashes", 1)
			if sp := byID[curID]; sp != nil {
				c.Distinct(sp.Key())
				if sp.EP == "svc" {
					c.Observe("svc_handshakes", 1)
				} else {
					c.Observe("op_handshakes", 1)
				}
			}
			c.Violation("crash:"+msg+"@"+frame, "a message from a connection that has not authenticated killed the teamserver process: "+msg+" in "+frame, witness)
		} else if ok {
			c.Inconclusive(fmt.Sprintf("child died at case %d with %q and no teamserver frame on the crashing goroutine (see %s)", curID, msg, base+".log"))
		} else {
			c.Inconclusive(fmt.Sprintf("child exited with code %d at case %d without a Go crash report (see %s)", code, curID, base+".log"))
		}
		if curID < 0 {
			// died before the first case: do not loop forever
			if p.launch > 50 {
				return
			}
			curID = cases[0].ID
		}
		cases = after(cases, curID)
	}
}

// after returns the cases behind the one with the given id (ids are increasing).
func after(cases []Spec, id int) []Spec {
	for i := range cases {
		if cases[i].ID > id {
			return cases[i:]
		}
	}
	return nil
}
