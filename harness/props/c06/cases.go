package c06

import (
	"encoding/hex"
	"fmt"
	"math/rand"
	"sort"
	"strings"

	"golang.org/x/crypto/sha3"
)

// ---------------------------------------------------------------------------------------
// Case specification. A Spec is everything a child needs to run one handshake case and is
// what goes into a violation witness (replay re-runs exactly the Spec).
// ---------------------------------------------------------------------------------------

type Spec struct {
	ID    int    `json:"id"`
	EP    string `json:"ep"`    // "op" (operator endpoint /havoc/) | "svc" (service endpoint)
	Class string `json:"class"` // generator class (stable name, goes into signatures)
	// Conn: what the connection does instead of / in addition to sending the message:
	// msg (send it), silent, ping, close-ws, close-tcp, rst, partial (half a frame, then silence)
	Conn   string `json:"conn"`
	Binary bool   `json:"binary,omitempty"`
	Hex    bool   `json:"hex,omitempty"` // Pre is hex encoded
	// message = Pre + Fill*FillN + Suf (so that 1 MiB messages keep witnesses small)
	Pre   string `json:"pre"`
	Fill  string `json:"fill,omitempty"`
	FillN int    `json:"filln,omitempty"`
	Suf   string `json:"suf,omitempty"`
	// Expect: accept (must authenticate), reject (must not), may (statement leaves it open)
	Expect string `json:"expect"`
	User   string `json:"user,omitempty"` // operator whose credentials the message was derived from
	// broadcasts fired before the first message / between first read and verdict / after the verdict
	PreK   string   `json:"prek,omitempty"`
	WinK   string   `json:"wink,omitempty"`
	PostK  string   `json:"postk,omitempty"`
	LockK  string   `json:"lockk,omitempty"`  // broadcast started while the verdict is being written to the probing connection
	Follow []string `json:"follow,omitempty"` // messages sent on the socket after the verdict
	Seed   int64    `json:"seed"`
}

func (s *Spec) Msg() []byte {
	pre := []byte(s.Pre)
	if s.Hex {
		pre, _ = hex.DecodeString(s.Pre)
	}
	out := make([]byte, 0, len(pre)+len(s.Fill)*s.FillN+len(s.Suf))
	out = append(out, pre...)
	for i := 0; i < s.FillN; i++ {
		out = append(out, s.Fill...)
	}
	out = append(out, s.Suf...)
	return out
}

// Key identifies the case for the distinct-case count: class, message, connection
// behaviour, broadcast placement and follow-ups.
func (s *Spec) Key() string {
	return fmt.Sprintf("%s|%s|%s|%v|%s|%d|%s|%s|%s|%s|%s|%s", s.EP, s.Class, s.Conn, s.Binary, s.Pre, s.FillN, s.Suf, s.PreK, s.WinK, s.PostK, s.LockK, strings.Join(s.Follow, ","))
}

// ---------------------------------------------------------------------------------------
// Profile facts of the rig (rig.Options defaults): operators and service password.
// ---------------------------------------------------------------------------------------

var operators = []string{"alice", "bob", "carol", "dave"}

const (
	svcEndpoint = "service-endpoint"
	svcPassword = "service-pw"
)

func opPassword(u string) string { return "pw-" + u }

// digestOf is the SHA3-256 hex digest, computed with x/crypto directly (the statement
// names the function; this is the reference the monitor compares against).
func digestOf(s string) string {
	h := sha3.Sum256([]byte(s))
	return hex.EncodeToString(h[:])
}

func isOperator(u string) bool {
	for _, o := range operators {
		if o == u {
			return true
		}
	}
	return false
}

// ---------------------------------------------------------------------------------------
// Ordered JSON tree with duplicate keys, so that deletions / retypings / duplications can
// be expressed exactly and the expectation can be computed from the structure.
// ---------------------------------------------------------------------------------------

type jnode struct {
	raw    string // scalar rendered as is (already JSON)
	str    *string
	fields []jfield // object when fields != nil || isObj
	isObj  bool
}

type jfield struct {
	k string
	v *jnode
}

func jstr(s string) *jnode    { return &jnode{str: &s} }
func jraw(s string) *jnode    { return &jnode{raw: s} }
func jobj(f ...jfield) *jnode { return &jnode{fields: f, isObj: true} }

func jsonString(s string) string {
	// plain ASCII strings only need quote/backslash/control escaping; no \u escapes are
	// ever produced for printable characters (the expectation relies on that).
	var sb strings.Builder
	sb.WriteByte('"')
	for _, r := range s {
		switch {
		case r == '"' || r == '\\':
			sb.WriteByte('\\')
			sb.WriteRune(r)
		case r < 0x20:
			fmt.Fprintf(&sb, "\\u%04x", r)
		default:
			sb.WriteRune(r)
		}
	}
	sb.WriteByte('"')
	return sb.String()
}

func (n *jnode) render(sb *strings.Builder) {
	switch {
	case n.isObj:
		sb.WriteByte('{')
		for i, f := range n.fields {
			if i > 0 {
				sb.WriteByte(',')
			}
			sb.WriteString(jsonString(f.k))
			sb.WriteByte(':')
			f.v.render(sb)
		}
		sb.WriteByte('}')
	case n.str != nil:
		sb.WriteString(jsonString(*n.str))
	default:
		sb.WriteString(n.raw)
	}
}

func (n *jnode) String() string {
	var sb strings.Builder
	n.render(&sb)
	return sb.String()
}

func (n *jnode) clone() *jnode {
	c := &jnode{raw: n.raw, isObj: n.isObj}
	if n.str != nil {
		s := *n.str
		c.str = &s
	}
	for _, f := range n.fields {
		c.fields = append(c.fields, jfield{f.k, f.v.clone()})
	}
	return c
}

// children returns every value stored under key (case-insensitively, every duplicate).
func (n *jnode) children(key string) []*jnode {
	var out []*jnode
	if n == nil || !n.isObj {
		return nil
	}
	for _, f := range n.fields {
		if strings.EqualFold(f.k, key) {
			out = append(out, f.v)
		}
	}
	return out
}

func walk(roots []*jnode, path ...string) []*jnode {
	cur := roots
	for _, k := range path {
		var next []*jnode
		for _, n := range cur {
			next = append(next, n.children(k)...)
		}
		cur = next
	}
	return cur
}

func stringsAt(root *jnode, path ...string) []string {
	var out []string
	for _, n := range walk([]*jnode{root}, path...) {
		if n.str != nil {
			out = append(out, *n.str)
		}
	}
	return out
}

// loginTree is the valid first message (Appendix E) for user with the given password digest.
func loginTree(user, digest string) *jnode {
	return jobj(
		jfield{"Head", jobj(
			jfield{"Event", jraw("1")},
			jfield{"User", jstr(user)},
			jfield{"Time", jstr("")},
			jfield{"OneTime", jstr("")},
		)},
		jfield{"Body", jobj(
			jfield{"SubEvent", jraw("3")},
			jfield{"Info", jobj(
				jfield{"User", jstr(user)},
				jfield{"Password", jstr(digest)},
			)},
		)},
	)
}

// expectOp computes the expectation of a structured operator message from the statement:
// it can only authenticate if some operator of the profile is named (Head.User or
// Info.User, any duplicate, keys compared case-insensitively) and the digest of that very
// operator's password is carried in Info.Password. Everything else MUST be rejected; a
// message that does carry matching credentials but deviates from the canonical shape MAY
// go either way.
func expectOp(root *jnode) string {
	named := append(stringsAt(root, "Head", "User"), stringsAt(root, "Body", "Info", "User")...)
	digs := stringsAt(root, "Body", "Info", "Password")
	for _, u := range named {
		if !isOperator(u) {
			continue
		}
		want := digestOf(opPassword(u))
		for _, d := range digs {
			if strings.EqualFold(d, want) {
				return "may"
			}
		}
	}
	return "reject"
}

// expectRaw: an unstructured message can only be acceptable if it contains some
// operator's digest at all.
func expectRaw(msg string) string {
	l := strings.ToLower(msg)
	for _, u := range operators {
		if strings.Contains(l, digestOf(opPassword(u))) {
			return "may"
		}
	}
	return "reject"
}

// path addressing inside the login tree
var opPaths = map[string][]string{
	"Head":          {"Head"},
	"Head.Event":    {"Head", "Event"},
	"Head.User":     {"Head", "User"},
	"Head.Time":     {"Head", "Time"},
	"Head.OneTime":  {"Head", "OneTime"},
	"Body":          {"Body"},
	"Body.SubEvent": {"Body", "SubEvent"},
	"Body.Info":     {"Body", "Info"},
	"Info.User":     {"Body", "Info", "User"},
	"Info.Password": {"Body", "Info", "Password"},
}

var opPathNames = []string{"Head", "Head.Event", "Head.User", "Head.Time", "Head.OneTime", "Body", "Body.SubEvent", "Body.Info", "Info.User", "Info.Password"}

// the six fields the property text names (deletion / retyping / duplication of each)
var opCoreFields = []string{"Head.Event", "Head.User", "Body.SubEvent", "Body.Info", "Info.User", "Info.Password"}

func parentOf(root *jnode, path []string) (*jnode, string) {
	n := root
	for _, k := range path[:len(path)-1] {
		c := n.children(k)
		if len(c) == 0 {
			return nil, ""
		}
		n = c[0]
	}
	return n, path[len(path)-1]
}

func del(root *jnode, name string) {
	p, k := parentOf(root, opPaths[name])
	if p == nil {
		return
	}
	var nf []jfield
	for _, f := range p.fields {
		if f.k != k {
			nf = append(nf, f)
		}
	}
	p.fields = nf
}

func set(root *jnode, name string, v *jnode) {
	p, k := parentOf(root, opPaths[name])
	if p == nil {
		return
	}
	for i := range p.fields {
		if p.fields[i].k == k {
			p.fields[i].v = v
			return
		}
	}
	p.fields = append(p.fields, jfield{k, v})
}

// dup inserts a second occurrence of the key, before (first=true) or after the original.
func dup(root *jnode, name string, v *jnode, first bool) {
	p, k := parentOf(root, opPaths[name])
	if p == nil {
		return
	}
	var nf []jfield
	for _, f := range p.fields {
		if f.k == k && first {
			nf = append(nf, jfield{k, v})
		}
		nf = append(nf, f)
		if f.k == k && !first {
			nf = append(nf, jfield{k, v})
		}
	}
	p.fields = nf
}

func get(root *jnode, name string) *jnode {
	n := walk([]*jnode{root}, opPaths[name]...)
	if len(n) == 0 {
		return nil
	}
	return n[0]
}

var retypes = []struct {
	name string
	mk   func(orig *jnode) *jnode
}{
	{"number", func(*jnode) *jnode { return jraw("7") }},
	{"float", func(*jnode) *jnode { return jraw("1.5") }},
	{"bignum", func(*jnode) *jnode { return jraw("1e999") }},
	{"negative", func(*jnode) *jnode { return jraw("-1") }},
	{"list", func(*jnode) *jnode { return jraw("[]") }},
	{"list-of-self", func(o *jnode) *jnode { return jraw("[" + o.String() + "]") }},
	{"object", func(*jnode) *jnode { return jobj() }},
	{"object-of-self", func(o *jnode) *jnode { return jobj(jfield{"v", o.clone()}) }},
	{"null", func(*jnode) *jnode { return jraw("null") }},
	{"bool", func(*jnode) *jnode { return jraw("true") }},
	{"string", func(o *jnode) *jnode { // the other scalar kind: number <-> string
		if o.str != nil {
			return jraw("0")
		}
		return jstr(o.raw)
	}},
}

var bcastKinds = []string{"chat", "chat", "chat", "chat", "agent", "console", "listener", ""}
var followKinds = []string{"task", "chat", "listener-add", "listener-remove", "mark", "gate", "task-ts"}

func pickTiming(r *rand.Rand, s *Spec) {
	s.PreK = bcastKinds[r.Intn(len(bcastKinds))]
	s.WinK = bcastKinds[r.Intn(len(bcastKinds))]
	s.PostK = bcastKinds[r.Intn(len(bcastKinds))]
	if r.Intn(2) == 0 {
		s.LockK = "chat"
	}
	n := r.Intn(4)
	perm := r.Perm(len(followKinds))
	for i := 0; i < n; i++ {
		s.Follow = append(s.Follow, followKinds[perm[i]])
	}
	sort.Strings(s.Follow)
}

// opCase wraps a structured message into a Spec.
func opCase(class, user string, root *jnode, expect string) Spec {
	if expect == "" {
		expect = expectOp(root)
	}
	return Spec{EP: "op", Class: class, Conn: "msg", Pre: root.String(), Expect: expect, User: user}
}

func rawCase(class, msg string) Spec {
	return Spec{EP: "op", Class: class, Conn: "msg", Pre: msg, Expect: expectRaw(msg)}
}

func randHex(r *rand.Rand, n int) string {
	const h = "0123456789abcdef"
	b := make([]byte, n)
	for i := range b {
		b[i] = h[r.Intn(16)]
	}
	return string(b)
}

func randPrintable(r *rand.Rand, n int) string {
	b := make([]byte, n)
	for i := range b {
		b[i] = byte(0x20 + r.Intn(0x5f))
	}
	return string(b)
}

// coreOpCases enumerates the classes the property text lists; r only picks which operator a
// case is derived from.
func coreOpCases(r *rand.Rand, thorough bool) []Spec {
	var out []Spec
	pick := func() string { return operators[1+r.Intn(len(operators)-1)] } // bob..dave (alice is the observer)
	valid := func(u string) *jnode { return loginTree(u, digestOf(opPassword(u))) }

	// the valid message (control; must authenticate), one per operator incl. the observer's
	// own name (second login of a user who is online: "user already connected" path)
	for _, u := range []string{"bob", "carol", "dave"} {
		out = append(out, opCase("valid", u, valid(u), "accept"))
	}
	out = append(out, opCase("valid-already-connected", "alice", valid("alice"), "may"))

	// single-field deletions
	for _, name := range opPathNames {
		u := pick()
		t := valid(u)
		del(t, name)
		out = append(out, opCase("del:"+name, u, t, ""))
	}
	// deletions from an otherwise wrong-password message (failure path + missing field)
	for _, name := range []string{"Info.User", "Info.Password", "Body.Info", "Body"} {
		u := pick()
		t := loginTree(u, digestOf("wrong"))
		del(t, name)
		out = append(out, opCase("del-wrongpw:"+name, u, t, ""))
	}
	// retypings: the whole path x kind matrix in the thorough tier; in the quick tier the six
	// fields the property names x {number, list, object, null, bool, string} plus Head/Body
	// (the rest of the matrix is reached by the random cases)
	quickKinds := map[string]bool{"number": true, "list": true, "object": true, "null": true, "bool": true, "string": true}
	quickPaths := map[string]bool{"Head": true, "Body": true}
	for _, f := range opCoreFields {
		quickPaths[f] = true
	}
	for _, name := range opPathNames {
		for _, rt := range retypes {
			if !thorough && !(quickPaths[name] && quickKinds[rt.name]) {
				continue
			}
			if !thorough && (name == "Head" || name == "Body") && rt.name != "null" && rt.name != "list" && rt.name != "number" {
				continue
			}
			u := pick()
			t := valid(u)
			set(t, name, rt.mk(get(t, name)))
			out = append(out, opCase("retype:"+name+":"+rt.name, u, t, ""))
		}
	}
	// duplications: (wrong, right) and (right, wrong)
	wrongOf := func(name, u string) *jnode {
		switch name {
		case "Head.Event":
			return jraw("2")
		case "Body.SubEvent":
			return jraw("1")
		case "Head.User", "Info.User":
			return jstr("mallory")
		case "Info.Password":
			return jstr(digestOf("wrong"))
		case "Body.Info":
			return jobj(jfield{"User", jstr(u)}, jfield{"Password", jstr(digestOf("wrong"))})
		case "Head":
			return jobj(jfield{"Event", jraw("1")}, jfield{"User", jstr("mallory")})
		case "Body":
			return jobj(jfield{"SubEvent", jraw("3")}, jfield{"Info", jobj()})
		}
		return jraw("null")
	}
	for _, name := range append(append([]string{}, opCoreFields...), "Head", "Body") {
		for _, first := range []bool{true, false} {
			u := pick()
			t := valid(u)
			dup(t, name, wrongOf(name, u), first)
			out = append(out, opCase(fmt.Sprintf("dup:%s:wrong-first=%v", name, first), u, t, ""))
		}
		// the same value twice
		u := pick()
		t := valid(u)
		dup(t, name, get(t, name).clone(), false)
		out = append(out, opCase("dup:"+name+":same", u, t, ""))
	}
	// wrong event / sub-event codes with the right digest
	for _, ev := range []string{"0", "2", "3", "4", "5", "7", "9", "16", "-1", "2147483648", "4294967297"} {
		u := pick()
		t := valid(u)
		set(t, "Head.Event", jraw(ev))
		out = append(out, opCase("event:"+ev, u, t, ""))
	}
	for _, sub := range []string{"0", "1", "2", "4", "5", "-3", "259"} {
		u := pick()
		t := valid(u)
		set(t, "Body.SubEvent", jraw(sub))
		out = append(out, opCase("subevent:"+sub, u, t, ""))
	}
	// wrong codes AND wrong digest (the logging path of the failure branch)
	{
		u := pick()
		t := loginTree(u, digestOf("wrong"))
		set(t, "Head.Event", jraw("7"))
		out = append(out, opCase("event:7+wrongpw", u, t, ""))
	}
	// unknown / near-miss user names, all with alice's... with a real operator's digest
	for _, v := range []struct{ cls, name string }{
		{"user:unknown", "mallory"}, {"user:empty", ""}, {"user:prefix", "bo"}, {"user:prefix1", "b"},
		{"user:suffix", "bobx"}, {"user:case", "Bob"}, {"user:space", "bob "}, {"user:nul", "bob\x00"},
		{"user:long", strings.Repeat("b", 70000)}, {"user:unicode", "bób"}, {"user:dot", "bob."},
	} {
		t := loginTree(v.name, digestOf(opPassword("bob")))
		out = append(out, opCase(v.cls, "bob", t, ""))
		// Head.User unknown but Info.User a real operator, and the other way round
		t2 := loginTree("bob", digestOf(opPassword("bob")))
		set(t2, "Head.User", jstr(v.name))
		out = append(out, opCase(v.cls+":head-only", "bob", t2, ""))
	}
	{
		t := valid("carol")
		set(t, "Info.User", jstr("mallory"))
		out = append(out, opCase("user:info-only-unknown", "carol", t, ""))
		t = valid("carol")
		set(t, "Info.User", jstr("dave"))
		out = append(out, opCase("user:info-other-operator", "carol", t, ""))
		// alice named, bob's digest (cross-operator digest): must be rejected
		t = loginTree("carol", digestOf(opPassword("bob")))
		out = append(out, opCase("digest:other-operator", "carol", t, ""))
	}
	// digest variants
	for _, v := range []struct {
		cls string
		mk  func(u string) string
	}{
		{"digest:upper", func(u string) string { return strings.ToUpper(digestOf(opPassword(u))) }},
		{"digest:trunc63", func(u string) string { return digestOf(opPassword(u))[:63] }},
		{"digest:trunc32", func(u string) string { return digestOf(opPassword(u))[:32] }},
		{"digest:trunc1", func(u string) string { return digestOf(opPassword(u))[:1] }},
		{"digest:extended", func(u string) string { return digestOf(opPassword(u)) + "0" }},
		{"digest:of-username", func(u string) string { return digestOf(u) }},
		{"digest:empty", func(u string) string { return "" }},
		{"digest:clear-password", func(u string) string { return opPassword(u) }},
		{"digest:of-digest", func(u string) string { return digestOf(digestOf(opPassword(u))) }},
		{"digest:padded", func(u string) string { return " " + digestOf(opPassword(u)) }},
		{"digest:wrong", func(u string) string { return digestOf("wrong") }},
		{"digest:0x", func(u string) string { return "0x" + digestOf(opPassword(u)) }},
	} {
		u := pick()
		out = append(out, opCase(v.cls, u, loginTree(u, v.mk(u)), ""))
	}
	// key spelling / extra fields (credentials right, shape not canonical)
	{
		u := pick()
		m := strings.NewReplacer(`"Head"`, `"head"`, `"Body"`, `"BODY"`, `"Event"`, `"event"`, `"SubEvent"`, `"subevent"`).Replace(valid(u).String())
		s := rawCase("keycase:struct-fields", m)
		s.User = u
		out = append(out, s)
		m = strings.NewReplacer(`"Password"`, `"password"`).Replace(valid(u).String())
		s = rawCase("keycase:info-password", m)
		s.User = u
		out = append(out, s)
		t := valid(u)
		t.fields = append(t.fields, jfield{"Extra", jobj(jfield{"x", jraw("[1,2,3]")})})
		out = append(out, opCase("extra-field", u, t, ""))
	}
	// non-JSON text, scalars, truncated / trailing garbage
	v := valid("bob").String()
	for _, c := range []struct{ cls, msg string }{
		{"raw:text", "hello teamserver"}, {"raw:null", "null"}, {"raw:list", "[]"}, {"raw:number", "123"},
		{"raw:string", `"alice"`}, {"raw:true", "true"}, {"raw:object-empty", "{}"},
		{"raw:head-null", `{"Head":null,"Body":null}`}, {"raw:info-null", `{"Head":{"Event":1,"User":"bob"},"Body":{"SubEvent":3,"Info":null}}`},
		{"raw:truncated", v[:len(v)-9]}, {"raw:trailing", v + "}x"}, {"raw:two-docs", v + v},
		{"raw:list-of-login", "[" + v + "]"}, {"raw:string-of-login", jsonString(v)},
		{"raw:nested", strings.Repeat("[", 12000) + strings.Repeat("]", 12000)},
		{"raw:nested-obj", strings.Repeat(`{"Head":`, 6000) + "1" + strings.Repeat("}", 6000)},
		{"raw:bad-utf8", "{\"Head\":{\"Event\":1,\"User\":\"bob\xff\xfe\"},\"Body\":{\"SubEvent\":3,\"Info\":{\"User\":\"bob\",\"Password\":\"x\"}}}"},
		{"raw:http", "GET / HTTP/1.1\r\nHost: x\r\n\r\n"},
	} {
		out = append(out, rawCase(c.cls, c.msg))
	}
	// empty frame, binary frames
	out = append(out, Spec{EP: "op", Class: "frame:empty", Conn: "msg", Pre: "", Expect: "reject"})
	out = append(out, Spec{EP: "op", Class: "frame:empty-binary", Conn: "msg", Binary: true, Pre: "", Expect: "reject"})
	out = append(out, Spec{EP: "op", Class: "frame:binary-random", Conn: "msg", Binary: true, Hex: true, Pre: randHex(r, 512), Expect: "reject"})
	out = append(out, Spec{EP: "op", Class: "frame:binary-nul", Conn: "msg", Binary: true, Hex: true, Pre: strings.Repeat("00", 300), Expect: "reject"})
	{
		s := rawCase("frame:binary-valid-login", valid("dave").String())
		s.Binary = true
		s.User = "dave"
		out = append(out, s)
	}
	// 1 MiB frames
	out = append(out, Spec{EP: "op", Class: "frame:1MiB-text", Conn: "msg", Fill: "A", FillN: 1 << 20, Expect: "reject"})
	out = append(out, Spec{EP: "op", Class: "frame:1MiB-binary", Conn: "msg", Binary: true, Fill: "\x00\xff", FillN: 1 << 19, Expect: "reject"})
	{
		w := loginTree("bob", digestOf("wrong")).String()
		i := strings.Index(w, `"Time":"`) + len(`"Time":"`)
		out = append(out, Spec{EP: "op", Class: "frame:1MiB-json-wrongpw", Conn: "msg", Pre: w[:i], Fill: "x", FillN: 1 << 20, Suf: w[i:], Expect: "reject", User: "bob"})
		j := strings.Index(v, `"Time":"`) + len(`"Time":"`)
		out = append(out, Spec{EP: "op", Class: "frame:1MiB-json-valid", Conn: "msg", Pre: v[:j], Fill: "x", FillN: 1 << 20, Suf: v[j:], Expect: "may", User: "bob"})
		out = append(out, Spec{EP: "op", Class: "frame:1MiB-open-brackets", Conn: "msg", Fill: "[", FillN: 1 << 20, Expect: "reject"})
	}
	// connection behaviours without a (complete) first message
	for _, cb := range []string{"silent", "ping", "close-ws", "close-tcp", "rst", "partial"} {
		out = append(out, Spec{EP: "op", Class: "conn:" + cb, Conn: cb, Pre: v, Expect: "reject"})
	}
	return out
}

// randomOpCase draws one more case: one to three mutations of a login message of a random
// operator (right or wrong digest), or a random unstructured message.
func randomOpCase(r *rand.Rand) Spec {
	if r.Intn(10) == 0 {
		switch r.Intn(4) {
		case 0:
			return rawCase("rnd:text", randPrintable(r, 1+r.Intn(200)))
		case 1:
			return Spec{EP: "op", Class: "rnd:binary", Conn: "msg", Binary: true, Hex: true, Pre: randHex(r, 2*(1+r.Intn(300))), Expect: "reject"}
		case 2:
			v := loginTree("bob", digestOf(opPassword("bob"))).String()
			cut := 1 + r.Intn(len(v)-1)
			s := rawCase("rnd:truncated", v[:cut])
			s.Expect = "reject" // an incomplete document names nobody
			return s
		default:
			cb := []string{"silent", "ping", "close-ws", "close-tcp", "rst", "partial"}[r.Intn(6)]
			return Spec{EP: "op", Class: "conn:" + cb, Conn: cb, Pre: loginTree("bob", digestOf(opPassword("bob"))).String(), Expect: "reject"}
		}
	}
	u := operators[r.Intn(len(operators))]
	dig := digestOf(opPassword(u))
	var cls []string
	switch r.Intn(5) {
	case 0:
		dig = digestOf("wrong-" + randHex(r, 4))
		cls = append(cls, "wrongpw")
	case 1:
		dig = randHex(r, 64)
		cls = append(cls, "randdigest")
	}
	t := loginTree(u, dig)
	n := 1 + r.Intn(3)
	for i := 0; i < n; i++ {
		name := opPathNames[r.Intn(len(opPathNames))]
		if get(t, name) == nil {
			continue
		}
		switch r.Intn(4) {
		case 0:
			del(t, name)
			cls = append(cls, "del:"+name)
		case 1:
			rt := retypes[r.Intn(len(retypes))]
			set(t, name, rt.mk(get(t, name)))
			cls = append(cls, "retype:"+name+":"+rt.name)
		case 2:
			rt := retypes[r.Intn(len(retypes))]
			dup(t, name, rt.mk(get(t, name)), r.Intn(2) == 0)
			cls = append(cls, "dup:"+name+":"+rt.name)
		case 3:
			switch name {
			case "Head.Event", "Body.SubEvent":
				set(t, name, jraw(fmt.Sprint(r.Intn(20)-2)))
				cls = append(cls, "code:"+name)
			case "Head.User", "Info.User":
				alt := []string{"mallory", "", "ali", "Alice", "root", operators[r.Intn(len(operators))]}[r.Intn(6)]
				set(t, name, jstr(alt))
				cls = append(cls, "user:"+name)
			default:
				set(t, name, jstr(randPrintable(r, r.Intn(80))))
				cls = append(cls, "str:"+name)
			}
		}
	}
	s := opCase("rnd:"+strings.Join(cls, "+"), u, t, "")
	return s
}

// ---------------------------------------------------------------------------------------
// Service endpoint first messages.
// ---------------------------------------------------------------------------------------

func svcTree(typ string, body ...jfield) *jnode {
	return jobj(jfield{"Head", jobj(jfield{"Type", jstr(typ)})}, jfield{"Body", jobj(body...)})
}

// expectSvc: nothing may be dispatched before the service password has been presented; a
// message that does not carry the password as a Body.Password string MUST be refused.
func expectSvc(root *jnode) string {
	for _, p := range stringsAt(root, "Body", "Password") {
		if p == svcPassword {
			return "may"
		}
	}
	return "reject"
}

func svcCase(class string, root *jnode, expect string) Spec {
	if expect == "" {
		expect = expectSvc(root)
	}
	return Spec{EP: "svc", Class: class, Conn: "msg", Pre: root.String(), Expect: expect}
}

var svcFollowKinds = []string{"register-agent", "listener-add", "exc2", "agent-task", "agent-output", "listener-start"}

func coreSvcCases(r *rand.Rand) []Spec {
	var out []Spec
	out = append(out, svcCase("svc:valid", svcTree("Register", jfield{"Password", jstr(svcPassword)}), "accept"))
	for _, v := range []struct{ cls, pw string }{
		{"svc:pw-wrong", "nope"}, {"svc:pw-empty", ""}, {"svc:pw-prefix", svcPassword[:len(svcPassword)-1]},
		{"svc:pw-suffix", svcPassword + "x"}, {"svc:pw-upper", strings.ToUpper(svcPassword)}, {"svc:pw-space", svcPassword + " "},
		{"svc:pw-digest", digestOf(svcPassword)}, {"svc:pw-nul", svcPassword + "\x00"}, {"svc:pw-long", strings.Repeat("s", 100000)},
	} {
		out = append(out, svcCase(v.cls, svcTree("Register", jfield{"Password", jstr(v.pw)}), ""))
	}
	for _, rt := range retypes {
		out = append(out, svcCase("svc:retype:Password:"+rt.name, svcTree("Register", jfield{"Password", rt.mk(jstr(svcPassword))}), ""))
		t := svcTree("Register", jfield{"Password", jstr(svcPassword)})
		t.fields[0].v.fields[0].v = rt.mk(jstr("Register"))
		out = append(out, svcCase("svc:retype:Type:"+rt.name, t, ""))
	}
	out = append(out, svcCase("svc:del:Password", svcTree("Register"), ""))
	out = append(out, svcCase("svc:del:Body", jobj(jfield{"Head", jobj(jfield{"Type", jstr("Register")})}), ""))
	out = append(out, svcCase("svc:del:Head", jobj(jfield{"Body", jobj(jfield{"Password", jstr(svcPassword)})}), ""))
	out = append(out, svcCase("svc:del:Type", jobj(jfield{"Head", jobj()}, jfield{"Body", jobj(jfield{"Password", jstr(svcPassword)})}), ""))
	out = append(out, svcCase("svc:dup:Password:wrong-last", svcTree("Register", jfield{"Password", jstr(svcPassword)}, jfield{"Password", jstr("nope")}), ""))
	out = append(out, svcCase("svc:dup:Password:wrong-first", svcTree("Register", jfield{"Password", jstr("nope")}, jfield{"Password", jstr(svcPassword)}), ""))
	// other message kinds first, without and with the password in the body
	for _, typ := range []string{"RegisterAgent", "Agent", "Listener", "register", "REGISTER", "Register ", "", "Unknown"} {
		body := []jfield{}
		switch typ {
		case "RegisterAgent":
			body = append(body, jfield{"Agent", jraw(`{"Name":"c06-first","MagicValue":"0x43303630","Author":"x","Description":"d","Formats":[],"SupportedOS":["linux"],"Commands":[],"BuildingConfig":{}}`)})
		case "Agent":
			body = append(body, jfield{"Type", jstr("AgentOutput")}, jfield{"AgentID", jstr("00000000")}, jfield{"Callback", jraw(`{"Type":"Good","Message":"c06-first"}`)})
		case "Listener":
			body = append(body, jfield{"Type", jstr("ListenerAdd")}, jfield{"Listener", jraw(`{"Name":"c06-first","Agent":"x","Items":[]}`)})
		}
		out = append(out, svcCase("svc:first:"+typ, svcTree(typ, body...), ""))
		out = append(out, svcCase("svc:first:"+typ+"+password", svcTree(typ, append(body, jfield{"Password", jstr(svcPassword)})...), ""))
	}
	for _, c := range []struct{ cls, msg string }{
		{"svc:raw:text", "hello"}, {"svc:raw:null", "null"}, {"svc:raw:list", "[]"}, {"svc:raw:number", "1"},
		{"svc:raw:empty-object", "{}"}, {"svc:raw:head-null", `{"Head":null,"Body":null}`},
		{"svc:raw:truncated", `{"Head":{"Type":"Register"},"Body":{"Password":"` + svcPassword},
		{"svc:raw:nested", strings.Repeat("[", 12000) + strings.Repeat("]", 12000)},
	} {
		e := "reject"
		out = append(out, Spec{EP: "svc", Class: c.cls, Conn: "msg", Pre: c.msg, Expect: e})
	}
	out = append(out, Spec{EP: "svc", Class: "svc:frame:empty", Conn: "msg", Expect: "reject"})
	out = append(out, Spec{EP: "svc", Class: "svc:frame:binary", Conn: "msg", Binary: true, Hex: true, Pre: randHex(r, 256), Expect: "reject"})
	out = append(out, Spec{EP: "svc", Class: "svc:frame:1MiB", Conn: "msg", Fill: "A", FillN: 1 << 20, Expect: "reject"})
	{
		s := svcCase("svc:frame:binary-valid", svcTree("Register", jfield{"Password", jstr(svcPassword)}), "may")
		s.Binary = true
		out = append(out, s)
	}
	for _, cb := range []string{"silent", "close-ws", "close-tcp", "partial"} {
		out = append(out, Spec{EP: "svc", Class: "svc:conn:" + cb, Conn: cb, Pre: `{"Head":{"Type":"Register"},"Body":{"Password":"nope"}}`, Expect: "reject"})
	}
	return out
}

func randomSvcCase(r *rand.Rand) Spec {
	types := []string{"Register", "Register", "Register", "RegisterAgent", "Agent", "Listener", "register", "x"}
	typ := types[r.Intn(len(types))]
	pws := []string{"nope", "", svcPassword[:r.Intn(len(svcPassword))], svcPassword + randPrintable(r, 1+r.Intn(3)), digestOf(svcPassword), randPrintable(r, r.Intn(40))}
	pw := pws[r.Intn(len(pws))]
	var pwNode *jnode = jstr(pw)
	cls := "svc:rnd:" + typ
	if r.Intn(4) == 0 {
		rt := retypes[r.Intn(len(retypes))]
		pwNode = rt.mk(jstr(svcPassword))
		cls += ":retype:" + rt.name
	}
	t := svcTree(typ, jfield{"Password", pwNode})
	if r.Intn(6) == 0 {
		t.fields[1].v.fields = nil
		cls += ":nopw"
	}
	return svcCase(cls, t, "")
}

// buildCases produces the tier's whole case list; it depends on (seed, tier) only, so every
// shard computes the same list and takes the entries with index%shards == shard.
func buildCases(seed int64, thorough bool) []Spec {
	r := rand.New(rand.NewSource(seed*7919 + 606))
	opTotal, svcTotal := 400, 96
	if thorough {
		opTotal, svcTotal = 20000, 2000
	}
	ops := coreOpCases(r, thorough)
	for len(ops) < opTotal {
		ops = append(ops, randomOpCase(r))
	}
	svcs := coreSvcCases(r)
	for len(svcs) < svcTotal {
		svcs = append(svcs, randomSvcCase(r))
	}
	for i := range ops {
		pickTiming(r, &ops[i])
		ops[i].Seed = r.Int63()
	}
	for i := range svcs {
		n := r.Intn(4)
		perm := r.Perm(len(svcFollowKinds))
		for k := 0; k < n; k++ {
			svcs[i].Follow = append(svcs[i].Follow, svcFollowKinds[perm[k]])
		}
		sort.Strings(svcs[i].Follow)
		svcs[i].Seed = r.Int63()
	}
	// make sure every broadcast kind is placed in every phase by some core case even in
	// the quick tier, and that the first cases of each shard are not all of one class:
	// interleave service cases evenly and shuffle deterministically.
	rest := append(ops, svcs...)
	r.Shuffle(len(rest), func(i, j int) { rest[i], rest[j] = rest[j], rest[i] })
	// concurrent-phase cases, spread so that every shard (index % shards) gets its share:
	// final positions are multiples of an odd number, which walk through all residues of 16
	nStorm := 16
	if thorough {
		nStorm = 96
	}
	gap := (len(rest)/nStorm - 1) &^ 1 // even: final positions are multiples of the odd gap+1
	var all []Spec
	placed := 0
	for i := range rest {
		if placed < nStorm && i == placed*gap {
			all = append(all, Spec{EP: "storm", Class: fmt.Sprintf("storm:%d", placed), Conn: "storm", Expect: "may", Seed: r.Int63()})
			placed++
		}
		all = append(all, rest[i])
	}
	for i := range all {
		all[i].ID = i
	}
	return all
}
