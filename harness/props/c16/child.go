package c16

// Service scenarios run in a child process: the property says "the teamserver keeps
// running", and a teamserver that does not takes the whole process with it. The child is
// this same worker binary, started through the documented worker interface with the
// scenario as its replay witness; the parent reads its result file, exit status and
// stderr.

import (
	"context"
	"encoding/json"
	"fmt"
	"os"
	"os/exec"
	"path/filepath"
	"strings"
	"sync/atomic"
	"time"

	"verifh/lib"
)

var childSeq int64

type childResult struct {
	Evaluations  int64            `json:"evaluations"`
	Violations   []lib.Violation  `json:"violations"`
	Inconclusive []string         `json:"inconclusive"`
	Observed     map[string]int64 `json:"observed"`
	Done         bool             `json:"done"`
}

const childTimeout = 240 * time.Second

func runSvcChild(c *lib.Ctx, sc SvcScenario) {
	sc.Child = false
	b, _ := json.Marshal(sc)
	c.Cur("service-scenario", b)
	c.Observe("service-scenarios", 1)
	n := atomic.AddInt64(&childSeq, 1)
	dir := filepath.Join(c.Out, fmt.Sprintf("c16-child-%d-%d-%d", c.Shard, os.Getpid(), n))
	os.MkdirAll(dir, 0o755)
	if os.Getenv("C16_KEEP_CHILD") == "" {
		defer os.RemoveAll(dir)
	}
	child := sc
	child.Child = true
	wb, _ := json.Marshal(child)
	wf := filepath.Join(dir, "witness.json")
	os.WriteFile(wf, wb, 0o644)
	prog := filepath.Join(dir, "progress.log")
	errf, _ := os.Create(filepath.Join(dir, "stderr.log"))
	ctx, cancel := context.WithTimeout(context.Background(), childTimeout)
	defer cancel()
	// the running image itself (survives a rebuild or removal of the file in bin/ during the
	// run, and guarantees parent and child are the same build)
	exe := "/proc/self/exe"
	if _, e := os.Stat(exe); e != nil {
		exe = os.Args[0]
	}
	cmd := exec.CommandContext(ctx, exe, "--tier", c.Tier, "--seed", fmt.Sprint(c.Seed), "--shard", "0", "--shards", "1", "--out", dir, "--replay", wf, c.Prop)
	tmp, terr := os.MkdirTemp("", "c16child-")
	if terr != nil {
		tmp = dir
	} else {
		defer os.RemoveAll(tmp)
	}
	cmd.Env = append(os.Environ(), "C16_CHILD=1", "C16_PROGRESS="+prog, "GOTRACEBACK=all", "TMPDIR="+tmp)
	cmd.Stdout = errf
	cmd.Stderr = errf
	cmd.Dir = dir
	err := cmd.Run()
	errf.Close()
	timedOut := ctx.Err() != nil

	var res childResult
	if rb, e := os.ReadFile(filepath.Join(dir, "result-0.json")); e == nil {
		json.Unmarshal(rb, &res)
	}
	c.EvalN(int(res.Evaluations))
	for k, v := range res.Observed {
		if strings.HasPrefix(k, "viol:") || k == "inconclusive" {
			continue
		}
		if strings.HasPrefix(k, "max:") {
			c.ObserveMax(k, v)
		} else {
			c.Observe(k, v)
		}
	}
	for _, v := range res.Violations {
		c.Violation(v.Signature, v.What, v.Witness)
	}
	for _, s := range res.Inconclusive {
		inconclusive(c, s)
	}
	c.Distinct(sc.Key())
	c.SampleSome(20, func() any { return sc })
	progress := tailLines(prog, 6)
	if err == nil && res.Done {
		c.Observe("service-scenarios-completed", 1)
		return
	}
	stderr, _ := os.ReadFile(filepath.Join(dir, "stderr.log"))
	if timedOut {
		inconclusive(c, fmt.Sprintf("service scenario %s: child did not finish within %v (last progress: %v)", sc.Key(), childTimeout, progress))
		return
	}
	first, frames, region := crashClass(string(stderr))
	if first == "" || frames == "" {
		inconclusive(c, fmt.Sprintf("service scenario %s: child ended with %v without a result and without a crash inside the teamserver (stderr tail: %s)", sc.Key(), err, clip(lastN(string(stderr), 400))))
		return
	}
	c.Observe("teamserver-crashes", 1)
	c.Note("crash:"+first+"@"+frames, map[string]any{"scenario": sc.Key(), "progress": progress, "log": region})
	c.Violation("svc-crash:"+first+"@"+frames,
		fmt.Sprintf("the teamserver process died (%v) during %s", err, strings.Join(progress, " | ")),
		map[string]any{"kind": sc.Kind, "k": sc.K, "interleave": sc.Interleave, "disc": sc.Disc, "collide": sc.Collide,
			"detail": map[string]any{"exit": fmt.Sprint(err), "progress": progress, "crash": region}})
}

func lastN(s string, n int) string {
	if len(s) > n {
		return s[len(s)-n:]
	}
	return s
}

func tailLines(path string, n int) []string {
	b, err := os.ReadFile(path)
	if err != nil {
		return nil
	}
	ls := strings.Split(strings.TrimSpace(string(b)), "\n")
	if len(ls) > n {
		ls = ls[len(ls)-n:]
	}
	return ls
}

// crashClass finds the first Go panic / fatal error line of a crash log, its class
// (numbers stripped) and the first two frames of the code under test that follow it.
func crashClass(log string) (first, frames string, region []string) {
	lines := strings.Split(log, "\n")
	start := -1
	for i, l := range lines {
		t := strings.TrimSpace(l)
		if strings.HasPrefix(t, "panic: ") || strings.HasPrefix(t, "fatal error: ") {
			start = i
			first = lib.Classify(t)
			break
		}
	}
	if start < 0 {
		return "", "", nil
	}
	// frames of the panicking goroutine only (up to the first blank line after the header)
	end := len(lines)
	seenGoroutine := false
	for i := start + 1; i < len(lines); i++ {
		t := strings.TrimSpace(lines[i])
		if strings.HasPrefix(t, "goroutine ") {
			if seenGoroutine {
				end = i
				break
			}
			seenGoroutine = true
		}
	}
	frames = lib.TopHavocFrames(strings.Join(lines[start:end], "\n"), 2)
	region = lines[start:end]
	if len(region) > 30 {
		region = region[:30]
	}
	return
}
