// Package c16 holds the workload and monitor for property C16 (see /verif/DESIGN.md §3).
package c16
