// Package c16 holds the workload and monitor for property C16 "Listener and service
// registries never hold duplicates or leftovers" (see /verif/DESIGN.md §3).
//
//	c16.go    enumerations (operator sequences, HTTP sequences, failed starts, service
//	          scenarios, collisions), sharding, replay, witness minimisation
//	ops.go    one full rig + two logged-in operators; every operation is a real Listener
//	          package; after each one, at quiescence: running registry == TS_Listeners rows
//	          (independent connection) == what a connected operator accumulated == what a
//	          fresh login is replayed; name uniqueness; External routes; HTTP ports; the
//	          request profile after an Edit
//	svc.go    1..3 service connections x registration interleavings x disconnect orders;
//	          after each disconnect: exactly the leaver's agent types / listener kinds /
//	          ExC2 endpoints+listeners are gone, the others are there and still answer
//	child.go  every service scenario runs in a child process (this worker binary, the
//	          scenario as --replay witness, C16_CHILD=1): a teamserver that dies is one
//	          violation with the panic class as signature, not a dead shard
//
// Development switches (environment): C16_ONLY=batch|http|svc restricts the work list,
// C16_KEEP_CHILD=1 keeps the child directories (stderr, progress log) under the work dir.
package c16
