package c16

// Third-party service connections: registration of agent types, listener kinds and
// External-C2 endpoints by 1..3 connections, disconnects in every order, and after each
// disconnect a state and a functional comparison. One scenario = one process (a crash of
// the teamserver must not hide the other scenarios), see child.go.

import (
	"encoding/json"
	"fmt"
	"os"
	"sort"
	"strings"
	"time"

	"github.com/gorilla/websocket"

	"verifh/demon"
	"verifh/lib"
	"verifh/opclient"
	"verifh/svcclient"
)

// SvcScenario is the replayable witness of a service case.
type SvcScenario struct {
	Kind       string `json:"kind"`                 // "svc" | "collide"
	K          []int  `json:"k,omitempty"`          // items (agent types = listener kinds = ExC2 endpoints) per connection
	Interleave int    `json:"interleave,omitempty"` // 0: connection by connection, 1: round robin, 2: connection by connection, last first
	Disc       []int  `json:"disc,omitempty"`       // disconnect order (connection indices; connections attach in index order)
	How        []int  `json:"how,omitempty"`        // per disconnect: 0 closing handshake | 1 connection closed without one | 2 TCP reset
	Collide    string `json:"collide,omitempty"`    // collision case name
	Child      bool   `json:"child,omitempty"`      // run in this process (set by the parent for the child)
}

func (sc SvcScenario) Key() string {
	return fmt.Sprintf("%s/%v/%d/%v/%v/%s", sc.Kind, sc.K, sc.Interleave, sc.Disc, sc.How, sc.Collide)
}

type svcItem struct {
	conn     int
	agent    string
	magic    uint32
	lkind    string
	exName   string
	endpoint string
}

type svcRun struct {
	c     *lib.Ctx
	s     *session
	sc    SvcScenario
	conns []*svcclient.Client
	items []svcItem
	gone  map[int]bool
	prog  *os.File
	reqID int
	port  int // HTTP listener for third-party agent requests
	t0    time.Time
}

func (sr *svcRun) progress(format string, a ...any) {
	if sr.prog != nil {
		fmt.Fprintf(sr.prog, "[%6dms] "+format+"\n", append([]any{time.Since(sr.t0).Milliseconds()}, a...)...)
		sr.prog.Sync()
	}
}

func (sr *svcRun) viol(sig, what string, detail map[string]any) {
	if detail == nil {
		detail = map[string]any{}
	}
	detail["scenario"] = sr.sc
	w := sr.sc
	w.Child = false
	sr.c.Violation(sig, what, map[string]any{"kind": sr.sc.Kind, "k": w.K, "interleave": w.Interleave, "disc": w.Disc, "how": w.How, "collide": w.Collide, "detail": detail})
}

const (
	svcGrace  = 5 * time.Second
	svcStable = 1 * time.Second
)

func connName(i int) string { return fmt.Sprintf("conn%d", i) }

// runSvcInProcess executes one scenario in this process.
func runSvcInProcess(c *lib.Ctx, sc SvcScenario) {
	b, _ := json.Marshal(sc)
	c.Cur("service-scenario", b)
	s, err := newSession(c, false, true)
	if err != nil {
		inconclusive(c, "rig: "+err.Error())
		return
	}
	defer s.close()
	sr := &svcRun{c: c, s: s, sc: sc, gone: map[int]bool{}, t0: time.Now()}
	if p := os.Getenv("C16_PROGRESS"); p != "" {
		sr.prog, _ = os.OpenFile(p, os.O_CREATE|os.O_WRONLY|os.O_APPEND, 0o644)
	}
	if sc.Kind == "collide" {
		sr.collide()
	} else {
		sr.disconnects()
	}
	for _, f := range s.findings {
		sr.viol(f.Sig, f.What, map[string]any{"step": f.Step, "ops": s.hist, "more": f.Detail})
	}
	if s.broken != "" {
		inconclusive(c, "service scenario "+sc.Key()+": "+s.broken)
	}
	sr.progress("done")
}

func (sr *svcRun) connect(i int) bool {
	cl, err := svcclient.Connect(sr.s.addr, "service-endpoint", "service-pw", connName(i))
	if err != nil {
		inconclusive(sr.c, "service connect: "+err.Error())
		return false
	}
	sr.conns = append(sr.conns, cl)
	// The teamserver answers the Register handshake BEFORE it puts the connection into its
	// (unlocked) client list, from the connection's own goroutine. The next connection must
	// not authenticate while that append is pending (two appends racing lose a connection:
	// a schedule, not a history). A request that is answered proves the connection's read
	// loop runs, i.e. the append is done: an ExC2 registration under the name of the HTTP
	// listener "H" is refused with an answer and changes nothing.
	sr.reqID++
	ok, _, got := cl.AddExC2("H", "c16-attach-barrier", fmt.Sprintf("rq%d", sr.reqID), 30*time.Second)
	if !got {
		sr.s.broken = "service connection never answered after attaching"
		return false
	}
	if ok {
		sr.viol("dup-name:Http+service-exc2", "an ExC2 listener was accepted under the name of the running HTTP listener \"H\"", nil)
		return false
	}
	return true
}

// register item j of connection i; the ExC2 registration is answered, and a connection's
// messages are dispatched in order, so its answer is the barrier for the three of them.
func (sr *svcRun) register(i, j int) bool {
	it := svcItem{conn: i,
		agent:    fmt.Sprintf("ag%d_%d", i, j),
		magic:    uint32(0x51600000 + i*0x100 + j),
		lkind:    fmt.Sprintf("kind%d_%d", i, j),
		exName:   fmt.Sprintf("x%d_%d", i, j),
		endpoint: fmt.Sprintf("xe%d_%d", i, j)}
	cl := sr.conns[i]
	sr.progress("register conn%d item %d", i, j)
	cl.RegisterAgent(it.agent, fmt.Sprintf("0x%x", it.magic))
	cl.AddListener(it.lkind, it.agent)
	sr.reqID++
	ok, e, got := cl.AddExC2(it.exName, it.endpoint, fmt.Sprintf("rq%d", sr.reqID), 30*time.Second)
	if !got {
		sr.s.broken = "ExC2 registration was never answered"
		return false
	}
	if !ok {
		sr.viol("svc-register-refused", "registration of a fresh ExC2 name was refused: "+e, nil)
		return false
	}
	sr.items = append(sr.items, it)
	return true
}

type svcState struct {
	Agents    []string `json:"agents"`
	Listeners []string `json:"listeners"`
	Endpoints []string `json:"endpoints"`
	Registry  []string `json:"registry"`
}

func (sr *svcRun) state() svcState {
	var st svcState
	ts := sr.s.r.TS
	for _, a := range ts.Service.Agents {
		if a != nil {
			st.Agents = append(st.Agents, a.Name)
		}
	}
	for _, l := range ts.Service.Listeners {
		if l != nil {
			st.Listeners = append(st.Listeners, l.Name)
		}
	}
	for _, e := range ts.Endpoints {
		st.Endpoints = append(st.Endpoints, e.Endpoint)
	}
	for _, l := range ts.Listeners {
		st.Registry = append(st.Registry, l.Name)
	}
	sort.Strings(st.Agents)
	sort.Strings(st.Listeners)
	sort.Strings(st.Endpoints)
	sort.Strings(st.Registry)
	return st
}

func (sr *svcRun) expected() svcState {
	var st svcState
	for _, it := range sr.items {
		if sr.gone[it.conn] {
			continue
		}
		if it.agent != "" {
			st.Agents = append(st.Agents, it.agent)
			st.Listeners = append(st.Listeners, it.lkind)
		}
		st.Endpoints = append(st.Endpoints, it.endpoint)
		st.Registry = append(st.Registry, it.exName)
	}
	for n, m := range sr.s.model {
		st.Registry = append(st.Registry, n)
		if m.Kind == "External" {
			st.Endpoints = append(st.Endpoints, "ep-"+n)
		}
	}
	sort.Strings(st.Agents)
	sort.Strings(st.Listeners)
	sort.Strings(st.Endpoints)
	sort.Strings(st.Registry)
	return st
}

func eq(a, b []string) bool { return strings.Join(a, "\x00") == strings.Join(b, "\x00") }

func (a svcState) equal(b svcState) bool {
	return eq(a.Agents, b.Agents) && eq(a.Listeners, b.Listeners) && eq(a.Endpoints, b.Endpoints) && eq(a.Registry, b.Registry)
}

func toSet(a []string) map[string]bool {
	m := map[string]bool{}
	for _, s := range a {
		m[s] = true
	}
	return m
}

// agentProbe posts a third-party agent request carrying magic to the HTTP listener
// (endpoint == "") or to an External-C2 endpoint of the teamserver port.
func (sr *svcRun) agentProbe(magic uint32, endpoint string) (st int, body string, want []byte) {
	t0 := time.Now()
	defer func() {
		if d := time.Since(t0); d > 5*time.Second {
			sr.c.Observe("slow-agent-probes", 1)
			sr.progress("slow probe: magic %#x endpoint %q took %v -> status %d body %q", magic, endpoint, d, st, clip(body))
		}
	}()
	return sr.agentProbe1(magic, endpoint)
}

func (sr *svcRun) agentProbe1(magic uint32, endpoint string) (int, string, []byte) {
	sr.reqID++
	rest := []byte(fmt.Sprintf("c16-payload-%d", sr.reqID))
	body := demon.Header(magic, 0x1600+uint32(sr.reqID), 0x63, uint32(sr.reqID), rest)
	want := body[12:] // what the teamserver hands to the service: everything after size, magic, agent id
	if endpoint == "" {
		st, b := sr.s.postRaw(sr.port, sr.s.model["H"].Gen, body)
		return st, b, want
	}
	st, b := postEndpoint(sr.s.tsc, sr.s.r.Port, endpoint, body)
	return st, b, want
}

// check compares state and function with what the history so far leaves.
func (sr *svcRun) check(after string) {
	sr.c.Eval()
	want := sr.expected()
	// poll for the expected state; give up when the registries have not moved for
	// svcStable (the cleanup is one pass of one goroutine) or after svcGrace
	deadline := time.Now().Add(svcGrace)
	got := sr.state()
	lastChange := time.Now()
	for !got.equal(want) && time.Now().Before(deadline) && time.Since(lastChange) < svcStable {
		time.Sleep(10 * time.Millisecond)
		now := sr.state()
		if !now.equal(got) {
			lastChange = time.Now()
		}
		got = now
	}
	detail := func() map[string]any {
		return map[string]any{"after": after, "state": got, "expected": want}
	}
	cmp := func(what string, g, w []string) {
		ex, mi := diff(toSet(g), toSet(w))
		if len(ex) > 0 {
			sr.viol("svc-leftover:"+what, fmt.Sprintf("after %s: %s %v of a closed connection still registered (have %v, expected %v)", after, what, ex, g, w), detail())
		}
		if len(mi) > 0 {
			sr.viol("svc-lost:"+what, fmt.Sprintf("after %s: %s %v of a connection that is still attached disappeared (have %v, expected %v)", after, what, mi, g, w), detail())
		}
		if len(g) != len(toSet(g)) {
			sr.viol("svc-dup:"+what, fmt.Sprintf("after %s: duplicate %s entries %v", after, what, g), detail())
		}
	}
	cmp("agent-type", got.Agents, want.Agents)
	cmp("listener-kind", got.Listeners, want.Listeners)
	// ExC2: route and registry entry belong together (one registration, one cleanup)
	exE, miE := diff(toSet(got.Endpoints), toSet(want.Endpoints))
	exR, miR := diff(toSet(got.Registry), toSet(want.Registry))
	if len(exE)+len(exR) > 0 {
		sr.viol("svc-leftover:exc2", fmt.Sprintf("after %s: ExC2 endpoints %v / listeners %v of a closed connection still registered (endpoints %v, registry %v)", after, exE, exR, got.Endpoints, got.Registry), detail())
	}
	if len(miE)+len(miR) > 0 {
		sr.viol("svc-lost:exc2", fmt.Sprintf("after %s: ExC2 endpoints %v / listeners %v that should still be there disappeared (endpoints %v, registry %v)", after, miE, miR, got.Endpoints, got.Registry), detail())
	}
	if len(got.Endpoints) != len(toSet(got.Endpoints)) {
		sr.viol("svc-dup:exc2-endpoint", fmt.Sprintf("after %s: duplicate routes %v", after, got.Endpoints), detail())
	}
	time.Sleep(100 * time.Millisecond) // the rest of the connection's teardown (no verdict depends on it)

	// function. Survivors first.
	var liveMagic uint32
	for _, it := range sr.items {
		if !sr.gone[it.conn] && it.agent != "" {
			liveMagic = it.magic
			break
		}
	}
	for _, it := range sr.items {
		if sr.gone[it.conn] {
			continue
		}
		magic, owner := it.magic, it.conn
		if it.agent != "" {
			st, body, payload := sr.agentProbe(it.magic, "")
			exp := "svc:" + connName(it.conn) + ":" + string(payload)
			if st != 200 || body != exp {
				sr.viol("svc-survivor-broken:agent-type", fmt.Sprintf("after %s: request of agent type %s (connection %d still attached) through the HTTP listener answered %d %q, expected 200 %q", after, it.agent, it.conn, st, clip(body), clip(exp)), detail())
			} else {
				sr.c.Observe("survivor-agent-type-answers", 1)
			}
		} else {
			// an ExC2 endpoint registered on its own: reach it with the first live agent type
			if liveMagic == 0 {
				continue
			}
			magic = liveMagic
			for _, o := range sr.items {
				if o.magic == liveMagic && o.agent != "" {
					owner = o.conn
				}
			}
		}
		st, body, payload := sr.agentProbe(magic, it.endpoint)
		exp := "svc:" + connName(owner) + ":" + string(payload)
		if st != 200 || body != exp {
			sr.viol("svc-survivor-broken:exc2-endpoint", fmt.Sprintf("after %s: request through ExC2 endpoint /%s (connection %d still attached) answered %d %q, expected 200 %q", after, it.endpoint, it.conn, st, clip(body), clip(exp)), detail())
		} else {
			sr.c.Observe("survivor-exc2-endpoint-answers", 1)
		}
	}
	// removed items must be gone for clients too
	stateAgents := toSet(got.Agents)
	stateEPs := toSet(got.Endpoints)
	refSt, refBody := sr.s.unroutedRef()
	for _, it := range sr.items {
		if !sr.gone[it.conn] {
			continue
		}
		if it.agent != "" {
			st, body, _ := sr.agentProbe(it.magic, "")
			if st == 404 {
				sr.c.Observe("removed-agent-type-gets-decoy", 1)
			} else if stateAgents[it.agent] {
				sr.c.Observe("leftover-agent-type-still-answers", 1) // same defect as svc-leftover:agent-type
			} else {
				sr.viol("svc-removed-answers:agent-type", fmt.Sprintf("after %s: agent type %s is no longer registered but its requests are not answered by the decoy (status %d body %q)", after, it.agent, st, clip(body)), detail())
			}
		}
		// its endpoint, probed with an unregistered magic value: a route answers 404 through
		// External.Request, no route gets gin's empty 200
		st, body := sr.s.postTS(it.endpoint)
		routed := !(st == refSt && body == refBody)
		switch {
		case !routed:
			sr.c.Observe("removed-exc2-endpoint-unrouted", 1)
		case stateEPs[it.endpoint]:
			sr.c.Observe("leftover-exc2-endpoint-still-routed", 1)
		default:
			sr.viol("svc-removed-answers:exc2-endpoint", fmt.Sprintf("after %s: endpoint /%s is no longer registered but still routed (status %d)", after, it.endpoint, st), detail())
		}
	}
}

func clip(s string) string {
	if len(s) > 80 {
		return s[:80] + "…"
	}
	return s
}

// survivorKinds: a service-defined listener kind of an attached connection can still be
// started by an operator (the start request reaches the owning connection).
func (sr *svcRun) survivorKinds(after string) {
	for _, it := range sr.items {
		if sr.gone[it.conn] {
			continue
		}
		cl := sr.conns[it.conn]
		before := len(cl.Msgs())
		inst := "inst-" + it.lkind
		sr.s.apply(Op{V: "add", K: it.lkind, N: inst})
		if sr.s.broken != "" {
			return
		}
		_, ok := cl.WaitFor(func(m svcclient.Msg) bool {
			if m.Head["Type"] != "Listener" || m.Body["Type"] != "ListenerStart" {
				return false
			}
			l, _ := m.Body["Listener"].(map[string]any)
			return l != nil && l["Name"] == inst
		}, 10*time.Second)
		_ = before
		if !ok {
			sr.viol("svc-survivor-broken:listener-kind", fmt.Sprintf("after %s: start request for listener kind %s (connection %d still attached) never reached its connection", after, it.lkind, it.conn), nil)
		} else {
			sr.c.Observe("survivor-listener-kind-starts", 1)
		}
		sr.s.apply(Op{V: "remove", N: inst})
	}
}

func (sr *svcRun) setup() bool {
	// an HTTP listener that is never removed carries the third-party agent requests
	sr.s.apply(Op{V: "add", K: "Http", N: "H"})
	if sr.s.broken != "" {
		return false
	}
	sr.port = sr.s.ports["H"]
	return true
}

func (sr *svcRun) disconnects() {
	sc := sr.sc
	n := len(sc.K)
	if !sr.setup() {
		return
	}
	for i := 0; i < n; i++ {
		if !sr.connect(i) {
			return
		}
	}
	// registration order
	type ij struct{ i, j int }
	var order []ij
	switch sc.Interleave {
	case 1:
		for j := 0; j < 3; j++ {
			for i := 0; i < n; i++ {
				if j < sc.K[i] {
					order = append(order, ij{i, j})
				}
			}
		}
	case 2:
		for i := n - 1; i >= 0; i-- {
			for j := 0; j < sc.K[i]; j++ {
				order = append(order, ij{i, j})
			}
		}
	default:
		for i := 0; i < n; i++ {
			for j := 0; j < sc.K[i]; j++ {
				order = append(order, ij{i, j})
			}
		}
	}
	for _, o := range order {
		if !sr.register(o.i, o.j) {
			return
		}
	}
	sr.check("registration")
	sr.survivorKinds("registration")
	sr.s.checkViews(true)
	for step, d := range sc.Disc {
		what := fmt.Sprintf("disconnect #%d of connection %d (order %v, %d connections attached)", step+1, d, sc.Disc, n-step)
		how := 0
		if step < len(sc.How) {
			how = sc.How[step]
		}
		sr.disconnect(d, what, step == len(sc.Disc)-1, how)
		if sr.s.broken != "" {
			return
		}
	}
}

// disconnect closes connection d and compares state and function afterwards.
func (sr *svcRun) disconnect(d int, what string, fresh bool, how int) {
	b, _ := json.Marshal(map[string]any{"scenario": sr.sc, "about_to": what})
	sr.c.Cur("service-disconnect", b)
	sr.progress("about to: %s", what)
	sr.c.Checkpoint()
	cl := sr.conns[d]
	switch how {
	case 1:
		// the service process ends without a closing handshake (TLS close_notify, FIN)
		what += " [closed without a closing handshake]"
		cl.Close()
	case 2:
		// the service host goes away: the teamserver's read fails with a reset, and so does
		// whatever it still tries to write to this connection
		what += " [TCP reset]"
		if !cl.Reset() {
			cl.Close()
		} else {
			sr.c.Observe("service-connections-reset", 1)
		}
	default:
		// a close frame: the teamserver's read fails and it cleans up after the connection
		cl.Conn.WriteControl(websocket.CloseMessage, websocket.FormatCloseMessage(websocket.CloseNormalClosure, ""), time.Now().Add(5*time.Second))
		deadline := time.Now().Add(10 * time.Second)
		for !cl.Closed() && time.Now().Before(deadline) {
			time.Sleep(5 * time.Millisecond)
		}
		cl.Close()
	}
	sr.c.Observe(fmt.Sprintf("service-disconnects:how=%d", how), 1)
	sr.gone[d] = true
	sr.c.Observe("service-disconnects", 1)
	sr.check(what)
	sr.survivorKinds(what)
	sr.s.checkViews(fresh)
	sr.progress("survived: %s", what)
	sr.c.Observe("teamserver-survived-disconnect", 1)
}

// collide: service-defined listeners and ExC2 listeners against built-in names.
func (sr *svcRun) collide() {
	if !sr.setup() || !sr.connect(0) {
		return
	}
	if !sr.register(0, 0) {
		return
	}
	s := sr.s
	kind := sr.items[0].lkind
	cl := sr.conns[0]
	exc2 := func(name, ep string, wantOK bool) {
		sr.reqID++
		ok, e, got := cl.AddExC2(name, ep, fmt.Sprintf("rq%d", sr.reqID), 30*time.Second)
		if !got {
			s.broken = "ExC2 registration was never answered"
			return
		}
		sr.c.Observe("collide:exc2-registrations", 1)
		if ok && !wantOK {
			// the registry check below names the duplicate
			sr.c.Observe("collide:exc2-duplicate-accepted", 1)
		}
		if !ok && wantOK {
			sr.viol("svc-register-refused", "registration of a fresh ExC2 name was refused: "+e, nil)
		}
		if ok {
			s.reserved[name] = true
		}
		if ok && wantOK {
			sr.items = append(sr.items, svcItem{conn: 0, exName: name, endpoint: ep, magic: sr.items[0].magic})
		}
		s.hist = append(s.hist, Op{V: "exc2", N: name})
		s.checkViews(false)
	}
	switch sr.sc.Collide {
	case "service-kind-instance-vs-builtin":
		// built-in A first, then an instance of the service-defined kind with the same name
		s.apply(Op{V: "add", K: "Smb", N: "A"})
		s.apply(Op{V: "add", K: kind, N: "A"})
		s.apply(Op{V: "fresh"})
		s.apply(Op{V: "remove", N: "A"})
		s.apply(Op{V: "remove", N: "A"})
	case "service-kind-instance-twice":
		s.apply(Op{V: "add", K: kind, N: "S"})
		s.apply(Op{V: "add", K: kind, N: "S"})
		s.apply(Op{V: "remove", N: "S"})
		s.apply(Op{V: "remove", N: "S"})
	case "builtin-vs-service-kind-instance":
		s.apply(Op{V: "add", K: kind, N: "B"})
		s.apply(Op{V: "add", K: "External", N: "B"}) // must be refused: name in use
		s.apply(Op{V: "fresh"})
		s.apply(Op{V: "remove", N: "B"})
	case "exc2-vs-builtin":
		s.apply(Op{V: "add", K: "External", N: "A"})
		exc2("A", "xe-A", false)
		s.apply(Op{V: "fresh"})
		s.apply(Op{V: "remove", N: "A"})
		exc2("A", "xe-A", true)
		sr.check("ExC2 registration of a freed name")
	case "builtin-vs-exc2":
		exc2("B", "xe-B", true)
		s.apply(Op{V: "add", K: "Smb", N: "B"})  // must be refused
		s.apply(Op{V: "add", K: "Http", N: "B"}) // must be refused
		s.apply(Op{V: "fresh"})
		sr.check("refused built-in adds")
	case "same-service-listener-from-two-connections":
		// a second service connection announces the listener kind the first one registered
		// (same name, same agent type): whatever it is told, the kind stays the first one's,
		// also after the second connection has gone
		if !sr.connect(1) {
			return
		}
		c1 := sr.conns[1]
		c1.AddListener(sr.items[0].lkind, sr.items[0].agent)
		sr.reqID++
		if _, _, got := c1.AddExC2("H", "c16-barrier-2", fmt.Sprintf("rq%d", sr.reqID), 30*time.Second); !got {
			s.broken = "second service connection stopped answering"
			return
		}
		sr.check("a second connection's announcement of the same listener kind")
		sr.disconnect(1, "disconnect of the second connection, which had announced the first one's listener kind again", false, 0)
		if s.broken != "" {
			return
		}
	case "exc2-twice":
		exc2("X", "xe-X", true)
		exc2("X", "xe-X2", false)
		sr.check("refused ExC2 duplicate")
	case "operator-removes-exc2":
		exc2("X", "xe-X", true)
		s.apply(Op{V: "remove", N: "X"})
		delete(s.reserved, "X")
		var keep []svcItem
		for _, it := range sr.items {
			if it.exName != "X" {
				keep = append(keep, it)
			}
		}
		sr.items = keep
		sr.check("operator removal of an ExC2 listener")
		s.apply(Op{V: "add", K: "Smb", N: "X"}) // the name is free again
		s.apply(Op{V: "fresh"})
	}
	// a service-defined instance is neither persisted nor part of the three views; the
	// model keeps it only for name uniqueness
	sr.check("collision case")
	if s.broken == "" {
		sr.disconnect(0, "disconnect of the only connection after collision case "+sr.sc.Collide, true, len(sr.sc.Collide)%3)
	}
}

var _ = opclient.EvListener
