package c16

import (
	"encoding/json"
	"fmt"
	"os"
	"strings"
	"time"

	"verifh/lib"
)

func init() { lib.Register("C16", run) }

// ---- enumerations ----

// instant alphabet: kinds whose add/remove complete inside the dispatch call
var instantAlphabet = []Op{
	{V: "add", K: "Smb", N: "A"}, {V: "add", K: "Smb", N: "B"},
	{V: "add", K: "External", N: "A"}, {V: "add", K: "External", N: "B"},
	{V: "edit", N: "A"}, {V: "edit", N: "B"},
	{V: "remove", N: "A"}, {V: "remove", N: "B"},
}

// "add duplicate name" (same or other kind), "remove unknown", "edit unknown" are the
// same symbols applied in a state where the name is / is not in use: the enumeration of
// all sequences contains all of them.

var httpAlphabet = []Op{
	{V: "add", K: "Http", N: "A"}, {V: "add", K: "Http", N: "B"}, {V: "add", K: "Smb", N: "A"},
	{V: "edit", K: "Http", N: "A"}, {V: "edit", K: "Http", N: "B"},
	{V: "remove", N: "A"}, {V: "remove", N: "B"},
}

// confusable: name pairs standing in for A and B
var confusable = [][2]string{{"e_1", "e-1"}, {"Relay", "relay"}, {"a_c", "abc"}}

func rename(ops []Op, pair [2]string) []Op {
	out := make([]Op, len(ops))
	for i, o := range ops {
		switch o.N {
		case "A":
			o.N = pair[0]
		case "B":
			o.N = pair[1]
		}
		out[i] = o
	}
	return out
}

// opNames: the names a sequence uses (A and B always: the endpoint probes look at both).
func opNames(ops []Op) []string {
	seen := map[string]bool{"A": true, "B": true}
	out := []string{"A", "B"}
	for _, o := range ops {
		if o.N != "" && !seen[o.N] {
			seen[o.N] = true
			out = append(out, o.N)
		}
	}
	return out
}

func sequences(alpha []Op, maxLen int) [][]Op {
	var out [][]Op
	var rec func(prefix []Op)
	rec = func(prefix []Op) {
		if len(prefix) > 0 {
			out = append(out, append([]Op(nil), prefix...))
		}
		if len(prefix) == maxLen {
			return
		}
		for _, o := range alpha {
			rec(append(prefix, o))
		}
	}
	rec(nil)
	return out
}

// httpRemovals counts the removals of a (running or failed) HTTP listener in a sequence:
// each costs the 5 s shutdown grace.
func httpRemovals(ops []Op) int {
	kind := map[string]string{}
	n := 0
	for _, o := range ops {
		switch o.V {
		case "add":
			if kind[o.N] == "" {
				kind[o.N] = o.K
			}
		case "remove":
			if kind[o.N] == "Http" {
				n++
			}
			delete(kind, o.N)
		}
	}
	return n
}

func hasAdd(ops []Op) bool {
	for _, o := range ops {
		if o.V == "add" {
			return true
		}
	}
	return false
}

// quick tier: a handful of HTTP sequences with a removal
var httpQuickPicks = [][]Op{
	{{V: "add", K: "Http", N: "A"}, {V: "edit", K: "Http", N: "A"}, {V: "remove", N: "A"}},
	{{V: "add", K: "Http", N: "A"}, {V: "remove", N: "A"}, {V: "add", K: "Http", N: "A"}},
	{{V: "add", K: "Http", N: "A"}, {V: "add", K: "Http", N: "B"}, {V: "remove", N: "A"}},
	{{V: "add", K: "Http", N: "A"}, {V: "add", K: "Http", N: "A"}, {V: "remove", N: "A"}},
	{{V: "add", K: "Http", N: "B"}, {V: "remove", N: "B"}, {V: "add", K: "Smb", N: "B"}},
	{{V: "add", K: "Http", N: "A"}, {V: "remove", N: "A"}, {V: "edit", K: "Http", N: "A"}},
	{{V: "add", K: "Http", N: "A"}, {V: "remove", N: "A"}, {V: "remove", N: "A"}},
	{{V: "add", K: "Http", N: "B"}, {V: "add", K: "Http", N: "A"}, {V: "remove", N: "A"}},
	{{V: "add", K: "Http", N: "A"}, {V: "add", K: "Http", N: "B"}, {V: "edit", K: "Http", N: "A"}},
	{{V: "add", K: "Http", N: "A"}, {V: "edit", K: "Http", N: "A"}, {V: "edit", K: "Http", N: "A"}},
}

// failed starts: the harness holds the port
var failedStarts = [][]Op{
	{{V: "add", K: "Http", N: "A", Occ: true}},
	{{V: "add", K: "Http", N: "A", Occ: true}, {V: "add", K: "Http", N: "A"}},
	{{V: "add", K: "Http", N: "A", Occ: true}, {V: "add", K: "Smb", N: "A"}},
	{{V: "add", K: "Http", N: "B"}, {V: "add", K: "Http", N: "A", Occ: true}, {V: "edit", K: "Http", N: "B"}},
	{{V: "add", K: "Http", N: "A", Occ: true}, {V: "remove", N: "A"}, {V: "add", K: "Http", N: "A"}},
	{{V: "add", K: "Http", N: "A", Occ: true}, {V: "edit", K: "Http", N: "A"}, {V: "remove", N: "A"}},
}

var collideCases = []string{
	"service-kind-instance-vs-builtin", "service-kind-instance-twice", "builtin-vs-service-kind-instance",
	"exc2-vs-builtin", "builtin-vs-exc2", "exc2-twice", "operator-removes-exc2",
	"same-service-listener-from-two-connections",
}

func perms(n int) [][]int {
	var out [][]int
	var rec func(cur []int, used int)
	rec = func(cur []int, used int) {
		if len(cur) == n {
			out = append(out, append([]int(nil), cur...))
			return
		}
		for i := 0; i < n; i++ {
			if used&(1<<i) == 0 {
				rec(append(cur, i), used|1<<i)
			}
		}
	}
	rec(nil, 0)
	return out
}

func svcScenarios(thorough bool) []SvcScenario {
	var out []SvcScenario
	var ks [][]int
	if thorough {
		for a := 1; a <= 3; a++ {
			ks = append(ks, []int{a})
			for b := 1; b <= 3; b++ {
				ks = append(ks, []int{a, b})
				for c := 1; c <= 3; c++ {
					ks = append(ks, []int{a, b, c})
				}
			}
		}
	} else {
		ks = [][]int{{1}, {2}, {3}, {1, 1}, {2, 2}, {3, 3}, {1, 3}, {3, 1}, {1, 1, 1}, {2, 2, 2}, {1, 2, 3}}
	}
	for _, k := range ks {
		inter := []int{0}
		if len(k) > 1 {
			inter = []int{0, 1}
			if thorough {
				inter = []int{0, 1, 2}
			}
		}
		for _, il := range inter {
			for _, p := range perms(len(k)) {
				sc := SvcScenario{Kind: "svc", K: k, Interleave: il, Disc: p}
				if len(out)%2 == 1 {
					// every second scenario: the connections go away in other ways than an orderly close
					for i := range p {
						sc.How = append(sc.How, (len(out)/2+i)%3)
					}
				}
				out = append(out, sc)
			}
		}
	}
	return out
}

// ---- the work list ----

type item struct {
	kind string // "batch" (instant sequences on a shared rig), "http" (one rig), "svc" (child process)
	hs   []History
	sc   SvcScenario
}

const batchSize = 24

func workList(c *lib.Ctx) (items []item, complete bool) {
	complete = true
	// instant sequences: length <= 4 in thorough; quick: all of length <= 3 in both event-log
	// modes plus a seeded sample of the length-4 ones
	var hs []History
	maxLen := 4
	all := sequences(instantAlphabet, maxLen)
	sampleEvery := 1
	if !c.Thorough() {
		sampleEvery = 6
		complete = false
	}
	// the sample must be the same in every shard: draw it from a generator seeded by the run seed only
	pick := newSplit(uint64(c.Seed))
	for _, ot := range []bool{false, true} {
		for _, ops := range all {
			if len(ops) == 4 && sampleEvery > 1 && pick.next()%uint64(sampleEvery) != 0 {
				continue
			}
			hs = append(hs, History{Kind: "ops", OneTime: ot, Ops: ops})
		}
	}
	// the same alphabet over pairs of names that differ only in ways a sloppy comparison
	// (pattern matching, case folding) would not see: length <= 2 all, length 3 sampled
	for pi, pair := range confusable {
		for _, ops := range sequences(instantAlphabet, 3) {
			if len(ops) == 3 && pick.next()%4 != 0 {
				continue
			}
			hs = append(hs, History{Kind: "ops", OneTime: pi%2 == 1, Ops: rename(ops, pair)})
		}
	}
	// a second add of the same name handled while a removal is under way
	for _, k1 := range []string{"Smb", "External"} {
		for _, k2 := range []string{"Smb", "External"} {
			for _, ot := range []bool{false, true} {
				hs = append(hs,
					History{Kind: "ops", OneTime: ot, Ops: []Op{{V: "add", K: k1, N: "A"}, {V: "remove", N: "A", Mid: k2}, {V: "fresh"}}},
					History{Kind: "ops", OneTime: ot, Ops: []Op{{V: "add", K: k1, N: "A"}, {V: "add", K: k2, N: "B"}, {V: "remove", N: "A", Mid: k2}, {V: "remove", N: "A"}, {V: "add", K: k1, N: "A"}}})
			}
		}
	}
	for i := 0; i < len(hs); i += batchSize {
		j := i + batchSize
		if j > len(hs) {
			j = len(hs)
		}
		items = append(items, item{kind: "batch", hs: hs[i:j]})
	}
	// HTTP sequences
	var hh []History
	if c.Thorough() {
		for i, ops := range sequences(httpAlphabet, 3) {
			hh = append(hh, History{Kind: "ops", OneTime: i%2 == 1, Ops: ops})
		}
		// beyond the enumerated bound: a seeded sample of the length-4 sequences
		for i, ops := range sequences(httpAlphabet, 4) {
			if len(ops) == 4 && pick.next()%8 == 0 {
				hh = append(hh, History{Kind: "ops", OneTime: i%2 == 1, Ops: ops})
			}
		}
	} else {
		n := 0
		for _, ops := range sequences(httpAlphabet, 2) {
			if httpRemovals(ops) == 0 {
				hh = append(hh, History{Kind: "ops", OneTime: n%2 == 1, Ops: ops})
				n++
			}
		}
		hh = append(hh, History{Kind: "ops", Ops: []Op{{V: "add", K: "Http", N: "A"}, {V: "remove", N: "A"}}})
		for i, ops := range httpQuickPicks {
			hh = append(hh, History{Kind: "ops", OneTime: i%2 == 1, Ops: ops})
		}
	}
	for i, ops := range failedStarts {
		if !c.Thorough() && httpRemovals(ops) > 0 && i%2 == 1 {
			continue
		}
		hh = append(hh, History{Kind: "ops", OneTime: i%2 == 1, Ops: ops})
	}
	// heavy ones (5 s per removal) first so that the round-robin spreads them evenly
	for r := 4; r >= 0; r-- {
		for _, h := range hh {
			if httpRemovals(h.Ops) == r {
				items = append(items, item{kind: "http", hs: []History{h}})
			}
		}
	}
	for _, sc := range svcScenarios(c.Thorough()) {
		items = append(items, item{kind: "svc", sc: sc})
	}
	for _, cc := range collideCases {
		items = append(items, item{kind: "svc", sc: SvcScenario{Kind: "collide", Collide: cc}})
	}
	return items, complete
}

// splitmix64: a tiny generator for choices that must agree across shards
type split struct{ x uint64 }

func newSplit(seed uint64) *split { return &split{x: seed*0x9E3779B97F4A7C15 + 0x16} }
func (s *split) next() uint64 {
	s.x += 0x9E3779B97F4A7C15
	z := s.x
	z = (z ^ (z >> 30)) * 0xBF58476D1CE4E5B9
	z = (z ^ (z >> 27)) * 0x94D049BB133111EB
	return z ^ (z >> 31)
}

// ---- running ----

func run(c *lib.Ctx) {
	c.Rule("a case is a history: (a) a sequence of operator Listener packages add/edit/remove over names {A,B} and kinds {Smb, External, Http} " +
		"(duplicates, cross-kind duplicates, unknown names and failed starts arise from the state the symbol is applied in), run in two event-log modes " +
		"(operator packages stored / one-time); (b) 1..3 service connections registering 1..3 agent types, listener kinds and ExC2 endpoints each, " +
		"registration interleaving and disconnect order; (c) service-defined / ExC2 names colliding with built-in names. " +
		"Distinct = distinct history; non-trivial = contains at least one successful add or registration")
	c.Assume(
		"the views are read at quiescence: a one-time chat token sent after each operation is echoed only after the operator's package has been dispatched and everything broadcast before it has been written to the listening operator",
		"operator packages carry every Info key dispatch.go type-asserts, and an Edit names the protocol the listener really has (a mismatching Edit panics in ListenerEdit; malformed operator packages are outside this property)",
		"advertised set = what the operator client builds: Listener/Add with empty Head.User inserts, Listener/Remove deletes, Listener/Error changes the status only",
		"a listener whose bind failed may stay in all three views as long as it is not shown Online and does not accept connections",
		"after a service disconnect the registries are polled for at most 3 s for the expected state before a leftover is reported",
		"ports of HTTP listeners are picked below the ephemeral range; an unexpected bind failure makes the history inconclusive",
	)
	// rigs live in memory-backed temp directories (every listener add and remove is a
	// synchronous sqlite write): the driver sets VERIF_RIG_BASE; for a worker started by
	// hand fall back to /dev/shm
	if os.Getenv("VERIF_RIG_BASE") == "" && os.Getenv("C16_CHILD") == "" {
		if st, err := os.Stat("/dev/shm"); err == nil && st.IsDir() {
			os.Setenv("TMPDIR", "/dev/shm")
		}
	}
	if os.Getenv("C16_CHILD") != "" && c.Replay != nil {
		var sc SvcScenario
		if json.Unmarshal(c.Replay, &sc) == nil && (sc.Kind == "svc" || sc.Kind == "collide") {
			runSvcInProcess(c, sc)
			return
		}
	}
	if c.Replay != nil {
		replay(c)
		return
	}
	items, complete := workList(c)
	only := os.Getenv("C16_ONLY")
	mine := 0
	for i, it := range items {
		if !c.Mine(i) {
			continue
		}
		if only != "" && !strings.Contains(only, it.kind) {
			continue
		}
		mine++
		t0 := time.Now()
		switch it.kind {
		case "batch":
			runBatch(c, it.hs)
		case "http":
			runAlone(c, it.hs[0], true)
		case "svc":
			runSvcChild(c, it.sc)
		}
		c.Observe("ms:"+it.kind, time.Since(t0).Milliseconds())
		c.Observe("items:"+it.kind, 1)
		c.Checkpoint()
	}
	c.Observe("work-items", int64(mine))
	// exhaustive only if every enumerated case was run to its end (an inconclusive case was not)
	c.Exhaustive(complete && only == "" && inconclusives == 0)
}

func replay(c *lib.Ctx) {
	var probe struct {
		Kind string `json:"kind"`
	}
	if err := json.Unmarshal(c.Replay, &probe); err != nil {
		inconclusive(c, "replay: witness is not JSON: "+err.Error())
		return
	}
	switch probe.Kind {
	case "ops":
		var h History
		json.Unmarshal(c.Replay, &h)
		runAlone(c, h, false)
	case "svc", "collide":
		var sc SvcScenario
		json.Unmarshal(c.Replay, &sc)
		runSvcChild(c, sc)
	default:
		inconclusive(c, "replay: unknown witness kind "+probe.Kind)
	}
}

var reportedSigs = map[string]int{}

func allReportedOften(fs []finding) bool {
	for _, f := range fs {
		if reportedSigs[f.Sig] < 3 {
			return false
		}
	}
	return true
}

func report(c *lib.Ctx, f finding, w History) {
	reportedSigs[f.Sig]++
	c.Violation(f.Sig, fmt.Sprintf("%s [after step %d: %s]", f.What, f.Step+1, opAt(w.Ops, f.Step)),
		map[string]any{"kind": "ops", "onetime": w.OneTime, "ops": w.Ops, "step": f.Step, "detail": f.Detail})
}

func opAt(ops []Op, i int) string {
	if i >= 0 && i < len(ops) {
		return ops[i].String()
	}
	return "?"
}

// execute runs a history on a fresh rig and returns its findings (nil, reason when the
// harness could not complete it).
func execute(c *lib.Ctx, h History) ([]finding, string) {
	s, err := newSession(c, h.OneTime, false)
	if err != nil {
		return nil, "rig: " + err.Error()
	}
	defer s.close()
	for _, o := range h.Ops {
		s.apply(o)
		if s.broken != "" {
			return s.findings, s.broken
		}
	}
	return s.findings, ""
}

func withFresh(h History) History {
	out := History{Kind: "ops", OneTime: h.OneTime}
	out.Ops = append(out.Ops, h.Ops...)
	if len(out.Ops) == 0 || out.Ops[len(out.Ops)-1].V != "fresh" {
		out.Ops = append(out.Ops, Op{V: "fresh"})
	}
	return out
}

// runAlone: one history, one rig (HTTP sequences and replays). freshEach adds a fresh
// login after every operation.
func runAlone(c *lib.Ctx, h History, freshEach bool) {
	w := History{Kind: "ops", OneTime: h.OneTime}
	if freshEach {
		for _, o := range h.Ops {
			w.Ops = append(w.Ops, o, Op{V: "fresh"})
		}
	} else {
		w = h
	}
	b, _ := json.Marshal(w)
	c.Cur("listener-history", b)
	fs, broken := execute(c, w)
	if hasAdd(h.Ops) {
		c.Distinct(h.Key())
	}
	c.Observe("histories", 1)
	c.SampleSome(50, func() any { return w })
	seen := map[string]bool{}
	for _, f := range fs {
		if seen[f.Sig] {
			continue
		}
		seen[f.Sig] = true
		wf := w
		wf.Ops = w.Ops[:f.Step+1]
		report(c, f, wf)
	}
	if broken != "" {
		inconclusive(c, "history "+h.Key()+": "+broken)
	}
}

// runBatch: many instant sequences on one rig; after each sequence the rig is emptied by
// further (checked) removals. A finding is first re-run alone on a fresh rig: if it
// reproduces, the witness is that sequence, else the whole history of the rig.
func runBatch(c *lib.Ctx, hs []History) {
	var s *session
	defer func() {
		if s != nil {
			s.close()
		}
	}()
	for _, h := range hs {
		w := withFresh(h)
		if s != nil && (s.onetime != h.OneTime || s.steps > 400) {
			s.close()
			s = nil
		}
		if s == nil {
			var err error
			if s, err = newSession(c, h.OneTime, false); err != nil {
				inconclusive(c, "rig: "+err.Error())
				s = nil
				continue
			}
		}
		b, _ := json.Marshal(map[string]any{"kind": "ops", "onetime": h.OneTime, "ops": append(append([]Op(nil), s.hist...), w.Ops...)})
		c.Cur("listener-history", b)
		start := len(s.hist)
		nf := len(s.findings)
		for _, o := range w.Ops {
			s.apply(o)
			if s.broken != "" {
				break
			}
		}
		if hasAdd(h.Ops) {
			c.Distinct(h.Key())
		}
		c.Observe("histories", 1)
		c.SampleSome(400, func() any { return w })
		clean := s.broken == "" && s.cleanup(opNames(s.hist))
		if len(s.findings) > nf && allReportedOften(s.findings[nf:]) {
			// a systematic defect: its class already has its witnesses, only count it
			for _, f := range s.findings[nf:] {
				c.Violation(f.Sig, f.What, nil)
			}
			s.close()
			clean = false
		} else if len(s.findings) > nf {
			// minimise: does the sequence (with its clean-up removals) alone show the same class?
			// (the batch rig is closed first: two rigs must never be active in one process,
			// they share the working directory)
			seq := History{Kind: "ops", OneTime: h.OneTime, Ops: append([]Op(nil), s.hist[start:]...)}
			found := append([]finding(nil), s.findings[nf:]...)
			rigHist := append([]Op(nil), s.hist...)
			s.close()
			clean = false
			alone, _ := execute(c, seq)
			seen := map[string]bool{}
			for _, f := range found {
				if seen[f.Sig] {
					continue
				}
				seen[f.Sig] = true
				reported := false
				for _, g := range alone {
					if g.Sig == f.Sig {
						wf := seq
						wf.Ops = seq.Ops[:g.Step+1]
						report(c, g, wf)
						reported = true
						break
					}
				}
				if !reported {
					full := History{Kind: "ops", OneTime: h.OneTime, Ops: rigHist[:f.Step+1]}
					report(c, f, full)
				}
			}
		}
		if s.broken != "" {
			inconclusive(c, "history "+h.Key()+": "+s.broken)
		}
		if !clean {
			s.close() // idempotent
			s = nil
		}
	}
}

var inconclusives int

func inconclusive(c *lib.Ctx, what string) {
	inconclusives++
	c.Inconclusive(what)
}
