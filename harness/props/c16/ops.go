package c16

// Operator-driven listener histories: every operation is sent as a real Listener package
// over a real wss operator connection of a full rig, and after every operation (at
// quiescence) the views named by the property are read and compared.

import (
	"Havoc/pkg/verifhook"
	"bytes"
	"crypto/tls"
	"encoding/json"
	"fmt"
	"io"
	"net"
	"net/http"
	"os"
	"runtime"
	"sort"
	"strconv"
	"strings"
	"sync"
	"time"

	"Havoc/cmd/server"
	"Havoc/pkg/handlers"

	"verifh/demon"
	"verifh/lib"
	"verifh/observe"
	"verifh/opclient"
	"verifh/rig"
)

// Op is one step of a history.
//
//	add    K in {Smb, External, Http} (or a service-defined kind, only in service scenarios), N name
//	edit   N name (the Edit package carries the Protocol the model knows for N)
//	remove N name
//	fresh  log a fresh operator in and compare what is replayed to it
type Op struct {
	V   string `json:"v"`
	K   string `json:"k,omitempty"`
	N   string `json:"n,omitempty"`
	Occ bool   `json:"occ,omitempty"` // Http add: the harness holds the port first (failed start)
	// remove: while the removal is between stopping the listener and deleting its database
	// row (hook ts.listener_remove.mid) a listener of kind Mid with the same name is started
	// through the API, as a second operator's add handled at that moment would be
	Mid string `json:"mid,omitempty"`
}

func (o Op) String() string {
	s := o.V
	if o.K != "" {
		s += " " + o.K
	}
	if o.N != "" {
		s += " " + o.N
	}
	if o.Occ {
		s += " (port occupied)"
	}
	return s
}

// History is the replayable witness of an operator-driven case.
type History struct {
	Kind    string `json:"kind"` // "ops"
	OneTime bool   `json:"onetime"`
	Ops     []Op   `json:"ops"`
}

func (h History) Key() string {
	var sb strings.Builder
	fmt.Fprintf(&sb, "ops/%v/", h.OneTime)
	for _, o := range h.Ops {
		sb.WriteString(o.String())
		sb.WriteByte(';')
	}
	return sb.String()
}

type mListener struct {
	Kind   string
	Gen    int  // generation of the HTTP request profile (UserAgent/Uris/Headers)
	Port   int  // HTTP only
	Failed bool // HTTP only: the bind failed (port held by the harness)
}

type finding struct {
	Sig    string         `json:"signature"`
	What   string         `json:"what"`
	Step   int            `json:"step"` // index into the history
	Detail map[string]any `json:"detail,omitempty"`
}

// session is one rig with two logged-in operators: alice drives, bob only listens.
type session struct {
	c       *lib.Ctx
	r       *rig.Rig
	addr    string
	alice   *opclient.Client
	bob     *opclient.Client
	onetime bool

	model    map[string]*mListener
	ports    map[string]int
	wasHTTP  map[string]int // name -> port of an HTTP listener that was removed / failed
	held     map[string]net.Listener
	reserved map[string]bool // names held by service ExC2 listeners (service scenarios)
	live     map[string]string
	bobSeen  int
	aliceErr int
	gen      int
	tok      int
	agentSeq uint32
	steps    int // operations applied on this rig

	hist     []Op
	findings []finding
	closed   bool
	broken   string       // non-empty: the harness could not reach quiescence; the rig must be dropped
	httpc    *http.Client // to HTTP listeners: one connection per request
	tsc      *http.Client // to the teamserver's own TLS port
}

const barrierWait = 40 * time.Second

func newSession(c *lib.Ctx, onetime, service bool) (*session, error) {
	var last error
	for try := 0; try < 6; try++ {
		s, retry, err := newSessionOnce(c, onetime)
		if err == nil {
			return s, nil
		}
		last = err
		if !retry {
			break
		}
		c.Observe("rig-port-collisions", 1)
	}
	return nil, last
}

// newSessionOnce builds a rig and logs alice and bob in. rig.New picks the teamserver
// port with listen(:0)+close; with 16 workers (and their children) doing the same, the
// port can be taken by another process before Start() binds it, and the rig's "is it
// accepting" test is then answered by somebody else's teamserver with the same operator
// accounts. So: after alice's login our own client table must hold her connection.
func newSessionOnce(c *lib.Ctx, onetime bool) (s *session, retry bool, err error) {
	// every rig has a Service block: without one any non-Demon magic value dereferences a
	// nil registry (DESIGN §4 #5, property C01)
	r, err := rig.New(rig.Options{Full: true, Service: true})
	if err != nil {
		return nil, false, err
	}
	s = &session{c: c, r: r, onetime: onetime,
		model: map[string]*mListener{}, ports: map[string]int{}, wasHTTP: map[string]int{},
		held: map[string]net.Listener{}, live: map[string]string{}, reserved: map[string]bool{}}
	s.addr = fmt.Sprintf("127.0.0.1:%d", r.Port)
	s.httpc = &http.Client{Timeout: 30 * time.Second, Transport: &http.Transport{DisableKeepAlives: true}}
	s.tsc = newTSClient()
	foreign := func() bool {
		if s.clientCount() > 0 {
			return false
		}
		// not ours. Our own Start() goroutine may still be writing its certificate into the
		// rig directory (it exits the process if that fails): let it finish before removing it
		for deadline := time.Now().Add(15 * time.Second); time.Now().Before(deadline); time.Sleep(10 * time.Millisecond) {
			if _, e := os.Stat(r.Dir + "/data/server.key"); e == nil {
				break
			}
		}
		time.Sleep(50 * time.Millisecond)
		return true
	}
	if s.alice, err = opclient.Connect(s.addr, "alice", "pw-alice"); err != nil {
		if foreign() {
			s.close()
			return nil, true, fmt.Errorf("teamserver port %d was taken by another process", r.Port)
		}
		s.close()
		return nil, false, fmt.Errorf("alice: %v", err)
	}
	if foreign() {
		s.close()
		return nil, true, fmt.Errorf("teamserver port %d was taken by another process", r.Port)
	}
	if s.bob, err = opclient.Connect(s.addr, "bob", "pw-bob"); err != nil {
		s.close()
		return nil, false, fmt.Errorf("bob: %v", err)
	}
	// bob's connection handler appends to the event log and replays it after the login
	// verdict; it reads bob's next message only when that is done. Until then an operation
	// by alice would run concurrently with it (the log is not locked: property C11).
	s.tok++
	btok := fmt.Sprintf("c16-login-%d-%d", r.Port, s.tok)
	s.bob.SendRaw(pkgJSON(opclient.EvChat, "bob", opclient.ChatNewMessage, map[string]any{"User": "bob", "Message": btok}, true))
	if _, ok := s.bob.WaitFor(isChat(btok), barrierWait); !ok {
		s.close()
		return nil, false, fmt.Errorf("listening operator never finished its login")
	}
	if !s.barrier() {
		s.close()
		return nil, false, fmt.Errorf("no quiescence after login: %s", s.broken)
	}
	if n := s.clientCount(); n != 2 {
		s.close()
		return nil, true, fmt.Errorf("client table holds %d connections after two logins (foreign clients on our port?)", n)
	}
	s.bobSeen = s.bob.Count()
	return s, false, nil
}

func (s *session) close() {
	if s.closed {
		return
	}
	s.closed = true
	for _, l := range s.held {
		l.Close()
	}
	for _, p := range s.ports {
		releasePort(p)
	}
	releasePort(s.r.Port)
	if s.alice != nil {
		s.alice.Close()
	}
	if s.bob != nil {
		s.bob.Close()
	}
	s.r.Close()
}

func pkgJSON(event int, user string, sub int, info map[string]any, onetime bool) []byte {
	ot := ""
	if onetime {
		ot = "true"
	}
	b, _ := json.Marshal(map[string]any{
		"Head": map[string]any{"Event": event, "User": user, "Time": "", "OneTime": ot},
		"Body": map[string]any{"SubEvent": sub, "Info": info},
	})
	return b
}

func isChat(tok string) func(opclient.Frame) bool {
	return func(f opclient.Frame) bool {
		return f.Head.Event == opclient.EvChat && f.Body.SubEvent == opclient.ChatNewMessage && f.InfoStr("Message") == tok
	}
}

// barrier: alice's connection handler processes her packages one after the other, and a
// broadcast is written to every client before the handler returns, so the echo of a chat
// token sent after an operation means that the operation has been dispatched completely
// and that bob has been sent everything broadcast before it. The token package is
// one-time (never stored in the event log).
func (s *session) barrier() bool {
	s.tok++
	tok := fmt.Sprintf("c16-barrier-%d-%d", s.r.Port, s.tok)
	if err := s.alice.SendRaw(pkgJSON(opclient.EvChat, "alice", opclient.ChatNewMessage, map[string]any{"User": "alice", "Message": tok}, true)); err != nil {
		s.broken = "barrier send failed: " + err.Error()
		return false
	}
	if _, ok := s.alice.WaitFor(isChat(tok), barrierWait); !ok {
		s.broken = "barrier token not echoed to the sending operator"
		dumpGoroutines(s.broken)
		return false
	}
	if _, ok := s.bob.WaitFor(isChat(tok), barrierWait); !ok {
		s.broken = "barrier token not broadcast to the listening operator"
		dumpGoroutines(s.broken)
		return false
	}
	return true
}

func httpInfo(name string, port, gen int) map[string]any {
	p := strconv.Itoa(port)
	return map[string]any{
		"Protocol": "Http", "Name": name, "Hosts": "127.0.0.1", "HostBind": "127.0.0.1",
		"HostRotation": "round-robin", "PortBind": p, "PortConn": p,
		"Headers": fmt.Sprintf("X-Gen: g%d", gen), "Uris": fmt.Sprintf("/u-g%d", gen),
		"HostHeader": "", "UserAgent": fmt.Sprintf("ua-g%d", gen), "Secure": "false", "Proxy Enabled": "false",
	}
}

func (s *session) find(sig, what string, detail map[string]any) {
	s.findings = append(s.findings, finding{Sig: sig, What: what, Step: len(s.hist) - 1, Detail: detail})
}

// listenerErrorFor reports whether fs contains a Listener/Error event for name.
func listenerErrorFor(fs []opclient.Frame, name string) bool {
	for _, f := range fs {
		if f.Head.Event == opclient.EvListener && f.Body.SubEvent == opclient.ListenerError && f.InfoStr("Name") == name {
			return true
		}
	}
	return false
}

// apply sends one operation, waits for quiescence, updates the model and checks.
func (s *session) apply(op Op) {
	s.hist = append(s.hist, op)
	s.steps++
	if op.V == "fresh" {
		s.checkViews(true)
		return
	}
	bobMark := s.bob.Count()
	aliceMark := s.alice.Count()
	var info map[string]any
	sub := 0
	cur := s.model[op.N]
	if cur == nil && s.reserved[op.N] {
		cur = &mListener{Kind: "service-exc2"}
	}
	switch op.V {
	case "add":
		sub = opclient.ListenerAdd
		switch op.K {
		case "Smb":
			info = map[string]any{"Protocol": "Smb", "Name": op.N, "PipeName": "pipe-" + op.N}
		case "External":
			info = map[string]any{"Protocol": "External", "Name": op.N, "Endpoint": "ep-" + op.N}
		case "Http":
			port := s.ports[op.N]
			if port == 0 {
				port = pickPort()
				s.ports[op.N] = port
			}
			if op.Occ && cur == nil {
				if _, held := s.held[op.N]; !held {
					l, err := net.Listen("tcp", fmt.Sprintf("127.0.0.1:%d", port))
					if err != nil {
						s.broken = "harness could not occupy the port: " + err.Error()
						return
					}
					s.held[op.N] = l
				}
			}
			s.gen++
			info = httpInfo(op.N, port, s.gen)
		default: // service-defined kind
			info = map[string]any{"Protocol": op.K, "Name": op.N}
		}
	case "edit":
		sub = opclient.ListenerEdit
		kind := "Smb"
		if cur != nil {
			kind = cur.Kind
		} else if op.K != "" {
			kind = op.K
		}
		switch kind {
		case "Http":
			port := s.ports[op.N]
			if port == 0 {
				port = pickPort()
				s.ports[op.N] = port
			}
			s.gen++
			info = httpInfo(op.N, port, s.gen)
		case "External":
			info = map[string]any{"Protocol": "External", "Name": op.N, "Endpoint": "ep-" + op.N}
		default:
			info = map[string]any{"Protocol": kind, "Name": op.N, "PipeName": "pipe-" + op.N}
		}
	case "remove":
		sub = opclient.ListenerRemove
		info = map[string]any{"Name": op.N}
	default:
		s.broken = "unknown op " + op.V
		return
	}
	midTried, midOK := false, false
	if op.V == "remove" && op.Mid != "" && cur != nil && cur.Kind != "service-exc2" {
		var once sync.Once
		verifhook.Set("ts.listener_remove.mid", func() {
			once.Do(func() {
				midTried = true
				var err error
				if op.Mid == "External" {
					err = s.r.TS.ListenerStart(handlers.LISTENER_EXTERNAL, handlers.ExternalConfig{Name: op.N, Endpoint: "ep-" + op.N})
				} else {
					err = s.r.TS.ListenerStart(handlers.LISTENER_PIVOT_SMB, handlers.SMBConfig{Name: op.N, PipeName: "pipe-" + op.N})
				}
				midOK = err == nil
			})
		})
		defer verifhook.Set("ts.listener_remove.mid", nil)
	}
	if err := s.alice.SendRaw(pkgJSON(opclient.EvListener, "alice", sub, info, s.onetime)); err != nil {
		s.broken = "send failed: " + err.Error()
		return
	}
	if !s.barrier() {
		return
	}

	// model + waits for the asynchronous part of HTTP starts
	switch op.V {
	case "add":
		if cur != nil {
			s.c.Observe("op:add-duplicate-name", 1)
			if cur.Kind != op.K {
				s.c.Observe("op:add-duplicate-name-cross-kind", 1)
			}
			if listenerErrorFor(s.alice.Frames()[aliceMark:], op.N) {
				s.c.Observe("duplicate-add-answered-with-error", 1)
			}
			break
		}
		s.c.Observe("op:add-"+kindLabel(op.K), 1)
		m := &mListener{Kind: op.K}
		if op.K == "Http" {
			m.Gen = s.gen
			m.Port = s.ports[op.N]
			addr := fmt.Sprintf("127.0.0.1:%d", m.Port)
			if op.Occ {
				m.Failed = true
				// the bind fails in the listener's goroutine: wait for the Error event
				if _, ok := s.bob.WaitFor(func(f opclient.Frame) bool {
					return f.Seq >= bobMark && f.Head.Event == opclient.EvListener && f.Body.SubEvent == opclient.ListenerError && f.InfoStr("Name") == op.N
				}, 20*time.Second); ok {
					s.c.Observe("failed-start-error-event", 1)
				} else {
					// the bind has not been attempted (or not reported) yet: no quiescence, and
					// releasing the port now would let the listener come up after all
					s.c.Observe("failed-start-no-error-event", 1)
					s.broken = fmt.Sprintf("HTTP listener %q: no Listener/Error event within 20 s although the harness holds its port", op.N)
					s.model[op.N] = m
					return
				}
				if l := s.held[op.N]; l != nil {
					l.Close()
					delete(s.held, op.N)
				}
				s.wasHTTP[op.N] = m.Port
			} else {
				up := false
				for deadline := time.Now().Add(20 * time.Second); time.Now().Before(deadline); time.Sleep(5 * time.Millisecond) {
					if listenerErrorFor(s.bob.Frames()[bobMark:], op.N) {
						break
					}
					if up = rig.WaitTCP(addr, 50*time.Millisecond); up {
						break
					}
				}
				if !up && listenerErrorFor(s.bob.Frames()[bobMark:], op.N) {
					// ports are picked, not reserved: another process may have taken it
					s.broken = fmt.Sprintf("HTTP listener %q could not bind port %d although the harness did not hold it", op.N, m.Port)
					s.model[op.N] = m
					return
				}
				delete(s.wasHTTP, op.N)
			}
		}
		s.model[op.N] = m
	case "remove":
		if cur == nil {
			s.c.Observe("op:remove-unknown", 1)
			for _, f := range s.bob.Frames()[bobMark:] {
				if f.Head.Event == opclient.EvListener && f.Body.SubEvent == opclient.ListenerRemove && f.InfoStr("Name") == op.N {
					s.c.Observe("remove-unknown-still-broadcasts-remove", 1)
				}
			}
			break
		}
		s.c.Observe("op:remove-"+kindLabel(cur.Kind), 1)
		if cur.Kind == "Http" {
			s.wasHTTP[op.N] = cur.Port
		}
		delete(s.model, op.N)
		if midTried {
			s.c.Observe("add-during-removal", 1)
			if midOK {
				// accepted: then it is a listener like any other, in all three views
				s.c.Observe("add-during-removal-accepted", 1)
				s.model[op.N] = &mListener{Kind: op.Mid}
			}
		}
	case "edit":
		if cur == nil {
			s.c.Observe("op:edit-unknown", 1)
		} else {
			s.c.Observe("op:edit-"+kindLabel(cur.Kind), 1)
		}
	}

	s.checkViews(false)

	// an edit applies to the next request
	if op.V == "edit" && cur != nil && cur.Kind == "Http" && !cur.Failed {
		old := cur.Gen
		cur.Gen = s.gen
		s.probeProfile(op.N, cur, old)
		// ... and only to that listener
		for n, m := range s.model {
			if n == op.N || m.Kind != "Http" || m.Failed {
				continue
			}
			st, e := s.post(m.Port, m.Gen, m.Gen, m.Gen)
			s.c.Eval()
			if st != 200 {
				s.find("edit-changed-other-listener", fmt.Sprintf("after editing %q, HTTP listener %q no longer accepts a request matching its own (unedited) profile g%d: status %d %s", op.N, n, m.Gen, st, e),
					map[string]any{"edited": op.N, "other": n})
			} else {
				s.c.Observe("edit-left-other-listener-alone", 1)
			}
		}
	}
	if op.V == "add" && cur == nil && op.K == "Http" && !op.Occ {
		s.probeProfile(op.N, s.model[op.N], -1)
	}
}

func kindLabel(k string) string {
	switch k {
	case "Smb", "External", "Http":
		return k
	}
	return "service-defined"
}

// post sends one registration-shaped POST to an HTTP listener with the request profile of
// generation (ua, uri, hdr) and returns the status (0 = transport error).
func (s *session) post(port int, ua, uri, hdr int) (int, string) {
	s.agentSeq++
	id := 0x16000000 + s.agentSeq
	key := bytes.Repeat([]byte{0x41}, 32)
	iv := bytes.Repeat([]byte{0x42}, 16)
	m := &demon.Meta{AgentID: id, Hostname: "H", Username: "u", Domain: "D", InternalIP: "10.0.0.1", ProcessPath: "C:\\p.exe",
		PID: 1, TID: 2, PPID: 3, Arch: 2, BaseAddr: 0x1000, OS: [5]uint32{10, 0, 1, 0, 19045}, OSArch: 9, Sleep: 5}
	body := demon.Register(id, key, iv, m)
	st, b := s.postProfile(port, ua, uri, hdr, body)
	if st == 0 {
		return 0, b
	}
	return st, ""
}

func (s *session) postProfile(port, ua, uri, hdr int, body []byte) (int, string) {
	req, err := http.NewRequest(http.MethodPost, fmt.Sprintf("http://127.0.0.1:%d/u-g%d", port, uri), bytes.NewReader(body))
	if err != nil {
		return 0, err.Error()
	}
	req.Header.Set("User-Agent", fmt.Sprintf("ua-g%d", ua))
	req.Header.Set("X-Gen", fmt.Sprintf("g%d", hdr))
	resp, err := s.httpc.Do(req)
	if err != nil {
		return 0, err.Error()
	}
	defer resp.Body.Close()
	b, _ := io.ReadAll(resp.Body)
	return resp.StatusCode, string(b)
}

// postRaw posts body with the request profile of generation gen.
func (s *session) postRaw(port, gen int, body []byte) (int, string) {
	return s.postProfile(port, gen, gen, gen, body)
}

// probeProfile: the listener must judge the next requests by its current request profile
// (generation m.Gen); old >= 0 is the generation before the edit.
func (s *session) probeProfile(name string, m *mListener, old int) {
	g := m.Gen
	type pr struct {
		what        string
		ua, uri, hd int
		want        int
	}
	probes := []pr{{"current user agent, uri and header", g, g, g, 200}}
	other := old
	if other < 0 {
		other = 0 // generation 0 is never configured
	}
	probes = append(probes,
		pr{"previous/other user agent", other, g, g, 404},
		pr{"previous/other uri", g, other, g, 404},
		pr{"previous/other header value", g, g, other, 404})
	for _, p := range probes {
		st, e := s.post(m.Port, p.ua, p.uri, p.hd)
		s.c.Eval()
		if st == 0 {
			s.find("http-request-failed", "a running HTTP listener did not answer a request: "+e, map[string]any{"listener": name})
			return
		}
		if st != p.want {
			kind := "edit-not-applied"
			if old < 0 {
				kind = "http-profile-not-enforced"
			}
			s.find(kind, fmt.Sprintf("HTTP listener %q (profile generation g%d, before g%d): request with %s answered %d, expected %d", name, g, old, p.what, st, p.want),
				map[string]any{"listener": name, "generation": g, "previous": old, "probe": p.what, "status": st, "want": p.want})
			return
		}
		s.c.Observe("profile-probe-ok", 1)
	}
	if old >= 0 {
		s.c.Observe("edit-applied-to-next-request", 1)
	}
}

func isExC2(l *server.Listener) bool {
	if e, ok := l.Config.(*handlers.External); ok && e != nil && e.Data != nil {
		_, has := e.Data["client"]
		return has
	}
	return false
}

func typeLabel(l *server.Listener) string {
	switch l.Type {
	case handlers.LISTENER_HTTP:
		return "Http"
	case handlers.LISTENER_PIVOT_SMB:
		return "Smb"
	case handlers.LISTENER_EXTERNAL:
		if isExC2(l) {
			return "service-exc2"
		}
		return "External"
	case handlers.LISTENER_SERVICE:
		return "service-defined"
	}
	return fmt.Sprintf("type%d", l.Type)
}

func setOf(m map[string]bool) []string {
	out := make([]string, 0, len(m))
	for k := range m {
		out = append(out, k)
	}
	sort.Strings(out)
	return out
}

func diff(view, ref map[string]bool) (extra, missing []string) {
	for k := range view {
		if !ref[k] {
			extra = append(extra, k)
		}
	}
	for k := range ref {
		if !view[k] {
			missing = append(missing, k)
		}
	}
	sort.Strings(extra)
	sort.Strings(missing)
	return
}

// dbNames reads the persisted listener names through an independent connection.
func dbNames(path string) (map[string]bool, []string, error) {
	rows, err := observe.DBRows(path, "TS_Listeners")
	if err != nil {
		return nil, nil, err
	}
	out := map[string]bool{}
	var dups []string
	for _, r := range rows {
		// Name=s"A"|Protocol=...
		name := r
		if i := strings.Index(r, "|Protocol="); i >= 0 {
			name = r[:i]
		}
		name = strings.TrimPrefix(name, "Name=")
		if len(name) > 0 && (name[0] == 's' || name[0] == 'b') {
			if u, err := strconv.Unquote(name[1:]); err == nil {
				name = u
			}
		}
		if out[name] {
			dups = append(dups, name)
		}
		out[name] = true
	}
	return out, dups, nil
}

// advertised folds Listener events the way the operator client does: an Add that comes
// from the teamserver (empty Head.User) puts the name into the table, a Remove takes it
// out, an Error only changes the status. Only built-in protocols are considered.
func advertised(fs []opclient.Frame, into map[string]string) {
	for _, f := range fs {
		if f.Head.Event != opclient.EvListener || f.BadErr != "" {
			continue
		}
		name := f.InfoStr("Name")
		switch f.Body.SubEvent {
		case opclient.ListenerAdd:
			if f.Head.User != "" {
				continue // an operator's own request echoed from the log: the client ignores it
			}
			switch f.InfoStr("Protocol") {
			case "Http", "Https", "Smb", "External":
				st := f.InfoStr("Status")
				if st == "" {
					st = "?"
				}
				into[name] = st
			}
		case opclient.ListenerRemove:
			delete(into, name)
		case opclient.ListenerError:
			if _, ok := into[name]; ok && f.Head.User == "" {
				into[name] = "Error"
			}
		}
	}
}

func keys(m map[string]string) map[string]bool {
	out := map[string]bool{}
	for k := range m {
		out[k] = true
	}
	return out
}

// freshReplay logs a new operator in, waits until the replay is complete (a one-time chat
// token sent by the new operator is only read after the replay has been written) and
// returns the listener table a client would have built from it.
func (s *session) freshReplay() (map[string]string, bool) {
	cl, err := opclient.Connect(s.addr, "carol", "pw-carol")
	if err != nil {
		s.broken = "fresh login failed: " + err.Error()
		return nil, false
	}
	s.tok++
	tok := fmt.Sprintf("c16-fresh-%d-%d", s.r.Port, s.tok)
	bobMark := s.bob.Count()
	cl.SendRaw(pkgJSON(opclient.EvChat, "carol", opclient.ChatNewMessage, map[string]any{"User": "carol", "Message": tok}, true))
	_, ok := cl.WaitFor(isChat(tok), barrierWait)
	tab := map[string]string{}
	if ok {
		fs := cl.Frames()
		advertised(fs, tab)
		s.c.ObserveMax("max:replayed-frames", int64(len(fs)))
	}
	cl.Close()
	if !ok {
		s.broken = "fresh operator never saw the end of its replay"
		return nil, false
	}
	// wait until the teamserver has finished handling the disconnect (it appends to the
	// event log from the connection's goroutine; the next operation must not overlap it)
	if _, ok := s.bob.WaitFor(func(f opclient.Frame) bool {
		return f.Seq >= bobMark && f.Head.Event == opclient.EvChat && f.Body.SubEvent == opclient.ChatUserDisc
	}, barrierWait); !ok {
		s.broken = "disconnect of the fresh operator was never announced"
		return nil, false
	}
	// ... and has dropped the connection from its client table: a broadcast written to a
	// closed connection leaves that client's mutex locked (SendEvent, property C11), and a
	// second one would then block the broadcasting handler for good
	for deadline := time.Now().Add(barrierWait); s.clientCount() > 2; time.Sleep(200 * time.Microsecond) {
		if time.Now().After(deadline) {
			s.broken = "the fresh operator's connection was never dropped from the client table"
			return nil, false
		}
	}
	return tab, true
}

func (s *session) clientCount() int {
	n := 0
	s.r.TS.Clients.Range(func(k, v any) bool { n++; return true })
	return n
}

func (s *session) unroutedRef() (int, string) {
	return s.postTS("c16-never-registered")
}

// postTS posts a third-party-shaped request with an unregistered magic value to an
// endpoint of the teamserver port: a routed External endpoint answers 404 through its
// handler, an unrouted path gets gin's empty 200.
func (s *session) postTS(endpoint string) (int, string) {
	return postEndpoint(s.tsc, s.r.Port, endpoint, demon.Header(0x7e57ab1e, 0x1601, 1, 1, []byte("c16-probe")))
}

func dumpGoroutines(why string) {
	buf := make([]byte, 1<<20)
	n := runtime.Stack(buf, true)
	fmt.Fprintf(os.Stderr, "C16: %s; goroutines:\n%s\n", why, buf[:n])
}

func newTSClient() *http.Client {
	return &http.Client{Timeout: 30 * time.Second, Transport: &http.Transport{
		TLSClientConfig: &tls.Config{InsecureSkipVerify: true}, MaxIdleConnsPerHost: 2}}
}

// pickPort: every port the harness hands to a listener comes from rig.FreePort (ports
// below the ephemeral range, claimed across worker processes).
func pickPort() int { return rig.FreePort() }

// releasePort gives a claim back once nothing of ours is going to bind the port any
// more (FreePort still verifies by listening, so a port that a retired rig keeps bound
// in this process is simply skipped by whoever draws it next).
func releasePort(p int) {
	if p > 0 {
		os.Remove(fmt.Sprintf("/dev/shm/verifports/%d", p))
	}
}

func postEndpoint(hc *http.Client, port int, endpoint string, body []byte) (int, string) {
	req, err := http.NewRequest(http.MethodPost, fmt.Sprintf("https://127.0.0.1:%d/%s", port, endpoint), bytes.NewReader(body))
	if err != nil {
		return 0, err.Error()
	}
	resp, err := hc.Do(req)
	if err != nil {
		return 0, err.Error()
	}
	defer resp.Body.Close()
	b, _ := io.ReadAll(resp.Body)
	return resp.StatusCode, string(b)
}

// checkViews compares, at quiescence, the running registry, the persisted rows, what the
// listening operator has accumulated and (fresh=true) what a fresh login is told; plus the
// functional side: External routes, HTTP ports.
func (s *session) checkViews(fresh bool) {
	s.c.Eval()
	if n := s.clientCount(); n != 2 {
		// somebody else's operator is logged in to this teamserver (another worker's rig lost
		// the race for the port and was answered by us): nothing observed here can be trusted
		s.broken = fmt.Sprintf("client table holds %d connections instead of alice and bob", n)
		return
	}
	fs := s.bob.Frames()
	advertised(fs[s.bobSeen:], s.live)
	s.bobSeen = len(fs)

	// (1) running registry
	byName := map[string][]string{}
	reg := map[string]bool{}
	extEndpoints := map[string]bool{}
	var all []string
	for _, l := range s.r.TS.Listeners {
		tl := typeLabel(l)
		byName[l.Name] = append(byName[l.Name], tl)
		all = append(all, l.Name+"/"+tl)
		if tl == "Http" || tl == "Smb" || tl == "External" {
			reg[l.Name] = true
		}
		if e, ok := l.Config.(*handlers.External); ok {
			extEndpoints[e.Config.Endpoint] = true
		}
	}
	for name, kinds := range byName {
		if len(kinds) > 1 {
			sort.Strings(kinds)
			class := strings.Join(uniq(kinds), "+")
			for _, k := range kinds {
				if k == "service-defined" {
					class = "service-defined-instance" // started through dispatch.go's default case
				}
			}
			s.find("dup-name:"+class, fmt.Sprintf("the running registry holds %d listeners named %q (%s)", len(kinds), name, strings.Join(kinds, ", ")),
				map[string]any{"registry": all})
		}
	}
	model := map[string]bool{}
	for n, m := range s.model {
		if kindLabel(m.Kind) != "service-defined" {
			model[n] = true
		}
	}
	if ex, mi := diff(reg, model); len(ex)+len(mi) > 0 {
		s.find("registry-vs-history:"+em(ex, mi), fmt.Sprintf("running registry %v, but the history so far leaves %v", setOf(reg), setOf(model)),
			map[string]any{"registry": all, "expected": setOf(model)})
	}
	// (2) persisted rows
	db, dups, err := dbNames(s.r.Dir + "/data/teamserver.db")
	if err != nil {
		inconclusive(s.c, "TS_Listeners could not be read: "+err.Error())
	} else {
		if len(dups) > 0 {
			s.find("dup-row", fmt.Sprintf("TS_Listeners holds several rows for %v", dups), nil)
		}
		if ex, mi := diff(db, reg); len(ex)+len(mi) > 0 {
			s.find("persisted-vs-running:"+em(ex, mi), fmt.Sprintf("TS_Listeners rows %v, running registry %v", setOf(db), setOf(reg)),
				map[string]any{"rows": setOf(db), "registry": all})
		}
	}
	// (3) advertised: live accumulation of a connected operator
	if ex, mi := diff(keys(s.live), reg); len(ex)+len(mi) > 0 {
		s.find("advertised-live-vs-running:"+em(ex, mi), fmt.Sprintf("a connected operator has accumulated %v, running registry %v", setOf(keys(s.live)), setOf(reg)),
			map[string]any{"live": s.live, "registry": all, "listener_frames_seen": listenerFrames(fs)})
	}
	// failed starts must not be shown as online
	for n, m := range s.model {
		if m.Kind == "Http" && m.Failed {
			if st, ok := s.live[n]; ok && st == "Online" {
				// the Add event is broadcast before the bind result is known; the Error event follows
				s.find("failed-start-advertised-online", fmt.Sprintf("listener %q failed to bind but connected operators still see it Online", n), map[string]any{"live": s.live, "listener_frames_seen": listenerFrames(fs)})
			}
		}
	}
	if fresh {
		tab, ok := s.freshReplay()
		if ok {
			s.c.Observe("fresh-login-replays", 1)
			if ex, mi := diff(keys(tab), reg); len(ex)+len(mi) > 0 {
				s.find("advertised-replay-vs-running:"+em(ex, mi), fmt.Sprintf("a fresh operator login is told %v, running registry %v", setOf(keys(tab)), setOf(reg)),
					map[string]any{"replayed": tab, "registry": all})
			}
			for n, m := range s.model {
				if m.Kind == "Http" && m.Failed && tab[n] == "Online" {
					s.find("failed-start-replayed-online", fmt.Sprintf("listener %q failed to bind but a fresh login is told it is Online", n), map[string]any{"replayed": tab})
				}
			}
		}
	}
	// External routes: every running External listener is routed, nothing else is
	wantEP := map[string]bool{}
	for n, m := range s.model {
		if m.Kind == "External" {
			wantEP["ep-"+n] = true
		}
	}
	haveEP := map[string]bool{}
	for _, e := range s.r.TS.Endpoints {
		haveEP[e.Endpoint] = true
	}
	if ex, mi := diff(haveEP, extEndpoints); len(ex)+len(mi) > 0 {
		s.find("endpoints-vs-running:"+em(ex, mi), fmt.Sprintf("routed endpoints %v, endpoints of the running External listeners %v", setOf(haveEP), setOf(extEndpoints)), nil)
	}
	refSt, refBody := s.unroutedRef()
	for _, n := range opNames(s.hist) {
		ep := "ep-" + n
		st, body := s.postTS(ep)
		routed := !(st == refSt && body == refBody)
		if st == 0 || refSt == 0 {
			inconclusive(s.c, "teamserver port did not answer an endpoint probe: "+body+refBody)
			continue
		}
		s.c.Observe("endpoint-probes", 1)
		if wantEP[ep] && !routed {
			s.find("external-route-missing", fmt.Sprintf("External listener %q is running but POST /%s is not routed to it (status %d)", n, ep, st), nil)
		}
		if !wantEP[ep] && routed {
			s.find("external-route-leftover", fmt.Sprintf("no External listener owns /%s any more but POST /%s is still routed (status %d)", ep, ep, st), nil)
		}
	}
	// HTTP ports
	for n, m := range s.model {
		if m.Kind != "Http" || m.Failed {
			continue
		}
		if !dialOK(m.Port) {
			s.find("http-running-not-accepting", fmt.Sprintf("HTTP listener %q is registered as running but its port does not accept connections", n), map[string]any{"port": m.Port})
		} else {
			s.c.Observe("http-running-accepts", 1)
		}
	}
	for n, p := range s.wasHTTP {
		if m := s.model[n]; m != nil && m.Kind == "Http" && !m.Failed {
			continue
		}
		if dialOK(p) {
			what := "removed"
			if m := s.model[n]; m != nil && m.Failed {
				what = "failed to start (port was occupied) but"
			}
			s.find("http-not-running-still-accepting", fmt.Sprintf("HTTP listener %q %s still accepts TCP connections on its port", n, what), map[string]any{"port": p})
		} else {
			s.c.Observe("http-not-running-refuses", 1)
		}
	}
}

// listenerFrames renders the Listener events an operator has received (for witnesses).
func listenerFrames(fs []opclient.Frame) []string {
	var out []string
	for _, f := range fs {
		if f.Head.Event == opclient.EvListener || f.BadErr != "" {
			out = append(out, fmt.Sprintf("#%d sub=%d user=%q name=%q status=%q bad=%q", f.Seq, f.Body.SubEvent, f.Head.User, f.InfoStr("Name"), f.InfoStr("Status"), f.BadErr))
		}
	}
	if len(out) > 40 {
		out = out[len(out)-40:]
	}
	return out
}

func em(extra, missing []string) string {
	switch {
	case len(extra) > 0 && len(missing) > 0:
		return "extra+missing"
	case len(extra) > 0:
		return "extra"
	}
	return "missing"
}

func uniq(in []string) []string {
	var out []string
	for i, s := range in {
		if i == 0 || s != in[i-1] {
			out = append(out, s)
		}
	}
	return out
}

func dialOK(port int) bool {
	c, err := net.DialTimeout("tcp", fmt.Sprintf("127.0.0.1:%d", port), 2*time.Second)
	if err != nil {
		return false
	}
	c.Close()
	return true
}

// registryNames returns all names currently in the running registry.
func (s *session) registryHas(name string) bool {
	for _, l := range s.r.TS.Listeners {
		if l.Name == name {
			return true
		}
	}
	return false
}

// cleanup removes whatever the sequence left behind (the removals are operations like any
// other: checked). It reports whether the rig is clean again.
func (s *session) cleanup(names []string) bool {
	for _, n := range names {
		for k := 0; k < 3 && s.broken == "" && (s.registryHas(n) || s.model[n] != nil); k++ {
			s.apply(Op{V: "remove", N: n})
		}
	}
	if s.broken != "" || len(s.r.TS.Listeners) != 0 || len(s.model) != 0 || len(s.live) != 0 {
		return false
	}
	db, _, err := dbNames(s.r.Dir + "/data/teamserver.db")
	return err == nil && len(db) == 0
}
