package c19

import (
	"encoding/json"
	"math/big"
	"regexp"
	"strings"
)

// ---------------------------------------------------------------------------------
// Schema model (what both decoders are configured from)
// ---------------------------------------------------------------------------------

// TypeS is the type of an attribute.
//
//	K: string | number | bool | list | set | map | object | tuple | any
type TypeS struct {
	K      string   `json:"k"`
	Num    string   `json:"num,omitempty"`    // number: int | float | big  (Go field kind: int64 | float64 | cty.Value)
	Elem   *TypeS   `json:"elem,omitempty"`   // list, set, map
	Fields []FieldS `json:"fields,omitempty"` // object
	Elems  []TypeS  `json:"elems,omitempty"`  // tuple
}

type FieldS struct {
	Name string `json:"name"`
	Type TypeS  `json:"type"`
}

// AttrS: Mode req = required in both decoders; opt = optional (gohcl `,optional` on a
// non-pointer field: absent => zero value); ptr = optional (gohcl pointer field: absent =>
// nil). Default (hcldec only: DefaultSpec{AttrSpec, LiteralSpec}) is used when the attribute
// is absent or null.
type AttrS struct {
	Name    string `json:"name"`
	Type    TypeS  `json:"type"`
	Mode    string `json:"mode"`
	Default *Val   `json:"default,omitempty"`
}

// BlockS: Mode single | list | set | map | tuple | object | attrs.
type BlockS struct {
	Type      string   `json:"type"`
	Mode      string   `json:"mode"`
	Required  bool     `json:"required,omitempty"`   // single, attrs
	MapLabels []string `json:"map_labels,omitempty"` // map, object: labels consumed as keys
	Labels    []string `json:"labels,omitempty"`     // labels exposed in the nested value (BlockLabelSpec)
	GoPtr     bool     `json:"go_ptr,omitempty"`     // multi: []*T instead of []T
	Body      *Schema  `json:"body,omitempty"`
	Elem      *TypeS   `json:"elem,omitempty"` // attrs mode element type
}

// Schema: Partial (top level only) = the body is decoded in two stages, as applications
// with extensible configuration do. Stage one uses the schema in partial mode
// (hcldec.PartialDecode; gohcl `remain` field); stage two decodes the remaining body
// strictly against the optional, dynamically typed attributes named in Extras.
// RemainKind: body = the gohcl remain field is an hcl.Body which the harness decodes with a
// second gohcl.DecodeBody; struct = the remain field is itself a struct with the Extras as
// optional fields, so gohcl does stage two on its own.
type Schema struct {
	Attrs      []AttrS  `json:"attrs,omitempty"`
	Blocks     []BlockS `json:"blocks,omitempty"`
	Partial    bool     `json:"partial,omitempty"`
	Extras     []string `json:"extras,omitempty"`
	RemainKind string   `json:"remain_kind,omitempty"`
}

func (b *BlockS) nLabels() int { return len(b.MapLabels) + len(b.Labels) }

func (s *Schema) attr(name string) *AttrS {
	for i := range s.Attrs {
		if s.Attrs[i].Name == name {
			return &s.Attrs[i]
		}
	}
	return nil
}

func (s *Schema) block(typ string) *BlockS {
	if s == nil {
		return nil
	}
	for i := range s.Blocks {
		if s.Blocks[i].Type == typ {
			return &s.Blocks[i]
		}
	}
	return nil
}

// ---------------------------------------------------------------------------------
// Values / expressions
// ---------------------------------------------------------------------------------

// Val is a value of the model and, with the kinds ref/tmpl/trav, an expression of the
// rewritten documents (dynamic blocks).
//
//	K: s (string) n (number, decimal text) b (bool) null seq obj
//	   ref  (traversal evaluated as an expression: Root + Path steps)
//	   tmpl (template: Seq of s and ref parts)
//	   trav (bare traversal, e.g. the value of `iterator`)
type Val struct {
	K    string   `json:"k"`
	S    string   `json:"s,omitempty"`
	N    string   `json:"n,omitempty"`
	B    bool     `json:"b,omitempty"`
	Seq  []*Val   `json:"seq,omitempty"`
	Keys []string `json:"keys,omitempty"`
	Vals []*Val   `json:"vals,omitempty"`
	Root string   `json:"root,omitempty"`
	Path []Step   `json:"path,omitempty"`
}

type Step struct {
	Name  string `json:"name,omitempty"`
	Index *int   `json:"index,omitempty"`
}

func vS(s string) *Val   { return &Val{K: "s", S: s} }
func vN(n string) *Val   { return &Val{K: "n", N: n} }
func vB(b bool) *Val     { return &Val{K: "b", B: b} }
func vNull() *Val        { return &Val{K: "null"} }
func vSeq(e []*Val) *Val { return &Val{K: "seq", Seq: e} }

func vRef(root string, names ...string) *Val {
	v := &Val{K: "ref", Root: root}
	for _, n := range names {
		v.Path = append(v.Path, Step{Name: n})
	}
	return v
}

func (v *Val) get(key string) *Val {
	for i, k := range v.Keys {
		if k == key {
			return v.Vals[i]
		}
	}
	return nil
}

func (v *Val) set(key string, x *Val) {
	v.Keys = append(v.Keys, key)
	v.Vals = append(v.Vals, x)
}

func (v *Val) clone() *Val {
	if v == nil {
		return nil
	}
	c := *v
	if v.Seq != nil {
		c.Seq = make([]*Val, len(v.Seq))
		for i, e := range v.Seq {
			c.Seq[i] = e.clone()
		}
	}
	if v.Vals != nil {
		c.Keys = append([]string(nil), v.Keys...)
		c.Vals = make([]*Val, len(v.Vals))
		for i, e := range v.Vals {
			c.Vals[i] = e.clone()
		}
	}
	if v.Path != nil {
		c.Path = append([]Step(nil), v.Path...)
	}
	return &c
}

func valEqual(a, b *Val) bool {
	if a == nil || b == nil {
		return a == b
	}
	if a.K != b.K {
		return false
	}
	switch a.K {
	case "s":
		return a.S == b.S
	case "n":
		return a.N == b.N
	case "b":
		return a.B == b.B
	case "null":
		return true
	case "seq", "tmpl":
		if len(a.Seq) != len(b.Seq) {
			return false
		}
		for i := range a.Seq {
			if !valEqual(a.Seq[i], b.Seq[i]) {
				return false
			}
		}
		return true
	case "obj":
		if len(a.Keys) != len(b.Keys) {
			return false
		}
		for i := range a.Keys {
			if a.Keys[i] != b.Keys[i] || !valEqual(a.Vals[i], b.Vals[i]) {
				return false
			}
		}
		return true
	}
	ja, _ := json.Marshal(a)
	jb, _ := json.Marshal(b)
	return string(ja) == string(jb)
}

// numRat is the exact rational a decimal literal denotes (independent of the code under
// test: math/big).
func numRat(text string) *big.Rat {
	r, ok := new(big.Rat).SetString(text)
	if !ok {
		panic("c19: bad number literal in model: " + text)
	}
	return r
}

// ---------------------------------------------------------------------------------
// Documents: the generated configuration and its rewritten forms share one tree
// ---------------------------------------------------------------------------------

// Item is an attribute definition or a block. A dynamic block is an ordinary block of type
// "dynamic" with one label (the real block type), attributes for_each / iterator / labels
// and a nested block "content".
type Item struct {
	K      string   `json:"k"` // attr | block
	Name   string   `json:"name"`
	Val    *Val     `json:"val,omitempty"`
	Labels []string `json:"labels,omitempty"`
	Body   []*Item  `json:"body,omitempty"`
}

func (it *Item) clone() *Item {
	c := *it
	c.Val = it.Val.clone()
	c.Labels = append([]string(nil), it.Labels...)
	c.Body = cloneItems(it.Body)
	return &c
}

func cloneItems(items []*Item) []*Item {
	if items == nil {
		return nil
	}
	out := make([]*Item, len(items))
	for i, it := range items {
		out[i] = it.clone()
	}
	return out
}

func itemsEqual(a, b []*Item) bool {
	if len(a) != len(b) {
		return false
	}
	for i := range a {
		if !itemEqual(a[i], b[i]) {
			return false
		}
	}
	return true
}

func itemEqual(a, b *Item) bool {
	if a.K != b.K || a.Name != b.Name || len(a.Labels) != len(b.Labels) {
		return false
	}
	for i := range a.Labels {
		if a.Labels[i] != b.Labels[i] {
			return false
		}
	}
	if a.K == "attr" {
		return valEqual(a.Val, b.Val)
	}
	return itemsEqual(a.Body, b.Body)
}

// orderClass: items of one class must keep their relative order under every rewrite. All
// blocks of one type (static or generated by a dynamic block) form one class; attributes
// are unordered.
func (it *Item) orderClass() string {
	if it.K != "block" {
		return ""
	}
	if it.Name == "dynamic" && len(it.Labels) == 1 {
		return "b:" + it.Labels[0]
	}
	return "b:" + it.Name
}

func (it *Item) isDynamic() bool { return it.K == "block" && it.Name == "dynamic" }

func hasDynamic(items []*Item) bool {
	for _, it := range items {
		if it.K == "block" {
			if it.Name == "dynamic" || hasDynamic(it.Body) {
				return true
			}
		}
	}
	return false
}

func blocksOf(items []*Item, typ string) []*Item {
	var out []*Item
	for _, it := range items {
		if it.K == "block" && it.Name == typ {
			out = append(out, it)
		}
	}
	return out
}

func attrsOf(items []*Item, name string) []*Item {
	var out []*Item
	for _, it := range items {
		if it.K == "attr" && it.Name == name {
			out = append(out, it)
		}
	}
	return out
}

// ---------------------------------------------------------------------------------
// Lexical helpers shared by the printers
// ---------------------------------------------------------------------------------

var identRe = regexp.MustCompile(`^[A-Za-z_][A-Za-z0-9_-]*$`)

var reservedWords = map[string]bool{
	"for": true, "in": true, "if": true, "else": true, "endif": true, "endfor": true,
	"true": true, "false": true, "null": true,
}

// bareOK: may be written as a bare identifier (object key, block label).
func bareOK(s string) bool {
	return identRe.MatchString(s) && !reservedWords[s] && !strings.HasSuffix(s, "-")
}

// tmplEscape makes a literal string safe inside a template (native quoted string or
// heredoc, JSON string in full-expression mode): an introducer ${ or %{ is escaped by
// doubling its first character. A run $$...${ keeps working because only the last "$${"
// of the run is the escape.
func tmplEscape(s string) string {
	s = strings.ReplaceAll(s, "${", "$${")
	s = strings.ReplaceAll(s, "%{", "%%{")
	return s
}

// splitForInterp cuts s into s1+s2+s3 so that it can be spelled as the template
// s1 ${"s2"} s3 (an interpolation of a string literal): s2 has no line break and s1 does
// not end in a character that would turn the interpolation into an escape.
func splitForInterp(s string, pick func(n int) int) (s1, s2, s3 string, ok bool) {
	rs := []rune(s)
	if len(rs) < 1 {
		return "", "", "", false
	}
	i := pick(len(rs))
	j := i + 1 + pick(len(rs)-i)
	if j > len(rs) {
		j = len(rs)
	}
	s1, s2, s3 = string(rs[:i]), string(rs[i:j]), string(rs[j:])
	if strings.HasSuffix(s1, "$") || strings.HasSuffix(s1, "%") || strings.ContainsAny(s2, "\n\r") {
		return "", "", "", false
	}
	return s1, s2, s3, true
}
