package c19

import (
	"fmt"
	"math/rand"
	"strings"
	"unicode/utf8"
)

// JSON-syntax printer, written from json/spec.md: a body is a JSON object (at the root also
// an array of objects); an attribute is a property whose value is a JSON rendering of the
// expression (strings are templates: ${ and %{ are escaped; a reference is "${trav}");
// a block is a property named by the block type, with one nested object level per label
// and then an object (one block) or an array of objects (several blocks with the same
// labels); arrays of objects may replace an object at every label level; a property name
// may be repeated. It never calls the code under test.
//
// fancy=false: one property per item, one object level per label, object bodies.
// fancy=true: grouping of blocks under one property, arrays at label and body levels,
// "//" comment properties, root as an array, whitespace and alternative string escapes.

type jsonPrinter struct {
	r     *rand.Rand
	fancy bool
	stats map[string]int
}

// jnode is a JSON text tree: either raw text or an object/array of children.
type jprop struct {
	name string
	val  string
}

func printJSON(items []*Item, r *rand.Rand, fancy bool) (string, map[string]int) {
	p := &jsonPrinter{r: r, fancy: fancy, stats: map[string]int{}}
	props := p.bodyProps(items)
	if fancy && r.Intn(5) == 0 {
		// root body as an array of objects
		p.stats["json:root-array"]++
		return p.arrayOfObjects(props, true), p.stats
	}
	return p.object(props), p.stats
}

func (p *jsonPrinter) coin(n int) bool { return p.fancy && p.r.Intn(n) == 0 }

func (p *jsonPrinter) ws() string {
	if !p.fancy {
		return ""
	}
	return []string{"", "", " ", "\n", "\t", "  ", "\r\n", "\n  "}[p.r.Intn(8)]
}

func (p *jsonPrinter) object(props []jprop) string {
	var sb strings.Builder
	sb.WriteString("{" + p.ws())
	for i, pr := range props {
		if i > 0 {
			sb.WriteString(p.ws() + "," + p.ws())
		}
		sb.WriteString(pr.name + p.ws() + ":" + p.ws() + pr.val)
	}
	sb.WriteString(p.ws() + "}")
	return sb.String()
}

func (p *jsonPrinter) array(elems []string) string {
	var sb strings.Builder
	sb.WriteString("[" + p.ws())
	for i, e := range elems {
		if i > 0 {
			sb.WriteString(p.ws() + "," + p.ws())
		}
		sb.WriteString(e)
	}
	sb.WriteString(p.ws() + "]")
	return sb.String()
}

// arrayOfObjects splits a property sequence over the objects of an array, keeping order.
func (p *jsonPrinter) arrayOfObjects(props []jprop, allowEmpty bool) string {
	var elems []string
	i := 0
	for i < len(props) {
		n := 1 + p.r.Intn(len(props)-i)
		if p.r.Intn(2) == 0 {
			n = 1
		}
		elems = append(elems, p.object(props[i:i+n]))
		i += n
	}
	if allowEmpty && (len(elems) == 0 || p.r.Intn(4) == 0) {
		elems = append(elems, p.object(nil))
	}
	return p.array(elems)
}

// str renders a Go string as a JSON string token.
func (p *jsonPrinter) str(s string) string {
	var sb strings.Builder
	sb.WriteByte('"')
	for _, c := range s {
		switch {
		case c == '"':
			sb.WriteString(`\"`)
		case c == '\\':
			sb.WriteString(`\\`)
		case c == '\n':
			sb.WriteString(`\n`)
		case c == '\r':
			sb.WriteString(`\r`)
		case c == '\t':
			sb.WriteString(`\t`)
		case c < 0x20:
			fmt.Fprintf(&sb, `\u%04x`, c)
		case c == '/' && p.coin(3):
			sb.WriteString(`\/`)
		case c >= 0x80 && c < 0x10000 && p.coin(3):
			fmt.Fprintf(&sb, `\u%04x`, c)
		case c >= 0x10000 && p.coin(3):
			c -= 0x10000
			fmt.Fprintf(&sb, `\u%04x\u%04x`, 0xd800+(c>>10), 0xdc00+(c&0x3ff))
		case c < 0x80 && c > 0x20 && p.coin(40):
			fmt.Fprintf(&sb, `\u%04X`, c)
		default:
			var buf [4]byte
			n := utf8.EncodeRune(buf[:], c)
			sb.Write(buf[:n])
		}
	}
	sb.WriteByte('"')
	return sb.String()
}

func refJSONText(v *Val) string {
	var sb strings.Builder
	sb.WriteString(v.Root)
	for _, st := range v.Path {
		if st.Index != nil {
			fmt.Fprintf(&sb, "[%d]", *st.Index)
			continue
		}
		if bareOK(st.Name) {
			sb.WriteString("." + st.Name)
		} else {
			// a quoted template inside the interpolation sequence
			sb.WriteString(`["` + natEscape(tmplEscape(st.Name), false, nil) + `"]`)
		}
	}
	return sb.String()
}

func (p *jsonPrinter) number(n string) string {
	if p.fancy && strings.Contains(n, "e") {
		switch p.r.Intn(3) {
		case 0:
			n = strings.Replace(n, "e", "E", 1)
		case 1:
			if !strings.Contains(n, "e-") {
				n = strings.Replace(n, "e", "e+", 1)
			}
		}
	}
	return n
}

func (p *jsonPrinter) expr(v *Val) string {
	switch v.K {
	case "s":
		if p.coin(6) {
			// part of the string as the interpolation of a native string literal
			if s1, s2, s3, ok := splitForInterp(v.S, p.r.Intn); ok {
				p.stats["json:literal-interpolation"]++
				return p.str(tmplEscape(s1) + `${"` + natEscape(tmplEscape(s2), false, nil) + `"}` + tmplEscape(s3))
			}
		}
		return p.str(tmplEscape(v.S))
	case "n":
		return p.number(v.N)
	case "b":
		if v.B {
			return "true"
		}
		return "false"
	case "null":
		return "null"
	case "trav":
		return p.str(v.Root)
	case "ref":
		return p.str("${" + refJSONText(v) + "}")
	case "tmpl":
		var sb strings.Builder
		for _, part := range v.Seq {
			if part.K == "s" {
				sb.WriteString(tmplEscape(part.S))
			} else {
				sb.WriteString("${" + refJSONText(part) + "}")
			}
		}
		return p.str(sb.String())
	case "seq":
		var elems []string
		for _, e := range v.Seq {
			elems = append(elems, p.expr(e))
		}
		return p.array(elems)
	case "obj":
		var props []jprop
		for i, k := range v.Keys {
			props = append(props, jprop{p.str(tmplEscape(k)), p.expr(v.Vals[i])})
		}
		return p.object(props)
	}
	panic("c19: json printer: unknown value kind " + v.K)
}

func (p *jsonPrinter) comment() jprop {
	vals := []string{`"comment"`, `null`, `{"a": 1}`, `["x"]`, `"${nope}"`, `42`}
	return jprop{`"//"`, vals[p.r.Intn(len(vals))]}
}

// bodyProps renders the items of one body as a property sequence.
func (p *jsonPrinter) bodyProps(items []*Item) []jprop {
	var props []jprop
	done := make([]bool, len(items))
	for i, it := range items {
		if p.coin(8) {
			props = append(props, p.comment())
			p.stats["json:comment"]++
		}
		if done[i] {
			continue
		}
		done[i] = true
		if it.K == "attr" {
			props = append(props, jprop{p.str(it.Name), p.expr(it.Val)})
			continue
		}
		group := []*Item{it}
		if p.fancy {
			// pull later blocks with the same property name and label count into this
			// property, as long as no remaining item of their order class lies in between
			for j := i + 1; j < len(items); j++ {
				c := items[j]
				if done[j] || c.K != "block" || c.Name != it.Name || len(c.Labels) != len(it.Labels) {
					continue
				}
				if p.r.Intn(3) == 0 {
					break
				}
				blocked := false
				for k := i + 1; k < j; k++ {
					if !done[k] && items[k].orderClass() == c.orderClass() {
						blocked = true
					}
				}
				if blocked {
					continue
				}
				done[j] = true
				group = append(group, c)
			}
			if len(group) > 1 {
				p.stats["json:grouped-blocks"]++
			}
		}
		props = append(props, jprop{p.str(it.Name), p.blockLevel(group, 0)})
	}
	if p.coin(10) {
		props = append(props, p.comment())
		p.stats["json:comment"]++
	}
	return props
}

// blockLevel renders blocks (same type, same number of labels, in order) from label
// level lv downwards.
func (p *jsonPrinter) blockLevel(blocks []*Item, lv int) string {
	nl := len(blocks[0].Labels)
	if lv == nl {
		var bodies []string
		for _, b := range blocks {
			bodies = append(bodies, p.object(p.bodyProps(b.Body)))
		}
		if len(bodies) == 1 && !p.coin(4) {
			return bodies[0]
		}
		if len(bodies) == 1 {
			p.stats["json:single-in-array"]++
		} else {
			p.stats["json:body-array"]++
		}
		return p.array(bodies)
	}
	// label level: consecutive blocks with the same label may share one property
	var props []jprop
	i := 0
	for i < len(blocks) {
		j := i + 1
		for j < len(blocks) && blocks[j].Labels[lv] == blocks[i].Labels[lv] && (p.fancy && p.r.Intn(4) != 0) {
			j++
		}
		props = append(props, jprop{p.str(blocks[i].Labels[lv]), p.blockLevel(blocks[i:j], lv+1)})
		i = j
	}
	if p.coin(4) {
		p.stats["json:label-array"]++
		return p.arrayOfObjects(props, false)
	}
	dup := map[string]bool{}
	for _, pr := range props {
		if dup[pr.name] {
			p.stats["json:dup-label-prop"]++
		}
		dup[pr.name] = true
	}
	return p.object(props)
}
