// Package c19 holds the workload and monitor for property C19 (see /verif/DESIGN.md §3).
package c19
