package c19

import (
	"fmt"
	"math/rand"
	"sort"
	"strconv"
	"strings"
)

// ---------------------------------------------------------------------------------
// (e) reordering
// ---------------------------------------------------------------------------------

// reorderDeep permutes the items of every body; blocks of one type (static or dynamic)
// keep their relative order, which is the only order either decoder gives a meaning to.
func reorderDeep(r *rand.Rand, items []*Item) []*Item {
	out := make([]*Item, len(items))
	for i, it := range items {
		c := *it
		if it.K == "block" {
			c.Body = reorderDeep(r, it.Body)
		}
		out[i] = &c
	}
	return reorderItems(r, out)
}

// ---------------------------------------------------------------------------------
// (c) splitting over files
// ---------------------------------------------------------------------------------

// splitItems distributes the top-level items over n files. File order is the order in
// which a merged body returns blocks, so for every order class the file index must not
// decrease along the original order.
func splitItems(r *rand.Rand, items []*Item, n int) [][]*Item {
	idx := make([]int, len(items))
	for i := range items {
		idx[i] = r.Intn(n)
	}
	byClass := map[string][]int{}
	for i, it := range items {
		if c := it.orderClass(); c != "" {
			byClass[c] = append(byClass[c], i)
		}
	}
	for _, pos := range byClass {
		vals := make([]int, len(pos))
		for k, p := range pos {
			vals[k] = idx[p]
		}
		sort.Ints(vals)
		for k, p := range pos {
			idx[p] = vals[k]
		}
	}
	out := make([][]*Item, n)
	for i, it := range items {
		out[idx[i]] = append(out[idx[i]], it)
	}
	return out
}

// ---------------------------------------------------------------------------------
// (d) dynamic blocks
// ---------------------------------------------------------------------------------

type dynStats map[string]int

type dynCtx struct {
	r     *rand.Rand
	stats dynStats
	seq   int
	// attrsIter: probe outside the domain (known finding dyn-attrs-iterator): blocks that
	// are read with JustAttributes get their values through the iterator, too
	attrsIter bool
	// frames: the `dynamic` blocks whose content is being built right now, outermost first
	// (iterator name and the value objects of all blocks each generates): a nested content
	// may take a value that is the same everywhere from any enclosing iterator, not only
	// from its direct parent's
	frames []dynFrame
}

type dynFrame struct {
	iter string
	objs []*Val
}

// dynamize rewrites blocks of the given body (and, recursively, of nested bodies) into
// `dynamic` blocks that generate the same blocks in the same order. env = iterator names
// visible at this point.
func (d *dynCtx) dynamize(items []*Item, s *Schema, env []string) []*Item {
	var out []*Item
	done := make([]bool, len(items))
	for i, it := range items {
		if done[i] {
			continue
		}
		done[i] = true
		if it.K != "block" || it.isDynamic() {
			out = append(out, it)
			continue
		}
		bs := s.block(it.Name)
		if bs == nil { // not in the schema (cannot happen for generated documents)
			out = append(out, it)
			continue
		}
		if d.r.Intn(3) == 0 && !(d.attrsIter && bs.Mode == "attrs") {
			// leave static, but look inside
			c := *it
			if bs.Body != nil {
				c.Body = d.dynamize(it.Body, bs.Body, env)
			}
			out = append(out, &c)
			continue
		}
		// a run: this block and following blocks of the same type (they are consecutive
		// within their order class by construction); blocks of other classes in between
		// stay where they are, which moves the run's later members forward — harmless,
		// because only the order within a class is meaningful.
		run := []*Item{it}
		for j := i + 1; j < len(items) && len(run) < 6; j++ {
			c := items[j]
			if done[j] || c.orderClass() != it.orderClass() {
				continue
			}
			if c.isDynamic() || d.r.Intn(4) == 0 {
				break
			}
			if !sameShape(run[0], c) {
				break
			}
			done[j] = true
			run = append(run, c)
		}
		dyn := d.makeDynamic(run, bs, env)
		if dyn == nil {
			for _, b := range run {
				c := *b
				if bs.Body != nil {
					c.Body = d.dynamize(b.Body, bs.Body, env)
				}
				out = append(out, &c)
			}
			continue
		}
		out = append(out, dyn)
	}
	// dynamic blocks that generate nothing
	for i := range s.Blocks {
		if d.r.Intn(10) == 0 {
			bs := &s.Blocks[i]
			e := d.emptyDynamic(bs)
			pos := d.r.Intn(len(out) + 1)
			out = append(out[:pos], append([]*Item{e}, out[pos:]...)...)
			d.stats["dyn:empty"]++
		}
	}
	return out
}

func (d *dynCtx) emptyDynamic(bs *BlockS) *Item {
	body := []*Item{{K: "attr", Name: "for_each", Val: &Val{K: []string{"seq", "obj"}[d.r.Intn(2)], Seq: []*Val{}, Keys: []string{}, Vals: []*Val{}}}}
	if bs.nLabels() > 0 {
		ls := &Val{K: "seq", Seq: []*Val{}}
		for k := 0; k < bs.nLabels(); k++ {
			ls.Seq = append(ls.Seq, vS("unused"))
		}
		body = append(body, &Item{K: "attr", Name: "labels", Val: ls})
	}
	body = append(body, &Item{K: "block", Name: "content", Labels: []string{}, Body: []*Item{}})
	return &Item{K: "block", Name: "dynamic", Labels: []string{bs.Type}, Body: body}
}

// sameShape: two blocks can come from one `content` template: same label count, same
// attribute names (each once), and recursively compatible nested blocks.
func sameShape(a, b *Item) bool {
	if len(a.Labels) != len(b.Labels) {
		return false
	}
	an, bn := attrNames(a.Body), attrNames(b.Body)
	if an == nil || bn == nil || len(an) != len(bn) {
		return false
	}
	for i := range an {
		if an[i] != bn[i] {
			return false
		}
	}
	return true
}

// attrNames: sorted attribute names of a body, nil if one is defined twice.
func attrNames(items []*Item) []string {
	out := []string{}
	seen := map[string]bool{}
	for _, it := range items {
		if it.K == "attr" {
			if seen[it.Name] {
				return nil
			}
			seen[it.Name] = true
			out = append(out, it.Name)
		}
	}
	sort.Strings(out)
	return out
}

func (d *dynCtx) iterName(typ string, env []string) (name string, renamed bool) {
	clash := false
	for _, e := range env {
		if e == typ {
			clash = true
		}
	}
	if !clash && d.r.Intn(5) < 3 {
		return typ, false
	}
	for {
		d.seq++
		n := []string{"it", "each", "i", "item", "x", "row"}[d.r.Intn(6)]
		if d.seq > 1 || d.r.Intn(2) == 0 {
			n += strconv.Itoa(d.seq)
		}
		ok := n != typ
		for _, e := range env {
			if e == n {
				ok = false
			}
		}
		if ok {
			return n, true
		}
	}
}

// makeDynamic builds one dynamic block generating exactly the blocks of run (in order),
// or nil if that is not possible inside the domain (see template).
func (d *dynCtx) makeDynamic(run []*Item, bs *BlockS, env []string) *Item {
	groups := [][]*Item{run}
	tpl, colls, _ := d.template(groups, bs, env, "")
	if tpl == nil {
		return nil
	}
	tpl.Body[0].Val = colls[0] // for_each
	d.stats["dyn:blocks"]++
	d.stats["dyn:generated"] += len(run)
	if len(run) == 1 {
		d.stats["dyn:run1"]++
	}
	return tpl
}

// template builds a `dynamic` block for the block type bs whose content generates, for
// every group g (the blocks one evaluation of for_each has to produce, in order), exactly
// the blocks of g. It returns the dynamic block (with for_each left as a placeholder when
// parentIter != "": then for_each refers to the parent's iterator value) and, per group,
// the collection value for_each has to evaluate to.
//
// extras (per group): attributes the caller must add to the parent's iterator value,
// because the content refers to them through the parent's iterator (values that are the
// same for all children of one parent).
func (d *dynCtx) template(groups [][]*Item, bs *BlockS, env []string, parentIter string) (*Item, []*Val, []*Val) {
	var all []*Item
	groupOf := map[*Item]int{}
	for gi, g := range groups {
		for _, b := range g {
			groupOf[b] = gi
		}
		all = append(all, g...)
	}
	if len(all) == 0 {
		return nil, nil, nil
	}
	for _, b := range all[1:] {
		if !sameShape(all[0], b) {
			return nil, nil, nil
		}
	}
	names := attrNames(all[0].Body)
	if names == nil {
		return nil, nil, nil
	}
	extras := make([]*Val, len(groups))
	for gi := range extras {
		extras[gi] = &Val{K: "obj", Keys: []string{}, Vals: []*Val{}}
	}
	attrsMode := bs.Mode == "attrs"
	iter, renamed := d.iterName(bs.Type, env)
	if renamed {
		d.stats["dyn:iterator-renamed"]++
	}
	innerEnv := append(append([]string{}, env...), iter)

	// per-block value objects
	objs := make(map[*Item]*Val, len(all))
	for _, b := range all {
		objs[b] = &Val{K: "obj", Keys: []string{}, Vals: []*Val{}}
	}

	// keyed for_each: an object whose attribute names, in lexical order, give the
	// iteration order; the key may double as the first label.
	keyed := d.r.Intn(3) == 0
	keyAsLabel := -1
	if keyed && len(all[0].Labels) > 0 {
		lv := d.r.Intn(len(all[0].Labels))
		ok := true
		for _, g := range groups {
			for i := 1; i < len(g); i++ {
				if !(g[i-1].Labels[lv] < g[i].Labels[lv]) {
					ok = false
				}
			}
		}
		if ok {
			keyAsLabel = lv
		}
	}

	var content []*Item
	// attributes
	for _, n := range names {
		vals := make([]*Val, len(all))
		same := true
		for i, b := range all {
			vals[i] = attrsOf(b.Body, n)[0].Val
			if !valEqual(vals[i], vals[0]) {
				same = false
			}
		}
		if attrsMode && d.attrsIter {
			key := "a_" + n
			for i, b := range all {
				objs[b].set(key, vals[i].clone())
			}
			content = append(content, &Item{K: "attr", Name: n, Val: vRef(iter, "value", key)})
			d.stats["dyn:attrs-block-from-iterator"]++
			continue
		}
		if attrsMode && !same {
			// a body read with JustAttributes does not see iterator variables in this
			// implementation (dynblock passes JustAttributes through): only constant
			// content is inside the domain. See known finding dyn-attrs-iterator.
			return nil, nil, nil
		}
		if same && !attrsMode && len(d.frames) > 0 && d.r.Intn(3) == 0 {
			// the same value in every generated block: hand it down through an enclosing
			// iterator (every element of that for_each carries it), preferably one that is
			// not the direct parent
			fi := d.r.Intn(len(d.frames))
			if len(d.frames) >= 2 && d.r.Intn(2) == 0 {
				fi = d.r.Intn(len(d.frames) - 1)
			}
			fr := d.frames[fi]
			d.seq++
			key := fmt.Sprintf("h%d_%s", d.seq, n)
			for _, o := range fr.objs {
				o.set(key, vals[0].clone())
			}
			content = append(content, &Item{K: "attr", Name: n, Val: vRef(fr.iter, "value", key)})
			d.stats[fmt.Sprintf("dyn:attr-from-enclosing-iterator:%d-up", len(d.frames)-fi)]++
			continue
		}
		if same && (attrsMode || d.r.Intn(2) == 0) {
			content = append(content, &Item{K: "attr", Name: n, Val: vals[0].clone()})
			continue
		}
		if parentIter != "" && !same && len(groups) > 1 && d.r.Intn(2) == 0 {
			// constant per parent: take it from the parent's iterator
			perGroup := true
			for gi, g := range groups {
				for _, b := range g {
					if !valEqual(attrsOf(b.Body, n)[0].Val, attrsOf(groups[gi][0].Body, n)[0].Val) {
						perGroup = false
					}
				}
			}
			if perGroup {
				key := "p_" + bs.Type + "_" + n
				for gi, g := range groups {
					if len(g) > 0 {
						extras[gi].set(key, attrsOf(g[0].Body, n)[0].Val.clone())
					}
				}
				content = append(content, &Item{K: "attr", Name: n, Val: vRef(parentIter, "value", key)})
				d.stats["dyn:attr-from-outer-iterator"]++
				continue
			}
		}
		key := "a_" + n
		for i, b := range all {
			objs[b].set(key, vals[i].clone())
		}
		content = append(content, &Item{K: "attr", Name: n, Val: vRef(iter, "value", key)})
		d.stats["dyn:attr-from-iterator"]++
	}
	// labels
	var labelExprs []*Val
	for lv := range all[0].Labels {
		same := true
		for _, b := range all {
			if b.Labels[lv] != all[0].Labels[lv] {
				same = false
			}
		}
		switch {
		case lv == keyAsLabel:
			labelExprs = append(labelExprs, vRef(iter, "key"))
			d.stats["dyn:label-from-key"]++
		case same && d.r.Intn(2) == 0:
			labelExprs = append(labelExprs, vS(all[0].Labels[lv]))
		default:
			// "<prefix><index>" labels of an un-keyed for_each can be spelled as a template
			if pre, ok := d.indexSeries(groups, lv); ok && !keyed && d.r.Intn(2) == 0 {
				labelExprs = append(labelExprs, &Val{K: "tmpl", Seq: []*Val{vS(pre), vRef(iter, "key")}})
				d.stats["dyn:label-template"]++
				continue
			}
			key := "l" + strconv.Itoa(lv)
			for _, b := range all {
				objs[b].set(key, vS(b.Labels[lv]))
			}
			labelExprs = append(labelExprs, vRef(iter, "value", key))
			d.stats["dyn:label-from-iterator"]++
		}
	}
	// nested blocks
	if !attrsMode && bs.Body != nil {
		fr := dynFrame{iter: iter}
		for _, b := range all {
			fr.objs = append(fr.objs, objs[b])
		}
		d.frames = append(d.frames, fr)
		defer func(n int) { d.frames = d.frames[:n] }(len(d.frames) - 1)
		for ti := range bs.Body.Blocks {
			cs := &bs.Body.Blocks[ti]
			kids := make([][]*Item, len(all))
			total := 0
			identical := true
			for i, b := range all {
				kids[i] = blocksOf(b.Body, cs.Type)
				total += len(kids[i])
				if !itemsEqual(kids[i], kids[0]) {
					identical = false
				}
			}
			if total == 0 {
				continue
			}
			if identical && d.r.Intn(2) == 0 {
				// the same static blocks in every generated block; they may in turn be
				// rewritten, with our iterator in scope
				st := d.dynamize(cloneItems(kids[0]), &Schema{Blocks: []BlockS{*cs}}, innerEnv)
				content = append(content, st...)
				d.stats["dyn:static-nested"]++
				continue
			}
			if !identical && d.r.Intn(2) == 0 {
				// static child blocks whose attribute values come from our iterator
				if st := d.staticFromIterator(kids, all, cs, iter, objs); st != nil {
					content = append(content, st...)
					d.stats["dyn:static-nested-from-iterator"]++
					continue
				}
			}
			sub, colls, ex := d.template(kids, cs, innerEnv, iter)
			if sub == nil {
				if !identical {
					return nil, nil, nil
				}
				content = append(content, cloneItems(kids[0])...)
				continue
			}
			key := "c_" + cs.Type
			for i, b := range all {
				objs[b].set(key, colls[i])
				for k, ek := range ex[i].Keys {
					objs[b].set(ek, ex[i].Vals[k])
				}
			}
			sub.Body[0].Val = vRef(iter, "value", key)
			content = append(content, sub)
			d.stats["dyn:nested"]++
		}
	}
	content = reorderItems(d.r, content)

	// collections per group
	colls := make([]*Val, len(groups))
	for gi, g := range groups {
		if keyed {
			c := &Val{K: "obj", Keys: []string{}, Vals: []*Val{}}
			for i, b := range g {
				k := fmt.Sprintf("k%02d", i)
				if keyAsLabel >= 0 {
					k = b.Labels[keyAsLabel]
				}
				c.set(k, objs[b])
			}
			// written in any order: iteration is by key
			perm := d.r.Perm(len(c.Keys))
			pc := &Val{K: "obj", Keys: []string{}, Vals: []*Val{}}
			for _, pi := range perm {
				pc.set(c.Keys[pi], c.Vals[pi])
			}
			colls[gi] = pc
		} else {
			c := &Val{K: "seq", Seq: []*Val{}}
			for _, b := range g {
				c.Seq = append(c.Seq, objs[b])
			}
			colls[gi] = c
		}
	}
	if keyed {
		d.stats["dyn:keyed-for_each"]++
	}

	body := []*Item{{K: "attr", Name: "for_each", Val: vNull()}}
	if renamed {
		body = append(body, &Item{K: "attr", Name: "iterator", Val: &Val{K: "trav", Root: iter}})
	}
	if len(labelExprs) > 0 {
		body = append(body, &Item{K: "attr", Name: "labels", Val: &Val{K: "seq", Seq: labelExprs}})
		d.stats["dyn:labels"]++
	}
	body = append(body, &Item{K: "block", Name: "content", Labels: []string{}, Body: content})
	_ = groupOf
	return &Item{K: "block", Name: "dynamic", Labels: []string{bs.Type}, Body: body}, colls, extras
}

// staticFromIterator: every parent has the same number of children of type cs, and the
// children at one position differ at most in attribute values: they are written as static
// blocks inside the content, the differing values taken from the parent's iterator.
func (d *dynCtx) staticFromIterator(kids [][]*Item, parents []*Item, cs *BlockS, iter string, objs map[*Item]*Val) []*Item {
	n := len(kids[0])
	if n == 0 || cs.Mode == "attrs" {
		return nil
	}
	for _, k := range kids {
		if len(k) != n {
			return nil
		}
	}
	type pending struct {
		parent *Item
		key    string
		val    *Val
	}
	var adds []pending
	var out []*Item
	for j := 0; j < n; j++ {
		first := kids[0][j]
		names := attrNames(first.Body)
		if names == nil {
			return nil
		}
		blk := &Item{K: "block", Name: cs.Type, Labels: append([]string{}, first.Labels...), Body: []*Item{}}
		for pi := range kids {
			c := kids[pi][j]
			if !sameShape(first, c) {
				return nil
			}
			for l := range c.Labels {
				if c.Labels[l] != first.Labels[l] {
					return nil // a static block's labels are literal
				}
			}
			// nested blocks of the child must be the same everywhere
			var a, b []*Item
			for _, x := range first.Body {
				if x.K == "block" {
					a = append(a, x)
				}
			}
			for _, x := range c.Body {
				if x.K == "block" {
					b = append(b, x)
				}
			}
			if !itemsEqual(a, b) {
				return nil
			}
		}
		for _, an := range names {
			same := true
			for pi := range kids {
				if !valEqual(attrsOf(kids[pi][j].Body, an)[0].Val, attrsOf(first.Body, an)[0].Val) {
					same = false
				}
			}
			if same {
				blk.Body = append(blk.Body, &Item{K: "attr", Name: an, Val: attrsOf(first.Body, an)[0].Val.clone()})
				continue
			}
			key := fmt.Sprintf("s_%s_%d_%s", cs.Type, j, an)
			for pi := range kids {
				adds = append(adds, pending{parents[pi], key, attrsOf(kids[pi][j].Body, an)[0].Val.clone()})
			}
			blk.Body = append(blk.Body, &Item{K: "attr", Name: an, Val: vRef(iter, "value", key)})
		}
		for _, x := range first.Body {
			if x.K == "block" {
				blk.Body = append(blk.Body, x.clone())
			}
		}
		blk.Body = reorderItems(d.r, blk.Body)
		out = append(out, blk)
	}
	if len(adds) == 0 {
		return nil
	}
	for _, a := range adds {
		objs[a.parent].set(a.key, a.val)
	}
	return out
}

// indexSeries: in every group the labels at level lv are prefix+"0", prefix+"1", ... with
// one common prefix that cannot be confused with a template introducer.
func (d *dynCtx) indexSeries(groups [][]*Item, lv int) (string, bool) {
	pre := ""
	first := true
	for _, g := range groups {
		for i, b := range g {
			l := b.Labels[lv]
			suf := strconv.Itoa(i)
			if !strings.HasSuffix(l, suf) {
				return "", false
			}
			p := strings.TrimSuffix(l, suf)
			if first {
				pre, first = p, false
			} else if p != pre {
				return "", false
			}
		}
	}
	if first || strings.HasSuffix(pre, "$") || strings.HasSuffix(pre, "%") {
		return "", false
	}
	return pre, true
}
