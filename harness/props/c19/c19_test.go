package c19

import (
	"math/rand"
	"testing"
)

// BenchmarkCase measures one (schema, value) pair through every form and both decoders.
func BenchmarkCase(b *testing.B) {
	r := rand.New(rand.NewSource(1))
	stats := map[string]int{}
	for i := 0; i < b.N; i++ {
		s := genSchema(r, 3, false, nil)
		env, err := newEnv(s)
		if err != nil {
			b.Fatal(err)
		}
		items := genBody(r, s)
		evalCase(env, items, variant{Class: "valid"}, r.Int63(), nil, stats)
	}
}
