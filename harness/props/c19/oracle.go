package c19

import (
	"fmt"
	"math"
	"math/big"
	"reflect"
	"sort"
	"strconv"
	"strings"

	"github.com/zclconf/go-cty/cty"
)

// The oracle compares what a decoder returned with the generated configuration by walking
// both structures; it never asks the decoders (or cty's equality) whether two results are
// "the same".

// mismatch describes the first difference found.
type mismatch struct {
	Class string // stable class for the signature
	Path  string
	What  string
}

func (m *mismatch) String() string { return m.Path + ": " + m.What + " [" + m.Class + "]" }

func mm(class, path, format string, args ...any) *mismatch {
	return &mismatch{Class: class, Path: path, What: fmt.Sprintf(format, args...)}
}

var relEps = new(big.Rat).SetFrac(big.NewInt(1), new(big.Int).Lsh(big.NewInt(1), 400))

// numberMatches: the decoded big.Float denotes the literal's rational exactly, or (for
// decimal fractions that have no finite binary expansion) within 2^-400 relative error.
func numberMatches(text string, bf *big.Float) bool {
	if bf.IsInf() {
		return false
	}
	want := numRat(text)
	got, _ := bf.Rat(nil)
	if got == nil {
		return false
	}
	if want.Cmp(got) == 0 {
		return true
	}
	diff := new(big.Rat).Sub(want, got)
	diff.Abs(diff)
	lim := new(big.Rat).Abs(want)
	lim.Mul(lim, relEps)
	return diff.Cmp(lim) <= 0
}

func typeClass(t TypeS) string {
	if t.K == "number" {
		return "number-" + t.Num
	}
	return t.K
}

// ---------------------------------------------------------------------------------
// cty side
// ---------------------------------------------------------------------------------

// checkCtyVal: cv is the value of model value v at declared type t ("any": the natural
// type of the expression).
func checkCtyVal(t TypeS, v *Val, cv cty.Value, path string) *mismatch {
	cls := "attr:" + typeClass(t)
	if cv == cty.NilVal {
		return mm(cls, path, "no value")
	}
	if !cv.IsWhollyKnown() {
		return mm(cls+":unknown", path, "value is not wholly known: %#v", cv)
	}
	if cv.ContainsMarked() {
		return mm(cls+":marked", path, "value is marked")
	}
	if t.K != "any" {
		if want := ctyType(t); !cv.Type().Equals(want) {
			return mm(cls+":type", path, "type %s, want %s", cv.Type().FriendlyName(), want.FriendlyName())
		}
	}
	if v.K == "null" {
		if !cv.IsNull() {
			return mm(cls+":null", path, "want null, got %#v", cv)
		}
		if t.K == "any" && cv.Type() != cty.DynamicPseudoType {
			return mm(cls+":type", path, "null of type %s, want dynamic", cv.Type().FriendlyName())
		}
		return nil
	}
	if cv.IsNull() {
		return mm(cls+":null", path, "got null, want %s", describeVal(v))
	}
	k := t.K
	if k == "any" {
		switch v.K {
		case "s":
			k = "string"
		case "n":
			k = "number"
		case "b":
			k = "bool"
		case "seq":
			k = "any-seq"
		case "obj":
			k = "any-obj"
		}
	}
	switch k {
	case "string":
		if cv.Type() != cty.String {
			return mm(cls+":type", path, "type %s, want string", cv.Type().FriendlyName())
		}
		if v.K != "s" || cv.AsString() != v.S {
			return mm(cls, path, "string %q, want %s", cv.AsString(), describeVal(v))
		}
	case "number":
		if cv.Type() != cty.Number {
			return mm(cls+":type", path, "type %s, want number", cv.Type().FriendlyName())
		}
		if v.K != "n" || !numberMatches(v.N, cv.AsBigFloat()) {
			return mm(cls, path, "number %s, want %s", cv.AsBigFloat().Text('g', 60), describeVal(v))
		}
	case "bool":
		if cv.Type() != cty.Bool {
			return mm(cls+":type", path, "type %s, want bool", cv.Type().FriendlyName())
		}
		if v.K != "b" || cv.True() != v.B {
			return mm(cls, path, "bool %v, want %s", cv.True(), describeVal(v))
		}
	case "list", "tuple", "any-seq":
		if k == "any-seq" && !cv.Type().IsTupleType() {
			return mm(cls+":type", path, "type %s, want tuple", cv.Type().FriendlyName())
		}
		if v.K != "seq" || cv.LengthInt() != len(v.Seq) {
			return mm(cls+":len", path, "length %d, want %s", cv.LengthInt(), describeVal(v))
		}
		i := 0
		for it := cv.ElementIterator(); it.Next(); i++ {
			_, ev := it.Element()
			et := TypeS{K: "any"}
			if k == "list" {
				et = *t.Elem
			} else if k == "tuple" {
				et = t.Elems[i]
			}
			if m := checkCtyVal(et, v.Seq[i], ev, fmt.Sprintf("%s[%d]", path, i)); m != nil {
				return m
			}
		}
	case "set":
		if v.K != "seq" {
			return mm(cls, path, "model is not a sequence")
		}
		var got []cty.Value
		for it := cv.ElementIterator(); it.Next(); {
			_, ev := it.Element()
			got = append(got, ev)
		}
		used := make([]bool, len(got))
		for i, want := range v.Seq {
			found := false
			for j, ev := range got {
				if checkCtyVal(*t.Elem, want, ev, "") == nil {
					found, used[j] = true, true
				}
			}
			if !found {
				return mm(cls+":missing", path, "set lacks element %d %s: %#v", i, describeVal(want), cv)
			}
		}
		for j := range got {
			if !used[j] {
				return mm(cls+":extra", path, "set has an element the configuration does not: %#v", got[j])
			}
		}
	case "map", "object", "any-obj":
		if k == "any-obj" && !cv.Type().IsObjectType() {
			return mm(cls+":type", path, "type %s, want object", cv.Type().FriendlyName())
		}
		if v.K != "obj" || cv.LengthInt() != len(v.Keys) {
			return mm(cls+":len", path, "%d keys, want %s", cv.LengthInt(), describeVal(v))
		}
		for i, key := range v.Keys {
			var ev cty.Value
			et := TypeS{K: "any"}
			if k == "map" {
				if !cv.HasIndex(cty.StringVal(key)).True() {
					return mm(cls+":key", path, "key %q missing", key)
				}
				ev = cv.Index(cty.StringVal(key))
				et = *t.Elem
			} else {
				if !cv.Type().HasAttribute(key) {
					return mm(cls+":key", path, "attribute %q missing", key)
				}
				ev = cv.GetAttr(key)
				if k == "object" {
					found := false
					for _, f := range t.Fields {
						if f.Name == key {
							et, found = f.Type, true
						}
					}
					if !found {
						return mm(cls+":key", path, "model key %q not in type", key)
					}
				}
			}
			if m := checkCtyVal(et, v.Vals[i], ev, path+"."+strconv.Quote(key)); m != nil {
				return m
			}
		}
	default:
		return mm(cls, path, "oracle: unknown kind %s", k)
	}
	return nil
}

func describeVal(v *Val) string {
	switch v.K {
	case "s":
		return strconv.Quote(v.S)
	case "n":
		return v.N
	case "b":
		return strconv.FormatBool(v.B)
	case "null":
		return "null"
	case "seq":
		return fmt.Sprintf("sequence of %d", len(v.Seq))
	case "obj":
		return fmt.Sprintf("object with keys %q", v.Keys)
	}
	return v.K
}

// checkCtyBody: cv is the decoded value of a body with the given items; labels are the
// labels still visible to the nested spec (exposed labels).
func checkCtyBody(s *Schema, exposed []string, items []*Item, labels []string, cv cty.Value, path string) *mismatch {
	if cv == cty.NilVal || !cv.IsKnown() || cv.IsNull() || !cv.Type().IsObjectType() {
		return mm("body:shape", path, "body value is not a known object: %#v", cv)
	}
	want := len(exposed) + len(s.Attrs) + len(s.Blocks)
	if n := len(cv.Type().AttributeTypes()); n != want {
		return mm("body:shape", path, "object has %d attributes, want %d", n, want)
	}
	get := func(n string) (cty.Value, *mismatch) {
		if !cv.Type().HasAttribute(n) {
			return cty.NilVal, mm("body:shape", path, "object lacks %q", n)
		}
		return cv.GetAttr(n), nil
	}
	for i, n := range exposed {
		lv, m := get(n)
		if m != nil {
			return m
		}
		if lv.Type() != cty.String || !lv.IsKnown() || lv.IsNull() || i >= len(labels) || lv.AsString() != labels[i] {
			return mm("label", path+"."+n, "label value %#v, want %q", lv, labels)
		}
	}
	for i := range s.Attrs {
		a := &s.Attrs[i]
		av, m := get(a.Name)
		if m != nil {
			return m
		}
		defs := attrsOf(items, a.Name)
		p := path + "." + a.Name
		var v *Val
		if len(defs) > 0 {
			v = defs[0].Val
		}
		if v == nil || v.K == "null" {
			if a.Default != nil {
				if m := checkCtyVal(a.Type, a.Default, av, p); m != nil {
					m.Class = "default:" + m.Class
					return m
				}
				continue
			}
			if !av.IsNull() {
				return mm("attr:absent", p, "attribute not set, got %#v", av)
			}
			if a.Type.K != "any" && !av.Type().Equals(ctyType(a.Type)) {
				return mm("attr:absent:type", p, "null of type %s, want %s", av.Type().FriendlyName(), ctyType(a.Type).FriendlyName())
			}
			continue
		}
		if m := checkCtyVal(a.Type, v, av, p); m != nil {
			return m
		}
	}
	for i := range s.Blocks {
		b := &s.Blocks[i]
		bv, m := get(b.Type)
		if m != nil {
			return m
		}
		if !bv.IsKnown() {
			return mm("block:"+b.Mode+":unknown", path+"."+b.Type, "unknown block value")
		}
		if m := checkCtyBlocks(b, blocksOf(items, b.Type), bv, path+"."+b.Type); m != nil {
			return m
		}
	}
	return nil
}

func checkCtyBlocks(b *BlockS, blocks []*Item, bv cty.Value, path string) *mismatch {
	cls := "block:" + b.Mode
	one := func(blk *Item, v cty.Value, p string) *mismatch {
		if b.Mode == "attrs" {
			if !v.Type().IsMapType() || !v.Type().ElementType().Equals(ctyType(*b.Elem)) {
				return mm(cls+":type", p, "type %s", v.Type().FriendlyName())
			}
			if v.LengthInt() != len(blk.Body) {
				return mm(cls+":len", p, "%d attributes, want %d", v.LengthInt(), len(blk.Body))
			}
			for _, a := range blk.Body {
				if !v.HasIndex(cty.StringVal(a.Name)).True() {
					return mm(cls+":key", p, "attribute %q missing", a.Name)
				}
				if m := checkCtyVal(*b.Elem, a.Val, v.Index(cty.StringVal(a.Name)), p+"."+a.Name); m != nil {
					return m
				}
			}
			return nil
		}
		return checkCtyBody(b.Body, b.Labels, blk.Body, blk.Labels[len(b.MapLabels):], v, p)
	}
	switch b.Mode {
	case "single", "attrs":
		if len(blocks) == 0 {
			if !bv.IsNull() {
				return mm(cls+":absent", path, "no block, got %#v", bv)
			}
			return nil
		}
		if bv.IsNull() {
			return mm(cls+":null", path, "block present, got null")
		}
		return one(blocks[0], bv, path)
	case "list", "tuple":
		if bv.IsNull() {
			return mm(cls+":null", path, "got null")
		}
		if b.Mode == "list" && !bv.Type().IsListType() || b.Mode == "tuple" && !bv.Type().IsTupleType() {
			return mm(cls+":type", path, "type %s", bv.Type().FriendlyName())
		}
		if bv.LengthInt() != len(blocks) {
			return mm(cls+":len", path, "%d blocks decoded, %d written", bv.LengthInt(), len(blocks))
		}
		i := 0
		for it := bv.ElementIterator(); it.Next(); i++ {
			_, ev := it.Element()
			if m := one(blocks[i], ev, fmt.Sprintf("%s[%d]", path, i)); m != nil {
				return m
			}
		}
	case "set":
		if bv.IsNull() || !bv.Type().IsSetType() {
			return mm(cls+":type", path, "type %s", bv.Type().FriendlyName())
		}
		var got []cty.Value
		for it := bv.ElementIterator(); it.Next(); {
			_, ev := it.Element()
			got = append(got, ev)
		}
		used := make([]bool, len(got))
		for i, blk := range blocks {
			found := false
			var first *mismatch
			for j, ev := range got {
				if m := one(blk, ev, fmt.Sprintf("%s{%d}", path, i)); m == nil {
					found, used[j] = true, true
				} else if first == nil {
					first = m
				}
			}
			if !found {
				if len(got) == 1 && first != nil {
					return first
				}
				return mm(cls+":missing", path, "set of %d lacks block %d of %d", len(got), i, len(blocks))
			}
		}
		for j := range got {
			if !used[j] {
				return mm(cls+":extra", path, "set has an element no block produces: %#v", got[j])
			}
		}
	case "map", "object":
		if bv.IsNull() {
			return mm(cls+":null", path, "got null")
		}
		return checkCtyLabelMap(b, blocks, 0, bv, path, one)
	}
	return nil
}

func checkCtyLabelMap(b *BlockS, blocks []*Item, lv int, v cty.Value, path string, one func(*Item, cty.Value, string) *mismatch) *mismatch {
	cls := "block:" + b.Mode
	if lv == len(b.MapLabels) {
		if len(blocks) != 1 {
			return mm(cls, path, "oracle: %d blocks for one key", len(blocks))
		}
		return one(blocks[0], v, path)
	}
	if len(blocks) == 0 {
		// nothing written: empty map / empty object
		if v.LengthInt() != 0 {
			return mm(cls+":len", path, "%d keys, want 0", v.LengthInt())
		}
		return nil
	}
	if b.Mode == "map" && !v.Type().IsMapType() || b.Mode == "object" && !v.Type().IsObjectType() {
		return mm(cls+":type", path, "type %s", v.Type().FriendlyName())
	}
	groups := map[string][]*Item{}
	var order []string
	for _, blk := range blocks {
		k := blk.Labels[lv]
		if _, ok := groups[k]; !ok {
			order = append(order, k)
		}
		groups[k] = append(groups[k], blk)
	}
	if v.LengthInt() != len(order) {
		return mm(cls+":len", path, "%d keys at label level %d, want %d %q", v.LengthInt(), lv, len(order), order)
	}
	for _, k := range order {
		var ev cty.Value
		if b.Mode == "map" {
			if !v.HasIndex(cty.StringVal(k)).True() {
				return mm(cls+":key", path, "label %q missing", k)
			}
			ev = v.Index(cty.StringVal(k))
		} else {
			if !v.Type().HasAttribute(k) {
				return mm(cls+":key", path, "label %q missing", k)
			}
			ev = v.GetAttr(k)
		}
		if m := checkCtyLabelMap(b, groups[k], lv+1, ev, path+"["+strconv.Quote(k)+"]", one); m != nil {
			return m
		}
	}
	return nil
}

// ---------------------------------------------------------------------------------
// Go side
// ---------------------------------------------------------------------------------

func checkGoVal(t TypeS, v *Val, rv reflect.Value, path string) *mismatch {
	cls := "attr:" + typeClass(t)
	if rv.Type() == ctyValueType {
		cv := rv.Interface().(cty.Value)
		if cv == cty.NilVal {
			return mm(cls+":nil", path, "cty.NilVal, want %s", describeVal(v))
		}
		nat := TypeS{K: "any"}
		if t.K == "number" {
			nat = t
		}
		return checkCtyVal(nat, v, cv, path)
	}
	switch t.K {
	case "string":
		if v.K != "s" || rv.String() != v.S {
			return mm(cls, path, "string %q, want %s", rv.String(), describeVal(v))
		}
	case "number":
		switch rv.Kind() {
		case reflect.Int64, reflect.Int:
			want, err := strconv.ParseInt(v.N, 10, 64)
			if err != nil || rv.Int() != want {
				return mm(cls, path, "int %d, want %s", rv.Int(), v.N)
			}
		case reflect.Float64:
			want, err := strconv.ParseFloat(v.N, 64)
			if err != nil || rv.Float() != want || math.Signbit(rv.Float()) != math.Signbit(want) {
				return mm(cls, path, "float %v, want %s", rv.Float(), v.N)
			}
		default:
			return mm(cls, path, "oracle: go kind %s", rv.Kind())
		}
	case "bool":
		if v.K != "b" || rv.Bool() != v.B {
			return mm(cls, path, "bool %v, want %s", rv.Bool(), describeVal(v))
		}
	case "list", "set":
		if rv.IsNil() {
			return mm(cls+":nil", path, "nil slice, want %s", describeVal(v))
		}
		if v.K != "seq" || rv.Len() != len(v.Seq) {
			return mm(cls+":len", path, "length %d, want %s", rv.Len(), describeVal(v))
		}
		for i := range v.Seq {
			if m := checkGoVal(*t.Elem, v.Seq[i], rv.Index(i), fmt.Sprintf("%s[%d]", path, i)); m != nil {
				return m
			}
		}
	case "map":
		if rv.IsNil() {
			return mm(cls+":nil", path, "nil map, want %s", describeVal(v))
		}
		if v.K != "obj" || rv.Len() != len(v.Keys) {
			return mm(cls+":len", path, "%d keys, want %s", rv.Len(), describeVal(v))
		}
		for i, k := range v.Keys {
			ev := rv.MapIndex(reflect.ValueOf(k))
			if !ev.IsValid() {
				return mm(cls+":key", path, "key %q missing", k)
			}
			if m := checkGoVal(*t.Elem, v.Vals[i], ev, path+"."+strconv.Quote(k)); m != nil {
				return m
			}
		}
	case "object":
		if v.K != "obj" || len(v.Keys) != len(t.Fields) {
			return mm(cls, path, "model object does not fit the type")
		}
		for i, f := range t.Fields {
			fv := v.get(f.Name)
			if fv == nil {
				return mm(cls, path, "model lacks %q", f.Name)
			}
			if m := checkGoVal(f.Type, fv, rv.Field(i), path+"."+f.Name); m != nil {
				return m
			}
		}
	default:
		return mm(cls, path, "oracle: type %s on a non-cty field", t.K)
	}
	return nil
}

func isZeroGo(rv reflect.Value) bool {
	if rv.Type() == ctyValueType {
		return rv.Interface().(cty.Value) == cty.NilVal
	}
	return rv.IsZero()
}

func checkGoBody(s *Schema, lay *goLayout, items []*Item, labels []string, rv reflect.Value, path string) *mismatch {
	for i, fi := range lay.labels {
		got := rv.Field(fi).String()
		if i >= len(labels) || got != labels[i] {
			return mm("label", fmt.Sprintf("%s.label%d", path, i), "label %q, want %q", got, labels)
		}
	}
	for i := range s.Attrs {
		a := &s.Attrs[i]
		fv := rv.Field(lay.attrs[a.Name])
		p := path + "." + a.Name
		defs := attrsOf(items, a.Name)
		var v *Val
		if len(defs) > 0 {
			v = defs[0].Val
		}
		if v == nil {
			if !isZeroGo(fv) {
				return mm("attr:absent", p, "attribute not set, field holds %s", renderGo(fv))
			}
			continue
		}
		if v.K == "null" {
			// only generated where a null has a place to go: pointer, slice, map, cty.Value
			if fv.Type() == ctyValueType {
				cv := fv.Interface().(cty.Value)
				if cv == cty.NilVal || !cv.IsNull() {
					return mm("attr:null", p, "explicit null, field holds %s", renderGo(fv))
				}
				continue
			}
			if !fv.IsNil() {
				return mm("attr:null", p, "explicit null, field holds %s", renderGo(fv))
			}
			continue
		}
		if a.Mode == "ptr" {
			if fv.IsNil() {
				return mm("attr:"+typeClass(a.Type)+":nil", p, "nil pointer, want %s", describeVal(v))
			}
			fv = fv.Elem()
		}
		if m := checkGoVal(a.Type, v, fv, p); m != nil {
			return m
		}
	}
	for i := range s.Blocks {
		b := &s.Blocks[i]
		fv := rv.Field(lay.blocks[b.Type])
		p := path + "." + b.Type
		blocks := blocksOf(items, b.Type)
		cls := "block:" + b.Mode
		one := func(blk *Item, ev reflect.Value, p string) *mismatch {
			if ev.Kind() == reflect.Ptr {
				if ev.IsNil() {
					return mm(cls+":nil", p, "nil block pointer")
				}
				ev = ev.Elem()
			}
			if b.Mode == "attrs" {
				m := ev.Field(0)
				if m.Len() != len(blk.Body) {
					return mm(cls+":len", p, "%d attributes, want %d", m.Len(), len(blk.Body))
				}
				for _, a := range blk.Body {
					x := m.MapIndex(reflect.ValueOf(a.Name))
					if !x.IsValid() {
						return mm(cls+":key", p, "attribute %q missing", a.Name)
					}
					if mmm := checkGoVal(*b.Elem, a.Val, x, p+"."+a.Name); mmm != nil {
						return mmm
					}
				}
				return nil
			}
			return checkGoBody(b.Body, lay.nested[b.Type], blk.Body, blk.Labels, ev, p)
		}
		switch b.Mode {
		case "single", "attrs":
			if len(blocks) == 0 {
				if fv.Kind() == reflect.Ptr && !fv.IsNil() {
					return mm(cls+":absent", p, "no block, field holds %s", renderGo(fv))
				}
				continue
			}
			if m := one(blocks[0], fv, p); m != nil {
				return m
			}
		default:
			if fv.Len() != len(blocks) {
				return mm(cls+":len", p, "%d blocks decoded, %d written", fv.Len(), len(blocks))
			}
			for j, blk := range blocks {
				if m := one(blk, fv.Index(j), fmt.Sprintf("%s[%d]", p, j)); m != nil {
					return m
				}
			}
		}
	}
	return nil
}

// checkExtras: stage two of a partial decode returned exactly the extra attributes.
func checkExtrasCty(s *Schema, items []*Item, xv cty.Value) *mismatch {
	if xv == cty.NilVal || !xv.IsKnown() || xv.IsNull() || !xv.Type().IsObjectType() {
		return mm("partial:shape", "<remain>", "stage two did not return an object: %#v", xv)
	}
	if len(xv.Type().AttributeTypes()) != len(s.Extras) {
		return mm("partial:shape", "<remain>", "stage two object has %d attributes, want %q", len(xv.Type().AttributeTypes()), s.Extras)
	}
	for _, n := range s.Extras {
		if !xv.Type().HasAttribute(n) {
			return mm("partial:shape", "<remain>", "stage two object lacks %q", n)
		}
		defs := attrsOf(items, n)
		if len(defs) == 0 {
			if ev := xv.GetAttr(n); !ev.IsKnown() || !ev.IsNull() {
				return mm("partial:attr:absent", "<remain>."+n, "extra attribute not set, got %#v", ev)
			}
			continue
		}
		if m := checkCtyVal(TypeS{K: "any"}, defs[0].Val, xv.GetAttr(n), "<remain>."+n); m != nil {
			m.Class = "partial:" + m.Class
			return m
		}
	}
	return nil
}

func checkExtrasGo(s *Schema, items []*Item, xg reflect.Value) *mismatch {
	if !xg.IsValid() {
		return mm("partial:shape", "<remain>", "no remaining body was returned")
	}
	for i, n := range s.Extras {
		cv := xg.Field(i).Interface().(cty.Value)
		defs := attrsOf(items, n)
		if len(defs) == 0 {
			if cv != cty.NilVal {
				return mm("partial:attr:absent", "<remain>."+n, "extra attribute not set, field holds %#v", cv)
			}
			continue
		}
		if cv == cty.NilVal {
			return mm("partial:attr:nil", "<remain>."+n, "extra attribute not decoded")
		}
		if m := checkCtyVal(TypeS{K: "any"}, defs[0].Val, cv, "<remain>."+n); m != nil {
			m.Class = "partial:" + m.Class
			return m
		}
	}
	return nil
}

// ---------------------------------------------------------------------------------
// feature census of a (schema, value) pair
// ---------------------------------------------------------------------------------

func census(s *Schema, items []*Item, depth int, out map[string]int) {
	if depth > out["max-depth"] {
		out["max-depth"] = depth
	}
	if s.Partial {
		out["feat:partial:"+s.RemainKind]++
		for _, n := range s.Extras {
			if len(attrsOf(items, n)) > 0 {
				out["feat:partial-extras"]++
			}
		}
	}
	for i := range s.Attrs {
		a := &s.Attrs[i]
		out["feat:attr:"+typeClass(a.Type)]++
		out["feat:attr-mode:"+a.Mode]++
		if a.Default != nil {
			out["feat:attr-default"]++
			if d := attrsOf(items, a.Name); len(d) == 0 || d[0].Val.K == "null" {
				out["feat:attr-default-used"]++
			}
		}
		d := attrsOf(items, a.Name)
		if len(d) == 0 {
			out["feat:attr-absent"]++
		} else if d[0].Val.K == "null" {
			out["feat:attr-null"]++
		}
	}
	for i := range s.Blocks {
		b := &s.Blocks[i]
		bl := blocksOf(items, b.Type)
		out["feat:block:"+b.Mode]++
		out[fmt.Sprintf("feat:labels:%d", b.nLabels())]++
		if len(b.MapLabels) == 2 {
			out["feat:map-2-labels"]++
		}
		switch {
		case len(bl) == 0:
			out["feat:blocks:none"]++
		case len(bl) == 1:
			out["feat:blocks:one"]++
		default:
			out["feat:blocks:repeated"]++
		}
		if b.Body != nil {
			for _, x := range bl {
				census(b.Body, x.Body, depth+1, out)
			}
		}
	}
}

func countKinds(items []*Item) (attrs, blocks int) {
	for _, it := range items {
		if it.K == "attr" {
			attrs++
		} else {
			blocks++
			a, b := countKinds(it.Body)
			attrs += a
			blocks += b
		}
	}
	return
}

func sortedKeys(m map[string]int) []string {
	var ks []string
	for k := range m {
		ks = append(ks, k)
	}
	sort.Strings(ks)
	return ks
}

var _ = strings.Join
