package c19

import (
	"fmt"
	"math/rand"
	"sort"
	"strconv"
	"strings"
)

// ---------------------------------------------------------------------------------
// Names
// ---------------------------------------------------------------------------------

var namePool = []string{
	"a", "b", "c", "d", "e", "x", "y", "z", "id", "name", "kind", "port", "host", "size",
	"enabled", "tags", "meta", "opts", "rule", "item", "node", "zone", "path", "mode",
	"foo_bar", "foo-bar", "x1", "x-2", "_u", "A", "Name", "camelCase", "v2_beta", "k8s-app",
	"block", "attr", "type", "value", "key", "each", "self", "var", "local", "count",
}

// never generated as attribute / block / label names: the dynamic block vocabulary and
// words the expression grammar gives a meaning to.
var forbiddenNames = map[string]bool{
	"dynamic": true, "content": true, "for_each": true, "iterator": true, "labels": true,
	"for": true, "in": true, "if": true, "else": true, "endif": true, "endfor": true,
	"true": true, "false": true, "null": true,
}

type nameSet map[string]bool

func (ns nameSet) fresh(r *rand.Rand) string {
	for tries := 0; ; tries++ {
		var n string
		if tries < 20 {
			n = namePool[r.Intn(len(namePool))]
			if r.Intn(4) == 0 {
				n += strconv.Itoa(r.Intn(10))
			}
		} else {
			n = fmt.Sprintf("n%d", len(ns)+tries)
		}
		if !ns[n] && !forbiddenNames[n] {
			ns[n] = true
			return n
		}
	}
}

// ---------------------------------------------------------------------------------
// Schema generation
// ---------------------------------------------------------------------------------

func pick(r *rand.Rand, weights ...int) int {
	t := 0
	for _, w := range weights {
		t += w
	}
	x := r.Intn(t)
	for i, w := range weights {
		if x < w {
			return i
		}
		x -= w
	}
	return len(weights) - 1
}

func genPrim(r *rand.Rand) TypeS {
	switch pick(r, 5, 4, 2) {
	case 0:
		return TypeS{K: "string"}
	case 1:
		return TypeS{K: "number", Num: []string{"int", "float", "big"}[pick(r, 3, 2, 2)]}
	default:
		return TypeS{K: "bool"}
	}
}

// inner types: usable as element / field types. No pointers, no dynamic types.
func genInner(r *rand.Rand, depth int) TypeS {
	if depth <= 0 || r.Intn(3) != 0 {
		t := genPrim(r)
		if t.K == "number" && t.Num == "big" {
			t.Num = "int" // big numbers need a cty.Value field on the Go side: top level only
		}
		return t
	}
	switch pick(r, 3, 3, 2) {
	case 0:
		e := genInner(r, depth-1)
		return TypeS{K: "list", Elem: &e}
	case 1:
		e := genInner(r, depth-1)
		return TypeS{K: "map", Elem: &e}
	default:
		return genObject(r, depth-1)
	}
}

func genObject(r *rand.Rand, depth int) TypeS {
	ns := nameSet{}
	n := 1 + r.Intn(3)
	t := TypeS{K: "object"}
	for i := 0; i < n; i++ {
		t.Fields = append(t.Fields, FieldS{Name: ns.fresh(r), Type: genInner(r, depth)})
	}
	return t
}

// genAttrType: static = no dynamically typed result allowed (inside list/set/map blocks).
func genAttrType(r *rand.Rand, static bool) TypeS {
	switch pick(r, 25, 20, 10, 12, 6, 10, 7, 5, 5) {
	case 0:
		return TypeS{K: "string"}
	case 1:
		return TypeS{K: "number", Num: []string{"int", "float", "big"}[pick(r, 3, 2, 2)]}
	case 2:
		return TypeS{K: "bool"}
	case 3:
		e := genInner(r, 1)
		return TypeS{K: "list", Elem: &e}
	case 4:
		e := genPrim(r)
		if e.K == "number" {
			e.Num = "int"
		}
		return TypeS{K: "set", Elem: &e}
	case 5:
		e := genInner(r, 1)
		return TypeS{K: "map", Elem: &e}
	case 6:
		return genObject(r, 1)
	case 7:
		n := 1 + r.Intn(3)
		t := TypeS{K: "tuple"}
		for i := 0; i < n; i++ {
			t.Elems = append(t.Elems, genInner(r, 1))
		}
		return t
	default:
		if static {
			return TypeS{K: "string"}
		}
		return TypeS{K: "any"}
	}
}

func genAttrS(r *rand.Rand, ns nameSet, static bool) AttrS {
	a := AttrS{Name: ns.fresh(r), Type: genAttrType(r, static)}
	switch pick(r, 5, 3, 3) {
	case 0:
		a.Mode = "req"
	case 1:
		a.Mode = "opt"
	default:
		a.Mode = "ptr"
		switch a.Type.K {
		case "list", "set", "map", "tuple", "any":
			a.Mode = "opt" // nil-able Go kinds already; cty.Value fields are never pointers
		}
		if a.Type.K == "number" && a.Type.Num == "big" {
			a.Mode = "opt"
		}
	}
	if a.Mode != "req" && a.Type.K != "any" && r.Intn(3) == 0 {
		a.Default = genVal(r, a.Type, 1)
	}
	return a
}

// genSchema: depth = remaining block nesting levels; static as in genAttrType.
func genSchema(r *rand.Rand, depth int, static bool, reserved []string) *Schema {
	ns := nameSet{}
	for _, n := range reserved {
		ns[n] = true
	}
	s := &Schema{}
	na := r.Intn(4)
	if depth == 3 {
		na = 1 + r.Intn(4)
	}
	for i := 0; i < na; i++ {
		s.Attrs = append(s.Attrs, genAttrS(r, ns, static))
	}
	nb := 0
	if depth > 0 {
		switch depth {
		case 3:
			nb = 1 + r.Intn(3)
		case 2:
			nb = pick(r, 3, 4, 2)
		default:
			nb = pick(r, 5, 3, 1)
		}
	}
	for i := 0; i < nb; i++ {
		s.Blocks = append(s.Blocks, genBlockS(r, ns, depth-1, static))
	}
	if len(s.Attrs) == 0 && len(s.Blocks) == 0 {
		s.Attrs = append(s.Attrs, genAttrS(r, ns, static))
	}
	if depth == 3 && r.Intn(3) == 0 {
		s.Partial = true
		ns["zz_unknown"] = true
		for i, n := 0, 1+r.Intn(3); i < n; i++ {
			s.Extras = append(s.Extras, ns.fresh(r))
		}
		s.RemainKind = []string{"body", "struct"}[r.Intn(2)]
	}
	return s
}

func genBlockS(r *rand.Rand, ns nameSet, depth int, static bool) BlockS {
	b := BlockS{Type: ns.fresh(r)}
	w := []int{25, 25, 15, 10, 8, 7, 10}
	if static {
		w[4], w[5] = 0, 0 // tuple / object block results are dynamically typed
	}
	b.Mode = []string{"single", "list", "map", "set", "tuple", "object", "attrs"}[pick(r, w...)]
	inner := nameSet{}
	switch b.Mode {
	case "single":
		b.Required = r.Intn(3) == 0
		b.Labels = genLabelNames(r, inner, pick(r, 5, 3, 2))
	case "attrs":
		b.Required = r.Intn(3) == 0
		e := genInner(r, 1)
		b.Elem = &e
		return b
	case "list", "set", "tuple":
		b.Labels = genLabelNames(r, inner, pick(r, 5, 3, 2))
		b.GoPtr = r.Intn(3) == 0
	case "map", "object":
		k := 1 + pick(r, 3, 2)
		if static {
			// BlockMapSpec with two label levels and no blocks returns map(T) instead of
			// map(map(T)) on this tree; inside a list/set/map parent that makes sibling
			// element types inconsistent (error or panic in every form alike). Outside
			// the domain of C19; reported as a side finding.
			k = 1
		}
		b.MapLabels = genLabelNames(r, inner, k)
		if k == 1 && r.Intn(3) == 0 {
			b.Labels = genLabelNames(r, inner, 1)
		}
		b.GoPtr = r.Intn(3) == 0
	}
	childStatic := static || b.Mode == "list" || b.Mode == "set" || b.Mode == "map"
	var reserved []string
	for n := range inner {
		reserved = append(reserved, n)
	}
	sort.Strings(reserved)
	b.Body = genSchema(r, depth, childStatic, reserved)
	return b
}

func genLabelNames(r *rand.Rand, ns nameSet, n int) []string {
	var out []string
	for i := 0; i < n; i++ {
		out = append(out, ns.fresh(r))
	}
	return out
}

// ---------------------------------------------------------------------------------
// Value generation
// ---------------------------------------------------------------------------------

var strAtoms = []string{
	"a", "b", "x", "hello", "World", "0", "42", "true", "null", " ", "  ", ".", ",", ":", "=", "-", "_",
	"${", "%{", "$${", "%%{", "$", "%", "$$", "%%", "{", "}", "${x}", "%{if}", "$%{", "}${",
	"\"", "\\", "\\\\", "\\n", "\n", "\t", "'", "`", "#", "//", "/*", "*/", "<<EOT", "EOT", "[", "]", "(", ")",
	"é", "ß", "日本", "☃", "😀", "ü", "~", "!", "?", "&", "|", "<", ">", "\\u0041", "\\x41", "/",
}

func genString(r *rand.Rand) string {
	switch pick(r, 3, 6, 1, 2) {
	case 0:
		return []string{"", "a", "value", "x-1", "some text", "10.0.0.1", "/usr/local/bin"}[r.Intn(7)]
	case 1:
		n := 1 + r.Intn(5)
		var sb strings.Builder
		for i := 0; i < n; i++ {
			sb.WriteString(strAtoms[r.Intn(len(strAtoms))])
		}
		return sb.String()
	case 2:
		// multi-line text ending in a newline: eligible for heredoc spelling
		n := 1 + r.Intn(3)
		var sb strings.Builder
		for i := 0; i < n; i++ {
			k := r.Intn(4)
			for j := 0; j < k; j++ {
				a := strAtoms[r.Intn(len(strAtoms))]
				if strings.ContainsAny(a, "\n\t") {
					a = " "
				}
				sb.WriteString(a)
			}
			sb.WriteString("\n")
		}
		return sb.String()
	default:
		return namePool[r.Intn(len(namePool))]
	}
}

func genKey(r *rand.Rand) string {
	switch pick(r, 6, 2, 2) {
	case 0:
		return namePool[r.Intn(len(namePool))]
	case 1:
		return []string{"a b", "a.b", "0", "1x", "true", "null", "for", "", "k/1", "é", "${k}", "%{", "a\"b", "x:y", "a=b", "//"}[r.Intn(16)]
	default:
		return genString(r)
	}
}

func genLabel(r *rand.Rand) string {
	switch pick(r, 6, 2, 1, 1) {
	case 0:
		return namePool[r.Intn(len(namePool))]
	case 1:
		return []string{"a b", "a.b", "0", "web-0", "web-1", "web-2", "", "//", "é", "${l}", "%{", "a\"b", "$${", "dynamic", "content", "true", "x\\y", "日本"}[r.Intn(18)]
	case 2:
		return genString(r)
	default:
		return fmt.Sprintf("%s-%d", namePool[r.Intn(8)], r.Intn(4))
	}
}

func genInt(r *rand.Rand) string {
	switch pick(r, 5, 3, 1, 1, 1, 1) {
	case 4:
		// around the widths at which a binary floating-point detour stops being exact
		return []string{"16777217", "-16777217", "9007199254740991", "9007199254740992", "9007199254740993", "-9007199254740993", "9999999999999999",
			"1000000000000001", "18014398509481985", "4611686018427387905", "9223372036854775806", "999999999999999999", "1234567890123456789"}[r.Intn(13)]
	case 5:
		// every digit count up to 18 (all fit 64 bits)
		n := 1 + r.Intn(18)
		b := make([]byte, n)
		b[0] = byte('1' + r.Intn(9))
		for i := 1; i < n; i++ {
			b[i] = byte('0' + r.Intn(10))
		}
		if r.Intn(4) == 0 {
			return "-" + string(b)
		}
		return string(b)
	case 0:
		return strconv.Itoa(r.Intn(21) - 5)
	case 1:
		return strconv.FormatInt(r.Int63n(1<<32)-(1<<20), 10)
	case 2:
		return strconv.FormatInt(r.Int63()-(1<<62), 10)
	default:
		return []string{"0", "1", "-1", "9223372036854775807", "-9223372036854775808", "65535", "4294967296"}[r.Intn(7)]
	}
}

// genFloat: values exactly representable as float64 (the Go side is a float64 field).
func genFloat(r *rand.Rand) string {
	if r.Intn(3) == 0 {
		return strconv.Itoa(r.Intn(2001) - 1000)
	}
	ip := r.Intn(2000) - 1000
	fr := []string{"5", "25", "75", "125", "375", "0625", "03125", "0"}[r.Intn(8)]
	s := fmt.Sprintf("%d.%s", abs(ip), fr)
	if ip < 0 {
		s = "-" + s
	}
	return s
}

func abs(i int) int {
	if i < 0 {
		return -i
	}
	return i
}

func genBig(r *rand.Rand) string {
	switch pick(r, 2, 2, 2, 2, 1) {
	case 0:
		return genInt(r)
	case 1:
		return genFloat(r)
	case 2:
		// arbitrary decimal fraction
		s := fmt.Sprintf("%d.%d", r.Intn(1000), 1+r.Intn(99999))
		if r.Intn(2) == 0 {
			s = "-" + s
		}
		return s
	case 3:
		// exponent forms
		m := fmt.Sprintf("%d", 1+r.Intn(99))
		if r.Intn(2) == 0 {
			m += fmt.Sprintf(".%d", 1+r.Intn(99))
		}
		e := r.Intn(41) - 20
		s := fmt.Sprintf("%se%d", m, e)
		if r.Intn(3) == 0 {
			s = "-" + s
		}
		return s
	default:
		// integers beyond 64 bits
		var sb strings.Builder
		sb.WriteByte(byte('1' + r.Intn(9)))
		n := 20 + r.Intn(20)
		for i := 0; i < n; i++ {
			sb.WriteByte(byte('0' + r.Intn(10)))
		}
		return sb.String()
	}
}

// genVal: a value of exactly type t (no conversions are needed to reach t except the
// structural ones tuple->list/set, object->map/object, which both syntaxes always need).
func genVal(r *rand.Rand, t TypeS, depth int) *Val {
	switch t.K {
	case "string":
		return vS(genString(r))
	case "number":
		switch t.Num {
		case "int":
			return vN(genInt(r))
		case "float":
			return vN(genFloat(r))
		default:
			return vN(genBig(r))
		}
	case "bool":
		return vB(r.Intn(2) == 0)
	case "list", "set":
		n := pick(r, 2, 3, 3, 2, 1)
		v := &Val{K: "seq", Seq: []*Val{}}
		for i := 0; i < n; i++ {
			v.Seq = append(v.Seq, genVal(r, *t.Elem, depth-1))
		}
		if t.K == "set" && n > 1 && r.Intn(3) == 0 {
			v.Seq = append(v.Seq, v.Seq[0].clone()) // duplicates collapse in a set
		}
		return v
	case "map":
		n := pick(r, 2, 3, 3, 2)
		v := &Val{K: "obj", Keys: []string{}, Vals: []*Val{}}
		seen := map[string]bool{}
		for i := 0; i < n; i++ {
			k := genKey(r)
			if seen[k] {
				continue
			}
			seen[k] = true
			v.set(k, genVal(r, *t.Elem, depth-1))
		}
		return v
	case "object":
		v := &Val{K: "obj", Keys: []string{}, Vals: []*Val{}}
		idx := r.Perm(len(t.Fields))
		for _, i := range idx {
			v.set(t.Fields[i].Name, genVal(r, t.Fields[i].Type, depth-1))
		}
		return v
	case "tuple":
		v := &Val{K: "seq", Seq: []*Val{}}
		for _, e := range t.Elems {
			v.Seq = append(v.Seq, genVal(r, e, depth-1))
		}
		return v
	case "any":
		return genAny(r, 2)
	}
	panic("c19: genVal: unknown type " + t.K)
}

func genAny(r *rand.Rand, depth int) *Val {
	w := []int{4, 3, 2, 1, 3, 3}
	if depth <= 0 {
		w[4], w[5] = 0, 0
	}
	switch pick(r, w...) {
	case 0:
		return vS(genString(r))
	case 1:
		return vN(genBig(r))
	case 2:
		return vB(r.Intn(2) == 0)
	case 3:
		return vNull()
	case 4:
		n := r.Intn(4)
		v := &Val{K: "seq", Seq: []*Val{}}
		for i := 0; i < n; i++ {
			v.Seq = append(v.Seq, genAny(r, depth-1))
		}
		return v
	default:
		n := r.Intn(4)
		v := &Val{K: "obj", Keys: []string{}, Vals: []*Val{}}
		seen := map[string]bool{}
		for i := 0; i < n; i++ {
			k := genKey(r)
			if seen[k] {
				continue
			}
			seen[k] = true
			v.set(k, genAny(r, depth-1))
		}
		return v
	}
}

// nullable: an explicit `name = null` has a defined, error-free meaning in both decoders.
func (a *AttrS) nullable() bool {
	if a.Mode == "req" {
		return false
	}
	if a.Mode == "ptr" {
		return true
	}
	switch a.Type.K {
	case "list", "set", "map", "tuple", "any":
		return true
	case "number":
		return a.Type.Num == "big"
	}
	return false // `,optional` string/int/bool/struct field: gocty rejects null
}

// genBody generates the items of one body for schema s.
func genBody(r *rand.Rand, s *Schema) []*Item {
	var items []*Item
	for _, n := range s.Extras {
		if r.Intn(5) < 3 {
			items = append(items, &Item{K: "attr", Name: n, Val: genAny(r, 2)})
		}
	}
	for i := range s.Attrs {
		a := &s.Attrs[i]
		if a.Mode != "req" && r.Intn(5) < 2 {
			continue
		}
		if a.nullable() && r.Intn(8) == 0 {
			items = append(items, &Item{K: "attr", Name: a.Name, Val: vNull()})
			continue
		}
		items = append(items, &Item{K: "attr", Name: a.Name, Val: genVal(r, a.Type, 2)})
	}
	for i := range s.Blocks {
		b := &s.Blocks[i]
		n := 0
		switch b.Mode {
		case "single", "attrs":
			if b.Required || r.Intn(5) < 3 {
				n = 1
			}
		default:
			n = pick(r, 3, 4, 4, 2, 1)
		}
		seen := map[string]bool{}
		var made []*Item
		uniform := r.Intn(2) == 0
		for j := 0; j < n; j++ {
			if b.Mode == "set" && len(made) > 0 && r.Intn(4) == 0 {
				made = append(made, made[r.Intn(len(made))].clone()) // identical blocks collapse in a set
				continue
			}
			blk := &Item{K: "block", Name: b.Type, Labels: []string{}, Body: []*Item{}}
			series := r.Intn(4) == 0
			for k := 0; k < b.nLabels(); k++ {
				if series && k == 0 {
					blk.Labels = append(blk.Labels, fmt.Sprintf("srv-%d", j))
				} else {
					blk.Labels = append(blk.Labels, genLabel(r))
				}
			}
			if len(b.MapLabels) > 0 {
				key := strings.Join(blk.Labels[:len(b.MapLabels)], "\x00")
				if seen[key] {
					continue
				}
				seen[key] = true
			}
			switch {
			case b.Mode == "attrs":
				ns := nameSet{}
				na := r.Intn(4)
				for k := 0; k < na; k++ {
					blk.Body = append(blk.Body, &Item{K: "attr", Name: ns.fresh(r), Val: genVal(r, *b.Elem, 1)})
				}
			case uniform && len(made) > 0:
				// same attributes and nested blocks as the first block of this type, other
				// values: what repeated blocks usually look like, and what one dynamic
				// block can generate
				blk.Body = regenBody(r, b.Body, made[0].Body)
			default:
				blk.Body = genBody(r, b.Body)
			}
			made = append(made, blk)
		}
		items = append(items, made...)
	}
	// interleave: shuffle while keeping same-type blocks in their generated order
	return reorderItems(r, items)
}

// regenBody: a body with the same shape as like (same attributes present, same nested
// blocks with the same labels) and, mostly, other attribute values.
func regenBody(r *rand.Rand, s *Schema, like []*Item) []*Item {
	var out []*Item
	for _, it := range like {
		if it.K == "attr" {
			a := s.attr(it.Name)
			if a == nil || it.Val.K == "null" || r.Intn(4) == 0 {
				out = append(out, it.clone())
				continue
			}
			out = append(out, &Item{K: "attr", Name: it.Name, Val: genVal(r, a.Type, 2)})
			continue
		}
		bs := s.block(it.Name)
		if bs == nil || bs.Body == nil || r.Intn(3) == 0 {
			out = append(out, it.clone())
			continue
		}
		out = append(out, &Item{K: "block", Name: it.Name, Labels: append([]string{}, it.Labels...), Body: regenBody(r, bs.Body, it.Body)})
	}
	return out
}

// reorderItems permutes items; items of one order class keep their relative order.
func reorderItems(r *rand.Rand, items []*Item) []*Item {
	n := len(items)
	if n < 2 {
		return items
	}
	perm := r.Perm(n)
	out := make([]*Item, n)
	for i, p := range perm {
		out[i] = items[p]
	}
	// restore per-class order
	pos := map[string][]int{}
	for i, it := range out {
		if c := it.orderClass(); c != "" {
			pos[c] = append(pos[c], i)
		}
	}
	next := map[string]int{}
	for _, it := range items {
		if c := it.orderClass(); c != "" {
			out[pos[c][next[c]]] = it
			next[c]++
		}
	}
	return out
}
