package c19

import (
	"fmt"
	"reflect"
	"strings"

	hcl "Havoc/pkg/profile/yaotl"
	"Havoc/pkg/profile/yaotl/ext/dynblock"
	"Havoc/pkg/profile/yaotl/gohcl"
	"Havoc/pkg/profile/yaotl/hcldec"
	"Havoc/pkg/profile/yaotl/hclsyntax"
	hjson "Havoc/pkg/profile/yaotl/json"
	"github.com/zclconf/go-cty/cty"
)

// ---------------------------------------------------------------------------------
// schema -> cty types, hcldec.Spec, Go struct type
// ---------------------------------------------------------------------------------

func ctyType(t TypeS) cty.Type {
	switch t.K {
	case "string":
		return cty.String
	case "number":
		return cty.Number
	case "bool":
		return cty.Bool
	case "list":
		return cty.List(ctyType(*t.Elem))
	case "set":
		return cty.Set(ctyType(*t.Elem))
	case "map":
		return cty.Map(ctyType(*t.Elem))
	case "object":
		m := map[string]cty.Type{}
		for _, f := range t.Fields {
			m[f.Name] = ctyType(f.Type)
		}
		return cty.Object(m)
	case "tuple":
		var e []cty.Type
		for _, x := range t.Elems {
			e = append(e, ctyType(x))
		}
		return cty.Tuple(e)
	case "any":
		return cty.DynamicPseudoType
	}
	panic("c19: ctyType " + t.K)
}

// toCty builds the cty value of a model value at type t (only used for LiteralSpec
// defaults, i.e. to configure the decoder, never to judge its result).
func toCty(t TypeS, v *Val) cty.Value {
	if v.K == "null" {
		return cty.NullVal(ctyType(t))
	}
	switch t.K {
	case "string":
		return cty.StringVal(v.S)
	case "number":
		return cty.MustParseNumberVal(v.N)
	case "bool":
		return cty.BoolVal(v.B)
	case "list", "set":
		var e []cty.Value
		for _, x := range v.Seq {
			e = append(e, toCty(*t.Elem, x))
		}
		if len(e) == 0 {
			if t.K == "list" {
				return cty.ListValEmpty(ctyType(*t.Elem))
			}
			return cty.SetValEmpty(ctyType(*t.Elem))
		}
		if t.K == "list" {
			return cty.ListVal(e)
		}
		return cty.SetVal(e)
	case "map":
		m := map[string]cty.Value{}
		for i, k := range v.Keys {
			m[k] = toCty(*t.Elem, v.Vals[i])
		}
		if len(m) == 0 {
			return cty.MapValEmpty(ctyType(*t.Elem))
		}
		return cty.MapVal(m)
	case "object":
		m := map[string]cty.Value{}
		for _, f := range t.Fields {
			m[f.Name] = toCty(f.Type, v.get(f.Name))
		}
		return cty.ObjectVal(m)
	case "tuple":
		var e []cty.Value
		for i, x := range t.Elems {
			e = append(e, toCty(x, v.Seq[i]))
		}
		return cty.TupleVal(e)
	}
	panic("c19: toCty " + t.K)
}

func buildSpec(s *Schema, exposed []string) hcldec.Spec {
	obj := hcldec.ObjectSpec{}
	for i, n := range exposed {
		obj[n] = &hcldec.BlockLabelSpec{Index: i, Name: n}
	}
	for i := range s.Attrs {
		a := &s.Attrs[i]
		var sp hcldec.Spec = &hcldec.AttrSpec{Name: a.Name, Type: ctyType(a.Type), Required: a.Mode == "req"}
		if a.Default != nil {
			sp = &hcldec.DefaultSpec{Primary: sp, Default: &hcldec.LiteralSpec{Value: toCty(a.Type, a.Default)}}
		}
		obj[a.Name] = sp
	}
	for i := range s.Blocks {
		b := &s.Blocks[i]
		var nested hcldec.Spec
		if b.Body != nil {
			nested = buildSpec(b.Body, b.Labels)
		}
		switch b.Mode {
		case "single":
			obj[b.Type] = &hcldec.BlockSpec{TypeName: b.Type, Nested: nested, Required: b.Required}
		case "list":
			obj[b.Type] = &hcldec.BlockListSpec{TypeName: b.Type, Nested: nested}
		case "set":
			obj[b.Type] = &hcldec.BlockSetSpec{TypeName: b.Type, Nested: nested}
		case "tuple":
			obj[b.Type] = &hcldec.BlockTupleSpec{TypeName: b.Type, Nested: nested}
		case "map":
			obj[b.Type] = &hcldec.BlockMapSpec{TypeName: b.Type, LabelNames: append([]string(nil), b.MapLabels...), Nested: nested}
		case "object":
			obj[b.Type] = &hcldec.BlockObjectSpec{TypeName: b.Type, LabelNames: append([]string(nil), b.MapLabels...), Nested: nested}
		case "attrs":
			obj[b.Type] = &hcldec.BlockAttrsSpec{TypeName: b.Type, ElementType: ctyType(*b.Elem), Required: b.Required}
		}
	}
	return obj
}

var ctyValueType = reflect.TypeOf(cty.Value{})

// goInner: Go type of an element / field type.
func goInner(t TypeS) reflect.Type {
	switch t.K {
	case "string":
		return reflect.TypeOf("")
	case "number":
		switch t.Num {
		case "float":
			return reflect.TypeOf(float64(0))
		case "big":
			return ctyValueType
		}
		return reflect.TypeOf(int64(0))
	case "bool":
		return reflect.TypeOf(false)
	case "list", "set":
		return reflect.SliceOf(goInner(*t.Elem))
	case "map":
		return reflect.MapOf(reflect.TypeOf(""), goInner(*t.Elem))
	case "object":
		var fs []reflect.StructField
		for i, f := range t.Fields {
			fs = append(fs, reflect.StructField{Name: fmt.Sprintf("O%d", i), Type: goInner(f.Type), Tag: reflect.StructTag(fmt.Sprintf(`cty:"%s"`, f.Name))})
		}
		return reflect.StructOf(fs)
	case "tuple", "any":
		return ctyValueType
	}
	panic("c19: goInner " + t.K)
}

// goLayout records which struct field holds what.
type goLayout struct {
	typ    reflect.Type
	labels []int          // field index per label (map labels first, then exposed labels)
	attrs  map[string]int // attribute name -> field
	blocks map[string]int // block type -> field
	nested map[string]*goLayout
	rest   map[string]bool // attrs-mode block types (struct{Rest map[string]T `,remain`})
	remain int             // Partial: field of type hcl.Body tagged `,remain`
}

func buildGo(s *Schema, labelNames []string) *goLayout {
	l := &goLayout{attrs: map[string]int{}, blocks: map[string]int{}, nested: map[string]*goLayout{}, rest: map[string]bool{}}
	var fs []reflect.StructField
	add := func(t reflect.Type, tag string) int {
		fs = append(fs, reflect.StructField{Name: fmt.Sprintf("F%d", len(fs)), Type: t, Tag: reflect.StructTag(`yaotl:"` + tag + `"`)})
		return len(fs) - 1
	}
	for _, n := range labelNames {
		l.labels = append(l.labels, add(reflect.TypeOf(""), n+",label"))
	}
	for i := range s.Attrs {
		a := &s.Attrs[i]
		t := goInner(a.Type)
		switch a.Mode {
		case "req":
			l.attrs[a.Name] = add(t, a.Name+",attr")
		case "opt":
			l.attrs[a.Name] = add(t, a.Name+",optional")
		case "ptr":
			l.attrs[a.Name] = add(reflect.PtrTo(t), a.Name+",attr")
		}
	}
	for i := range s.Blocks {
		b := &s.Blocks[i]
		var bt reflect.Type
		if b.Mode == "attrs" {
			bt = reflect.StructOf([]reflect.StructField{{Name: "Rest", Type: reflect.MapOf(reflect.TypeOf(""), goInner(*b.Elem)), Tag: `yaotl:",remain"`}})
			l.rest[b.Type] = true
		} else {
			all := append(append([]string{}, b.MapLabels...), b.Labels...)
			nl := buildGo(b.Body, all)
			l.nested[b.Type] = nl
			bt = nl.typ
		}
		switch b.Mode {
		case "single", "attrs":
			if !b.Required {
				bt = reflect.PtrTo(bt)
			}
		default:
			if b.GoPtr {
				bt = reflect.PtrTo(bt)
			}
			bt = reflect.SliceOf(bt)
		}
		l.blocks[b.Type] = add(bt, b.Type+",block")
	}
	if s.Partial {
		if s.RemainKind == "struct" {
			l.remain = add(extraGo(s.Extras), ",remain")
		} else {
			l.remain = add(bodyIfaceType, ",remain")
		}
	}
	l.typ = reflect.StructOf(fs)
	return l
}

var bodyIfaceType = reflect.TypeOf((*hcl.Body)(nil)).Elem()

// extraSpec / extraGo: stage two of a partial decode: exactly the given attribute names,
// each optional, dynamically typed.
func extraSpec(names []string) hcldec.Spec {
	obj := hcldec.ObjectSpec{}
	for _, n := range names {
		obj[n] = &hcldec.AttrSpec{Name: n, Type: cty.DynamicPseudoType}
	}
	return obj
}

func extraGo(names []string) reflect.Type {
	var fs []reflect.StructField
	for i, n := range names {
		fs = append(fs, reflect.StructField{Name: fmt.Sprintf("X%d", i), Type: ctyValueType, Tag: reflect.StructTag(`yaotl:"` + n + `,optional"`)})
	}
	return reflect.StructOf(fs)
}

// ---------------------------------------------------------------------------------
// Forms and their decoding
// ---------------------------------------------------------------------------------

type FileText struct {
	Name   string `json:"name"`
	Syntax string `json:"syntax"` // native | json
	Text   string `json:"text"`
}

type Form struct {
	Name   string     `json:"name"`
	Ops    []string   `json:"ops"`
	Files  []FileText `json:"files"`
	Merge  bool       `json:"merge"`  // hcl.MergeFiles even for a single file
	Expand bool       `json:"expand"` // dynblock.Expand around the body
}

type DecResult struct {
	Err    bool     `json:"err"`
	Diags  []string `json:"diags,omitempty"`
	Panic  string   `json:"panic,omitempty"`
	Stack  string   `json:"-"`
	Parsed bool     `json:"parsed"`
	Value  string   `json:"value,omitempty"` // rendering for the witness

	cv cty.Value
	gv reflect.Value
	xv cty.Value     // stage two (Partial): object of the extra attributes
	xg reflect.Value // stage two (Partial): struct of cty.Value fields
}

func diagStrings(d hcl.Diagnostics) []string {
	var out []string
	for _, x := range d {
		if x.Severity == hcl.DiagError {
			s := x.Summary + ": " + x.Detail
			if x.Subject != nil {
				s = x.Subject.String() + ": " + s
			}
			out = append(out, s)
		}
		if len(out) >= 6 {
			break
		}
	}
	return out
}

// parsedForm: the files of a form, parsed once; both decoders get their own merged /
// expanded body on top of the same (immutable) file bodies.
type parsedForm struct {
	files []*hcl.File
	diags hcl.Diagnostics
}

func parseForm(f *Form) *parsedForm {
	p := &parsedForm{}
	for _, ft := range f.Files {
		var file *hcl.File
		var d hcl.Diagnostics
		if ft.Syntax == "json" {
			file, d = hjson.Parse([]byte(ft.Text), ft.Name)
		} else {
			file, d = hclsyntax.ParseConfig([]byte(ft.Text), ft.Name, hcl.Pos{Line: 1, Column: 1})
		}
		p.diags = append(p.diags, d...)
		if file != nil {
			p.files = append(p.files, file)
		}
	}
	return p
}

func (p *parsedForm) body(f *Form) hcl.Body {
	var body hcl.Body
	if len(p.files) == 1 && !f.Merge {
		body = p.files[0].Body
	} else {
		body = hcl.MergeFiles(p.files)
	}
	if f.Expand {
		body = dynblock.Expand(body, &hcl.EvalContext{})
	}
	return body
}

// extras: nil = strict one-stage decode; otherwise (Schema.Partial) the names for stage two.
func decodeSpec(f *Form, p *parsedForm, spec hcldec.Spec, partial bool, extras []string) *DecResult {
	res := &DecResult{}
	if p.diags.HasErrors() {
		res.Err = true
		res.Diags = diagStrings(p.diags)
		return res
	}
	res.Parsed = true
	if !partial {
		v, d := hcldec.Decode(p.body(f), spec, &hcl.EvalContext{})
		res.Err = d.HasErrors()
		res.Diags = diagStrings(d)
		res.cv = v
		return res
	}
	v, remain, d := hcldec.PartialDecode(p.body(f), spec, &hcl.EvalContext{})
	res.cv = v
	if remain != nil {
		// the usual order of use: which variables does the rest refer to, then decode it.
		// Looking at a body does not change it.
		_ = hcldec.Variables(remain, extraSpec(extras))
		xv, d2 := hcldec.Decode(remain, extraSpec(extras), &hcl.EvalContext{})
		d = append(d, d2...)
		res.xv = xv
	}
	res.Err = d.HasErrors()
	res.Diags = diagStrings(d)
	return res
}

func decodeTags(f *Form, p *parsedForm, lay *goLayout, partial bool, extras []string) *DecResult {
	res := &DecResult{}
	if p.diags.HasErrors() {
		res.Err = true
		res.Diags = diagStrings(p.diags)
		return res
	}
	res.Parsed = true
	target := reflect.New(lay.typ)
	d := gohcl.DecodeBody(p.body(f), &hcl.EvalContext{}, target.Interface())
	res.gv = target.Elem()
	if partial && lay.typ.Field(lay.remain).Type != bodyIfaceType {
		res.xg = target.Elem().Field(lay.remain) // gohcl decoded the remaining body itself
	} else if partial {
		if remain, ok := target.Elem().Field(lay.remain).Interface().(hcl.Body); ok && remain != nil {
			// decoded twice, as a caller that first validates and then loads would
			gohcl.DecodeBody(remain, &hcl.EvalContext{}, reflect.New(extraGo(extras)).Interface())
			x := reflect.New(extraGo(extras))
			d2 := gohcl.DecodeBody(remain, &hcl.EvalContext{}, x.Interface())
			d = append(d, d2...)
			res.xg = x.Elem()
		}
	}
	res.Err = d.HasErrors()
	res.Diags = diagStrings(d)
	return res
}

func renderCty(v cty.Value) string {
	s := fmt.Sprintf("%#v", v)
	if len(s) > 4000 {
		s = s[:4000] + "…"
	}
	return s
}

func renderGo(v reflect.Value) string {
	if !v.IsValid() {
		return ""
	}
	var sb strings.Builder
	renderGoInto(&sb, v, 0)
	s := sb.String()
	if len(s) > 4000 {
		s = s[:4000] + "…"
	}
	return s
}

func renderGoInto(sb *strings.Builder, v reflect.Value, depth int) {
	if depth > 12 {
		sb.WriteString("…")
		return
	}
	switch v.Kind() {
	case reflect.Interface:
		if v.IsNil() {
			sb.WriteString("nil")
		} else {
			fmt.Fprintf(sb, "<%s>", v.Elem().Type())
		}
	case reflect.Ptr:
		if v.IsNil() {
			sb.WriteString("nil")
			return
		}
		sb.WriteString("&")
		renderGoInto(sb, v.Elem(), depth+1)
	case reflect.Struct:
		if v.Type() == ctyValueType {
			cv := v.Interface().(cty.Value)
			if cv == cty.NilVal {
				sb.WriteString("cty.NilVal")
			} else {
				fmt.Fprintf(sb, "%#v", cv)
			}
			return
		}
		sb.WriteString("{")
		for i := 0; i < v.NumField(); i++ {
			if i > 0 {
				sb.WriteString(", ")
			}
			tag := v.Type().Field(i).Tag
			name := tag.Get("yaotl")
			if name == "" {
				name = tag.Get("cty")
			}
			sb.WriteString(name + ": ")
			renderGoInto(sb, v.Field(i), depth+1)
		}
		sb.WriteString("}")
	case reflect.Slice:
		if v.IsNil() {
			sb.WriteString("nil")
			return
		}
		sb.WriteString("[")
		for i := 0; i < v.Len(); i++ {
			if i > 0 {
				sb.WriteString(", ")
			}
			renderGoInto(sb, v.Index(i), depth+1)
		}
		sb.WriteString("]")
	case reflect.Map:
		if v.IsNil() {
			sb.WriteString("nil")
			return
		}
		fmt.Fprintf(sb, "%#v", v.Interface())
	default:
		fmt.Fprintf(sb, "%#v", v.Interface())
	}
}
