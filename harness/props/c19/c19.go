package c19

import (
	"encoding/json"
	"fmt"
	"hash/fnv"
	"math/rand"
	"os"
	"regexp"
	"sort"
	"strconv"
	"strings"

	"Havoc/pkg/profile/yaotl/hcldec"
	"Havoc/pkg/profile/yaotl/hclwrite"
	"github.com/zclconf/go-cty/cty"

	"verifh/lib"
)

func init() { lib.Register("C19", run) }

// ---------------------------------------------------------------------------------
// Forms
// ---------------------------------------------------------------------------------

// canonical order of rewrite operations inside a form's signature
var opOrder = []string{"json", "split", "dyn", "dyn-attrs", "reorder", "style", "format", "expand", "merge1"}

func normOps(ops []string) []string {
	set := map[string]bool{}
	for _, o := range ops {
		set[o] = true
	}
	var out []string
	for _, o := range opOrder {
		if set[o] {
			out = append(out, o)
		}
	}
	return out
}

func formSig(ops []string) string {
	if len(ops) == 0 {
		return "native"
	}
	return strings.Join(normOps(ops), "+")
}

func has(ops []string, o string) bool {
	for _, x := range ops {
		if x == o {
			return true
		}
	}
	return false
}

// buildForm applies the rewrites named by ops to the document and prints it.
func buildForm(name string, ops []string, s *Schema, items []*Item, r *rand.Rand, stats map[string]int) *Form {
	ops = normOps(ops)
	f := &Form{Name: name, Ops: ops}
	its := items
	if has(ops, "reorder") {
		its = reorderDeep(r, its)
	}
	if has(ops, "dyn") || has(ops, "dyn-attrs") {
		d := &dynCtx{r: r, stats: dynStats{}, attrsIter: has(ops, "dyn-attrs")}
		its = d.dynamize(its, s, nil)
		for k, v := range d.stats {
			stats[k] += v
		}
		if has(ops, "reorder") && r.Intn(2) == 0 {
			its = reorderDeep(r, its)
		}
		f.Expand = true
	}
	if has(ops, "expand") {
		f.Expand = true
	}
	files := [][]*Item{its}
	if has(ops, "split") {
		files = splitItems(r, its, 2+r.Intn(2))
		f.Merge = true
	}
	if has(ops, "merge1") {
		f.Merge = true
	}
	syn := make([]string, len(files))
	for i := range syn {
		syn[i] = "native"
		if has(ops, "json") && (len(files) == 1 || r.Intn(2) == 0) {
			syn[i] = "json"
		}
	}
	if has(ops, "json") && len(files) > 1 {
		syn[r.Intn(len(syn))] = "json"
	}
	fancy := has(ops, "style")
	for i, fi := range files {
		ft := FileText{Syntax: syn[i]}
		var st map[string]int
		if syn[i] == "json" {
			ft.Name = fmt.Sprintf("f%d.json", i)
			ft.Text, st = printJSON(fi, r, fancy)
		} else {
			ft.Name = fmt.Sprintf("f%d.hcl", i)
			ft.Text, st = printNative(fi, r, fancy)
			if has(ops, "format") {
				var out []byte
				pv, stack := lib.Guard(func() { out = hclwrite.Format([]byte(ft.Text)) })
				if pv != nil {
					// reported by the caller through the decode of an unparsable marker
					ft.Text = "\x00PANIC in hclwrite.Format: " + fmt.Sprint(pv) + "\n" + stack
				} else {
					if string(out) != ft.Text {
						stats["format:changed-text"]++
					}
					ft.Text = string(out)
				}
			}
		}
		for k, v := range st {
			stats[k] += v
		}
		f.Files = append(f.Files, ft)
	}
	return f
}

type formPlan struct {
	name string
	ops  []string
}

var mixOps = []string{"json", "split", "dyn", "reorder", "style", "format", "expand", "merge1"}

func randomMix(r *rand.Rand) []string {
	n := 2 + r.Intn(3)
	perm := r.Perm(len(mixOps))
	var ops []string
	for _, i := range perm[:n] {
		ops = append(ops, mixOps[i])
	}
	return normOps(ops)
}

// hasAttrsBlock: some block read with JustAttributes carries an attribute.
func hasAttrsBlock(s *Schema, items []*Item) bool {
	for _, it := range items {
		if it.K != "block" {
			continue
		}
		bs := s.block(it.Name)
		if bs == nil {
			continue
		}
		if bs.Mode == "attrs" {
			if len(it.Body) > 0 {
				return true
			}
		} else if hasAttrsBlock(bs.Body, it.Body) {
			return true
		}
	}
	return false
}

func plansFor(r *rand.Rand, valid bool, attrsProbe bool) []formPlan {
	if valid {
		p := []formPlan{
			{"native", nil},
			{"json", []string{"json"}},
			{"split", []string{"split"}},
			{"dyn", []string{"dyn"}},
			{"reorder", []string{"reorder"}},
			{"style", []string{"style"}},
			{"format", []string{"style", "format"}},
			{"json-style", []string{"json", "style"}},
		}
		for i := 0; i < 2; i++ {
			p = append(p, formPlan{fmt.Sprintf("mix%d", i), randomMix(r)})
		}
		if attrsProbe && r.Intn(8) == 0 {
			// outside the domain on this tree (known finding): iterator values inside a
			// block that is read with JustAttributes
			p = append(p, formPlan{"dyn-attrs", []string{"dyn-attrs"}})
		}
		return p
	}
	p := []formPlan{
		{"native", nil},
		{"json", []string{"json"}},
		{"dyn", []string{"dyn"}},
		{"split", []string{"split", []string{"json", "style", "reorder"}[r.Intn(3)]}},
		{"mix0", randomMix(r)},
	}
	return p
}

// ---------------------------------------------------------------------------------
// Invalid variants
// ---------------------------------------------------------------------------------

type variant struct {
	Class  string `json:"class"` // valid | missing-required-attr | unknown-attr | missing-label | duplicate-attr | duplicate-single-block | missing-required-block | duplicate-map-key
	ErrDec bool   `json:"err_hcldec"`
	ErrTag bool   `json:"err_gohcl"`
	Where  string `json:"where,omitempty"`
}

type bodyRef struct {
	s     *Schema
	items *[]*Item
	path  string
}

// bodies lists every body of the document that is decoded with a schema (attrs-mode block
// bodies accept any attribute and are skipped).
func bodies(s *Schema, items *[]*Item, path string, out *[]bodyRef) {
	*out = append(*out, bodyRef{s, items, path})
	for _, it := range *items {
		if it.K == "block" {
			bs := s.block(it.Name)
			if bs != nil && bs.Body != nil {
				bodies(bs.Body, &it.Body, path+"/"+it.Name, out)
			}
		}
	}
}

func isPrimVal(v *Val) bool { return v != nil && (v.K == "s" || v.K == "n" || v.K == "b") }

// makeInvalid derives a one-fault invalid configuration. ok=false if this document has no
// place for the chosen fault.
func makeInvalid(r *rand.Rand, s *Schema, items []*Item) ([]*Item, variant, bool) {
	doc := cloneItems(items)
	var bs []bodyRef
	bodies(s, &doc, "", &bs)
	classes := []string{"missing-required-attr", "unknown-attr", "missing-label", "duplicate-attr", "duplicate-single-block", "missing-required-block", "duplicate-map-key"}
	for _, ci := range r.Perm(len(classes)) {
		class := classes[ci]
		for _, bi := range r.Perm(len(bs)) {
			b := bs[bi]
			its := *b.items
			switch class {
			case "missing-required-attr":
				for i, it := range its {
					if it.K == "attr" {
						if a := b.s.attr(it.Name); a != nil && a.Mode == "req" {
							*b.items = append(append([]*Item{}, its[:i]...), its[i+1:]...)
							return doc, variant{class, true, true, b.path + "/" + it.Name}, true
						}
					}
				}
			case "unknown-attr":
				name := "zz_unknown"
				if b.s.attr(name) != nil || b.s.block(name) != nil {
					continue
				}
				pos := r.Intn(len(its) + 1)
				n := append(append(append([]*Item{}, its[:pos]...), &Item{K: "attr", Name: name, Val: vS("x")}), its[pos:]...)
				*b.items = n
				return doc, variant{class, true, true, b.path + "/" + name}, true
			case "missing-label":
				for _, it := range its {
					if it.K != "block" || len(it.Labels) == 0 {
						continue
					}
					// in the JSON syntax a missing label level is only guaranteed to be
					// noticed if something of the body cannot be read as a block body: an
					// attribute with a primitive value
					prim := false
					for _, c := range it.Body {
						if c.K == "attr" && isPrimVal(c.Val) {
							prim = true
						}
					}
					if !prim {
						continue
					}
					it.Labels = it.Labels[:len(it.Labels)-1]
					return doc, variant{class, true, true, b.path + "/" + it.Name}, true
				}
			case "duplicate-attr":
				for i, it := range its {
					if it.K == "attr" {
						dup := it.clone()
						pos := i + 1 + r.Intn(len(its)-i)
						n := append(append(append([]*Item{}, its[:pos]...), dup), its[pos:]...)
						*b.items = n
						return doc, variant{class, true, true, b.path + "/" + it.Name}, true
					}
				}
			case "duplicate-single-block":
				for i, it := range its {
					if it.K == "block" {
						if x := b.s.block(it.Name); x != nil && (x.Mode == "single" || x.Mode == "attrs") {
							dup := it.clone()
							pos := i + 1 + r.Intn(len(its)-i)
							n := append(append(append([]*Item{}, its[:pos]...), dup), its[pos:]...)
							*b.items = n
							return doc, variant{class, true, true, b.path + "/" + it.Name}, true
						}
					}
				}
			case "missing-required-block":
				for i, it := range its {
					if it.K == "block" {
						if x := b.s.block(it.Name); x != nil && (x.Mode == "single" || x.Mode == "attrs") && x.Required {
							*b.items = append(append([]*Item{}, its[:i]...), its[i+1:]...)
							return doc, variant{class, true, true, b.path + "/" + it.Name}, true
						}
					}
				}
			case "duplicate-map-key":
				// the spec-driven decoder keys the blocks by label and rejects a repeated
				// key; the tag-driven decoder collects a slice and accepts it.
				for i, it := range its {
					if it.K == "block" {
						if x := b.s.block(it.Name); x != nil && (x.Mode == "map" || x.Mode == "object") {
							dup := it.clone()
							pos := i + 1 + r.Intn(len(its)-i)
							n := append(append(append([]*Item{}, its[:pos]...), dup), its[pos:]...)
							*b.items = n
							return doc, variant{class, true, false, b.path + "/" + it.Name}, true
						}
					}
				}
			}
		}
	}
	return nil, variant{}, false
}

// ---------------------------------------------------------------------------------
// One case
// ---------------------------------------------------------------------------------

type failure struct {
	Sig     string `json:"signature"`
	What    string `json:"what"`
	Form    string `json:"form"`
	Decoder string `json:"decoder"`
	nops    int
}

type formOutcome struct {
	Form   *Form      `json:"form"`
	Spec   *DecResult `json:"hcldec"`
	Tags   *DecResult `json:"gohcl"`
	SpecMM string     `json:"hcldec_mismatch,omitempty"`
	TagsMM string     `json:"gohcl_mismatch,omitempty"`
}

type witness struct {
	Schema  *Schema        `json:"schema"`
	Items   []*Item        `json:"items"`
	Variant variant        `json:"variant"`
	Seed    int64          `json:"case_seed"`
	Forms   []*formOutcome `json:"forms"`
	Failed  []failure      `json:"failed"`
	Note    string         `json:"note,omitempty"`
}

var slugRe = regexp.MustCompile(`[^a-z0-9]+`)

func slug(s string) string {
	s = slugRe.ReplaceAllString(strings.ToLower(s), "-")
	s = strings.Trim(s, "-")
	if len(s) > 48 {
		s = s[:48]
	}
	return s
}

func diagSlug(res *DecResult) string {
	if len(res.Diags) == 0 {
		return "no-diag"
	}
	d := res.Diags[0]
	// "<range>: <summary>: <detail>"; the summary is the stable part
	parts := strings.SplitN(d, ": ", 3)
	sum := parts[0]
	if len(parts) == 3 {
		sum = parts[1]
	}
	// block type names appear in some summaries ("Missing x block")
	sum = regexp.MustCompile(`^(Missing|Duplicate|Insufficient|Too many) \S+ blocks?$`).ReplaceAllString(sum, "$1 X block")
	return slug(sum)
}

type caseEnv struct {
	s    *Schema
	spec hcldec.Spec
	lay  *goLayout
}

// judgeForm decodes one form both ways and compares with the model.
func judgeForm(env *caseEnv, f *Form, items []*Item, v variant, c *lib.Ctx) (*formOutcome, []failure) {
	out := &formOutcome{Form: f}
	var fails []failure
	sig := formSig(f.Ops)
	add := func(dec, s, what string) {
		fails = append(fails, failure{Sig: s, What: what, Form: f.Name, Decoder: dec, nops: len(f.Ops)})
	}
	for _, ft := range f.Files {
		if strings.HasPrefix(ft.Text, "\x00PANIC in hclwrite.Format: ") {
			lines := strings.SplitN(ft.Text, "\n", 2)
			add("format", "panic:hclwrite.Format@"+lib.TopHavocFrames(lines[len(lines)-1], 2), lines[0][1:])
			return out, fails
		}
	}
	extras := env.s.Extras
	var parsed *parsedForm
	if pv, stack := lib.Guard(func() { parsed = parseForm(f) }); pv != nil {
		add("parse", lib.PanicSig(pv, stack), fmt.Sprintf("parsing form %s panics: %v", f.Name, pv))
		return out, fails
	}
	for _, dec := range []string{"hcldec", "gohcl"} {
		var res *DecResult
		pv, stack := lib.Guard(func() {
			if dec == "hcldec" {
				res = decodeSpec(f, parsed, env.spec, env.s.Partial, extras)
			} else {
				res = decodeTags(f, parsed, env.lay, env.s.Partial, extras)
			}
		})
		if pv != nil {
			res = &DecResult{Panic: fmt.Sprint(pv), Stack: stack}
			add(dec, lib.PanicSig(pv, stack), fmt.Sprintf("%s panics on form %s: %v", dec, f.Name, pv))
		}
		if c != nil {
			c.Observe("dec:"+dec, 1)
			if res.Err {
				c.Observe("dec:"+dec+":error", 1)
			}
		}
		wantErr := v.ErrDec
		if dec == "gohcl" {
			wantErr = v.ErrTag
		}
		var m *mismatch
		if pv == nil {
			switch {
			case res.Err && !wantErr:
				add(dec, fmt.Sprintf("error-disagree:%s:%s:%s:%s", sig, dec, v.Class, diagSlug(res)),
					fmt.Sprintf("form %s (%s) of a %s configuration is rejected by %s: %s", f.Name, sig, v.Class, dec, strings.Join(res.Diags, " | ")))
			case !res.Err && wantErr:
				add(dec, fmt.Sprintf("error-disagree:%s:%s:%s:accepted", sig, dec, v.Class),
					fmt.Sprintf("form %s (%s) of an invalid configuration (%s at %s) is accepted by %s", f.Name, sig, v.Class, v.Where, dec))
			case !res.Err:
				pv2, stack2 := lib.Guard(func() {
					if dec == "hcldec" {
						m = checkCtyBody(env.s, nil, items, nil, res.cv, "")
						if m == nil && env.s.Partial {
							m = checkExtrasCty(env.s, items, res.xv)
						}
					} else {
						m = checkGoBody(env.s, env.lay, items, nil, res.gv, "")
						if m == nil && env.s.Partial {
							m = checkExtrasGo(env.s, items, res.xg)
						}
					}
				})
				if pv2 != nil {
					m = &mismatch{Class: "oracle-panic", Path: "", What: fmt.Sprint(pv2) + "\n" + stack2}
				}
				if m != nil {
					add(dec, fmt.Sprintf("mismatch:%s:%s:%s", sig, dec, m.Class),
						fmt.Sprintf("form %s (%s) decodes through %s to something else than the configuration says at %s", f.Name, sig, dec, m.String()))
				}
			}
		}
		if dec == "hcldec" {
			out.Spec = res
			if m != nil {
				out.SpecMM = m.String()
			}
		} else {
			out.Tags = res
			if m != nil {
				out.TagsMM = m.String()
			}
		}
	}
	return out, fails
}

func fillValues(o *formOutcome) {
	if o.Spec != nil && o.Spec.Parsed && o.Spec.Panic == "" {
		lib.Guard(func() {
			o.Spec.Value = renderCty(o.Spec.cv)
			if o.Spec.xv != cty.NilVal {
				o.Spec.Value += " | stage two: " + renderCty(o.Spec.xv)
			}
		})
	}
	if o.Tags != nil && o.Tags.Parsed && o.Tags.Panic == "" {
		lib.Guard(func() {
			o.Tags.Value = renderGo(o.Tags.gv)
			if o.Tags.xg.IsValid() {
				o.Tags.Value += " | stage two: " + renderGo(o.Tags.xg)
			}
		})
	}
}

func subSeed(seed int64, name string) int64 {
	h := fnv.New64a()
	fmt.Fprintf(h, "%d/%s", seed, name)
	return int64(h.Sum64())
}

// evalCase builds every form of one (schema, value, variant) and judges it. Deterministic
// in (schema, items, variant, seed).
func evalCase(env *caseEnv, items []*Item, v variant, seed int64, c *lib.Ctx, stats map[string]int) ([]*formOutcome, []failure) {
	pr := rand.New(rand.NewSource(subSeed(seed, "plans")))
	plans := plansFor(pr, v.Class == "valid", v.Class == "valid" && hasAttrsBlock(env.s, items))
	var outs []*formOutcome
	var fails []failure
	for _, p := range plans {
		r := rand.New(rand.NewSource(subSeed(seed, p.name)))
		var f *Form
		pv, stack := lib.Guard(func() { f = buildForm(p.name, p.ops, env.s, items, r, stats) })
		if pv != nil {
			fails = append(fails, failure{Sig: "harness-panic:buildForm", What: fmt.Sprint(pv) + "\n" + stack, Form: p.name})
			continue
		}
		o, fl := judgeForm(env, f, items, v, c)
		outs = append(outs, o)
		fails = append(fails, fl...)
		if c != nil {
			c.Observe("form:"+p.name, 1)
			for _, op := range f.Ops {
				c.Observe("op:"+op, 1)
			}
			if len(f.Ops) >= 2 {
				c.Observe("composed-forms", 1)
			}
		}
		// a failing composition: find a smallest set of its operations that still fails
		if len(fl) > 0 && len(f.Ops) > 1 {
			ops := append([]string{}, f.Ops...)
			for changed := true; changed; {
				changed = false
				for i := range ops {
					try := append(append([]string{}, ops[:i]...), ops[i+1:]...)
					r2 := rand.New(rand.NewSource(subSeed(seed, p.name)))
					var f2 *Form
					if pv, _ := lib.Guard(func() { f2 = buildForm(p.name+"-min", try, env.s, items, r2, map[string]int{}) }); pv != nil {
						continue
					}
					o2, fl2 := judgeForm(env, f2, items, v, nil)
					if len(fl2) > 0 {
						ops = try
						outs = append(outs, o2)
						fails = append(fails, fl2...)
						changed = true
						break
					}
				}
			}
		}
	}
	return outs, fails
}

// pickFailures keeps, per decoder, the failure on the form with the fewest operations.
func pickFailures(fails []failure) []failure {
	best := map[string]failure{}
	for _, f := range fails {
		b, ok := best[f.Decoder]
		if !ok || f.nops < b.nops {
			best[f.Decoder] = f
		}
	}
	var out []failure
	for _, k := range []string{"hcldec", "gohcl", "format", "parse", ""} {
		if f, ok := best[k]; ok {
			out = append(out, f)
		}
	}
	return out
}

// ---------------------------------------------------------------------------------
// Witness minimisation
// ---------------------------------------------------------------------------------

func sigSet(fs []failure) map[string]bool {
	m := map[string]bool{}
	for _, f := range fs {
		m[f.Sig] = true
	}
	return m
}

// removable: positions (body, index) whose removal keeps the document valid for the
// schema apart from the fault of the variant.
func shrinkCandidates(s *Schema, items []*Item) [][]*Item {
	var out [][]*Item
	var walk func(s *Schema, path []int, its []*Item)
	replaceAt := func(path []int, idx int) []*Item {
		doc := cloneItems(items)
		cur := &doc
		for _, p := range path {
			cur = &(*cur)[p].Body
		}
		*cur = append(append([]*Item{}, (*cur)[:idx]...), (*cur)[idx+1:]...)
		return doc
	}
	walk = func(s *Schema, path []int, its []*Item) {
		for i, it := range its {
			if it.K == "attr" {
				if s != nil {
					if a := s.attr(it.Name); a != nil && a.Mode == "req" && len(attrsOf(its, it.Name)) == 1 {
						continue
					}
				}
				out = append(out, replaceAt(path, i))
				continue
			}
			var bs *BlockS
			if s != nil {
				bs = s.block(it.Name)
			}
			if !(bs != nil && bs.Required && len(blocksOf(its, it.Name)) == 1) {
				out = append(out, replaceAt(path, i))
			}
			if bs != nil {
				walk(bs.Body, append(append([]int{}, path...), i), it.Body)
			}
		}
	}
	walk(s, nil, items)
	return out
}

func pruneSchema(s *Schema, items []*Item) *Schema {
	n := &Schema{Partial: s.Partial, Extras: s.Extras, RemainKind: s.RemainKind}
	for _, a := range s.Attrs {
		if len(attrsOf(items, a.Name)) > 0 || a.Mode == "req" {
			n.Attrs = append(n.Attrs, a)
		}
	}
	for _, b := range s.Blocks {
		bl := blocksOf(items, b.Type)
		if len(bl) == 0 && !b.Required {
			continue
		}
		nb := b
		if b.Body != nil {
			var all []*Item
			for _, x := range bl {
				all = append(all, x.Body...)
			}
			nb.Body = pruneSchema(b.Body, all)
			if len(nb.Body.Attrs) == 0 && len(nb.Body.Blocks) == 0 && len(b.Body.Attrs) > 0 {
				nb.Body.Attrs = b.Body.Attrs[:1] // a body schema is never empty
			}
		}
		n.Blocks = append(n.Blocks, nb)
	}
	return n
}

func newEnv(s *Schema) (env *caseEnv, err error) {
	pv, stack := lib.Guard(func() {
		env = &caseEnv{s: s, spec: buildSpec(s, nil), lay: buildGo(s, nil)}
	})
	if pv != nil {
		return nil, fmt.Errorf("%v\n%s", pv, stack)
	}
	return env, nil
}

// shrink returns a smaller (schema, items) that still fails with one of the signatures.
func shrink(s *Schema, items []*Item, v variant, seed int64, want map[string]bool) (*Schema, []*Item) {
	tries := 0
	still := func(s2 *Schema, it2 []*Item) bool {
		tries++
		env, err := newEnv(s2)
		if err != nil {
			return false
		}
		_, fl := evalCase(env, it2, v, seed, nil, map[string]int{})
		for _, f := range pickFailures(fl) {
			if want[f.Sig] {
				return true
			}
		}
		return false
	}
	for changed := true; changed && tries < shrinkTries; {
		changed = false
		for _, cand := range shrinkCandidates(s, items) {
			if tries >= shrinkTries {
				break
			}
			if still(s, cand) {
				items = cand
				changed = true
				break
			}
		}
	}
	if p := pruneSchema(s, items); still(p, items) {
		s = p
	}
	return s, items
}

// ---------------------------------------------------------------------------------
// run
// ---------------------------------------------------------------------------------

func run(c *lib.Ctx) {
	c.Rule("generated (schema, configuration) pairs: schemas with string/number/bool/list/set/map/object/tuple/any attributes " +
		"(required, optional, pointer-optional, spec defaults) and single/list/set/map/tuple/object/attribute-map blocks with 0-2 labels nested to depth 3; " +
		"each pair is printed as native, JSON, split+merged, dynamic-block, reordered, restyled and reformatted forms and random compositions of 2-4 rewrites, " +
		"plus one single-fault invalid variant; distinct = hash of (schema, configuration); non-trivial = at least one attribute and one block in the configuration")
	c.Assume(
		"go-cty (types, conversion, gocty) is trusted: it is a third-party dependency, not the code under test",
		"the harness printers are written from hclsyntax/spec.md and json/spec.md and never call the code under test; hclwrite.Format is code under test and is applied as one of the rewrites",
		"numbers: a decoded number must equal the literal's rational exactly or within 2^-400 relative error (decimal fractions have no finite binary expansion); no negative zero",
		"both decoders get a non-nil empty EvalContext, so JSON strings are templates (json/spec.md, full expression mode) exactly like native quoted strings",
		"domain restrictions: strings are NFC; no \\u escapes in native strings (dialect rejects them); heredocs only for text ending in a newline and never with CRLF line ends; "+
			"explicit null only where both decoders define it (pointer, slice, map, cty.Value targets); attribute values are written in the kind the schema asks for (no string<->number conversions); "+
			"set/list/map-typed block results only over statically typed bodies; two-label map blocks not inside list/set/map blocks (side finding: BlockMapSpec returns map(T) for no blocks); "+
			"dynamic content for blocks read with JustAttributes only with constant values in the regular forms (the probe form dyn-attrs goes outside: known finding); "+
			"JSON block bodies are objects, never nested arrays; missing-label faults only on blocks that carry a primitive-valued attribute (JSON cannot tell a label level from a body otherwise); "+
			"for_each collections are literals (no variables, no functions, no unknown values); remain into a map only for block bodies without nested blocks (native JustAttributes rejects bodies with blocks); "+
			"top-level partial decoding is two-stage with a strict second stage over the extra attributes",
		"gohcl has no defaults: an absent optional attribute must leave the zero value / nil, hcldec must return the DefaultSpec literal or a typed null",
	)
	if c.Replay != nil {
		replay(c)
		return
	}
	n := c.N(15000, 1000000)
	// development aid for mutation validation on a loaded machine: C19_DIV=k runs 1/k of
	// the tier's cases (the driver then reports BROKEN-RUN unless a violation is found)
	if d, err := strconv.Atoi(os.Getenv("C19_DIV")); err == nil && d > 1 {
		n = (n + d - 1) / d
	}
	const perSchema = 3
	stats := map[string]int{}
	var env *caseEnv
	var s *Schema
	for i := 0; i < n; i++ {
		if i%perSchema == 0 {
			s = genSchema(c.Rng, 3, false, nil)
			var err error
			env, err = newEnv(s)
			if err != nil {
				js, _ := json.Marshal(s)
				c.Violation("harness-panic:newEnv", "building decoder configuration panics: "+err.Error(), map[string]any{"schema": json.RawMessage(js)})
				env = nil
			}
		}
		if env == nil {
			continue
		}
		items := genBody(c.Rng, s)
		seed := c.Rng.Int63()
		doCase(c, env, items, variant{Class: "valid"}, seed, stats)
		if inv, v, ok := makeInvalid(c.Rng, s, items); ok {
			doCase(c, env, inv, v, seed, stats)
			c.Observe("invalid:"+v.Class, 1)
		} else {
			c.Observe("invalid:none-possible", 1)
		}
		if i%500 == 499 {
			c.Checkpoint()
		}
	}
	for _, k := range sortedKeys(stats) {
		c.Observe(k, int64(stats[k]))
	}
}

var (
	sigSeen = map[string]int{}
	shrunk  int
)

const shrinkTries = 150

func doCase(c *lib.Ctx, env *caseEnv, items []*Item, v variant, seed int64, stats map[string]int) {
	cur, _ := json.Marshal(map[string]any{"schema": env.s, "items": items, "variant": v, "case_seed": seed})
	c.Cur("c19-case", cur)
	c.Eval()
	na, nb := countKinds(items)
	if na > 0 && nb > 0 {
		c.DistinctBytes(cur)
	}
	if v.Class == "valid" {
		cs := map[string]int{}
		census(env.s, items, 1, cs)
		for k, n := range cs {
			if k == "max-depth" {
				c.Observe(fmt.Sprintf("feat:depth:%d", n), 1)
				continue
			}
			c.Observe(k, int64(n))
		}
	}
	outs, fails := evalCase(env, items, v, seed, c, stats)
	c.SampleSome(2000, func() any {
		w := witness{Schema: env.s, Items: items, Variant: v, Seed: seed, Forms: outs}
		for _, o := range outs {
			fillValues(o)
		}
		return w
	})
	if len(fails) == 0 {
		if v.Class == "valid" {
			c.Observe("agree:valid", 1)
		} else {
			c.Observe("agree:invalid", 1)
		}
		return
	}
	picked := pickFailures(fails)
	// a systematic defect fails in thousands of cases: only the first witnesses of a
	// signature are kept by lib, so the others are only counted
	fresh := false
	for _, f := range picked {
		if sigSeen[f.Sig] < 3 {
			fresh = true
		}
		sigSeen[f.Sig]++
	}
	if !fresh {
		for _, f := range picked {
			c.Violation(f.Sig, f.What, nil)
		}
		return
	}
	// minimise the configuration (and then the schema) while the same class of failure
	// persists; only for the first few failures of a shard (each costs up to shrinkTries
	// re-evaluations)
	s2, it2 := env.s, items
	if !strings.HasPrefix(picked[0].Sig, "harness-panic") && v.Class == "valid" && shrunk < 4 {
		shrunk++
		// (an invalid variant is not shrunk: removing the faulty item would "preserve" an
		// accepted-invalid failure trivially)
		s2, it2 = shrink(env.s, items, v, seed, sigSet(picked))
	}
	env2, err := newEnv(s2)
	if err != nil {
		env2, s2, it2 = env, env.s, items
	}
	outs2, fails2 := evalCase(env2, it2, v, seed, nil, map[string]int{})
	picked2 := pickFailures(fails2)
	if len(picked2) == 0 {
		env2, it2, outs2, picked2 = env, items, outs, picked
	}
	for _, o := range outs2 {
		fillValues(o)
	}
	// keep the witness small: the failing forms and the plain native form
	failing := map[string]bool{}
	for _, f := range picked2 {
		failing[f.Form] = true
	}
	var keep []*formOutcome
	for _, o := range outs2 {
		if failing[o.Form.Name] || o.Form.Name == "native" {
			keep = append(keep, o)
		}
	}
	w := witness{Schema: env2.s, Items: it2, Variant: v, Seed: seed, Forms: keep, Failed: picked2}
	for _, f := range picked2 {
		c.Violation(f.Sig, f.What, w)
	}
}

func replay(c *lib.Ctx) {
	var w witness
	if err := json.Unmarshal(c.Replay, &w); err != nil || w.Schema == nil {
		c.Inconclusive("replay: witness is not a C19 witness")
		return
	}
	env, err := newEnv(w.Schema)
	if err != nil {
		c.Violation("harness-panic:newEnv", err.Error(), w)
		return
	}
	c.Eval()
	var fails []failure
	var outs []*formOutcome
	for _, o := range w.Forms {
		if o.Form == nil {
			continue
		}
		o2, fl := judgeForm(env, o.Form, w.Items, w.Variant, c)
		fillValues(o2)
		outs = append(outs, o2)
		fails = append(fails, fl...)
	}
	w.Forms = outs
	seen := map[string]bool{}
	sort.SliceStable(fails, func(i, j int) bool { return fails[i].nops < fails[j].nops })
	w.Failed = fails
	for _, f := range fails {
		if seen[f.Sig] {
			continue
		}
		seen[f.Sig] = true
		c.Violation(f.Sig, f.What, w)
	}
}
