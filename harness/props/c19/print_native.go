package c19

import (
	"fmt"
	"math/rand"
	"strings"
)

// Native-syntax printer, written from the syntax specification (hclsyntax/spec.md): bodies
// of attribute definitions `name = expr` and blocks `type "label"... { body }`, quoted
// templates with \n \r \t \" \\ escapes and $${ / %%{ introducer escapes, heredocs,
// tuple and object constructors. It never calls the code under test.
//
// fancy=false gives one canonical spelling; fancy=true draws spacing, comments, line
// structure and alternative spellings of the same expression from r.

type natPrinter struct {
	r     *rand.Rand
	fancy bool
	sb    strings.Builder
	nl    string
	stats map[string]int
}

func printNative(items []*Item, r *rand.Rand, fancy bool) (string, map[string]int) {
	p := &natPrinter{r: r, fancy: fancy, nl: "\n", stats: map[string]int{}}
	if fancy && r.Intn(6) == 0 && !itemsHaveHeredocCandidate(items) {
		p.nl = "\r\n"
		p.stats["nat:crlf"]++
	}
	p.body(items, 0)
	return p.sb.String(), p.stats
}

func itemsHaveHeredocCandidate(items []*Item) bool {
	for _, it := range items {
		if it.K == "attr" && it.Val != nil && it.Val.K == "s" && heredocOK(it.Val.S) {
			return true
		}
		if it.K == "block" && itemsHaveHeredocCandidate(it.Body) {
			return true
		}
	}
	return false
}

func (p *natPrinter) coin(n int) bool { return p.fancy && p.r.Intn(n) == 0 }

func (p *natPrinter) indent(level int) string {
	if !p.fancy {
		return strings.Repeat("  ", level)
	}
	switch p.r.Intn(5) {
	case 0:
		return ""
	case 1:
		return strings.Repeat("\t", level)
	case 2:
		return strings.Repeat(" ", p.r.Intn(9))
	default:
		return strings.Repeat("  ", level)
	}
}

func (p *natPrinter) sp() string {
	if !p.fancy {
		return " "
	}
	return []string{"", " ", " ", "  ", "\t", "   "}[p.r.Intn(6)]
}

func (p *natPrinter) sp1() string { // at least one blank
	if !p.fancy {
		return " "
	}
	return []string{" ", " ", "  ", "\t", " \t "}[p.r.Intn(5)]
}

var commentTexts = []string{"comment", "a = 1", "}", "{", "\"", "${x}", "block \"l\" {", "*/ x", "EOT", "é", "", "# //", "[", "<<EOT"}

func (p *natPrinter) commentLine(level int) {
	t := commentTexts[p.r.Intn(len(commentTexts))]
	switch p.r.Intn(3) {
	case 0:
		p.sb.WriteString(p.indent(level) + "#" + t + p.nl)
	case 1:
		p.sb.WriteString(p.indent(level) + "//" + t + p.nl)
	default:
		t = strings.ReplaceAll(t, "*/", "* /")
		if p.r.Intn(2) == 0 {
			t += "\n more"
		}
		p.sb.WriteString(p.indent(level) + "/*" + t + "*/" + p.nl)
	}
	p.stats["nat:comment"]++
}

func (p *natPrinter) trailer() string {
	// what may follow an item on its line
	if !p.fancy {
		return ""
	}
	switch p.r.Intn(8) {
	case 0:
		p.stats["nat:comment"]++
		return p.sp() + "# " + strings.ReplaceAll(commentTexts[p.r.Intn(len(commentTexts))], "\n", " ")
	case 1:
		p.stats["nat:comment"]++
		return p.sp() + "// trailing"
	case 2:
		p.stats["nat:comment"]++
		return p.sp() + "/* inline */" + p.sp()
	case 3:
		return p.sp1()
	}
	return ""
}

func (p *natPrinter) inlineComment() string {
	if p.coin(12) {
		p.stats["nat:comment"]++
		return "/* c */" + p.sp()
	}
	return ""
}

func (p *natPrinter) body(items []*Item, level int) {
	for _, it := range items {
		if p.fancy {
			for p.r.Intn(5) == 0 {
				if p.r.Intn(2) == 0 {
					p.sb.WriteString(p.nl)
				} else {
					p.commentLine(level)
				}
			}
		}
		p.item(it, level)
	}
	if p.fancy && p.r.Intn(6) == 0 {
		p.commentLine(level)
	}
}

func (p *natPrinter) item(it *Item, level int) {
	ind := p.indent(level)
	if it.K == "attr" {
		p.sb.WriteString(ind + it.Name + p.sp() + "=" + p.sp() + p.inlineComment())
		if it.Val.K == "s" && heredocOK(it.Val.S) && (p.coin(2)) {
			p.heredoc(it.Val.S, level)
			return
		}
		p.sb.WriteString(p.expr(it.Val, level, true))
		p.sb.WriteString(p.trailer() + p.nl)
		return
	}
	p.sb.WriteString(ind + it.Name)
	for _, l := range it.Labels {
		p.sb.WriteString(p.sp1())
		if bareOK(l) && p.coin(3) {
			p.sb.WriteString(l) // bare identifier label
			p.stats["nat:bare-label"]++
		} else {
			p.sb.WriteString(p.quoted(l))
		}
	}
	p.sb.WriteString(p.sp1() + "{")
	switch {
	case len(it.Body) == 0 && (p.coin(2) || !p.fancy):
		p.sb.WriteString("}" + p.trailer() + p.nl)
	case len(it.Body) == 1 && it.Body[0].K == "attr" && p.coin(3):
		// single-line block with exactly one attribute
		a := it.Body[0]
		p.sb.WriteString(p.sp() + a.Name + p.sp() + "=" + p.sp() + p.expr(a.Val, level, false) + p.sp() + "}" + p.trailer() + p.nl)
		p.stats["nat:oneline-block"]++
	default:
		p.sb.WriteString(p.trailer() + p.nl)
		p.body(it.Body, level+1)
		p.sb.WriteString(p.indent(level) + "}" + p.trailer() + p.nl)
	}
}

// heredocOK: text that a heredoc can spell: ends with a newline, no carriage returns (a
// heredoc keeps the file's own line ends), no control characters.
func heredocOK(s string) bool {
	if !strings.HasSuffix(s, "\n") {
		return false
	}
	for _, c := range s {
		if c == '\r' || (c < 0x20 && c != '\n' && c != '\t') {
			return false
		}
	}
	return true
}

func (p *natPrinter) heredoc(s string, level int) {
	delim := "EOT"
	for _, d := range []string{"EOT", "END", "DOC_1", "X"} {
		ok := true
		for _, ln := range strings.Split(s, "\n") {
			if strings.TrimSpace(ln) == d {
				ok = false
			}
		}
		if ok {
			delim = d
			break
		}
		delim = "ZZ_END_9"
	}
	raw := strings.Split(strings.TrimSuffix(s, "\n"), "\n")
	lines := make([]string, len(raw))
	for i, ln := range raw {
		lines[i] = tmplEscape(ln)
		if p.r.Intn(5) == 0 {
			// part of the line as the interpolation of a string literal
			if s1, s2, s3, ok := splitForInterp(ln, p.r.Intn); ok {
				lines[i] = tmplEscape(s1) + "${" + p.quoted(s2) + "}" + tmplEscape(s3)
				p.stats["nat:heredoc-interpolation"]++
			}
		}
	}
	flush := false
	if p.r.Intn(2) == 0 {
		// indented heredoc: the smallest common leading indentation is removed. Only used
		// when no line of the text starts with a blank or is empty, so that the common
		// indentation is exactly the one added here.
		flush = true
		for _, ln := range lines {
			if ln == "" || ln[0] == ' ' || ln[0] == '\t' {
				flush = false
			}
		}
	}
	if flush {
		pad := strings.Repeat(" ", 1+p.r.Intn(6))
		p.sb.WriteString("<<-" + delim + p.nl)
		for _, ln := range lines {
			p.sb.WriteString(pad + ln + p.nl)
		}
		p.sb.WriteString(strings.Repeat(" ", p.r.Intn(len(pad)+3)) + delim + p.nl)
		p.stats["nat:heredoc-indented"]++
		return
	}
	p.sb.WriteString("<<" + delim + p.nl)
	for _, ln := range lines {
		p.sb.WriteString(ln + p.nl)
	}
	p.sb.WriteString(delim + p.nl)
	p.stats["nat:heredoc"]++
}

// quoted: a quoted template whose value is exactly s.
func (p *natPrinter) quoted(s string) string {
	return `"` + natEscape(tmplEscape(s), p.fancy, p.r) + `"`
}

// quotedValue: like quoted, but a part of the string may be written as the interpolation of
// a string literal ("ab${"cd"}ef"), which evaluates to the same string.
func (p *natPrinter) quotedValue(s string) string {
	if p.coin(6) {
		if s1, s2, s3, ok := splitForInterp(s, p.r.Intn); ok {
			p.stats["nat:literal-interpolation"]++
			return `"` + natEscape(tmplEscape(s1), true, p.r) + "${" + p.sp() + p.quoted(s2) + p.sp() + "}" + natEscape(tmplEscape(s3), true, p.r) + `"`
		}
	}
	return p.quoted(s)
}

func natEscape(s string, fancy bool, r *rand.Rand) string {
	var sb strings.Builder
	for _, c := range s {
		switch c {
		case '"':
			sb.WriteString(`\"`)
		case '\\':
			sb.WriteString(`\\`)
		case '\n':
			sb.WriteString(`\n`)
		case '\r':
			sb.WriteString(`\r`)
		case '\t':
			if fancy && r.Intn(2) == 0 {
				sb.WriteRune('\t')
			} else {
				sb.WriteString(`\t`)
			}
		default:
			sb.WriteRune(c)
		}
	}
	return sb.String()
}

func (p *natPrinter) number(n string) string {
	if p.fancy && strings.Contains(n, "e") {
		switch p.r.Intn(3) {
		case 0:
			n = strings.Replace(n, "e", "E", 1)
		case 1:
			if !strings.Contains(n, "e-") {
				n = strings.Replace(n, "e", "e+", 1)
			}
		}
	}
	if strings.HasPrefix(n, "-") && p.coin(4) {
		return "-" + p.sp() + n[1:]
	}
	return n
}

func (p *natPrinter) refText(v *Val) string {
	var sb strings.Builder
	sb.WriteString(v.Root)
	for _, st := range v.Path {
		if st.Index != nil {
			fmt.Fprintf(&sb, "[%d]", *st.Index)
			continue
		}
		if bareOK(st.Name) && !(p.fancy && p.r.Intn(3) == 0) {
			sb.WriteString("." + st.Name)
		} else {
			sb.WriteString("[" + p.quoted(st.Name) + "]")
		}
	}
	return sb.String()
}

// expr prints v. multi: newlines are allowed inside brackets at this position.
func (p *natPrinter) expr(v *Val, level int, multi bool) string {
	switch v.K {
	case "s":
		return p.quotedValue(v.S)
	case "n":
		return p.number(v.N)
	case "b":
		if v.B {
			return "true"
		}
		return "false"
	case "null":
		return "null"
	case "trav":
		return v.Root
	case "ref":
		if p.coin(3) {
			p.stats["nat:ref-in-template"]++
			return `"${` + p.sp() + p.refText(v) + p.sp() + `}"`
		}
		return p.refText(v)
	case "tmpl":
		var sb strings.Builder
		sb.WriteString(`"`)
		for _, part := range v.Seq {
			if part.K == "s" {
				sb.WriteString(natEscape(tmplEscape(part.S), false, nil))
			} else {
				sb.WriteString("${" + p.refText(part) + "}")
			}
		}
		sb.WriteString(`"`)
		return sb.String()
	case "seq":
		if len(v.Seq) == 0 {
			if p.coin(4) {
				return "[" + p.sp() + "]"
			}
			return "[]"
		}
		ml := multi && p.coin(3)
		var sb strings.Builder
		sb.WriteString("[")
		for i, e := range v.Seq {
			if ml {
				sb.WriteString(p.nl + p.indent(level+1))
			} else if i > 0 {
				sb.WriteString(p.sp1())
			} else {
				sb.WriteString(p.sp())
			}
			sb.WriteString(p.expr(e, level+1, multi))
			if i < len(v.Seq)-1 {
				sb.WriteString(p.sp() + ",")
			} else if p.coin(3) {
				sb.WriteString(",") // trailing comma
			}
		}
		if ml {
			if p.coin(4) {
				sb.WriteString(p.sp() + "# end")
			}
			sb.WriteString(p.nl + p.indent(level))
		} else {
			sb.WriteString(p.sp())
		}
		sb.WriteString("]")
		return sb.String()
	case "obj":
		if len(v.Keys) == 0 {
			return "{}"
		}
		ml := multi && p.coin(3)
		var sb strings.Builder
		sb.WriteString("{")
		for i, k := range v.Keys {
			if ml {
				sb.WriteString(p.nl + p.indent(level+1))
			} else {
				sb.WriteString(p.sp1())
			}
			if bareOK(k) && !(p.fancy && p.r.Intn(3) == 0) {
				sb.WriteString(k)
			} else {
				sb.WriteString(p.quoted(k))
			}
			if p.coin(3) {
				sb.WriteString(p.sp() + ":" + p.sp())
			} else {
				sb.WriteString(p.sp1() + "=" + p.sp1())
			}
			sb.WriteString(p.expr(v.Vals[i], level+1, multi))
			if i < len(v.Keys)-1 {
				if !ml || p.coin(2) {
					sb.WriteString(p.sp() + ",")
				}
			} else if p.coin(4) {
				sb.WriteString(",")
			}
		}
		if ml {
			sb.WriteString(p.nl + p.indent(level))
		} else {
			sb.WriteString(p.sp1())
		}
		sb.WriteString("}")
		return sb.String()
	}
	panic("c19: native printer: unknown value kind " + v.K)
}
