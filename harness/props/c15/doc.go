// Package c15 holds the workload and monitor for property C15 (see /verif/DESIGN.md §3):
// "The SOCKS5 and port-forward relays speak the protocol and move bytes intact".
//
//	model.go     RFC 1928 reference model: pure function of the client byte prefix
//	refagent.go  reference Demon for COMMAND_SOCKET (task decoder, callbacks), counter payloads
//	env.go       rig, operator commands, lanes (one agent + one proxy + one goroutine), socket helpers,
//	             the job-queue fence (keeps C04's unlocked queue from drowning the observations)
//	stream.go    one client stream: handshake (lock-step / cut / truncated / pipelined), outcome,
//	             relay both ways, close from either side
//	scen.go      scripted multi-socket, reverse-port-forward and operator (add/list/kill/clear) scenarios
//	conc.go      16 clients x agent callbacks x operators x forwards on one agent's tables
//	gen.go       the case lists per tier (exhaustive handshake space + seeded random parts)
//	c15.go       phases, confirmation of deterministic findings, isolated re-runs of
//	             missing-progress candidates, replay
//
// Environment knobs (development only): C15_ONLY=class[,class] restricts the case list,
// C15_BOUND_MS overrides the progress bound, C15_DEBUG=1 logs candidates and concurrent
// scenarios to the worker log, C15_NO_QUEUE_FENCE=1 switches the job-queue fence off.
package c15
