// Package c15 holds the workload and monitor for property C15 (see /verif/DESIGN.md §3).
package c15
