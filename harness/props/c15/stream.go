package c15

// One SOCKS client stream against a real proxy: handshake (lock-step or pipelined, cut
// into chunks, possibly truncated), the agent's outcome, the relay in both directions and
// the close, each step judged against the reference model.

import (
	"bytes"
	"fmt"
	"net"
	"time"
)

type StreamCase struct {
	Ver     byte   `json:"ver"`
	Methods []byte `json:"methods"`
	Cmd     byte   `json:"cmd"`
	Atyp    byte   `json:"atyp"`
	Addr    []byte `json:"addr"` // address bytes (domain: without the length octet; undefined ATYP: filler)
	Port    uint16 `json:"port"`

	GCut  []int `json:"gcut,omitempty"` // cut offsets inside the greeting
	RCut  []int `json:"rcut,omitempty"` // cut offsets inside the request
	GapMs int   `json:"gap_ms,omitempty"`
	Trunc int   `json:"trunc"` // -1: whole handshake; else the client closes after this many handshake bytes
	Pipe  int   `json:"pipe,omitempty"`
	// 0 lock-step; 1 greeting+request in one segment; 2 request+first payload in one segment

	Success bool   `json:"success"`
	ErrCode uint32 `json:"err_code,omitempty"`

	C2A        []int  `json:"c2a,omitempty"` // sizes of the client's writes once connected
	A2C        []int  `json:"a2c,omitempty"` // sizes of the agent's reads (READ callbacks)
	RelayGapMs int    `json:"relay_gap_ms,omitempty"`
	Interleave bool   `json:"interleave,omitempty"`
	Close      string `json:"close,omitempty"` // agent | fin | rst | early-fin | early-rst
}

func (sc *StreamCase) greeting() []byte {
	return append([]byte{sc.Ver, byte(len(sc.Methods))}, sc.Methods...)
}

func (sc *StreamCase) request() []byte {
	r := []byte{socksVer, sc.Cmd, 0x00, sc.Atyp}
	if sc.Atyp == atypDom {
		r = append(r, byte(len(sc.Addr)))
	}
	r = append(r, sc.Addr...)
	return append(r, byte(sc.Port>>8), byte(sc.Port))
}

// cutsInsideAddress: does a cut separate two bytes of the address field?
func (sc *StreamCase) cutsInsideAddress() bool {
	start := 4
	if sc.Atyp == atypDom {
		start = 5
	}
	end := start + len(sc.Addr)
	for _, k := range sc.RCut {
		if k > start && k < end {
			return true
		}
	}
	return false
}

func (sc *StreamCase) key() string {
	return fmt.Sprintf("S|%d|%x|%d|%d|%x|%d|%v|%v|%d|%d|%d|%v|%d|%v|%v|%v|%s", sc.Ver, sc.Methods, sc.Cmd, sc.Atyp, sc.Addr, sc.Port,
		sc.GCut, sc.RCut, sc.GapMs, sc.Trunc, sc.Pipe, sc.Success, sc.ErrCode, sc.C2A, sc.A2C, sc.Interleave, sc.Close)
}

// sock is a client connection that got through the handshake.
type sock struct {
	conn   *net.TCPConn
	id     uint32
	want   ConnTask
	rd     *clientReader
	tagC   byte   // counter tag of the client->agent stream
	tagA   byte   // counter tag of the agent->client stream
	sentC  int    // client->agent bytes written
	gotC   []byte // client->agent bytes seen in write tasks
	sentA  []int  // agent->client read sizes sent so far
	totalA int
	closed bool // the harness closed / resolved it
}

// collectWrites moves write tasks for this socket from the inbox to gotC, in task order.
func (ln *lane) collectWrites(s *sock) {
	for {
		t, ok := ln.take(func(t *sockTask) bool { return t.Sub == subWrite && t.ID == s.id })
		if !ok {
			return
		}
		s.gotC = append(s.gotC, t.Data...)
	}
}

// strayWrite: a write task for a socket id nobody has.
func (ln *lane) strayWrite(known map[uint32]bool) *finding {
	for _, t := range ln.inbox {
		if t.Sub == subWrite && !known[t.ID] {
			return fnd("relay:c2a:wrong-socket-id", fmt.Sprintf("write task carries socket id %08x which no connected client has", t.ID),
				"task", t.String(), "known_ids", fmt.Sprint(known))
		}
	}
	return nil
}

// handshake drives the negotiation and the request. On success it returns a sock that is
// connected (success reply read). done=true means the stream ended here by design
// (refusal, truncation, failure outcome) and was judged.
func (ln *lane) handshake(sc *StreamCase, bound time.Duration, obs map[string]any) (s *sock, f *finding) {
	G, R := sc.greeting(), sc.request()
	full := append(append([]byte{}, G...), R...)
	truncated := sc.Trunc >= 0 && sc.Trunc < len(full)
	if truncated {
		if sc.Trunc < len(G) {
			G, R = G[:sc.Trunc], nil
		} else {
			R = R[:sc.Trunc-len(G)]
		}
	}
	gap := time.Duration(sc.GapMs) * time.Millisecond
	conn, err := dialProxy(ln.port)
	if err != nil {
		return nil, fnd("infra:dial", "cannot connect to the proxy: "+err.Error())
	}
	ok := false
	defer func() {
		if !ok {
			conn.Close()
		}
	}()
	var sent []byte

	// the close of a truncated stream, and what must (not) be there afterwards
	finishQuiet := func(why string) *finding {
		stray, _ := readIdle(conn, 3*time.Millisecond, 1024)
		conn.Close()
		time.Sleep(3 * time.Millisecond)
		if pf, _ := ln.poll(); pf != nil {
			return pf
		}
		if t, got := ln.take(func(t *sockTask) bool { return t.Sub == subConnect }); got {
			ln.resolve(t.ID)
			return fnd("connect-task:premature", "a connect task was queued although "+why, "task", t.String(), "client_bytes", fmt.Sprintf("%x", clip(sent, 64)))
		}
		if len(stray) > 0 {
			p := Parse(sent)
			if p.Proceeds() {
				if okay, _ := AcceptRefusal(&p, stray); okay {
					return nil // an early, well-formed refusal is the server's right
				}
			}
			return fnd("reply:unsolicited", "the proxy sent bytes although "+why, "bytes", fmt.Sprintf("%x", clip(stray, 64)), "client_bytes", fmt.Sprintf("%x", clip(sent, 64)))
		}
		return nil
	}

	if sc.Pipe == 1 {
		// greeting and request in one segment: counted, never a verdict (DESIGN C15)
		if err := sendCut(conn, full, nil, 0); err != nil {
			return nil, fnd("infra:write", err.Error())
		}
		sent = full
	} else {
		if err := sendCut(conn, G, sc.GCut, gap); err != nil {
			return nil, fnd("infra:write", err.Error())
		}
		sent = append(sent, G...)
	}
	p := Parse(sent)
	mr, mok := p.MethodReply()
	if !mok {
		why := "the greeting is incomplete"
		if p.GreetComplete {
			why = fmt.Sprintf("the greeting has version %d", p.GVer)
		}
		return nil, finishQuiet(why)
	}
	got, rerr := readUpTo(conn, 2, bound)
	obs["method_reply"] = fmt.Sprintf("%x", got)
	if !bytes.Equal(got, mr) {
		if len(got) == 0 && isTimeout(rerr) {
			return nil, progress("negotiation:no-reply", fmt.Sprintf("no method selection within %v for methods %x", bound, sc.Methods), "want", fmt.Sprintf("%x", mr))
		}
		return nil, fnd("negotiation:method-selection", fmt.Sprintf("methods %x: selection message %x, RFC 1928 §3 requires %x", sc.Methods, got, mr),
			"want", fmt.Sprintf("%x", mr), "got", fmt.Sprintf("%x", got), "read_error", fmt.Sprint(rerr))
	}
	if mr[1] == methNone {
		// refused: whatever the client says next must have no effect
		if sc.Pipe == 0 && len(R) > 0 {
			sendCut(conn, R, sc.RCut, gap)
			sent = append(sent, R...)
		}
		return nil, finishQuiet("no acceptable method was offered (X'FF' selected)")
	}
	if sc.Pipe != 1 {
		msg := R
		if sc.Pipe == 2 && !truncated {
			// request and the first payload chunk in one segment (counted only)
			n := 64
			if len(sc.C2A) > 0 {
				n = sc.C2A[0]
			}
			msg = append(append([]byte{}, R...), payload(0xC0, 0, n)...)
		}
		if err := sendCut(conn, msg, sc.RCut, gap); err != nil {
			return nil, fnd("infra:write", err.Error())
		}
		sent = append(sent, msg...)
	}
	p = Parse(sent)
	if truncated {
		return nil, finishQuiet(fmt.Sprintf("the client closed after %d of %d handshake bytes", sc.Trunc, len(full)))
	}
	want, wants := p.WantsConnect()
	if !wants {
		// refusal expected: command not supported / address type not supported
		var reply []byte
		if p.AtypValid {
			hdr, herr := readUpTo(conn, 4, bound)
			reply = hdr
			if len(hdr) == 4 {
				n := -1
				switch hdr[3] {
				case atypV4:
					n = 6
				case atypV6:
					n = 18
				case atypDom:
					l, _ := readUpTo(conn, 1, bound)
					reply = append(reply, l...)
					if len(l) == 1 {
						n = int(l[0]) + 2
					}
				}
				if n > 0 {
					rest, _ := readUpTo(conn, n, bound)
					reply = append(reply, rest...)
				}
			} else if len(hdr) == 0 && isTimeout(herr) {
				pf, _ := ln.poll()
				if pf != nil {
					return nil, pf
				}
				if t, got := ln.take(func(t *sockTask) bool { return t.Sub == subConnect }); got {
					ln.resolve(t.ID)
					return nil, fnd("request:non-connect-command-served", fmt.Sprintf("command %d was passed to the agent as a connect", sc.Cmd), "task", t.String())
				}
				return nil, progress("request:no-refusal", fmt.Sprintf("no reply within %v to command %d", bound, sc.Cmd))
			}
		} else {
			reply, _ = readIdle(conn, 15*time.Millisecond, 1024)
		}
		obs["refusal"] = fmt.Sprintf("%x", clip(reply, 300))
		pf, _ := ln.poll()
		if pf != nil {
			return nil, pf
		}
		if t, got := ln.take(func(t *sockTask) bool { return t.Sub == subConnect }); got {
			ln.resolve(t.ID)
			sig := "request:non-connect-command-served"
			if sc.Cmd == cmdConnect {
				sig = "request:undefined-address-type-served"
			}
			return nil, fnd(sig, fmt.Sprintf("command %d / address type %d was passed to the agent as a connect", sc.Cmd, sc.Atyp), "task", t.String(), "reply", fmt.Sprintf("%x", clip(reply, 64)))
		}
		if okay, why := AcceptRefusal(&p, reply); !okay {
			return nil, fnd("request:refusal-reply", fmt.Sprintf("command %d, address type %d: %s", sc.Cmd, sc.Atyp, why), "reply", fmt.Sprintf("%x", clip(reply, 300)))
		}
		conn.Close()
		return nil, nil
	}

	// a CONNECT the agent must hear about, with exactly the request's fields
	t, haveTask, pf := ln.waitTask(bound, func(t *sockTask) bool { return t.Sub == subConnect })
	if pf != nil {
		return nil, pf
	}
	if !haveTask {
		stray, _ := readIdle(conn, time.Millisecond, 1024)
		sig := "connect-task:missing"
		if sc.cutsInsideAddress() {
			sig = "connect-task:missing:request-segmented-inside-address"
		}
		return nil, progress(sig, fmt.Sprintf("no connect task within %v after a complete CONNECT request (atyp %d, %d address bytes, cuts %v)", bound, sc.Atyp, len(sc.Addr), sc.RCut),
			"server_bytes_instead", fmt.Sprintf("%x", stray))
	}
	obs["connect_task"] = t.String()
	s = &sock{conn: conn, id: t.ID, want: want, tagC: 0xC1, tagA: 0xA1}
	bad := func(sig, what string) (*sock, *finding) {
		ln.resolve(t.ID)
		return nil, fnd(sig, what, "want", fmt.Sprintf("atyp=%d addr=%x port=%d", want.Atyp, want.Addr, want.Port), "task", t.String(), "task_body", fmt.Sprintf("%x", clip(t.Raw, 300)))
	}
	switch {
	case t.Bad:
		return bad("connect-task:malformed", "the connect task is shorter than the fields the Demon reads (id, atyp, address, port)")
	case t.Atyp != want.Atyp:
		return bad("connect-task:address-type", fmt.Sprintf("connect task has address type %d, the request had %d", t.Atyp, want.Atyp))
	case !bytes.Equal(t.Addr, want.Addr):
		if len(t.Addr) != len(want.Addr) {
			return bad("connect-task:address-length", fmt.Sprintf("connect task has %d address bytes, the request had %d", len(t.Addr), len(want.Addr)))
		}
		return bad("connect-task:address", fmt.Sprintf("connect task address %x differs from the request's %x", clip(t.Addr, 32), clip(want.Addr, 32)))
	case t.Port != want.Port:
		sig := "connect-task:port"
		if t.Port == want.Port>>8|want.Port<<8 {
			sig = "connect-task:port-byte-order"
		}
		return bad(sig, fmt.Sprintf("connect task has port %d, the request had %d", t.Port, want.Port))
	case t.Tail != 0:
		return bad("connect-task:trailing-bytes", fmt.Sprintf("%d bytes follow the port in the connect task", t.Tail))
	}
	if dup, has := ln.take(func(x *sockTask) bool { return x.Sub == subConnect }); has {
		ln.resolve(dup.ID)
		return bad("connect-task:duplicate", "two connect tasks for one request: "+dup.String())
	}

	// the client may go away before the agent answers
	if sc.Close == "early-fin" || sc.Close == "early-rst" {
		if sc.Close == "early-rst" {
			conn.SetLinger(0)
		}
		conn.Close()
		time.Sleep(2 * time.Millisecond)
		if pf, _ := ln.poll(cbConnect(sc.Success, s.id, sc.ErrCode)); pf != nil {
			return nil, pf
		}
		s.closed = true
		return s, nil
	}

	// agent outcome, then the reply
	if pf, _ := ln.poll(cbConnect(sc.Success, s.id, sc.ErrCode)); pf != nil {
		return nil, pf
	}
	wantLen := ReplyLenFor(want)
	reply, rerr := readUpTo(conn, wantLen, bound)
	obs["reply"] = fmt.Sprintf("%x", clip(reply, 300))
	kind := "success"
	if !sc.Success {
		kind = "failure"
	}
	if len(reply) == 0 && isTimeout(rerr) {
		ln.resolve(s.id)
		return nil, progress("reply:"+kind+":missing", fmt.Sprintf("no %s reply within %v after the agent's connect callback", kind, bound))
	}
	exp := Reply(RepFor(sc.Success, sc.ErrCode)[0], want.Atyp, want.Addr, want.Port)
	if len(reply) < wantLen && bytes.Equal(reply, exp[:len(reply)]) && isTimeout(rerr) {
		ln.resolve(s.id)
		return nil, progress("reply:"+kind+":short", fmt.Sprintf("only %d of %d reply bytes within %v", len(reply), wantLen, bound), "got", fmt.Sprintf("%x", clip(reply, 300)))
	}
	if field, detail := CheckConnectReply(want, sc.Success, sc.ErrCode, reply); field != "" {
		ln.resolve(s.id)
		return nil, fnd("reply:"+kind+":"+field, fmt.Sprintf("%s reply for atyp %d: %s", kind, want.Atyp, detail),
			"want", fmt.Sprintf("%x", clip(exp, 300)), "got", fmt.Sprintf("%x", clip(reply, 300)))
	}
	if !sc.Success {
		// the socket must be gone on both sides: table entry and TCP connection (§6)
		extra, closed := readIdle(conn, bound, 64)
		conn.Close()
		if len(extra) > 0 {
			ln.resolve(s.id)
			return nil, fnd("reply:failure:trailing-bytes", "bytes follow the failure reply", "bytes", fmt.Sprintf("%x", extra))
		}
		if !closed {
			ln.resolve(s.id)
			return nil, progress("close:connect-failure:client-connection-left-open", fmt.Sprintf("the proxy did not close the client connection within %v after a failure reply", bound))
		}
		if ln.ag.hasSocksCli(s.id) {
			ln.resolve(s.id)
			return nil, fnd("close:connect-failure:entry-left", fmt.Sprintf("socket %08x is still in the client table after a failed connect", s.id))
		}
		s.closed = true
		return s, nil
	}
	s.rd = startReader(conn)
	ok = true
	return s, nil
}

// resolve makes sure nothing of a socket stays behind in the teamserver whatever state the
// case ended in: an agent-side close removes the entry and ends the relay goroutine.
func (ln *lane) resolve(id uint32) {
	ln.lateClose[id] = true
	if ln.ag.hasSocksCli(id) {
		ln.poll(cbClose(id, typeProxy))
	}
}

func clip(b []byte, n int) []byte {
	if len(b) > n {
		return b[:n]
	}
	return b
}

// c2a: the client writes chunks, the agent must receive exactly these bytes in write tasks
// with this socket's id.
func (ln *lane) c2a(s *sock, sizes []int, gap time.Duration, bound time.Duration) *finding {
	for i, n := range sizes {
		if i > 0 && gap > 0 {
			time.Sleep(gap)
		}
		s.conn.SetWriteDeadline(time.Now().Add(bound * 5))
		if _, err := s.conn.Write(payload(s.tagC, s.sentC, n)); err != nil {
			return fnd("relay:c2a:client-write-failed", "the client could not write its payload: "+err.Error(), "offset", s.sentC)
		}
		s.sentC += n
	}
	return ln.awaitC2A(s, bound)
}

func (ln *lane) awaitC2A(s *sock, bound time.Duration) *finding {
	deadline := time.Now().Add(bound)
	last := -1
	sleep := 200 * time.Microsecond
	for {
		if pf, _ := ln.poll(); pf != nil {
			return pf
		}
		ln.collectWrites(s)
		if f := ln.strayWrite(map[uint32]bool{s.id: true}); f != nil {
			return f
		}
		if len(s.gotC) != last {
			last = len(s.gotC)
			deadline = time.Now().Add(bound) // progress: the bound is on silence, not on volume
			if f := checkC2A(s, false); f != nil {
				return f
			}
		}
		if len(s.gotC) >= s.sentC {
			return checkC2A(s, true)
		}
		if time.Now().After(deadline) {
			return checkC2A(s, true)
		}
		time.Sleep(sleep)
		if sleep < 2*time.Millisecond {
			sleep *= 2
		}
	}
}

func checkC2A(s *sock, final bool) *finding {
	want := payload(s.tagC, 0, s.sentC)
	class, at, detail := diffStream(want, s.gotC)
	switch class {
	case "":
		return nil
	case "short":
		if !final {
			return nil
		}
		return progress("relay:c2a:short", fmt.Sprintf("client wrote %d bytes, write tasks carried %d within the bound", s.sentC, len(s.gotC)), "detail", detail)
	}
	return fnd("relay:c2a:"+class, fmt.Sprintf("client->agent stream of socket %08x: %s", s.id, detail), "offset", at, "sent", s.sentC, "received", len(s.gotC))
}

// a2c: READ callbacks, the client must receive exactly these bytes.
func (ln *lane) a2c(s *sock, sizes []int, bound time.Duration) *finding {
	for _, n := range sizes {
		if pf, _ := ln.poll(cbRead(s.id, typeProxy, payload(s.tagA, s.totalA, n))); pf != nil {
			return pf
		}
		s.totalA += n
		s.sentA = append(s.sentA, n)
	}
	return ln.awaitA2C(s, bound)
}

func (ln *lane) awaitA2C(s *sock, bound time.Duration) *finding {
	s.rd.waitLen(s.totalA, bound)
	got := s.rd.snapshot()
	want := payload(s.tagA, 0, s.totalA)
	class, at, detail := diffStream(want, got)
	if class == "" {
		return nil
	}
	// is the whole difference explained by reads of 1..3 bytes that vanished?
	var without []byte
	off := 0
	small := 0
	for _, n := range s.sentA {
		if n > 3 {
			without = append(without, want[off:off+n]...)
		} else {
			small++
		}
		off += n
	}
	if small > 0 && bytes.Equal(got, without) {
		return fnd("relay:a2c:lost:reads-of-1-to-3-bytes", fmt.Sprintf("agent->client: every READ callback carrying 1..3 bytes (%d of %d) was dropped, the rest arrived intact", small, len(s.sentA)),
			"read_sizes", clipInts(s.sentA, 40), "sent", s.totalA, "received", len(got))
	}
	if class == "short" {
		return progress("relay:a2c:short", fmt.Sprintf("agent sent %d bytes, the client received %d within the bound", s.totalA, len(got)), "detail", detail, "read_sizes", clipInts(s.sentA, 40))
	}
	return fnd("relay:a2c:"+class, fmt.Sprintf("agent->client stream of socket %08x: %s", s.id, detail), "offset", at, "sent", s.totalA, "received", len(got), "read_sizes", clipInts(s.sentA, 40))
}

func clipInts(v []int, n int) []int {
	if len(v) > n {
		return v[:n]
	}
	return v
}

// closeSock closes one side and checks that the other side and the table follow.
func (ln *lane) closeSock(s *sock, kind string, bound time.Duration) *finding {
	defer func() {
		s.closed = true
		s.conn.Close()
		ln.resolve(s.id)
	}()
	switch kind {
	case "fin", "rst":
		if kind == "rst" {
			s.conn.SetLinger(0)
		}
		s.conn.Close()
		_, got, pf := ln.waitTask(bound, func(t *sockTask) bool { return t.Sub == subClose && t.ID == s.id })
		if pf != nil {
			return pf
		}
		left := ln.ag.hasSocksCli(s.id)
		if !got {
			// a close task for another id instead?
			if t, other := ln.take(func(t *sockTask) bool { return t.Sub == subClose }); other {
				return fnd("close:client-"+kind+":wrong-socket-id", fmt.Sprintf("close task names socket %08x, the client that closed was %08x", t.ID, s.id))
			}
			return progress("close:client-"+kind+":not-propagated", fmt.Sprintf("the client closed its connection (%s); within %v no close task was queued for the agent (table entry still present: %v)", kind, bound, left))
		}
		if left {
			return fnd("close:client-"+kind+":entry-left", fmt.Sprintf("close task queued but socket %08x is still in the client table", s.id))
		}
		return nil
	default: // agent
		if pf, _ := ln.poll(cbClose(s.id, typeProxy)); pf != nil {
			return pf
		}
		if ln.ag.hasSocksCli(s.id) {
			return fnd("close:agent:entry-left", fmt.Sprintf("socket %08x is still in the client table after the agent's close callback", s.id), "table", fmt.Sprintf("%08x", ln.ag.socksCliIDs()))
		}
		if !s.rd.waitDone(bound) {
			return progress("close:agent:client-connection-left-open", fmt.Sprintf("the client connection was not closed within %v after the agent's close callback", bound))
		}
		return nil
	}
}

// earlyCloseCheck: the client left before the agent answered; whatever the outcome the
// socket must not stay behind.
func (ln *lane) earlyCloseCheck(s *sock, sc *StreamCase, bound time.Duration) *finding {
	defer ln.resolve(s.id)
	if !sc.Success {
		if ln.ag.hasSocksCli(s.id) {
			return fnd("close:connect-failure:entry-left", fmt.Sprintf("socket %08x is still in the client table after a failed connect", s.id))
		}
		return nil
	}
	_, got, pf := ln.waitTask(bound, func(t *sockTask) bool { return t.Sub == subClose && t.ID == s.id })
	if pf != nil {
		return pf
	}
	if !got {
		return progress("close:client-"+sc.Close[6:]+"-before-outcome:not-propagated",
			fmt.Sprintf("the client closed (%s) before the agent reported a successful connect; within %v no close task was queued (table entry still present: %v)", sc.Close, bound, ln.ag.hasSocksCli(s.id)))
	}
	if ln.ag.hasSocksCli(s.id) {
		return fnd("close:client-"+sc.Close[6:]+"-before-outcome:entry-left", "close task queued but the table entry stayed")
	}
	return nil
}

// runStream executes one stream case on this lane.
func (ln *lane) runStream(sc *StreamCase, bound time.Duration) (f *finding, obs map[string]any) {
	obs = map[string]any{}
	s, f := ln.handshake(sc, bound, obs)
	if f == nil && s != nil && (sc.Close == "early-fin" || sc.Close == "early-rst") {
		f = ln.earlyCloseCheck(s, sc, bound)
	}
	if f == nil && s != nil && !s.closed {
		gap := time.Duration(sc.RelayGapMs) * time.Millisecond
		if sc.Pipe == 2 {
			// the first chunk travelled with the request
			n := 64
			if len(sc.C2A) > 0 {
				n = sc.C2A[0]
			}
			s.tagC = 0xC0
			s.sentC = n
			f = ln.awaitC2A(s, bound)
		} else if sc.Interleave {
			n := len(sc.C2A)
			if len(sc.A2C) > n {
				n = len(sc.A2C)
			}
			for i := 0; i < n && f == nil; i++ {
				if i < len(sc.C2A) {
					f = ln.c2a(s, sc.C2A[i:i+1], 0, bound)
				}
				if f == nil && i < len(sc.A2C) {
					f = ln.a2c(s, sc.A2C[i:i+1], bound)
				}
			}
		} else {
			if len(sc.C2A) > 0 {
				f = ln.c2a(s, sc.C2A, gap, bound)
			}
			if f == nil && len(sc.A2C) > 0 {
				f = ln.a2c(s, sc.A2C, bound)
			}
		}
		if f == nil {
			// nothing unsolicited may have reached the client
			if f2 := ln.awaitA2C(s, time.Millisecond); f2 != nil && !f2.Progress {
				f = f2
			}
		}
		if f == nil {
			f = ln.closeSock(s, sc.Close, bound)
		} else {
			s.conn.Close()
			ln.resolve(s.id)
		}
	}
	if s != nil {
		obs["socket_id"] = fmt.Sprintf("%08x", s.id)
		ln.lateClose[s.id] = true
	}
	if f == nil {
		if pf, _ := ln.poll(); pf != nil {
			f = pf
		} else if left := ln.leftovers(); len(left) > 0 {
			f = fnd("task:unexpected", "tasks nobody asked for were queued for the agent", "tasks", left)
		}
	} else {
		ln.poll()
		ln.inbox = nil
	}
	return f, obs
}
