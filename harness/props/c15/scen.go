package c15

// Deterministic multi-step scenarios: several sockets of one agent driven one step at a
// time (routing by socket id, close removes exactly the closed socket), reverse port
// forwards against a harness TCP server, and the operator's socks add/list/kill/clear.

import (
	"bytes"
	"fmt"
	"io"
	"math/rand"
	"net"
	"strconv"
	"strings"
	"sync"
	"time"

	"verifh/lib"
)

// ---------------- multi-socket ----------------

type MultiCase struct {
	K     int   `json:"k"`
	Seed  int64 `json:"seed"`
	Steps int   `json:"steps"`
}

func (m *MultiCase) key() string { return fmt.Sprintf("M|%d|%d|%d", m.K, m.Seed, m.Steps) }

func (ln *lane) connectPlain(salt int, bound time.Duration) (*sock, *finding) {
	sc := base(addrKinds[salt%6], salt)
	s, f := ln.handshake(&sc, bound, map[string]any{})
	if f != nil {
		return nil, f
	}
	if s == nil || s.rd == nil {
		return nil, fnd("infra:multi-connect", "plain CONNECT did not yield a connected socket")
	}
	s.tagC = byte(0x40 + salt%0x3f)
	s.tagA = byte(0x80 + salt%0x3f)
	return s, nil
}

func (ln *lane) runMulti(m *MultiCase, bound time.Duration) (f *finding, obs map[string]any) {
	obs = map[string]any{}
	rng := rand.New(rand.NewSource(m.Seed))
	var socks []*sock
	var script []string
	defer func() {
		for _, s := range socks {
			s.conn.Close()
			ln.resolve(s.id)
		}
		ln.poll()
		ln.inbox = nil
		obs["script"] = script
	}()
	salt := int(m.Seed % 1000)
	if salt < 0 {
		salt = -salt
	}
	for i := 0; i < m.K; i++ {
		salt++
		s, f := ln.connectPlain(salt, bound)
		if f != nil {
			return f, obs
		}
		socks = append(socks, s)
		script = append(script, fmt.Sprintf("connect #%d id=%08x", i, s.id))
	}
	known := func() map[uint32]bool {
		k := map[uint32]bool{}
		for _, s := range socks {
			k[s.id] = true
		}
		return k
	}
	// every other socket must be untouched by what happened to one of them
	othersIntact := func(except *sock, after string) *finding {
		ids := ln.ag.socksCliIDs()
		have := map[uint32]bool{}
		for _, id := range ids {
			have[id] = true
		}
		for _, s := range socks {
			if s == except {
				continue
			}
			if !have[s.id] {
				return fnd("tables:wrong-socket-removed", fmt.Sprintf("after %s socket %08x is gone from the client table although it was not closed", after, s.id), "table", fmt.Sprintf("%08x", ids), "script", script)
			}
			if got := s.rd.snapshot(); len(got) != s.totalA {
				class, at, detail := diffStream(payload(s.tagA, 0, s.totalA), got)
				return fnd("relay:a2c:wrong-client", fmt.Sprintf("after %s client %08x holds bytes it was never sent (%s at %d: %s)", after, s.id, class, at, detail), "script", script)
			}
			select {
			case <-s.rd.done:
				return fnd("close:wrong-client-closed", fmt.Sprintf("after %s the connection of client %08x was closed although only another socket was closed", after, s.id), "script", script)
			default:
			}
		}
		if except != nil && have[except.id] {
			return nil // judged by the caller
		}
		return nil
	}
	for step := 0; step < m.Steps; step++ {
		if len(socks) == 0 {
			break
		}
		i := rng.Intn(len(socks))
		s := socks[i]
		switch op := rng.Intn(10); {
		case op < 4:
			n := []int{1, 4, 5, 64, 1000, 70000}[rng.Intn(6)]
			script = append(script, fmt.Sprintf("c2a #%08x %d", s.id, n))
			s.conn.SetWriteDeadline(time.Now().Add(5 * bound))
			if _, err := s.conn.Write(payload(s.tagC, s.sentC, n)); err != nil {
				return fnd("relay:c2a:client-write-failed", err.Error(), "script", script), obs
			}
			s.sentC += n
			deadline := time.Now().Add(bound)
			for len(s.gotC) < s.sentC && time.Now().Before(deadline) {
				if pf, _ := ln.poll(); pf != nil {
					return pf, obs
				}
				ln.collectWrites(s)
				if f := ln.strayWrite(known()); f != nil {
					return f, obs
				}
				// a write task for another live socket is a routing error
				for _, o := range socks {
					if o != s {
						if t, bad := ln.take(func(t *sockTask) bool { return t.Sub == subWrite && t.ID == o.id }); bad {
							return fnd("relay:c2a:wrong-socket-id", fmt.Sprintf("client %08x wrote, the write task names socket %08x", s.id, t.ID), "script", script), obs
						}
					}
				}
				time.Sleep(300 * time.Microsecond)
			}
			if f := checkC2A(s, true); f != nil {
				f.Obs["script"] = script
				return f, obs
			}
		case op < 8:
			n := []int{4, 5, 8, 64, 1000, 70000}[rng.Intn(6)]
			script = append(script, fmt.Sprintf("a2c #%08x %d", s.id, n))
			if f := ln.a2c(s, []int{n}, bound); f != nil {
				// did the bytes go to somebody else?
				for _, o := range socks {
					if o != s && len(o.rd.snapshot()) != o.totalA {
						return fnd("relay:a2c:wrong-client", fmt.Sprintf("READ callback for socket %08x was written to client %08x", s.id, o.id), "script", script), obs
					}
				}
				f.Obs["script"] = script
				return f, obs
			}
			if f := othersIntact(s, "an agent read for "+fmt.Sprintf("%08x", s.id)); f != nil {
				return f, obs
			}
		default:
			kind := []string{"agent", "rst"}[rng.Intn(2)]
			script = append(script, fmt.Sprintf("close #%08x %s (table position %d of %d)", s.id, kind, indexOf(ln.ag.socksCliIDs(), s.id), len(socks)))
			socks = append(socks[:i], socks[i+1:]...)
			if f := ln.closeSock(s, kind, bound); f != nil {
				f.Obs["script"] = script
				return f, obs
			}
			if f := othersIntact(nil, "closing "+fmt.Sprintf("%08x", s.id)); f != nil {
				return f, obs
			}
			if rng.Intn(2) == 0 {
				salt++
				ns, f := ln.connectPlain(salt, bound)
				if f != nil {
					return f, obs
				}
				socks = append(socks, ns)
				script = append(script, fmt.Sprintf("connect id=%08x", ns.id))
			}
		}
	}
	for len(socks) > 0 {
		s := socks[0]
		socks = socks[1:]
		if f := ln.closeSock(s, "agent", bound); f != nil {
			return f, obs
		}
	}
	if ids := ln.ag.socksCliIDs(); len(ids) > 0 {
		return fnd("tables:leak:SocksCli", fmt.Sprintf("%d entries left in the client table after every socket was closed", len(ids)), "ids", fmt.Sprintf("%08x", ids), "script", script), obs
	}
	if pf, _ := ln.poll(); pf != nil {
		return pf, obs
	}
	if left := ln.leftovers(); len(left) > 0 {
		return fnd("task:unexpected", "tasks nobody asked for were queued for the agent", "tasks", left, "script", script), obs
	}
	return nil, obs
}

func indexOf(v []uint32, x uint32) int {
	for i, y := range v {
		if y == x {
			return i
		}
	}
	return -1
}

// ---------------- reverse port forward ----------------

type RportCase struct {
	Seed int64  `json:"seed"`
	A2T  []int  `json:"a2t"`  // sizes of the agent-side client's reads, relayed to the target
	T2A  []int  `json:"t2a"`  // sizes of the target's writes
	Mode string `json:"mode"` // half-close: the target ends its stream after writing; keep-open: it does not
}

func (r *RportCase) key() string { return fmt.Sprintf("R|%d|%v|%v|%s", r.Seed, r.A2T, r.T2A, r.Mode) }

// target is the only host reverse port forwards may dial: a loopback listener of the harness.
type target struct {
	l     net.Listener
	port  int
	mu    sync.Mutex
	conns []*targetConn
}

type targetConn struct {
	c    *net.TCPConn
	rd   *clientReader
	when time.Time
}

func newTarget() (*target, error) {
	l, err := net.Listen("tcp", "127.0.0.1:0")
	if err != nil {
		return nil, err
	}
	t := &target{l: l, port: l.Addr().(*net.TCPAddr).Port}
	go func() {
		for {
			c, err := l.Accept()
			if err != nil {
				return
			}
			tc := &targetConn{c: c.(*net.TCPConn), when: time.Now()}
			tc.rd = startReader(c)
			t.mu.Lock()
			t.conns = append(t.conns, tc)
			t.mu.Unlock()
		}
	}()
	return t, nil
}

func (t *target) close() {
	t.l.Close()
	t.mu.Lock()
	for _, c := range t.conns {
		c.c.Close()
	}
	t.mu.Unlock()
}

func (t *target) waitConn(n int, bound time.Duration) *targetConn {
	deadline := time.Now().Add(bound)
	for {
		t.mu.Lock()
		if len(t.conns) > n {
			c := t.conns[n]
			t.mu.Unlock()
			return c
		}
		t.mu.Unlock()
		if time.Now().After(deadline) {
			return nil
		}
		time.Sleep(300 * time.Microsecond)
	}
}

func (t *target) count() int {
	t.mu.Lock()
	defer t.mu.Unlock()
	return len(t.conns)
}

func leIP(a, b, c, d byte) uint32 { return uint32(a) | uint32(b)<<8 | uint32(c)<<16 | uint32(d)<<24 }

func (ln *lane) runRport(rc *RportCase, bound time.Duration) (f *finding, obs map[string]any) {
	obs = map[string]any{}
	tg, err := newTarget()
	if err != nil {
		return fnd("infra:target-listen", err.Error()), obs
	}
	defer tg.close()
	rng := rand.New(rand.NewSource(rc.Seed))
	lport := 20000 + rng.Intn(20000)
	listenID := rng.Uint32() | 1
	clientID := rng.Uint32() | 2
	defer func() {
		// whatever happened, leave no forward behind
		ln.poll(cbRportRemove(clientID, typeClient, leIP(127, 0, 0, 1), uint32(lport), leIP(127, 0, 0, 1), uint32(tg.port)))
		ln.inbox = nil
	}()

	// operator: rportfwd add <lcl>;<lport>;<fwd>;<fport>
	res := ln.e.operator(ln.ag, "rportfwd add", fmt.Sprintf("127.0.0.1;%d;127.0.0.1;%d", lport, tg.port), 10*time.Second)
	if res.Panic != nil {
		return fnd(lib.PanicSig(res.Panic, res.Stack), fmt.Sprintf("rportfwd add panicked: %v", res.Panic), "stack", res.Stack), obs
	}
	if res.TimedOut {
		return progress("operator:rportfwd-add:hung", "rportfwd add did not return within 10s"), obs
	}
	t, got, pf := ln.waitTask(bound, func(t *sockTask) bool { return t.Sub == subRportAdd })
	if pf != nil {
		return pf, obs
	}
	if !got {
		return progress("rportfwd:add-task-missing", "no rportfwd add task reached the agent"), obs
	}
	obs["add_task"] = fmt.Sprintf("lcl=%08x:%d fwd=%08x:%d", t.LclAddr, t.LclPort, t.FwdAddr, t.FwdPort)
	if t.Bad || t.LclAddr != leIP(127, 0, 0, 1) || t.FwdAddr != leIP(127, 0, 0, 1) || int(t.LclPort) != lport || int(t.FwdPort) != tg.port {
		return fnd("rportfwd:add-task-fields", fmt.Sprintf("rportfwd add 127.0.0.1;%d;127.0.0.1;%d reached the agent as lcl=%08x:%d fwd=%08x:%d", lport, tg.port, t.LclAddr, t.LclPort, t.FwdAddr, t.FwdPort)), obs
	}
	if rc.Mode == "reuse-after-refused" {
		// the same socket id had an earlier life: its target refused the connection, the agent
		// removed it. Nothing of that may be left when the id is used again below.
		dead, err := net.Listen("tcp", "127.0.0.1:0")
		if err != nil {
			return fnd("infra:target-listen", err.Error()), obs
		}
		deadPort := uint32(dead.Addr().(*net.TCPAddr).Port)
		dead.Close()
		if pf, _ := ln.poll(cbOpen(clientID, t.LclAddr, t.LclPort, t.FwdAddr, deadPort)); pf != nil {
			return pf, obs
		}
		if pf, _ := ln.poll(cbRead(clientID, typeClient, []byte("nobody-listens"))); pf != nil {
			return pf, obs
		}
		if pf, _ := ln.poll(cbRportRemove(clientID, typeClient, t.LclAddr, t.LclPort, t.FwdAddr, deadPort)); pf != nil {
			return pf, obs
		}
		if containsID(ln.ag.portFwdIDs(), clientID) {
			return fnd("rportfwd:remove:entry-left", "the forward whose target refused the connection is still in the table after the remove callback"), obs
		}
		ln.poll()
		ln.inbox = nil
		ln.e.c.Observe("rportfwd.socket-id-reused-after-a-refused-target", 1)
		rc = &RportCase{Seed: rc.Seed, A2T: rc.A2T, T2A: rc.T2A, Mode: "half-close"}
	}
	// the agent bound the port, then a client connected to it: OPEN carries what the task said
	if pf, _ := ln.poll(cbRportAdd(true, listenID, t.LclAddr, t.LclPort, t.FwdAddr, t.FwdPort), cbOpen(clientID, t.LclAddr, t.LclPort, t.FwdAddr, t.FwdPort)); pf != nil {
		return pf, obs
	}
	if !containsID(ln.ag.portFwdIDs(), clientID) {
		return fnd("rportfwd:open:no-entry", "OPEN callback did not create a forward entry"), obs
	}
	if tg.count() != 0 {
		return fnd("rportfwd:dialled-before-data", "the target was dialled before any data arrived"), obs
	}
	// agent -> target
	total := 0
	for _, n := range rc.A2T {
		if pf, _ := ln.poll(cbRead(clientID, typeClient, payload(0xB1, total, n))); pf != nil {
			return pf, obs
		}
		total += n
	}
	tc := tg.waitConn(0, bound)
	if tc == nil {
		return progress("rportfwd:target-not-dialled", fmt.Sprintf("READ callbacks for forward %08x carried %d bytes but the forward target 127.0.0.1:%d was not dialled within %v", clientID, total, tg.port, bound)), obs
	}
	tc.rd.waitLen(total, bound)
	gotT := tc.rd.snapshot()
	want := payload(0xB1, 0, total)
	if class, at, detail := diffStream(want, gotT); class != "" {
		var without []byte
		off, small := 0, 0
		for _, n := range rc.A2T {
			if n > 3 {
				without = append(without, want[off:off+n]...)
			} else {
				small++
			}
			off += n
		}
		if small > 0 && bytes.Equal(gotT, without) {
			return fnd("relay:a2c:lost:reads-of-1-to-3-bytes", fmt.Sprintf("agent->forward target: every READ callback carrying 1..3 bytes (%d of %d) was dropped", small, len(rc.A2T)), "read_sizes", clipInts(rc.A2T, 40)), obs
		}
		if class == "short" {
			return progress("rportfwd:a2t:short", fmt.Sprintf("agent sent %d bytes, the target received %d within the bound", total, len(gotT)), "detail", detail), obs
		}
		return fnd("rportfwd:a2t:"+class, "agent->target stream: "+detail, "offset", at), obs
	}
	if tg.count() != 1 {
		return fnd("rportfwd:dialled-twice", fmt.Sprintf("the target saw %d connections for one forward", tg.count())), obs
	}
	// target -> agent
	totalT := 0
	for _, n := range rc.T2A {
		tc.c.SetWriteDeadline(time.Now().Add(5 * bound))
		if _, err := tc.c.Write(payload(0xB2, totalT, n)); err != nil {
			return fnd("infra:target-write", err.Error()), obs
		}
		totalT += n
	}
	if rc.Mode == "half-close" {
		tc.c.CloseWrite()
	}
	var gotA []byte
	deadline := time.Now().Add(bound)
	last := -1
	for len(gotA) < totalT && time.Now().Before(deadline) {
		if pf, _ := ln.poll(); pf != nil {
			return pf, obs
		}
		for {
			wt, ok := ln.take(func(t *sockTask) bool { return t.Sub == subWrite })
			if !ok {
				break
			}
			if wt.ID != clientID {
				return fnd("rportfwd:t2a:wrong-socket-id", fmt.Sprintf("write task names socket %08x, the forward is %08x", wt.ID, clientID)), obs
			}
			gotA = append(gotA, wt.Data...)
		}
		if len(gotA) != last {
			last = len(gotA)
			deadline = time.Now().Add(bound)
		}
		time.Sleep(300 * time.Microsecond)
	}
	wantA := payload(0xB2, 0, totalT)
	if class, at, detail := diffStream(wantA, gotA); class != "" {
		if class == "short" {
			sig := "rportfwd:t2a:short"
			if rc.Mode == "keep-open" && len(gotA) == 0 {
				sig = "rportfwd:t2a:withheld-while-target-connection-open"
			}
			return progress(sig, fmt.Sprintf("the forward target wrote %d bytes (%s); %d reached the agent within %v", totalT, rc.Mode, len(gotA), bound), "detail", detail), obs
		}
		return fnd("rportfwd:t2a:"+class, "target->agent stream: "+detail, "offset", at), obs
	}
	// the agent-side client goes away: the forward is removed and the target connection closed
	if pf, _ := ln.poll(cbRportRemove(clientID, typeClient, t.LclAddr, t.LclPort, t.FwdAddr, t.FwdPort)); pf != nil {
		return pf, obs
	}
	if containsID(ln.ag.portFwdIDs(), clientID) {
		return fnd("rportfwd:remove:entry-left", "the forward is still in the table after the remove callback"), obs
	}
	if !tc.rd.waitDone(bound) {
		return progress("rportfwd:remove:target-connection-left-open", "the connection to the target was not closed after the remove callback"), obs
	}
	if pf, _ := ln.poll(); pf != nil {
		return pf, obs
	}
	if left := ln.leftovers(); len(left) > 0 {
		return fnd("task:unexpected", "tasks nobody asked for were queued for the agent", "tasks", left), obs
	}
	return nil, obs
}

func containsID(v []uint32, x uint32) bool { return indexOf(v, x) >= 0 }

// ---------------- operator commands ----------------

type OperCase struct {
	Op  string `json:"op"` // clear | kill | add-dup | kill-absent
	N   int    `json:"n"`  // proxies started first
	I   int    `json:"i"`  // which one is killed
	Rep int    `json:"rep"`
}

func (o *OperCase) key() string { return fmt.Sprintf("O|%s|%d|%d|%d", o.Op, o.N, o.I, o.Rep) }

func listening(port int) bool {
	c, err := net.DialTimeout("tcp", fmt.Sprintf("127.0.0.1:%d", port), time.Second)
	if err != nil {
		return false
	}
	// a closed listener's backlog may still complete the handshake: an accepted connection
	// answers a greeting, a dead one never does
	defer c.Close()
	c.Write([]byte{5, 1, 0})
	b, _ := readUpTo(c, 2, 300*time.Millisecond)
	return len(b) == 2
}

// runOper uses its own fresh agent: a command that panics may leave that agent's proxy
// mutex locked for good.
func (e *env) runOper(oc *OperCase, bound time.Duration) (f *finding, obs map[string]any) {
	obs = map[string]any{}
	ln, err := e.newLane("oper")
	if err != nil {
		return fnd("infra:register", err.Error()), obs
	}
	var ports []int
	var socks []*sock
	opWait := 5 * bound
	cleanup := func() {
		for _, s := range socks {
			s.conn.Close()
			ln.resolve(s.id)
		}
		if len(heldMutexes(ln.ag, 50*time.Millisecond)) == 0 {
			for _, p := range ports {
				e.operator(ln.ag, "socks kill", strconv.Itoa(p), opWait)
			}
		}
		ln.poll()
	}
	defer cleanup()
	for i := 0; i < oc.N; i++ {
		p, err := ln.addProxy()
		if err != nil {
			return fnd("infra:socks-add", err.Error()), obs
		}
		ports = append(ports, p)
		ln.port = p
		s, f := ln.connectPlain(100+i, bound)
		if f != nil {
			return f, obs
		}
		socks = append(socks, s)
	}
	obs["ports"] = ports
	if got := ln.ag.socksSvrAddrs(); len(got) != oc.N {
		return fnd("tables:SocksSvr:count", fmt.Sprintf("%d proxies started, table holds %v", oc.N, got)), obs
	}
	run := func(cmd, params string) *finding {
		res := e.operator(ln.ag, cmd, params, opWait)
		if res.Panic != nil {
			held := heldMutexes(ln.ag, 200*time.Millisecond)
			return fnd(lib.PanicSig(res.Panic, res.Stack), fmt.Sprintf("`%s %s` with %d proxies running panicked: %v; mutexes left locked: %v; proxy table afterwards: %v", cmd, params, oc.N, res.Panic, held, tableOrHeld(ln, held)),
				"stack", res.Stack, "held_mutexes", held)
		}
		if res.TimedOut {
			return progress("operator:"+strings.ReplaceAll(cmd, " ", "-")+":hung", fmt.Sprintf("`%s %s` did not return within %v", cmd, params, opWait), "held_mutexes", heldMutexes(ln.ag, 200*time.Millisecond))
		}
		if held := heldMutexes(ln.ag, 200*time.Millisecond); len(held) > 0 {
			return fnd("tables:mutex-held:"+strings.Join(held, "+"), fmt.Sprintf("after `%s %s` returned the table mutex stays locked", cmd, params))
		}
		return nil
	}
	// expectClosed: proxy i is gone with everything attached to it
	expectClosed := func(i int, why string) *finding {
		if listening(ports[i]) {
			return fnd("socks-"+oc.Op+":listener-still-open", fmt.Sprintf("after %s port %d still serves SOCKS clients", why, ports[i]))
		}
		s := socks[i]
		if ln.ag.hasSocksCli(s.id) {
			return fnd("socks-"+oc.Op+":client-entry-left", fmt.Sprintf("after %s the client %08x of the closed proxy is still in the client table", why, s.id))
		}
		if !s.rd.waitDone(bound) {
			return progress("socks-"+oc.Op+":client-connection-left-open", fmt.Sprintf("after %s the client connection of the closed proxy stays open", why))
		}
		if _, got, _ := ln.waitTask(bound, func(t *sockTask) bool { return t.Sub == subClose && t.ID == s.id }); !got {
			return progress("socks-"+oc.Op+":no-close-task", fmt.Sprintf("after %s no close task for client %08x of the closed proxy reached the agent", why, s.id))
		}
		return nil
	}
	expectAlive := func(i int, why string) *finding {
		s := socks[i]
		if !ln.ag.hasSocksCli(s.id) {
			return fnd("socks-"+oc.Op+":wrong-client-removed", fmt.Sprintf("after %s the client %08x of another proxy is gone from the client table", why, s.id))
		}
		if f := ln.a2c(s, []int{32}, bound); f != nil {
			return f
		}
		ln.port = ports[i]
		ns, f := ln.connectPlain(200+i, bound)
		if f != nil {
			f.What = "after " + why + " a proxy that was not killed stopped working: " + f.What
			return f
		}
		return ln.closeSock(ns, "agent", bound)
	}
	switch oc.Op {
	case "clear":
		if f := run("socks clear", ""); f != nil {
			return f, obs
		}
		if got := ln.ag.socksSvrAddrs(); len(got) != 0 {
			return fnd("socks-clear:proxies-left", fmt.Sprintf("socks clear with %d proxies left %v in the proxy table", oc.N, got)), obs
		}
		for i := range ports {
			if f := expectClosed(i, "socks clear"); f != nil {
				return f, obs
			}
		}
		ports = nil
	case "kill":
		if f := run("socks kill", strconv.Itoa(ports[oc.I])); f != nil {
			return f, obs
		}
		want := []string{}
		for i, p := range ports {
			if i != oc.I {
				want = append(want, strconv.Itoa(p))
			}
		}
		if got := ln.ag.socksSvrAddrs(); strings.Join(got, ",") != strings.Join(want, ",") {
			return fnd("socks-kill:table", fmt.Sprintf("killed proxy %d of %v, table now %v, want %v", oc.I, ports, got, want)), obs
		}
		if f := expectClosed(oc.I, "socks kill"); f != nil {
			return f, obs
		}
		for i := range ports {
			if i != oc.I {
				if f := expectAlive(i, "socks kill"); f != nil {
					return f, obs
				}
			}
		}
	case "add-dup":
		if f := run("socks add", strconv.Itoa(ports[0])); f != nil {
			return f, obs
		}
		if got := ln.ag.socksSvrAddrs(); len(got) != 1 {
			return fnd("socks-add:duplicate-entry", fmt.Sprintf("adding a proxy on a port that already has one changed the table to %v", got)), obs
		}
		if f := expectAlive(0, "a duplicate socks add"); f != nil {
			return f, obs
		}
	case "kill-absent":
		if f := run("socks kill", "1"); f != nil {
			return f, obs
		}
		if got := ln.ag.socksSvrAddrs(); len(got) != oc.N {
			return fnd("socks-kill:table", fmt.Sprintf("killing a proxy that does not exist changed the table to %v", got)), obs
		}
		for i := range ports {
			if f := expectAlive(i, "killing an unknown port"); f != nil {
				return f, obs
			}
		}
	}
	if f := run("socks list", ""); f != nil {
		return f, obs
	}
	return nil, obs
}

func tableOrHeld(ln *lane, held []string) string {
	for _, h := range held {
		if h == "SocksSvrMtx" {
			return "(unreadable: mutex held)"
		}
	}
	return fmt.Sprint(ln.ag.socksSvrAddrs())
}

var _ = io.EOF
