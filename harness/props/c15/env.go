package c15

// Environment shared by all scenarios of one worker: one assembled rig with one HTTP
// listener, reference agents registered through it, operator commands dispatched
// in-process, the lane abstraction (one agent + one proxy driven by one goroutine) and the
// low-level client socket helpers.

import (
	"bytes"
	"encoding/json"
	"errors"
	"fmt"
	"io"
	"net"
	"os"
	"runtime"
	"strconv"
	"sync"
	"sync/atomic"
	"time"

	"Havoc/pkg/handlers"
	"Havoc/pkg/packager"
	"Havoc/pkg/verifhook"

	"verifh/demon"
	"verifh/lib"
	"verifh/observe"
	"verifh/rig"
)

type finding struct {
	Sig      string         `json:"signature"`
	What     string         `json:"what"`
	Progress bool           `json:"progress_candidate,omitempty"` // "nothing happened within the bound": decided only by isolated re-runs
	Obs      map[string]any `json:"observed,omitempty"`
}

func fnd(sig, what string, kv ...any) *finding {
	f := &finding{Sig: sig, What: what, Obs: map[string]any{}}
	for i := 0; i+1 < len(kv); i += 2 {
		f.Obs[fmt.Sprint(kv[i])] = kv[i+1]
	}
	return f
}

func progress(sig, what string, kv ...any) *finding {
	f := fnd(sig, what, kv...)
	f.Progress = true
	return f
}

type env struct {
	c       *lib.Ctx
	r       *rig.Rig
	h       *handlers.HTTP
	nextID  atomic.Uint32
	portSeq  atomic.Uint32
	portBase uint32
	regMu    sync.Mutex
	taskSeq atomic.Uint32
	bound   time.Duration // primary progress bound
	curMu   sync.Mutex
	cur     map[string]json.RawMessage
}

// queueFence keeps accesses to Agent.JobQueue apart in time. The queue is not locked
// (property C04 owns that defect, DESIGN §4 #7) and with a dozen relay goroutines adding
// write tasks while the agent checks in, lost and repeated tasks would drown what this
// property is about. The two existing hook points sit immediately before the append in
// AddJobToQueue and before the write-back in GetQueuedJobs; the fence lets adders pass one
// at a time some tens of microseconds apart and keeps them out for a while once a write-back is
// imminent, which in turn waits until adders already past the hook are done. A thread
// descheduled exactly between hook and statement can still slip through: the scenarios
// compare the hook's add counter with the number of tasks delivered and attribute damage
// to the queue when they differ.
var (
	fenceOnce sync.Once
	fenceT0   = time.Now()
	lastAdd   atomic.Int64
	lastGet   atomic.Int64
)

func nanos() int64 { return int64(time.Since(fenceT0)) }

// Per-agent bookkeeping of AddJobToQueue calls. The hook point has no arguments, but it
// is called from (*Agent).AddJobToQueue, whose receiver the runtime prints as the first
// argument of that frame; the callback reads it from its own stack trace. Together with
// the number of tasks each reference agent has been handed this tells, per agent, whether
// the (unlocked, C04-owned) queue delivered every job exactly once.
var (
	addsMu     sync.Mutex
	addsByPtr  = map[uint64]int64{}
	addsNoAddr atomic.Int64
)

func countAdd() {
	var buf [2048]byte
	n := runtime.Stack(buf[:], false)
	const mark = "AddJobToQueue(0x"
	i := bytes.Index(buf[:n], []byte(mark))
	if i < 0 {
		addsNoAddr.Add(1)
		return
	}
	var p uint64
	for _, ch := range buf[i+len(mark) : n] {
		var d byte
		switch {
		case ch >= '0' && ch <= '9':
			d = ch - '0'
		case ch >= 'a' && ch <= 'f':
			d = ch - 'a' + 10
		default:
			addsMu.Lock()
			addsByPtr[p]++
			addsMu.Unlock()
			return
		}
		p = p<<4 | uint64(d)
	}
	addsNoAddr.Add(1)
}

func addsOf(ptr uint64) int64 {
	addsMu.Lock()
	defer addsMu.Unlock()
	return addsByPtr[ptr]
}

func queueFence() {
	fenceOnce.Do(func() {
		if os.Getenv("C15_NO_QUEUE_FENCE") != "" {
			return
		}
		lastGet.Store(-1 << 40)
		lastAdd.Store(-1 << 40)
		verifhook.Set("queue.add", func() {
			countAdd()
			for {
				now := nanos()
				if now-lastGet.Load() < 300_000 {
					runtime.Gosched()
					continue
				}
				t := lastAdd.Load()
				if now-t < 25_000 {
					continue
				}
				if lastAdd.CompareAndSwap(t, now) {
					// a write-back announced in the meantime waits for us (see below)
					return
				}
			}
		})
		verifhook.Set("queue.get.writeback", func() {
			lastGet.Store(nanos())
			for {
				now := nanos()
				if now-lastGet.Load() > 50_000 && now-lastAdd.Load() > 50_000 {
					return
				}
			}
		})
	})
}

func newEnv(c *lib.Ctx) (*env, error) {
	queueFence()
	r, err := rig.New(rig.Options{})
	if err != nil {
		return nil, err
	}
	h, err := r.StartHTTP(handlers.HTTPConfig{Name: "c15"})
	if err != nil {
		return nil, err
	}
	e := &env{c: c, r: r, h: h, bound: 2500 * time.Millisecond, cur: map[string]json.RawMessage{}}
	if s := os.Getenv("C15_BOUND_MS"); s != "" {
		if ms, err := strconv.Atoi(s); err == nil && ms > 0 {
			e.bound = time.Duration(ms) * time.Millisecond
		}
	}
	e.nextID.Store(0x15000000 + uint32(c.Shard)<<16)
	// disjoint windows per shard, so that no worker of a run ever sees another worker's
	// (or its own earlier) proxy behind a port it allocates
	e.portBase = uint32(c.Shard%16) * 1375
	return e, nil
}

// allocPort hands out proxy ports from below the kernel's ephemeral range (32768..60999
// here), walking forward from a start that depends on the worker, so that neither other
// workers' FreePort users nor an earlier, killed proxy of this worker can ever be behind a
// port a client of this worker dials. The port is bind-tested first.
func (e *env) allocPort() int {
	for i := 0; i < 4000; i++ {
		n := e.portSeq.Add(1)
		p := 10000 + int(e.portBase+n%1375)
		l, err := net.Listen("tcp", "0.0.0.0:"+strconv.Itoa(p))
		if err != nil {
			continue
		}
		l.Close()
		return p
	}
	return 0
}

// newAgent registers a reference Demon. Registrations are serialised: the session table is
// not a subject of this property and concurrent appends to it lose entries.
func (e *env) newAgent() (*refAgent, error) {
	e.regMu.Lock()
	defer e.regMu.Unlock()
	return newRefAgent(e.r, e.h.GinEngine, e.nextID.Add(1))
}

// setCur records the cases in flight (one slot per lane) before they touch the code
// under test, so that a process-fatal error leaves them behind.
func (e *env) setCur(slot string, v any) {
	b, _ := json.Marshal(v)
	e.curMu.Lock()
	e.cur[slot] = b
	all, _ := json.Marshal(e.cur)
	e.c.Cur("c15.inflight", all)
	e.curMu.Unlock()
}

func (e *env) clearCur(slot string) {
	e.curMu.Lock()
	delete(e.cur, slot)
	e.curMu.Unlock()
}

type opResult struct {
	Panic    any
	Stack    string
	TimedOut bool
}

// operator issues one operator command (Session/Input package) in-process. It runs in its
// own goroutine so that a command blocked on a held mutex shows up as TimedOut instead of
// wedging the worker.
func (e *env) operator(a *refAgent, command, params string, wait time.Duration) opResult {
	done := make(chan opResult, 1)
	tid := fmt.Sprintf("%08X", 0x0C150000+e.taskSeq.Add(1))
	go func() {
		var res opResult
		res.Panic, res.Stack = lib.Guard(func() {
			e.r.TS.DispatchEvent(packager.Package{
				Head: packager.Head{Event: packager.Type.Session.Type, User: "alice"},
				Body: packager.Body{SubEvent: packager.Type.Session.Input, Info: map[string]any{
					"DemonID": a.Name, "CommandID": "2540", "TaskID": tid,
					"CommandLine": command + " " + params, "Command": command, "Params": params}}})
		})
		done <- res
	}()
	select {
	case r := <-done:
		return r
	case <-time.After(wait):
		return opResult{TimedOut: true}
	}
}

// heldMutexes probes the three table mutexes of an agent.
func heldMutexes(a *refAgent, wait time.Duration) []string {
	var held []string
	if observe.TryLocked(&a.A.SocksSvrMtx, wait) {
		held = append(held, "SocksSvrMtx")
	}
	if observe.TryLocked(&a.A.SocksCliMtx, wait) {
		held = append(held, "SocksCliMtx")
	}
	if observe.TryLocked(&a.A.PortFwdsMtx, wait) {
		held = append(held, "PortFwdsMtx")
	}
	return held
}

// ---------------- lane ----------------

// lane = one agent and (usually) one SOCKS proxy, driven by exactly one goroutine.
type lane struct {
	e     *env
	name  string
	ag    *refAgent
	port  int
	inbox []sockTask
	// ids whose close task may still arrive late (after the harness already cleaned up)
	lateClose map[uint32]bool
}

func (e *env) newLane(name string) (*lane, error) {
	ag, err := e.newAgent()
	if err != nil {
		return nil, err
	}
	ln := &lane{e: e, name: name, ag: ag, lateClose: map[uint32]bool{}}
	return ln, nil
}

// addProxy starts a proxy through the operator command and waits until it accepts.
func (ln *lane) addProxy() (int, error) {
	for try := 0; try < 5; try++ {
		port := ln.e.allocPort()
		if port == 0 {
			continue
		}
		res := ln.e.operator(ln.ag, "socks add", strconv.Itoa(port), 10*time.Second)
		if res.Panic != nil {
			return 0, fmt.Errorf("socks add panicked: %v", res.Panic)
		}
		if res.TimedOut {
			return 0, errors.New("socks add did not return within 10s")
		}
		if waitAccept(port, 5*time.Second) {
			return port, nil
		}
		// bind failed (port taken in between): remove the dead entry and retry
		ln.e.operator(ln.ag, "socks kill", strconv.Itoa(port), 10*time.Second)
	}
	return 0, errors.New("no proxy port could be bound")
}

// waitAccept: the listener is up when a connection is accepted (the probe connection is
// closed at once; the proxy sees an empty client stream).
func waitAccept(port int, d time.Duration) bool {
	return rig.WaitTCP(fmt.Sprintf("127.0.0.1:%d", port), d)
}

// poll performs one check-in and files the socket tasks.
func (ln *lane) poll(cbs ...demon.Callback) (*finding, bool) {
	res := ln.ag.checkin(cbs...)
	if res.Panic != nil {
		return fnd(lib.PanicSig(res.Panic, res.Stack), fmt.Sprintf("check-in panicked: %v", res.Panic), "stack", res.Stack), false
	}
	if res.Status != 200 {
		return fnd("checkin:http-status", fmt.Sprintf("check-in answered HTTP %d", res.Status)), false
	}
	if res.BadFmt {
		return fnd("checkin:task-stream-malformed", "the task stream is not a sequence of [cmd][req][size][body] frames"), false
	}
	ln.inbox = append(ln.inbox, res.Tasks...)
	return nil, len(res.Tasks) > 0
}

// take removes and returns the first task in the inbox that matches.
func (ln *lane) take(match func(t *sockTask) bool) (sockTask, bool) {
	for i := range ln.inbox {
		if match(&ln.inbox[i]) {
			t := ln.inbox[i]
			ln.inbox = append(ln.inbox[:i], ln.inbox[i+1:]...)
			return t, true
		}
	}
	return sockTask{}, false
}

// waitTask polls until a matching task has arrived or the bound has passed.
func (ln *lane) waitTask(bound time.Duration, match func(t *sockTask) bool) (sockTask, bool, *finding) {
	deadline := time.Now().Add(bound)
	sleep := 200 * time.Microsecond
	for {
		if t, ok := ln.take(match); ok {
			return t, true, nil
		}
		if f, _ := ln.poll(); f != nil {
			return sockTask{}, false, f
		}
		if t, ok := ln.take(match); ok {
			return t, true, nil
		}
		if time.Now().After(deadline) {
			return sockTask{}, false, nil
		}
		time.Sleep(sleep)
		if sleep < 4*time.Millisecond {
			sleep *= 2
		}
	}
}

// leftovers: tasks nobody asked for. Close tasks for sockets the harness cleaned up
// itself are tolerated.
func (ln *lane) leftovers() []string {
	var out []string
	for _, t := range ln.inbox {
		if t.Sub == subClose && ln.lateClose[t.ID] {
			continue
		}
		out = append(out, t.String())
	}
	ln.inbox = nil
	return out
}

// ---------------- client socket helpers ----------------

func dialProxy(port int) (*net.TCPConn, error) {
	c, err := net.DialTimeout("tcp", fmt.Sprintf("127.0.0.1:%d", port), 5*time.Second)
	if err != nil {
		return nil, err
	}
	return c.(*net.TCPConn), nil
}

// sendCut writes msg in the pieces given by the ascending cut offsets, pausing between
// pieces.
func sendCut(c net.Conn, msg []byte, cuts []int, gap time.Duration) error {
	prev := 0
	for _, k := range append(append([]int{}, cuts...), len(msg)) {
		if k <= prev || k > len(msg) {
			continue
		}
		if prev > 0 && gap > 0 {
			time.Sleep(gap)
		}
		c.SetWriteDeadline(time.Now().Add(20 * time.Second))
		if _, err := c.Write(msg[prev:k]); err != nil {
			return err
		}
		prev = k
	}
	return nil
}

// readUpTo reads until n bytes have arrived, the peer closed, or the bound passed.
func readUpTo(c net.Conn, n int, bound time.Duration) (got []byte, err error) {
	buf := make([]byte, n)
	c.SetReadDeadline(time.Now().Add(bound))
	defer c.SetReadDeadline(time.Time{})
	k, err := io.ReadFull(c, buf)
	return buf[:k], err
}

// readIdle collects whatever arrives until nothing came for idle (or the peer closed).
func readIdle(c net.Conn, idle time.Duration, max int) (got []byte, closed bool) {
	buf := make([]byte, 4096)
	for len(got) < max {
		c.SetReadDeadline(time.Now().Add(idle))
		k, err := c.Read(buf)
		got = append(got, buf[:k]...)
		if err != nil {
			var ne net.Error
			if errors.As(err, &ne) && ne.Timeout() {
				break
			}
			closed = true
			break
		}
	}
	c.SetReadDeadline(time.Time{})
	return got, closed
}

func isTimeout(err error) bool {
	var ne net.Error
	return errors.As(err, &ne) && ne.Timeout()
}

// clientReader drains a client socket in the background.
type clientReader struct {
	mu   sync.Mutex
	buf  []byte
	err  error
	done chan struct{}
	hold atomic.Bool // true: the client does not read (a Read in flight still completes)
	// holdAfter > 0: the client stops reading by itself once it has received that many bytes
	holdAfter atomic.Int64
}

func startReader(c net.Conn) *clientReader {
	r := &clientReader{done: make(chan struct{})}
	go func() {
		b := make([]byte, 64<<10)
		for {
			for r.hold.Load() {
				time.Sleep(2 * time.Millisecond)
			}
			n, err := c.Read(b)
			r.mu.Lock()
			r.buf = append(r.buf, b[:n]...)
			if err != nil {
				r.err = err
			}
			if ha := r.holdAfter.Load(); ha > 0 && int64(len(r.buf)) >= ha {
				r.holdAfter.Store(0)
				r.hold.Store(true)
			}
			r.mu.Unlock()
			if err != nil {
				close(r.done)
				return
			}
		}
	}()
	return r
}

func (r *clientReader) snapshot() []byte {
	r.mu.Lock()
	defer r.mu.Unlock()
	return append([]byte{}, r.buf...)
}

func (r *clientReader) length() int {
	r.mu.Lock()
	defer r.mu.Unlock()
	return len(r.buf)
}

// waitLen waits until n bytes arrived, the reader ended, or the bound passed.
func (r *clientReader) waitLen(n int, bound time.Duration) {
	deadline := time.Now().Add(bound)
	sleep := 100 * time.Microsecond
	for r.length() < n && time.Now().Before(deadline) {
		select {
		case <-r.done:
			return
		default:
		}
		time.Sleep(sleep)
		if sleep < 2*time.Millisecond {
			sleep *= 2
		}
	}
}

func (r *clientReader) waitDone(bound time.Duration) bool {
	select {
	case <-r.done:
		return true
	case <-time.After(bound):
		return false
	}
}

func hookHits() map[string]int64 { return verifhook.AllHits() }
