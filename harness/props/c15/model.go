package c15

// Reference model of a SOCKS5 server's side of the exchange, written from RFC 1928 (§3
// method negotiation, §4 request, §5 addressing, §6 replies) and from the property
// statement ("selects no-authentication when offered and refuses otherwise, accepts only
// CONNECT, reports the exact address type, address and port to the agent, and echoes them
// in a well-formed success or failure reply"). It never looks at pkg/socks.
//
// It is a pure function of the client byte prefix: Parse says what a server is entitled to
// have understood after exactly these bytes, and the Accept* predicates say which server
// bytes / agent tasks are acceptable at that point.

import (
	"bytes"
	"fmt"
)

const (
	socksVer = 0x05

	methNoAuth = 0x00
	methNone   = 0xFF

	cmdConnect = 0x01

	atypV4  = 0x01
	atypDom = 0x03
	atypV6  = 0x04

	repOK             = 0x00
	repGeneral        = 0x01
	repNetUnreach     = 0x03
	repHostUnreach    = 0x04
	repRefused        = 0x05
	repTTL            = 0x06
	repCmdUnsupported = 0x07
	repAtypUnsupp     = 0x08
)

// Winsock error codes the Demon reports for a failed connect (WSAGetLastError).
const (
	wsaTimedOut    = 10060
	wsaConnRefused = 10061
	wsaHostUnreach = 10065
	wsaNetUnreach  = 10051
)

// Parsed is what the client byte prefix means.
type Parsed struct {
	// greeting (VER NMETHODS METHODS)
	GreetLen      int // bytes the greeting occupies once complete (0 while unknown)
	GreetComplete bool
	GVer          byte
	Methods       []byte
	// request (VER CMD RSV ATYP DST.ADDR DST.PORT)
	ReqSeen     int // request bytes present
	ReqComplete bool
	ReqLen      int
	RVer        byte
	Cmd         byte
	Rsv         byte
	Atyp        byte
	AtypValid   bool
	Addr        []byte // address without the domain length octet
	Port        uint16
	AddrStart   int // offset inside the request of the first address byte (after the length octet)
	AddrEnd     int
	Extra       []byte // bytes after the request: relay payload
}

// Parse decodes a client byte prefix.
func Parse(s []byte) Parsed {
	var p Parsed
	if len(s) < 2 {
		if len(s) == 1 {
			p.GVer = s[0]
		}
		return p
	}
	p.GVer = s[0]
	n := int(s[1])
	p.GreetLen = 2 + n
	if len(s) < p.GreetLen {
		return p
	}
	p.GreetComplete = true
	p.Methods = append([]byte{}, s[2:2+n]...)
	r := s[p.GreetLen:]
	p.ReqSeen = len(r)
	if len(r) >= 1 {
		p.RVer = r[0]
	}
	if len(r) >= 2 {
		p.Cmd = r[1]
	}
	if len(r) >= 3 {
		p.Rsv = r[2]
	}
	if len(r) < 4 {
		return p
	}
	p.Atyp = r[3]
	alen := -1
	p.AddrStart = 4
	switch p.Atyp {
	case atypV4:
		alen = 4
		p.AtypValid = true
	case atypV6:
		alen = 16
		p.AtypValid = true
	case atypDom:
		p.AtypValid = true
		if len(r) >= 5 {
			alen = int(r[4])
			p.AddrStart = 5
		}
	}
	if !p.AtypValid || alen < 0 {
		return p
	}
	p.AddrEnd = p.AddrStart + alen
	p.ReqLen = p.AddrEnd + 2
	if len(r) < p.ReqLen {
		return p
	}
	p.ReqComplete = true
	p.Addr = append([]byte{}, r[p.AddrStart:p.AddrEnd]...)
	p.Port = uint16(r[p.AddrEnd])<<8 | uint16(r[p.AddrEnd+1]) // network octet order (§4)
	p.Extra = append([]byte{}, r[p.ReqLen:]...)
	return p
}

// MethodReply is the server's METHOD selection message for a complete greeting: X'00' if
// the client offered it, otherwise X'FF' (§3). ok is false while the greeting is incomplete
// or is not version 5 (then nothing may be selected).
func (p *Parsed) MethodReply() (reply []byte, ok bool) {
	if !p.GreetComplete || p.GVer != socksVer {
		return nil, false
	}
	if bytes.IndexByte(p.Methods, methNoAuth) >= 0 {
		return []byte{socksVer, methNoAuth}, true
	}
	return []byte{socksVer, methNone}, true
}

// Proceeds reports whether the exchange goes on to the request phase.
func (p *Parsed) Proceeds() bool {
	r, ok := p.MethodReply()
	return ok && r[1] == methNoAuth
}

// ConnTask is what the agent must be told for an acceptable CONNECT request.
type ConnTask struct {
	Atyp byte   `json:"atyp"`
	Addr []byte `json:"addr"`
	Port uint16 `json:"port"`
}

// WantsConnect: a connect task is due exactly when the negotiation selected X'00' and a
// complete, well-formed CONNECT request has been received.
func (p *Parsed) WantsConnect() (ConnTask, bool) {
	if !p.Proceeds() || !p.ReqComplete || p.RVer != socksVer || p.Rsv != 0 || p.Cmd != cmdConnect {
		return ConnTask{}, false
	}
	return ConnTask{Atyp: p.Atyp, Addr: p.Addr, Port: p.Port}, true
}

// boundAddr encodes ATYP BND.ADDR BND.PORT (§6, §5).
func boundAddr(atyp byte, addr []byte, port uint16) []byte {
	out := []byte{atyp}
	if atyp == atypDom {
		out = append(out, byte(len(addr)))
	}
	out = append(out, addr...)
	return append(out, byte(port>>8), byte(port))
}

// Reply builds VER REP RSV ATYP BND.ADDR BND.PORT.
func Reply(rep, atyp byte, addr []byte, port uint16) []byte {
	return append([]byte{socksVer, rep, 0x00}, boundAddr(atyp, addr, port)...)
}

// RepFor maps the agent's connect outcome to the acceptable REP values. Success is X'00'.
// Failures must carry a non-zero defined code; where the Winsock error names the RFC
// condition exactly (refused, host/network unreachable) only that code is acceptable, a
// time-out has no code of its own (general failure, host unreachable and TTL expired are
// all in use), anything else must be a defined failure code.
func RepFor(success bool, errCode uint32) []byte {
	if success {
		return []byte{repOK}
	}
	switch errCode {
	case wsaConnRefused:
		return []byte{repRefused}
	case wsaHostUnreach:
		return []byte{repHostUnreach}
	case wsaNetUnreach:
		return []byte{repNetUnreach}
	case wsaTimedOut:
		return []byte{repGeneral, repHostUnreach, repTTL}
	}
	return []byte{repGeneral, 0x02, repNetUnreach, repHostUnreach, repRefused, repTTL}
}

// wellFormedReply checks the frame VER REP RSV ATYP ADDR PORT and returns its fields.
func wellFormedReply(b []byte) (rep, atyp byte, addr []byte, port uint16, err error) {
	if len(b) < 4 {
		return 0, 0, nil, 0, fmt.Errorf("reply shorter than 4 bytes")
	}
	if b[0] != socksVer {
		return 0, 0, nil, 0, fmt.Errorf("VER=%#x", b[0])
	}
	if b[2] != 0 {
		return 0, 0, nil, 0, fmt.Errorf("RSV=%#x", b[2])
	}
	rep, atyp = b[1], b[3]
	rest := b[4:]
	var n int
	switch atyp {
	case atypV4:
		n = 4
	case atypV6:
		n = 16
	case atypDom:
		if len(rest) < 1 {
			return rep, atyp, nil, 0, fmt.Errorf("domain reply without length octet")
		}
		n = int(rest[0])
		rest = rest[1:]
	default:
		return rep, atyp, nil, 0, fmt.Errorf("ATYP=%#x", atyp)
	}
	if len(rest) != n+2 {
		return rep, atyp, nil, 0, fmt.Errorf("address+port occupy %d bytes, ATYP %d needs %d", len(rest), atyp, n+2)
	}
	return rep, atyp, rest[:n], uint16(rest[n])<<8 | uint16(rest[n+1]), nil
}

// CheckConnectReply judges the reply to an accepted CONNECT request once the agent has
// reported its outcome. It returns "" or the name of the first field that is wrong.
func CheckConnectReply(want ConnTask, success bool, errCode uint32, got []byte) (field, detail string) {
	exp := Reply(RepFor(success, errCode)[0], want.Atyp, want.Addr, want.Port)
	if len(got) != len(exp) {
		// say which field explains the length difference where possible
		if len(got) >= 4 && got[3] != want.Atyp {
			return "atyp", fmt.Sprintf("ATYP %#x, request had %#x (reply %d bytes, want %d)", got[3], want.Atyp, len(got), len(exp))
		}
		return "length", fmt.Sprintf("reply has %d bytes, a reply echoing the request has %d", len(got), len(exp))
	}
	if got[0] != socksVer {
		return "ver", fmt.Sprintf("VER %#x", got[0])
	}
	okRep := false
	for _, r := range RepFor(success, errCode) {
		if got[1] == r {
			okRep = true
		}
	}
	if !okRep {
		return "rep", fmt.Sprintf("REP %#x for agent outcome success=%v error=%d, acceptable %x", got[1], success, errCode, RepFor(success, errCode))
	}
	if got[2] != 0 {
		return "rsv", fmt.Sprintf("RSV %#x", got[2])
	}
	if got[3] != want.Atyp {
		return "atyp", fmt.Sprintf("ATYP %#x, request had %#x", got[3], want.Atyp)
	}
	_, _, addr, port, err := wellFormedReply(got)
	if err != nil {
		return "form", err.Error()
	}
	if !bytes.Equal(addr, want.Addr) {
		return "addr", fmt.Sprintf("BND.ADDR %x, request had %x", addr, want.Addr)
	}
	if port != want.Port {
		return "port", fmt.Sprintf("BND.PORT %d, request had %d", port, want.Port)
	}
	return "", ""
}

// ReplyLenFor is the length of the reply that echoes the request's address.
func ReplyLenFor(t ConnTask) int { return len(Reply(0, t.Atyp, t.Addr, t.Port)) }

// AcceptRefusal judges the answer to a complete request that must not be served: a
// command other than CONNECT (REP X'07') or an address type that is not defined (REP
// X'08', or silence: §6 lists the code but does not oblige a server to parse on). The
// bound address of such a reply is not specified; it must only be well formed.
func AcceptRefusal(p *Parsed, got []byte) (okay bool, detail string) {
	wantRep := []byte{}
	if p.ReqSeen >= 2 && p.Cmd != cmdConnect {
		wantRep = append(wantRep, repCmdUnsupported)
	}
	if p.ReqSeen >= 4 && !p.AtypValid {
		wantRep = append(wantRep, repAtypUnsupp)
	}
	if len(got) == 0 {
		// silence is acceptable only when the request cannot be parsed to its end
		if p.ReqSeen >= 4 && !p.AtypValid {
			return true, ""
		}
		return false, "no reply"
	}
	rep, _, _, _, err := wellFormedReply(got)
	if err != nil {
		return false, "malformed refusal: " + err.Error()
	}
	for _, r := range wantRep {
		if rep == r {
			return true, ""
		}
	}
	return false, fmt.Sprintf("REP %#x, acceptable %x", rep, wantRep)
}
