package c15

// Concurrent scenario: 16 SOCKS clients, one single-threaded reference agent answering
// connect/read/write/close, operators issuing socks add/list/kill/clear and reverse port
// forwards against the harness target, all on one agent's tables at the same time. The
// race detector watches the tables; at quiescence the tables must be empty, the mutexes
// free, nothing may have panicked, and every byte stream must be intact (a prefix for
// sockets the operator killed).

import (
	"bytes"
	"fmt"
	"math/rand"
	"os"
	"strconv"
	"strings"
	"sync"
	"sync/atomic"
	"time"

	"Havoc/pkg/verifhook"

	"verifh/demon"
	"verifh/lib"
)

type ConcCase struct {
	Seed    int64 `json:"seed"`
	Clients int   `json:"clients"`
	Proxies int   `json:"proxies"`
	Rounds  int   `json:"rounds"`
	Rport   int   `json:"rport"`
	NoClear bool  `json:"no_clear,omitempty"` // set by the runner when `socks clear` is known to wedge the agent (see oper scenario)
}

// queuePanic: a panic inside the unlocked job queue (Agent.JobQueue / Agent.Tasks) belongs to
// property C04, as do its consequences.
func queuePanic(sig string) bool {
	for _, fn := range []string{"GetQueuedJobs", "AddJobToQueue", "AddRequest", "RequestCompleted", "IsKnownRequestID", "BuildPayloadMessage"} {
		if strings.Contains(sig, "@Havoc/pkg/agent.(*Agent)."+fn) || strings.Contains(sig, "@Havoc/pkg/agent."+fn) {
			return true
		}
	}
	return false
}

func (c *ConcCase) key() string {
	return fmt.Sprintf("X|%d|%d|%d|%d|%d", c.Seed, c.Clients, c.Proxies, c.Rounds, c.Rport)
}

type concSock struct {
	port    uint16 // destination port = correlation key
	want    ConnTask
	id      uint32
	haveID  chan struct{}
	gotC    []byte // from write tasks (agent loop only)
	closedS bool   // a close task for it reached the agent
	aborted bool   // the client reset its connection before it had seen a reply
}

type concState struct {
	mu       sync.Mutex
	byPort   map[uint16]*concSock
	byID     map[uint32]*concSock
	outbox   []demon.Callback
	findings []*finding
	delivered int64
	fwdGot   map[uint32][]byte // write tasks for forwards
	live     []int // proxy ports believed alive
	killed   map[uint32]bool
}

func (st *concState) report(f *finding) {
	if f == nil {
		return
	}
	st.mu.Lock()
	st.findings = append(st.findings, f)
	st.mu.Unlock()
}

func (st *concState) submit(cb ...demon.Callback) {
	st.mu.Lock()
	st.outbox = append(st.outbox, cb...)
	st.mu.Unlock()
}

func (e *env) runConc(cc *ConcCase, bound time.Duration) (f *finding, obs map[string]any) {
	obs = map[string]any{}
	ln, err := e.newLane("conc")
	if err != nil {
		return fnd("infra:register", err.Error()), obs
	}
	ag := ln.ag
	st := &concState{byPort: map[uint16]*concSock{}, byID: map[uint32]*concSock{}, fwdGot: map[uint32][]byte{}, killed: map[uint32]bool{}}
	// stragglers of earlier scenarios (relay goroutines that notice a closed connection late)
	// must not be counted as this scenario's adds
	for stable, last := 0, int64(-1); stable < 3; {
		h := verifhook.Hits("queue.add")
		if h == last {
			stable++
		} else {
			stable, last = 0, h
		}
		time.Sleep(4 * time.Millisecond)
	}
	hits0 := verifhook.Hits("queue.add")
	opWait := 5 * bound
	var portSeq atomic.Uint32
	portSeq.Store(uint32(1000 + (cc.Seed&0xff)*7))

	for i := 0; i < cc.Proxies; i++ {
		p, err := ln.addProxy()
		if err != nil {
			return fnd("infra:socks-add", err.Error()), obs
		}
		st.live = append(st.live, p)
	}
	tg, err := newTarget()
	if err != nil {
		return fnd("infra:target-listen", err.Error()), obs
	}
	defer tg.close()

	// ---- the agent: one check-in at a time ----
	stop := make(chan struct{})
	agentDone := make(chan struct{})
	var idleRounds atomic.Int64
	go func() {
		defer close(agentDone)
		for {
			st.mu.Lock()
			out := st.outbox
			st.outbox = nil
			st.mu.Unlock()
			tci := time.Now()
			res := ag.checkin(out...)
			if d := time.Since(tci); d > 300*time.Millisecond && os.Getenv("C15_DEBUG") != "" {
				fmt.Fprintf(os.Stderr, "SLOW checkin %v callbacks=%d tasks=%d\n", d, len(out), len(res.Tasks))
			}
			if res.Panic != nil {
				st.report(fnd(lib.PanicSig(res.Panic, res.Stack), fmt.Sprintf("check-in panicked: %v", res.Panic), "stack", res.Stack))
			} else if res.BadFmt || res.Status != 200 {
				st.report(fnd("checkin:task-stream-malformed", fmt.Sprintf("status %d malformed=%v", res.Status, res.BadFmt)))
			}
			st.mu.Lock()
			st.delivered += int64(len(res.Tasks))
			for _, t := range res.Tasks {
				switch t.Sub {
				case subConnect:
					cs := st.byPort[t.Port]
					if cs == nil {
						st.findings = append(st.findings, fnd("connect-task:port", fmt.Sprintf("connect task for port %d which no client asked for", t.Port), "task", t.String()))
						st.outbox = append(st.outbox, cbConnect(false, t.ID, wsaConnRefused))
						continue
					}
					if t.Bad || t.Atyp != cs.want.Atyp || !bytes.Equal(t.Addr, cs.want.Addr) {
						st.findings = append(st.findings, fnd("connect-task:address", fmt.Sprintf("concurrent clients: connect task %s, the request had atyp=%d addr=%x", t.String(), cs.want.Atyp, cs.want.Addr)))
					}
					if cs.id != 0 {
						st.findings = append(st.findings, fnd("connect-task:duplicate", "two connect tasks for one request: "+t.String()))
						continue
					}
					cs.id = t.ID
					st.byID[t.ID] = cs
					close(cs.haveID)
					if t.Port%11 == 0 {
						st.outbox = append(st.outbox, cbConnect(false, t.ID, wsaConnRefused))
					} else {
						st.outbox = append(st.outbox, cbConnect(true, t.ID, 0))
					}
				case subWrite:
					if cs := st.byID[t.ID]; cs != nil {
						cs.gotC = append(cs.gotC, t.Data...)
					} else if _, ok := st.fwdGot[t.ID]; ok {
						st.fwdGot[t.ID] = append(st.fwdGot[t.ID], t.Data...)
					} else {
						st.findings = append(st.findings, fnd("relay:c2a:wrong-socket-id", fmt.Sprintf("write task carries socket id %08x which no client or forward has", t.ID)))
					}
				case subClose:
					if cs := st.byID[t.ID]; cs != nil {
						cs.closedS = true
					}
				}
			}
			busy := len(res.Tasks) > 0 || len(out) > 0
			st.mu.Unlock()
			if busy {
				idleRounds.Store(0)
			} else {
				idleRounds.Add(1)
			}
			// a Demon with sleep 0 still needs a round trip per check-in
			time.Sleep(time.Millisecond)
			select {
			case <-stop:
				return
			default:
			}
		}
	}()

	pickPort := func(rng *rand.Rand) int {
		st.mu.Lock()
		defer st.mu.Unlock()
		if len(st.live) == 0 {
			return 0
		}
		return st.live[rng.Intn(len(st.live))]
	}

	// ---- clients ----
	var wg sync.WaitGroup
	var completed, aborted atomic.Int64
	client := func(ci int) {
		defer wg.Done()
		rng := rand.New(rand.NewSource(cc.Seed + int64(ci)*7907))
		for round := 0; round < cc.Rounds; round++ {
			pport := pickPort(rng)
			if pport == 0 {
				time.Sleep(2 * time.Millisecond)
				continue
			}
			k := addrKinds[rng.Intn(6)]
			dport := uint16(portSeq.Add(1))
			cs := &concSock{port: dport, haveID: make(chan struct{})}
			sc := base(k, int(dport))
			sc.Port = dport
			cs.want = ConnTask{Atyp: sc.Atyp, Addr: sc.Addr, Port: dport}
			st.mu.Lock()
			st.byPort[dport] = cs
			st.mu.Unlock()
			conn, err := dialProxy(pport)
			if err != nil {
				e.c.Observe("conc.abort.dial-refused", 1)
				aborted.Add(1) // the proxy was killed in between
				continue
			}
			abortWhy := "?"
			abort := func() {
				st.mu.Lock()
				cs.aborted = true
				st.mu.Unlock()
				conn.SetLinger(0)
				conn.Close()
				aborted.Add(1)
				e.c.Observe("conc.abort."+abortWhy, 1)
			}
			G, R := sc.greeting(), sc.request()
			if sendCut(conn, G, randomCuts(rng, len(G), rng.Intn(2)), 0) != nil {
				abortWhy = "greeting-write-failed"
				abort()
				continue
			}
			mr, _ := readUpTo(conn, 2, bound)
			if len(mr) == 0 {
				abortWhy = "no-method-reply(listener closed)"
				abort() // accepted by the backlog of a listener that was closed meanwhile
				continue
			}
			if !bytes.Equal(mr, []byte{5, 0}) {
				st.report(fnd("negotiation:method-selection", fmt.Sprintf("concurrent clients: selection message %x for methods 00", mr)))
				abort()
				continue
			}
			// no cut inside the address here: that defect class is decided by the lock-step streams
			cuts := []int{}
			if rng.Intn(2) == 0 {
				cuts = []int{1 + rng.Intn(3)}
			}
			if sendCut(conn, R, cuts, 0) != nil {
				abortWhy = "request-write-failed"
				abort()
				continue
			}
			select {
			case <-cs.haveID:
			case <-time.After(bound):
				st.report(progress("connect-task:missing", fmt.Sprintf("concurrent clients: no connect task within %v", bound)))
				abortWhy = "no-connect-task"
				if os.Getenv("C15_DEBUG") != "" {
					fmt.Fprintf(os.Stderr, "%s NOTASK port=%d proxy=%d atyp=%d alen=%d cuts=%v\n", time.Now().Format("15:04:05.000"), dport, pport, sc.Atyp, len(sc.Addr), cuts)
				}
				abort()
				continue
			}
			success := dport%11 != 0
			reply, _ := readUpTo(conn, ReplyLenFor(cs.want), bound)
			if len(reply) == 0 {
				// killed by the operator before the agent's answer got through
				st.mu.Lock()
				st.killed[cs.id] = true
				st.mu.Unlock()
				abortWhy = "no-reply(killed before outcome)"
				abort()
				continue
			}
			code := uint32(0)
			if !success {
				code = wsaConnRefused
			}
			if field, detail := CheckConnectReply(cs.want, success, code, reply); field != "" {
				kind := map[bool]string{true: "success", false: "failure"}[success]
				st.report(fnd("reply:"+kind+":"+field, "concurrent clients: "+detail, "got", fmt.Sprintf("%x", clip(reply, 64))))
				abort()
				continue
			}
			if !success {
				conn.Close()
				completed.Add(1)
				continue
			}
			rd := startReader(conn)
			tagC, tagA := byte(0x40+ci), byte(0x80+ci)
			nC := randomSizes(rng, 1+rng.Intn(3), 70<<10)
			nA := randomSizes(rng, 1+rng.Intn(3), 70<<10)
			sentC, sentA := 0, 0
			wfail := false
			for _, n := range nC {
				conn.SetWriteDeadline(time.Now().Add(5 * bound))
				if _, err := conn.Write(payload(tagC, sentC, n)); err != nil {
					wfail = true
					break
				}
				sentC += n
			}
			for _, n := range nA {
				if n < 4 {
					n += 4 // reads of 1..3 bytes are decided by the lock-step streams
				}
				st.submit(cbRead(cs.id, typeProxy, payload(tagA, sentA, n)))
				sentA += n
			}
			// wait for both directions (or for the operator's kill)
			deadline := time.Now().Add(bound)
			lastA, lastC := -1, -1
			for time.Now().Before(deadline) {
				st.mu.Lock()
				gc := len(cs.gotC)
				st.mu.Unlock()
				ga := rd.length()
				if ga != lastA || gc != lastC {
					lastA, lastC = ga, gc
					deadline = time.Now().Add(bound)
				}
				if ga >= sentA && gc >= sentC {
					break
				}
				select {
				case <-rd.done:
					deadline = time.Now()
				default:
				}
				time.Sleep(500 * time.Microsecond)
			}
			killed := false
			select {
			case <-rd.done:
				killed = true // only the operator's kill/clear closes a connected client here
			default:
			}
			gotA := rd.snapshot()
			wantA := payload(tagA, 0, sentA)
			st.mu.Lock()
			gotC := append([]byte{}, cs.gotC...)
			if killed {
				st.killed[cs.id] = true
			}
			st.mu.Unlock()
			wantC := payload(tagC, 0, sentC)
			if class, _, detail := diffStream(wantA, gotA); class != "" && !(class == "short" && killed) {
				if class == "short" {
					st.report(progress("relay:a2c:short", "concurrent clients: "+detail))
				} else {
					st.report(fnd("relay:a2c:"+class, fmt.Sprintf("concurrent clients, socket %08x agent->client: %s", cs.id, detail)))
				}
			}
			if class, _, detail := diffStream(wantC, gotC); class != "" && !(class == "short" && (killed || wfail)) {
				// judged at quiescence against the queue's own bookkeeping (see below)
				st.report(&finding{Sig: "conc:c2a:" + class, What: fmt.Sprintf("concurrent clients, socket %08x client->agent: %s", cs.id, detail), Progress: class == "short"})
			}
			if killed {
				conn.Close()
				aborted.Add(1)
				e.c.Observe("conc.abort.killed-while-connected", 1)
				continue
			}
			// close: agent side or reset from the client
			if rng.Intn(2) == 0 {
				st.submit(cbClose(cs.id, typeProxy))
				if !rd.waitDone(bound) {
					st.report(progress("close:agent:client-connection-left-open", "concurrent clients: connection not closed after the agent's close callback"))
				}
				conn.Close()
			} else {
				conn.SetLinger(0)
				conn.Close()
				deadline := time.Now().Add(bound)
				for {
					st.mu.Lock()
					c := cs.closedS
					st.mu.Unlock()
					if c {
						break
					}
					if time.Now().After(deadline) {
						if ag.hasSocksCli(cs.id) {
							st.report(progress("close:client-rst:not-propagated", "concurrent clients: no close task after the client reset its connection"))
						}
						break
					}
					time.Sleep(500 * time.Microsecond)
				}
			}
			completed.Add(1)
		}
	}
	for i := 0; i < cc.Clients; i++ {
		wg.Add(1)
		go client(i)
	}

	// ---- operators ----
	var opWg sync.WaitGroup
	var opCount atomic.Int64
	opStop := make(chan struct{})
	hung := atomic.Bool{}
	doOp := func(cmd, params string) bool {
		res := e.operator(ag, cmd, params, opWait)
		opCount.Add(1)
		if res.Panic != nil {
			st.report(fnd(lib.PanicSig(res.Panic, res.Stack), fmt.Sprintf("`%s %s` panicked: %v", cmd, params, res.Panic), "stack", res.Stack))
			return false
		}
		if res.TimedOut {
			hung.Store(true)
			st.report(progress("operator:"+cmd+":hung", fmt.Sprintf("`%s %s` did not return within %v", cmd, params, opWait), "held", heldMutexes(ag, 100*time.Millisecond)))
			return false
		}
		return true
	}
	operator := func(oi int) {
		defer opWg.Done()
		rng := rand.New(rand.NewSource(cc.Seed ^ int64(oi+1)*104729))
		budget := 14 + 6*cc.Rounds
		// one kill per operator and a clear in every third scenario, at random places; the rest
		// is add / list traffic
		killAt := map[int]bool{rng.Intn(budget): true}
		clearAt := -1
		if oi == 0 && !cc.NoClear && cc.Seed%3 == 0 {
			clearAt = budget/3 + rng.Intn(budget/2)
		}
		for n := 0; n < budget; n++ {
			select {
			case <-opStop:
				return
			default:
			}
			op := rng.Intn(10) // 0-2 socks list, 4-7 socks add, 9 rportfwd list
			if op == 3 {
				op = 0
			}
			if op == 8 {
				op = 9
			}
			if killAt[n] {
				op = 3
			}
			if n == clearAt {
				op = 8
			}
			switch {
			case op < 3:
				if !doOp("socks list", "") {
					return
				}
			case op < 4:
				// kill a live proxy, clients and all; a replacement follows
				st.mu.Lock()
				var victim int
				if len(st.live) > 2 {
					j := rng.Intn(len(st.live))
					victim = st.live[j]
					st.live = append(st.live[:j], st.live[j+1:]...)
				}
				st.mu.Unlock()
				if victim != 0 {
					if !doOp("socks kill", strconv.Itoa(victim)) {
						return
					}
				}
			case op < 8:
				st.mu.Lock()
				n := len(st.live)
				st.mu.Unlock()
				if n < cc.Proxies+2 {
					if p, err := ln.addProxy(); err == nil {
						opCount.Add(1)
						st.mu.Lock()
						st.live = append(st.live, p)
						st.mu.Unlock()
					} else if hung.Load() {
						return
					}
				}
			case op < 9 && oi == 0 && !cc.NoClear:
				st.mu.Lock()
				st.live = nil
				st.mu.Unlock()
				if !doOp("socks clear", "") {
					return
				}
				for k := 0; k < 2; k++ {
					if p, err := ln.addProxy(); err == nil {
						opCount.Add(1)
						st.mu.Lock()
						st.live = append(st.live, p)
						st.mu.Unlock()
					}
				}
			default:
				if !doOp("rportfwd list", "") {
					return
				}
			}
			time.Sleep(time.Duration(3+rng.Intn(8)) * time.Millisecond)
		}
	}
	nOps := 2
	if cc.NoClear {
		nOps = 2
	}
	for i := 0; i < nOps; i++ {
		opWg.Add(1)
		go operator(i)
	}

	// ---- reverse port forwards through the same agent ----
	var fwdWg sync.WaitGroup
	var fwdDone atomic.Int64
	fwd := func(fi int) {
		defer fwdWg.Done()
		rng := rand.New(rand.NewSource(cc.Seed ^ int64(fi+7)*15485863))
		id := uint32(0x7f000000) | uint32(rng.Intn(1<<20))<<4 | uint32(fi)
		st.mu.Lock()
		st.fwdGot[id] = []byte{}
		st.mu.Unlock()
		lcl, fw := leIP(127, 0, 0, 1), leIP(127, 0, 0, 1)
		before := tg.count()
		_ = before
		nA := 4 + rng.Intn(30000)
		st.submit(cbOpen(id, lcl, 4444, fw, uint32(tg.port)), cbRead(id, typeClient, payload(byte(0x20+fi), 0, nA)))
		// find the target connection that carries this forward's tag
		var tc *targetConn
		deadline := time.Now().Add(bound)
		for tc == nil && time.Now().Before(deadline) {
			tg.mu.Lock()
			for _, c := range tg.conns {
				if b := c.rd.snapshot(); len(b) > 0 && b[0] == byte(0x20+fi) {
					tc = c
				}
			}
			tg.mu.Unlock()
			time.Sleep(500 * time.Microsecond)
		}
		if tc == nil {
			st.report(progress("rportfwd:target-not-dialled", "concurrent: forward target not dialled / no bytes within the bound"))
			st.submit(cbRportRemove(id, typeClient, lcl, 4444, fw, uint32(tg.port)))
			return
		}
		tc.rd.waitLen(nA, bound)
		if class, _, detail := diffStream(payload(byte(0x20+fi), 0, nA), tc.rd.snapshot()); class != "" {
			st.report(&finding{Sig: "rportfwd:a2t:" + class, What: "concurrent: agent->target " + detail, Progress: class == "short"})
		}
		nT := 4 + rng.Intn(30000)
		tc.c.Write(payload(byte(0x30+fi), 0, nT))
		tc.c.CloseWrite()
		deadline = time.Now().Add(bound)
		for time.Now().Before(deadline) {
			st.mu.Lock()
			n := len(st.fwdGot[id])
			st.mu.Unlock()
			if n >= nT {
				break
			}
			time.Sleep(500 * time.Microsecond)
		}
		st.mu.Lock()
		got := append([]byte{}, st.fwdGot[id]...)
		st.mu.Unlock()
		if class, _, detail := diffStream(payload(byte(0x30+fi), 0, nT), got); class != "" {
			st.report(&finding{Sig: "conc:t2a:" + class, What: "concurrent: target->agent " + detail, Progress: class == "short"})
		}
		st.submit(cbRportRemove(id, typeClient, lcl, 4444, fw, uint32(tg.port)))
		if !tc.rd.waitDone(bound) {
			st.report(progress("rportfwd:remove:target-connection-left-open", "concurrent: target connection not closed after the remove callback"))
		}
		fwdDone.Add(1)
	}
	for i := 0; i < cc.Rport; i++ {
		fwdWg.Add(1)
		go fwd(i)
	}

	// ---- quiescence ----
	waitWG := func(w *sync.WaitGroup, d time.Duration) bool {
		ch := make(chan struct{})
		go func() { w.Wait(); close(ch) }()
		select {
		case <-ch:
			return true
		case <-time.After(d):
			return false
		}
	}
	clientsOK := waitWG(&wg, 60*bound)
	fwdOK := waitWG(&fwdWg, 30*bound)
	close(opStop)
	opsOK := waitWG(&opWg, 10*opWait)
	if !hung.Load() && opsOK {
		st.mu.Lock()
		live := append([]int{}, st.live...)
		st.live = nil
		st.mu.Unlock()
		for _, p := range live {
			doOp("socks kill", strconv.Itoa(p))
		}
	}
	// let the agent drain what the kills queued
	for i := 0; i < 4000 && idleRounds.Load() < 4; i++ {
		time.Sleep(500 * time.Microsecond)
	}
	close(stop)
	<-agentDone
	final := ag.checkin()
	st.delivered += int64(len(final.Tasks))
	hits := verifhook.Hits("queue.add") - hits0
	if adds, handed, _ := ag.queueMiscount(); adds > 0 {
		// per-agent bookkeeping (exact) replaces the process-wide hit counter
		hits, st.delivered = adds, handed
	}

	if os.Getenv("C15_DEBUG") != "" {
		for p, cs := range st.byPort {
			_ = p
			select {
			case <-cs.haveID:
			default:
				fmt.Fprintf(os.Stderr, "   never-delivered port=%d\n", cs.port)
			}
		}
		fmt.Fprintf(os.Stderr, "CONC seed=%d hits=%d delivered=%d completed=%d aborted=%d ops=%d findings=%d\n", cc.Seed, hits, st.delivered, completed.Load(), aborted.Load(), opCount.Load(), len(st.findings))
		for _, f := range st.findings {
			fmt.Fprintf(os.Stderr, "   F %s: %s\n", f.Sig, f.What)
		}
	}
	obs["clients_completed"] = completed.Load()
	obs["clients_aborted"] = aborted.Load()
	obs["operator_commands"] = opCount.Load()
	obs["forwards_completed"] = fwdDone.Load()
	obs["queue_adds"] = hits
	obs["tasks_delivered"] = st.delivered
	e.c.Observe("conc.clients_completed", completed.Load())
	e.c.Observe("conc.clients_aborted_or_killed", aborted.Load())
	e.c.Observe("conc.operator_commands", opCount.Load())
	e.c.Observe("conc.forwards_completed", fwdDone.Load())

	if !clientsOK || !fwdOK || !opsOK {
		st.report(progress("conc:no-quiescence", fmt.Sprintf("scenario did not come to rest (clients %v, forwards %v, operators %v)", clientsOK, fwdOK, opsOK)))
	}
	queueLossy := hits != st.delivered
	if queueLossy {
		e.c.Observe("conc.queue_adds_ne_delivered", 1)
	}
	// verdict: first the decisive kinds, then progress kinds
	var first *finding
	pick := func(wantProgress bool) {
		for _, f := range st.findings {
			if first != nil {
				return
			}
			if strings.HasPrefix(f.Sig, "panic:") && queuePanic(f.Sig) {
				continue
			}
			isQueue := len(f.Sig) > 5 && f.Sig[:5] == "conc:" && f.Sig != "conc:no-quiescence"
			if f.Sig == "connect-task:duplicate" || f.Sig == "connect-task:missing" {
				// a connect task repeated or lost between AddJobToQueue and the check-in
				if queueLossy {
					e.c.Observe("conc.connect_task_anomaly_with_queue_miscount", 1)
					continue
				}
			}
			if isQueue {
				if queueLossy {
					// tasks vanished from / were repeated by the job queue itself (C04's
					// structure): the stream damage is its consequence, counted only
					e.c.Observe("conc.stream_damage_with_queue_miscount", 1)
					continue
				}
				f.Sig = "relay:" + f.Sig[5:]
			}
			if f.Progress == wantProgress {
				first = f
			}
		}
	}
	// a panic with a stack inside the code under test is an observed fact, whatever else went
	// wrong afterwards as its consequence (callbacks of the same check-in are lost)
	for _, f := range st.findings {
		if first == nil && strings.HasPrefix(f.Sig, "panic:") {
			if queuePanic(f.Sig) {
				e.c.Observe("conc.job_queue_panic", 1)
				queueLossy = true
				continue
			}
			first = f
		}
	}
	if first == nil {
		pick(false)
	}
	if first == nil && !hung.Load() {
		if held := heldMutexes(ag, time.Second); len(held) > 0 {
			first = fnd("tables:mutex-held:"+fmt.Sprint(held), "table mutex still locked at quiescence")
		} else {
			ids := ag.socksCliIDs()
			var unexplained []uint32
			for _, id := range ids {
				// a socket whose connect task never reached the agent (lost in the job queue)
				// can be resolved by nobody; that is the queue's loss, not the table's
				if st.byID[id] == nil && queueLossy {
					e.c.Observe("conc.socket_orphaned_by_lost_connect_task", 1)
				} else {
					unexplained = append(unexplained, id)
				}
				ag.checkin(cbClose(id, typeProxy))
			}
			if len(unexplained) > 0 {
				hist := []string{}
				for _, id := range unexplained {
					if cs := st.byID[id]; cs != nil {
						hist = append(hist, fmt.Sprintf("%08x: dst port %d, agent answered success=%v, close task seen=%v, operator-killed=%v, client reset before reply=%v", id, cs.port, cs.port%11 != 0, cs.closedS, st.killed[id], cs.aborted))
					} else {
						hist = append(hist, fmt.Sprintf("%08x: connect task never delivered", id))
					}
				}
				allAborted := true
				for _, id := range unexplained {
					if cs := st.byID[id]; cs == nil || !cs.aborted || cs.port%11 == 0 {
						allAborted = false
					}
				}
				if allAborted {
					// the lock-step streams' class "client resets before the agent's successful outcome"
					first = fnd("close:client-rst-before-outcome:not-propagated", fmt.Sprintf("%d client sockets left in the table at quiescence; each had reset its connection before the agent reported a successful connect", len(unexplained)), "sockets", hist)
				} else {
					first = fnd("tables:leak:SocksCli", fmt.Sprintf("%d client sockets left in the table at quiescence", len(unexplained)), "sockets", hist)
				}
			} else if sv := ag.socksSvrAddrs(); len(sv) > 0 {
				first = fnd("tables:leak:SocksSvr", fmt.Sprintf("proxies %v left in the table after every proxy was killed", sv))
			} else if pf := ag.portFwdIDs(); len(pf) > 0 {
				first = fnd("tables:leak:PortFwds", fmt.Sprintf("%d forwards left in the table at quiescence", len(pf)), "ids", fmt.Sprintf("%08x", pf))
			}
		}
	}
	if first == nil {
		pick(true)
	}
	if first != nil && first.Obs == nil {
		first.Obs = map[string]any{}
	}
	return first, obs
}
