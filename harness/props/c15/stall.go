package c15

import (
	"bytes"
	"fmt"
	"time"

	"verifh/demon"
	"verifh/rig"
)

// ---------------- a client that stops reading ----------------
//
// One SOCKS client stops reading while the agent returns more data for it than the socket
// buffers hold: the write to that client blocks (that request of the agent is stuck, as it
// is with a real slow client). Everything else that uses the same tables must go on:
// another client's bytes still become write tasks, a new client can still connect, the
// proxy list still answers, data for another socket is still written. When the client
// reads again, the whole reply arrives intact.

type StallCase struct {
	Seed int64 `json:"seed"`
	MiB  int   `json:"mib"`
}

func (s *StallCase) key() string { return fmt.Sprintf("T|%d|%d", s.Seed, s.MiB) }

func (ln *lane) runStall(sc *StallCase, bound time.Duration) (f *finding, obs map[string]any) {
	obs = map[string]any{}
	salt := int(sc.Seed%900) + 1
	if salt < 0 {
		salt = -salt
	}
	a, f := ln.connectPlain(salt, bound)
	if f != nil {
		return f, obs
	}
	b, f := ln.connectPlain(salt+1, bound)
	if f != nil {
		a.conn.Close()
		ln.resolve(a.id)
		return f, obs
	}
	var extra *sock
	big := sc.MiB << 20
	want := payload(a.tagA, 0, big)
	stuck := make(chan rig.Resp, 1)
	resumed := false
	resume := func() {
		if !resumed {
			resumed = true
			a.rd.hold.Store(false)
		}
	}
	defer func() {
		resume()
		for _, s := range []*sock{a, b, extra} {
			if s != nil {
				s.conn.Close()
				ln.resolve(s.id)
			}
		}
		ln.poll()
		ln.inbox = nil
	}()

	// the client stops reading after the first 256 KiB of the reply; the reply is sent by a
	// request of its own (the lane's other check-ins go on meanwhile, as a second
	// connection of the agent would)
	a.rd.holdAfter.Store(int64(a.rd.length()) + 256<<10)
	ag := ln.ag
	go func() {
		stuck <- rig.Post(ag.eng, "/", demon.Checkin(ag.ID, ag.Key, ag.IV, cbRead(a.id, typeProxy, want)), nil)
	}()
	// the write has begun once the client holds (it has received its 256 KiB); the rest
	// fills the socket buffers, then the write blocks - unless the buffers take it all
	blocked := false
	for deadline := time.Now().Add(20 * bound); time.Now().Before(deadline) && !a.rd.hold.Load() && len(stuck) == 0; {
		time.Sleep(2 * time.Millisecond)
	}
	if a.rd.hold.Load() {
		time.Sleep(300 * time.Millisecond)
		if len(stuck) == 0 {
			blocked = true
			ln.e.c.Observe("stall.write-blocked-behind-a-client-that-does-not-read", 1)
		}
	}
	obs["write_blocked"] = blocked
	obs["client_had_received"] = a.rd.length()

	if blocked {
		// (1) another client's bytes still reach the agent
		n := 64
		b.conn.SetWriteDeadline(time.Now().Add(5 * bound))
		if _, err := b.conn.Write(payload(b.tagC, b.sentC, n)); err != nil {
			return fnd("relay:c2a:client-write-failed", err.Error()), obs
		}
		b.sentC += n
		deadline := time.Now().Add(bound)
		for len(b.gotC) < b.sentC && time.Now().Before(deadline) {
			if pf, _ := ln.poll(); pf != nil {
				return pf, obs
			}
			ln.collectWrites(b)
			time.Sleep(time.Millisecond)
		}
		if len(b.gotC) < b.sentC {
			resume()
			return progress("stall:other-client-bytes-not-relayed", fmt.Sprintf("while a write to client %08x (which does not read) is blocked, %d bytes written by client %08x did not become a write task within the bound", a.id, n, b.id)), obs
		}
		// (2) data for another socket is still written to its client
		done := make(chan *finding, 1)
		go func() { done <- ln.a2c(b, []int{1000}, bound) }()
		select {
		case pf := <-done:
			if pf != nil {
				resume()
				pf.Obs["while"] = "a write to another client was blocked"
				return pf, obs
			}
		case <-time.After(2 * bound):
			resume()
			<-done
			return progress("stall:other-socket-read-callback-blocked", fmt.Sprintf("while a write to client %08x (which does not read) is blocked, a READ callback for socket %08x did not complete within the bound", a.id, b.id)), obs
		}
		// (3) the proxy list still answers
		if res := ln.e.operator(ln.ag, "socks list", "", bound); res.TimedOut {
			resume()
			return progress("stall:operator-command-blocked", fmt.Sprintf("while a write to client %08x (which does not read) is blocked, `socks list` did not return within the bound", a.id)), obs
		} else if res.Panic != nil {
			return fnd("panic:socks-list", fmt.Sprint(res.Panic), "stack", res.Stack), obs
		}
		// (4) a new client can still connect
		type hs struct {
			s *sock
			f *finding
		}
		hc := make(chan hs, 1)
		go func() {
			s, f := ln.connectPlain(salt+2, bound)
			hc <- hs{s, f}
		}()
		select {
		case r := <-hc:
			extra = r.s
			if r.f != nil {
				resume()
				r.f.Obs["while"] = "a write to another client was blocked"
				if !r.f.Progress {
					r.f = progress("stall:new-client-not-served:"+r.f.Sig, r.f.What)
				}
				return r.f, obs
			}
		case <-time.After(3 * bound):
			resume()
			r := <-hc
			extra = r.s
			return progress("stall:new-client-not-served", fmt.Sprintf("while a write to client %08x (which does not read) is blocked, a new client's CONNECT was not served within the bound", a.id)), obs
		}
		ln.e.c.Observe("stall.others-served-while-one-write-blocked", 1)
	}

	// the client reads again: the whole reply arrives, intact
	resume()
	select {
	case r := <-stuck:
		if r.Panic != nil {
			return fnd("panic:read-callback", fmt.Sprint(r.Panic), "stack", r.Stack), obs
		}
		if r.Status != 200 {
			return fnd("checkin:http-status", fmt.Sprintf("the check-in carrying the large READ callback answered HTTP %d", r.Status)), obs
		}
		if ts, ok := demon.ParseTasks(r.Body, ag.Key, ag.IV); ok {
			for _, t := range ts {
				if t.Cmd == demon.CmdSocket {
					ln.inbox = append(ln.inbox, decodeSock(t.Body))
				}
			}
		}
	case <-time.After(20 * bound):
		return progress("stall:write-never-completed", fmt.Sprintf("the client reads again, but the blocked write of %d MiB did not complete", sc.MiB)), obs
	}
	a.totalA += big
	a.sentA = append(a.sentA, big)
	a.rd.waitLen(a.totalA, 20*bound)
	got := a.rd.snapshot()
	if !bytes.Equal(got, want) {
		class, at, detail := diffStream(want, got)
		if class == "short" {
			return progress("relay:a2c:short", fmt.Sprintf("agent sent %d bytes, the client received %d within the bound", big, len(got))), obs
		}
		return fnd("relay:a2c:"+class, fmt.Sprintf("agent->client stream of socket %08x (one %d MiB read, client paused in between): %s", a.id, sc.MiB, detail), "offset", at), obs
	}
	ln.e.c.Observe("stall.large-reply-intact-bytes", int64(big))
	return nil, obs
}
