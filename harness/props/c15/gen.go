package c15

// Case lists. The handshake space named in DESIGN §3 C15 is enumerated completely in
// every tier (method lists of length 0..3 over {00,01,02,80,FF}; commands 0..4; address
// kinds v4, v6, domain of length 0/1/127/255, undefined types 0 and 5; both agent
// outcomes with the error codes the reply mapping distinguishes; truncation at every
// byte; every single cut of every message). Tiers differ in how many random multi-cuts,
// relay chunkings and concurrent scenarios are added, and in whether the long domain
// requests get every single cut (thorough) or the structural ones plus a sample (quick).

import (
	"math/rand"
)

var methodAlphabet = []byte{0x00, 0x01, 0x02, 0x80, 0xFF}

type addrKind struct {
	Name string
	Atyp byte
	Len  int
}

var addrKinds = []addrKind{
	{"v4", atypV4, 4}, {"v6", atypV6, 16},
	{"dom0", atypDom, 0}, {"dom1", atypDom, 1}, {"dom127", atypDom, 127}, {"dom255", atypDom, 255},
	{"atyp0", 0x00, 6}, {"atyp5", 0x05, 6},
}

type outcome struct {
	Success bool
	Err     uint32
}

var outcomes = []outcome{{true, 0}, {false, wsaConnRefused}, {false, wsaTimedOut}, {false, wsaHostUnreach}, {false, wsaNetUnreach}, {false, 5}}

// addrBytes gives every address distinct, position-revealing content: no byte equals its
// neighbour, no zero byte (a C-string reader would stop), and domain bytes are printable.
func addrBytes(k addrKind, salt int) []byte {
	b := make([]byte, k.Len)
	for i := range b {
		if k.Atyp == atypDom {
			b[i] = "abcdefghijklmnopqrstuvwxyz0123456789-."[(i*7+salt)%38]
		} else {
			b[i] = byte(1 + (i*37+salt*11)%254)
		}
	}
	return b
}

// portFor avoids palindromic ports so that a byte-order slip is visible.
func portFor(salt int) uint16 {
	p := uint16(0x1F90 + salt*0x0101%0x6000)
	if p>>8 == p&0xff {
		p++
	}
	return p
}

func allMethodLists() [][]byte {
	out := [][]byte{{}}
	for n := 1; n <= 3; n++ {
		idx := make([]int, n)
		for {
			l := make([]byte, n)
			for i, j := range idx {
				l[i] = methodAlphabet[j]
			}
			out = append(out, l)
			k := n - 1
			for k >= 0 {
				idx[k]++
				if idx[k] < len(methodAlphabet) {
					break
				}
				idx[k] = 0
				k--
			}
			if k < 0 {
				break
			}
		}
	}
	return out
}

var relaySizes = []int{1, 2, 3, 4, 5, 7, 8, 15, 16, 17, 63, 64, 255, 256, 1000, 1460, 4095, 4096, 4097, 8192, 32768, 65535, 65536, 65537, 100000, 131072, 262144}

func base(k addrKind, salt int) StreamCase {
	return StreamCase{Ver: socksVer, Methods: []byte{0x00}, Cmd: cmdConnect, Atyp: k.Atyp, Addr: addrBytes(k, salt),
		Port: portFor(salt), Trunc: -1, Success: true, Close: "agent"}
}

// Case is the unit of work and of replay.
type Case struct {
	Kind   string      `json:"kind"` // stream | multi | rport | oper | conc | stall
	Class  string      `json:"class"`
	Stream *StreamCase `json:"stream,omitempty"`
	Multi  *MultiCase  `json:"multi,omitempty"`
	Rport  *RportCase  `json:"rport,omitempty"`
	Oper   *OperCase   `json:"oper,omitempty"`
	Conc   *ConcCase   `json:"conc,omitempty"`
	Stall  *StallCase  `json:"stall,omitempty"`
}

func (c *Case) key() string {
	switch c.Kind {
	case "stream":
		return c.Stream.key()
	case "multi":
		return c.Multi.key()
	case "rport":
		return c.Rport.key()
	case "oper":
		return c.Oper.key()
	case "conc":
		return c.Conc.key()
	case "stall":
		return c.Stall.key()
	}
	return c.Kind
}

type plan struct {
	streams    []Case // lock-step and pipelined streams, relay and close cases: run on parallel lanes
	scenarios  []Case // multi-socket, rportfwd, operator: run on parallel lanes too (own agents)
	concurrent []Case // run one at a time
	exhaustive bool
}

func randomCuts(rng *rand.Rand, n, k int) []int {
	if n < 2 {
		return nil
	}
	seen := map[int]bool{}
	var out []int
	for i := 0; i < k; i++ {
		c := 1 + rng.Intn(n-1)
		if !seen[c] {
			seen[c] = true
			out = append(out, c)
		}
	}
	// ascending
	for i := range out {
		for j := i + 1; j < len(out); j++ {
			if out[j] < out[i] {
				out[i], out[j] = out[j], out[i]
			}
		}
	}
	return out
}

func randomSizes(rng *rand.Rand, n int, maxTotal int) []int {
	var out []int
	total := 0
	for i := 0; i < n; i++ {
		s := relaySizes[rng.Intn(len(relaySizes))]
		if rng.Intn(4) == 0 {
			s = 1 + rng.Intn(70000)
		}
		if total+s > maxTotal {
			continue
		}
		total += s
		out = append(out, s)
	}
	if len(out) == 0 {
		out = []int{1 + rng.Intn(64)}
	}
	return out
}

// buildPlan derives the whole case list from (seed, tier); shards pick their share.
func buildPlan(seed int64, thorough bool) *plan {
	rng := rand.New(rand.NewSource(seed*7919 + 15))
	p := &plan{exhaustive: true}
	add := func(class string, sc StreamCase) {
		c := sc
		p.streams = append(p.streams, Case{Kind: "stream", Class: class, Stream: &c})
	}
	salt := 0
	next := func() int { salt++; return salt }
	closeKinds := []string{"agent", "rst", "agent", "rst", "agent", "fin", "agent", "rst"}

	// A. every method list; those offering X'00' go on with a rotating CONNECT
	for i, ml := range allMethodLists() {
		k := addrKinds[i%6]
		sc := base(k, next())
		sc.Methods = ml
		o := outcomes[i%len(outcomes)]
		sc.Success, sc.ErrCode = o.Success, o.Err
		sc.Close = closeKinds[i%len(closeKinds)]
		if sc.Success {
			sc.C2A, sc.A2C = []int{8 + i%50}, []int{4 + i%60}
		}
		add("negotiation", sc)
	}
	// a few greetings of another protocol version: nothing may be selected or queued
	for _, v := range []byte{0x04, 0x00, 0x06} {
		sc := base(addrKinds[0], next())
		sc.Ver = v
		add("negotiation-version", sc)
	}
	// B. every command x address kind x outcome
	for cmd := byte(0); cmd <= 4; cmd++ {
		for _, k := range addrKinds {
			for oi, o := range outcomes {
				valid := k.Atyp == atypV4 || k.Atyp == atypV6 || k.Atyp == atypDom
				if (cmd != cmdConnect || !valid) && oi > 0 {
					continue // the agent is never asked
				}
				sc := base(k, next())
				sc.Cmd = cmd
				sc.Methods = [][]byte{{0}, {2, 0}, {1, 2, 0}, {0, 0xFF}}[salt%4]
				sc.Success, sc.ErrCode = o.Success, o.Err
				sc.Close = closeKinds[salt%len(closeKinds)]
				if sc.Success {
					sc.C2A, sc.A2C = []int{16}, []int{16}
				}
				add("request", sc)
			}
		}
	}
	// C. truncation at every byte
	for _, k := range addrKinds {
		for _, cmd := range []byte{cmdConnect, 2} {
			if cmd == 2 && k.Name != "v4" && k.Name != "dom1" {
				continue
			}
			sc := base(k, next())
			sc.Cmd = cmd
			sc.Methods = []byte{2, 0}
			total := len(sc.greeting()) + len(sc.request())
			for t := 0; t < total; t++ {
				c := sc
				c.Trunc = t
				add("truncated", c)
			}
		}
	}
	// D. every single cut of every message
	for _, ml := range [][]byte{{0}, {1, 0}, {2, 1, 0}} {
		for cut := 1; cut < 2+len(ml); cut++ {
			sc := base(addrKinds[0], next())
			sc.Methods = ml
			sc.GCut, sc.GapMs = []int{cut}, 1+cut%2
			add("cut-greeting", sc)
		}
	}
	for _, k := range addrKinds[:6] {
		sc := base(k, next())
		n := len(sc.request())
		for cut := 1; cut < n; cut++ {
			if !thorough && n > 40 {
				// structural cuts and a sample of the interior
				structural := cut <= 6 || cut >= n-3
				if !structural && rng.Intn(n/24) != 0 {
					p.exhaustive = false
					continue
				}
			}
			c := sc
			c.RCut, c.GapMs = []int{cut}, 1+cut%2
			o := outcomes[cut%2]
			c.Success, c.ErrCode = o.Success, o.Err
			if c.Success {
				c.C2A, c.A2C = []int{12}, []int{12}
			}
			c.Close = closeKinds[cut%4] // agent | rst
			add("cut-request", c)
		}
	}
	// E. random multi-cuts of both messages
	nMulti := 200
	if thorough {
		nMulti = 8000
	}
	for i := 0; i < nMulti; i++ {
		k := addrKinds[rng.Intn(6)]
		sc := base(k, next())
		sc.Methods = allMethodLists()[1+rng.Intn(155)]
		if rng.Intn(3) > 0 {
			sc.Methods = append(sc.Methods, 0)
			if len(sc.Methods) > 3 {
				sc.Methods = sc.Methods[1:]
			}
		}
		sc.GCut = randomCuts(rng, len(sc.greeting()), 1+rng.Intn(3))
		sc.RCut = randomCuts(rng, len(sc.request()), 1+rng.Intn(5))
		sc.GapMs = 1 + rng.Intn(2)
		o := outcomes[rng.Intn(len(outcomes))]
		sc.Success, sc.ErrCode = o.Success, o.Err
		if sc.Success {
			sc.C2A, sc.A2C = []int{1 + rng.Intn(100)}, []int{4 + rng.Intn(100)}
		}
		sc.Close = closeKinds[rng.Intn(4)]
		add("multicut", sc)
	}
	// F. pipelined clients (counted, never a verdict)
	nPipe := 48
	if thorough {
		nPipe = 600
	}
	for i := 0; i < nPipe; i++ {
		sc := base(addrKinds[rng.Intn(6)], next())
		sc.Pipe = 1 + i%2
		sc.C2A = []int{1 + rng.Intn(2000)}
		add("pipelined", sc)
	}
	// G. relay chunkings 1 B .. 256 KiB, both directions, with the three ways to close
	for i, n := range relaySizes {
		sc := base(addrKinds[i%6], next())
		sc.C2A, sc.A2C = []int{n}, []int{n}
		sc.Close = closeKinds[i%len(closeKinds)]
		add("relay-single", sc)
	}
	nRelay := 120
	maxTotal := 600 << 10
	if thorough {
		nRelay = 4000
		maxTotal = 3 << 20
	}
	for i := 0; i < nRelay; i++ {
		sc := base(addrKinds[rng.Intn(6)], next())
		sc.C2A = randomSizes(rng, 1+rng.Intn(12), maxTotal)
		sc.A2C = randomSizes(rng, 1+rng.Intn(12), maxTotal)
		sc.RelayGapMs = []int{0, 0, 1, 2}[rng.Intn(4)]
		sc.Interleave = rng.Intn(3) == 0
		sc.Close = closeKinds[rng.Intn(len(closeKinds))]
		add("relay", sc)
	}
	// H. the client leaves before the agent has answered
	nEarly := 12
	if thorough {
		nEarly = 96
	}
	for i := 0; i < nEarly; i++ {
		sc := base(addrKinds[i%6], next())
		sc.Close = []string{"early-fin", "early-rst"}[i%2]
		o := outcomes[(i/2)%2]
		sc.Success, sc.ErrCode = o.Success, o.Err
		add("early-close", sc)
	}

	// I..L scenarios
	nScen := 24
	if thorough {
		nScen = 480
	}
	for i := 0; i < nScen; i++ {
		p.scenarios = append(p.scenarios, Case{Kind: "multi", Class: "multi-socket", Multi: &MultiCase{K: 2 + i%3, Seed: rng.Int63(), Steps: 12 + rng.Intn(20)}})
	}
	for i := 0; i < nScen; i++ {
		rc := &RportCase{Seed: rng.Int63(), A2T: randomSizes(rng, 1+rng.Intn(6), maxTotal/2), T2A: randomSizes(rng, 1+rng.Intn(6), maxTotal/2), Mode: "half-close"}
		if i%8 == 7 {
			rc.Mode = "keep-open"
		}
		if i%4 == 1 {
			rc.Mode = "reuse-after-refused"
		}
		p.scenarios = append(p.scenarios, Case{Kind: "rport", Class: "rportfwd", Rport: rc})
	}
	nStall := 6
	if thorough {
		nStall = 60
	}
	for i := 0; i < nStall; i++ {
		p.scenarios = append(p.scenarios, Case{Kind: "stall", Class: "stalled-client", Stall: &StallCase{Seed: rng.Int63(), MiB: 24 + 8*(i%3)}})
	}
	operKinds := []OperCase{{Op: "clear", N: 1}, {Op: "clear", N: 2}, {Op: "clear", N: 3}, {Op: "kill", N: 3, I: 0}, {Op: "kill", N: 3, I: 1}, {Op: "kill", N: 3, I: 2},
		{Op: "kill", N: 1, I: 0}, {Op: "add-dup", N: 1}, {Op: "kill-absent", N: 2}, {Op: "clear", N: 0}}
	reps := 1
	if thorough {
		reps = 8
	}
	for r := 0; r < reps; r++ {
		for _, ok := range operKinds {
			o := ok
			o.Rep = r
			p.scenarios = append(p.scenarios, Case{Kind: "oper", Class: "operator", Oper: &o})
		}
	}
	nConc := 32
	if thorough {
		nConc = 480
	}
	for i := 0; i < nConc; i++ {
		p.concurrent = append(p.concurrent, Case{Kind: "conc", Class: "concurrent", Conc: &ConcCase{Seed: rng.Int63(), Clients: 16, Proxies: 2 + i%3, Rounds: 3 + i%2, Rport: 1 + i%3}})
	}
	return p
}
