package c15

import (
	"encoding/binary"
	"encoding/json"
	"fmt"
	"hash/fnv"
	"os"
	"path/filepath"
	"sort"
	"strconv"
	"strings"
	"sync"
	"time"

	"verifh/lib"
)

func init() { lib.Register("C15", run) }

const (
	lanesPerShard = 8
)

type witness struct {
	Case     Case           `json:"case"`
	Finding  *finding       `json:"finding"`
	Observed map[string]any `json:"observed,omitempty"`
	Reruns   []string       `json:"reruns,omitempty"`
	BoundMs  int64          `json:"bound_ms"`
}

type runner struct {
	hmu    sync.Mutex
	hashes map[uint64]struct{}
	e      *env
	c      *lib.Ctx
	mu     sync.Mutex
	cands  map[string][]Case // progress candidates by signature
	order  []string
	noClear bool
}

func run(c *lib.Ctx) {
	c.Rule("a case is one client byte stream (method list, command, address kind/length, port, truncation point, chunk cuts, pipelining), " +
		"the agent's outcome, the relay chunking in both directions and the way the socket is closed; or one scripted multi-socket / " +
		"reverse-port-forward / operator-command / concurrent scenario identified by its parameters and seed. Every case drives the real " +
		"proxy over loopback TCP and the real callback dispatcher; none is trivial")
	c.Assume("the reference Demon codec (verifh/demon) frames check-ins and decodes tasks as the Demon does",
		"loopback TCP delivers a segment written after a pause of >= 1 ms separately from the previous one (used only to provoke segmentation; a verdict never depends on it)",
		"a missing reply/task is reported only after it was missing within the bound again, twice, with a 3x bound and nothing else running in the worker",
		"pipelined clients (greeting+request or request+payload in one segment) are counted, not judged",
		"damage to a client->agent stream under concurrency is attributed to the job queue (property C04) when the queue's own add counter differs from the number of tasks delivered")
	e, err := newEnv(c)
	if err != nil {
		c.Inconclusive("rig could not be built: " + err.Error())
		return
	}
	defer e.r.Close()
	r := &runner{e: e, c: c, cands: map[string][]Case{}, hashes: map[uint64]struct{}{}}
	if c.Replay != nil {
		r.replay()
		return
	}
	p := buildPlan(c.Seed, c.Thorough())
	if v := os.Getenv("C15_ONLY"); v != "" {
		keep := func(in []Case) (out []Case) {
			for _, cs := range in {
				if strings.Contains(","+v+",", ","+cs.Class+",") {
					out = append(out, cs)
				}
			}
			return
		}
		p.streams, p.scenarios, p.concurrent = keep(p.streams), keep(p.scenarios), keep(p.concurrent)
	}
	var mine []Case
	idx := 0
	for _, cs := range append(append([]Case{}, p.streams...), p.scenarios...) {
		if c.Mine(idx) {
			mine = append(mine, cs)
		}
		idx++
	}
	// ---- phase 1: parallel lanes, one agent and proxy each ----
	work := make(chan Case, len(mine))
	for _, cs := range mine {
		work <- cs
	}
	close(work)
	var wg sync.WaitGroup
	tPhase := time.Now()
	for li := 0; li < lanesPerShard; li++ {
		wg.Add(1)
		go func(li int) {
			defer wg.Done()
			ln, err := r.freshLane(fmt.Sprintf("lane%d", li))
			if err != nil {
				c.Inconclusive("lane could not be set up: " + err.Error())
				return
			}
			for cs := range work {
				ln = r.doCase(ln, cs)
				if ln == nil {
					return
				}
			}
			r.retire(ln)
		}(li)
	}
	wg.Wait()
	c.ObserveMax("max:phase_ms.lanes", time.Since(tPhase).Milliseconds())
	tPhase = time.Now()
	r.checkpoint()
	// ---- phase 2: progress candidates, alone ----
	r.settleCandidates()
	c.ObserveMax("max:phase_ms.settle", time.Since(tPhase).Milliseconds())
	tPhase = time.Now()
	r.checkpoint()
	// ---- phase 3: concurrent scenarios, one at a time ----
	if len(p.concurrent) > 0 {
		// does `socks clear` with two proxies wedge the agent on this tree? (decided and
		// reported by the operator scenarios; here it only shapes the command mix)
		f, _ := e.runOper(&OperCase{Op: "clear", N: 2, Rep: -1}, e.bound)
		r.noClear = f != nil
		c.Note("conc.socks_clear_excluded", r.noClear)
	}
	for i, cs := range p.concurrent {
		if !c.Mine(i) {
			continue
		}
		cs.Conc.NoClear = r.noClear
		r.doConc(cs)
		r.checkpoint()
	}
	r.settleCandidates()
	c.ObserveMax("max:phase_ms.concurrent", time.Since(tPhase).Milliseconds())
	c.Exhaustive(p.exhaustive)
	for k, v := range hookHits() {
		c.Observe("hook."+k, v)
	}
	c.Observe("queue.adds_without_receiver_address", addsNoAddr.Load())
}

// distinct registers a case key with the driver contract and remembers its hash, so that
// checkpoint can leave the shard's hashes file behind even if the process is later killed by
// a fatal error in the code under test (lib writes that file only when the worker finishes;
// the concurrent phase regularly dies on the unchanged tree, see known findings).
func (r *runner) distinct(key string) {
	r.c.Distinct(key)
	h := fnv.New64a()
	h.Write([]byte(key))
	r.hmu.Lock()
	r.hashes[h.Sum64()] = struct{}{}
	r.hmu.Unlock()
}

func (r *runner) checkpoint() {
	r.c.Checkpoint()
	r.hmu.Lock()
	hs := make([]uint64, 0, len(r.hashes))
	for h := range r.hashes {
		hs = append(hs, h)
	}
	r.hmu.Unlock()
	sort.Slice(hs, func(i, j int) bool { return hs[i] < hs[j] })
	buf := make([]byte, 8*len(hs))
	for i, h := range hs {
		binary.LittleEndian.PutUint64(buf[8*i:], h)
	}
	tmp := filepath.Join(r.c.Out, fmt.Sprintf("hashes-%d.bin.tmp", r.c.Shard))
	if os.WriteFile(tmp, buf, 0o644) == nil {
		os.Rename(tmp, filepath.Join(r.c.Out, fmt.Sprintf("hashes-%d.bin", r.c.Shard)))
	}
}

func (r *runner) freshLane(name string) (*lane, error) {
	ln, err := r.e.newLane(name)
	if err != nil {
		return nil, err
	}
	port, err := ln.addProxy()
	if err != nil {
		return nil, err
	}
	ln.port = port
	// the accept probe of addProxy left nothing behind
	ln.poll()
	ln.inbox = nil
	return ln, nil
}

// retire: end-of-lane invariants (nothing leaked over the whole lane history).
func (r *runner) retire(ln *lane) {
	time.Sleep(20 * time.Millisecond)
	ln.poll()
	if adds, handed, off := ln.ag.queueMiscount(); off {
		r.c.Observe("lane.queue_miscount_at_retire", 1)
		_ = adds
		_ = handed
	} else {
		r.c.Observe("lane.queue_balanced_at_retire", 1)
		r.c.Observe("lane.queue_adds_accounted", adds)
	}
	if left := ln.leftovers(); len(left) > 0 {
		r.c.Violation("task:unexpected", "tasks nobody asked for appeared after the last case of a lane", map[string]any{"tasks": left})
	}
	if ids := ln.ag.socksCliIDs(); len(ids) > 0 {
		r.c.Violation("tables:leak:SocksCli", fmt.Sprintf("%d client sockets left in the table after every case of the lane was closed and judged", len(ids)), map[string]any{"ids": fmt.Sprintf("%08x", ids)})
	}
	if held := heldMutexes(ln.ag, 300*time.Millisecond); len(held) > 0 {
		r.c.Violation("tables:mutex-held:"+strings.Join(held, "+"), "table mutex locked with nothing running", nil)
		return
	}
	r.e.operator(ln.ag, "socks kill", strconv.Itoa(ln.port), 10*time.Second)
}

func (r *runner) exec(ln *lane, cs Case, bound time.Duration) (*finding, map[string]any) {
	switch cs.Kind {
	case "stream":
		return ln.runStream(cs.Stream, bound)
	case "multi":
		return ln.runMulti(cs.Multi, bound)
	case "rport":
		return ln.runRport(cs.Rport, bound)
	case "oper":
		return r.e.runOper(cs.Oper, bound)
	case "conc":
		return r.e.runConc(cs.Conc, bound)
	case "stall":
		return ln.runStall(cs.Stall, bound)
	}
	return fnd("infra:unknown-case-kind", cs.Kind), nil
}

// doCase runs one case on a lane, confirms a deterministic finding by an immediate second
// run, and files progress candidates for the isolated re-runs. It returns the lane to go on
// with (a fresh one if the old lane's state is in doubt).
func (r *runner) doCase(ln *lane, cs Case) *lane {
	c := r.c
	r.e.setCur(ln.name, cs)
	c.Eval()
	r.distinct(cs.key())
	c.Observe("cases."+cs.Class, 1)
	t0 := time.Now()
	f, obs := r.exec(ln, cs, r.e.bound)
	r.count(cs, f, obs)
	c.SampleSome(400, func() any { return map[string]any{"case": cs, "observed": obs, "finding": f} })
	if f == nil {
		return ln
	}
	pipelined := cs.Kind == "stream" && cs.Stream.Pipe != 0
	switch {
	case strings.HasPrefix(f.Sig, "infra:"):
		c.Inconclusive(fmt.Sprintf("%s: %s (%s)", f.Sig, f.What, cs.Class))
	case pipelined:
		c.Observe("pipelined.anomaly."+f.Sig, 1)
	case strings.HasPrefix(f.Sig, "panic:") && queuePanic(f.Sig):
		c.Observe("lane.job_queue_panic", 1) // Agent.JobQueue is property C04's structure
	case cs.Kind != "oper" && r.queueBlamed(ln, f):
		c.Observe("lane.anomaly_with_queue_miscount."+f.Sig, 1)
	case f.Progress:
		fmt.Fprintf(os.Stderr, "%s CAND %s lane=%s agent=%s class=%s took=%v key=%s\n", time.Now().Format("15:04:05.000"), f.Sig, ln.name, ln.ag.Name, cs.Class, time.Since(t0), cs.key())
		r.mu.Lock()
		if _, ok := r.cands[f.Sig]; !ok {
			r.order = append(r.order, f.Sig)
		}
		r.cands[f.Sig] = append(r.cands[f.Sig], cs)
		r.mu.Unlock()
		c.Observe("candidate."+f.Sig, 1)
	default:
		// deterministic monitors are replayed once before being reported (DESIGN §2.6)
		nl, err := r.freshLane(ln.name)
		if err != nil {
			c.Inconclusive("no fresh lane for the confirmation run: " + err.Error())
			return nil
		}
		r.retireQuiet(ln)
		ln = nl
		f2, obs2 := r.exec(ln, cs, r.e.bound)
		if f2 != nil && f2.Sig == f.Sig {
			c.Violation(f.Sig, f.What, witness{Case: cs, Finding: f, Observed: obs, Reruns: []string{describe(f2, obs2)}, BoundMs: r.e.bound.Milliseconds()})
		} else {
			c.Inconclusive(fmt.Sprintf("candidate %s (%s) did not reproduce when the case was run again: %s", f.Sig, cs.Class, describe(f2, obs2)))
		}
	}
	if cs.Kind != "oper" {
		// a lane that has seen an anomaly is not reused
		nl, err := r.freshLane(ln.name)
		if err != nil {
			c.Inconclusive("no fresh lane: " + err.Error())
			return nil
		}
		r.retireQuiet(ln)
		return nl
	}
	return ln
}

// queueBlamed: the lane's agent was handed a different number of tasks than were added to
// its queue. Tasks vanish or repeat in the unlocked Agent.JobQueue itself (DESIGN §4 #7,
// property C04); whatever stream damage, missing or surplus task this case shows is then not
// evidence about the relay code.
func (r *runner) queueBlamed(ln *lane, f *finding) bool {
	if ln == nil || ln.ag == nil {
		return false
	}
	// drain what is still queued
	for i := 0; i < 50; i++ {
		time.Sleep(2 * time.Millisecond)
		if _, more := ln.poll(); !more {
			break
		}
	}
	ln.inbox = nil
	adds, handed, off := ln.ag.queueMiscount()
	if off && f.Obs != nil {
		f.Obs["queue_adds"], f.Obs["tasks_handed"] = adds, handed
	}
	return off
}

func (r *runner) retireQuiet(ln *lane) {
	for _, id := range ln.ag.socksCliIDs() {
		ln.poll(cbClose(id, typeProxy))
	}
	if len(heldMutexes(ln.ag, 50*time.Millisecond)) == 0 {
		r.e.operator(ln.ag, "socks kill", strconv.Itoa(ln.port), 10*time.Second)
	}
}

func describe(f *finding, obs map[string]any) string {
	if f == nil {
		return "no anomaly"
	}
	return f.Sig + ": " + f.What
}

func (r *runner) count(cs Case, f *finding, obs map[string]any) {
	c := r.c
	if cs.Kind != "stream" {
		c.Observe("scenarios."+cs.Kind, 1)
		return
	}
	sc := cs.Stream
	if sc.Pipe != 0 {
		c.Observe("streams.pipelined", 1)
		if f == nil {
			c.Observe("pipelined.served", 1)
		}
		return
	}
	c.Observe("streams.lockstep", 1)
	if sc.Trunc >= 0 {
		c.Observe("streams.truncated", 1)
	}
	if len(sc.GCut)+len(sc.RCut) > 0 {
		c.Observe("streams.segmented", 1)
	}
	if _, ok := obs["connect_task"]; ok {
		c.Observe("connect_tasks_checked", 1)
	}
	if _, ok := obs["reply"]; ok {
		c.Observe("replies_checked", 1)
	}
	if _, ok := obs["refusal"]; ok {
		c.Observe("refusals_checked", 1)
	}
	if f == nil && sc.Success && sc.Trunc < 0 && !strings.HasPrefix(sc.Close, "early") {
		if p := Parse(append(sc.greeting(), sc.request()...)); p.Proceeds() && sc.Cmd == cmdConnect && p.AtypValid {
			n := 0
			for _, x := range sc.C2A {
				n += x
			}
			c.Observe("relay.bytes_c2a", int64(n))
			n = 0
			for _, x := range sc.A2C {
				n += x
			}
			c.Observe("relay.bytes_a2c", int64(n))
			c.Observe("closes_checked."+sc.Close, 1)
		}
	}
}

// settleCandidates re-runs progress candidates after the workload of the phase has ended:
// each on an agent and proxy of its own, twice, with three times the bound. Per signature
// the first candidate decides; if it does not reproduce the next one is tried (at most
// three). The handful of signatures are settled side by side (each is mostly waiting).
func (r *runner) settleCandidates() {
	r.mu.Lock()
	order := r.order
	cands := r.cands
	r.order, r.cands = nil, map[string][]Case{}
	r.mu.Unlock()
	var wg sync.WaitGroup
	for _, sig := range order {
		wg.Add(1)
		go func(sig string, list []Case) {
			defer wg.Done()
			r.settleOne(sig, list)
		}(sig, cands[sig])
	}
	wg.Wait()
}

func (r *runner) settleOne(sig string, list []Case) {
	c := r.c
	for try := 0; try < len(list) && try < 3; try++ {
		cs := list[try]
		r.e.setCur("isolated:"+sig, cs)
		var runs []string
		ok := 0
		var firstF *finding
		var firstObs map[string]any
		for k := 0; k < 2; k++ {
			f, obs := r.execFresh(cs, 3*r.e.bound)
			runs = append(runs, describe(f, obs))
			if f != nil && f.Sig == sig {
				ok++
				if firstF == nil {
					firstF, firstObs = f, obs
				}
			}
		}
		r.e.clearCur("isolated:" + sig)
		if ok == 2 {
			c.Violation(sig, firstF.What, witness{Case: cs, Finding: firstF, Observed: firstObs, Reruns: runs, BoundMs: 3 * r.e.bound.Milliseconds()})
			c.Observe("candidates_confirmed", 1)
			if n := len(list) - try - 1; n > 0 {
				c.Observe("candidates_same_signature_not_rerun", int64(n))
			}
			return
		}
		c.Inconclusive(fmt.Sprintf("watchdog candidate %s (%s) reproduced in %d of 2 isolated re-runs: %v", sig, cs.Class, ok, runs))
	}
}

// execFresh runs a case on a lane of its own.
func (r *runner) execFresh(cs Case, bound time.Duration) (*finding, map[string]any) {
	if cs.Kind == "oper" || cs.Kind == "conc" {
		return r.exec(nil, cs, bound)
	}
	ln, err := r.freshLane("isolated")
	if err != nil {
		return fnd("infra:lane", err.Error()), nil
	}
	defer r.retireQuiet(ln)
	return r.exec(ln, cs, bound)
}

func (r *runner) doConc(cs Case) {
	c := r.c
	r.e.setCur("conc", cs)
	c.Eval()
	r.distinct(cs.key())
	c.Observe("cases."+cs.Class, 1)
	c.Observe("scenarios.conc", 1)
	f, obs := r.e.runConc(cs.Conc, r.e.bound)
	c.SampleSome(7, func() any { return map[string]any{"case": cs, "observed": obs, "finding": f} })
	if f == nil {
		return
	}
	if strings.HasPrefix(f.Sig, "infra:") {
		c.Inconclusive(f.Sig + ": " + f.What)
		return
	}
	if f.Progress && !strings.HasPrefix(f.Sig, "operator:") && f.Sig != "conc:no-quiescence" {
		// "too slow" under sixteen busy clients is no verdict; missing progress is decided by
		// the lock-step streams. Only a wedged operator command / scenario is followed up.
		c.Observe("conc.progress_anomaly."+f.Sig, 1)
		return
	}
	if f.Progress {
		r.mu.Lock()
		if _, ok := r.cands[f.Sig]; !ok {
			r.order = append(r.order, f.Sig)
		}
		r.cands[f.Sig] = append(r.cands[f.Sig], cs)
		r.mu.Unlock()
		c.Observe("candidate."+f.Sig, 1)
		return
	}
	if strings.HasPrefix(f.Sig, "panic:") {
		// observed with its stack: nothing to infer, nothing to reproduce
		c.Violation(f.Sig, f.What, witness{Case: cs, Finding: f, Observed: obs, BoundMs: r.e.bound.Milliseconds()})
		return
	}
	// schedules differ from run to run: the same scenario is run up to two more times
	var runs []string
	for k := 0; k < 2; k++ {
		f2, obs2 := r.e.runConc(cs.Conc, r.e.bound)
		runs = append(runs, describe(f2, obs2))
		if f2 != nil && f2.Sig == f.Sig {
			c.Violation(f.Sig, f.What, witness{Case: cs, Finding: f, Observed: obs, Reruns: runs, BoundMs: r.e.bound.Milliseconds()})
			return
		}
	}
	c.Inconclusive(fmt.Sprintf("concurrent scenario seed %d: %s seen once, not again in 2 further runs (%v)", cs.Conc.Seed, f.Sig, runs))
}

// replay re-runs exactly one witnessed case.
func (r *runner) replay() {
	c := r.c
	var w witness
	if err := json.Unmarshal(c.Replay, &w); err != nil || w.Case.Kind == "" {
		c.Inconclusive("replay file holds no C15 case (race and crash witnesses are re-found by running the tier again)")
		return
	}
	cs := w.Case
	r.e.setCur("replay", cs)
	c.Eval()
	r.distinct(cs.key())
	tries := 1
	if cs.Kind == "conc" {
		tries = 4
	}
	bound := 3 * r.e.bound
	for k := 0; k < tries; k++ {
		f, obs := r.execFresh(cs, bound)
		if f == nil {
			continue
		}
		if f.Progress {
			f2, obs2 := r.execFresh(cs, bound)
			if f2 == nil || f2.Sig != f.Sig {
				c.Inconclusive("watchdog candidate did not reproduce twice: " + describe(f, obs) + " / " + describe(f2, obs2))
				continue
			}
		}
		c.Violation(f.Sig, f.What, witness{Case: cs, Finding: f, Observed: obs, BoundMs: bound.Milliseconds()})
		return
	}
}
